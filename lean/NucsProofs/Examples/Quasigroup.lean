import NucsProofs.Examples.LatinSquare
/-!
  C20 for `LatinSquareRCProblem(n)`, `QuasigroupProblem(n, symmetry_breaking)` and
  `Quasigroup5Problem(n, symmetry_breaking)` (/repo/nucs/problems/latin_square_problem.py,
  /repo/nucs/examples/quasigroup/quasigroup_problem.py), for every `n` (no side condition).

  A solution has `3 n²` entries: the colour model `colour[i, j] = σ[i n + j]`, then the row model
  `row[c, j] = σ[n² + c n + j]` (indexed by colours then columns), then the column model
  `column[i, c] = σ[2 n² + i n + c]` (indexed by rows then colours).

  * `C20_latinSquareRC` : the solutions are the Latin squares with their two dual models;
  * `C20_quasigroup`    : … that are idempotent;
  * `C20_quasigroup5`   : … and satisfy `((b ∗ a) ∗ b) ∗ b = a`;
  * `_sb`               : the symmetry-breaking variants accept exactly the solutions of the plain
    model with `i - 1 ≤ colour[i, n-1]` (`1 ≤ i < n`).  The symmetry-breaking edit of
    `cell(n-1, n-1)` OVERWRITES the idempotence edit `[n-1, n-1]` of the colour model with
    `[n-2, n-1]` (Python does the same); this loses nothing, because the idempotence edit of the row
    model (`row[n-1, n-1] = n-1`) and the channelling constraint `colour[row[c, j], j] = c` give
    `colour[n-1, n-1] = n-1` back.
-/
namespace Nucs
open Ex

/-- `solution[cell(i, j, model)]`: entry `(i, j)` of model `model` (0 colour, 1 row, 2 column) -/
def rcCell (n : Nat) (σ : List Int) (model i j : Nat) : Int := getI σ (model * (n * n) + i * n + j)

/-- the colour model: `colour[i, j]`, the colour of cell `(i, j)` -/
abbrev rcColour (n : Nat) (σ : List Int) (i j : Nat) : Int := rcCell n σ 0 i j
/-- the row model, indexed by colours then columns: `row[c, j]` -/
abbrev rcRow (n : Nat) (σ : List Int) (c j : Nat) : Int := rcCell n σ 1 c j
/-- the column model, indexed by rows then colours: `column[i, c]` -/
abbrev rcColumn (n : Nat) (σ : List Int) (i c : Nat) : Int := rcCell n σ 2 i c

/-- a solution of the three-model formulation of Latin squares (`LatinSquareRCProblem`): `3 n²`
    entries; the first `n²` are a Latin square of order `n` over `0 … n-1` (the colour model); the next
    `n²` are the row model, `row[c, j]` = the row `i` in which column `j` has colour `c`; the last
    `n²` are the column model, `column[i, c]` = the column `j` in which row `i` has colour `c`
    (the class documentation: `row[c,j]=i <=> color[i,j]=c`, `color[i,j]=c <=> column[i,c]=j`) -/
structure ValidLatinSquareRC (n : Nat) (σ : List Int) : Prop where
  len : σ.length = 3 * (n * n)
  square : ValidLatinSquare n (σ.take (n * n))
  rowRange : ∀ c j, c < n → j < n → 0 ≤ rcRow n σ c j ∧ rcRow n σ c j ≤ (n : Int) - 1
  columnRange : ∀ i c, i < n → c < n → 0 ≤ rcColumn n σ i c ∧ rcColumn n σ i c ≤ (n : Int) - 1
  rowModel : ∀ c j i, c < n → j < n → i < n → (rcRow n σ c j = (i : Int) ↔ rcColour n σ i j = (c : Int))
  columnModel : ∀ i c j, i < n → c < n → j < n → (rcColumn n σ i c = (j : Int) ↔ rcColour n σ i j = (c : Int))

/-- an idempotent quasigroup of order `n` (CSPLib 3) in the three-model formulation: the colour model
    is the multiplication table `i ∗ j = colour[i, j]`, a Latin square with `i ∗ i = i` -/
def ValidQuasigroup (n : Nat) (σ : List Int) : Prop :=
  ValidLatinSquareRC n σ ∧ ∀ i, i < n → rcColour n σ i i = (i : Int)

/-- the product `a ∗ b` read off the colour model -/
def qgMul (n : Nat) (σ : List Int) (a b : Nat) : Nat := (rcColour n σ a b).toNat

/-- a QG5 quasigroup: idempotent, and `((b ∗ a) ∗ b) ∗ b = a` for all `a`, `b` -/
def ValidQuasigroup5 (n : Nat) (σ : List Int) : Prop :=
  ValidQuasigroup n σ ∧
    ∀ a b, a < n → b < n → qgMul n σ (qgMul n σ (qgMul n σ b a) b) b = a

namespace Ex

/-! ### indices -/

theorem idx_lt {n model i j : Nat} (hm : model < 3) (hi : i < n) (hj : j < n) :
    model * (n * n) + i * n + j < 3 * (n * n) := by
  have h1 := cell_lt hi hj
  have h2 : model * (n * n) ≤ 2 * (n * n) := Nat.mul_le_mul_right _ (by omega)
  omega

theorem lsCell_eq (n i j model : Nat) : lsCell n i j model = model * (n * n) + i * n + j := by
  simp [lsCell, Nat.pow_two]

theorem lsRowM_eq (n i model : Nat) :
    lsRow n i model = (List.range n).map (fun j => model * (n * n) + i * n + j) := by
  simp only [lsRow, rangeAB_eq, Nat.pow_two]
  have : model * (n * n) + n + i * n - (model * (n * n) + i * n) = n := by omega
  rw [this]

theorem lsColumnM_eq (n j model : Nat) (hn : 0 < n) :
    lsColumn n j model = (List.range n).map (fun i => model * (n * n) + i * n + j) := by
  simp only [lsColumn, Nat.pow_two]
  have h : model * (n * n) + n * n + j = (model * (n * n) + j) + n * n := by omega
  rw [h, rangeStep_eq _ _ _ hn]
  apply List.map_congr_left
  intro i _
  omega

/-! ### the three kinds of constraints over a line `idx 0, …, idx (n-1)` -/

theorem vals_line {N n : Nat} (σ : List Int) (idx : Nat → Nat) (hidx : ∀ k, k < n → idx k < N)
    (extra : List Nat) (he : ∀ v ∈ extra, v < N) :
    vals (idVars N) σ ((List.range n).map idx ++ extra) =
      (List.range n).map (fun k => getI σ (idx k)) ++ extra.map (getI σ) := by
  rw [vals_id]
  · simp [List.map_map, Function.comp_def]
  · intro v hv
    rcases List.mem_append.1 hv with hv | hv
    · simp only [List.mem_map, List.mem_range] at hv
      obtain ⟨k, hk, rfl⟩ := hv
      exact hidx k hk
    · exact he v hv

theorem alldiff_line {N n : Nat} (σ : List Int) (idx : Nat → Nat) (hidx : ∀ k, k < n → idx k < N) :
    rel .alldifferent [] (vals (idVars N) σ ((List.range n).map idx)) ↔
      ∀ k₁ k₂, k₁ < k₂ → k₂ < n → getI σ (idx k₁) ≠ getI σ (idx k₂) := by
  have := vals_line σ idx hidx [] (by simp)
  simp only [List.append_nil, List.map_nil] at this
  rw [this]
  exact nodup_map_range _ n

theorem getElem?_map_range_eq_some {n : Nat} (f : Nat → Int) (x : Int) (v : Int) :
    (0 ≤ x ∧ ((List.range n).map f)[x.toNat]? = some v) ↔
      0 ≤ x ∧ x.toNat < n ∧ f x.toNat = v := by
  constructor
  · rintro ⟨h0, h⟩
    have hlt : x.toNat < n := by
      have := (List.getElem?_eq_some_iff.1 h).1
      simpa using this
    refine ⟨h0, hlt, ?_⟩
    simpa [List.getElem?_map, List.getElem?_range hlt] using h
  · rintro ⟨h0, hlt, h⟩
    refine ⟨h0, ?_⟩
    simp [List.getElem?_map, List.getElem?_range hlt, h]

theorem lic_line {N n : Nat} (σ : List Int) (idx : Nat → Nat) (hidx : ∀ k, k < n → idx k < N)
    (a : Nat) (ha : a < N) (v : Int) :
    rel .elementLic [v] (vals (idVars N) σ ((List.range n).map idx ++ [a])) ↔
      0 ≤ getI σ a ∧ (getI σ a).toNat < n ∧ getI σ (idx (getI σ a).toNat) = v := by
  rw [vals_line σ idx hidx [a] (by simpa using ha)]
  simp only [rel, tFront, tBack, List.map_cons, List.map_nil, List.dropLast_concat,
    List.getLastD_concat]
  exact getElem?_map_range_eq_some _ _ _

theorem liv_line {N n : Nat} (σ : List Int) (idx : Nat → Nat) (hidx : ∀ k, k < n → idx k < N)
    (a b : Nat) (ha : a < N) (hb : b < N) :
    rel .elementLiv [] (vals (idVars N) σ ((List.range n).map idx ++ [a, b])) ↔
      0 ≤ getI σ a ∧ (getI σ a).toNat < n ∧ getI σ (idx (getI σ a).toNat) = getI σ b := by
  rw [vals_line σ idx hidx [a, b] (by simp; omega)]
  have e : (List.range n).map (fun k => getI σ (idx k)) ++ [a, b].map (getI σ) =
      ((List.range n).map (fun k => getI σ (idx k)) ++ [getI σ a]) ++ [getI σ b] := by simp
  rw [e]
  simp only [rel, tFront, tBack, List.dropLast_concat, List.getLastD_concat]
  exact getElem?_map_range_eq_some _ _ _

/-! ### `setAll` -/

theorem length_setAll : ∀ (upd : List (Nat × Dom)) (B : Box), (setAll B upd).length = B.length
  | [], _ => rfl
  | u :: us, B => by
    have := length_setAll us (B.set u.1 u.2)
    simpa [setAll] using this

theorem getDom_set (B : Box) (k i : Nat) (d : Dom) :
    getDom (B.set k d) i = if i = k ∧ k < B.length then d else getDom B i := by
  simp only [getDom, List.getD_eq_getElem?_getD, List.getElem?_set]
  by_cases h : k = i
  · subst h
    by_cases h2 : k < B.length <;> simp [h2]
  · have : ¬ i = k := fun e => h e.symm
    simp [h, this]

/-- after the edits, a domain is the value of one of the edits of that index, or untouched -/
theorem getDom_setAll : ∀ (upd : List (Nat × Dom)) (B : Box) (k : Nat), k < B.length →
    (∃ u ∈ upd, u.1 = k ∧ getDom (setAll B upd) k = u.2) ∨
      ((∀ u ∈ upd, u.1 ≠ k) ∧ getDom (setAll B upd) k = getDom B k)
  | [], _, _, _ => Or.inr ⟨by simp, rfl⟩
  | u :: us, B, k, hk => by
    have ih := getDom_setAll us (B.set u.1 u.2) k (by simpa using hk)
    have e : setAll B (u :: us) = setAll (B.set u.1 u.2) us := rfl
    rw [e]
    rcases ih with ⟨u', hu', h1, h2⟩ | ⟨h1, h2⟩
    · exact Or.inl ⟨u', List.mem_cons_of_mem _ hu', h1, h2⟩
    · by_cases hu : u.1 = k
      · refine Or.inl ⟨u, List.mem_cons_self, hu, ?_⟩
        rw [h2, getDom_set]
        simp [hu, hk]
      · refine Or.inr ⟨?_, ?_⟩
        · intro u' hu'
          rcases List.mem_cons.1 hu' with rfl | hu'
          · exact hu
          · exact h1 u' hu'
        · rw [h2, getDom_set]
          have : ¬ k = u.1 := fun e => hu e.symm
          simp [this]

/-! ### the constraints of `LatinSquareRCProblem` -/

/-- what the posted constraints of `LatinSquareRCProblem(n)` say, family by family, in posting order -/
structure RCCons (n : Nat) (σ : List Int) : Prop where
  rowsDiff : ∀ model, model < 3 → ∀ i, i < n → ∀ j₁ j₂, j₁ < j₂ → j₂ < n →
    rcCell n σ model i j₁ ≠ rcCell n σ model i j₂
  colsDiff : ∀ model, model < 3 → ∀ j, j < n → ∀ i₁ i₂, i₁ < i₂ → i₂ < n →
    rcCell n σ model i₁ j ≠ rcCell n σ model i₂ j
  ea : ∀ c, c < n → ∀ i, i < n → 0 ≤ rcCell n σ 2 i c ∧ (rcCell n σ 2 i c).toNat < n ∧
    rcCell n σ 1 c (rcCell n σ 2 i c).toNat = (i : Int)
  eb : ∀ c, c < n → ∀ j, j < n → 0 ≤ rcCell n σ 1 c j ∧ (rcCell n σ 1 c j).toNat < n ∧
    rcCell n σ 2 (rcCell n σ 1 c j).toNat c = (j : Int)
  ec : ∀ j, j < n → ∀ i, i < n → 0 ≤ rcCell n σ 0 i j ∧ (rcCell n σ 0 i j).toNat < n ∧
    rcCell n σ 1 (rcCell n σ 0 i j).toNat j = (i : Int)
  ed : ∀ j, j < n → ∀ c, c < n → 0 ≤ rcCell n σ 1 c j ∧ (rcCell n σ 1 c j).toNat < n ∧
    rcCell n σ 0 (rcCell n σ 1 c j).toNat j = (c : Int)
  ee : ∀ i, i < n → ∀ c, c < n → 0 ≤ rcCell n σ 2 i c ∧ (rcCell n σ 2 i c).toNat < n ∧
    rcCell n σ 0 i (rcCell n σ 2 i c).toNat = (c : Int)
  ef : ∀ i, i < n → ∀ j, j < n → 0 ≤ rcCell n σ 0 i j ∧ (rcCell n σ 0 i j).toNat < n ∧
    rcCell n σ 2 i (rcCell n σ 0 i j).toNat = (j : Int)

theorem row_alldiff {n model i : Nat} (σ : List Int) (hm : model < 3) (hi : i < n) :
    rel .alldifferent [] (vals (idVars (3 * (n * n))) σ (lsRow n i model)) ↔
      ∀ j₁ j₂, j₁ < j₂ → j₂ < n → rcCell n σ model i j₁ ≠ rcCell n σ model i j₂ := by
  rw [lsRowM_eq]
  exact alldiff_line σ _ (fun k hk => idx_lt hm hi hk)

theorem col_alldiff {n model j : Nat} (σ : List Int) (hm : model < 3) (hj : j < n) :
    rel .alldifferent [] (vals (idVars (3 * (n * n))) σ (lsColumn n j model)) ↔
      ∀ i₁ i₂, i₁ < i₂ → i₂ < n → rcCell n σ model i₁ j ≠ rcCell n σ model i₂ j := by
  rw [lsColumnM_eq n j model (by omega)]
  exact alldiff_line σ _ (fun k hk => idx_lt hm hk hj)

theorem lic_row {n model i m' a b : Nat} (σ : List Int) (v : Int) (hm : model < 3) (hi : i < n)
    (hm' : m' < 3) (ha : a < n) (hb : b < n) :
    rel .elementLic [v] (vals (idVars (3 * (n * n))) σ (lsRow n i model ++ [lsCell n a b m'])) ↔
      0 ≤ rcCell n σ m' a b ∧ (rcCell n σ m' a b).toNat < n ∧
        rcCell n σ model i (rcCell n σ m' a b).toNat = v := by
  rw [lsRowM_eq, lsCell_eq]
  exact lic_line σ _ (fun k hk => idx_lt hm hi hk) _ (idx_lt hm' ha hb) v

theorem lic_col {n model j m' a b : Nat} (σ : List Int) (v : Int) (hm : model < 3) (hj : j < n)
    (hm' : m' < 3) (ha : a < n) (hb : b < n) :
    rel .elementLic [v] (vals (idVars (3 * (n * n))) σ (lsColumn n j model ++ [lsCell n a b m'])) ↔
      0 ≤ rcCell n σ m' a b ∧ (rcCell n σ m' a b).toNat < n ∧
        rcCell n σ model (rcCell n σ m' a b).toNat j = v := by
  rw [lsColumnM_eq n j model (by omega), lsCell_eq]
  exact lic_line σ _ (fun k hk => idx_lt hm hk hj) _ (idx_lt hm' ha hb) v

theorem rc_constraints (n : Nat) (σ : List Int) :
    (∀ c ∈ lsProps n ++ lsRCProps n, rel c.alg c.params (vals (idVars (3 * (n * n))) σ c.vars)) ↔
      RCCons n σ := by
  simp only [lsProps, lsRCProps, List.forall_mem_append, List.forall_mem_map,
    List.forall_mem_flatMap, List.mem_range]
  constructor
  · rintro ⟨⟨r0, c0⟩, ⟨⟨⟨⟨⟨⟨r1, c1⟩, r2⟩, c2⟩, hab⟩, hcd⟩, hef⟩⟩
    refine ⟨?_, ?_, ?_, ?_, ?_, ?_, ?_, ?_⟩
    · intro model hm i hi
      have : model = 0 ∨ model = 1 ∨ model = 2 := by omega
      rcases this with rfl | rfl | rfl
      · exact (row_alldiff σ hm hi).1 (r0 i hi)
      · exact (row_alldiff σ hm hi).1 (r1 i hi)
      · exact (row_alldiff σ hm hi).1 (r2 i hi)
    · intro model hm j hj
      have : model = 0 ∨ model = 1 ∨ model = 2 := by omega
      rcases this with rfl | rfl | rfl
      · exact (col_alldiff σ hm hj).1 (c0 j hj)
      · exact (col_alldiff σ hm hj).1 (c1 j hj)
      · exact (col_alldiff σ hm hj).1 (c2 j hj)
    · exact fun c hc i hi => (lic_row σ _ (by omega) hc (by omega) hi hc).1 ((hab c hc).1 i hi)
    · exact fun c hc j hj => (lic_col σ _ (by omega) hc (by omega) hc hj).1 ((hab c hc).2 j hj)
    · exact fun j hj i hi => (lic_col σ _ (by omega) hj (by omega) hi hj).1 ((hcd j hj).1 i hi)
    · exact fun j hj c hc => (lic_col σ _ (by omega) hj (by omega) hc hj).1 ((hcd j hj).2 c hc)
    · exact fun i hi c hc => (lic_row σ _ (by omega) hi (by omega) hi hc).1 ((hef i hi).1 c hc)
    · exact fun i hi j hj => (lic_row σ _ (by omega) hi (by omega) hi hj).1 ((hef i hi).2 j hj)
  · intro h
    refine ⟨⟨?_, ?_⟩, ⟨⟨⟨⟨⟨⟨?_, ?_⟩, ?_⟩, ?_⟩, ?_⟩, ?_⟩, ?_⟩⟩
    · exact fun i hi => (row_alldiff σ (by omega) hi).2 (h.rowsDiff 0 (by omega) i hi)
    · exact fun j hj => (col_alldiff σ (by omega) hj).2 (h.colsDiff 0 (by omega) j hj)
    · exact fun i hi => (row_alldiff σ (by omega) hi).2 (h.rowsDiff 1 (by omega) i hi)
    · exact fun j hj => (col_alldiff σ (by omega) hj).2 (h.colsDiff 1 (by omega) j hj)
    · exact fun i hi => (row_alldiff σ (by omega) hi).2 (h.rowsDiff 2 (by omega) i hi)
    · exact fun j hj => (col_alldiff σ (by omega) hj).2 (h.colsDiff 2 (by omega) j hj)
    · exact fun c hc => ⟨fun i hi => (lic_row σ _ (by omega) hc (by omega) hi hc).2 (h.ea c hc i hi),
        fun j hj => (lic_col σ _ (by omega) hc (by omega) hc hj).2 (h.eb c hc j hj)⟩
    · exact fun j hj => ⟨fun i hi => (lic_col σ _ (by omega) hj (by omega) hi hj).2 (h.ec j hj i hi),
        fun c hc => (lic_col σ _ (by omega) hj (by omega) hc hj).2 (h.ed j hj c hc)⟩
    · exact fun i hi => ⟨fun c hc => (lic_row σ _ (by omega) hi (by omega) hi hc).2 (h.ee i hi c hc),
        fun j hj => (lic_row σ _ (by omega) hi (by omega) hi hj).2 (h.ef i hi j hj)⟩

/-! ### domains and constraints against the definition -/

theorem forall_cells3 (n : Nat) (P : Nat → Prop) :
    (∀ k, k < 3 * (n * n) → P k) ↔
      ∀ model, model < 3 → ∀ i j, i < n → j < n → P (model * (n * n) + i * n + j) := by
  constructor
  · intro h model hm i j hi hj
    exact h _ (idx_lt hm hi hj)
  · intro h k hk
    have key : ∀ model, model < 3 → model * (n * n) ≤ k → k < model * (n * n) + n * n → P k := by
      intro model hm h1 h2
      have := (forall_cells n (fun r => P (model * (n * n) + r))).2
        (fun i j hi hj => by simpa [Nat.add_assoc] using h model hm i j hi hj)
        (k - model * (n * n)) (by omega)
      have e : model * (n * n) + (k - model * (n * n)) = k := by omega
      simpa [e] using this
    by_cases h1 : k < n * n
    · exact key 0 (by omega) (by omega) (by omega)
    · by_cases h2 : k < 2 * (n * n)
      · exact key 1 (by omega) (by omega) (by omega)
      · exact key 2 (by omega) (by omega) (by omega)

theorem take_cell {n i j : Nat} (σ : List Int) (hi : i < n) (hj : j < n) :
    getI (σ.take (n * n)) (i * n + j) = rcCell n σ 0 i j := by
  rw [getI_take (cell_lt hi hj)]
  simp [rcCell]

/-- all entries in range -/
def RCRange (n : Nat) (σ : List Int) : Prop :=
  ∀ model, model < 3 → ∀ i j, i < n → j < n →
    0 ≤ rcCell n σ model i j ∧ rcCell n σ model i j ≤ (n : Int) - 1

theorem rc_valid_of_cons {n : Nat} {σ : List Int} (hl : σ.length = 3 * (n * n)) (hr : RCRange n σ)
    (h : RCCons n σ) : ValidLatinSquareRC n σ := by
  refine ⟨hl, ⟨?_, ?_, ?_, ?_⟩, ?_, ?_, ?_, ?_⟩
  · rw [List.length_take, hl]; omega
  · intro i j hi hj
    rw [take_cell σ hi hj]
    exact hr 0 (by omega) i j hi hj
  · intro i hi j₁ j₂ h12 h2
    rw [take_cell σ hi (by omega), take_cell σ hi h2]
    exact h.rowsDiff 0 (by omega) i hi j₁ j₂ h12 h2
  · intro j hj i₁ i₂ h12 h2
    rw [take_cell σ (by omega) hj, take_cell σ h2 hj]
    exact h.colsDiff 0 (by omega) j hj i₁ i₂ h12 h2
  · exact fun c j hc hj => hr 1 (by omega) c j hc hj
  · exact fun i c hi hc => hr 2 (by omega) i c hi hc
  · intro c j i hc hj hi
    constructor
    · intro e
      have e' : rcCell n σ 1 c j = (i : Int) := e
      have := (h.ed j hj c hc).2.2
      rw [e'] at this
      simpa using this
    · intro e
      have e' : rcCell n σ 0 i j = (c : Int) := e
      have := (h.ec j hj i hi).2.2
      rw [e'] at this
      simpa using this
  · intro i c j hi hc hj
    constructor
    · intro e
      have e' : rcCell n σ 2 i c = (j : Int) := e
      have := (h.ee i hi c hc).2.2
      rw [e'] at this
      simpa using this
    · intro e
      have e' : rcCell n σ 0 i j = (c : Int) := e
      have := (h.ef i hi j hj).2.2
      rw [e'] at this
      simpa using this

theorem rc_range_of_valid {n : Nat} {σ : List Int} (h : ValidLatinSquareRC n σ) : RCRange n σ := by
  intro model hm i j hi hj
  have : model = 0 ∨ model = 1 ∨ model = 2 := by omega
  rcases this with rfl | rfl | rfl
  · have := h.square.colour i j hi hj
    rwa [take_cell σ hi hj] at this
  · exact h.rowRange i j hi hj
  · exact h.columnRange i j hi hj

theorem rc_cons_of_valid {n : Nat} {σ : List Int} (h : ValidLatinSquareRC n σ) : RCCons n σ := by
  have hr := rc_range_of_valid h
  have rows0 : ∀ i, i < n → ∀ j₁ j₂, j₁ < j₂ → j₂ < n → rcCell n σ 0 i j₁ ≠ rcCell n σ 0 i j₂ := by
    intro i hi j₁ j₂ h12 h2
    have := h.square.rows i hi j₁ j₂ h12 h2
    rwa [take_cell σ hi (by omega), take_cell σ hi h2] at this
  have cols0 : ∀ j, j < n → ∀ i₁ i₂, i₁ < i₂ → i₂ < n → rcCell n σ 0 i₁ j ≠ rcCell n σ 0 i₂ j := by
    intro j hj i₁ i₂ h12 h2
    have := h.square.columns j hj i₁ i₂ h12 h2
    rwa [take_cell σ (by omega) hj, take_cell σ h2 hj] at this
  -- an in-range entry is the cast of its `toNat`
  have nat : ∀ model, model < 3 → ∀ i j, i < n → j < n →
      (rcCell n σ model i j).toNat < n ∧ rcCell n σ model i j = ((rcCell n σ model i j).toNat : Int) := by
    intro model hm i j hi hj
    have := hr model hm i j hi hj
    omega
  refine ⟨?_, ?_, ?_, ?_, ?_, ?_, ?_, ?_⟩
  · intro model hm i hi j₁ j₂ h12 h2 e
    have : model = 0 ∨ model = 1 ∨ model = 2 := by omega
    rcases this with rfl | rfl | rfl
    · exact rows0 i hi j₁ j₂ h12 h2 e
    · -- row[c, j₁] = row[c, j₂] = x : colour[x, j₁] = c = colour[x, j₂]
      obtain ⟨hx, ex⟩ := nat 1 (by omega) i j₁ hi (by omega)
      have e1 := (h.rowModel i j₁ _ hi (by omega) hx).1 ex
      have e2 := (h.rowModel i j₂ _ hi h2 hx).1 (e ▸ ex)
      exact rows0 _ hx j₁ j₂ h12 h2 (e1.trans e2.symm)
    · -- column[i, c₁] = column[i, c₂] = x : colour[i, x] = c₁ = c₂
      obtain ⟨hx, ex⟩ := nat 2 (by omega) i j₁ hi (by omega)
      have e1 := (h.columnModel i j₁ _ hi (by omega) hx).1 ex
      have e2 := (h.columnModel i j₂ _ hi h2 hx).1 (e ▸ ex)
      have : (j₁ : Int) = j₂ := e1.symm.trans e2
      omega
  · intro model hm j hj i₁ i₂ h12 h2 e
    have : model = 0 ∨ model = 1 ∨ model = 2 := by omega
    rcases this with rfl | rfl | rfl
    · exact cols0 j hj i₁ i₂ h12 h2 e
    · obtain ⟨hx, ex⟩ := nat 1 (by omega) i₁ j (by omega) hj
      have e1 := (h.rowModel i₁ j _ (by omega) hj hx).1 ex
      have e2 := (h.rowModel i₂ j _ h2 hj hx).1 (e ▸ ex)
      have : (i₁ : Int) = i₂ := e1.symm.trans e2
      omega
    · obtain ⟨hx, ex⟩ := nat 2 (by omega) i₁ j (by omega) hj
      have e1 := (h.columnModel i₁ j _ (by omega) hj hx).1 ex
      have e2 := (h.columnModel i₂ j _ h2 hj hx).1 (e ▸ ex)
      exact cols0 _ hx i₁ i₂ h12 h2 (e1.trans e2.symm)
  · intro c hc i hi
    obtain ⟨hx, ex⟩ := nat 2 (by omega) i c hi hc
    refine ⟨(hr 2 (by omega) i c hi hc).1, hx, ?_⟩
    exact (h.rowModel c _ i hc hx hi).2 ((h.columnModel i c _ hi hc hx).1 ex)
  · intro c hc j hj
    obtain ⟨hx, ex⟩ := nat 1 (by omega) c j hc hj
    refine ⟨(hr 1 (by omega) c j hc hj).1, hx, ?_⟩
    exact (h.columnModel _ c j hx hc hj).2 ((h.rowModel c j _ hc hj hx).1 ex)
  · intro j hj i hi
    obtain ⟨hx, ex⟩ := nat 0 (by omega) i j hi hj
    exact ⟨(hr 0 (by omega) i j hi hj).1, hx, (h.rowModel _ j i hx hj hi).2 ex⟩
  · intro j hj c hc
    obtain ⟨hx, ex⟩ := nat 1 (by omega) c j hc hj
    exact ⟨(hr 1 (by omega) c j hc hj).1, hx, (h.rowModel c j _ hc hj hx).1 ex⟩
  · intro i hi c hc
    obtain ⟨hx, ex⟩ := nat 2 (by omega) i c hi hc
    exact ⟨(hr 2 (by omega) i c hi hc).1, hx, (h.columnModel i c _ hi hc hx).1 ex⟩
  · intro i hi j hj
    obtain ⟨hx, ex⟩ := nat 0 (by omega) i j hi hj
    exact ⟨(hr 0 (by omega) i j hi hj).1, hx, (h.columnModel i _ j hi hx hj).2 ex⟩

/-! ### the domains -/

theorem lsRCDomains_eq (n : Nat) : lsRCDomains n = List.replicate (3 * (n * n)) (0, (n : Int) - 1) := by
  simp only [lsRCDomains, lsDomains_range, Nat.pow_two, List.replicate_append_replicate]
  congr 1
  omega

theorem cell_inj {n i j i' j' : Nat} (hj : j < n) (hj' : j' < n) (h : i * n + j = i' * n + j') :
    i = i' ∧ j = j' := by
  rcases Nat.lt_trichotomy i i' with h1 | h1 | h1
  · have := Nat.mul_le_mul_right n (show i + 1 ≤ i' from h1)
    rw [Nat.add_mul] at this
    omega
  · subst h1
    exact ⟨rfl, by omega⟩
  · have := Nat.mul_le_mul_right n (show i' + 1 ≤ i from h1)
    rw [Nat.add_mul] at this
    omega

theorem idx_inj {n model i j model' i' j' : Nat} (hm : model < 3) (hm' : model' < 3)
    (hi : i < n) (hj : j < n) (hi' : i' < n) (hj' : j' < n)
    (h : model * (n * n) + i * n + j = model' * (n * n) + i' * n + j') :
    model = model' ∧ i = i' ∧ j = j' := by
  have h1 := cell_lt hi hj
  have h2 := cell_lt hi' hj'
  have hmm : model = model' := by
    have : model = 0 ∨ model = 1 ∨ model = 2 := by omega
    have : model' = 0 ∨ model' = 1 ∨ model' = 2 := by omega
    rcases ‹model = 0 ∨ model = 1 ∨ model = 2› with rfl | rfl | rfl <;>
      rcases ‹model' = 0 ∨ model' = 1 ∨ model' = 2› with rfl | rfl | rfl <;> omega
  subst hmm
  exact ⟨rfl, cell_inj hj hj' (by omega)⟩

/-- the idempotence edits -/
def qgIdem (n : Nat) : List (Nat × Dom) :=
  [0, 1, 2].flatMap (fun (model : Nat) =>
    (List.range n).map (fun (i : Nat) => (lsCell n i i model, ((i : Int), (i : Int)))))

/-- the symmetry-breaking edits -/
def qgSb (n : Nat) : List (Nat × Dom) :=
  (rangeAB 1 n).map (fun (i : Nat) => (lsCell n i (n - 1), ((i : Int) - 1, (n : Int) - 1)))

theorem quasigroupDomains_eq (n : Nat) (sb : Bool) :
    quasigroupDomains n sb =
      setAll (List.replicate (3 * (n * n)) (0, (n : Int) - 1)) (qgIdem n ++ if sb then qgSb n else []) := by
  rw [← lsRCDomains_eq]
  rfl

theorem mem_qgIdem {n : Nat} {u : Nat × Dom} :
    u ∈ qgIdem n ↔ ∃ model, model < 3 ∧ ∃ i, i < n ∧ u = (model * (n * n) + i * n + i, ((i : Int), (i : Int))) := by
  simp only [qgIdem, List.mem_flatMap, List.mem_map, List.mem_range, lsCell_eq]
  constructor
  · rintro ⟨model, hm, i, hi, rfl⟩
    refine ⟨model, ?_, i, hi, rfl⟩
    simp at hm
    omega
  · rintro ⟨model, hm, i, hi, rfl⟩
    refine ⟨model, ?_, i, hi, rfl⟩
    simp
    omega

theorem mem_qgSb {n : Nat} {u : Nat × Dom} :
    u ∈ qgSb n ↔ ∃ i, 1 ≤ i ∧ i < n ∧ u = (0 * (n * n) + i * n + (n - 1), ((i : Int) - 1, (n : Int) - 1)) := by
  simp only [qgSb, List.mem_map, mem_rangeAB, lsCell_eq]
  constructor
  · rintro ⟨i, ⟨h1, h2⟩, rfl⟩
    exact ⟨i, h1, h2, rfl⟩
  · rintro ⟨i, h1, h2, rfl⟩
    exact ⟨i, ⟨h1, h2⟩, rfl⟩

/-- membership in an edited box, from the untouched box and the edits -/
theorem inBox_setAll_of {σ : List Int} {B : Box} {upd : List (Nat × Dom)} (hl : σ.length = B.length)
    (hB : ∀ k, k < B.length → inDom (getI σ k) (getDom B k))
    (hu : ∀ u ∈ upd, inDom (getI σ u.1) u.2) : inBox σ (setAll B upd) := by
  rw [inBox_iff, length_setAll]
  refine ⟨hl, fun k hk => ?_⟩
  rcases getDom_setAll upd B k hk with ⟨u, hu', h1, h2⟩ | ⟨_, h2⟩
  · rw [h2, ← h1]
    exact hu u hu'
  · rw [h2]
    exact hB k hk

/-- the idempotence property of all three models, except (under symmetry breaking) for the
    overwritten cell `(n-1, n-1)` of the colour model -/
def QgIdem (n : Nat) (sb : Bool) (σ : List Int) : Prop :=
  ∀ model, model < 3 → ∀ i, i < n → (sb = true → ¬ (model = 0 ∧ i = n - 1)) →
    rcCell n σ model i i = (i : Int)

def QgSb (n : Nat) (σ : List Int) : Prop :=
  ∀ i, 1 ≤ i → i < n → (i : Int) - 1 ≤ rcColour n σ i (n - 1)

/-- what membership in the edited domains gives -/
theorem quasigroup_box {n : Nat} {sb : Bool} {σ : List Int} (h : inBox σ (quasigroupDomains n sb)) :
    σ.length = 3 * (n * n) ∧ RCRange n σ ∧ QgIdem n sb σ ∧ (sb = true → QgSb n σ) := by
  rw [quasigroupDomains_eq, inBox_iff, length_setAll, List.length_replicate] at h
  obtain ⟨hl, hk⟩ := h
  have hmem : ∀ u, u ∈ (qgIdem n ++ if sb then qgSb n else []) →
      u ∈ qgIdem n ∨ (sb = true ∧ u ∈ qgSb n) := by
    intro u hu
    rcases List.mem_append.1 hu with hu | hu
    · exact Or.inl hu
    · cases sb with
      | false => simp at hu
      | true => exact Or.inr ⟨rfl, by simpa using hu⟩
  have cases := fun k (hk' : k < 3 * (n * n)) =>
    getDom_setAll (qgIdem n ++ if sb then qgSb n else [])
      (List.replicate (3 * (n * n)) (0, (n : Int) - 1)) k (by simpa using hk')
  refine ⟨hl, ?_, ?_, ?_⟩
  · -- ranges
    refine (forall_cells3 n (fun k => 0 ≤ getI σ k ∧ getI σ k ≤ (n : Int) - 1)).1 ?_
    intro k hk'
    have hin := hk k hk'
    rcases cases k hk' with ⟨u, hu, _, h2⟩ | ⟨_, h2⟩
    · rw [h2] at hin
      rcases hmem u hu with hu | ⟨_, hu⟩
      · obtain ⟨model, _, i, hi, rfl⟩ := mem_qgIdem.1 hu
        simp only [inDom] at hin
        omega
      · obtain ⟨i, h1, hi, rfl⟩ := mem_qgSb.1 hu
        simp only [inDom] at hin
        omega
    · rw [h2, getDom_replicate _ hk'] at hin
      exact hin
  · -- idempotence
    intro model hm i hi hne
    have hk' := idx_lt hm hi hi
    have hin := hk _ hk'
    rcases cases _ hk' with ⟨u, hu, h1, h2⟩ | ⟨h1, _⟩
    · rw [h2] at hin
      rcases hmem u hu with hu | ⟨hsb, hu⟩
      · obtain ⟨model', hm', i', hi', rfl⟩ := mem_qgIdem.1 hu
        obtain ⟨_, rfl, _⟩ := idx_inj hm' hm hi' hi' hi hi h1
        simp only [inDom] at hin
        unfold rcCell
        omega
      · obtain ⟨i', h1', hi', rfl⟩ := mem_qgSb.1 hu
        obtain ⟨rfl, rfl, e⟩ := idx_inj (by omega) hm hi' (by omega) hi hi h1
        exact absurd ⟨rfl, e.symm⟩ (hne hsb)
    · exact absurd rfl (h1 _ (List.mem_append_left _ (mem_qgIdem.2 ⟨model, hm, i, hi, rfl⟩)))
  · -- symmetry breaking
    intro hsb i h1 hi
    subst hsb
    have hk' : 0 * (n * n) + i * n + (n - 1) < 3 * (n * n) := idx_lt (by omega) hi (by omega)
    have hin := hk _ hk'
    rcases cases _ hk' with ⟨u, hu, h1', h2⟩ | ⟨h1', _⟩
    · rw [h2] at hin
      rcases hmem u hu with hu | ⟨_, hu⟩
      · obtain ⟨model', hm', i', hi', rfl⟩ := mem_qgIdem.1 hu
        obtain ⟨_, rfl, e⟩ := idx_inj hm' (by omega) hi' hi' hi (by omega) h1'
        simp only [inDom] at hin
        show _ ≤ getI σ _
        omega
      · obtain ⟨i', _, hi', rfl⟩ := mem_qgSb.1 hu
        obtain ⟨_, rfl, _⟩ := idx_inj (by omega) (by omega) hi' (by omega) hi (by omega) h1'
        simp only [inDom] at hin
        show _ ≤ getI σ _
        omega
    · have hm2 : (0 * (n * n) + i * n + (n - 1), ((i : Int) - 1, (n : Int) - 1)) ∈
          qgIdem n ++ (if true = true then qgSb n else []) :=
        List.mem_append_right _ (mem_qgSb.2 ⟨i, h1, hi, rfl⟩)
      exact absurd rfl (h1' _ hm2)

/-- conversely -/
theorem quasigroup_box_of {n : Nat} {sb : Bool} {σ : List Int} (hl : σ.length = 3 * (n * n))
    (hr : RCRange n σ) (hid : QgIdem n false σ) (hsb : sb = true → QgSb n σ) :
    inBox σ (quasigroupDomains n sb) := by
  rw [quasigroupDomains_eq]
  apply inBox_setAll_of
  · simpa using hl
  · intro k hk
    simp only [List.length_replicate] at hk
    rw [getDom_replicate _ hk]
    exact (forall_cells3 n (fun k => 0 ≤ getI σ k ∧ getI σ k ≤ (n : Int) - 1)).2 hr k hk
  · intro u hu
    rcases List.mem_append.1 hu with hu | hu
    · obtain ⟨model, hm, i, hi, rfl⟩ := mem_qgIdem.1 hu
      have := hid model hm i hi (by simp)
      simp only [inDom]
      unfold rcCell at this
      omega
    · cases sb with
      | false => simp at hu
      | true =>
        obtain ⟨i, h1, hi, rfl⟩ := mem_qgSb.1 (by simpa using hu)
        have h2 := hsb rfl i h1 hi
        have h3 := (hr 0 (by omega) i (n - 1) hi (by omega)).2
        simp only [inDom]
        unfold rcColour rcCell at h2
        unfold rcCell at h3
        omega

theorem latinSquareRC_eq (n : Nat) : latinSquareRCProblem n =
    mkProblem (List.replicate (3 * (n * n)) (0, (n : Int) - 1)) (idVars (3 * (n * n)))
      (lsProps n ++ lsRCProps n) := by
  simp only [latinSquareRCProblem, lsRCDomains_eq, List.length_replicate]

theorem quasigroup_eq (n : Nat) (sb : Bool) : quasigroupProblem n sb =
    mkProblem (quasigroupDomains n sb) (idVars (3 * (n * n))) (lsProps n ++ lsRCProps n) := by
  have : (quasigroupDomains n sb).length = 3 * (n * n) := by
    rw [quasigroupDomains_eq, length_setAll, List.length_replicate]
  simp only [quasigroupProblem, this]

end Ex

/-- C20 (latin square, three-model formulation): the posted model accepts exactly the Latin squares
    of order `n` extended with their row and column models -/
theorem C20_latinSquareRC (n : Nat) (σ : List Int) :
    Sol (latinSquareRCProblem n) σ ↔ ValidLatinSquareRC n σ := by
  rw [latinSquareRC_eq, sol_mk, inBox_replicate, rc_constraints]
  simp only [inDom]
  rw [forall_cells3 n (fun k => 0 ≤ getI σ k ∧ getI σ k ≤ (n : Int) - 1)]
  constructor
  · rintro ⟨⟨hl, hr⟩, hc⟩
    exact rc_valid_of_cons hl hr hc
  · intro h
    exact ⟨⟨h.len, rc_range_of_valid h⟩, rc_cons_of_valid h⟩

namespace Ex

/-- the solutions of `QuasigroupProblem(n, sb)`, unfolded -/
theorem quasigroup_sol (n : Nat) (sb : Bool) (σ : List Int) :
    Sol (quasigroupProblem n sb) σ ↔ inBox σ (quasigroupDomains n sb) ∧ RCCons n σ := by
  rw [quasigroup_eq, sol_mk, rc_constraints]

/-- the row and column models of an idempotent square are idempotent -/
theorem idem_of_valid {n : Nat} {σ : List Int} (h : ValidQuasigroup n σ) : QgIdem n false σ := by
  intro model hm i hi _
  have : model = 0 ∨ model = 1 ∨ model = 2 := by omega
  rcases this with rfl | rfl | rfl
  · exact h.2 i hi
  · exact (h.1.rowModel i i i hi hi hi).2 (h.2 i hi)
  · exact (h.1.columnModel i i i hi hi hi).2 (h.2 i hi)

end Ex

/-- C20 (quasigroup, no symmetry breaking): the posted model accepts exactly the idempotent Latin
    squares of order `n` extended with their row and column models -/
theorem C20_quasigroup (n : Nat) (σ : List Int) :
    Sol (quasigroupProblem n false) σ ↔ ValidQuasigroup n σ := by
  rw [quasigroup_sol]
  constructor
  · rintro ⟨hb, hc⟩
    obtain ⟨hl, hr, hid, _⟩ := quasigroup_box hb
    exact ⟨rc_valid_of_cons hl hr hc, fun i hi => hid 0 (by omega) i hi (by simp)⟩
  · intro h
    exact ⟨quasigroup_box_of h.1.len (rc_range_of_valid h.1) (idem_of_valid h) (by simp),
      rc_cons_of_valid h.1⟩

/-- C20 (quasigroup, symmetry breaking): the symmetry-breaking model accepts exactly the solutions of
    the plain model with `i - 1 ≤ colour[i, n-1]` for `1 ≤ i < n`.  (The symmetry-breaking edit of
    `cell(n-1, n-1)` overwrites the idempotence edit of the colour model with `[n-2, n-1]`;
    idempotence of that cell is recovered from the idempotence edit of the ROW model,
    `row[n-1, n-1] = n-1`, through the channelling constraint `colour[row[c, j], j] = c`.) -/
theorem C20_quasigroup_sb (n : Nat) (σ : List Int) :
    Sol (quasigroupProblem n true) σ ↔
      Sol (quasigroupProblem n false) σ ∧ ∀ i, 1 ≤ i → i < n → (i : Int) - 1 ≤ rcColour n σ i (n - 1) := by
  rw [quasigroup_sol, quasigroup_sol]
  constructor
  · rintro ⟨hb, hc⟩
    obtain ⟨hl, hr, hid, hsb⟩ := quasigroup_box hb
    refine ⟨⟨quasigroup_box_of hl hr ?_ (by simp), hc⟩, hsb rfl⟩
    intro model hm i hi _
    by_cases hne : model = 0 ∧ i = n - 1
    · obtain ⟨rfl, rfl⟩ := hne
      -- row[n-1, n-1] = n-1 and colour[row[n-1, n-1], n-1] = n-1
      have e1 := hid 1 (by omega) (n - 1) hi (by simp)
      have e2 := (hc.ed (n - 1) hi (n - 1) hi).2.2
      rw [e1] at e2
      simpa using e2
    · exact hid model hm i hi (fun _ => hne)
  · rintro ⟨⟨hb, hc⟩, hsb⟩
    obtain ⟨hl, hr, hid, _⟩ := quasigroup_box hb
    exact ⟨quasigroup_box_of hl hr hid (fun _ => hsb), hc⟩

/-- hence every solution of the symmetry-breaking model is an idempotent quasigroup -/
theorem C20_quasigroup_sb_valid (n : Nat) (σ : List Int) (h : Sol (quasigroupProblem n true) σ) :
    ValidQuasigroup n σ :=
  (C20_quasigroup n σ).1 ((C20_quasigroup_sb n σ).1 h).1

namespace Ex

/-- the constraints added by `Quasigroup5Problem` -/
def qg5Props (n : Nat) : List RawC :=
  (List.range n).flatMap (fun (j : Nat) =>
    (List.range n).flatMap (fun (i : Nat) =>
      if i ≠ j then
        [ (⟨lsColumn n j 0 ++ [lsCell n j i 0, lsCell n i j 1], .elementLiv, []⟩ : RawC) ]
      else []))

theorem quasigroup5_eq (n : Nat) (sb : Bool) : quasigroup5Problem n sb =
    mkProblem (quasigroupDomains n sb) (idVars (3 * (n * n))) (lsProps n ++ lsRCProps n ++ qg5Props n) := by
  have : (quasigroupDomains n sb).length = 3 * (n * n) := by
    rw [quasigroupDomains_eq, length_setAll, List.length_replicate]
  simp only [quasigroup5Problem, this, qg5Props]

/-- what the constraints added by `Quasigroup5Problem` say: `colour[colour[j, i], j] = row[i, j]` -/
def Qg5Cons (n : Nat) (σ : List Int) : Prop :=
  ∀ j, j < n → ∀ i, i < n → i ≠ j →
    0 ≤ rcCell n σ 0 j i ∧ (rcCell n σ 0 j i).toNat < n ∧
      rcCell n σ 0 (rcCell n σ 0 j i).toNat j = rcCell n σ 1 i j

theorem quasigroup5_sol (n : Nat) (sb : Bool) (σ : List Int) :
    Sol (quasigroup5Problem n sb) σ ↔ Sol (quasigroupProblem n sb) σ ∧ Qg5Cons n σ := by
  rw [quasigroup5_eq, quasigroup_eq, sol_mk, sol_mk, List.forall_mem_append, and_assoc]
  have : (∀ c ∈ qg5Props n, rel c.alg c.params (vals (idVars (3 * (n * n))) σ c.vars)) ↔ Qg5Cons n σ := by
    simp only [qg5Props, List.forall_mem_flatMap, List.mem_range]
    constructor
    · intro h j hj i hi hne
      have := h j hj i hi ⟨lsColumn n j 0 ++ [lsCell n j i 0, lsCell n i j 1], .elementLiv, []⟩
        (by simp [hne])
      rw [lsColumnM_eq n j 0 (by omega), lsCell_eq, lsCell_eq] at this
      exact (liv_line σ _ (fun k hk => idx_lt (by omega) hk hj) _ _
        (idx_lt (by omega) hj hi) (idx_lt (by omega) hi hj)).1 this
    · intro h j hj i hi c hc
      by_cases hne : i = j
      · simp [hne] at hc
      · simp only [hne, ne_eq, not_false_eq_true, if_true, List.mem_singleton] at hc
        subst hc
        rw [lsColumnM_eq n j 0 (by omega), lsCell_eq, lsCell_eq]
        exact (liv_line σ _ (fun k hk => idx_lt (by omega) hk hj) _ _
          (idx_lt (by omega) hj hi) (idx_lt (by omega) hi hj)).2 (h j hj i hi hne)
  rw [this]

/-- on an idempotent quasigroup the added constraints say exactly `((b ∗ a) ∗ b) ∗ b = a` -/
theorem qg5_iff {n : Nat} {σ : List Int} (h : ValidQuasigroup n σ) :
    Qg5Cons n σ ↔ ∀ a b, a < n → b < n → qgMul n σ (qgMul n σ (qgMul n σ b a) b) b = a := by
  have hr := rc_range_of_valid h.1
  have nat : ∀ i j, i < n → j < n →
      qgMul n σ i j < n ∧ rcCell n σ 0 i j = (qgMul n σ i j : Int) := by
    intro i j hi hj
    have := hr 0 (by omega) i j hi hj
    unfold qgMul rcColour
    omega
  constructor
  · intro hc a b ha hb
    by_cases hab : a = b
    · subst hab
      have e : qgMul n σ a a = a := by
        have := h.2 a ha
        unfold qgMul
        omega
      rw [e, e, e]
    · obtain ⟨_, _, e⟩ := hc b hb a ha hab
      obtain ⟨hx, _⟩ := nat b a hb ha
      obtain ⟨hy, ey⟩ := nat (qgMul n σ b a) b hx hb
      -- row[a, b] = y, hence colour[y, b] = a
      have e1 : rcRow n σ a b = (qgMul n σ (qgMul n σ b a) b : Int) := e.symm.trans ey
      have e2 := (h.1.rowModel a b _ ha hb hy).1 e1
      unfold qgMul at e2 ⊢
      omega
  · intro hq j hj i hi _
    obtain ⟨hx, ex⟩ := nat j i hj hi
    obtain ⟨hy, ey⟩ := nat (qgMul n σ j i) j hx hj
    obtain ⟨_, ez⟩ := nat (qgMul n σ (qgMul n σ j i) j) j hy hj
    refine ⟨(hr 0 (by omega) j i hj hi).1, hx, ?_⟩
    have e1 : rcColour n σ (qgMul n σ (qgMul n σ j i) j) j = (i : Int) := by
      rw [show rcColour n σ (qgMul n σ (qgMul n σ j i) j) j = _ from ez, hq i j hi hj]
    have e2 : rcCell n σ 1 i j = _ := (h.1.rowModel i j _ hi hj hy).2 e1
    rw [e2]
    exact ey

end Ex

/-- C20 (QG5, no symmetry breaking): the posted model accepts exactly the idempotent quasigroups of
    order `n` satisfying `((b ∗ a) ∗ b) ∗ b = a`, extended with their row and column models -/
theorem C20_quasigroup5 (n : Nat) (σ : List Int) :
    Sol (quasigroup5Problem n false) σ ↔ ValidQuasigroup5 n σ := by
  rw [quasigroup5_sol, C20_quasigroup]
  constructor
  · rintro ⟨h, hc⟩
    exact ⟨h, (qg5_iff h).1 hc⟩
  · rintro ⟨h, hq⟩
    exact ⟨h, (qg5_iff h).2 hq⟩

/-- C20 (QG5, symmetry breaking) -/
theorem C20_quasigroup5_sb (n : Nat) (σ : List Int) :
    Sol (quasigroup5Problem n true) σ ↔
      Sol (quasigroup5Problem n false) σ ∧ ∀ i, 1 ≤ i → i < n → (i : Int) - 1 ≤ rcColour n σ i (n - 1) := by
  rw [quasigroup5_sol, quasigroup5_sol, C20_quasigroup_sb]
  constructor
  · rintro ⟨⟨h, hsb⟩, hc⟩
    exact ⟨⟨h, hc⟩, hsb⟩
  · rintro ⟨⟨h, hc⟩, hsb⟩
    exact ⟨⟨h, hsb⟩, hc⟩

theorem C20_quasigroup5_sb_valid (n : Nat) (σ : List Int) (h : Sol (quasigroup5Problem n true) σ) :
    ValidQuasigroup5 n σ :=
  (C20_quasigroup5 n σ).1 ((C20_quasigroup5_sb n σ).1 h).1

/-! ### non-vacuity -/

/-- `ValidLatinSquareRC` from hypotheses in the form `decide` can check -/
theorem Ex.validRC_of {n : Nat} {σ : List Int} (hl : σ.length = 3 * (n * n))
    (hrange : ∀ model, model < 3 → ∀ i, i < n → ∀ j, j < n →
      0 ≤ rcCell n σ model i j ∧ rcCell n σ model i j ≤ (n : Int) - 1)
    (hrows : ∀ i, i < n → ∀ j₂, j₂ < n → ∀ j₁, j₁ < j₂ → rcColour n σ i j₁ ≠ rcColour n σ i j₂)
    (hcols : ∀ j, j < n → ∀ i₂, i₂ < n → ∀ i₁, i₁ < i₂ → rcColour n σ i₁ j ≠ rcColour n σ i₂ j)
    (hrow : ∀ c, c < n → ∀ j, j < n → ∀ i, i < n → (rcRow n σ c j = (i : Int) ↔ rcColour n σ i j = (c : Int)))
    (hcol : ∀ i, i < n → ∀ c, c < n → ∀ j, j < n → (rcColumn n σ i c = (j : Int) ↔ rcColour n σ i j = (c : Int))) :
    ValidLatinSquareRC n σ := by
  refine ⟨hl, ⟨?_, ?_, ?_, ?_⟩, ?_, ?_, ?_, ?_⟩
  · rw [List.length_take, hl]; omega
  · intro i j hi hj
    rw [take_cell σ hi hj]
    exact hrange 0 (by omega) i hi j hj
  · intro i hi j₁ j₂ h12 h2
    rw [take_cell σ hi (by omega), take_cell σ hi h2]
    exact hrows i hi j₂ h2 j₁ h12
  · intro j hj i₁ i₂ h12 h2
    rw [take_cell σ (by omega) hj, take_cell σ h2 hj]
    exact hcols j hj i₂ h2 i₁ h12
  · exact fun c j hc hj => hrange 1 (by omega) c hc j hj
  · exact fun i c hi hc => hrange 2 (by omega) i hi c hc
  · exact fun c j i hc hj hi => hrow c hc j hj i hi
  · exact fun i c j hi hc hj => hcol i hi c hc j hj

/-- the idempotent Latin square `0 2 1 / 2 1 0 / 1 0 2` with its row and column models -/
def qg3 : List Int :=
  [0, 2, 1, 2, 1, 0, 1, 0, 2,  0, 2, 1, 2, 1, 0, 1, 0, 2,  0, 2, 1, 2, 1, 0, 1, 0, 2]

theorem qg3_valid : ValidQuasigroup 3 qg3 :=
  ⟨validRC_of rfl (by decide) (by decide) (by decide) (by decide) (by decide), by decide⟩

/-- non-vacuity: it is accepted by the plain model, and by the symmetry-breaking model -/
example : Sol (quasigroupProblem 3 false) qg3 := (C20_quasigroup 3 qg3).2 qg3_valid

example : Sol (quasigroupProblem 3 true) qg3 := by
  have hs : ∀ i : Nat, i < 3 → 1 ≤ i → (i : Int) - 1 ≤ rcColour 3 qg3 i (3 - 1) := by decide
  exact (C20_quasigroup_sb 3 qg3).2 ⟨(C20_quasigroup 3 qg3).2 qg3_valid, fun i h1 hi => hs i hi h1⟩

/-- it is not a QG5 quasigroup: `((0 ∗ 1) ∗ 0) ∗ 0 = 2` -/
example : ¬ Sol (quasigroup5Problem 3 false) qg3 := by
  rw [C20_quasigroup5]
  intro h
  exact absurd (h.2 1 0 (by decide) (by decide)) (by decide)

/-- a non-idempotent Latin square (the cyclic one) with its dual models is rejected -/
example : ¬ Sol (quasigroupProblem 3 false)
    [0, 1, 2, 1, 2, 0, 2, 0, 1,  0, 2, 1, 1, 0, 2, 2, 1, 0,  0, 1, 2, 2, 0, 1, 1, 2, 0] := by
  rw [C20_quasigroup]
  intro h
  exact absurd (h.2 1 (by decide)) (by decide)

/-- an idempotent QG5 quasigroup of order 5 with its row and column models -/
def qg5 : List Int :=
  [0, 2, 1, 4, 3, 3, 1, 4, 0, 2, 4, 3, 2, 1, 0, 2, 4, 0, 3, 1, 1, 0, 3, 2, 4,
   0, 4, 3, 1, 2, 4, 1, 0, 2, 3, 3, 0, 2, 4, 1, 1, 2, 4, 3, 0, 2, 3, 1, 0, 4,
   0, 2, 1, 4, 3, 3, 1, 4, 0, 2, 4, 3, 2, 1, 0, 2, 4, 0, 3, 1, 1, 0, 3, 2, 4]

example : Sol (quasigroup5Problem 5 false) qg5 := by
  rw [C20_quasigroup5]
  have h5 : ∀ a, a < 5 → ∀ b, b < 5 → qgMul 5 qg5 (qgMul 5 qg5 (qgMul 5 qg5 b a) b) b = a := by decide
  exact ⟨⟨validRC_of rfl (by decide) (by decide) (by decide) (by decide) (by decide), by decide⟩,
    fun a b ha hb => h5 a ha b hb⟩

end Nucs
