import NucsProofs.Properties.C01
import NucsProofs.Engine.DfsTerm
import NucsProofs.Engine.Optimum
import NucsProofs.Examples.Queens
import NucsProofs.Examples.MagicSequence
import NucsProofs.Examples.LatinSquare
import NucsProofs.Examples.Golomb
import NucsProofs.Examples.Schur
/-!
  C20, the KNOWN COUNTS of small instances of the shipped models, machine-checked (no axiom beyond
  propext / Classical.choice / Quot.sound: every evaluation is `decide +kernel`).

  Part 1 — through the model's own search.  The kernel evaluates `solveAll` / `optimize` of the
  executable model on the posted problem; the result is transported through `C02_enumeration_bc` /
  `C03_optimum_bc` (whose hypotheses are all decidable for a concrete problem: `Counts.Ready`) and
  through the model's `Sol ↔ Valid` theorem:
    `C20_list_magicSequence_n`, `C20_count_magicSequence_n` (n = 4 … 7: 2, 1, 0, 1),
    `C20_list_latinSquare_2`, `C20_count_latinSquare_2` (2), `C20_count_queens_4` (2),
    `C20_count_golomb_4_optimum` (6), `C20_count_schur_3`, `_4` (18, 30 sum-free 3-colourings),
    `C20_count_schur_sb_4` (17 solutions of the symmetry-breaking model, the number in the test suite).
  One filtering call of the ported alldifferent costs the kernel 0.1 – 0.6 s, so the models built on
  it are out of reach beyond these sizes (measured, `decide +kernel` on `countCheck`: queens 4 = 62
  calls, 30 s; queens 5 = 175 calls, 99 s; latin square 3 = 196 calls, 74 s — they do check, but are
  too slow to keep here); the knapsack instance of the shipped example (optimum 54) needs 57 s and is
  left out as well.

  Part 2 — for queens 5 … 8 and latin squares of order 3 the count is established by a direct
  enumeration with pruning (`Counts.enumBox`, proved sound, complete and duplicate-free against
  `ValidQueens` / `ValidLatinSquare` for every n) that the kernel evaluates:
    `C20_count_queens_5` … `_8` (10, 4, 40, 92), `C20_count_latinSquare_3` (12).
  `C20_solver_count` then brings the count back to the solver: for EVERY configuration admitted by
  `C02_enumeration_bc` (any variable / value heuristic) the model's enumeration of a problem with `k`
  solutions returns exactly `k` vectors; `C20_solver_count_queens_8`: 92.
-/
namespace Nucs
open Ex

namespace Counts

/-- every algorithm is memory-safe within its contract -/
theorem safe_all (a : Alg) : Safe a := by
  cases a
  · exact safe_and
  · exact safe_affineEq
  · exact safe_affineGeq
  · exact safe_affineLeq
  · exact safe_alldifferent
  · exact safe_countEq
  · exact safe_dummy
  · exact safe_elementIv
  · exact safe_elementLiv
  · exact safe_elementLic
  · exact safe_exactlyEq
  · exact safe_exactlyTrue
  · exact safe_gcc
  · exact safe_lexLeq
  · exact safe_maxEq
  · exact safe_maxLeq
  · exact safe_minEq
  · exact safe_minGeq
  · exact safe_noSubCycle
  · exact safe_relation
  · exact safe_scc

instance decContract (a : Alg) (ps : List Int) (B : Box) : Decidable (Contract a ps B) := by
  cases a <;> simp only [Contract, Box.within] <;> infer_instance

/-- the search configuration used for the evaluations: bound consistency, first-not-instantiated,
    min-value, every shared domain a decision domain, stack height `h` -/
def dcfg (P : Problem) (h : Nat) : Config := { decision := List.range P.shr.length, height := h }

/-- the hypotheses of `C02_enumeration_bc` / `C03_optimum_bc` on the problem alone: proved algorithms
    within their contracts, well-formed variable references, non-empty domains, circuit discipline;
    all decidable -/
def ProblemReady (P : Problem) : Prop :=
  (∀ p ∈ P.props, p.alg ∈ provenAlgs) ∧
  (∀ p ∈ P.props, Contract p.alg p.params (views P.shr p.vars)) ∧
  (∀ p ∈ P.props, ∀ v ∈ p.vars, v.1 < P.shr.length) ∧
  (∀ d ∈ P.shr, d.1 ≤ d.2) ∧
  (∀ p ∈ P.props, p.alg = .noSubCycle → ∃ q ∈ P.props, q.alg = .alldifferent ∧ q.vars = p.vars)

instance (P : Problem) : Decidable (ProblemReady P) := by
  unfold ProblemReady; infer_instance

/-- … and on the stack height `h` and the fuel `f` -/
def Ready (P : Problem) (h f : Nat) : Prop :=
  ProblemReady P ∧ width P.shr + 2 ≤ h ∧ 2 * Dfs.bsize P.shr ≤ f

instance (P : Problem) (h f : Nat) : Decidable (Ready P h f) := by
  unfold Ready; infer_instance

/-- the number of solutions an enumeration returned -/
def okCount (x : Except EngErr (List (List Int) × State)) (k : Nat) : Bool :=
  match x with
  | .ok (sols, _) => sols.length == k
  | .error _ => false

/-- the vector an optimisation returned -/
def okOpt (x : Except EngErr (Option (List Int) × State)) (r : Option (List Int)) : Bool :=
  match x with
  | .ok (r', _) => r' == r
  | .error _ => false

/-- `C02_enumeration_bc` for the configuration `dcfg P h` under `Ready` -/
theorem enum_of_ready (P : Problem) (h f : Nat) (hR : Ready P h f) :
    ∃ (s' : State) (L : List (List Int)),
      solveAll P (dcfg P h) f f f (State.init P) [] = .ok (L.map (reported P), s') ∧
      L.Nodup ∧ (∀ σ, σ ∈ L ↔ Sol P σ) := by
  obtain ⟨⟨hpr, hct, hW, hne, hg⟩, hH, hf⟩ := hR
  obtain ⟨sols, s', L, hr, e, nd, hs, _⟩ := C02_enumeration_bc P (ProbOk_of_proven P hpr hct) hW
    (fun p _ => safe_all p.alg) hne hg (dcfg P h) rfl
    (by intro i hi; simp only [dcfg, List.mem_range]; exact hi)
    (by intro h; cases h) (by intro h; cases h) (by intro h; cases h) hH f f f hf hf hf
  exact ⟨s', L, by rw [hr, e], nd, hs⟩

/-- ONE decidable check: the hypotheses hold and the model's enumeration, run with stack height `h`
    and fuels/limit `f`, returns `k` solutions -/
def countCheck (P : Problem) (h f k : Nat) : Bool :=
  decide (Ready P h f) && okCount (solveAll P (dcfg P h) f f f (State.init P) []) k

/-- the generic transport: the check implies that the solutions of `P` form a duplicate-free list
    of `k` elements — which is what the model's enumeration returned (through `reported P`) -/
theorem count_of_run (P : Problem) (h f k : Nat) (hc : countCheck P h f k = true) :
    ∃ (L : List (List Int)) (s' : State), L.Nodup ∧ (∀ σ, σ ∈ L ↔ Sol P σ) ∧ L.length = k ∧
      solveAll P (dcfg P h) f f f (State.init P) [] = .ok (L.map (reported P), s') := by
  simp only [countCheck, Bool.and_eq_true, decide_eq_true_eq] at hc
  obtain ⟨hR, hrun⟩ := hc
  obtain ⟨s', L, hr, nd, hs⟩ := enum_of_ready P h f hR
  rw [hr] at hrun
  simp only [okCount, beq_iff_eq, List.length_map] at hrun
  exact ⟨L, s', nd, hs, hrun, hr⟩

/-- for a model whose variables are the shared domains themselves, the reported vector of an
    assignment inside the root box is the assignment -/
theorem reported_id {P : Problem} (hid : P.vars = idVars P.shr.length) {σ : List Int} (hb : inBox σ P.shr) :
    reported P σ = σ := by
  have hl : σ.length = P.shr.length := ((inBox_iff σ P.shr).1 hb).1
  unfold reported valuesOf
  rw [hid, idVars, List.map_map, ← hl]
  conv => rhs; rw [← map_getI_range σ]
  apply List.map_congr_left
  intro i _
  simp

/-- the list of solutions an enumeration returned -/
def okList (x : Except EngErr (List (List Int) × State)) (l : List (List Int)) : Bool :=
  match x with
  | .ok (sols, _) => sols == l
  | .error _ => false

/-- ONE decidable check: the hypotheses hold, the variables are the shared domains, and the model's
    enumeration returns the list `l` -/
def listCheck (P : Problem) (h f : Nat) (l : List (List Int)) : Bool :=
  decide (Ready P h f) && decide (P.vars = idVars P.shr.length) &&
    okList (solveAll P (dcfg P h) f f f (State.init P) []) l

/-- the generic transport, explicit form: the list the model's enumeration returned is duplicate-free
    and its elements are exactly the solutions of `P` -/
theorem list_of_run (P : Problem) (h f : Nat) (l : List (List Int)) (hc : listCheck P h f l = true) :
    l.Nodup ∧ (∀ σ, σ ∈ l ↔ Sol P σ) ∧
      ∃ s', solveAll P (dcfg P h) f f f (State.init P) [] = .ok (l, s') := by
  simp only [listCheck, Bool.and_eq_true, decide_eq_true_eq] at hc
  obtain ⟨⟨hR, hid⟩, hrun⟩ := hc
  obtain ⟨s', L, hr, nd, hs⟩ := enum_of_ready P h f hR
  have hL : L.map (reported P) = L := by
    conv => rhs; rw [← List.map_id L]
    apply List.map_congr_left
    intro σ hσ
    exact reported_id hid ((hs σ).1 hσ).1
  rw [hr, hL] at hrun
  simp only [okList, beq_iff_eq] at hrun
  subst hrun
  exact ⟨nd, hs, s', by rw [hr, hL]⟩

/-- ONE decidable check for an optimisation of variable `v` -/
def optCheck (P : Problem) (h f f2 : Nat) (v : Nat) (minimize : Bool) (r : Option (List Int)) : Bool :=
  decide (Ready P h f) && decide (v < P.vars.length) && decide ((P.vars.getD v (0, 0)).1 < P.shr.length) &&
  decide (Dfs.dsize (getDom P.shr (P.vars.getD v (0, 0)).1) < f2) &&
  okOpt (optimize P (dcfg P h) v minimize f f2 (State.init P) none) r

theorem opt_of_run (P : Problem) (h f f2 v : Nat) (minimize : Bool) (r : Option (List Int))
    (hc : optCheck P h f f2 v minimize r = true) :
    (r = none ↔ ¬ ∃ σ, Sol P σ) ∧
    (∀ x, r = some x → (∃ σ, Sol P σ ∧ x = reported P σ) ∧
      ∀ τ, Sol P τ → Dfs.better minimize (getI x v) (getI (reported P τ) v)) := by
  simp only [optCheck, Bool.and_eq_true, decide_eq_true_eq] at hc
  obtain ⟨⟨⟨⟨⟨⟨hpr, hct, hW, hne, hg⟩, hH, hf⟩, hv⟩, hdi⟩, hf2⟩, hrun⟩ := hc
  obtain ⟨r', s', hr, h1, h2⟩ := C03_optimum_bc P (ProbOk_of_proven P hpr hct) hW
    (fun p _ => safe_all p.alg) hne hg (dcfg P h) rfl
    (by intro i hi; simp only [dcfg, List.mem_range]; exact hi)
    (by intro h; cases h) (by intro h; cases h) (by intro h; cases h) hH v hv hdi minimize f f2 hf hf2
  rw [hr] at hrun
  simp only [okOpt, beq_iff_eq] at hrun
  subst hrun
  exact ⟨h1, h2⟩

theorem count_of_list {V : List Int → Prop} (l : List (List Int)) (nd : l.Nodup) (h : ∀ σ, V σ ↔ σ ∈ l) :
    ∃ L : List (List Int), L.Nodup ∧ (∀ σ, σ ∈ L ↔ V σ) ∧ L.length = l.length :=
  ⟨l, nd, fun σ => (h σ).symm, rfl⟩

/-- two duplicate-free lists with the same elements have the same length -/
theorem length_eq_of_nodup {α : Type} [DecidableEq α] {l₁ l₂ : List α} (d₁ : l₁.Nodup) (d₂ : l₂.Nodup)
    (h : ∀ a, a ∈ l₁ ↔ a ∈ l₂) : l₁.length = l₂.length :=
  ((List.perm_ext_iff_of_nodup d₁ d₂).2 h).length_eq

/-! ## Part 2 — direct enumeration with pruning -/

/-- the values of a domain, in increasing order -/
def domVals (d : Dom) : List Int := (List.range (d.2 - d.1 + 1).toNat).map (fun (k : Nat) => d.1 + (k : Int))

theorem mem_domVals {d : Dom} {v : Int} : v ∈ domVals d ↔ inDom v d := by
  simp only [domVals, List.mem_map, List.mem_range, inDom]
  constructor
  · rintro ⟨k, hk, rfl⟩; omega
  · intro h; exact ⟨(v - d.1).toNat, by omega, by omega⟩

theorem nodup_domVals (d : Dom) : (domVals d).Nodup := by
  unfold domVals
  rw [List.Nodup, List.pairwise_map]
  exact List.nodup_range.imp (fun h => by omega)

/-- depth-first enumeration of the tuples of a box, left to right; `rev` is the prefix built so far,
    most recent value first; the value `v` is tried only if `ok rev v` -/
def enumR (ok : List Int → Int → Bool) : List Int → Box → List (List Int)
  | rev, [] => [rev.reverse]
  | rev, d :: ds => (domVals d).flatMap (fun v => if ok rev v then enumR ok (v :: rev) ds else [])

theorem mem_enumR (ok : List Int → Int → Bool) : ∀ (B : Box) (rev σ : List Int), σ ∈ enumR ok rev B ↔
    ∃ τ, σ = rev.reverse ++ τ ∧ inBox τ B ∧
      ∀ k, k < τ.length → ok ((τ.take k).reverse ++ rev) (getI τ k) = true
  | [], rev, σ => by
    simp only [enumR, List.mem_singleton]
    constructor
    · rintro rfl
      exact ⟨[], by simp, by simp [inBox], by intro k h; simp at h⟩
    · rintro ⟨τ, rfl, hb, _⟩
      cases τ with
      | nil => simp
      | cons => simp [inBox] at hb
  | d :: ds, rev, σ => by
    simp only [enumR, List.mem_flatMap, mem_domVals]
    constructor
    · rintro ⟨v, hv, hm⟩
      split at hm
      · next hok =>
        obtain ⟨τ, rfl, hb, hk⟩ := (mem_enumR ok ds (v :: rev) σ).1 hm
        refine ⟨v :: τ, by simp, ⟨hv, hb⟩, ?_⟩
        intro k h
        cases k with
        | zero => simpa [getI] using hok
        | succ k =>
          have := hk k (by simpa using h)
          simpa [getI] using this
      · simp at hm
    · rintro ⟨τ, rfl, hb, hk⟩
      cases τ with
      | nil => simp [inBox] at hb
      | cons v τ =>
        refine ⟨v, hb.1, ?_⟩
        have h1 := hk 0 (by simp)
        simp only [List.take_zero, List.reverse_nil, List.nil_append, getI, List.getD_cons_zero] at h1
        rw [if_pos h1]
        apply (mem_enumR ok ds (v :: rev) _).2
        refine ⟨τ, by simp, hb.2, ?_⟩
        intro k hk1
        have := hk (k + 1) (by simpa using hk1)
        simpa [getI] using this

theorem nodup_enumR (ok : List Int → Int → Bool) : ∀ (B : Box) (rev : List Int), (enumR ok rev B).Nodup
  | [], rev => by simp [enumR]
  | d :: ds, rev => by
    rw [enumR, List.Nodup, List.pairwise_flatMap]
    refine ⟨fun v _ => ?_, (nodup_domVals d).imp ?_⟩
    · split
      · exact nodup_enumR ok ds (v :: rev)
      · exact List.Pairwise.nil
    · intro v1 v2 hne x hx y hy hxy
      split at hx
      · split at hy
        · obtain ⟨τ1, rfl, _, _⟩ := (mem_enumR ok ds _ _).1 hx
          obtain ⟨τ2, e, _, _⟩ := (mem_enumR ok ds _ _).1 hy
          subst hxy
          simp only [List.reverse_cons, List.append_assoc, List.append_cancel_left_eq, List.cons_append,
            List.nil_append, List.cons.injEq] at e
          exact hne e.1
        · simp at hy
      · simp at hx

/-- the tuples `σ` of `B` with `ok (σ[k-1], …, σ[0]) σ[k]` for every position `k` -/
def enumBox (ok : List Int → Int → Bool) (B : Box) : List (List Int) := enumR ok [] B

theorem mem_enumBox (ok : List Int → Int → Bool) (B : Box) (σ : List Int) :
    σ ∈ enumBox ok B ↔ inBox σ B ∧ ∀ k, k < σ.length → ok (σ.take k).reverse (getI σ k) = true := by
  unfold enumBox
  rw [mem_enumR]
  constructor
  · rintro ⟨τ, rfl, hb, hk⟩
    exact ⟨by simpa using hb, by simpa using hk⟩
  · rintro ⟨hb, hk⟩
    exact ⟨σ, by simp, hb, by simpa using hk⟩

theorem nodup_enumBox (ok : List Int → Int → Bool) (B : Box) : (enumBox ok B).Nodup := nodup_enumR ok B []

theorem getI_rev_take {σ : List Int} {k m : Nat} (hk : k ≤ σ.length) (hm : m < k) :
    getI (σ.take k).reverse m = getI σ (k - 1 - m) := by
  rw [getI_eq_getElem (by simp; omega), getI_eq_getElem (by omega)]
  simp [List.getElem_reverse]
  congr 1
  omega

/-! ### queens -/

/-- a queen in column `v` is attacked by none of the queens `qs` of the previous rows (nearest row
    first, `d` = distance to the nearest of them) -/
def safeQ (v : Int) : Int → List Int → Bool
  | _, [] => true
  | d, q :: qs => decide (v ≠ q) && decide (v ≠ q + d) && decide (q ≠ v + d) && safeQ v (d + 1) qs

theorem safeQ_iff (v : Int) : ∀ (qs : List Int) (d : Int), safeQ v d qs = true ↔
    ∀ m, m < qs.length → v ≠ getI qs m ∧ v ≠ getI qs m + (d + (m : Int)) ∧ getI qs m ≠ v + (d + (m : Int))
  | [], d => by simp [safeQ]
  | q :: qs, d => by
    simp only [safeQ, Bool.and_eq_true, decide_eq_true_eq, safeQ_iff v qs (d + 1), List.length_cons]
    constructor
    · rintro ⟨⟨⟨h1, h2⟩, h3⟩, h⟩ m hm
      cases m with
      | zero => simp [getI]; omega
      | succ m =>
        have := h m (by omega)
        simp only [getI, List.getD_cons_succ] at this ⊢
        omega
    · intro h
      have h0 := h 0 (by omega)
      simp [getI] at h0
      refine ⟨⟨⟨h0.1, by omega⟩, by omega⟩, fun m hm => ?_⟩
      have := h (m + 1) (by omega)
      simp only [getI, List.getD_cons_succ] at this ⊢
      omega

theorem validQueens_iff (n : Nat) (σ : List Int) :
    ValidQueens n σ ↔ inBox σ (List.replicate n (0, (n : Int) - 1)) ∧
      ∀ k, k < σ.length → safeQ (getI σ k) 1 (σ.take k).reverse = true := by
  rw [inBox_replicate]
  simp only [inDom, safeQ_iff]
  constructor
  · intro h
    refine ⟨⟨h.len, h.inBoard⟩, fun k hk m hm => ?_⟩
    have hlen : (σ.take k).length = k := by simp; omega
    simp only [List.length_reverse, hlen] at hm
    rw [getI_rev_take (by omega) hm]
    have hkn : k < n := by have := h.len; omega
    have h1 := h.cols (k - 1 - m) k (by omega) hkn
    have h2 := h.diagUp (k - 1 - m) k (by omega) hkn
    have h3 := h.diagDown (k - 1 - m) k (by omega) hkn
    omega
  · rintro ⟨⟨hl, hb⟩, hk⟩
    have key : ∀ i j, i < j → j < n → getI σ i ≠ getI σ j ∧ getI σ i + i ≠ getI σ j + j ∧
        getI σ i - i ≠ getI σ j - j := by
      intro i j hij hj
      have hlen : (σ.take j).length = j := by simp; omega
      have h := hk j (by omega) (j - 1 - i) (by simp only [List.length_reverse, hlen]; omega)
      rw [getI_rev_take (by omega) (by omega)] at h
      have e : j - 1 - (j - 1 - i) = i := by omega
      rw [e] at h
      omega
    exact ⟨hl, hb, fun i j hij hj => (key i j hij hj).1, fun i j hij hj => (key i j hij hj).2.1,
      fun i j hij hj => (key i j hij hj).2.2⟩

/-- the non-attacking placements of `n` queens, enumerated row by row -/
def queensList (n : Nat) : List (List Int) :=
  enumBox (fun rev v => safeQ v 1 rev) (List.replicate n (0, (n : Int) - 1))

theorem mem_queensList (n : Nat) (σ : List Int) : σ ∈ queensList n ↔ ValidQueens n σ := by
  rw [queensList, mem_enumBox, validQueens_iff]

theorem count_queens (n k : Nat) (h : ((queensList n).length == k) = true) :
    ∃ L : List (List Int), L.Nodup ∧ (∀ σ, σ ∈ L ↔ ValidQueens n σ) ∧ L.length = k :=
  ⟨queensList n, nodup_enumBox _ _, mem_queensList n, by simpa using h⟩

/-! ### latin squares -/

/-- the last cell of a partially filled square (row-major) differs from the cells before it in its
    row and above it in its column -/
def okLatin (n : Nat) (l : List Int) : Bool :=
  (List.range ((l.length - 1) % n)).all (fun c' =>
    decide (getI l ((l.length - 1) / n * n + c') ≠ getI l (l.length - 1))) &&
  (List.range ((l.length - 1) / n)).all (fun r' =>
    decide (getI l (r' * n + (l.length - 1) % n) ≠ getI l (l.length - 1)))

theorem take_succ_getI {σ : List Int} {k : Nat} (hk : k < σ.length) :
    σ.take k ++ [getI σ k] = σ.take (k + 1) := by
  rw [List.take_add_one, getI_eq_getElem hk]
  simp [List.getElem?_eq_getElem hk]

theorem validLatinSquare_iff (n : Nat) (σ : List Int) :
    ValidLatinSquare n σ ↔ inBox σ (List.replicate (n * n) (0, (n : Int) - 1)) ∧
      ∀ k, k < σ.length → okLatin n ((σ.take k).reverse.reverse ++ [getI σ k]) = true := by
  rw [inBox_replicate]
  simp only [inDom, List.reverse_reverse]
  constructor
  · intro h
    refine ⟨⟨h.len, (forall_cells n _).2 h.colour⟩, fun k hk => ?_⟩
    rw [take_succ_getI hk]
    have hlen : (σ.take (k + 1)).length = k + 1 := by simp; omega
    have hkn : k < n * n := by have := h.len; omega
    have hn : 0 < n := by
      cases n with
      | zero => simp at hkn
      | succ _ => omega
    have hr : k / n < n := (Nat.div_lt_iff_lt_mul hn).2 hkn
    have hc : k % n < n := Nat.mod_lt _ hn
    have hk' : k / n * n + k % n = k := by rw [Nat.mul_comm]; exact Nat.div_add_mod k n
    simp only [okLatin, hlen, Nat.add_sub_cancel, Bool.and_eq_true, List.all_eq_true, List.mem_range,
      decide_eq_true_eq]
    constructor
    · intro c' hc'
      rw [getI_take (by omega), getI_take (by omega)]
      have := h.rows (k / n) hr c' (k % n) hc' hc
      rwa [hk'] at this
    · intro r' hr'
      have hlt : r' * n + k % n < k := by
        have : (r' + 1) * n ≤ k / n * n := Nat.mul_le_mul_right n hr'
        rw [Nat.add_mul] at this
        omega
      rw [getI_take (by omega), getI_take (by omega)]
      have := h.columns (k % n) hc r' (k / n) hr' hr
      rwa [hk'] at this
  · rintro ⟨⟨hl, hb⟩, hk⟩
    have hcell : ∀ i j, i < n → j < n → (i * n + j) / n = i ∧ (i * n + j) % n = j := by
      intro i j hi hj
      constructor
      · rw [Nat.add_comm, Nat.add_mul_div_right _ _ (by omega), Nat.div_eq_of_lt hj]; omega
      · rw [Nat.add_comm, Nat.add_mul_mod_self_right, Nat.mod_eq_of_lt hj]
    have hok : ∀ i j, i < n → j < n →
        (∀ c', c' < j → getI σ (i * n + c') ≠ getI σ (i * n + j)) ∧
        (∀ r', r' < i → getI σ (r' * n + j) ≠ getI σ (i * n + j)) := by
      intro i j hi hj
      have hlt := cell_lt hi hj
      have h := hk (i * n + j) (by omega)
      rw [take_succ_getI (by omega)] at h
      have hlen : (σ.take (i * n + j + 1)).length = i * n + j + 1 := by simp; omega
      simp only [okLatin, hlen, Nat.add_sub_cancel, Bool.and_eq_true, List.all_eq_true, List.mem_range,
        decide_eq_true_eq, (hcell i j hi hj).1, (hcell i j hi hj).2] at h
      constructor
      · intro c' hc'
        have := h.1 c' hc'
        rwa [getI_take (by omega), getI_take (by omega)] at this
      · intro r' hr'
        have hlt' : r' * n + j < i * n + j := by
          have : (r' + 1) * n ≤ i * n := Nat.mul_le_mul_right n hr'
          rw [Nat.add_mul] at this
          omega
        have := h.2 r' hr'
        rwa [getI_take (by omega), getI_take (by omega)] at this
    exact ⟨hl, (forall_cells n _).1 hb, fun i hi j₁ j₂ h12 h2 => (hok i j₂ hi h2).1 j₁ h12,
      fun j hj i₁ i₂ h12 h2 => (hok i₂ j h2 hj).2 i₁ h12⟩

/-- the latin squares of order `n` on the colours `0 … n-1`, enumerated cell by cell -/
def latinList (n : Nat) : List (List Int) :=
  enumBox (fun rev v => okLatin n (rev.reverse ++ [v])) (List.replicate (n * n) (0, (n : Int) - 1))

theorem mem_latinList (n : Nat) (σ : List Int) : σ ∈ latinList n ↔ ValidLatinSquare n σ := by
  rw [latinList, mem_enumBox, validLatinSquare_iff]

theorem count_latin (n k : Nat) (h : ((latinList n).length == k) = true) :
    ∃ L : List (List Int), L.Nodup ∧ (∀ σ, σ ∈ L ↔ ValidLatinSquare n σ) ∧ L.length = k :=
  ⟨latinList n, nodup_enumBox _ _, mem_latinList n, by simpa using h⟩

end Counts

open Counts

/-! ## Part 1, instances

### magic sequences: 2, 1, 0, 1 for n = 4, 5, 6, 7 -/

set_option maxRecDepth 100000 in
/-- the magic sequences of length 4, as enumerated by the model's search -/
theorem C20_list_magicSequence_4 (σ : List Int) :
    ValidMagicSequence 4 σ ↔ σ ∈ [[1, 2, 1, 0], [2, 0, 2, 0]] := by
  rw [← C20_magicSequence]
  exact ((list_of_run (magicSequenceProblem 4) 100 100000 _ (by decide +kernel)).2.1 σ).symm

theorem C20_count_magicSequence_4 :
    ∃ L : List (List Int), L.Nodup ∧ (∀ σ, σ ∈ L ↔ ValidMagicSequence 4 σ) ∧ L.length = 2 :=
  count_of_list _ (by decide) C20_list_magicSequence_4

set_option maxRecDepth 100000 in
theorem C20_list_magicSequence_5 (σ : List Int) : ValidMagicSequence 5 σ ↔ σ ∈ [[2, 1, 2, 0, 0]] := by
  rw [← C20_magicSequence]
  exact ((list_of_run (magicSequenceProblem 5) 100 100000 _ (by decide +kernel)).2.1 σ).symm

theorem C20_count_magicSequence_5 :
    ∃ L : List (List Int), L.Nodup ∧ (∀ σ, σ ∈ L ↔ ValidMagicSequence 5 σ) ∧ L.length = 1 :=
  count_of_list _ (by decide) C20_list_magicSequence_5

set_option maxRecDepth 100000 in
theorem C20_list_magicSequence_6 (σ : List Int) : ValidMagicSequence 6 σ ↔ σ ∈ ([] : List (List Int)) := by
  rw [← C20_magicSequence]
  exact ((list_of_run (magicSequenceProblem 6) 100 1000000 _ (by decide +kernel)).2.1 σ).symm

theorem C20_count_magicSequence_6 :
    ∃ L : List (List Int), L.Nodup ∧ (∀ σ, σ ∈ L ↔ ValidMagicSequence 6 σ) ∧ L.length = 0 :=
  count_of_list _ (by decide) C20_list_magicSequence_6

set_option maxRecDepth 100000 in
theorem C20_list_magicSequence_7 (σ : List Int) : ValidMagicSequence 7 σ ↔ σ ∈ [[3, 2, 1, 1, 0, 0, 0]] := by
  rw [← C20_magicSequence]
  exact ((list_of_run (magicSequenceProblem 7) 100 10000000 _ (by decide +kernel)).2.1 σ).symm

theorem C20_count_magicSequence_7 :
    ∃ L : List (List Int), L.Nodup ∧ (∀ σ, σ ∈ L ↔ ValidMagicSequence 7 σ) ∧ L.length = 1 :=
  count_of_list _ (by decide) C20_list_magicSequence_7

/-! ### latin squares of order 2 -/

set_option maxRecDepth 100000 in
theorem C20_list_latinSquare_2 (σ : List Int) : ValidLatinSquare 2 σ ↔ σ ∈ [[0, 1, 1, 0], [1, 0, 0, 1]] := by
  rw [← C20_latinSquare]
  exact ((list_of_run (latinSquareProblem 2) 100 100 _ (by decide +kernel)).2.1 σ).symm

theorem C20_count_latinSquare_2 :
    ∃ L : List (List Int), L.Nodup ∧ (∀ σ, σ ∈ L ↔ ValidLatinSquare 2 σ) ∧ L.length = 2 :=
  count_of_list _ (by decide) C20_list_latinSquare_2

/-! ### 4 queens -/

set_option maxRecDepth 100000 in
/-- 4 queens, through the model's search (62 filtering calls of the ported alldifferent) -/
theorem C20_count_queens_4 :
    ∃ L : List (List Int), L.Nodup ∧ (∀ σ, σ ∈ L ↔ ValidQueens 4 σ) ∧ L.length = 2 := by
  obtain ⟨L, _, nd, hs, hl, _⟩ := count_of_run (queensProblem 4) 100 1000 2 (by decide +kernel)
  exact ⟨L, nd, fun σ => (hs σ).trans (C20_queens 4 σ), hl⟩

/-! ### Golomb ruler with 4 marks: the optimum is 6 -/

set_option maxRecDepth 100000 in
/-- `minimize(length)` on the posted model (no symmetry breaking) returns the distance table of the
    ruler 0, 1, 4, 6; so there is a Golomb ruler with 4 marks of length 6 and none is shorter.
    The length is the entry `d(0, 3)`, at position `pairPos 4 0 3 = 2` of the distance table. -/
theorem C20_count_golomb_4_optimum :
    (∃ σ, ValidGolomb 4 σ ∧ getI σ (pairPos 4 0 3) = 6) ∧
    ∀ σ, ValidGolomb 4 σ → 6 ≤ getI σ (pairPos 4 0 3) := by
  have hid : (golombProblem 4 false).vars = idVars (golombProblem 4 false).shr.length := by decide
  obtain ⟨_, h⟩ := opt_of_run (golombProblem 4 false) 200 200000000 100 2 true (some [1, 4, 6, 3, 5, 2])
    (by decide +kernel)
  obtain ⟨⟨σ, hσ, e⟩, hopt⟩ := h _ rfl
  rw [reported_id hid hσ.1] at e
  subst e
  refine ⟨⟨_, (C20_golomb 4 (by decide) _).1 hσ, by decide⟩, fun τ hτ => ?_⟩
  have hτ' := (C20_golomb 4 (by decide) τ).2 hτ
  have := (Dfs.better_min _ _).1 (hopt τ hτ')
  rw [reported_id hid hτ'.1] at this
  exact this

/-! ### Schur's lemma: sum-free 3-colourings of 1 … n -/

set_option maxRecDepth 100000 in
theorem C20_count_schur_3 :
    ∃ L : List (List Int), L.Nodup ∧ (∀ σ, σ ∈ L ↔ ValidSchur 3 σ) ∧ L.length = 18 := by
  obtain ⟨L, _, nd, hs, hl, _⟩ := count_of_run (schurLemmaProblem 3 false) 100 10000 18 (by decide +kernel)
  exact ⟨L, nd, fun σ => (hs σ).trans (C20_schurLemma 3 σ), hl⟩

set_option maxRecDepth 100000 in
theorem C20_count_schur_4 :
    ∃ L : List (List Int), L.Nodup ∧ (∀ σ, σ ∈ L ↔ ValidSchur 4 σ) ∧ L.length = 30 := by
  obtain ⟨L, _, nd, hs, hl, _⟩ := count_of_run (schurLemmaProblem 4 false) 100 10000 30 (by decide +kernel)
  exact ⟨L, nd, fun σ => (hs σ).trans (C20_schurLemma 4 σ), hl⟩

set_option maxRecDepth 100000 in
/-- the symmetry-breaking model (the default of `SchurLemmaProblem`) for n = 4 has 17 solutions, the
    number asserted by tests/examples/test_schur_lemma.py; all of them are sum-free colourings
    (`C20_schurLemma_sb_valid`).  (For ODD n the symmetry-breaking constraint is a lexicographic_leq over 3n
    variables, an odd number: the code compares the first ⌊3n/2⌋ with the next ⌊3n/2⌋ and ignores the last one;
    `Contract .lexLeq` was relaxed to `2 ≤ length` and the seven local contracts re-proved for odd arity, so the
    engine theorems cover that model too.) -/
theorem C20_count_schur_sb_4 :
    ∃ L : List (List Int), L.Nodup ∧ (∀ σ, σ ∈ L ↔ Sol (schurLemmaProblem 4 true) σ) ∧ L.length = 17 ∧
      ∀ σ ∈ L, ValidSchur 4 σ := by
  obtain ⟨L, _, nd, hs, hl, _⟩ := count_of_run (schurLemmaProblem 4 true) 100 10000 17 (by decide +kernel)
  exact ⟨L, nd, hs, hl, fun σ hσ => C20_schurLemma_sb_valid 4 σ ((hs σ).1 hσ)⟩

/-! ## Part 2, instances -/

set_option maxRecDepth 100000 in
theorem C20_count_queens_5 :
    ∃ L : List (List Int), L.Nodup ∧ (∀ σ, σ ∈ L ↔ ValidQueens 5 σ) ∧ L.length = 10 :=
  count_queens 5 10 (by decide +kernel)

set_option maxRecDepth 100000 in
theorem C20_count_queens_6 :
    ∃ L : List (List Int), L.Nodup ∧ (∀ σ, σ ∈ L ↔ ValidQueens 6 σ) ∧ L.length = 4 :=
  count_queens 6 4 (by decide +kernel)

set_option maxRecDepth 100000 in
theorem C20_count_queens_7 :
    ∃ L : List (List Int), L.Nodup ∧ (∀ σ, σ ∈ L ↔ ValidQueens 7 σ) ∧ L.length = 40 :=
  count_queens 7 40 (by decide +kernel)

set_option maxRecDepth 100000 in
theorem C20_count_queens_8 :
    ∃ L : List (List Int), L.Nodup ∧ (∀ σ, σ ∈ L ↔ ValidQueens 8 σ) ∧ L.length = 92 :=
  count_queens 8 92 (by decide +kernel)

set_option maxRecDepth 100000 in
theorem C20_count_latinSquare_3 :
    ∃ L : List (List Int), L.Nodup ∧ (∀ σ, σ ∈ L ↔ ValidLatinSquare 3 σ) ∧ L.length = 12 :=
  count_latin 3 12 (by decide +kernel)

/-! ## back to the solver -/

/-- a problem with exactly `k` solutions: for EVERY configuration admitted by `C02_enumeration_bc`
    (any variable heuristic, any value heuristic, any sufficient stack height and fuels) the model's
    enumeration returns exactly `k` vectors, each the reported vector of a solution -/
theorem C20_solver_count (P : Problem) (hR : ProblemReady P) (k : Nat)
    (hcount : ∃ L : List (List Int), L.Nodup ∧ (∀ σ, σ ∈ L ↔ Sol P σ) ∧ L.length = k)
    (cfg : Config) (hbc : cfg.cons = .bc)
    (hall : ∀ i, i < P.shr.length → i ∈ cfg.decision) (hcost : CostOk cfg)
    (hvtab : cfg.varH = .maxRegret → ∀ d u, (getDom P.shr d).1 ≤ u → u ≤ (getDom P.shr d).2 →
      ∃ c, costAt cfg.varCosts d u = some c ∧ c ≤ maxsize)
    (htab : cfg.domH = .minCost → ∀ d u, (getDom P.shr d).1 ≤ u → u ≤ (getDom P.shr d).2 → (costAt cfg.domCosts d u).isSome = true)
    (hH : width P.shr + 2 ≤ cfg.height)
    (fuel1 fuel limit : Nat) (h1 : 2 * Dfs.bsize P.shr ≤ fuel1) (h2 : 2 * Dfs.bsize P.shr ≤ fuel)
    (h3 : 2 * Dfs.bsize P.shr ≤ limit) :
    ∃ (sols : List (List Int)) (s' : State),
      solveAll P cfg fuel1 fuel limit (State.init P) [] = .ok (sols, s') ∧ sols.length = k ∧
      ∀ x ∈ sols, ∃ σ, Sol P σ ∧ x = reported P σ := by
  obtain ⟨hpr, hct, hW, hne, hg⟩ := hR
  obtain ⟨L₀, nd₀, hs₀, hl₀⟩ := hcount
  obtain ⟨sols, s', L, hr, e, nd, hs, _⟩ := C02_enumeration_bc P (ProbOk_of_proven P hpr hct) hW
    (fun p _ => safe_all p.alg) hne hg cfg hbc hall hcost hvtab htab hH fuel1 fuel limit h1 h2 h3
  refine ⟨sols, s', hr, ?_, ?_⟩
  · rw [e, List.length_map, ← hl₀]
    exact length_eq_of_nodup nd nd₀ (fun σ => (hs σ).trans (hs₀ σ).symm)
  · intro x hx
    rw [e] at hx
    obtain ⟨σ, hσ, rfl⟩ := List.mem_map.1 hx
    exact ⟨σ, (hs σ).1 hσ, rfl⟩

set_option maxRecDepth 100000 in
/-- 8 queens: whatever the heuristics, the model of the solver returns 92 solutions
    (height ≥ 8·7 + 2, fuels and limit ≥ 2·8⁸) -/
theorem C20_solver_count_queens_8 (cfg : Config) (hbc : cfg.cons = .bc)
    (hall : ∀ i, i < 8 → i ∈ cfg.decision) (hcost : CostOk cfg)
    (hvtab : cfg.varH = .maxRegret → ∀ d u, (getDom (queensProblem 8).shr d).1 ≤ u → u ≤ (getDom (queensProblem 8).shr d).2 →
      ∃ c, costAt cfg.varCosts d u = some c ∧ c ≤ maxsize)
    (htab : cfg.domH = .minCost → ∀ d u, (getDom (queensProblem 8).shr d).1 ≤ u → u ≤ (getDom (queensProblem 8).shr d).2 →
      (costAt cfg.domCosts d u).isSome = true)
    (hH : 58 ≤ cfg.height)
    (fuel1 fuel limit : Nat) (h1 : 33554432 ≤ fuel1) (h2 : 33554432 ≤ fuel) (h3 : 33554432 ≤ limit) :
    ∃ (sols : List (List Int)) (s' : State),
      solveAll (queensProblem 8) cfg fuel1 fuel limit (State.init (queensProblem 8)) [] = .ok (sols, s') ∧
      sols.length = 92 := by
  have hw : width (queensProblem 8).shr = 56 := by decide +kernel
  have hb : Dfs.bsize (queensProblem 8).shr = 16777216 := by decide +kernel
  obtain ⟨L, nd, hs, hl⟩ := C20_count_queens_8
  obtain ⟨sols, s', hr, hk, _⟩ := C20_solver_count (queensProblem 8) (by decide +kernel) 92
    ⟨L, nd, fun σ => (hs σ).trans (C20_queens 8 σ).symm, hl⟩ cfg hbc hall hcost hvtab htab
    (by rw [hw]; exact hH) fuel1 fuel limit (by rw [hb]; exact h1) (by rw [hb]; exact h2) (by rw [hb]; exact h3)
  exact ⟨sols, s', hr, hk⟩

end Nucs
