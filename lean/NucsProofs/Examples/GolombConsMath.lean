import NucsProofs.Examples.Golomb
import NucsModel.Engine.GolombCons
/-!
  The arithmetic behind `golomb_consistency_algorithm`: the sum of `t` pairwise different integers `≥ d` none of
  which is marked as used is at least the sum the algorithm computes (`golombSum`: the `t` smallest unmarked
  integers `≥ d`, taken greedily).
-/
namespace Nucs
namespace Ex

/-- specification of the scan for the next unused distance -/
theorem golombNext_spec (used : List Bool) : ∀ (fuel d a : Nat), golombNext used fuel d = some a →
    d ≤ a ∧ a < used.length ∧ used.getD a false = false ∧ ∀ y, d ≤ y → y < a → used.getD y false = true
  | 0, _, _, h => by simp [golombNext] at h
  | fuel + 1, d, a, h => by
    simp only [golombNext] at h
    split at h
    · rename_i hd
      split at h
      · rename_i hu
        obtain ⟨h1, h2, h3, h4⟩ := golombNext_spec used fuel (d + 1) a h
        refine ⟨by omega, h2, h3, fun y hy1 hy2 => ?_⟩
        by_cases e : y = d
        · subst e; exact hu
        · exact h4 y (by omega) hy2
      · rename_i hu
        cases h
        exact ⟨Nat.le_refl _, hd, by simpa using hu, fun y h1 h2 => by omega⟩
    · cases h

/-- a non-empty list of integers has a least element -/
theorem exists_min_of_ne_nil : ∀ (L : List Int), L ≠ [] → ∃ x0 ∈ L, ∀ y ∈ L, x0 ≤ y
  | [], h => absurd rfl h
  | [x], _ => ⟨x, by simp, by simp⟩
  | x :: y :: ys, _ => by
    obtain ⟨m, hm, hmin⟩ := exists_min_of_ne_nil (y :: ys) (by simp)
    by_cases hx : x ≤ m
    · refine ⟨x, by simp, fun z hz => ?_⟩
      rcases List.mem_cons.1 hz with rfl | hz
      · exact Int.le_refl _
      · exact Int.le_trans hx (hmin z hz)
    · refine ⟨m, List.mem_cons_of_mem _ hm, fun z hz => ?_⟩
      rcases List.mem_cons.1 hz with rfl | hz
      · omega
      · exact hmin z hz

/-- the greedy sum is a lower bound for every admissible list -/
theorem golombSum_le (used : List Bool) : ∀ (t d : Nat) (r : Int) (L : List Int),
    golombSum used t d = some r → L.length = t → L.Nodup →
    (∀ x ∈ L, (d : Int) ≤ x ∧ used.getD x.toNat false = false) → r ≤ L.sum
  | 0, _, r, L, h, hl, _, _ => by
    simp only [golombSum] at h
    cases h
    have : L = [] := List.length_eq_zero_iff.1 hl
    subst this
    simp
  | t + 1, d, r, L, h, hl, hnd, hL => by
    simp only [golombSum] at h
    split at h
    · cases h
    · rename_i a ha
      split at h
      · cases h
      · rename_i r' hr'
        cases h
        obtain ⟨h1, h2, h3, h4⟩ := golombNext_spec used _ d a ha
        have hne : L ≠ [] := by intro e; subst e; simp at hl
        obtain ⟨x0, hx0, hmin⟩ := exists_min_of_ne_nil L hne
        -- every element is at least `a`
        have hge : ∀ x ∈ L, (a : Int) ≤ x := by
          intro x hx
          obtain ⟨hd, hu⟩ := hL x hx
          by_cases hlt : x < (a : Int)
          · have hx0' : 0 ≤ x := by omega
            have := h4 x.toNat (by omega) (by omega)
            rw [hu] at this
            cases this
          · omega
        have hnd' := hnd.erase x0
        have hlen' : (L.erase x0).length = t := by
          rw [List.length_erase_of_mem hx0]; omega
        have hL' : ∀ y ∈ L.erase x0, ((a + 1 : Nat) : Int) ≤ y ∧ used.getD y.toNat false = false := by
          intro y hy
          have hy' := (hnd.mem_erase_iff).1 hy
          have := hmin y hy'.2
          have := hge x0 hx0
          have hne' := hy'.1
          exact ⟨by omega, (hL y hy'.2).2⟩
        have ih := golombSum_le used t (a + 1) r' (L.erase x0) hr' hlen' hnd' hL'
        rw [sum_erase_of_mem x0 L hx0]
        have := hge x0 hx0
        omega

/-- what the marking loop marks: only values of instantiated variables among the first `cnt` -/
theorem golombMarkUsed_spec (P : Problem) (D : Box) (size : Nat) : ∀ (cnt : Nat) (used : List Bool),
    golombMarkUsed P D size cnt = some used →
    used.length = size ∧
    ∀ u, used.getD u false = true → ∃ v, v < cnt ∧
      (getDom D (P.vars.getD v (0, 0)).1).1 = (u : Int) ∧ (getDom D (P.vars.getD v (0, 0)).1).2 = (u : Int)
  | 0, used, h => by
    simp only [golombMarkUsed] at h
    cases h
    refine ⟨by simp, fun u hu => ?_⟩
    simp [List.getD_eq_getElem?_getD, List.getElem?_replicate] at hu
    split at hu <;> simp at hu
  | cnt + 1, used, h => by
    simp only [golombMarkUsed] at h
    split at h
    · cases h
    · rename_i used0 h0
      obtain ⟨hl0, hs0⟩ := golombMarkUsed_spec P D size cnt used0 h0
      split at h
      · rename_i hc
        split at h
        · cases h
        · rename_i hneg
          cases h
          simp only [Bool.and_eq_true, beq_iff_eq, decide_eq_true_eq] at hc
          refine ⟨by simp [hl0], fun u hu => ?_⟩
          by_cases e : u = (getDom D (P.vars.getD cnt (0, 0)).1).1.toNat
          · refine ⟨cnt, by omega, ?_, ?_⟩
            · rw [e]; omega
            · rw [← hc.1, e]; omega
          · rw [List.getD_eq_getElem?_getD, List.getElem?_set_ne (by omega)] at hu
            rw [← List.getD_eq_getElem?_getD] at hu
            obtain ⟨v, hv, h1, h2⟩ := hs0 u hu
            exact ⟨v, by omega, h1, h2⟩
      · cases h
        refine ⟨hl0, fun u hu => ?_⟩
        obtain ⟨v, hv, h1, h2⟩ := hs0 u hu
        exact ⟨v, by omega, h1, h2⟩

end Ex
end Nucs
