import NucsProofs.Examples.Common
import NucsProofs.Propagators.NoSubCycle
/-!
  C20 for `CircuitProblem(n)`, `n ≥ 2`: the solutions of the posted model (alldifferent +
  no_sub_cycle, with the three root domains that exclude the loops `0 → 0` and `n-1 → n-1`) are exactly
  the Hamiltonian circuits on the vertices `0 … n-1`, given as successor lists.

  (`CircuitProblem(1)` and `CircuitProblem(0)` build two domains `(1, n-1)`, `(0, n-2)` that are empty:
  no solution.)

  Uses the orbit lemmas of `NucsProofs/Propagators/{Scc,NoSubCycle}.lean` (`orb`, `iterSucc_orb`,
  `full_cycle`).
-/
namespace Nucs
open Ex Scc

/-- the successor of vertex `v` in the successor list `s` -/
def succOf (s : List Int) (v : Nat) : Nat := (getI s v).toNat

/-- the vertex reached from `start` after `k` steps along the successors -/
def walk (s : List Int) (start : Nat) : Nat → Nat
  | 0 => start
  | k + 1 => succOf s (walk s start k)

/-- a Hamiltonian circuit on `0 … n-1` as a successor list: every successor is a vertex, no two
    vertices share a successor (so every vertex is entered exactly once), and the walk that starts
    at vertex 0 visits every vertex (so there is one single cycle) -/
structure ValidCircuit (n : Nat) (s : List Int) : Prop where
  len : s.length = n
  vertex : ∀ i, i < n → 0 ≤ getI s i ∧ getI s i ≤ (n : Int) - 1
  injective : ∀ i j, i < j → j < n → getI s i ≠ getI s j
  tour : ∀ v, v < n → ∃ k, walk s 0 k = v

namespace Ex

theorem walk_eq_orb (s : List Int) (u : Nat) : ∀ k, walk s u k = orb (fOf s) u k
  | 0 => rfl
  | k + 1 => by simp only [walk, orb, walk_eq_orb s u k]; rfl

/-- the orbit of `u` is periodic once it returns -/
theorem orb_mod {f : Nat → Nat} {u k : Nat} (hk : 0 < k) (h : orb f u k = u) : ∀ m, orb f u m = orb f u (m % k) := by
  intro m
  induction m using Nat.strongRecOn with
  | ind m ih =>
    by_cases hm : m < k
    · rw [Nat.mod_eq_of_lt hm]
    · have e : m = k + (m - k) := by omega
      have h1 : orb f u m = orb f u (m - k) := by
        conv => lhs; rw [e, orb_add, h]
      rw [h1, ih (m - k) (by omega)]
      congr 1
      conv => rhs; rw [e, Nat.add_mod_left]

/-- an orbit that reaches all `n` vertices does not return before `n` steps -/
theorem no_early_return {f : Nat → Nat} {n : Nat} (htour : ∀ v, v < n → ∃ k, orb f 0 k = v) :
    ∀ k, 0 < k → k < n → orb f 0 k ≠ 0 := by
  intro k hk0 hkn h
  have hsub : List.range n ⊆ (List.range k).map (orb f 0) := by
    intro v hv
    obtain ⟨m, hm⟩ := htour v (List.mem_range.1 hv)
    rw [orb_mod hk0 h m] at hm
    exact List.mem_map.2 ⟨m % k, List.mem_range.2 (Nat.mod_lt _ hk0), hm⟩
  have := (List.nodup_range (n := n)).length_le_of_subset hsub
  simp at this
  omega

/-- without short cycles the orbit of any vertex reaches all vertices -/
theorem tour_of_nsc {f : Nat → Nat} {n i : Nat} (hf : ∀ v, f v < n) (hi : i < n)
    (hnsc : ∀ v, v < n → ∀ k, 0 < k → k < n → orb f v k ≠ v) :
    ∀ v, v < n → ∃ p, orb f i p = v := by
  have hinj := Nsc.inj_of_nsc hf hnsc
  have hlt : ∀ m, orb f i m < n := orb_lt hf hi
  have cancel : ∀ p k, orb f i (p + k) = orb f i p → orb f i k = i := by
    intro p
    induction p with
    | zero => intro k h; simpa [orb] using h
    | succ p ih =>
      intro k h
      rw [show p + 1 + k = (p + k) + 1 by omega] at h
      exact ih k (hinj _ _ (hlt _) (hlt _) h)
  intro v hv
  apply Classical.byContradiction
  intro hno
  have hnd : ((List.range n).map (orb f i)).Nodup := by
    rw [nodup_map_range]
    intro a b hab hb e
    have := cancel a (b - a) (by rw [show a + (b - a) = b by omega]; exact e.symm)
    exact hnsc i hi (b - a) (by omega) (by omega) this
  have hsub : (List.range n).map (orb f i) ⊆ (List.range n).erase v := by
    intro x hx
    simp only [List.mem_map, List.mem_range] at hx
    obtain ⟨a, _, rfl⟩ := hx
    have hne : orb f i a ≠ v := fun h => hno ⟨a, h⟩
    exact (List.mem_erase_of_ne hne).mpr (by simpa using hlt a)
  have := hnd.length_le_of_subset hsub
  rw [List.length_erase_of_mem (by simpa using hv)] at this
  simp at this
  omega

/-- the root box of the circuit model -/
theorem circuit_box (n : Nat) (hn : 2 ≤ n) (σ : List Int) :
    inBox σ (circuitDomains n) ↔ σ.length = n ∧
      (∀ i, i < n → 0 ≤ getI σ i ∧ getI σ i ≤ (n : Int) - 1) ∧ getI σ 0 ≠ 0 ∧ getI σ (n - 1) ≠ (n : Int) - 1 := by
  obtain ⟨m, rfl⟩ : ∃ m, n = m + 2 := ⟨n - 2, by omega⟩
  have hlen : (circuitDomains (m + 2)).length = m + 2 := by simp [circuitDomains]
  have he : m + 2 - 1 = m + 1 := by omega
  rw [he]
  have g0 : getDom (circuitDomains (m + 2)) 0 = (1, ((m + 2 : Nat) : Int) - 1) := by
    simp [circuitDomains, getDom]
  have gl : getDom (circuitDomains (m + 2)) (m + 1) = (0, ((m + 2 : Nat) : Int) - 2) := by
    simp [circuitDomains, getDom, List.getD_eq_getElem?_getD]
  have gm : ∀ i, 0 < i → i < m + 1 → getDom (circuitDomains (m + 2)) i = (0, ((m + 2 : Nat) : Int) - 1) := by
    intro i h0 h1
    obtain ⟨j, rfl⟩ : ∃ j, i = j + 1 := ⟨i - 1, by omega⟩
    have : j < m := by omega
    simp [circuitDomains, getDom, List.getD_eq_getElem?_getD, List.getElem?_append, this]
  rw [inBox_iff, hlen]
  constructor
  · rintro ⟨hl, h⟩
    have h0 := h 0 (by omega)
    have hl' := h (m + 1) (by omega)
    rw [g0] at h0
    rw [gl] at hl'
    simp only [inDom] at h0 hl'
    refine ⟨hl, fun i hi => ?_, by omega, by omega⟩
    rcases Nat.eq_zero_or_pos i with rfl | hpos
    · omega
    · rcases Nat.lt_or_ge i (m + 1) with hlt | hge
      · have := h i hi
        rw [gm i hpos hlt] at this
        exact this
      · have : i = m + 1 := by omega
        subst this
        omega
  · rintro ⟨hl, hr, h0, hlast⟩
    refine ⟨hl, fun i hi => ?_⟩
    rcases Nat.eq_zero_or_pos i with rfl | hpos
    · rw [g0]; have := hr 0 (by omega); simp only [inDom]; omega
    · rcases Nat.lt_or_ge i (m + 1) with hlt | hge
      · rw [gm i hpos hlt]; exact hr i hi
      · have : i = m + 1 := by omega
        subst this
        rw [gl]
        have := hr (m + 1) (by omega)
        simp only [inDom] at *
        omega

end Ex

/-- the posted circuit model, constraint by constraint -/
theorem circuit_sol_iff (n : Nat) (hn : 2 ≤ n) (t : List Int) :
    Sol (circuitProblem n) t ↔ inBox t (circuitDomains n) ∧ t.Nodup ∧ NoShortCycle t := by
  have hlen : (circuitDomains n).length = n := by simp [circuitDomains]; omega
  simp only [circuitProblem, hlen]
  rw [sol_mk]
  simp only [circuitProps, List.mem_cons, List.not_mem_nil, or_false, forall_eq_or_imp, forall_eq, rel]
  have key : inBox t (circuitDomains n) → vals (idVars n) t (List.range n) = t := by
    intro hb
    have hl : t.length = n := by rw [inBox_length hb, hlen]
    rw [vals_id _ _ (fun v hv => List.mem_range.1 hv)]
    conv => lhs; rw [← hl, map_getI_range]
  constructor
  · rintro ⟨hb, h1, h2⟩
    rw [key hb] at h1 h2
    exact ⟨hb, h1, h2⟩
  · rintro ⟨hb, h1, h2⟩
    rw [key hb]
    exact ⟨hb, h1, h2⟩

/-- a successor list without short cycles on at least two vertices has no loop -/
theorem noloop_of_nsc {t : List Int} (h : NoShortCycle t) (hn : 2 ≤ t.length) (v : Nat) (hv : v < t.length) :
    getI t v ≠ (v : Int) := by
  intro e
  apply h v hv 1 (by omega) (by omega)
  have hget : t[v] = (v : Int) := by rw [← getI_eq_getElem hv, e]
  simp only [iterSucc, Int.toNat_natCast, List.getElem?_eq_getElem hv, Option.bind_some, hget]
  simp
  omega

/-- C20 (circuit): for `n ≥ 2` the posted model accepts exactly the Hamiltonian circuits -/
theorem C20_circuit (n : Nat) (hn : 2 ≤ n) (σ : List Int) :
    Sol (circuitProblem n) σ ↔ ValidCircuit n σ := by
  have hlen : (circuitDomains n).length = n := by simp [circuitDomains]; omega
  simp only [circuitProblem, hlen]
  rw [sol_mk, circuit_box n hn]
  simp only [circuitProps, List.mem_cons, List.not_mem_nil, or_false, forall_eq_or_imp, forall_eq, rel]
  -- under the length and range conditions: the value list is `σ`, the successor function stays in range
  have key : σ.length = n → (∀ i, i < n → 0 ≤ getI σ i ∧ getI σ i ≤ (n : Int) - 1) →
      vals (idVars n) σ (List.range n) = σ ∧ InRange σ ∧ (∀ v, fOf σ v < n) ∧
      (NoShortCycle σ ↔ ∀ v, v < n → ∀ k, 0 < k → k < n → orb (fOf σ) v k ≠ v) ∧
      ((∀ i j, i < j → j < n → getI σ i ≠ getI σ j) ↔
        ∀ u w, u < n → w < n → fOf σ u = fOf σ w → u = w) := by
    intro hl hr
    have hR : InRange σ := fun i hi => by have := hr i (by omega); omega
    have hf : ∀ v, fOf σ v < n := fun v => by
      have := fOf_lt hR (by omega) v
      omega
    refine ⟨?_, hR, hf, ?_, ?_⟩
    · rw [vals_id _ _ (fun v hv => List.mem_range.1 hv)]
      conv => lhs; rw [← hl, map_getI_range]
    · constructor
      · intro h v hv k hk0 hkn e
        have := h v (by omega) k hk0 (by omega)
        rw [iterSucc_orb hR k v (by omega), e] at this
        exact this rfl
      · intro h v hv k hk0 hkn e
        rw [iterSucc_orb hR k v hv] at e
        have : orb (fOf σ) v k = v := by
          have := Option.some.inj e
          omega
        exact h v (by omega) k hk0 (by omega) this
    · have hcast : ∀ i, i < n → ((fOf σ i : Nat) : Int) = getI σ i := fun i hi => fOf_cast hR (by omega)
      constructor
      · intro h u w hu hw e
        apply Classical.byContradiction
        intro hne
        have e' : getI σ u = getI σ w := by rw [← hcast u hu, ← hcast w hw, e]
        rcases Nat.lt_or_gt_of_ne hne with hlt | hgt
        · exact h u w hlt hw e'
        · exact h w u hgt hu e'.symm
      · intro h i j hij hj e
        have : fOf σ i = fOf σ j := by unfold fOf; rw [e]
        have := h i j (by omega) hj this
        omega
  constructor
  · rintro ⟨⟨hl, hr, _, _⟩, hnd, hnsc⟩
    obtain ⟨k1, _, hf, k4, _⟩ := key hl hr
    rw [k1] at hnd hnsc
    refine ⟨hl, hr, ?_, ?_⟩
    · have := (nodup_iff_getI σ).1 hnd
      rw [hl] at this
      exact this
    · intro v hv
      obtain ⟨p, hp⟩ := tour_of_nsc hf (show 0 < n by omega) (k4.1 hnsc) v hv
      exact ⟨p, by rw [walk_eq_orb]; exact hp⟩
  · intro hv
    obtain ⟨k1, _, hf, k4, k5⟩ := key hv.len hv.vertex
    have htour : ∀ v, v < n → ∃ k, orb (fOf σ) 0 k = v := fun v hv' => by
      obtain ⟨k, hk⟩ := hv.tour v hv'
      exact ⟨k, by rw [← walk_eq_orb]; exact hk⟩
    have hnscf := Nsc.full_cycle hf (k5.1 hv.injective) (show 0 < n by omega) (no_early_return htour)
    -- no loops at the two ends
    have hcast : ∀ i, i < n → ((fOf σ i : Nat) : Int) = getI σ i := fun i hi => by
      have := hv.vertex i hi
      unfold fOf; omega
    have hloop : ∀ v, v < n → getI σ v ≠ (v : Int) := by
      intro v hv' e
      have := hnscf v hv' 1 (by omega) (by omega)
      apply this
      have := hcast v hv'
      simp only [orb]
      omega
    refine ⟨⟨hv.len, hv.vertex, ?_, ?_⟩, ?_, ?_⟩
    · simpa using hloop 0 (by omega)
    · have := hloop (n - 1) (by omega)
      intro e; apply this; rw [e]; omega
    · rw [k1, nodup_iff_getI, hv.len]
      exact hv.injective
    · rw [k1]
      exact k4.2 hnscf

/-- non-vacuity: the circuit 0 → 2 → 1 → 3 → 0 -/
example : Sol (circuitProblem 4) [2, 3, 1, 0] := by
  rw [C20_circuit 4 (by decide)]
  have hv : ∀ i, i < 4 → 0 ≤ getI [2, 3, 1, 0] i ∧ getI [2, 3, 1, 0] i ≤ ((4 : Nat) : Int) - 1 := by decide
  have hi : ∀ j, j < 4 → ∀ i, i < j → getI [2, 3, 1, 0] i ≠ getI [2, 3, 1, 0] j := by decide
  have ht : ∀ v, v < 4 → ∃ k, k < 4 ∧ walk [2, 3, 1, 0] 0 k = v := by decide
  exact ⟨rfl, hv, fun i j hij hj => hi j hj i hij, fun v hv' => by
    obtain ⟨k, _, hk⟩ := ht v hv'; exact ⟨k, hk⟩⟩

/-- two 2-cycles form a permutation but not a circuit: rejected -/
example : ¬ Sol (circuitProblem 4) [1, 0, 3, 2] := by
  rw [C20_circuit 4 (by decide)]
  intro h
  obtain ⟨k, hk⟩ := h.tour 2 (by decide)
  have : ∀ k, walk [1, 0, 3, 2] 0 k = 0 ∨ walk [1, 0, 3, 2] 0 k = 1 := by
    intro k
    induction k with
    | zero => exact Or.inl rfl
    | succ k ih =>
      rcases ih with e | e <;> simp [walk, e, succOf, getI]
  rcases this k with e | e <;> omega

end Nucs
