import NucsProofs.Examples.DoubleLex
/-!
  C20, symmetry breaking of the BIBD model PRESERVES satisfiability, for all parameters `(v, b, r, k, λ)`:
  the flag posts `lexicographic_leq` between every two adjacent rows and every two adjacent columns of the
  incidence matrix (`C20_bibd_sb_iff`), and every design can be rearranged so that both hold
  (`exists_doubleLex`: the double-lex theorem, by descent on the matrix read as a binary number).
-/
namespace Nucs
open Ex

namespace Ex

theorem lexRel_append (A B : List Int) (h : A.length = B.length) : rel .lexLeq [] (A ++ B) ↔ lexLe A B := by
  have e : (A ++ B).length / 2 = A.length := by rw [List.length_append]; omega
  simp only [rel, e, List.take_left', List.drop_left']

theorem rangeAB_two_rows (b o : Nat) : rangeAB (o * b) ((o + 2) * b) =
    (List.range b).map (fun c => o * b + c) ++ (List.range b).map (fun c => (o + 1) * b + c) := by
  rw [rangeAB_eq]
  have e : (o + 2) * b - o * b = b + b := by rw [Nat.add_mul]; omega
  rw [e, List.range_add, List.map_append, List.map_map]
  congr 1
  apply List.map_congr_left
  intro c _
  simp only [Function.comp]
  rw [Nat.add_mul]; omega

theorem colStep (v b c : Nat) (hc : c < b) : rangeStep c (v * b) b = (List.range v).map (fun o => o * b + c) := by
  rw [rangeStep_count c (v * b) b v (by omega) (by rw [Nat.add_mul]; omega)]
  apply List.map_congr_left
  intro o _
  omega

theorem rows_rel (v b : Nat) (σ : List Int) (o : Nat) (ho : o + 1 < v) :
    rel .lexLeq [] (vals (idVars (bibdN v b)) σ (rangeAB (o * b) ((o + 2) * b))) ↔ lexLe (rowOf b σ o) (rowOf b σ (o + 1)) := by
  rw [vals_id, rangeAB_two_rows, List.map_append, List.map_map, List.map_map]
  · exact lexRel_append _ _ (by simp)
  · intro x hx
    rw [rangeAB_two_rows] at hx
    simp only [List.mem_append, List.mem_map, List.mem_range] at hx
    unfold bibdN
    rcases hx with ⟨c, hc, rfl⟩ | ⟨c, hc, rfl⟩
    · have := mat_lt (show o < v by omega) hc; omega
    · have := mat_lt ho hc; omega

theorem cols_rel (v b : Nat) (σ : List Int) (c : Nat) (hc : c + 1 < b) :
    rel .lexLeq [] (vals (idVars (bibdN v b)) σ (rangeStep c (v * b) b ++ rangeStep (c + 1) (v * b) b)) ↔
      lexLe (colOf v b σ c) (colOf v b σ (c + 1)) := by
  rw [vals_id, colStep v b c (by omega), colStep v b (c + 1) hc, List.map_append, List.map_map, List.map_map]
  · exact lexRel_append _ _ (by simp)
  · intro x hx
    rw [colStep v b c (by omega), colStep v b (c + 1) hc] at hx
    simp only [List.mem_append, List.mem_map, List.mem_range] at hx
    unfold bibdN
    rcases hx with ⟨o, ho, rfl⟩ | ⟨o, ho, rfl⟩
    · have := mat_lt ho (show c < b by omega); omega
    · have := mat_lt ho hc; omega

theorem doubleLex_congr {v b : Nat} {m σ : List Int} (h : ∀ i, i < v * b → getI σ i = getI m i) :
    DoubleLex v b σ ↔ DoubleLex v b m := by
  have hr : ∀ o, o < v → rowOf b σ o = rowOf b m o := by
    intro o ho
    unfold rowOf
    exact List.map_congr_left (fun c hc => h _ (mat_lt ho (List.mem_range.1 hc)))
  have hc : ∀ c, c < b → colOf v b σ c = colOf v b m c := by
    intro c hc
    unfold colOf
    exact List.map_congr_left (fun o ho => h _ (mat_lt (List.mem_range.1 ho) hc))
  unfold DoubleLex
  constructor
  · rintro ⟨h1, h2⟩
    exact ⟨fun o ho => by rw [← hr o (by omega), ← hr (o + 1) ho]; exact h1 o ho,
      fun c hc' => by rw [← hc c (by omega), ← hc (c + 1) hc']; exact h2 c hc'⟩
  · rintro ⟨h1, h2⟩
    exact ⟨fun o ho => by rw [hr o (by omega), hr (o + 1) ho]; exact h1 o ho,
      fun c hc' => by rw [hc c (by omega), hc (c + 1) hc']; exact h2 c hc'⟩

end Ex

/-- C20 (BIBD, symmetry breaking): the flag adds exactly "adjacent rows and adjacent columns of the incidence matrix
    are in lexicographic order" -/
theorem C20_bibd_sb_iff (v b r k l : Nat) (σ : List Int) :
    Sol (bibdProblem v b r k l true) σ ↔ Sol (bibdProblem v b r k l false) σ ∧ DoubleLex v b σ := by
  rw [bibd_eq, bibd_eq, sol_mk, sol_mk]
  simp only [if_true, Bool.false_eq_true, if_false, List.append_nil, List.mem_append, or_imp, forall_and]
  have hsb : (∀ c ∈ bibdSbProps v b, rel c.alg c.params (vals (idVars (bibdN v b)) σ c.vars)) ↔ DoubleLex v b σ := by
    unfold bibdSbProps DoubleLex
    simp only [List.mem_append, List.mem_map, List.mem_range, or_imp, forall_and, forall_exists_index, and_imp]
    constructor
    · rintro ⟨h1, h2⟩
      exact ⟨fun o ho => (rows_rel v b σ o ho).1 (h1 _ o (by omega) rfl),
        fun c hc => (cols_rel v b σ c hc).1 (h2 _ c (by omega) rfl)⟩
    · rintro ⟨h1, h2⟩
      refine ⟨?_, ?_⟩
      · rintro _ o ho rfl
        exact (rows_rel v b σ o (by omega)).2 (h1 o (by omega))
      · rintro _ c hc rfl
        exact (cols_rel v b σ c (by omega)).2 (h2 c (by omega))
  rw [hsb]
  constructor
  · rintro ⟨hb, h1, h2⟩; exact ⟨⟨hb, h1⟩, h2⟩
  · rintro ⟨⟨hb, h1⟩, h2⟩; exact ⟨hb, h1, h2⟩

/-- C20 (BIBD, symmetry breaking preserves satisfiability): for ALL parameters, from any solution of the plain model a
    rearrangement of its rows and columns gives a solution of the symmetry-breaking model -/
theorem C20_bibd_sb_preserves (v b r k l : Nat) (σ : List Int) (h : Sol (bibdProblem v b r k l false) σ) :
    ∃ σ', Sol (bibdProblem v b r k l true) σ' := by
  have hv := C20_bibd_valid v b r k l false σ h
  obtain ⟨m', hv', hdl⟩ := exists_doubleLex _ _ rfl hv
  obtain ⟨σ', htake, hsol⟩ := C20_bibd_complete v b r k l m' hv'
  refine ⟨σ', (C20_bibd_sb_iff v b r k l σ').2 ⟨hsol, ?_⟩⟩
  refine (doubleLex_congr (m := m') ?_).2 hdl
  intro i hi
  rw [← htake, getI_take hi]

theorem C20_bibd_sb_sat_iff (v b r k l : Nat) :
    (∃ σ, Sol (bibdProblem v b r k l false) σ) ↔ (∃ σ, Sol (bibdProblem v b r k l true) σ) :=
  ⟨fun ⟨σ, h⟩ => C20_bibd_sb_preserves v b r k l σ h, fun ⟨σ, h⟩ => ⟨σ, C20_bibd_sb v b r k l σ h⟩⟩

end Nucs
