import NucsProofs.Examples.MagicSquareSym
import NucsProofs.Examples.Bibd
/-!
  The double-lex argument for 0/1 matrices stored row-major (`m[o*b + c]`): swapping two adjacent rows (or columns)
  that are lexicographically out of order strictly decreases the matrix read as a binary number, so repeating
  it ends in a matrix whose adjacent rows AND adjacent columns are in lexicographic order.  Design properties
  (row sums, column sums, scalar products of pairs of rows) are invariant under both swaps.
-/
namespace Nucs
namespace Ex

/-! ### matrices -/

/-- the `v × b` matrix with entry `f o c`, row-major -/
def matOf (v b : Nat) (f : Nat → Nat → Int) : List Int := (List.range (v * b)).map (fun k => f (k / b) (k % b))

theorem matOf_length (v b : Nat) (f : Nat → Nat → Int) : (matOf v b f).length = v * b := by simp [matOf]

theorem getI_matOf {v b o c : Nat} (f : Nat → Nat → Int) (ho : o < v) (hc : c < b) :
    getI (matOf v b f) (o * b + c) = f o c := by
  have hk := mat_lt ho hc
  rw [getI_eq_getElem (by rw [matOf_length]; exact hk)]
  simp only [matOf, List.getElem_map, List.getElem_range, cell_div hc, cell_mod hc]

theorem getI_matOf' {v b k : Nat} (f : Nat → Nat → Int) (hk : k < v * b) :
    getI (matOf v b f) k = f (k / b) (k % b) := by
  rw [getI_eq_getElem (by rw [matOf_length]; exact hk)]
  simp only [matOf, List.getElem_map, List.getElem_range]

theorem div_mod_lt {v b k : Nat} (hk : k < v * b) : k / b < v ∧ k % b < b := by
  have hb : 0 < b := by
    rcases Nat.eq_zero_or_pos b with h0 | h0
    · subst h0; simp at hk
    · exact h0
  exact ⟨Nat.div_lt_of_lt_mul (by rw [Nat.mul_comm]; exact hk), Nat.mod_lt _ hb⟩

/-- the transposition of `i` and `i + 1` -/
def tau (i k : Nat) : Nat := if k = i then i + 1 else if k = i + 1 then i else k

theorem tau_tau (i k : Nat) : tau i (tau i k) = k := by
  unfold tau; split <;> split <;> (try split) <;> omega

theorem tau_lt {i n k : Nat} (hi : i + 1 < n) (hk : k < n) : tau i k < n := by
  unfold tau; split <;> (try split) <;> omega

theorem tau_inj {i a b : Nat} (h : tau i a = tau i b) : a = b := by
  have := congrArg (tau i) h
  rwa [tau_tau, tau_tau] at this

/-- summing (counting) over `0 … n-1` in the order given by a transposition -/
theorem countP_tau (n i : Nat) (hi : i + 1 < n) (g : Nat → Bool) :
    (List.range n).countP (fun k => g (tau i k)) = (List.range n).countP g := by
  have hperm : ((List.range n).map (tau i)).Perm (List.range n) := by
    rw [List.perm_ext_iff_of_nodup]
    · intro a
      simp only [List.mem_map, List.mem_range]
      constructor
      · rintro ⟨k, hk, rfl⟩; exact tau_lt hi hk
      · intro ha; exact ⟨tau i a, tau_lt hi ha, tau_tau i a⟩
    · rw [nodup_map_range]
      intro a b hab _ e
      have := tau_inj e
      omega
    · exact List.nodup_range
  have := hperm.countP_eq g
  rw [List.countP_map] at this
  exact this

/-! ### reading a 0/1 list as a binary number -/

def binVal : List Int → Nat
  | [] => 0
  | x :: xs => x.toNat * 2 ^ xs.length + binVal xs

theorem binVal_lt : ∀ (l : List Int), (∀ x ∈ l, x = 0 ∨ x = 1) → binVal l < 2 ^ l.length
  | [], _ => by simp [binVal]
  | x :: xs, h => by
    have ih := binVal_lt xs (fun y hy => h y (List.mem_cons_of_mem _ hy))
    have hx := h x (by simp)
    simp only [binVal, List.length_cons, Nat.pow_succ]
    rcases hx with rfl | rfl <;> simp <;> omega

/-- the first position where two 0/1 lists differ decides the comparison of their values -/
theorem binVal_lt_of_first_diff : ∀ (l' l : List Int) (P : Nat), l'.length = l.length →
    (∀ x ∈ l', x = 0 ∨ x = 1) → (∀ x ∈ l, x = 0 ∨ x = 1) → P < l.length →
    (∀ q, q < P → getI l' q = getI l q) → getI l' P = 0 → getI l P = 1 → binVal l' < binVal l
  | [], [], _, _, _, _, hP, _, _, _ => by simp at hP
  | [], _ :: _, _, hl, _, _, _, _, _, _ => by simp at hl
  | _ :: _, [], _, hl, _, _, _, _, _, _ => by simp at hl
  | x' :: xs', x :: xs, P, hl, h', h, hP, heq, h0, h1 => by
    have hlen : xs'.length = xs.length := by simpa using hl
    cases P with
    | zero =>
      have e0 : x' = 0 := by simpa [getI] using h0
      have e1 : x = 1 := by simpa [getI] using h1
      subst e0; subst e1
      have := binVal_lt xs' (fun y hy => h' y (List.mem_cons_of_mem _ hy))
      simp only [binVal]
      rw [hlen] at this
      simp
      omega
    | succ P =>
      have ehead : x' = x := by simpa [getI] using heq 0 (by omega)
      subst ehead
      have ih := binVal_lt_of_first_diff xs' xs P hlen (fun y hy => h' y (List.mem_cons_of_mem _ hy))
        (fun y hy => h y (List.mem_cons_of_mem _ hy)) (by simpa using hP)
        (fun q hq => by simpa [getI] using heq (q + 1) (by omega))
        (by simpa [getI] using h0) (by simpa [getI] using h1)
      simp only [binVal, hlen]
      omega

/-- two 0/1 lists of the same length that are NOT in lexicographic order differ first at a position where the
    first has 1 and the second 0 -/
theorem first_diff_of_not_lexLe : ∀ (X Y : List Int), X.length = Y.length →
    (∀ x ∈ X, x = 0 ∨ x = 1) → (∀ y ∈ Y, y = 0 ∨ y = 1) → ¬ lexLe X Y →
    ∃ p, p < X.length ∧ (∀ q, q < p → getI X q = getI Y q) ∧ getI X p = 1 ∧ getI Y p = 0
  | [], [], _, _, _, h => by simp [lexLe] at h
  | [], _ :: _, hl, _, _, _ => by simp at hl
  | _ :: _, [], hl, _, _, _ => by simp at hl
  | x :: xs, y :: ys, hl, hx, hy, h => by
    simp only [lexLe, not_or, not_and] at h
    have hx0 := hx x (by simp)
    have hy0 := hy y (by simp)
    by_cases e : x = y
    · subst e
      obtain ⟨p, hp, heq, h1, h0⟩ := first_diff_of_not_lexLe xs ys (by simpa using hl)
        (fun z hz => hx z (List.mem_cons_of_mem _ hz)) (fun z hz => hy z (List.mem_cons_of_mem _ hz)) (h.2 rfl)
      refine ⟨p + 1, by simpa using hp, fun q hq => ?_, by simpa [getI] using h1, by simpa [getI] using h0⟩
      cases q with
      | zero => rfl
      | succ q => simpa [getI] using heq q (by omega)
    · refine ⟨0, by simp, fun q hq => by omega, ?_, ?_⟩
      · simp only [getI, List.getD_cons_zero]; omega
      · simp only [getI, List.getD_cons_zero]; omega

/-! ### rows, columns, swaps -/

def rowOf (b : Nat) (m : List Int) (o : Nat) : List Int := (List.range b).map (fun c => getI m (o * b + c))
def colOf (v b : Nat) (m : List Int) (c : Nat) : List Int := (List.range v).map (fun o => getI m (o * b + c))

/-- adjacent rows and adjacent columns in lexicographic order -/
def DoubleLex (v b : Nat) (m : List Int) : Prop :=
  (∀ o, o + 1 < v → lexLe (rowOf b m o) (rowOf b m (o + 1))) ∧
  (∀ c, c + 1 < b → lexLe (colOf v b m c) (colOf v b m (c + 1)))

def swapRows (v b i : Nat) (m : List Int) : List Int := matOf v b (fun o c => getI m (tau i o * b + c))
def swapCols (v b j : Nat) (m : List Int) : List Int := matOf v b (fun o c => getI m (o * b + tau j c))

theorem getI_map_range' {n q : Nat} (f : Nat → Int) (hq : q < n) : getI ((List.range n).map f) q = f q := by
  simp [getI, List.getD_eq_getElem?_getD, List.getElem?_map, List.getElem?_range hq]

theorem countP_congr' : ∀ {l : List Nat} {p q : Nat → Bool}, (∀ x ∈ l, p x = q x) → l.countP p = l.countP q
  | [], _, _, _ => rfl
  | a :: t, p, q, h => by
    simp only [List.countP_cons]
    rw [h a (by simp), countP_congr' (fun x hx => h x (List.mem_cons_of_mem _ hx))]

theorem entries_of_bool {l : List Int} {N : Nat} (hl : l.length = N) (hb : ∀ i, i < N → getI l i = 0 ∨ getI l i = 1) :
    ∀ x ∈ l, x = 0 ∨ x = 1 := by
  intro x hx
  obtain ⟨i, hi, rfl⟩ := List.mem_iff_getElem.1 hx
  have := hb i (by omega)
  rwa [getI_eq_getElem hi] at this

theorem valid_swapRows {v b r k l : Nat} {m : List Int} (h : ValidBIBD v b r k l m) {i : Nat} (hi : i + 1 < v) :
    ValidBIBD v b r k l (swapRows v b i m) := by
  refine ⟨matOf_length _ _ _, ?_, ?_, ?_, ?_⟩
  · intro idx hidx
    obtain ⟨h1, h2⟩ := div_mod_lt hidx
    unfold swapRows
    rw [getI_matOf' _ hidx]
    exact h.bool _ (mat_lt (tau_lt hi h1) h2)
  · intro o ho
    rw [← h.rows (tau i o) (tau_lt hi ho)]
    exact countP_congr' (fun c hc => by unfold swapRows; rw [getI_matOf _ ho (List.mem_range.1 hc)])
  · intro c hc
    rw [← h.columns c hc, ← countP_tau v i hi (fun o => getI m (o * b + c) == 1)]
    exact countP_congr' (fun o ho => by unfold swapRows; rw [getI_matOf _ (List.mem_range.1 ho) hc])
  · intro i1 i2 h12 h2
    have h1 : i1 < v := by omega
    have hne : tau i i1 ≠ tau i i2 := fun e => by have := tau_inj e; omega
    have hcg : (List.range b).countP (fun c => getI (swapRows v b i m) (i1 * b + c) == 1 && getI (swapRows v b i m) (i2 * b + c) == 1) =
        (List.range b).countP (fun c => getI m (tau i i1 * b + c) == 1 && getI m (tau i i2 * b + c) == 1) :=
      countP_congr' (fun c hc => by
        unfold swapRows; rw [getI_matOf _ h1 (List.mem_range.1 hc), getI_matOf _ h2 (List.mem_range.1 hc)])
    rw [hcg]
    rcases Nat.lt_or_gt_of_ne hne with hlt | hgt
    · exact h.pairs _ _ hlt (tau_lt hi h2)
    · rw [← h.pairs _ _ hgt (tau_lt hi h1)]
      exact countP_congr' (fun c _ => Bool.and_comm _ _)

theorem valid_swapCols {v b r k l : Nat} {m : List Int} (h : ValidBIBD v b r k l m) {j : Nat} (hj : j + 1 < b) :
    ValidBIBD v b r k l (swapCols v b j m) := by
  refine ⟨matOf_length _ _ _, ?_, ?_, ?_, ?_⟩
  · intro idx hidx
    obtain ⟨h1, h2⟩ := div_mod_lt hidx
    unfold swapCols
    rw [getI_matOf' _ hidx]
    exact h.bool _ (mat_lt h1 (tau_lt hj h2))
  · intro o ho
    rw [← h.rows o ho, ← countP_tau b j hj (fun c => getI m (o * b + c) == 1)]
    exact countP_congr' (fun c hc => by unfold swapCols; rw [getI_matOf _ ho (List.mem_range.1 hc)])
  · intro c hc
    rw [← h.columns (tau j c) (tau_lt hj hc)]
    exact countP_congr' (fun o ho => by unfold swapCols; rw [getI_matOf _ (List.mem_range.1 ho) hc])
  · intro i1 i2 h12 h2
    have h1 : i1 < v := by omega
    rw [← h.pairs i1 i2 h12 h2, ← countP_tau b j hj (fun c => getI m (i1 * b + c) == 1 && getI m (i2 * b + c) == 1)]
    exact countP_congr' (fun c hc => by
      unfold swapCols; rw [getI_matOf _ h1 (List.mem_range.1 hc), getI_matOf _ h2 (List.mem_range.1 hc)])

theorem idx_split {b i p q : Nat} (hp : p < b) (hq : q < i * b + p) : q / b < i ∨ (q / b = i ∧ q % b < p) := by
  have hb : 0 < b := by omega
  have h1 : q / b < i + 1 := Nat.div_lt_of_lt_mul (by rw [Nat.mul_comm, Nat.add_mul]; omega)
  rcases Nat.lt_or_ge (q / b) i with h | h
  · exact Or.inl h
  · have e : q / b = i := by omega
    refine Or.inr ⟨e, ?_⟩
    have := Nat.div_add_mod q b
    rw [e, Nat.mul_comm] at this
    omega

theorem recompose (q b : Nat) : q / b * b + q % b = q := by
  have := Nat.div_add_mod q b
  rw [Nat.mul_comm] at this
  exact this

/-- swapping two adjacent rows that are out of order decreases the matrix -/
theorem swapRows_lt {v b r k l : Nat} {m : List Int} (h : ValidBIBD v b r k l m) {i : Nat} (hi : i + 1 < v)
    (hnot : ¬ lexLe (rowOf b m i) (rowOf b m (i + 1))) : binVal (swapRows v b i m) < binVal m := by
  have hrow : ∀ o, o < v → ∀ x ∈ rowOf b m o, x = 0 ∨ x = 1 := by
    intro o ho x hx
    simp only [rowOf, List.mem_map, List.mem_range] at hx
    obtain ⟨c, hc, rfl⟩ := hx
    exact h.bool _ (mat_lt ho hc)
  obtain ⟨p, hp, heq, h1, h0⟩ := first_diff_of_not_lexLe _ _ (by simp [rowOf]) (hrow i (by omega)) (hrow (i + 1) hi) hnot
  have hpb : p < b := by simpa [rowOf] using hp
  rw [show getI (rowOf b m i) p = getI m (i * b + p) from getI_map_range' _ hpb] at h1
  rw [show getI (rowOf b m (i + 1)) p = getI m ((i + 1) * b + p) from getI_map_range' _ hpb] at h0
  have hv' := valid_swapRows h hi
  refine binVal_lt_of_first_diff _ _ (i * b + p) (by rw [hv'.len, h.len]) (entries_of_bool hv'.len hv'.bool)
    (entries_of_bool h.len h.bool) (by rw [h.len]; exact mat_lt (by omega) hpb) ?_ ?_ h1
  · intro q hq
    have hqv : q < v * b := by have := mat_lt (show i < v by omega) hpb; omega
    unfold swapRows
    rw [getI_matOf' _ hqv]
    rcases idx_split hpb hq with hlt | ⟨e, hlt⟩
    · have : tau i (q / b) = q / b := by unfold tau; rw [if_neg (by omega), if_neg (by omega)]
      rw [this, recompose]
    · have : tau i (q / b) = i + 1 := by unfold tau; rw [if_pos e]
      rw [this]
      have h2 := heq (q % b) hlt
      unfold rowOf at h2
      rw [getI_map_range' _ (by omega), getI_map_range' _ (by omega)] at h2
      rw [← h2]
      congr 1
      have := recompose q b
      rw [e] at this
      exact this
  · unfold swapRows
    rw [getI_matOf _ (by omega) hpb]
    have : tau i i = i + 1 := by unfold tau; simp
    rw [this]; exact h0

/-- swapping two adjacent columns that are out of order decreases the matrix -/
theorem swapCols_lt {v b r k l : Nat} {m : List Int} (h : ValidBIBD v b r k l m) {j : Nat} (hj : j + 1 < b)
    (hnot : ¬ lexLe (colOf v b m j) (colOf v b m (j + 1))) : binVal (swapCols v b j m) < binVal m := by
  have hcol : ∀ c, c < b → ∀ x ∈ colOf v b m c, x = 0 ∨ x = 1 := by
    intro c hc x hx
    simp only [colOf, List.mem_map, List.mem_range] at hx
    obtain ⟨o, ho, rfl⟩ := hx
    exact h.bool _ (mat_lt ho hc)
  obtain ⟨o, ho, heq, h1, h0⟩ := first_diff_of_not_lexLe _ _ (by simp [colOf]) (hcol j (by omega)) (hcol (j + 1) hj) hnot
  have hov : o < v := by simpa [colOf] using ho
  rw [show getI (colOf v b m j) o = getI m (o * b + j) from getI_map_range' _ hov] at h1
  rw [show getI (colOf v b m (j + 1)) o = getI m (o * b + (j + 1)) from getI_map_range' _ hov] at h0
  have hv' := valid_swapCols h hj
  refine binVal_lt_of_first_diff _ _ (o * b + j) (by rw [hv'.len, h.len]) (entries_of_bool hv'.len hv'.bool)
    (entries_of_bool h.len h.bool) (by rw [h.len]; exact mat_lt hov (by omega)) ?_ ?_ h1
  · intro q hq
    have hqv : q < v * b := by have := mat_lt hov (show j < b by omega); omega
    unfold swapCols
    rw [getI_matOf' _ hqv]
    rcases idx_split (show j < b by omega) hq with hlt | ⟨e, hlt⟩
    · -- an earlier row: the two columns agree there
      have h2 := heq (q / b) hlt
      unfold colOf at h2
      rw [getI_map_range' _ (by omega), getI_map_range' _ (by omega)] at h2
      by_cases c1 : q % b = j
      · have : tau j (q % b) = j + 1 := by unfold tau; rw [if_pos c1]
        rw [this, ← h2]
        congr 1
        have := recompose q b
        omega
      · by_cases c2 : q % b = j + 1
        · have : tau j (q % b) = j := by unfold tau; rw [if_neg c1, if_pos c2]
          rw [this, h2]
          congr 1
          have := recompose q b
          omega
        · have : tau j (q % b) = q % b := by unfold tau; rw [if_neg c1, if_neg c2]
          rw [this, recompose]
    · have : tau j (q % b) = q % b := by unfold tau; rw [if_neg (by omega), if_neg (by omega)]
      rw [this, recompose]
  · unfold swapCols
    rw [getI_matOf _ hov (by omega)]
    have : tau j j = j + 1 := by unfold tau; simp
    rw [this]; exact h0

/-- the double-lex theorem for designs: every design has a row/column rearrangement whose adjacent rows and adjacent
    columns are in lexicographic order -/
theorem exists_doubleLex {v b r k l : Nat} : ∀ (N : Nat) (m : List Int), binVal m = N → ValidBIBD v b r k l m →
    ∃ m', ValidBIBD v b r k l m' ∧ DoubleLex v b m' := by
  intro N
  induction N using Nat.strongRecOn with
  | _ N ih =>
    intro m hN h
    by_cases hr : ∀ o, o + 1 < v → lexLe (rowOf b m o) (rowOf b m (o + 1))
    · by_cases hc : ∀ c, c + 1 < b → lexLe (colOf v b m c) (colOf v b m (c + 1))
      · exact ⟨m, h, hr, hc⟩
      · obtain ⟨c, hc'⟩ := Classical.not_forall.1 hc
        obtain ⟨hc1, hc2⟩ := Classical.not_imp.1 hc'
        exact ih _ (by rw [← hN]; exact swapCols_lt h hc1 hc2) _ rfl (valid_swapCols h hc1)
    · obtain ⟨o, ho'⟩ := Classical.not_forall.1 hr
      obtain ⟨ho1, ho2⟩ := Classical.not_imp.1 ho'
      exact ih _ (by rw [← hN]; exact swapRows_lt h ho1 ho2) _ rfl (valid_swapRows h ho1)

end Ex
end Nucs
