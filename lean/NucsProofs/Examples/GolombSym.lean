import NucsProofs.Examples.Golomb
/-!
  C20, symmetry breaking of the Golomb model PRESERVES satisfiability and the optimum, for every number of
  marks: the mirror image `m' j = m (n-1) − m (n-1-j)` of a Golomb ruler is a Golomb ruler of the same
  length whose distance table is the table of the original read at the mirrored pairs; it respects the
  constructor's domain bounds (they depend on `j − i` only); and of a ruler and its mirror image exactly
  one has its first gap smaller than its last gap (`n ≥ 3`; all distances are distinct).
  For `n = 2` there is one distance and the constraint is not posted (repaired: /repo cfc4e15 — the
  proof attempt needed `n ≥ 3`, the excluded point was run on the real code and was unsatisfiable).
-/
namespace Nucs
open Ex

/-- the marks read from the other end -/
def mirrorMarks (n : Nat) (m : Nat → Int) : Nat → Int := fun j => m (n - 1) - m (n - 1 - j)

namespace Ex

/-- the mirror image of a valid distance table is valid, and it is the original table read at the
    mirrored pairs -/
theorem golomb_mirror (n : Nat) (σ : List Int) (h : ValidGolomb n σ) :
    ∃ σ', ValidGolomb n σ' ∧
      ∀ i j, i < j → j < n → getI σ' (pairPos n i j) = getI σ (pairPos n (n - 1 - j) (n - 1 - i)) := by
  obtain ⟨⟨m, hm0, hinc, hσ⟩, hnd, hbd⟩ := h
  obtain ⟨hl, hm⟩ := (eq_distTable_iff n m σ).1 hσ
  have hentry : ∀ i j, i < j → j < n →
      getI (distTable n (mirrorMarks n m)) (pairPos n i j) = getI σ (pairPos n (n - 1 - j) (n - 1 - i)) := by
    intro i j hij hj
    rw [((eq_distTable_iff n (mirrorMarks n m) _).1 rfl).2 i j hij hj, hm (n - 1 - j) (n - 1 - i) (by omega) (by omega)]
    unfold mirrorMarks
    omega
  have hl' : (distTable n (mirrorMarks n m)).length = triangular (n - 1) := distTable_length n _
  refine ⟨distTable n (mirrorMarks n m), ⟨⟨mirrorMarks n m, ?_, ?_, rfl⟩, ?_, ?_⟩, hentry⟩
  · unfold mirrorMarks; simp
  · intro i j hij hj
    unfold mirrorMarks
    have := hinc (n - 1 - j) (n - 1 - i) (by omega) (by omega)
    omega
  · rw [nodup_iff_getI]
    intro a b hab hb
    rw [hl'] at hb
    obtain ⟨i, j, hij, hj, rfl⟩ := pairPos_surj (n := n) (k := a) (by omega)
    obtain ⟨k, l, hkl, hl2, rfl⟩ := pairPos_surj (n := n) (k := b) hb
    rw [hentry i j hij hj, hentry k l hkl hl2]
    refine getI_ne_of_nodup hnd ?_ ?_ ?_
    · rw [hl]; exact pairPos_lt (by omega) (by omega)
    · rw [hl]; exact pairPos_lt (by omega) (by omega)
    · intro e
      have h2 := pairPos_inj (n := n) (by omega) (by omega) (by omega) (by omega) e
      have hi : i = k := by omega
      have hj' : j = l := by omega
      subst hi; subst hj'
      exact absurd hab (Nat.lt_irrefl _)
  · intro i j hij hj
    rw [hentry i j hij hj]
    have h := hbd (n - 1 - j) (n - 1 - i) (by omega) (by omega)
    have e : n - 1 - i - (n - 1 - j) + 1 = j - i + 1 := by omega
    rw [e] at h
    exact h

end Ex

/-- C20 (Golomb, symmetry breaking preserves the solutions up to mirror symmetry): for every solution of the
    model WITHOUT symmetry breaking there is a solution of the model WITH it that has the same ruler length
    (`d(0, n−1)`, the objective) — for every number of marks `n ≥ 2` -/
theorem C20_golomb_sb_preserves (n : Nat) (hn : 2 ≤ n) (σ : List Int) (h : Sol (golombProblem n false) σ) :
    ∃ σ', Sol (golombProblem n true) σ' ∧ getI σ' (pairPos n 0 (n - 1)) = getI σ (pairPos n 0 (n - 1)) := by
  rcases Nat.lt_or_ge 2 n with h3 | h3
  · have hv := (C20_golomb n hn σ).1 h
    have hnd := hv.2.1
    have hlen : σ.length = triangular (n - 1) := by
      obtain ⟨⟨m, _, _, hσ⟩, _⟩ := hv
      exact ((eq_distTable_iff n m σ).1 hσ).1
    have hne : getI σ (pairPos n 0 1) ≠ getI σ (pairPos n (n - 2) (n - 1)) := by
      refine getI_ne_of_nodup hnd ?_ ?_ ?_
      · rw [hlen]; exact pairPos_lt (by omega) (by omega)
      · rw [hlen]; exact pairPos_lt (by omega) (by omega)
      · intro e
        have := (pairPos_inj (n := n) (by omega) (by omega) (by omega) (by omega) e).1
        omega
    rcases Int.lt_or_gt_of_ne hne with hlt | hgt
    · exact ⟨σ, (C20_golomb_sb n h3 σ).2 ⟨h, hlt⟩, rfl⟩
    · obtain ⟨σ', hv', he⟩ := golomb_mirror n σ hv
      refine ⟨σ', (C20_golomb_sb n h3 σ').2 ⟨(C20_golomb n hn σ').2 hv', ?_⟩, ?_⟩
      · rw [he 0 1 (by omega) (by omega), he (n - 2) (n - 1) (by omega) (by omega)]
        have e1 : n - 1 - 1 = n - 2 := by omega
        have e2 : n - 1 - 0 = n - 1 := by omega
        have e3 : n - 1 - (n - 1) = 0 := by omega
        have e4 : n - 1 - (n - 2) = 1 := by omega
        rw [e1, e2, e3, e4]
        exact hgt
      · rw [he 0 (n - 1) (by omega) (by omega)]
        have e2 : n - 1 - 0 = n - 1 := by omega
        have e3 : n - 1 - (n - 1) = 0 := by omega
        rw [e2, e3]
  · have : n = 2 := by omega
    subst this
    exact ⟨σ, (C20_golomb_sb_two σ).2 h, rfl⟩

/-- every solution of the symmetry-breaking model is a solution of the plain model (it only adds a constraint) -/
theorem C20_golomb_sb_subset (n : Nat) (hn : 2 ≤ n) (σ : List Int) (h : Sol (golombProblem n true) σ) :
    Sol (golombProblem n false) σ := by
  rcases Nat.lt_or_ge 2 n with h3 | h3
  · exact ((C20_golomb_sb n h3 σ).1 h).1
  · have : n = 2 := by omega
    subst this
    exact (C20_golomb_sb_two σ).1 h

/-- hence the two models reach exactly the same ruler lengths: same satisfiability, same optimum -/
theorem C20_golomb_sb_same_lengths (n : Nat) (hn : 2 ≤ n) (L : Int) :
    (∃ σ, Sol (golombProblem n false) σ ∧ getI σ (pairPos n 0 (n - 1)) = L) ↔
    (∃ σ, Sol (golombProblem n true) σ ∧ getI σ (pairPos n 0 (n - 1)) = L) := by
  constructor
  · rintro ⟨σ, h, rfl⟩
    obtain ⟨σ', h', e⟩ := C20_golomb_sb_preserves n hn σ h
    exact ⟨σ', h', e⟩
  · rintro ⟨σ, h, e⟩
    exact ⟨σ, C20_golomb_sb_subset n hn σ h, e⟩

/-- non-vacuity: the mirror image of the optimal ruler `0, 1, 4, 6` is `0, 2, 5, 6`, which violates the
    symmetry-breaking constraint while the original satisfies it -/
example : ∃ σ', Sol (golombProblem 4 true) σ' ∧ getI σ' (pairPos 4 0 3) = getI [2, 5, 6, 3, 4, 1] (pairPos 4 0 3) :=
  C20_golomb_sb_preserves 4 (by decide) _ ((C20_golomb 4 (by decide) _).2 (by
    refine ⟨⟨fun j => getI [0, 2, 5, 6] j, by decide, ?_, by decide⟩, by decide, ?_⟩
    · have h : ∀ j, j < 4 → ∀ i, i < j → getI [0, 2, 5, 6] i < getI [0, 2, 5, 6] j := by decide
      exact fun i j hij hj => h j hj i hij
    · have h : ∀ j, j < 4 → ∀ i, i < j →
          (j - i + 1 < 4 → golombLengths.getD (j - i + 1) 0 ≤ getI [2, 5, 6, 3, 4, 1] (pairPos 4 i j)) ∧
          getI [2, 5, 6, 3, 4, 1] (pairPos 4 i j) ≤ ((triangular (triangular (4 - 1)) : Nat) : Int) := by decide
      exact fun i j hij hj => h j hj i hij))

end Nucs
