import NucsProofs.Examples.Common
/-!
  C20 for `KnapsackProblem(weights, volumes, capacity)`: a solution is a Boolean choice of the `n`
  items whose total volume fits the capacity, together with the total weight of the chosen items
  (the last variable, the one the example maximises).

  The weight variable is created with the domain `[0, sum(weights)]`; that this loses nothing needs
  the weights to be non-negative (hypothesis `hw`; with a negative weight the domain can be empty
  or cut off legitimate totals, e.g. `weights = [-1]`).
-/
namespace Nucs
open Ex

/-- `Σ_i a_i · b_i` (over the common prefix of the two lists) -/
def wsum (a b : List Int) : Int := (List.zipWith (· * ·) a b).sum

/-- a filled knapsack: `s = picks ++ [w]` with `picks` Boolean of length `n = |weights|`, the chosen
    volumes fit the capacity, and `w` is the total weight of the chosen items -/
structure ValidKnapsack (weights volumes : List Int) (capacity : Int) (s : List Int) : Prop where
  len : s.length = weights.length + 1
  bool : ∀ i, i < weights.length → getI s i = 0 ∨ getI s i = 1
  fits : wsum volumes (s.take weights.length) ≤ capacity
  weight : getI s weights.length = wsum weights (s.take weights.length)

namespace Ex

theorem dot_eq_wsum : ∀ (a b : List Int), dot a b = wsum a b
  | [], _ => by simp [dot, wsum]
  | _ :: _, [] => by simp [dot, wsum]
  | x :: xs, y :: ys => by
    have := dot_eq_wsum xs ys
    simp only [wsum] at this
    simp [dot, wsum, this]

/-- the total weight of a Boolean choice among non-negative weights lies in `[0, Σ weights]` -/
theorem dot_bool_bounds : ∀ (ws ps : List Int), (∀ w ∈ ws, 0 ≤ w) → (∀ p ∈ ps, p = 0 ∨ p = 1) →
    0 ≤ dot ws ps ∧ dot ws ps ≤ ws.sum
  | [], _, _, _ => by simp [dot]
  | w :: ws, [], hw, _ => by
    simp only [dot, List.sum_cons]
    have h1 := hw w (by simp)
    have h2 := (dot_bool_bounds ws [] (fun x hx => hw x (by simp [hx])) (by simp)).2
    have h3 : dot ws [] = 0 := by cases ws <;> rfl
    omega
  | w :: ws, p :: ps, hw, hp => by
    have h1 := hw w (by simp)
    have ih := dot_bool_bounds ws ps (fun x hx => hw x (by simp [hx])) (fun x hx => hp x (by simp [hx]))
    simp only [dot, List.sum_cons]
    rcases hp p (by simp) with rfl | rfl <;> omega

/-- the root box of the knapsack model -/
theorem knapsack_box (n : Nat) (S : Int) (σ : List Int) :
    inBox σ (List.replicate n (0, 1) ++ [(0, S)]) ↔
      σ.length = n + 1 ∧ (∀ i, i < n → 0 ≤ getI σ i ∧ getI σ i ≤ 1) ∧ 0 ≤ getI σ n ∧ getI σ n ≤ S := by
  rw [inBox_iff]
  simp only [List.length_append, List.length_replicate, List.length_cons, List.length_nil]
  constructor
  · rintro ⟨hl, h⟩
    refine ⟨by omega, fun i hi => ?_, ?_⟩
    · have := h i (by omega)
      rw [getDom_append_left (by simpa using hi), getDom_replicate _ hi] at this
      exact this
    · have := h n (by omega)
      have e := getDom_append_length (List.replicate n ((0 : Int), (1 : Int))) (0, S)
      simp only [List.length_replicate] at e
      rw [e] at this
      exact this
  · rintro ⟨hl, hb, hw⟩
    refine ⟨by omega, fun i hi => ?_⟩
    rcases Nat.lt_or_ge i n with hlt | hge
    · rw [getDom_append_left (by simpa using hlt), getDom_replicate _ hlt]
      exact hb i hlt
    · have : i = n := by omega
      subst this
      have e := getDom_append_length (List.replicate i ((0 : Int), (1 : Int))) (0, S)
      simp only [List.length_replicate] at e
      rw [e]
      exact hw

end Ex

/-- C20 (knapsack): for non-negative weights the posted model accepts exactly the filled knapsacks -/
theorem C20_knapsack (weights volumes : List Int) (capacity : Int) (hw : ∀ w ∈ weights, 0 ≤ w)
    (σ : List Int) :
    Sol (knapsackProblem weights volumes capacity) σ ↔ ValidKnapsack weights volumes capacity σ := by
  simp only [knapsackProblem]
  rw [sol_mk, knapsack_box]
  simp only [List.mem_cons, List.not_mem_nil, or_false, forall_eq_or_imp, forall_eq, rel,
    List.dropLast_concat, List.getLastD_concat]
  have hdl : (weights ++ [-1, 0]).dropLast = weights ++ [-1] := by
    rw [show weights ++ [-1, 0] = (weights ++ [-1]) ++ [(0 : Int)] by simp, List.dropLast_concat]
  have hgl : (weights ++ [-1, 0]).getLastD 0 = 0 := by
    rw [show weights ++ [-1, 0] = (weights ++ [-1]) ++ [(0 : Int)] by simp, List.getLastD_concat]
  rw [hdl, hgl]
  -- once the length is known, the two value lists are the picks and `σ` itself
  have key : σ.length = weights.length + 1 →
      vals (idVars (weights.length + 1)) σ (List.range weights.length) = σ.take weights.length ∧
      vals (idVars (weights.length + 1)) σ (List.range (weights.length + 1)) = σ ∧
      dot (weights ++ [-1]) σ = dot weights (σ.take weights.length) - getI σ weights.length := by
    intro hl
    refine ⟨?_, ?_, ?_⟩
    · rw [vals_id _ _ (fun v hv => by have := List.mem_range.1 hv; omega)]
      exact map_getI_range_take (by omega)
    · rw [vals_id _ _ (fun v hv => List.mem_range.1 hv)]
      conv => lhs; rw [← hl, map_getI_range]
    · conv => lhs; arg 2; rw [take_append_getI hl]
      rw [dot_append _ _ _ _ (by simp; omega)]
      simp [dot]
      omega
  constructor
  · rintro ⟨⟨hl, hb, _, _⟩, h1, h2⟩
    obtain ⟨k1, k2, k3⟩ := key hl
    rw [k1] at h1
    rw [k2, k3] at h2
    refine ⟨hl, fun i hi => by have := hb i hi; omega, ?_, ?_⟩
    · rw [← dot_eq_wsum]; exact h1
    · rw [← dot_eq_wsum]; omega
  · intro hv
    obtain ⟨k1, k2, k3⟩ := key hv.len
    have hfit := hv.fits
    have hwt := hv.weight
    rw [← dot_eq_wsum] at hfit hwt
    have hbool : ∀ p ∈ σ.take weights.length, p = 0 ∨ p = 1 := by
      intro p hp
      obtain ⟨i, hi, rfl⟩ := List.getElem_of_mem hp
      have hi' : i < weights.length := by simp at hi; omega
      have := hv.bool i hi'
      rw [getI_eq_getElem (by have := hv.len; omega)] at this
      simpa using this
    have hbd := dot_bool_bounds weights (σ.take weights.length) hw hbool
    rw [sumI_eq_sum]
    refine ⟨⟨hv.len, fun i hi => by have := hv.bool i hi; omega, by omega, by omega⟩, ?_, ?_⟩
    · rw [k1]; exact hfit
    · rw [k2, k3]; omega

/-- non-vacuity: items 0 and 2 of weights `[4, 5, 6]`, volumes `[1, 2, 3]`, capacity 4 -/
example : Sol (knapsackProblem [4, 5, 6] [1, 2, 3] 4) [1, 0, 1, 10] := by
  rw [C20_knapsack _ _ _ (by decide)]
  exact ⟨rfl, by decide, by decide, by decide⟩

/-- an overfull knapsack is rejected -/
example : ¬ Sol (knapsackProblem [4, 5, 6] [1, 2, 3] 4) [1, 1, 1, 15] := by
  rw [C20_knapsack _ _ _ (by decide)]
  intro h
  exact absurd h.fits (by decide)

end Nucs
