import NucsProofs.Examples.Common
/-!
  C20 for `DonaldProblem()`: the solutions of the posted model are exactly the assignments of
  pairwise different digits to the letters A, B, D, E, G, L, N, O, R, T (in this order) with
  DONALD + GERALD = ROBERT.
-/
namespace Nucs
open Ex

namespace Donald
/-- the positions of the letters in the solution vector -/
def A := 0
def B := 1
def D := 2
def E := 3
def G := 4
def L := 5
def N := 6
def O := 7
def R := 8
def T := 9

/-- the number written by a word (most significant letter first) under the digit assignment `s` -/
def num (s : List Int) (word : List Nat) : Int := word.foldl (fun acc l => 10 * acc + getI s l) 0
end Donald

open Donald in
/-- a solution of the puzzle: ten pairwise different digits with DONALD + GERALD = ROBERT -/
structure ValidDonald (s : List Int) : Prop where
  len : s.length = 10
  digit : ∀ i, i < 10 → 0 ≤ getI s i ∧ getI s i ≤ 9
  distinct : ∀ i j, i < j → j < 10 → getI s i ≠ getI s j
  sum : num s [D, O, N, A, L, D] + num s [G, E, R, A, L, D] = num s [R, O, B, E, R, T]

namespace Ex
theorem list10 {σ : List Int} (h : σ.length = 10) :
    ∃ a b d e g l n o r t, σ = [a, b, d, e, g, l, n, o, r, t] :=
  ⟨getI σ 0, getI σ 1, getI σ 2, getI σ 3, getI σ 4, getI σ 5, getI σ 6, getI σ 7, getI σ 8, getI σ 9, by
    conv => lhs; rw [← map_getI_range σ, h]
    rfl⟩
end Ex

/-- C20 (donald): the posted model accepts exactly the solutions of DONALD + GERALD = ROBERT -/
theorem C20_donald (σ : List Int) : Sol donaldProblem σ ↔ ValidDonald σ := by
  unfold donaldProblem
  rw [sol_mk, inBox_replicate]
  simp only [List.mem_cons, List.not_mem_nil, or_false, forall_eq_or_imp, forall_eq, rel, inDom]
  have key : σ.length = 10 → vals (idVars 10) σ (List.range 10) = σ := by
    intro hl
    rw [vals_id _ _ (fun v hv => List.mem_range.1 hv)]
    conv => lhs; rw [← hl, map_getI_range]
  have hsum : σ.length = 10 →
      (dot [200, -1000, 100002, 9900, 100000, 20, 1000, 0, -99010, -1] σ = 0 ↔
        Donald.num σ [Donald.D, Donald.O, Donald.N, Donald.A, Donald.L, Donald.D] +
          Donald.num σ [Donald.G, Donald.E, Donald.R, Donald.A, Donald.L, Donald.D] =
          Donald.num σ [Donald.R, Donald.O, Donald.B, Donald.E, Donald.R, Donald.T]) := by
    intro hl
    obtain ⟨a, b, d, e, g, l, n, o, r, t, rfl⟩ := list10 hl
    simp only [dot, Donald.num, List.foldl, getI, Donald.A, Donald.B, Donald.D, Donald.E, Donald.G,
      Donald.L, Donald.N, Donald.O, Donald.R, Donald.T, List.getD_cons_zero, List.getD_cons_succ]
    omega
  have hdl : ([200, -1000, 100002, 9900, 100000, 20, 1000, 0, -99010, -1, 0] : List Int).dropLast =
      [200, -1000, 100002, 9900, 100000, 20, 1000, 0, -99010, -1] := rfl
  have hgl : ([200, -1000, 100002, 9900, 100000, 20, 1000, 0, -99010, -1, 0] : List Int).getLastD 0 = 0 := rfl
  rw [hdl, hgl]
  constructor
  · rintro ⟨⟨hl, hb⟩, h1, h2⟩
    rw [key hl] at h1 h2
    refine ⟨hl, hb, ?_, (hsum hl).1 h1⟩
    have := (nodup_iff_getI σ).1 h2
    rw [hl] at this
    exact this
  · intro hv
    rw [key hv.len]
    refine ⟨⟨hv.len, hv.digit⟩, (hsum hv.len).2 hv.sum, ?_⟩
    rw [nodup_iff_getI, hv.len]
    exact hv.distinct

/-- non-vacuity: 526485 + 197485 = 723970 (A=4, B=3, D=5, E=9, G=1, L=8, N=6, O=2, R=7, T=0) -/
example : Sol donaldProblem [4, 3, 5, 9, 1, 8, 6, 2, 7, 0] := by
  rw [C20_donald]
  have hd : ∀ j, j < 10 → ∀ i, i < j →
      getI [4, 3, 5, 9, 1, 8, 6, 2, 7, 0] i ≠ getI [4, 3, 5, 9, 1, 8, 6, 2, 7, 0] j := by decide
  exact ⟨rfl, by decide, fun i j hij hj => hd j hj i hij, by decide⟩

example : ¬ Sol donaldProblem [0, 1, 2, 3, 4, 5, 6, 7, 8, 9] := by
  rw [C20_donald]
  intro h
  exact absurd h.sum (by decide)

end Nucs
