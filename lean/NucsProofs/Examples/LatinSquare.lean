import NucsProofs.Examples.Common
/-!
  C20 for `LatinSquareProblem(list(range(n)))` (no givens): the solutions of the posted model are
  exactly the Latin squares of order `n`.  The decoded object is the matrix `M i j = σ[i*n + j]`
  (`solution_as_matrix`).
-/
namespace Nucs
open Ex

/-- a Latin square of order `n` over the colours `0 … n-1`, given row-major: every entry is a colour,
    the entries of every row are pairwise distinct, and so are those of every column -/
structure ValidLatinSquare (n : Nat) (m : List Int) : Prop where
  len : m.length = n * n
  colour : ∀ i j, i < n → j < n → 0 ≤ getI m (i * n + j) ∧ getI m (i * n + j) ≤ (n : Int) - 1
  rows : ∀ i, i < n → ∀ j₁ j₂, j₁ < j₂ → j₂ < n → getI m (i * n + j₁) ≠ getI m (i * n + j₂)
  columns : ∀ j, j < n → ∀ i₁ i₂, i₁ < i₂ → i₂ < n → getI m (i₁ * n + j) ≠ getI m (i₂ * n + j)

namespace Ex

theorem lsDomains_range (n : Nat) :
    lsDomains (natsToInts (List.range n)) none = List.replicate (n * n) (0, (n : Int) - 1) := by
  cases n with
  | zero => simp [lsDomains, natsToInts]
  | succ k =>
    have h1 : (natsToInts (List.range (k + 1))).headD 0 = 0 := by
      simp [natsToInts, List.range_succ_eq_map]
    have h2 : (natsToInts (List.range (k + 1))).getLastD 0 = (k : Int) := by
      simp [natsToInts, List.range_succ]
    simp only [lsDomains, h1, h2]
    have h3 : (natsToInts (List.range (k + 1))).length = k + 1 := by simp [natsToInts]
    rw [h3, Nat.pow_two]
    congr 2
    simp

theorem lsRow_eq (n i : Nat) : lsRow n i 0 = (List.range n).map (fun j => i * n + j) := by
  simp only [lsRow, rangeAB_eq]
  have : 0 * n ^ 2 + n + i * n - (0 * n ^ 2 + i * n) = n := by omega
  rw [this]
  simp

theorem lsColumn_eq (n j : Nat) (hn : 0 < n) : lsColumn n j 0 = (List.range n).map (fun i => i * n + j) := by
  simp only [lsColumn]
  have h : 0 * n ^ 2 + n ^ 2 + j = (0 * n ^ 2 + j) + n * n := by rw [Nat.pow_two]; omega
  rw [h, rangeStep_eq _ _ _ hn]
  apply List.map_congr_left
  intro i _
  omega

theorem mem_lsProps {n : Nat} {c : RawC} :
    c ∈ lsProps n ↔ (∃ i, i < n ∧ c = ⟨lsRow n i, .alldifferent, []⟩) ∨
      (∃ j, j < n ∧ c = ⟨lsColumn n j, .alldifferent, []⟩) := by
  simp only [lsProps, List.mem_append, List.mem_map, List.mem_range]
  constructor
  · rintro (⟨i, hi, rfl⟩ | ⟨j, hj, rfl⟩)
    · exact Or.inl ⟨i, hi, rfl⟩
    · exact Or.inr ⟨j, hj, rfl⟩
  · rintro (⟨i, hi, rfl⟩ | ⟨j, hj, rfl⟩)
    · exact Or.inl ⟨i, hi, rfl⟩
    · exact Or.inr ⟨j, hj, rfl⟩

/-- what the row / column constraints of a problem over `n*n` identity variables say -/
theorem ls_rows_cols (n : Nat) (σ : List Int) :
    (∀ c ∈ lsProps n, rel c.alg c.params (vals (idVars (n * n)) σ c.vars)) ↔
      (∀ i, i < n → ∀ j₁ j₂, j₁ < j₂ → j₂ < n → getI σ (i * n + j₁) ≠ getI σ (i * n + j₂)) ∧
      (∀ j, j < n → ∀ i₁ i₂, i₁ < i₂ → i₂ < n → getI σ (i₁ * n + j) ≠ getI σ (i₂ * n + j)) := by
  have hrow : ∀ i, i < n → (rel .alldifferent [] (vals (idVars (n * n)) σ (lsRow n i)) ↔
      ∀ j₁ j₂, j₁ < j₂ → j₂ < n → getI σ (i * n + j₁) ≠ getI σ (i * n + j₂)) := by
    intro i hi
    rw [lsRow_eq, vals_id, List.map_map]
    · exact nodup_map_range _ n
    · intro v hv
      simp only [List.mem_map, List.mem_range] at hv
      obtain ⟨j, hj, rfl⟩ := hv
      exact cell_lt hi hj
  have hcol : ∀ j, j < n → (rel .alldifferent [] (vals (idVars (n * n)) σ (lsColumn n j)) ↔
      ∀ i₁ i₂, i₁ < i₂ → i₂ < n → getI σ (i₁ * n + j) ≠ getI σ (i₂ * n + j)) := by
    intro j hj
    rw [lsColumn_eq n j (by omega), vals_id, List.map_map]
    · exact nodup_map_range _ n
    · intro v hv
      simp only [List.mem_map, List.mem_range] at hv
      obtain ⟨i, hi, rfl⟩ := hv
      exact cell_lt hi hj
  constructor
  · intro h
    refine ⟨fun i hi => (hrow i hi).1 (h _ (mem_lsProps.2 (Or.inl ⟨i, hi, rfl⟩))),
      fun j hj => (hcol j hj).1 (h _ (mem_lsProps.2 (Or.inr ⟨j, hj, rfl⟩)))⟩
  · rintro ⟨hr, hc⟩ c hc'
    rcases mem_lsProps.1 hc' with ⟨i, hi, rfl⟩ | ⟨j, hj, rfl⟩
    · exact (hrow i hi).2 (hr i hi)
    · exact (hcol j hj).2 (hc j hj)

end Ex

/-- C20 (latin square): the posted model accepts exactly the Latin squares of order `n` -/
theorem C20_latinSquare (n : Nat) (σ : List Int) : Sol (latinSquareProblem n) σ ↔ ValidLatinSquare n σ := by
  have hP : latinSquareProblem n =
      mkProblem (List.replicate (n * n) (0, (n : Int) - 1)) (idVars (n * n)) (lsProps n) := by
    simp only [latinSquareProblem, latinSquareGenProblem, lsDomains_range, List.length_replicate]
    simp [natsToInts]
  rw [hP, sol_mk, inBox_replicate, ls_rows_cols, forall_cells]
  simp only [inDom]
  constructor
  · rintro ⟨⟨hl, hb⟩, hr, hc⟩
    exact ⟨hl, hb, hr, hc⟩
  · rintro ⟨hl, hb, hr, hc⟩
    exact ⟨⟨hl, hb⟩, hr, hc⟩

/-- non-vacuity: the cyclic square of order 3 is accepted (through the equivalence) -/
example : Sol (latinSquareProblem 3) [0, 1, 2, 1, 2, 0, 2, 0, 1] := by
  rw [C20_latinSquare]
  have h0 : ∀ i, i < 3 → ∀ j, j < 3 → 0 ≤ getI [0, 1, 2, 1, 2, 0, 2, 0, 1] (i * 3 + j) ∧
      getI [0, 1, 2, 1, 2, 0, 2, 0, 1] (i * 3 + j) ≤ ((3 : Nat) : Int) - 1 := by decide
  have h1 : ∀ i, i < 3 → ∀ j₂, j₂ < 3 → ∀ j₁, j₁ < j₂ →
      getI [0, 1, 2, 1, 2, 0, 2, 0, 1] (i * 3 + j₁) ≠ getI [0, 1, 2, 1, 2, 0, 2, 0, 1] (i * 3 + j₂) := by decide
  have h2 : ∀ j, j < 3 → ∀ i₂, i₂ < 3 → ∀ i₁, i₁ < i₂ →
      getI [0, 1, 2, 1, 2, 0, 2, 0, 1] (i₁ * 3 + j) ≠ getI [0, 1, 2, 1, 2, 0, 2, 0, 1] (i₂ * 3 + j) := by decide
  exact ⟨rfl, fun i j hi hj => h0 i hi j hj, fun i hi j₁ j₂ h12 h2' => h1 i hi j₂ h2' j₁ h12,
    fun j hj i₁ i₂ h12 h2' => h2 j hj i₂ h2' i₁ h12⟩

/-- a square with a repeated entry in a column is rejected -/
example : ¬ Sol (latinSquareProblem 2) [0, 1, 0, 1] := by
  rw [C20_latinSquare]
  intro h
  exact h.columns 0 (by decide) 0 1 (by decide) (by decide) (by decide)

end Nucs
