import NucsProofs.Examples.Common
/-!
  C20 for `QueensProblem(n)`: the solutions of the posted model are exactly the placements of `n`
  non-attacking queens.  The decoded object is `σ` itself (`σ[i]` = column of the queen of row `i`).
-/
namespace Nucs
open Ex

/-- `n` non-attacking queens, one per row: `q[i]` is the column of the queen of row `i`; no two
    share a column, a rising diagonal (`column + row`) or a falling diagonal (`column − row`) -/
structure ValidQueens (n : Nat) (q : List Int) : Prop where
  len : q.length = n
  inBoard : ∀ i, i < n → 0 ≤ getI q i ∧ getI q i ≤ (n : Int) - 1
  cols : ∀ i j, i < j → j < n → getI q i ≠ getI q j
  diagUp : ∀ i j, i < j → j < n → getI q i + i ≠ getI q j + j
  diagDown : ∀ i j, i < j → j < n → getI q i - i ≠ getI q j - j

namespace Ex

def queensVars (n : Nat) : List (Nat × Int) :=
  (List.range n).map (fun (i : Nat) => (i, (0 : Int))) ++ (List.range n).map (fun (i : Nat) => (i, (i : Int))) ++
    (List.range n).map (fun (i : Nat) => (i, -(i : Int)))

theorem queens_resolve0 {n v : Nat} (h : v < n) : resolve (queensVars n) v = (v, 0) := by
  simp [resolve, queensVars, List.getD_eq_getElem?_getD, List.getElem?_append, h]

theorem queens_resolve1 {n k : Nat} (h : k < n) : resolve (queensVars n) (n + k) = (k, (k : Int)) := by
  have h1 : ¬ (n + k < n) := by omega
  simp [resolve, queensVars, List.getD_eq_getElem?_getD, List.getElem?_append, h, h1]

theorem queens_resolve2 {n k : Nat} (h : k < n) : resolve (queensVars n) (2 * n + k) = (k, -(k : Int)) := by
  have h1 : ¬ (2 * n + k < n) := by omega
  have h2 : ¬ (2 * n + k - n < n) := by omega
  have h3 : 2 * n + k - n - n = k := by omega
  simp [resolve, queensVars, List.getD_eq_getElem?_getD, List.getElem?_append, h, h1, h2, h3]

theorem queens_vals0 (n : Nat) (σ : List Int) :
    vals (queensVars n) σ (List.range n) = (List.range n).map (fun i => getI σ i) := by
  unfold vals
  apply List.map_congr_left
  intro v hv
  simp [queens_resolve0 (List.mem_range.1 hv)]

theorem queens_vals1 (n : Nat) (σ : List Int) :
    vals (queensVars n) σ (rangeAB n (2 * n)) = (List.range n).map (fun i => getI σ i + i) := by
  rw [rangeAB_eq]
  have : 2 * n - n = n := by omega
  rw [this]
  unfold vals
  rw [List.map_map]
  apply List.map_congr_left
  intro v hv
  simp [queens_resolve1 (List.mem_range.1 hv)]

theorem queens_vals2 (n : Nat) (σ : List Int) :
    vals (queensVars n) σ (rangeAB (2 * n) (3 * n)) = (List.range n).map (fun i => getI σ i - i) := by
  rw [rangeAB_eq]
  have : 3 * n - 2 * n = n := by omega
  rw [this]
  unfold vals
  rw [List.map_map]
  apply List.map_congr_left
  intro v hv
  simp [queens_resolve2 (List.mem_range.1 hv)]
  omega

end Ex

/-- C20 (queens): the posted model accepts exactly the non-attacking placements -/
theorem C20_queens (n : Nat) (σ : List Int) : Sol (queensProblem n) σ ↔ ValidQueens n σ := by
  have hP : queensProblem n = mkProblem (List.replicate n (0, (n : Int) - 1)) (queensVars n)
      [ ⟨List.range n, .alldifferent, []⟩, ⟨rangeAB n (2 * n), .alldifferent, []⟩,
        ⟨rangeAB (2 * n) (3 * n), .alldifferent, []⟩ ] := rfl
  rw [hP, sol_mk, inBox_replicate]
  simp only [List.mem_cons, List.not_mem_nil, or_false, forall_eq_or_imp, forall_eq, rel,
    queens_vals0, queens_vals1, queens_vals2, nodup_map_range, inDom]
  constructor
  · rintro ⟨⟨hl, hb⟩, h0, h1, h2⟩
    exact ⟨hl, hb, h0, h1, h2⟩
  · rintro ⟨hl, hb, h0, h1, h2⟩
    exact ⟨⟨hl, hb⟩, h0, h1, h2⟩

/-- non-vacuity: a 4-queens placement is accepted by the model (through the equivalence) -/
example : Sol (queensProblem 4) [1, 3, 0, 2] := by
  rw [C20_queens]
  have h0 : ∀ i, i < 4 → 0 ≤ getI [1, 3, 0, 2] i ∧ getI [1, 3, 0, 2] i ≤ ((4 : Nat) : Int) - 1 := by decide
  have h1 : ∀ j, j < 4 → ∀ i, i < j → getI [1, 3, 0, 2] i ≠ getI [1, 3, 0, 2] j := by decide
  have h2 : ∀ j, j < 4 → ∀ i, i < j → getI [1, 3, 0, 2] i + i ≠ getI [1, 3, 0, 2] j + j := by decide
  have h3 : ∀ j, j < 4 → ∀ i, i < j → getI [1, 3, 0, 2] i - i ≠ getI [1, 3, 0, 2] j - j := by decide
  exact ⟨rfl, h0, fun i j hij hj => h1 j hj i hij, fun i j hij hj => h2 j hj i hij,
    fun i j hij hj => h3 j hj i hij⟩

/-- the same, directly on the posted constraints -/
example : Sol (queensProblem 4) [1, 3, 0, 2] := by
  refine ⟨by simp [queensProblem, mkProblem, inBox, inDom], ?_⟩
  intro p hp
  simp [queensProblem, mkProblem, post, rangeAB, List.range, List.range.loop, List.range'] at hp
  rcases hp with rfl | rfl | rfl <;> simp [rel, valuesOf, resolve, getI]

/-- and a placement with two queens on a diagonal is rejected -/
example : ¬ Sol (queensProblem 4) [0, 1, 2, 3] := by
  rw [C20_queens]
  intro h
  exact h.diagDown 0 1 (by decide) (by decide) (by decide)

end Nucs
