import NucsProofs.Examples.Common
/-!
  C20 for `BIBDProblem(v, b, r, k, l, symmetry_breaking=False)`.

  The model has the `v × b` incidence matrix (`σ[o*b + c]`, the decoded object) followed by one
  auxiliary Boolean per pair of rows and column (the conjunction of the two entries).
  `C20_bibd`: `σ` is a solution iff its matrix part is a `(v, b, r, k, λ)` design and every auxiliary
  variable equals the conjunction it names.  `C20_bibd_sb`: symmetry breaking only removes solutions.
-/
namespace Nucs
open Ex

/-- the incidence matrix of a `(v, b, r, k, λ)` block design, row-major (`m[o*b + c] = 1` iff point `o`
    lies in block `c`): every point lies in `r` blocks, every block has `k` points, any two distinct
    points share exactly `λ` blocks -/
structure ValidBIBD (v b r k l : Nat) (m : List Int) : Prop where
  len : m.length = v * b
  bool : ∀ i, i < v * b → getI m i = 0 ∨ getI m i = 1
  rows : ∀ o, o < v → (List.range b).countP (fun c => getI m (o * b + c) == 1) = r
  columns : ∀ c, c < b → (List.range v).countP (fun o => getI m (o * b + c) == 1) = k
  pairs : ∀ i₁ i₂, i₁ < i₂ → i₂ < v →
    (List.range b).countP (fun c => getI m (i₁ * b + c) == 1 && getI m (i₂ * b + c) == 1) = l

namespace Ex

/-- the pairs of rows in the order of the constructor's loops -/
def pairsOf (v : Nat) : List (Nat × Nat) :=
  (List.range (v - 1)).flatMap (fun (i1 : Nat) => (rangeAB (i1 + 1) v).map (fun (i2 : Nat) => (i1, i2)))

/-- the number of variables -/
def bibdN (v b : Nat) : Nat := v * b + ((v * (v - 1)) / 2) * b

/-- every auxiliary variable is the conjunction of the two matrix entries it names -/
def AuxOk (v b : Nat) (σ : List Int) : Prop :=
  ∀ p i₁ i₂, (pairsOf v)[p]? = some (i₁, i₂) → ∀ c, c < b →
    getI σ (v * b + p * b + c) = if getI σ (i₁ * b + c) = 1 ∧ getI σ (i₂ * b + c) = 1 then 1 else 0

theorem mem_pairsOf {v i₁ i₂ : Nat} : (i₁, i₂) ∈ pairsOf v ↔ i₁ < i₂ ∧ i₂ < v := by
  simp only [pairsOf, List.mem_flatMap, List.mem_map, List.mem_range, mem_rangeAB, Prod.mk.injEq]
  constructor
  · rintro ⟨a, ha, c, ⟨h1, h2⟩, rfl, rfl⟩
    omega
  · rintro ⟨h1, h2⟩
    exact ⟨i₁, by omega, i₂, ⟨by omega, h2⟩, rfl, rfl⟩

theorem sum_descending (c : Nat) : ∀ m, m ≤ c →
    2 * ((List.range m).map (fun i => c - (i + 1))).sum + m * (m + 1) = 2 * (m * c)
  | 0, _ => by simp
  | m + 1, h => by
    have ih := sum_descending c m (by omega)
    rw [List.range_succ, List.map_append, List.sum_append]
    simp only [List.map_cons, List.map_nil, List.sum_cons, List.sum_nil]
    have e1 : (m + 1) * (m + 1 + 1) = m * (m + 1) + 2 * (m + 1) := by
      rw [Nat.add_mul, Nat.mul_add (m) (m + 1) 1]; omega
    have e2 : (m + 1) * c = m * c + c := by rw [Nat.add_mul]; omega
    rw [e1, e2]
    omega

theorem length_pairsOf (v : Nat) : (pairsOf v).length = (v * (v - 1)) / 2 := by
  unfold pairsOf
  rw [List.length_flatMap]
  have e : (List.range (v - 1)).map (fun a => ((rangeAB (a + 1) v).map (fun (i2 : Nat) => (a, i2))).length) =
      (List.range (v - 1)).map (fun i => v - (i + 1)) := by
    apply List.map_congr_left
    intro a _
    simp [rangeAB]
  rw [e]
  have h := sum_descending v (v - 1) (by omega)
  rcases Nat.eq_zero_or_pos v with rfl | hv
  · simp
  · have e1 : v - 1 + 1 = v := by omega
    rw [e1, Nat.mul_comm (v - 1) v] at h
    omega

theorem mat_lt {v b i c : Nat} (hi : i < v) (hc : c < b) : i * b + c < v * b := by
  have : (i + 1) * b ≤ v * b := Nat.mul_le_mul_right b hi
  rw [Nat.add_mul] at this
  omega

theorem aux_lt {v b p c : Nat} (hp : p < (v * (v - 1)) / 2) (hc : c < b) : v * b + p * b + c < bibdN v b := by
  have := mat_lt hp hc
  unfold bibdN
  omega

/-- the constraints of the plain model -/
def bibdProps (v b r k l : Nat) : List RawC :=
  (List.range v).map (fun (o : Nat) => (⟨rangeAB (o * b) ((o + 1) * b), .exactlyTrue, [(r : Int)]⟩ : RawC)) ++
   (List.range b).map (fun (c : Nat) => (⟨rangeStep c (v * b) b, .exactlyTrue, [(k : Int)]⟩ : RawC)) ++
   (pairsOf v).zipIdx.flatMap (fun ((i1, i2), p) =>
     let conj0 := v * b + p * b
     (List.range b).map (fun (c : Nat) => (⟨[i1 * b + c, i2 * b + c, conj0 + c], .and, []⟩ : RawC)) ++
     [ ⟨(List.range b).map (fun (c : Nat) => conj0 + c), .exactlyTrue, [(l : Int)]⟩ ])

def bibdSbProps (v b : Nat) : List RawC :=
  (List.range (v - 1)).map (fun (o : Nat) => (⟨rangeAB (o * b) ((o + 2) * b), .lexLeq, []⟩ : RawC)) ++
  (List.range (b - 1)).map (fun (c : Nat) =>
    (⟨rangeStep c (v * b) b ++ rangeStep (c + 1) (v * b) b, .lexLeq, []⟩ : RawC))

theorem bibd_eq (v b r k l : Nat) (sb : Bool) : bibdProblem v b r k l sb =
    mkProblem (List.replicate (bibdN v b) (0, 1)) (idVars (bibdN v b))
      (bibdProps v b r k l ++ (if sb then bibdSbProps v b else [])) := rfl

theorem mem_bibdProps {v b r k l : Nat} {c : RawC} : c ∈ bibdProps v b r k l ↔
    (∃ o, o < v ∧ c = ⟨rangeAB (o * b) ((o + 1) * b), .exactlyTrue, [(r : Int)]⟩) ∨
    (∃ j, j < b ∧ c = ⟨rangeStep j (v * b) b, .exactlyTrue, [(k : Int)]⟩) ∨
    (∃ p i₁ i₂, (pairsOf v)[p]? = some (i₁, i₂) ∧
      ((∃ j, j < b ∧ c = ⟨[i₁ * b + j, i₂ * b + j, v * b + p * b + j], .and, []⟩) ∨
       c = ⟨(List.range b).map (fun (j : Nat) => v * b + p * b + j), .exactlyTrue, [(l : Int)]⟩)) := by
  simp only [bibdProps, List.mem_append, List.mem_map, List.mem_range, List.mem_flatMap,
    List.mem_zipIdx_iff_getElem?, List.mem_cons, List.not_mem_nil, or_false, Prod.exists]
  constructor
  · rintro ((⟨o, ho, rfl⟩ | ⟨j, hj, rfl⟩) | ⟨i₁, i₂, p, hp, h⟩)
    · exact Or.inl ⟨o, ho, rfl⟩
    · exact Or.inr (Or.inl ⟨j, hj, rfl⟩)
    · refine Or.inr (Or.inr ⟨p, i₁, i₂, hp, ?_⟩)
      rcases h with ⟨j, hj, rfl⟩ | rfl
      · exact Or.inl ⟨j, hj, rfl⟩
      · exact Or.inr rfl
  · rintro (⟨o, ho, rfl⟩ | ⟨j, hj, rfl⟩ | ⟨p, i₁, i₂, hp, h⟩)
    · exact Or.inl (Or.inl ⟨o, ho, rfl⟩)
    · exact Or.inl (Or.inr ⟨j, hj, rfl⟩)
    · refine Or.inr ⟨i₁, i₂, p, hp, ?_⟩
      rcases h with ⟨j, hj, rfl⟩ | rfl
      · exact Or.inl ⟨j, hj, rfl⟩
      · exact Or.inr rfl

theorem rel_exactlyTrue_map (σ : List Int) (n : Nat) (idx : Nat → Nat) (q : Nat) :
    rel .exactlyTrue [(q : Int)] ((List.range n).map (fun j => getI σ (idx j))) ↔
      (List.range n).countP (fun j => getI σ (idx j) == 1) = q := by
  simp only [rel, getI, List.getD_cons_zero, List.count_eq_countP, List.countP_map]
  constructor
  · intro h; exact_mod_cast h
  · intro h; exact_mod_cast h

/-- the conjunction constraint on three Booleans -/
theorem rel_and3 (x y z : Int) :
    rel .and [] [x, y, z] ↔ z = if x = 1 ∧ y = 1 then 1 else 0 := by
  simp only [rel, tBack, tFront, List.getLastD, List.getLast, List.dropLast, List.mem_cons,
    List.not_mem_nil, or_false, forall_eq_or_imp, forall_eq, exists_eq_or_imp, exists_eq_left]
  by_cases h : x = 1 ∧ y = 1
  · rw [if_pos h]
    constructor
    · rintro (⟨h1, _⟩ | ⟨_, h2⟩)
      · exact h1
      · rcases h2 with h2 | h2
        · exact absurd h.1 h2
        · exact absurd h.2 h2
    · intro h1; exact Or.inl ⟨h1, h.1, h.2⟩
  · rw [if_neg h]
    constructor
    · rintro (⟨_, h1, h2⟩ | ⟨h1, _⟩)
      · exact absurd ⟨h1, h2⟩ h
      · exact h1
    · intro h1
      refine Or.inr ⟨h1, ?_⟩
      by_cases hx : x = 1
      · exact Or.inr (fun hy => h ⟨hx, hy⟩)
      · exact Or.inl hx

end Ex

/-- C20 (BIBD, no symmetry breaking): `σ` is a solution of the posted model iff its first `v·b`
    entries form the incidence matrix of a `(v, b, r, k, λ)` design and every auxiliary variable is
    the conjunction of the two entries it stands for -/
theorem C20_bibd (v b r k l : Nat) (σ : List Int) :
    Sol (bibdProblem v b r k l false) σ ↔
      ValidBIBD v b r k l (σ.take (v * b)) ∧ σ.length = bibdN v b ∧ AuxOk v b σ := by
  rw [bibd_eq, sol_mk, inBox_replicate]
  simp only [Bool.false_eq_true, if_false, List.append_nil, inDom]
  have hN : v * b ≤ bibdN v b := by unfold bibdN; omega
  -- the value lists of the four kinds of constraints
  have hrow : ∀ o, o < v → (rel .exactlyTrue [(r : Int)] (vals (idVars (bibdN v b)) σ (rangeAB (o * b) ((o + 1) * b))) ↔
      (List.range b).countP (fun c => getI σ (o * b + c) == 1) = r) := by
    intro o ho
    have e : (o + 1) * b - o * b = b := by rw [Nat.add_mul]; omega
    rw [rangeAB_eq, e, vals_id, List.map_map]
    · exact rel_exactlyTrue_map σ b (fun c => o * b + c) r
    · intro x hx
      simp only [List.mem_map, List.mem_range] at hx
      obtain ⟨c, hc, rfl⟩ := hx
      have := mat_lt ho hc
      omega
  have hcol : ∀ c, c < b → (rel .exactlyTrue [(k : Int)] (vals (idVars (bibdN v b)) σ (rangeStep c (v * b) b)) ↔
      (List.range v).countP (fun o => getI σ (o * b + c) == 1) = k) := by
    intro c hc
    have e : rangeStep c (v * b) b = (List.range v).map (fun o => o * b + c) := by
      unfold rangeStep
      have h1 : v * b ≤ v * b - c + b - 1 := by omega
      have h2 : v * b - c + b - 1 < (v + 1) * b := by rw [Nat.add_mul]; omega
      rw [Nat.div_eq_of_lt_le h1 h2]
      apply List.map_congr_left
      intro o _
      omega
    rw [e, vals_id, List.map_map]
    · exact rel_exactlyTrue_map σ v (fun o => o * b + c) k
    · intro x hx
      simp only [List.mem_map, List.mem_range] at hx
      obtain ⟨o, ho, rfl⟩ := hx
      have := mat_lt ho hc
      omega
  have hpair : ∀ p i₁ i₂, (pairsOf v)[p]? = some (i₁, i₂) →
      i₁ < v ∧ i₂ < v ∧ i₁ < i₂ ∧ p < (v * (v - 1)) / 2 := by
    intro p i₁ i₂ hp
    have hm : (i₁, i₂) ∈ pairsOf v := List.mem_iff_getElem?.2 ⟨p, hp⟩
    have := mem_pairsOf.1 hm
    have hlt : p < (pairsOf v).length := by
      rcases Nat.lt_or_ge p (pairsOf v).length with h | h
      · exact h
      · rw [List.getElem?_eq_none h] at hp; cases hp
    rw [length_pairsOf] at hlt
    exact ⟨by omega, this.2, this.1, hlt⟩
  have hand : ∀ p i₁ i₂, (pairsOf v)[p]? = some (i₁, i₂) → ∀ c, c < b →
      vals (idVars (bibdN v b)) σ [i₁ * b + c, i₂ * b + c, v * b + p * b + c] =
        [getI σ (i₁ * b + c), getI σ (i₂ * b + c), getI σ (v * b + p * b + c)] := by
    intro p i₁ i₂ hp c hc
    obtain ⟨h1, h2, _, h4⟩ := hpair p i₁ i₂ hp
    rw [vals_id]
    · rfl
    · intro x hx
      simp only [List.mem_cons, List.not_mem_nil, or_false] at hx
      have a1 := mat_lt h1 hc
      have a2 := mat_lt h2 hc
      have a3 := aux_lt h4 hc
      rcases hx with rfl | rfl | rfl <;> omega
  have hconj : ∀ p i₁ i₂, (pairsOf v)[p]? = some (i₁, i₂) →
      (rel .exactlyTrue [(l : Int)] (vals (idVars (bibdN v b)) σ ((List.range b).map (fun (c : Nat) => v * b + p * b + c))) ↔
        (List.range b).countP (fun c => getI σ (v * b + p * b + c) == 1) = l) := by
    intro p i₁ i₂ hp
    obtain ⟨_, _, _, h4⟩ := hpair p i₁ i₂ hp
    rw [vals_id, List.map_map]
    · exact rel_exactlyTrue_map σ b (fun c => v * b + p * b + c) l
    · intro x hx
      simp only [List.mem_map, List.mem_range] at hx
      obtain ⟨c, hc, rfl⟩ := hx
      exact aux_lt h4 hc
  -- under `AuxOk` the count of the auxiliaries is the count of common blocks
  have hcount : AuxOk v b σ → ∀ p i₁ i₂, (pairsOf v)[p]? = some (i₁, i₂) →
      (List.range b).countP (fun c => getI σ (v * b + p * b + c) == 1) =
      (List.range b).countP (fun c => getI σ (i₁ * b + c) == 1 && getI σ (i₂ * b + c) == 1) := by
    intro haux p i₁ i₂ hp
    apply List.countP_congr
    intro c hc
    rw [haux p i₁ i₂ hp c (List.mem_range.1 hc)]
    by_cases h : getI σ (i₁ * b + c) = 1 ∧ getI σ (i₂ * b + c) = 1
    · simp [h]
    · rw [if_neg h]
      simp only [Bool.and_eq_true, beq_iff_eq]
      constructor
      · intro h'; cases h'
      · intro h'; exact absurd h' h
  constructor
  · rintro ⟨⟨hl, hb⟩, h⟩
    have hbool : ∀ i, i < bibdN v b → getI σ i = 0 ∨ getI σ i = 1 := fun i hi => by
      have := hb i hi; omega
    have haux : AuxOk v b σ := by
      intro p i₁ i₂ hp c hc
      obtain ⟨_, _, _, h4⟩ := hpair p i₁ i₂ hp
      have := h _ (mem_bibdProps.2 (Or.inr (Or.inr ⟨p, i₁, i₂, hp, Or.inl ⟨c, hc, rfl⟩⟩)))
      simp only [hand p i₁ i₂ hp c hc] at this
      exact (rel_and3 _ _ _).1 this
    refine ⟨⟨by simp; omega, fun i hi => ?_, fun o ho => ?_, fun c hc => ?_, fun i₁ i₂ h12 h2 => ?_⟩, hl, haux⟩
    · rw [getI_take hi]; exact hbool i (by omega)
    · have := (hrow o ho).1 (h _ (mem_bibdProps.2 (Or.inl ⟨o, ho, rfl⟩)))
      rw [← this]
      apply List.countP_congr
      intro c hc
      rw [getI_take (mat_lt ho (List.mem_range.1 hc))]
    · have := (hcol c hc).1 (h _ (mem_bibdProps.2 (Or.inr (Or.inl ⟨c, hc, rfl⟩))))
      rw [← this]
      apply List.countP_congr
      intro o ho
      rw [getI_take (mat_lt (List.mem_range.1 ho) hc)]
    · obtain ⟨p, hp⟩ := List.mem_iff_getElem?.1 (mem_pairsOf.2 ⟨h12, h2⟩)
      have := (hconj p i₁ i₂ hp).1 (h _ (mem_bibdProps.2 (Or.inr (Or.inr ⟨p, i₁, i₂, hp, Or.inr rfl⟩))))
      rw [← this, hcount haux p i₁ i₂ hp]
      apply List.countP_congr
      intro c hc
      rw [getI_take (mat_lt (by omega) (List.mem_range.1 hc)), getI_take (mat_lt h2 (List.mem_range.1 hc))]
  · rintro ⟨hv, hl, haux⟩
    -- all variables are Boolean: the matrix by validity, the auxiliaries by `AuxOk`
    have hbool : ∀ i, i < bibdN v b → getI σ i = 0 ∨ getI σ i = 1 := by
      intro i hi
      rcases Nat.lt_or_ge i (v * b) with hlt | hge
      · have := hv.bool i hlt
        rwa [getI_take hlt] at this
      · -- i = v*b + p*b + c
        have hb0 : 0 < b := by
          rcases Nat.eq_zero_or_pos b with rfl | h
          · simp [bibdN] at hi
          · exact h
        have hq : (i - v * b) / b < (v * (v - 1)) / 2 := by
          apply (Nat.div_lt_iff_lt_mul hb0).2
          unfold bibdN at hi
          omega
        have hlen : (i - v * b) / b < (pairsOf v).length := by rw [length_pairsOf]; exact hq
        have hi' : i = v * b + (i - v * b) / b * b + (i - v * b) % b := by
          have := Nat.div_add_mod (i - v * b) b
          rw [Nat.mul_comm] at this
          omega
        have := haux ((i - v * b) / b) ((pairsOf v)[(i - v * b) / b]).1 ((pairsOf v)[(i - v * b) / b]).2
          (by rw [List.getElem?_eq_getElem hlen]) ((i - v * b) % b) (Nat.mod_lt _ hb0)
        rw [← hi'] at this
        rw [this]
        split <;> simp
    refine ⟨⟨hl, fun i hi => by have := hbool i hi; omega⟩, fun c hc => ?_⟩
    rcases mem_bibdProps.1 hc with ⟨o, ho, rfl⟩ | ⟨j, hj, rfl⟩ | ⟨p, i₁, i₂, hp, ⟨j, hj, rfl⟩ | rfl⟩
    · apply (hrow o ho).2
      rw [← hv.rows o ho]
      apply List.countP_congr
      intro c hc
      rw [getI_take (mat_lt ho (List.mem_range.1 hc))]
    · apply (hcol j hj).2
      rw [← hv.columns j hj]
      apply List.countP_congr
      intro o ho
      rw [getI_take (mat_lt (List.mem_range.1 ho) hj)]
    · obtain ⟨_, _, _, h4⟩ := hpair p i₁ i₂ hp
      simp only [hand p i₁ i₂ hp j hj]
      exact (rel_and3 _ _ _).2 (haux p i₁ i₂ hp j hj)
    · obtain ⟨h1, h2, h12, _⟩ := hpair p i₁ i₂ hp
      apply (hconj p i₁ i₂ hp).2
      rw [hcount haux p i₁ i₂ hp, ← hv.pairs i₁ i₂ h12 h2]
      apply List.countP_congr
      intro c hc
      rw [getI_take (mat_lt h1 (List.mem_range.1 hc)), getI_take (mat_lt h2 (List.mem_range.1 hc))]

/-- symmetry breaking only removes solutions -/
theorem C20_bibd_sb (v b r k l : Nat) (σ : List Int) :
    Sol (bibdProblem v b r k l true) σ → Sol (bibdProblem v b r k l false) σ := by
  rw [bibd_eq, bibd_eq, sol_mk, sol_mk]
  rintro ⟨hb, h⟩
  exact ⟨hb, fun c hc => h c (List.mem_append_left _ (by simpa using hc))⟩

/-- hence the matrix part of every solution, with or without symmetry breaking, is a design -/
theorem C20_bibd_valid (v b r k l : Nat) (sb : Bool) (σ : List Int)
    (h : Sol (bibdProblem v b r k l sb) σ) : ValidBIBD v b r k l (σ.take (v * b)) := by
  cases sb with
  | false => exact ((C20_bibd v b r k l σ).1 h).1
  | true => exact ((C20_bibd v b r k l σ).1 (C20_bibd_sb v b r k l σ h)).1

namespace Ex
/-- the auxiliary conjunctions that go with an incidence matrix `m` -/
def auxOf (v b : Nat) (m : List Int) : List Int :=
  (pairsOf v).flatMap (fun (q : Nat × Nat) =>
    (List.range b).map (fun (c : Nat) => if getI m (q.1 * b + c) = 1 ∧ getI m (q.2 * b + c) = 1 then (1 : Int) else 0))

theorem getI_of_getElem? {l : List Int} {i : Nat} {x : Int} (h : l[i]? = some x) : getI l i = x := by
  simp [getI, List.getD_eq_getElem?_getD, h]

theorem getI_append_left {A B : List Int} {i : Nat} (h : i < A.length) : getI (A ++ B) i = getI A i := by
  simp [getI, List.getD_eq_getElem?_getD, List.getElem?_append_left h]

theorem getI_append_right (A B : List Int) (i : Nat) : getI (A ++ B) (A.length + i) = getI B i := by
  simp [getI, List.getD_eq_getElem?_getD, List.getElem?_append_right]
end Ex

/-- every design is the decoded part of a solution: extend the matrix by its conjunctions -/
theorem C20_bibd_complete (v b r k l : Nat) (m : List Int) (hm : ValidBIBD v b r k l m) :
    ∃ σ, σ.take (v * b) = m ∧ Sol (bibdProblem v b r k l false) σ := by
  have hu : ∀ q ∈ pairsOf v, ((List.range b).map (fun (c : Nat) =>
      if getI m (q.1 * b + c) = 1 ∧ getI m (q.2 * b + c) = 1 then (1 : Int) else 0)).length = b := by
    intro q _; simp
  have hauxlen : (auxOf v b m).length = (v * (v - 1)) / 2 * b := by
    unfold auxOf
    rw [length_flatMap_uniform _ b _ hu, length_pairsOf]
  have htake : (m ++ auxOf v b m).take (v * b) = m := by
    rw [← hm.len]; simp
  refine ⟨m ++ auxOf v b m, htake, (C20_bibd v b r k l _).2 ⟨by rw [htake]; exact hm, ?_, ?_⟩⟩
  · simp [hm.len, hauxlen, bibdN]
  · intro p i₁ i₂ hp c hc
    have hmem : (i₁, i₂) ∈ pairsOf v := List.mem_iff_getElem?.2 ⟨p, hp⟩
    have hlt := mem_pairsOf.1 hmem
    have e1 : v * b + p * b + c = m.length + (p * b + c) := by rw [hm.len]; omega
    rw [e1, getI_append_right, getI_append_left (by rw [hm.len]; exact mat_lt (by omega) hc),
      getI_append_left (by rw [hm.len]; exact mat_lt hlt.2 hc)]
    have hx : (auxOf v b m)[p * b + c]? =
        some (if getI m (i₁ * b + c) = 1 ∧ getI m (i₂ * b + c) = 1 then 1 else 0) := by
      unfold auxOf
      rw [getElem?_flatMap_uniform _ b _ hu p c hc, hp]
      simp [hc]
    exact getI_of_getElem? hx

namespace Ex
/-- points 0, 1, 2 and blocks {0,1}, {0,2}, {1,2}: a (3, 3, 2, 2, 1) design, followed by the nine
    auxiliary conjunctions -/
def sampleBibd : List Int := [1, 1, 0, 1, 0, 1, 0, 1, 1, 1, 0, 0, 0, 1, 0, 0, 0, 1]
end Ex

/-- non-vacuity: the design above is accepted by the model -/
example : Sol (bibdProblem 3 3 2 2 1 false) sampleBibd := by
  rw [C20_bibd]
  refine ⟨⟨rfl, by decide, by decide, by decide, ?_⟩, rfl, ?_⟩
  · have : ∀ i₂, i₂ < 3 → ∀ i₁, i₁ < i₂ →
        (List.range 3).countP (fun c => getI (sampleBibd.take (3 * 3)) (i₁ * 3 + c) == 1 &&
          getI (sampleBibd.take (3 * 3)) (i₂ * 3 + c) == 1) = 1 := by decide
    exact fun i₁ i₂ h12 h2 => this i₂ h2 i₁ h12
  · intro p i₁ i₂ hp
    have e : pairsOf 3 = [(0, 1), (0, 2), (1, 2)] := by decide
    rw [e] at hp
    match p, hp with
    | 0, hp => simp at hp; obtain ⟨rfl, rfl⟩ := hp; decide
    | 1, hp => simp at hp; obtain ⟨rfl, rfl⟩ := hp; decide
    | 2, hp => simp at hp; obtain ⟨rfl, rfl⟩ := hp; decide
    | _ + 3, hp => simp at hp

/-- a matrix whose first two points share two blocks is rejected -/
example : ¬ Sol (bibdProblem 3 3 2 2 1 false) [1, 1, 0, 1, 1, 0, 0, 0, 1, 1, 1, 0, 0, 0, 0, 0, 0, 0] := by
  rw [C20_bibd]
  rintro ⟨h, _, _⟩
  exact absurd (h.pairs 0 1 (by decide) (by decide)) (by decide)

end Nucs
