import NucsProofs.Examples.Common
/-!
  C20 for `SchurLemmaProblem(n, symmetry_breaking=False)`: the solutions of the posted model are
  exactly the sum-free 3-colourings of `1 … n`.  `σ[3x + k] = 1` says that the number `x + 1` has
  colour `k`.  For `symmetry_breaking=True` the easy direction: its solutions are solutions of the
  plain model.
-/
namespace Nucs
open Ex

/-- a sum-free 3-colouring of `1 … n` as a Boolean `n × 3` matrix: every number has exactly one
    colour, and no colour class contains `a`, `b` and `a + b` -/
structure ValidSchur (n : Nat) (s : List Int) : Prop where
  len : s.length = n * 3
  bool : ∀ i, i < n * 3 → getI s i = 0 ∨ getI s i = 1
  oneColour : ∀ x, x < n → ∃ k, k < 3 ∧ getI s (3 * x + k) = 1 ∧
    ∀ k', k' < 3 → getI s (3 * x + k') = 1 → k' = k
  sumFree : ∀ x y z, x < n → y < n → z < n → (x + 1) + (y + 1) = z + 1 →
    ∀ k, k < 3 → ¬ (getI s (3 * x + k) = 1 ∧ getI s (3 * y + k) = 1 ∧ getI s (3 * z + k) = 1)

namespace Ex

theorem exists_lt3 (P : Nat → Prop) : (∃ k, k < 3 ∧ P k) ↔ P 0 ∨ P 1 ∨ P 2 := by
  constructor
  · rintro ⟨k, hk, h⟩
    have : k = 0 ∨ k = 1 ∨ k = 2 := by omega
    rcases this with rfl | rfl | rfl
    · exact Or.inl h
    · exact Or.inr (Or.inl h)
    · exact Or.inr (Or.inr h)
  · rintro (h | h | h)
    · exact ⟨0, by omega, h⟩
    · exact ⟨1, by omega, h⟩
    · exact ⟨2, by omega, h⟩

theorem forall_lt3 (P : Nat → Prop) : (∀ k, k < 3 → P k) ↔ P 0 ∧ P 1 ∧ P 2 := by
  constructor
  · intro h
    exact ⟨h 0 (by omega), h 1 (by omega), h 2 (by omega)⟩
  · rintro ⟨h0, h1, h2⟩ k hk
    have : k = 0 ∨ k = 1 ∨ k = 2 := by omega
    rcases this with rfl | rfl | rfl <;> assumption

/-- `exactly_true` with parameter 1 on three Booleans: exactly one of them is 1 -/
theorem exactlyOne3 (f : Nat → Int) (h0 : f 0 = 0 ∨ f 0 = 1) (h1 : f 1 = 0 ∨ f 1 = 1)
    (h2 : f 2 = 0 ∨ f 2 = 1) :
    rel .exactlyTrue [1] [f 0, f 1, f 2] ↔
      ∃ k, k < 3 ∧ f k = 1 ∧ ∀ k', k' < 3 → f k' = 1 → k' = k := by
  rw [exists_lt3]
  simp only [forall_lt3, rel, getI]
  rcases h0 with e0 | e0 <;> rcases h1 with e1 | e1 <;> rcases h2 with e2 | e2 <;>
    simp [e0, e1, e2]

/-- `a + b + c ≤ 2` on three Booleans: not all three are 1 -/
theorem notAll3 (a b c : Int) (ha : a = 0 ∨ a = 1) (hb : b = 0 ∨ b = 1) (hc : c = 0 ∨ c = 1) :
    rel .affineLeq [1, 1, 1, 2] [a, b, c] ↔ ¬ (a = 1 ∧ b = 1 ∧ c = 1) := by
  have : rel .affineLeq [1, 1, 1, 2] [a, b, c] ↔ a + b + c ≤ 2 := by
    simp [rel, dot]; omega
  rw [this]
  constructor
  · rintro h ⟨rfl, rfl, rfl⟩; omega
  · intro h
    rcases ha with rfl | rfl <;> rcases hb with rfl | rfl <;> rcases hc with rfl | rfl <;> simp at h ⊢

/-- the constraints of the plain model -/
def schurProps (n : Nat) : List RawC :=
  (List.range n).map (fun (x : Nat) => (⟨[x * 3, x * 3 + 1, x * 3 + 2], .exactlyTrue, [1]⟩ : RawC)) ++
   (List.range n).flatMap (fun (x : Nat) =>
     (List.range n).flatMap (fun (y : Nat) =>
       let z := (x + 1) + (y + 1) - 1
       if z < n then
         (List.range 3).map (fun (k : Nat) => (⟨[3 * x + k, 3 * y + k, 3 * z + k], .affineLeq, [1, 1, 1, 2]⟩ : RawC))
       else []))

theorem schur_eq (n : Nat) (sb : Bool) : schurLemmaProblem n sb =
    mkProblem (List.replicate (n * 3) (0, 1)) (idVars (n * 3))
      (schurProps n ++ (if sb then
        [ ⟨rangeStep 0 (n * 3) 3 ++ rangeStep 1 (n * 3) 3 ++ rangeStep 2 (n * 3) 3, .lexLeq, []⟩ ]
      else [])) := rfl

theorem mem_schurProps {n : Nat} {c : RawC} : c ∈ schurProps n ↔
    (∃ x, x < n ∧ c = ⟨[x * 3, x * 3 + 1, x * 3 + 2], .exactlyTrue, [1]⟩) ∨
    (∃ x y k, x < n ∧ y < n ∧ x + y + 1 < n ∧ k < 3 ∧
      c = ⟨[3 * x + k, 3 * y + k, 3 * (x + y + 1) + k], .affineLeq, [1, 1, 1, 2]⟩) := by
  simp only [schurProps, List.mem_append, List.mem_map, List.mem_flatMap, List.mem_range,
    List.mem_ite_nil_right]
  have e : ∀ x y : Nat, x + 1 + (y + 1) - 1 = x + y + 1 := by intros; omega
  simp only [e]
  constructor
  · rintro (⟨x, hx, rfl⟩ | ⟨x, hx, y, hy, hz, k, hk, rfl⟩)
    · exact Or.inl ⟨x, hx, rfl⟩
    · exact Or.inr ⟨x, y, k, hx, hy, hz, hk, rfl⟩
  · rintro (⟨x, hx, rfl⟩ | ⟨x, y, k, hx, hy, hz, hk, rfl⟩)
    · exact Or.inl ⟨x, hx, rfl⟩
    · exact Or.inr ⟨x, hx, y, hy, hz, k, hk, rfl⟩

theorem vals3 {N : Nat} (σ : List Int) {a b c : Nat} (ha : a < N) (hb : b < N) (hc : c < N) :
    vals (idVars N) σ [a, b, c] = [getI σ a, getI σ b, getI σ c] := by
  rw [vals_id]
  · rfl
  · intro v hv
    simp only [List.mem_cons, List.not_mem_nil, or_false] at hv
    rcases hv with rfl | rfl | rfl <;> assumption

end Ex

/-- C20 (Schur's lemma, no symmetry breaking): the posted model accepts exactly the sum-free
    3-colourings of `1 … n` -/
theorem C20_schurLemma (n : Nat) (σ : List Int) :
    Sol (schurLemmaProblem n false) σ ↔ ValidSchur n σ := by
  rw [schur_eq, sol_mk, inBox_replicate]
  simp only [Bool.false_eq_true, if_false, List.append_nil, inDom]
  have hbool : (∀ i, i < n * 3 → (0 : Int) ≤ getI σ i ∧ getI σ i ≤ 1) ↔
      (∀ i, i < n * 3 → getI σ i = 0 ∨ getI σ i = 1) :=
    ⟨fun h i hi => by have := h i hi; omega, fun h i hi => by have := h i hi; omega⟩
  rw [hbool]
  constructor
  · rintro ⟨⟨hl, hb⟩, h⟩
    refine ⟨hl, hb, fun x hx => ?_, fun x y z hx hy hz hxyz k hk => ?_⟩
    · have := h _ (mem_schurProps.2 (Or.inl ⟨x, hx, rfl⟩))
      simp only [Nat.mul_comm x 3] at this
      rw [vals3 σ (by omega) (by omega) (by omega)] at this
      exact (exactlyOne3 (fun k => getI σ (3 * x + k)) (hb _ (by omega)) (hb _ (by omega))
        (hb _ (by omega))).1 this
    · have hz' : z = x + y + 1 := by omega
      subst hz'
      have := h _ (mem_schurProps.2 (Or.inr ⟨x, y, k, hx, hy, hz, hk, rfl⟩))
      simp only [] at this
      rw [vals3 σ (by omega) (by omega) (by omega)] at this
      exact (notAll3 _ _ _ (hb _ (by omega)) (hb _ (by omega)) (hb _ (by omega))).1 this
  · intro hv
    have hb := hv.bool
    refine ⟨⟨hv.len, hb⟩, fun c hc => ?_⟩
    rcases mem_schurProps.1 hc with ⟨x, hx, rfl⟩ | ⟨x, y, k, hx, hy, hz, hk, rfl⟩
    · simp only [Nat.mul_comm x 3]
      rw [vals3 σ (by omega) (by omega) (by omega)]
      exact (exactlyOne3 (fun k => getI σ (3 * x + k)) (hb _ (by omega)) (hb _ (by omega))
        (hb _ (by omega))).2 (hv.oneColour x hx)
    · simp only []
      rw [vals3 σ (by omega) (by omega) (by omega)]
      exact (notAll3 _ _ _ (hb _ (by omega)) (hb _ (by omega)) (hb _ (by omega))).2
        (hv.sumFree x y (x + y + 1) hx hy hz (by omega) k hk)

/-- symmetry breaking only removes solutions -/
theorem C20_schurLemma_sb (n : Nat) (σ : List Int) :
    Sol (schurLemmaProblem n true) σ → Sol (schurLemmaProblem n false) σ := by
  rw [schur_eq, schur_eq, sol_mk, sol_mk]
  rintro ⟨hb, h⟩
  exact ⟨hb, fun c hc => h c (List.mem_append_left _ (by simpa using hc))⟩

/-- hence every solution of the symmetry-breaking model is a sum-free colouring -/
theorem C20_schurLemma_sb_valid (n : Nat) (σ : List Int) (h : Sol (schurLemmaProblem n true) σ) :
    ValidSchur n σ :=
  (C20_schurLemma n σ).1 (C20_schurLemma_sb n σ h)

set_option synthInstance.maxSize 2048 in
/-- non-vacuity: 1 ↦ colour 0, 2 ↦ colour 1, 3 ↦ colour 1, 4 ↦ colour 0 is sum-free -/
example : Sol (schurLemmaProblem 4 false) [1, 0, 0, 0, 1, 0, 0, 1, 0, 1, 0, 0] := by
  rw [C20_schurLemma]
  refine ⟨rfl, by decide, ?_, ?_⟩
  · have : ∀ x, x < 4 → ∃ k, k < 3 ∧ getI [1, 0, 0, 0, 1, 0, 0, 1, 0, 1, 0, 0] (3 * x + k) = 1 ∧
        ∀ k', k' < 3 → getI [1, 0, 0, 0, 1, 0, 0, 1, 0, 1, 0, 0] (3 * x + k') = 1 → k' = k := by decide
    exact this
  · have : ∀ x, x < 4 → ∀ y, y < 4 → ∀ z, z < 4 → (x + 1) + (y + 1) = z + 1 → ∀ k, k < 3 →
        ¬ (getI [1, 0, 0, 0, 1, 0, 0, 1, 0, 1, 0, 0] (3 * x + k) = 1 ∧
           getI [1, 0, 0, 0, 1, 0, 0, 1, 0, 1, 0, 0] (3 * y + k) = 1 ∧
           getI [1, 0, 0, 0, 1, 0, 0, 1, 0, 1, 0, 0] (3 * z + k) = 1) := by decide
    exact fun x y z hx hy hz => this x hx y hy z hz

/-- 1 and 2 with the same colour: rejected (1 + 1 = 2) -/
example : ¬ Sol (schurLemmaProblem 2 false) [1, 0, 0, 1, 0, 0] := by
  rw [C20_schurLemma]
  intro h
  exact h.sumFree 0 0 1 (by decide) (by decide) (by decide) (by decide) 0 (by decide) (by decide)

end Nucs
