import NucsProofs.Examples.Common
/-!
  C20 for `MagicSequenceProblem(n)`: the solutions of the posted model are exactly the magic
  sequences of length `n` (`σ[i]` = number of occurrences of `i` in `σ`).  The two redundant affine
  constraints of the model (`Σ σ[i] = n`, `Σ i·σ[i] = n`) are shown to be implied.
-/
namespace Nucs
open Ex

/-- a magic sequence of length `n`: every term lies in `[0, n]` and the `i`-th term is the number of
    occurrences of `i` in the sequence -/
structure ValidMagicSequence (n : Nat) (s : List Int) : Prop where
  len : s.length = n
  range : ∀ i, i < n → 0 ≤ getI s i ∧ getI s i ≤ (n : Int)
  magic : ∀ i, i < n → getI s i = (s.count (i : Int) : Int)

namespace Ex

/-- counting the occurrences of the values `0 … n-1`, weighted by `c`, enumerates the list -/
theorem sumFrom_count (c : Nat → Int) (n : Nat) : ∀ (l : List Int), (∀ x ∈ l, 0 ≤ x ∧ x < (n : Int)) →
    sumFrom (fun i => c i * (l.count (i : Int) : Int)) 0 n = (l.map (fun x => c x.toNat)).sum
  | [], _ => by simp [sumFrom_zero]
  | x :: xs, h => by
    have hx := h x (by simp)
    have ih := sumFrom_count c n xs (fun y hy => h y (by simp [hy]))
    have hk : x.toNat < 0 + n := by omega
    have e : ∀ i, 0 ≤ i → i < 0 + n → c i * ((x :: xs).count (i : Int) : Int) =
        c i * (xs.count (i : Int) : Int) + (if i = x.toNat then c i else 0) := by
      intro i _ _
      rw [List.count_cons]
      by_cases hi : i = x.toNat
      · have : x = (i : Int) := by omega
        simp [this, Int.mul_add]
      · have : ¬ (x = (i : Int)) := by omega
        simp [hi, this]
    rw [sumFrom_congr n 0 e, sumFrom_add, ih, sumFrom_single c x.toNat n 0 (by omega) hk]
    simp only [List.map_cons, List.sum_cons]
    omega

/-- in a magic sequence no term reaches `n` -/
theorem magic_lt {n : Nat} {s : List Int} (h : ValidMagicSequence n s) :
    ∀ x ∈ s, 0 ≤ x ∧ x < (n : Int) := by
  intro x hx
  obtain ⟨j, hj, rfl⟩ := List.getElem_of_mem hx
  have hjn : j < n := by rw [← h.len]; exact hj
  have hm := h.magic j hjn
  rw [getI_eq_getElem hj] at hm
  refine ⟨by rw [hm]; exact Int.natCast_nonneg _, ?_⟩
  have hle : s.count (j : Int) ≤ s.length := List.count_le_length
  rcases Nat.lt_or_ge (s.count (j : Int)) s.length with hlt | hge
  · rw [hm, ← h.len]; exact_mod_cast hlt
  · -- every term equals `j`, in particular the `j`-th one, which is `n`
    have hall : ∀ b ∈ s, (j : Int) = b := List.count_eq_length.1 (by omega)
    have hjj : (j : Int) = s[j] := hall _ (List.getElem_mem hj)
    have : s.count (j : Int) = n := by rw [← h.len]; omega
    rw [this] at hm
    omega

theorem magic_sum {n : Nat} {s : List Int} (h : ValidMagicSequence n s) : s.sum = (n : Int) := by
  have h1 := sumFrom_count (fun _ => 1) n s (magic_lt h)
  have h2 : (s.map (fun _ => (1 : Int))).sum = (n : Int) := by
    rw [← h.len]
    clear h1 h
    induction s with
    | nil => rfl
    | cons x xs ih => simp only [List.map_cons, List.sum_cons, List.length_cons, ih]; omega
  rw [h2] at h1
  -- `s = map (count s) (range n)`, so `s.sum` is the sum of the counts
  have h3 : dot (List.replicate s.length 1) s = sumFrom (fun i => 1 * (s.count (i : Int) : Int)) 0 n := by
    have e : s = (List.range' 0 n).map (fun (i : Nat) => (s.count (i : Int) : Int)) := by
      conv => lhs; rw [← map_getI_range s, h.len]
      rw [List.range_eq_range']
      apply List.map_congr_left
      intro i hi
      exact h.magic i (by simpa using hi)
    have e1 : List.replicate s.length (1 : Int) = (List.range' 0 n).map (fun (_ : Nat) => (1 : Int)) := by
      rw [h.len, List.map_const', List.length_range']
    rw [e1]
    conv => lhs; arg 2; rw [e]
    exact dot_range' _ _ n 0
  rw [← dot_ones_sum, h3, h1]

theorem magic_wsum {n : Nat} {s : List Int} (h : ValidMagicSequence n s) :
    dot (natsToInts (List.range n)) s = (n : Int) := by
  have h1 := sumFrom_count (fun i => (i : Int)) n s (magic_lt h)
  have h2 : (s.map (fun x => ((x.toNat : Nat) : Int))).sum = s.sum := by
    congr 1
    conv => rhs; rw [← List.map_id s]
    apply List.map_congr_left
    intro x hx
    have := (magic_lt h x hx).1
    simp; omega
  have e : s = (List.range' 0 n).map (fun (i : Nat) => (s.count (i : Int) : Int)) := by
    conv => lhs; rw [← map_getI_range s, h.len]
    rw [List.range_eq_range']
    apply List.map_congr_left
    intro i hi
    exact h.magic i (by simpa using hi)
  have e1 : natsToInts (List.range n) = (List.range' 0 n).map (fun (i : Nat) => (i : Int)) := by
    simp [natsToInts, List.range_eq_range']
  rw [e1]
  conv => lhs; arg 2; rw [e]
  rw [dot_range', h1, h2, magic_sum h]

/-- the value list of the `i`-th counting constraint -/
theorem ms_vals_count {n : Nat} {σ : List Int} (hl : σ.length = n) {i : Nat} (hi : i < n) :
    vals (idVars n) σ (List.range n ++ [i]) = σ ++ [getI σ i] := by
  rw [vals_id]
  · rw [List.map_append]
    conv => lhs; arg 1; rw [← hl, map_getI_range]
    rfl
  · intro v hv
    simp only [List.mem_append, List.mem_range, List.mem_singleton] at hv
    omega

theorem ms_vals_all {n : Nat} {σ : List Int} (hl : σ.length = n) :
    vals (idVars n) σ (List.range n) = σ := by
  rw [vals_id]
  · conv => lhs; rw [← hl, map_getI_range]
  · intro v hv
    simpa using hv

theorem rel_countEq_snoc (σ : List Int) (a x : Int) :
    rel .countEq [a] (σ ++ [x]) ↔ (σ.count a : Int) = x := by
  simp [rel, tFront, tBack, getI]

end Ex

/-- C20 (magic sequence): the posted model (counting constraints + two redundant affine
    constraints) accepts exactly the magic sequences of length `n` -/
theorem C20_magicSequence (n : Nat) (σ : List Int) :
    Sol (magicSequenceProblem n) σ ↔ ValidMagicSequence n σ := by
  unfold magicSequenceProblem
  rw [sol_mk, inBox_replicate]
  constructor
  · rintro ⟨⟨hl, hb⟩, h⟩
    refine ⟨hl, fun i hi => hb i hi, fun i hi => ?_⟩
    have := h ⟨List.range n ++ [i], .countEq, [(i : Int)]⟩
      (List.mem_append_left _ (List.mem_map.2 ⟨i, List.mem_range.2 hi, rfl⟩))
    simp only [ms_vals_count hl hi, rel_countEq_snoc] at this
    exact this.symm
  · intro hv
    refine ⟨⟨hv.len, fun i hi => hv.range i hi⟩, ?_⟩
    intro c hc
    simp only [List.mem_append, List.mem_map, List.mem_range, List.mem_cons, List.not_mem_nil,
      or_false] at hc
    rcases hc with ⟨i, hi, rfl⟩ | rfl | rfl
    · simp only [ms_vals_count hv.len hi, rel_countEq_snoc]
      exact (hv.magic i hi).symm
    · -- redundant constraint 1: Σ σ[i] = n
      simp only [ms_vals_all hv.len, rel, List.dropLast_concat, List.getLastD_concat]
      have := dot_ones_sum σ
      rw [hv.len] at this
      rw [this, magic_sum hv]
    · -- redundant constraint 2: Σ i·σ[i] = n
      simp only [ms_vals_all hv.len, rel, List.dropLast_concat, List.getLastD_concat]
      exact magic_wsum hv

/-- the redundant constraints are implied: the model without them has the same solutions -/
theorem magicSequence_redundant (n : Nat) (σ : List Int)
    (h : ∀ i, i < n → rel .countEq [(i : Int)] (vals (idVars n) σ (List.range n ++ [i])))
    (hb : inBox σ (List.replicate n (0, (n : Int)))) : Sol (magicSequenceProblem n) σ := by
  rw [C20_magicSequence]
  rw [inBox_replicate] at hb
  refine ⟨hb.1, hb.2, fun i hi => ?_⟩
  have := h i hi
  simp only [ms_vals_count hb.1 hi, rel_countEq_snoc] at this
  exact this.symm

/-- non-vacuity: `[1, 2, 1, 0]` is a magic sequence and is accepted by the model -/
example : Sol (magicSequenceProblem 4) [1, 2, 1, 0] := by
  rw [C20_magicSequence]
  exact ⟨rfl, by decide, by decide⟩

example : ¬ Sol (magicSequenceProblem 4) [1, 1, 1, 1] := by
  rw [C20_magicSequence]
  intro h
  exact absurd (h.magic 0 (by decide)) (by decide)

end Nucs
