import NucsProofs.Examples.Common
/-!
  C20 for `MagicSquareProblem(n, symmetry_breaking=False)`, `n ≥ 2`: the solutions of the posted
  model are exactly the normal magic squares of order `n` over `0 … n²-1` (row-major matrix
  `M i j = σ[i*n + j]`).  For `symmetry_breaking=True` the easy direction.
  (`MagicSquareProblem(1)` raises in Python: `range` with step 0.)
-/
namespace Nucs
open Ex

/-- the magic constant `n (n² − 1) / 2` of a normal magic square over `0 … n²-1` (the only possible
    common line sum: the `n` rows add up to `0 + 1 + … + (n²-1)`) -/
def magicConstant (n : Nat) : Int := ((n : Int) * ((n : Int) ^ 2 - 1)) / 2

/-- the sum of `f 0, …, f (n-1)` -/
def lineSum (n : Nat) (f : Nat → Int) : Int := ((List.range n).map f).sum

/-- a normal magic square of order `n`, row-major: the entries are the numbers `0 … n²-1`, each used
    once; every row, every column, the main diagonal and the anti-diagonal (cells `(n-1-k, k)`) add
    up to the magic constant -/
structure ValidMagicSquare (n : Nat) (m : List Int) : Prop where
  len : m.length = n * n
  entry : ∀ k, k < n * n → 0 ≤ getI m k ∧ getI m k ≤ (n : Int) * n - 1
  distinct : ∀ k l, k < l → l < n * n → getI m k ≠ getI m l
  rows : ∀ i, i < n → lineSum n (fun j => getI m (i * n + j)) = magicConstant n
  columns : ∀ j, j < n → lineSum n (fun i => getI m (i * n + j)) = magicConstant n
  diagonal : lineSum n (fun i => getI m (i * n + i)) = magicConstant n
  antiDiagonal : lineSum n (fun k => getI m ((n - 1 - k) * n + k)) = magicConstant n

namespace Ex

theorem rangeStep_count (start stop step n : Nat) (h1 : n * step ≤ stop - start + step - 1)
    (h2 : stop - start + step - 1 < (n + 1) * step) :
    rangeStep start stop step = (List.range n).map (fun k => start + k * step) := by
  unfold rangeStep
  rw [Nat.div_eq_of_lt_le h1 h2]

theorem rangeDown_count (start stop step n : Nat) (h1 : n * step ≤ start - stop + step - 1)
    (h2 : start - stop + step - 1 < (n + 1) * step) :
    rangeDown start stop step = (List.range n).map (fun k => start - k * step) := by
  unfold rangeDown
  rw [Nat.div_eq_of_lt_le h1 h2]

theorem msRow_eq (n i : Nat) : msRow n i = (List.range n).map (fun j => i * n + j) := by
  simp only [msRow, rangeAB_eq]
  have : n + i * n - (0 + i * n) = n := by omega
  rw [this]
  simp

theorem msColumn_eq (n j : Nat) (hj : j < n) : msColumn n j = (List.range n).map (fun i => i * n + j) := by
  unfold msColumn
  rw [Nat.pow_two, rangeStep_count j (n * n) n n (by omega)]
  · apply List.map_congr_left
    intro i _
    omega
  · have : (n + 1) * n = n * n + n := by rw [Nat.add_mul]; omega
    omega

theorem msFirstDiag_eq (n : Nat) : msFirstDiag n = (List.range n).map (fun i => i * n + i) := by
  unfold msFirstDiag
  have e1 : n * (n + 1) = n * n + n := by rw [Nat.mul_add]; omega
  have e2 : (n + 1) * (n + 1) = n * n + n + n + 1 := by
    rw [Nat.add_mul, Nat.mul_add, Nat.mul_add]; omega
  rw [Nat.pow_two, rangeStep_count 0 (n * n) (n + 1) n (by omega) (by omega)]
  apply List.map_congr_left
  intro i _
  rw [Nat.mul_add]
  omega

/-- cell `(n-1-k, k)` counted down from the bottom-left corner -/
theorem anti_index {n k : Nat} (hk : k < n) : n * n - n - k * (n - 1) = (n - 1 - k) * n + k := by
  obtain ⟨a, rfl⟩ : ∃ a, n = a + k + 1 := ⟨n - 1 - k, by omega⟩
  have e1 : a + k + 1 - 1 - k = a := by omega
  have e2 : a + k + 1 - 1 = a + k := by omega
  rw [e1, e2]
  have e3 : (a + k + 1) * (a + k + 1) = a * (a + k + 1) + k * (a + k) + k + (a + k + 1) := by
    rw [Nat.add_mul (a + k) 1, Nat.add_mul a k, Nat.mul_add k (a + k) 1]
    omega
  rw [e3]
  omega

theorem msSecondDiag_eq (n : Nat) (hn : 2 ≤ n) :
    msSecondDiag n = (List.range n).map (fun k => (n - 1 - k) * n + k) := by
  unfold msSecondDiag
  have e1 : n * (n - 1) = n * n - n := Nat.mul_sub_one n n
  have e2 : (n + 1) * (n - 1) = n * n - n + (n - 1) := by rw [Nat.add_mul, e1]; omega
  have e3 : n ≤ n * n := Nat.le_mul_self n
  have e4 : 2 * n ≤ n * n := Nat.mul_le_mul_right n hn
  rw [Nat.pow_two, rangeDown_count (n * n - n) 0 (n - 1) n (by omega) (by omega)]
  apply List.map_congr_left
  intro k hk
  exact anti_index (List.mem_range.1 hk)

theorem magic_eq (n : Nat) : (((n : Int) ^ 2 - 1) * n) / 2 = magicConstant n := by
  unfold magicConstant
  rw [Int.mul_comm]

/-- a line constraint of the model says that the line sums to the magic constant -/
theorem sumEq_iff (n : Nat) (σ : List Int) (idx : Nat → Nat) (hidx : ∀ k, k < n → idx k < n ^ 2) :
    rel .affineEq (List.replicate n 1 ++ [(((n : Int) ^ 2 - 1) * n) / 2])
        (vals (idVars (n ^ 2)) σ ((List.range n).map idx)) ↔
      lineSum n (fun k => getI σ (idx k)) = magicConstant n := by
  rw [vals_id, List.map_map]
  · simp only [rel, List.dropLast_concat, List.getLastD_concat, magic_eq, lineSum]
    have := dot_ones_sum ((List.range n).map (getI σ ∘ idx))
    simp only [List.length_map, List.length_range] at this
    rw [this]
    rfl
  · intro v hv
    simp only [List.mem_map, List.mem_range] at hv
    obtain ⟨k, hk, rfl⟩ := hv
    exact hidx k hk

/-- the constraints of the plain model -/
def msProps (n : Nat) : List RawC :=
  let m : Int := (((n : Int) ^ 2 - 1) * n) / 2
  let sumEq (vs : List Nat) : RawC := ⟨vs, .affineEq, List.replicate n 1 ++ [m]⟩
  (List.range n).flatMap (fun (i : Nat) => [sumEq (msRow n i), sumEq (msColumn n i)]) ++
    [ sumEq (msFirstDiag n), sumEq (msSecondDiag n), ⟨List.range (n ^ 2), .alldifferent, []⟩ ]

/-- the four ordering constraints between the corners -/
def msSbProps (n : Nat) : List RawC :=
  let topLeft := (msFirstDiag n).headD 0
  let bottomRight := (msFirstDiag n).getLastD 0
  let topRight := (msSecondDiag n).headD 0
  let bottomLeft := (msSecondDiag n).getLastD 0
  let lt (a b : Nat) : RawC := ⟨[a, b], .affineLeq, [1, -1, -1]⟩
  [ lt topLeft topRight, lt topLeft bottomLeft, lt topLeft bottomRight, lt topRight bottomLeft ]

theorem magicSquare_eq (n : Nat) (sb : Bool) : magicSquareProblem n sb =
    mkProblem (List.replicate (n ^ 2) (0, (n : Int) ^ 2 - 1)) (idVars (n ^ 2))
      (msProps n ++ (if sb then msSbProps n else [])) := rfl

end Ex

/-- C20 (magic square, no symmetry breaking): for `n ≥ 2` the posted model accepts exactly the
    normal magic squares of order `n` -/
theorem C20_magicSquare (n : Nat) (hn : 2 ≤ n) (σ : List Int) :
    Sol (magicSquareProblem n false) σ ↔ ValidMagicSquare n σ := by
  rw [magicSquare_eq, sol_mk, inBox_replicate]
  simp only [Bool.false_eq_true, if_false, List.append_nil]
  have hsq : n ^ 2 = n * n := Nat.pow_two n
  have hcast : (n : Int) ^ 2 - 1 = (n : Int) * n - 1 := by
    rw [Int.pow_succ, Int.pow_succ, Int.pow_zero, Int.one_mul]
  -- the five kinds of constraints
  have hrow : ∀ i, i < n → (rel .affineEq (List.replicate n 1 ++ [(((n : Int) ^ 2 - 1) * n) / 2])
      (vals (idVars (n ^ 2)) σ (msRow n i)) ↔ lineSum n (fun j => getI σ (i * n + j)) = magicConstant n) := by
    intro i hi
    rw [msRow_eq]
    exact sumEq_iff n σ _ (fun k hk => by rw [hsq]; exact cell_lt hi hk)
  have hcol : ∀ j, j < n → (rel .affineEq (List.replicate n 1 ++ [(((n : Int) ^ 2 - 1) * n) / 2])
      (vals (idVars (n ^ 2)) σ (msColumn n j)) ↔ lineSum n (fun i => getI σ (i * n + j)) = magicConstant n) := by
    intro j hj
    rw [msColumn_eq n j hj]
    exact sumEq_iff n σ _ (fun k hk => by rw [hsq]; exact cell_lt hk hj)
  have hd1 : rel .affineEq (List.replicate n 1 ++ [(((n : Int) ^ 2 - 1) * n) / 2])
      (vals (idVars (n ^ 2)) σ (msFirstDiag n)) ↔ lineSum n (fun i => getI σ (i * n + i)) = magicConstant n := by
    rw [msFirstDiag_eq]
    exact sumEq_iff n σ _ (fun k hk => by rw [hsq]; exact cell_lt hk hk)
  have hd2 : rel .affineEq (List.replicate n 1 ++ [(((n : Int) ^ 2 - 1) * n) / 2])
      (vals (idVars (n ^ 2)) σ (msSecondDiag n)) ↔
        lineSum n (fun k => getI σ ((n - 1 - k) * n + k)) = magicConstant n := by
    rw [msSecondDiag_eq n hn]
    exact sumEq_iff n σ _ (fun k hk => by rw [hsq]; exact cell_lt (by omega) hk)
  have hall : σ.length = n ^ 2 → (rel .alldifferent [] (vals (idVars (n ^ 2)) σ (List.range (n ^ 2))) ↔
      ∀ k l, k < l → l < n * n → getI σ k ≠ getI σ l) := by
    intro hl
    rw [vals_id _ _ (fun v hv => List.mem_range.1 hv)]
    conv => lhs; arg 3; rw [← hl, map_getI_range]
    simp only [rel]
    rw [nodup_iff_getI, hl, hsq]
  have hmem : ∀ c, c ∈ msProps n ↔
      (∃ i, i < n ∧ (c = ⟨msRow n i, .affineEq, List.replicate n 1 ++ [(((n : Int) ^ 2 - 1) * n) / 2]⟩ ∨
                     c = ⟨msColumn n i, .affineEq, List.replicate n 1 ++ [(((n : Int) ^ 2 - 1) * n) / 2]⟩)) ∨
      c = ⟨msFirstDiag n, .affineEq, List.replicate n 1 ++ [(((n : Int) ^ 2 - 1) * n) / 2]⟩ ∨
      c = ⟨msSecondDiag n, .affineEq, List.replicate n 1 ++ [(((n : Int) ^ 2 - 1) * n) / 2]⟩ ∨
      c = ⟨List.range (n ^ 2), .alldifferent, []⟩ := by
    intro c
    simp only [msProps, List.mem_append, List.mem_flatMap, List.mem_range, List.mem_cons,
      List.not_mem_nil, or_false]
  simp only [inDom, hcast]
  constructor
  · rintro ⟨⟨hl, hb⟩, h⟩
    refine ⟨by rw [← hsq]; exact hl, by rw [← hsq]; exact hb, ?_, ?_, ?_, ?_, ?_⟩
    · exact (hall hl).1 (h _ ((hmem _).2 (Or.inr (Or.inr (Or.inr rfl)))))
    · exact fun i hi => (hrow i hi).1 (h _ ((hmem _).2 (Or.inl ⟨i, hi, Or.inl rfl⟩)))
    · exact fun j hj => (hcol j hj).1 (h _ ((hmem _).2 (Or.inl ⟨j, hj, Or.inr rfl⟩)))
    · exact hd1.1 (h _ ((hmem _).2 (Or.inr (Or.inl rfl))))
    · exact hd2.1 (h _ ((hmem _).2 (Or.inr (Or.inr (Or.inl rfl)))))
  · intro hv
    have hl : σ.length = n ^ 2 := by rw [hsq]; exact hv.len
    refine ⟨⟨hl, by rw [hsq]; exact hv.entry⟩, fun c hc => ?_⟩
    rcases (hmem c).1 hc with ⟨i, hi, rfl | rfl⟩ | rfl | rfl | rfl
    · exact (hrow i hi).2 (hv.rows i hi)
    · exact (hcol i hi).2 (hv.columns i hi)
    · exact hd1.2 hv.diagonal
    · exact hd2.2 hv.antiDiagonal
    · exact (hall hl).2 hv.distinct

/-- symmetry breaking only removes solutions -/
theorem C20_magicSquare_sb (n : Nat) (σ : List Int) :
    Sol (magicSquareProblem n true) σ → Sol (magicSquareProblem n false) σ := by
  rw [magicSquare_eq, magicSquare_eq, sol_mk, sol_mk]
  rintro ⟨hb, h⟩
  exact ⟨hb, fun c hc => h c (List.mem_append_left _ (by simpa using hc))⟩

/-- hence every solution of the symmetry-breaking model is a magic square -/
theorem C20_magicSquare_sb_valid (n : Nat) (hn : 2 ≤ n) (σ : List Int)
    (h : Sol (magicSquareProblem n true) σ) : ValidMagicSquare n σ :=
  (C20_magicSquare n hn σ).1 (C20_magicSquare_sb n σ h)

/-- non-vacuity: the Lo Shu square (minus one) is accepted by the model -/
example : Sol (magicSquareProblem 3 false) [1, 6, 5, 8, 4, 0, 3, 2, 7] := by
  rw [C20_magicSquare 3 (by decide)]
  have hd : ∀ l, l < 9 → ∀ k, k < l →
      getI [1, 6, 5, 8, 4, 0, 3, 2, 7] k ≠ getI [1, 6, 5, 8, 4, 0, 3, 2, 7] l := by decide
  exact ⟨rfl, by decide, fun k l hkl hl => hd l hl k hkl, by decide, by decide, by decide, by decide⟩

/-- it also satisfies the symmetry-breaking constraints -/
example : Sol (magicSquareProblem 3 true) [1, 6, 5, 8, 4, 0, 3, 2, 7] := by
  rw [magicSquare_eq, sol_mk]
  have h0 := (C20_magicSquare 3 (by decide) [1, 6, 5, 8, 4, 0, 3, 2, 7]).2 (by
    have hd : ∀ l, l < 9 → ∀ k, k < l →
        getI [1, 6, 5, 8, 4, 0, 3, 2, 7] k ≠ getI [1, 6, 5, 8, 4, 0, 3, 2, 7] l := by decide
    exact ⟨rfl, by decide, fun k l hkl hl => hd l hl k hkl, by decide, by decide, by decide, by decide⟩)
  rw [magicSquare_eq, sol_mk] at h0
  refine ⟨h0.1, fun c hc => ?_⟩
  rcases List.mem_append.1 hc with hc | hc
  · exact h0.2 c (List.mem_append_left _ hc)
  · simp only [if_true, msSbProps, List.mem_cons, List.not_mem_nil, or_false] at hc
    rcases hc with rfl | rfl | rfl | rfl <;> (show dot _ _ ≤ _; decide)

example : ¬ Sol (magicSquareProblem 3 false) [0, 1, 2, 3, 4, 5, 6, 7, 8] := by
  rw [C20_magicSquare 3 (by decide)]
  intro h
  exact absurd (h.rows 0 (by decide)) (by decide)

end Nucs
