import NucsProofs.Examples.LatinSquare
/-!
  C20 for `SudokuProblem(givens)` with a 9 × 9 grid of givens: the solutions of the posted model are
  exactly the completed Sudoku grids that agree with the clues (a given outside `1 … 9` is a blank).
  The decoded object is the row-major grid `σ[i*9 + j]`.
-/
namespace Nucs
open Ex

/-- the given of cell `(i, j)` -/
def clue (givens : List (List Int)) (i j : Nat) : Int := getI (givens.getD i []) j

/-- a completed Sudoku grid for the clues `givens` -/
structure ValidSudoku (givens : List (List Int)) (g : List Int) : Prop where
  len : g.length = 81
  digit : ∀ i j, i < 9 → j < 9 → 1 ≤ getI g (i * 9 + j) ∧ getI g (i * 9 + j) ≤ 9
  rows : ∀ i, i < 9 → ∀ j₁ j₂, j₁ < j₂ → j₂ < 9 → getI g (i * 9 + j₁) ≠ getI g (i * 9 + j₂)
  columns : ∀ j, j < 9 → ∀ i₁ i₂, i₁ < i₂ → i₂ < 9 → getI g (i₁ * 9 + j) ≠ getI g (i₂ * 9 + j)
  /-- the `p`-th cell of box `(bi, bj)` is cell `(3 bi + p / 3, 3 bj + p % 3)` -/
  boxes : ∀ bi bj, bi < 3 → bj < 3 → ∀ p q, p < q → q < 9 →
    getI g ((3 * bi + p / 3) * 9 + (3 * bj + p % 3)) ≠ getI g ((3 * bi + q / 3) * 9 + (3 * bj + q % 3))
  clues : ∀ i j, i < 9 → j < 9 → 1 ≤ clue givens i j → clue givens i j ≤ 9 →
    getI g (i * 9 + j) = clue givens i j

namespace Ex

/-- the domain the constructor gives to a cell with given `g` -/
def cellDom (g : Int) : Dom := if (natsToInts (rangeAB 1 10)).contains g then (g, g) else (1, 9)

theorem cellDom_eq (g : Int) : cellDom g = if 1 ≤ g ∧ g ≤ 9 then (g, g) else (1, 9) := by
  unfold cellDom
  have e : natsToInts (rangeAB 1 10) = [1, 2, 3, 4, 5, 6, 7, 8, 9] := by decide
  rw [e]
  have : ([1, 2, 3, 4, 5, 6, 7, 8, 9] : List Int).contains g = true ↔ (1 ≤ g ∧ g ≤ 9) := by
    rw [List.contains_iff_mem]
    simp only [List.mem_cons, List.not_mem_nil, or_false]
    omega
  by_cases h : 1 ≤ g ∧ g ≤ 9
  · rw [if_pos h, if_pos (this.2 h)]
  · rw [if_neg h, if_neg (fun h' => h (this.1 h'))]

theorem sudoku_domains (givens : List (List Int)) :
    lsDomains (natsToInts (rangeAB 1 10)) (some givens) =
      givens.flatMap (fun line => line.map cellDom) := by
  have h1 : (natsToInts (rangeAB 1 10)).headD 0 = 1 := by decide
  have h2 : (natsToInts (rangeAB 1 10)).getLastD 0 = 9 := by decide
  simp only [lsDomains, h1, h2]
  rfl

/-- the root box: every cell is a digit, and equals its clue if there is one -/
theorem sudoku_box (givens : List (List Int)) (h9 : givens.length = 9) (hrow : ∀ r ∈ givens, r.length = 9)
    (σ : List Int) :
    inBox σ (givens.flatMap (fun line => line.map cellDom)) ↔
      σ.length = 81 ∧ ∀ i j, i < 9 → j < 9 →
        (1 ≤ getI σ (i * 9 + j) ∧ getI σ (i * 9 + j) ≤ 9) ∧
        (1 ≤ clue givens i j → clue givens i j ≤ 9 → getI σ (i * 9 + j) = clue givens i j) := by
  have hu : ∀ r ∈ givens, (r.map cellDom).length = 9 := fun r hr => by simp [hrow r hr]
  have hlen : (givens.flatMap (fun line => line.map cellDom)).length = 81 := by
    rw [length_flatMap_uniform _ 9 givens hu, h9]
  have hget : ∀ i j, i < 9 → j < 9 →
      getDom (givens.flatMap (fun line => line.map cellDom)) (i * 9 + j) = cellDom (clue givens i j) := by
    intro i j hi hj
    have hi' : i < givens.length := by omega
    have hj' : j < (givens[i]).length := by rw [hrow _ (List.getElem_mem hi')]; exact hj
    simp only [getDom, List.getD_eq_getElem?_getD]
    rw [getElem?_flatMap_uniform _ 9 givens hu i j hj]
    simp [List.getElem?_eq_getElem hi', List.getElem?_eq_getElem hj', clue, getI, List.getD_eq_getElem?_getD]
  rw [inBox_iff, hlen]
  have h81 : (81 : Nat) = 9 * 9 := rfl
  rw [h81, forall_cells 9 (fun k => inDom (getI σ k) (getDom _ k))]
  constructor
  · rintro ⟨hl, h⟩
    refine ⟨hl, fun i j hi hj => ?_⟩
    have := h i j hi hj
    rw [hget i j hi hj, cellDom_eq] at this
    by_cases hc : 1 ≤ clue givens i j ∧ clue givens i j ≤ 9
    · rw [if_pos hc] at this
      simp only [inDom] at this
      exact ⟨by omega, fun _ _ => by omega⟩
    · rw [if_neg hc] at this
      simp only [inDom] at this
      exact ⟨this, fun h1 h2 => absurd ⟨h1, h2⟩ hc⟩
  · rintro ⟨hl, h⟩
    refine ⟨hl, fun i j hi hj => ?_⟩
    have := h i j hi hj
    rw [hget i j hi hj, cellDom_eq]
    by_cases hc : 1 ≤ clue givens i j ∧ clue givens i j ≤ 9
    · rw [if_pos hc]
      have e := this.2 hc.1 hc.2
      simp only [inDom]
      omega
    · rw [if_neg hc]
      exact this.1

/-- the box constraints posted by `SudokuProblem.__init__` -/
def boxProps : List RawC :=
  (List.range 3).flatMap (fun (i : Nat) =>
    (List.range 3).map (fun (j : Nat) =>
      let o := i * 27 + j * 3
      (⟨[0 + o, 1 + o, 2 + o, 9 + o, 10 + o, 11 + o, 18 + o, 19 + o, 20 + o], .alldifferent, []⟩ : RawC)))

theorem box_cells : ∀ i, i < 3 → ∀ j, j < 3 →
    [0 + (i * 27 + j * 3), 1 + (i * 27 + j * 3), 2 + (i * 27 + j * 3), 9 + (i * 27 + j * 3),
      10 + (i * 27 + j * 3), 11 + (i * 27 + j * 3), 18 + (i * 27 + j * 3), 19 + (i * 27 + j * 3),
      20 + (i * 27 + j * 3)] =
    (List.range 9).map (fun p => (3 * i + p / 3) * 9 + (3 * j + p % 3)) := by decide

theorem sudoku_boxes (σ : List Int) :
    (∀ c ∈ boxProps, rel c.alg c.params (vals (idVars (9 * 9)) σ c.vars)) ↔
      ∀ bi bj, bi < 3 → bj < 3 → ∀ p q, p < q → q < 9 →
        getI σ ((3 * bi + p / 3) * 9 + (3 * bj + p % 3)) ≠ getI σ ((3 * bi + q / 3) * 9 + (3 * bj + q % 3)) := by
  have hbox : ∀ i j, i < 3 → j < 3 →
      (rel .alldifferent [] (vals (idVars (9 * 9)) σ
        [0 + (i * 27 + j * 3), 1 + (i * 27 + j * 3), 2 + (i * 27 + j * 3), 9 + (i * 27 + j * 3),
          10 + (i * 27 + j * 3), 11 + (i * 27 + j * 3), 18 + (i * 27 + j * 3), 19 + (i * 27 + j * 3),
          20 + (i * 27 + j * 3)]) ↔
        ∀ p q, p < q → q < 9 →
          getI σ ((3 * i + p / 3) * 9 + (3 * j + p % 3)) ≠ getI σ ((3 * i + q / 3) * 9 + (3 * j + q % 3))) := by
    intro i j hi hj
    rw [box_cells i hi j hj, vals_id, List.map_map]
    · exact nodup_map_range _ 9
    · intro v hv
      simp only [List.mem_map, List.mem_range] at hv
      obtain ⟨p, hp, rfl⟩ := hv
      omega
  simp only [boxProps, List.mem_flatMap, List.mem_map, List.mem_range]
  constructor
  · intro h bi bj hbi hbj
    exact (hbox bi bj hbi hbj).1 (h _ ⟨bi, hbi, bj, hbj, rfl⟩)
  · rintro h c ⟨i, hi, j, hj, rfl⟩
    exact (hbox i j hi hj).2 (h i j hi hj)

end Ex

/-- C20 (sudoku): for a 9 × 9 grid of givens the posted model accepts exactly the completed grids
    that agree with the clues -/
theorem C20_sudoku (givens : List (List Int)) (h9 : givens.length = 9)
    (hrow : ∀ r ∈ givens, r.length = 9) (σ : List Int) :
    Sol (sudokuProblem givens) σ ↔ ValidSudoku givens σ := by
  have hu : ∀ r ∈ givens, (r.map cellDom).length = 9 := fun r hr => by simp [hrow r hr]
  have hlen : (givens.flatMap (fun line => line.map cellDom)).length = 9 * 9 := by
    rw [length_flatMap_uniform _ 9 givens hu, h9]
  have hcol : (natsToInts (rangeAB 1 10)).length = 9 := by decide
  have hP : sudokuProblem givens =
      mkProblem (givens.flatMap (fun line => line.map cellDom)) (idVars (9 * 9)) (lsProps 9 ++ boxProps) := by
    simp only [sudokuProblem, sudoku_domains, hlen, hcol]
    rfl
  rw [hP, sol_mk, sudoku_box givens h9 hrow, List.forall_mem_append, ls_rows_cols 9 σ, sudoku_boxes]
  constructor
  · rintro ⟨⟨hl, hb⟩, ⟨hr, hc⟩, hbx⟩
    exact ⟨hl, fun i j hi hj => (hb i j hi hj).1, hr, hc, hbx, fun i j hi hj => (hb i j hi hj).2⟩
  · intro hv
    exact ⟨⟨hv.len, fun i j hi hj => ⟨hv.digit i j hi hj, hv.clues i j hi hj⟩⟩, ⟨hv.rows, hv.columns⟩, hv.boxes⟩

namespace Ex
/-- two clues in the first row, blanks elsewhere -/
def sampleGivens : List (List Int) := [5, 3, 0, 0, 0, 0, 0, 0, 0] :: List.replicate 8 (List.replicate 9 0)
def sampleGrid : List Int :=
  [5, 3, 4, 6, 7, 8, 9, 1, 2, 6, 7, 2, 1, 9, 5, 3, 4, 8, 1, 9, 8, 3, 4, 2, 5, 6, 7, 8, 5, 9, 7, 6, 1, 4, 2, 3, 4, 2, 6, 8, 5, 3, 7, 9, 1, 7, 1, 3, 9, 2, 4, 8, 5, 6, 9, 6, 1, 5, 3, 7, 2, 8, 4, 2, 8, 7, 4, 1, 9, 6, 3, 5, 3, 4, 5, 2, 8, 6, 1, 7, 9]
end Ex

set_option maxRecDepth 4096 in
/-- non-vacuity: a completed grid that agrees with the clues is accepted by the model -/
example : Sol (sudokuProblem sampleGivens) sampleGrid := by
  rw [C20_sudoku sampleGivens rfl (by decide)]
  have hd : ∀ i, i < 9 → ∀ j, j < 9 → 1 ≤ getI sampleGrid (i * 9 + j) ∧ getI sampleGrid (i * 9 + j) ≤ 9 := by decide
  have hr : ∀ i, i < 9 → ∀ j₂, j₂ < 9 → ∀ j₁, j₁ < j₂ →
      getI sampleGrid (i * 9 + j₁) ≠ getI sampleGrid (i * 9 + j₂) := by decide
  have hc : ∀ j, j < 9 → ∀ i₂, i₂ < 9 → ∀ i₁, i₁ < i₂ →
      getI sampleGrid (i₁ * 9 + j) ≠ getI sampleGrid (i₂ * 9 + j) := by decide
  have hb : ∀ bi, bi < 3 → ∀ bj, bj < 3 → ∀ q, q < 9 → ∀ p, p < q →
      getI sampleGrid ((3 * bi + p / 3) * 9 + (3 * bj + p % 3)) ≠
        getI sampleGrid ((3 * bi + q / 3) * 9 + (3 * bj + q % 3)) := by decide
  have hk : ∀ i, i < 9 → ∀ j, j < 9 → 1 ≤ clue sampleGivens i j → clue sampleGivens i j ≤ 9 →
      getI sampleGrid (i * 9 + j) = clue sampleGivens i j := by decide
  exact ⟨rfl, fun i j hi hj => hd i hi j hj, fun i hi j₁ j₂ h12 h2 => hr i hi j₂ h2 j₁ h12,
    fun j hj i₁ i₂ h12 h2 => hc j hj i₂ h2 i₁ h12,
    fun bi bj hbi hbj p q hpq hq => hb bi hbi bj hbj q hq p hpq, fun i j hi hj => hk i hi j hj⟩

/-- a grid that contradicts a clue is rejected -/
example : ¬ Sol (sudokuProblem ([1, 0, 0, 0, 0, 0, 0, 0, 0] :: List.replicate 8 (List.replicate 9 0))) sampleGrid := by
  rw [C20_sudoku _ rfl (by decide)]
  intro h
  exact absurd (h.clues 0 0 (by decide) (by decide) (by decide) (by decide)) (by decide)

end Nucs
