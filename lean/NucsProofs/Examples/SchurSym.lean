import NucsProofs.Examples.Schur
import NucsProofs.Examples.MagicSquare
/-!
  C20, symmetry breaking of the Schur model PRESERVES satisfiability, for every `n`.
  The flag posts ONE `lexicographic_leq` over the `3n` variables listed colour by colour; the constraint compares
  the first `⌊3n/2⌋` of them with the rest, i.e. `(c₀ ++ first part of c₁) ≤lex (rest of c₁ ++ c₂)`.
  Its first comparison is "number 1 has colour 0" against "number `⌊3n/2⌋ − n + 1` has colour 1".  Renaming the
  colours of a sum-free colouring gives a sum-free colouring; rename so that number 1 does NOT get colour 0 and
  number `⌊3n/2⌋ − n + 1` gets colour 1: the first comparison is `0 < 1` and the constraint holds.
-/
namespace Nucs
open Ex

/-- the colouring with the colours renamed: new colour `k` is old colour `p k` -/
def permColours (n : Nat) (p : Nat → Nat) (s : List Int) : List Int :=
  (List.range (n * 3)).map (fun i => getI s (3 * (i / 3) + p (i % 3)))

namespace Ex

theorem getI_permColours {n x k : Nat} (p : Nat → Nat) (s : List Int) (hx : x < n) (hk : k < 3) :
    getI (permColours n p s) (3 * x + k) = getI s (3 * x + p k) := by
  have hi : 3 * x + k < n * 3 := by omega
  rw [getI_eq_getElem (by simp [permColours]; omega)]
  simp only [permColours, List.getElem_map, List.getElem_range]
  have e1 : (3 * x + k) / 3 = x := by omega
  have e2 : (3 * x + k) % 3 = k := by omega
  rw [e1, e2]

/-- renaming the colours of a sum-free colouring gives a sum-free colouring -/
theorem valid_permColours {n : Nat} {s : List Int} (h : ValidSchur n s) (p q : Nat → Nat)
    (hpq : ∀ k, k < 3 → p k < 3 ∧ q k < 3 ∧ q (p k) = k ∧ p (q k) = k) : ValidSchur n (permColours n p s) := by
  refine ⟨by simp [permColours], ?_, ?_, ?_⟩
  · intro i hi
    have e : i = 3 * (i / 3) + i % 3 := by omega
    rw [e, getI_permColours p s (by omega) (by omega)]
    exact h.bool _ (by have := (hpq (i % 3) (by omega)).1; omega)
  · intro x hx
    obtain ⟨k, hk, h1, hu⟩ := h.oneColour x hx
    refine ⟨q k, (hpq k hk).2.1, ?_, ?_⟩
    · rw [getI_permColours p s hx (hpq k hk).2.1, (hpq k hk).2.2.2]; exact h1
    · intro k' hk' h2
      rw [getI_permColours p s hx hk'] at h2
      have := hu (p k') (hpq k' hk').1 h2
      rw [← this, (hpq k' hk').2.2.1]
  · intro x y z hx hy hz hxyz k hk
    rw [getI_permColours p s hx hk, getI_permColours p s hy hk, getI_permColours p s hz hk]
    exact h.sumFree x y z hx hy hz hxyz (p k) (hpq k hk).1

/-- a renaming that avoids colour `A` at new colour 0 and sends new colour 1 to `B` -/
theorem exists_renaming (A B : Nat) (hA : A < 3) (hB : B < 3) :
    ∃ p q : Nat → Nat, (∀ k, k < 3 → p k < 3 ∧ q k < 3 ∧ q (p k) = k ∧ p (q k) = k) ∧ p 0 ≠ A ∧ p 1 = B := by
  have ha : A = 0 ∨ A = 1 ∨ A = 2 := by omega
  have hb : B = 0 ∨ B = 1 ∨ B = 2 := by omega
  rcases ha with rfl | rfl | rfl <;> rcases hb with rfl | rfl | rfl
  · exact ⟨fun k => [1, 0, 2].getD k 0, fun k => [1, 0, 2].getD k 0, by decide, by decide, by decide⟩
  · exact ⟨fun k => [2, 1, 0].getD k 0, fun k => [2, 1, 0].getD k 0, by decide, by decide, by decide⟩
  · exact ⟨fun k => [1, 2, 0].getD k 0, fun k => [2, 0, 1].getD k 0, by decide, by decide, by decide⟩
  · exact ⟨fun k => [2, 0, 1].getD k 0, fun k => [1, 2, 0].getD k 0, by decide, by decide, by decide⟩
  · exact ⟨fun k => [0, 1, 2].getD k 0, fun k => [0, 1, 2].getD k 0, by decide, by decide, by decide⟩
  · exact ⟨fun k => [0, 2, 1].getD k 0, fun k => [0, 2, 1].getD k 0, by decide, by decide, by decide⟩
  · exact ⟨fun k => [1, 0, 2].getD k 0, fun k => [1, 0, 2].getD k 0, by decide, by decide, by decide⟩
  · exact ⟨fun k => [0, 1, 2].getD k 0, fun k => [0, 1, 2].getD k 0, by decide, by decide, by decide⟩
  · exact ⟨fun k => [0, 2, 1].getD k 0, fun k => [0, 2, 1].getD k 0, by decide, by decide, by decide⟩

theorem lexLe_of_head_lt : ∀ (t : List Int) (h : Nat), 1 ≤ h → h < t.length → getI t 0 < getI t h →
    lexLe (t.take h) (t.drop h)
  | [], _, _, hl, _ => by simp at hl
  | a :: t', h, h1, hl, hlt => by
    obtain ⟨h', rfl⟩ : ∃ h', h = h' + 1 := ⟨h - 1, by omega⟩
    rw [List.take_succ_cons, List.drop_succ_cons]
    have hl' : h' < t'.length := by simpa using hl
    rw [List.drop_eq_getElem_cons hl']
    refine Or.inl ?_
    have e0 : getI (a :: t') 0 = a := rfl
    have e1 : getI (a :: t') (h' + 1) = t'[h'] := by
      simp [getI, List.getD_eq_getElem?_getD, List.getElem?_eq_getElem hl']
    rw [e0, e1] at hlt
    exact hlt

/-- the variables of the symmetry-breaking constraint, colour by colour -/
def schurSbVars (n : Nat) : List Nat := rangeStep 0 (n * 3) 3 ++ rangeStep 1 (n * 3) 3 ++ rangeStep 2 (n * 3) 3

theorem schurSbVars_eq (n : Nat) : schurSbVars n =
    (List.range n).map (fun x => 0 + x * 3) ++ (List.range n).map (fun x => 1 + x * 3) ++ (List.range n).map (fun x => 2 + x * 3) := by
  unfold schurSbVars
  rw [rangeStep_count 0 (n * 3) 3 n (by omega) (by omega), rangeStep_count 1 (n * 3) 3 n (by omega) (by omega),
    rangeStep_count 2 (n * 3) 3 n (by omega) (by omega)]

theorem schurSb_vals (n : Nat) (σ : List Int) :
    vals (idVars (n * 3)) σ (schurSbVars n) = (schurSbVars n).map (getI σ) := by
  rw [vals_id]
  intro v hv
  rw [schurSbVars_eq] at hv
  simp only [List.mem_append, List.mem_map, List.mem_range] at hv
  rcases hv with (⟨x, hx, rfl⟩ | ⟨x, hx, rfl⟩) | ⟨x, hx, rfl⟩ <;> omega

end Ex

/-- C20 (Schur, symmetry breaking): the flag adds exactly one lexicographic comparison -/
theorem C20_schurLemma_sb_iff (n : Nat) (σ : List Int) :
    Sol (schurLemmaProblem n true) σ ↔
      Sol (schurLemmaProblem n false) σ ∧
        lexLe (((schurSbVars n).map (getI σ)).take (n * 3 / 2)) (((schurSbVars n).map (getI σ)).drop (n * 3 / 2)) := by
  rw [schur_eq, schur_eq, sol_mk, sol_mk]
  simp only [if_true, Bool.false_eq_true, if_false, List.append_nil, List.mem_append, or_imp, forall_and,
    List.mem_singleton, forall_eq]
  have hlen : ((schurSbVars n).map (getI σ)).length = n * 3 := by
    rw [schurSbVars_eq]; simp; omega
  have : rel .lexLeq [] (vals (idVars (n * 3)) σ (schurSbVars n)) ↔
      lexLe (((schurSbVars n).map (getI σ)).take (n * 3 / 2)) (((schurSbVars n).map (getI σ)).drop (n * 3 / 2)) := by
    rw [schurSb_vals]
    simp only [rel, hlen]
  unfold schurSbVars at this
  rw [this]
  constructor
  · rintro ⟨hb, h1, h2⟩; exact ⟨⟨hb, h1⟩, h2⟩
  · rintro ⟨⟨hb, h1⟩, h2⟩; exact ⟨hb, h1, h2⟩

/-- C20 (Schur, symmetry breaking preserves satisfiability): for every `n`, from any sum-free 3-colouring of `1 … n` a
    renaming of the colours satisfies the symmetry-breaking model -/
theorem C20_schurLemma_sb_preserves (n : Nat) (σ : List Int) (h : Sol (schurLemmaProblem n false) σ) :
    ∃ σ', Sol (schurLemmaProblem n true) σ' := by
  rcases Nat.eq_zero_or_pos n with h0 | hpos
  · subst h0
    refine ⟨σ, (C20_schurLemma_sb_iff 0 σ).2 ⟨h, ?_⟩⟩
    simp [schurSbVars, rangeStep, lexLe]
  have hv := (C20_schurLemma n σ).1 h
  -- the colour of number 1 and of number `3n/2 − n + 1`
  have hb : n * 3 / 2 - n < n := by omega
  obtain ⟨A, hA, hA1, _⟩ := hv.oneColour 0 hpos
  obtain ⟨B, hB, hB1, _⟩ := hv.oneColour (n * 3 / 2 - n) hb
  obtain ⟨p, q, hpq, hp0, hp1⟩ := exists_renaming A B hA hB
  have hv' := valid_permColours hv p q hpq
  refine ⟨permColours n p σ, (C20_schurLemma_sb_iff n _).2 ⟨(C20_schurLemma n _).2 hv', ?_⟩⟩
  have hlen : ((schurSbVars n).map (getI (permColours n p σ))).length = n * 3 := by
    rw [schurSbVars_eq]; simp; omega
  refine lexLe_of_head_lt _ _ (by omega) (by rw [hlen]; omega) ?_
  -- the first element is "number 1 has new colour 0", the element at 3n/2 is "number 3n/2−n+1 has new colour 1"
  have e0 : getI ((schurSbVars n).map (getI (permColours n p σ))) 0 = getI (permColours n p σ) (3 * 0 + 0) := by
    rw [schurSbVars_eq]
    obtain ⟨m, rfl⟩ : ∃ m, n = m + 1 := ⟨n - 1, by omega⟩
    simp [getI, List.range_succ_eq_map]
  have e1 : getI ((schurSbVars n).map (getI (permColours n p σ))) (n * 3 / 2) =
      getI (permColours n p σ) (3 * (n * 3 / 2 - n) + 1) := by
    rw [schurSbVars_eq]
    have hl0 : ((List.range n).map (fun x => 0 + x * 3)).length = n := by simp
    simp only [getI, List.getD_eq_getElem?_getD, List.map_append]
    rw [List.getElem?_append_left (by simp; omega), List.getElem?_append_right (by simp; omega)]
    simp only [List.length_map, List.length_range, List.getElem?_map, List.getElem?_range hb]
    simp only [Option.map_some, Option.getD_some]
    congr 1
    omega
  rw [e0, e1, getI_permColours p σ hpos (by omega), getI_permColours p σ hb (by omega), hp1, hB1]
  -- number 1 has old colour `A ≠ p 0`
  have hne : getI σ (3 * 0 + p 0) ≠ 1 := by
    intro e
    obtain ⟨A', hA', hA1', hu⟩ := hv.oneColour 0 hpos
    have h1 := hu (p 0) (hpq 0 (by omega)).1 e
    have h2 := hu A hA hA1
    omega
  have hbool := hv.bool (3 * 0 + p 0) (by have := (hpq 0 (by omega)).1; omega)
  omega

theorem C20_schurLemma_sb_sat_iff (n : Nat) :
    (∃ σ, Sol (schurLemmaProblem n false) σ) ↔ (∃ σ, Sol (schurLemmaProblem n true) σ) :=
  ⟨fun ⟨σ, h⟩ => C20_schurLemma_sb_preserves n σ h, fun ⟨σ, h⟩ => ⟨σ, C20_schurLemma_sb n σ h⟩⟩

end Nucs
