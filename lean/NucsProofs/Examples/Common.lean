import NucsProofs.SpecEngine
import NucsModel.Examples
/-!
  Shared lemmas for the C20 files: unfolding `Sol` over a problem built by `Ex.mkProblem`,
  resolution of variable indices through the identity variable list, `inBox` against
  `List.replicate`, `Nodup` of a list indexed by `List.range`, the Python ranges.
-/
namespace Nucs.Ex

/-! ### lists -/

theorem getI_eq_getElem {l : List Int} {i : Nat} (h : i < l.length) : getI l i = l[i] := by
  simp [getI, List.getD_eq_getElem?_getD, List.getElem?_eq_getElem h]

theorem getI_of_le {l : List Int} {i : Nat} (h : l.length ≤ i) : getI l i = 0 := by
  simp [getI, List.getD_eq_getElem?_getD, List.getElem?_eq_none h]

/-- a list is the map of `getI` over its index range -/
theorem map_getI_range (l : List Int) : (List.range l.length).map (getI l) = l := by
  apply List.ext_getElem
  · simp
  · intro i h1 h2
    simp at h1
    simp [getI_eq_getElem h1]

theorem pairwise_range {R : Nat → Nat → Prop} (n : Nat) :
    (List.range n).Pairwise R ↔ ∀ i j, i < j → j < n → R i j := by
  rw [List.pairwise_iff_getElem]
  constructor
  · intro h i j hij hj
    have := h i j (by simp; omega) (by simpa using hj) hij
    simpa using this
  · intro h i j hi hj hij
    simp at hi hj
    simpa using h i j hij hj

/-- `Nodup` of a list given by a function on `range n` -/
theorem nodup_map_range {α : Type} (f : Nat → α) (n : Nat) :
    ((List.range n).map f).Nodup ↔ ∀ i j, i < j → j < n → f i ≠ f j := by
  rw [List.Nodup, List.pairwise_map, pairwise_range]

/-! ### boxes -/

theorem inBox_iff : ∀ (σ : List Int) (B : Box),
    inBox σ B ↔ σ.length = B.length ∧ ∀ i, i < B.length → inDom (getI σ i) (getDom B i)
  | [], [] => by simp [inBox]
  | [], _ :: _ => by simp [inBox]
  | _ :: _, [] => by simp [inBox]
  | x :: xs, d :: ds => by
    simp only [inBox, inBox_iff xs ds, List.length_cons]
    constructor
    · rintro ⟨h0, hl, h⟩
      refine ⟨by omega, fun i hi => ?_⟩
      cases i with
      | zero => simpa [getI, getDom] using h0
      | succ i => simpa [getI, getDom] using h i (by omega)
    · rintro ⟨hl, h⟩
      refine ⟨by simpa [getI, getDom] using h 0 (by omega), by omega, fun i hi => ?_⟩
      simpa [getI, getDom] using h (i + 1) (by omega)

theorem getDom_replicate {n i : Nat} (d : Dom) (h : i < n) : getDom (List.replicate n d) i = d := by
  simp [getDom, List.getD_eq_getElem?_getD, h]

theorem inBox_replicate (σ : List Int) (n : Nat) (d : Dom) :
    inBox σ (List.replicate n d) ↔ σ.length = n ∧ ∀ i, i < n → inDom (getI σ i) d := by
  rw [inBox_iff]
  simp only [List.length_replicate]
  constructor
  · rintro ⟨hl, h⟩
    exact ⟨hl, fun i hi => by simpa [getDom_replicate d hi] using h i hi⟩
  · rintro ⟨hl, h⟩
    exact ⟨hl, fun i hi => by simpa [getDom_replicate d hi] using h i hi⟩

/-! ### problems built by `mkProblem` -/

/-- the value list a posted constraint sees -/
def vals (vars : List (Nat × Int)) (σ : List Int) (vs : List Nat) : List Int :=
  vs.map (fun v => getI σ (resolve vars v).1 + (resolve vars v).2)

theorem sol_mk (shr : Box) (vars : List (Nat × Int)) (cs : List RawC) (σ : List Int) :
    Sol (mkProblem shr vars cs) σ ↔
      inBox σ shr ∧ ∀ c ∈ cs, rel c.alg c.params (vals vars σ c.vars) := by
  simp only [Sol, mkProblem, List.mem_map, vals]
  constructor
  · rintro ⟨hb, h⟩
    refine ⟨hb, fun c hc => ?_⟩
    have := h (post vars c) ⟨c, hc, rfl⟩
    simpa [post, valuesOf, List.map_map, Function.comp_def] using this
  · rintro ⟨hb, h⟩
    refine ⟨hb, ?_⟩
    rintro p ⟨c, hc, rfl⟩
    have := h c hc
    simpa [post, valuesOf, List.map_map, Function.comp_def] using this

theorem resolve_idVars {n v : Nat} (h : v < n) : resolve (idVars n) v = (v, 0) := by
  simp [resolve, idVars, List.getD_eq_getElem?_getD, List.getElem?_map, List.getElem?_range h]

/-- with the identity variable list, a constraint over in-range indices sees `σ` at those indices -/
theorem vals_id {n : Nat} (σ : List Int) (vs : List Nat) (h : ∀ v ∈ vs, v < n) :
    vals (idVars n) σ vs = vs.map (getI σ) := by
  unfold vals
  apply List.map_congr_left
  intro v hv
  simp [resolve_idVars (h v hv)]

/-! ### Python ranges -/

theorem rangeAB_eq (a b : Nat) : rangeAB a b = (List.range (b - a)).map (fun k => a + k) := by
  simp [rangeAB, List.range'_eq_map_range]

theorem mem_rangeAB {a b v : Nat} : v ∈ rangeAB a b ↔ a ≤ v ∧ v < b := by
  simp [rangeAB, List.mem_range'_1]; omega

/-- `range(start, start + n*step, step)` has the `n` elements `start + k*step` -/
theorem rangeStep_eq (start n step : Nat) (hs : 0 < step) :
    rangeStep start (start + n * step) step = (List.range n).map (fun k => start + k * step) := by
  unfold rangeStep
  have : (start + n * step - start + step - 1) / step = n := by
    have h1 : start + n * step - start + step - 1 = (step - 1) + n * step := by omega
    rw [h1, Nat.add_mul_div_right _ _ hs, Nat.div_eq_of_lt (by omega)]
    omega
  rw [this]

/-! ### cells of an `n × n` matrix stored row-major -/

theorem cell_lt {n i j : Nat} (hi : i < n) (hj : j < n) : i * n + j < n * n := by
  have : (i + 1) * n ≤ n * n := Nat.mul_le_mul_right n hi
  have h2 : (i + 1) * n = i * n + n := by rw [Nat.add_mul]; omega
  omega

/-- a bound on all cells, index by index or cell by cell -/
theorem forall_cells (n : Nat) (P : Nat → Prop) :
    (∀ k, k < n * n → P k) ↔ ∀ i j, i < n → j < n → P (i * n + j) := by
  constructor
  · intro h i j hi hj
    exact h _ (cell_lt hi hj)
  · intro h k hk
    have hn : 0 < n := by
      cases n with
      | zero => simp at hk
      | succ _ => omega
    have h1 : k / n < n := (Nat.div_lt_iff_lt_mul hn).2 hk
    have h2 : k % n < n := Nat.mod_lt _ hn
    have h3 : k / n * n + k % n = k := by rw [Nat.mul_comm]; exact Nat.div_add_mod k n
    simpa [h3] using h (k / n) (k % n) h1 h2

/-! ### sums over index ranges and `dot` -/

/-- `Σ_{s ≤ i < s+n} f i` -/
def sumFrom (f : Nat → Int) : Nat → Nat → Int
  | _, 0 => 0
  | s, n + 1 => f s + sumFrom f (s + 1) n

theorem sumFrom_congr {f g : Nat → Int} : ∀ (n s : Nat), (∀ i, s ≤ i → i < s + n → f i = g i) →
    sumFrom f s n = sumFrom g s n
  | 0, _, _ => rfl
  | n + 1, s, h => by
    simp only [sumFrom]
    rw [h s (by omega) (by omega), sumFrom_congr n (s + 1) (fun i h1 h2 => h i (by omega) (by omega))]

theorem sumFrom_add (f g : Nat → Int) : ∀ (n s : Nat),
    sumFrom (fun i => f i + g i) s n = sumFrom f s n + sumFrom g s n
  | 0, _ => rfl
  | n + 1, s => by simp only [sumFrom]; rw [sumFrom_add f g n (s + 1)]; omega

theorem sumFrom_zero : ∀ (n s : Nat), sumFrom (fun _ => 0) s n = 0
  | 0, _ => rfl
  | n + 1, s => by simp only [sumFrom]; rw [sumFrom_zero n (s + 1)]; omega

/-- a sum with a single non-zero term -/
theorem sumFrom_single (c : Nat → Int) (k : Nat) : ∀ (n s : Nat), s ≤ k → k < s + n →
    sumFrom (fun i => if i = k then c i else 0) s n = c k
  | 0, s, h1, h2 => by omega
  | n + 1, s, h1, h2 => by
    simp only [sumFrom]
    by_cases hk : s = k
    · subst hk
      rw [sumFrom_congr (g := fun _ => 0) n (s + 1) (fun i h1 _ => by simp; omega), sumFrom_zero]
      simp
    · rw [sumFrom_single c k n (s + 1) (by omega) (by omega)]
      simp [hk]

theorem dot_range' (c g : Nat → Int) : ∀ (n s : Nat),
    dot ((List.range' s n).map c) ((List.range' s n).map g) = sumFrom (fun i => c i * g i) s n
  | 0, _ => rfl
  | n + 1, s => by
    simp only [List.range'_succ, List.map_cons, dot, sumFrom]
    rw [dot_range' c g n (s + 1)]

theorem dot_ones_sum : ∀ (l : List Int), dot (List.replicate l.length 1) l = l.sum
  | [] => rfl
  | x :: xs => by
    simp only [List.length_cons, List.replicate_succ, dot, List.sum_cons]
    rw [dot_ones_sum xs]; omega

theorem nodup_iff_getI (σ : List Int) :
    σ.Nodup ↔ ∀ i j, i < j → j < σ.length → getI σ i ≠ getI σ j := by
  conv => lhs; rw [← map_getI_range σ]
  exact nodup_map_range _ _

/-! ### more list / box lemmas -/

theorem dot_append : ∀ (a b c d : List Int), a.length = b.length →
    dot (a ++ c) (b ++ d) = dot a b + dot c d
  | [], [], _, _, _ => by simp [dot]
  | [], _ :: _, _, _, h => by simp at h
  | _ :: _, [], _, _, h => by simp at h
  | x :: xs, y :: ys, c, d, h => by
    simp only [List.cons_append, dot]
    rw [dot_append xs ys c d (by simpa using h)]
    omega

theorem foldl_add_sum : ∀ (l : List Int) (a : Int), l.foldl (· + ·) a = a + l.sum
  | [], a => by simp
  | x :: xs, a => by simp only [List.foldl_cons, List.sum_cons]; rw [foldl_add_sum xs]; omega

theorem sumI_eq_sum (l : List Int) : sumI l = l.sum := by
  simp [sumI, foldl_add_sum]

theorem getDom_append_left {A B : Box} {i : Nat} (h : i < A.length) : getDom (A ++ B) i = getDom A i := by
  simp [getDom, List.getD_eq_getElem?_getD, List.getElem?_append_left h]

theorem getDom_append_length (A : Box) (d : Dom) : getDom (A ++ [d]) A.length = d := by
  simp [getDom, List.getD_eq_getElem?_getD]

theorem map_getI_range_take {σ : List Int} {n : Nat} (h : n ≤ σ.length) :
    (List.range n).map (getI σ) = σ.take n := by
  apply List.ext_getElem
  · simp; omega
  · intro i h1 h2
    simp at h1
    simp [getI_eq_getElem (show i < σ.length by omega)]

theorem take_append_getI {σ : List Int} {n : Nat} (h : σ.length = n + 1) : σ = σ.take n ++ [getI σ n] := by
  apply List.ext_getElem
  · simp; omega
  · intro i h1 h2
    rcases Nat.lt_or_ge i n with hlt | hge
    · rw [List.getElem_append_left (by simp; omega)]
      simp
    · have : i = n := by omega
      subst this
      rw [List.getElem_append_right (by simp; omega)]
      simp [getI_eq_getElem h1]

theorem getI_take {σ : List Int} {n i : Nat} (h : i < n) : getI (σ.take n) i = getI σ i := by
  simp [getI, List.getD_eq_getElem?_getD, h]

/-- indexing into a `flatMap` whose pieces all have length `m` -/
theorem getElem?_flatMap_uniform {α β : Type} (f : α → List β) (m : Nat) :
    ∀ (g : List α), (∀ r ∈ g, (f r).length = m) → ∀ i j, j < m →
      (g.flatMap f)[i * m + j]? = (g[i]?).bind (fun r => (f r)[j]?)
  | [], _, i, j, _ => by simp
  | r :: rs, h, 0, j, hj => by
    have hr := h r (by simp)
    simp only [List.flatMap_cons, Nat.zero_mul, Nat.zero_add]
    rw [List.getElem?_append_left (by omega)]
    simp
  | r :: rs, h, i + 1, j, hj => by
    have hr := h r (by simp)
    simp only [List.flatMap_cons]
    rw [List.getElem?_append_right (by rw [hr, Nat.add_mul]; omega)]
    have : (i + 1) * m + j - (f r).length = i * m + j := by rw [hr, Nat.add_mul]; omega
    rw [this, getElem?_flatMap_uniform f m rs (fun r' hr' => h r' (by simp [hr'])) i j hj]
    simp

theorem length_flatMap_uniform {α β : Type} (f : α → List β) (m : Nat) :
    ∀ (g : List α), (∀ r ∈ g, (f r).length = m) → (g.flatMap f).length = g.length * m
  | [], _ => by simp
  | r :: rs, h => by
    simp only [List.flatMap_cons, List.length_append, List.length_cons]
    rw [h r (by simp), length_flatMap_uniform f m rs (fun r' hr' => h r' (by simp [hr'])), Nat.add_mul]
    omega

end Nucs.Ex
