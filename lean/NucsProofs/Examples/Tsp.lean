import NucsProofs.Examples.Circuit
/-!
  C20 for `TSPProblem(cost_rows)` with an `n × n` cost matrix, `n ≥ 2`, whose off-diagonal costs are
  positive: a solution is a Hamiltonian circuit (successor list), followed by the cost of the leg
  leaving every vertex, followed by the total cost of the tour (the variable the example minimises).

  Why the hypothesis on the costs: the constructor gives the `i`-th leg cost the domain
  `[min of the POSITIVE entries of row i, max of row i]`, which would cut off a leg of cost `≤ 0`.
-/
namespace Nucs
open Ex

/-- the cost of the leg `i → j` -/
def legCost (costRows : List (List Int)) (i j : Nat) : Int := getI (costRows.getD i []) j

/-- a priced tour: `s = successors ++ leg costs ++ [total]` -/
structure ValidTSP (costRows : List (List Int)) (s : List Int) : Prop where
  len : s.length = 2 * costRows.length + 1
  tour : ValidCircuit costRows.length (s.take costRows.length)
  legs : ∀ i, i < costRows.length →
    getI s (costRows.length + i) = legCost costRows i (getI s i).toNat
  total : getI s (2 * costRows.length) =
    ((List.range costRows.length).map (fun i => getI s (costRows.length + i))).sum

namespace Ex

theorem inBox_append : ∀ (A B : Box) (σ : List Int),
    inBox σ (A ++ B) ↔ inBox (σ.take A.length) A ∧ inBox (σ.drop A.length) B
  | [], B, σ => by simp [inBox]
  | a :: A, B, [] => by simp [inBox]
  | a :: A, B, x :: σ => by
    simp only [List.cons_append, inBox, List.length_cons, List.take_succ_cons, List.drop_succ_cons,
      inBox_append A B σ, and_assoc]

theorem getI_drop (σ : List Int) (n i : Nat) : getI (σ.drop n) i = getI σ (n + i) := by
  simp [getI, List.getD_eq_getElem?_getD]

theorem inBox_map_range (τ : List Int) (n : Nat) (f : Nat → Dom) :
    inBox τ ((List.range n).map f) ↔ τ.length = n ∧ ∀ i, i < n → inDom (getI τ i) (f i) := by
  rw [inBox_iff]
  simp only [List.length_map, List.length_range]
  have : ∀ i, i < n → getDom ((List.range n).map f) i = f i := by
    intro i hi
    simp [getDom, List.getD_eq_getElem?_getD, hi]
  constructor
  · rintro ⟨hl, h⟩
    exact ⟨hl, fun i hi => by rw [← this i hi]; exact h i hi⟩
  · rintro ⟨hl, h⟩
    exact ⟨hl, fun i hi => by rw [this i hi]; exact h i hi⟩

theorem foldl_min_le : ∀ (l : List Int) (a : Int), l.foldl min a ≤ a ∧ ∀ x ∈ l, l.foldl min a ≤ x
  | [], a => by simp
  | y :: ys, a => by
    have ih := foldl_min_le ys (min a y)
    simp only [List.foldl_cons, List.mem_cons, forall_eq_or_imp]
    refine ⟨by omega, by omega, fun x hx => ih.2 x hx⟩

theorem le_foldl_max : ∀ (l : List Int) (a : Int), a ≤ l.foldl max a ∧ ∀ x ∈ l, x ≤ l.foldl max a
  | [], a => by simp
  | y :: ys, a => by
    have ih := le_foldl_max ys (max a y)
    simp only [List.foldl_cons, List.mem_cons, forall_eq_or_imp]
    refine ⟨by omega, by omega, fun x hx => ih.2 x hx⟩

theorem minI_le {l : List Int} {x : Int} (h : x ∈ l) : minI l ≤ x := by
  cases l with
  | nil => simp at h
  | cons y ys =>
    have := foldl_min_le ys y
    simp only [minI]
    rcases List.mem_cons.1 h with rfl | h'
    · exact this.1
    · exact this.2 x h'

theorem le_maxI {l : List Int} {x : Int} (h : x ∈ l) : x ≤ maxI l := by
  cases l with
  | nil => simp at h
  | cons y ys =>
    have := le_foldl_max ys y
    simp only [maxI]
    rcases List.mem_cons.1 h with rfl | h'
    · exact this.1
    · exact this.2 x h'

theorem sum_map_le {α : Type} (f g : α → Int) : ∀ (L : List α), (∀ i ∈ L, f i ≤ g i) →
    (L.map f).sum ≤ (L.map g).sum
  | [], _ => by simp
  | x :: xs, h => by
    have := sum_map_le f g xs (fun i hi => h i (by simp [hi]))
    have := h x (by simp)
    simp only [List.map_cons, List.sum_cons]
    omega

theorem idVars_add (a b : Nat) : idVars (a + b) = idVars a ++ (List.range b).map (fun (i : Nat) => (a + i, (0 : Int))) := by
  simp [idVars, List.range_add, List.map_append, List.map_map, Function.comp_def]

/-- the cost part of the posted model -/
def tspCostProps (costRows : List (List Int)) (n : Nat) : List RawC :=
  (List.range n).map (fun (i : Nat) => (⟨[i, n + i], .elementIv, costRows.getD i []⟩ : RawC)) ++
   [ ⟨rangeAB n (n + n + 1), .affineEq, List.replicate n 1 ++ [-1, 0]⟩ ]

def tspCostDomains (costRows : List (List Int)) (n : Nat) : Box :=
  (List.range n).map (fun (i : Nat) =>
    ((costRows.map (fun (row : List Int) => minI (row.filter (fun (c : Int) => c > 0)))).getD i 0,
     (costRows.map maxI).getD i 0))

theorem tsp_eq (costRows : List (List Int)) (hn : 2 ≤ costRows.length) :
    tspProblem costRows =
      mkProblem
        (circuitDomains costRows.length ++ tspCostDomains costRows costRows.length ++
          [(sumI (costRows.map (fun (row : List Int) => minI (row.filter (fun (c : Int) => c > 0)))),
            sumI (costRows.map maxI))])
        (idVars (costRows.length + costRows.length + 1))
        (circuitProps costRows.length ++ tspCostProps costRows costRows.length) := by
  have hlen : (circuitDomains costRows.length).length = costRows.length := by
    simp [circuitDomains]; omega
  simp only [tspProblem, hlen, tspCostProps, tspCostDomains, List.append_assoc]
  congr 1
  rw [idVars_add, idVars_add]
  simp [List.range_one]

/-- the root box of the TSP model: the circuit's box, one domain per leg cost, the total -/
theorem tsp_box (n : Nat) (A : Box) (hA : A.length = n) (f : Nat → Dom) (d : Dom) (σ : List Int) :
    inBox σ (A ++ (List.range n).map f ++ [d]) ↔
      σ.length = n + n + 1 ∧ inBox (σ.take n) A ∧ (∀ i, i < n → inDom (getI σ (n + i)) (f i)) ∧
        inDom (getI σ (n + n)) d := by
  have g1 : ∀ i, i < n → getDom (A ++ (List.range n).map f ++ [d]) i = getDom A i := by
    intro i hi
    rw [List.append_assoc, getDom_append_left (by omega)]
  have g2 : ∀ i, i < n → getDom (A ++ (List.range n).map f ++ [d]) (n + i) = f i := by
    intro i hi
    rw [getDom_append_left (by simp; omega)]
    simp [getDom, List.getD_eq_getElem?_getD, hA, hi]
  have g3 : getDom (A ++ (List.range n).map f ++ [d]) (n + n) = d := by
    have := getDom_append_length (A ++ (List.range n).map f) d
    simp only [List.length_append, List.length_map, List.length_range, hA] at this
    exact this
  rw [inBox_iff, inBox_iff]
  simp only [List.length_append, List.length_map, List.length_range, List.length_cons, List.length_nil,
    hA, List.length_take]
  constructor
  · rintro ⟨hl, h⟩
    refine ⟨hl, ⟨by omega, fun i hi => ?_⟩, fun i hi => ?_, ?_⟩
    · rw [getI_take hi, ← g1 i hi]; exact h i (by omega)
    · rw [← g2 i hi]; exact h (n + i) (by omega)
    · rw [← g3]; exact h (n + n) (by omega)
  · rintro ⟨hl, ⟨_, h1⟩, h2, h3⟩
    refine ⟨hl, fun i hi => ?_⟩
    rcases Nat.lt_or_ge i n with hlt | hge
    · rw [g1 i hlt, ← getI_take hlt]; exact h1 i hlt
    · rcases Nat.lt_or_ge i (n + n) with hlt2 | hge2
      · obtain ⟨j, rfl⟩ : ∃ j, i = n + j := ⟨i - n, by omega⟩
        rw [g2 j (by omega)]; exact h2 j (by omega)
      · have : i = n + n := by omega
        subst this
        rw [g3]; exact h3

theorem getD_map0 {α : Type} (g : α → Int) (d : α) (hd : g d = 0) (l : List α) (i : Nat) :
    (l.map g).getD i 0 = g (l.getD i d) := by
  simp only [List.getD_eq_getElem?_getD, List.getElem?_map]
  cases l[i]? <;> simp [hd]

end Ex

/-- C20 (TSP): for an `n × n` cost matrix (`n ≥ 2`) with positive off-diagonal costs, the posted model
    accepts exactly the priced Hamiltonian circuits -/
theorem C20_tsp (costRows : List (List Int)) (hn : 2 ≤ costRows.length)
    (hsq : ∀ row ∈ costRows, row.length = costRows.length)
    (hpos : ∀ i j, i < costRows.length → j < costRows.length → i ≠ j → 0 < legCost costRows i j)
    (σ : List Int) :
    Sol (tspProblem costRows) σ ↔ ValidTSP costRows σ := by
  rw [tsp_eq costRows hn]
  have hV : ValidTSP costRows σ ↔ (σ.length = costRows.length + costRows.length + 1 ∧
      ValidCircuit costRows.length (σ.take costRows.length) ∧
      (∀ i, i < costRows.length → getI σ (costRows.length + i) = legCost costRows i (getI σ i).toNat) ∧
      getI σ (costRows.length + costRows.length) =
        ((List.range costRows.length).map (fun i => getI σ (costRows.length + i))).sum) := by
    have e : 2 * costRows.length = costRows.length + costRows.length := by omega
    constructor
    · intro h
      exact ⟨by rw [← e]; exact h.len, h.tour, h.legs, by rw [← e]; exact h.total⟩
    · rintro ⟨a, b, c, d⟩
      exact ⟨by rw [e]; exact a, b, c, by rw [e]; exact d⟩
  rw [hV]
  clear hV
  have hlen0 : costRows.length = costRows.length := rfl
  generalize hlen : costRows.length = n at hn hsq hpos ⊢
  clear hlen0
  have hcl : (circuitDomains n).length = n := by simp [circuitDomains]; omega
  rw [sol_mk, tspCostDomains, tsp_box n _ hcl, List.forall_mem_append]
  -- the rows of the matrix
  have hrowlen : ∀ i, i < n → (costRows.getD i []).length = n := by
    intro i hi
    have hi' : i < costRows.length := by omega
    have : costRows.getD i [] = costRows[i] := by simp [List.getD_eq_getElem?_getD, hi']
    rw [this, hsq _ (List.getElem_mem hi')]
  -- the circuit part: constraints on `σ.take n`
  have hcirc : σ.length = n + n + 1 →
      ((∀ c ∈ circuitProps n, rel c.alg c.params (vals (idVars (n + n + 1)) σ c.vars)) ↔
        (σ.take n).Nodup ∧ NoShortCycle (σ.take n)) := by
    intro hl
    have e : vals (idVars (n + n + 1)) σ (List.range n) = σ.take n := by
      rw [vals_id _ _ (fun v hv => by have := List.mem_range.1 hv; omega)]
      exact map_getI_range_take (by omega)
    simp only [circuitProps, List.mem_cons, List.not_mem_nil, or_false, forall_eq_or_imp, forall_eq, rel, e]
  -- the cost part
  have hcost : σ.length = n + n + 1 → (∀ i, i < n → 0 ≤ getI σ i ∧ getI σ i < n) →
      ((∀ c ∈ tspCostProps costRows n, rel c.alg c.params (vals (idVars (n + n + 1)) σ c.vars)) ↔
        (∀ i, i < n → getI σ (n + i) = legCost costRows i (getI σ i).toNat) ∧
        getI σ (n + n) = ((List.range n).map (fun i => getI σ (n + i))).sum) := by
    intro hl hr
    have helem : ∀ i, i < n → (rel .elementIv (costRows.getD i []) (vals (idVars (n + n + 1)) σ [i, n + i]) ↔
        getI σ (n + i) = legCost costRows i (getI σ i).toNat) := by
      intro i hi
      rw [vals_id _ _ (fun v hv => by
        simp only [List.mem_cons, List.not_mem_nil, or_false] at hv
        rcases hv with rfl | rfl <;> omega)]
      have hj : (getI σ i).toNat < (costRows.getD i []).length := by
        rw [hrowlen i hi]; have := hr i hi; omega
      have h0 := (hr i hi).1
      show 0 ≤ getI σ i ∧ (costRows.getD i [])[(getI σ i).toNat]? = some (getI σ (n + i)) ↔ _
      rw [List.getElem?_eq_getElem hj]
      unfold legCost
      rw [getI_eq_getElem hj]
      constructor
      · rintro ⟨_, h⟩
        exact (Option.some.inj h).symm
      · intro h
        exact ⟨h0, by rw [h]⟩
    have hsum : rel .affineEq (List.replicate n 1 ++ [-1, 0])
        (vals (idVars (n + n + 1)) σ (rangeAB n (n + n + 1))) ↔
        getI σ (n + n) = ((List.range n).map (fun i => getI σ (n + i))).sum := by
      have e2 : vals (idVars (n + n + 1)) σ (rangeAB n (n + n + 1)) =
          (List.range n).map (fun k => getI σ (n + k)) ++ [getI σ (n + n)] := by
        have e1 : n + n + 1 - n = n + 1 := by omega
        rw [rangeAB_eq, e1, vals_id _ _ (fun v hv => by
          simp only [List.mem_map, List.mem_range] at hv
          obtain ⟨k, hk, rfl⟩ := hv
          omega), List.map_map, List.range_succ, List.map_append]
        rfl
      have hdl : (List.replicate n (1 : Int) ++ [-1, 0]).dropLast = List.replicate n 1 ++ [-1] := by
        rw [show List.replicate n (1 : Int) ++ [-1, 0] = (List.replicate n 1 ++ [-1]) ++ [(0 : Int)] by simp,
          List.dropLast_concat]
      have hgl : (List.replicate n (1 : Int) ++ [-1, 0]).getLastD 0 = 0 := by
        rw [show List.replicate n (1 : Int) ++ [-1, 0] = (List.replicate n 1 ++ [-1]) ++ [(0 : Int)] by simp,
          List.getLastD_concat]
      simp only [rel, hdl, hgl, e2]
      rw [dot_append _ _ _ _ (by simp)]
      have := dot_ones_sum ((List.range n).map (fun k => getI σ (n + k)))
      simp only [List.length_map, List.length_range] at this
      rw [this]
      simp only [dot]
      constructor <;> intro h <;> omega
    simp only [tspCostProps, List.forall_mem_append, List.mem_map, List.mem_range, List.mem_cons,
      List.not_mem_nil, or_false, forall_eq]
    rw [hsum]
    constructor
    · rintro ⟨h1, h2⟩
      exact ⟨fun i hi => (helem i hi).1 (h1 _ ⟨i, hi, rfl⟩), h2⟩
    · rintro ⟨h1, h2⟩
      refine ⟨?_, h2⟩
      rintro c ⟨i, hi, rfl⟩
      exact (helem i hi).2 (h1 i hi)
  constructor
  · rintro ⟨⟨hl, hbc, _, _⟩, hc, hk⟩
    have hsolc : Sol (circuitProblem n) (σ.take n) :=
      (circuit_sol_iff n hn _).2 ⟨hbc, ((hcirc hl).1 hc).1, ((hcirc hl).1 hc).2⟩
    have hvc := (C20_circuit n hn _).1 hsolc
    have hr : ∀ i, i < n → 0 ≤ getI σ i ∧ getI σ i < n := fun i hi => by
      have := hvc.vertex i hi
      rw [getI_take hi] at this
      omega
    exact ⟨hl, hvc, (hcost hl hr).1 hk⟩
  · rintro ⟨hl, hvc, hlegs, htot⟩
    have hr : ∀ i, i < n → 0 ≤ getI σ i ∧ getI σ i < n := fun i hi => by
      have := hvc.vertex i hi
      rw [getI_take hi] at this
      omega
    have hsolc := (circuit_sol_iff n hn _).1 ((C20_circuit n hn _).2 hvc)
    have htl : (σ.take n).length = n := by simp; omega
    -- every leg goes to another vertex, so it has a positive cost listed in its row
    have hleg : ∀ i, i < n →
        minI ((costRows.getD i []).filter (fun c => c > 0)) ≤ getI σ (n + i) ∧
        getI σ (n + i) ≤ maxI (costRows.getD i []) := by
      intro i hi
      have hne := noloop_of_nsc hsolc.2.2 (by omega) i (by omega)
      rw [getI_take hi] at hne
      have hj : (getI σ i).toNat < n := by have := hr i hi; omega
      have hji : i ≠ (getI σ i).toNat := by have := hr i hi; omega
      have hp := hpos i (getI σ i).toNat hi hj hji
      have hjl : (getI σ i).toNat < (costRows.getD i []).length := by rw [hrowlen i hi]; exact hj
      have hmem : legCost costRows i (getI σ i).toNat ∈ costRows.getD i [] := by
        unfold legCost
        rw [getI_eq_getElem hjl]
        exact List.getElem_mem hjl
      rw [hlegs i hi]
      exact ⟨minI_le (List.mem_filter.2 ⟨hmem, by simpa using hp⟩), le_maxI hmem⟩
    have hmn : ∀ i, (costRows.map (fun (row : List Int) => minI (row.filter (fun (c : Int) => c > 0)))).getD i 0 =
        minI ((costRows.getD i []).filter (fun c => c > 0)) :=
      fun i => getD_map0 _ [] rfl costRows i
    have hmx : ∀ i, (costRows.map maxI).getD i 0 = maxI (costRows.getD i []) :=
      fun i => getD_map0 _ [] rfl costRows i
    have hsumeq : ∀ (l : List Int), l.length = n → sumI l = ((List.range n).map (fun i => l.getD i 0)).sum := by
      intro l hl'
      rw [sumI_eq_sum]
      conv => lhs; rw [← map_getI_range l, hl']
      rfl
    refine ⟨⟨hl, hsolc.1, fun i hi => ?_, ?_⟩, (hcirc hl).2 ⟨hsolc.2.1, hsolc.2.2⟩,
      (hcost hl hr).2 ⟨hlegs, htot⟩⟩
    · simp only [inDom, hmn, hmx]
      exact hleg i hi
    · simp only [inDom]
      rw [hsumeq _ (by simp [hlen]), hsumeq _ (by simp [hlen]), htot]
      constructor
      · apply sum_map_le
        intro i hi
        rw [hmn]; exact (hleg i (List.mem_range.1 hi)).1
      · apply sum_map_le
        intro i hi
        rw [hmx]; exact (hleg i (List.mem_range.1 hi)).2

/-- non-vacuity: the tour 0 → 1 → 2 → 0 with its leg costs 2, 6, 7 and total 15 -/
example : Sol (tspProblem [[0, 2, 3], [4, 0, 6], [7, 8, 0]]) [1, 2, 0, 2, 6, 7, 15] := by
  have hpos : ∀ i, i < 3 → ∀ j, j < 3 → i ≠ j → 0 < legCost [[0, 2, 3], [4, 0, 6], [7, 8, 0]] i j := by decide
  rw [C20_tsp [[0, 2, 3], [4, 0, 6], [7, 8, 0]] (by decide) (by decide) (fun i j hi hj => hpos i hi j hj)]
  refine ⟨rfl, ⟨rfl, by decide, ?_, ?_⟩, by decide, by decide⟩
  · have : ∀ j, j < 3 → ∀ i, i < j → getI [1, 2, 0] i ≠ getI [1, 2, 0] j := by decide
    exact fun i j hij hj => this j hj i hij
  · have : ∀ v, v < 3 → ∃ k, k < 3 ∧ walk [1, 2, 0] 0 k = v := by decide
    exact fun v hv => by obtain ⟨k, _, hk⟩ := this v hv; exact ⟨k, hk⟩

/-- a wrong total is rejected -/
example : ¬ Sol (tspProblem [[0, 2, 3], [4, 0, 6], [7, 8, 0]]) [1, 2, 0, 2, 6, 7, 14] := by
  have hpos : ∀ i, i < 3 → ∀ j, j < 3 → i ≠ j → 0 < legCost [[0, 2, 3], [4, 0, 6], [7, 8, 0]] i j := by decide
  rw [C20_tsp [[0, 2, 3], [4, 0, 6], [7, 8, 0]] (by decide) (by decide) (fun i j hi hj => hpos i hi j hj)]
  intro h
  exact absurd h.total (by decide)

end Nucs
