import NucsProofs.Examples.Common
/-!
  C20 for `AlphaProblem()`: the solutions of the posted model are exactly the assignments of the
  numbers 1 … 26 to the letters A … Z, all different, under which every word of the puzzle has the
  stated total.  (The model folds a repeated letter into one variable with coefficient 2; the
  definition below spells the words letter by letter.)
-/
namespace Nucs
open Ex

namespace Alpha
def A := 0
def B := 1
def C := 2
def D := 3
def E := 4
def F := 5
def G := 6
def H := 7
def I := 8
def J := 9
def K := 10
def L := 11
def M := 12
def N := 13
def O := 14
def P := 15
def Q := 16
def R := 17
def S := 18
def T := 19
def U := 20
def V := 21
def W := 22
def X := 23
def Y := 24
def Z := 25

/-- the total of a word: the sum of the values of its letters -/
def wordSum (s : List Int) (word : List Nat) : Int := (word.map (getI s)).sum

/-- the words of the puzzle with their totals -/
def words : List (List Nat × Int) :=
  [ ([B, A, L, L, E, T], 45), ([C, E, L, L, O], 43), ([C, O, N, C, E, R, T], 74), ([F, L, U, T, E], 30),
    ([F, U, G, U, E], 50), ([G, L, E, E], 66), ([J, A, Z, Z], 58), ([L, Y, R, E], 47), ([O, B, O, E], 53),
    ([O, P, E, R, A], 65), ([P, O, L, K, A], 59), ([Q, U, A, R, T, E, T], 50),
    ([S, A, X, O, P, H, O, N, E], 134), ([S, C, A, L, E], 51), ([S, O, L, O], 37), ([S, O, N, G], 61),
    ([S, O, P, R, A, N, O], 82), ([T, H, E, M, E], 72), ([V, I, O, L, I, N], 100), ([W, A, L, T, Z], 34) ]
end Alpha

/-- a solution of the puzzle -/
structure ValidAlpha (s : List Int) : Prop where
  len : s.length = 26
  value : ∀ i, i < 26 → 1 ≤ getI s i ∧ getI s i ≤ 26
  distinct : ∀ i j, i < j → j < 26 → getI s i ≠ getI s j
  totals : ∀ w ∈ Alpha.words, Alpha.wordSum s w.1 = w.2

namespace Ex
/-- `vals_id` with a decidable side condition -/
theorem vals_id' {n : Nat} (σ : List Int) (vs : List Nat) (h : vs.all (fun v => decide (v < n)) = true) :
    vals (idVars n) σ vs = vs.map (getI σ) :=
  vals_id σ vs (fun v hv => by simpa using List.all_eq_true.1 h v hv)
end Ex

/-- C20 (alpha): the posted model accepts exactly the solutions of the puzzle -/
theorem C20_alpha (σ : List Int) : Sol alphaProblem σ ↔ ValidAlpha σ := by
  simp only [alphaProblem]
  rw [sol_mk, inBox_replicate]
  simp only [List.mem_cons, List.not_mem_nil, or_false, forall_eq_or_imp, forall_eq, rel, inDom]
  have hall : σ.length = 26 →
      [0, 1, 2, 3, 4, 5, 6, 7, 8, 9, 10, 11, 12, 13, 14, 15, 16, 17, 18, 19, 20, 21, 22, 23, 24, 25].map (getI σ) = σ := by
    intro hl
    have : ([0, 1, 2, 3, 4, 5, 6, 7, 8, 9, 10, 11, 12, 13, 14, 15, 16, 17, 18, 19, 20, 21, 22, 23, 24, 25] : List Nat) =
        List.range 26 := by decide
    rw [this, ← hl, map_getI_range]
  have hwords : (∀ w ∈ Alpha.words, Alpha.wordSum σ w.1 = w.2) ↔
      (Alpha.wordSum σ [1, 0, 11, 11, 4, 19] = 45 ∧ Alpha.wordSum σ [2, 4, 11, 11, 14] = 43 ∧
       Alpha.wordSum σ [2, 14, 13, 2, 4, 17, 19] = 74 ∧ Alpha.wordSum σ [5, 11, 20, 19, 4] = 30 ∧
       Alpha.wordSum σ [5, 20, 6, 20, 4] = 50 ∧ Alpha.wordSum σ [6, 11, 4, 4] = 66 ∧
       Alpha.wordSum σ [9, 0, 25, 25] = 58 ∧ Alpha.wordSum σ [11, 24, 17, 4] = 47 ∧
       Alpha.wordSum σ [14, 1, 14, 4] = 53 ∧ Alpha.wordSum σ [14, 15, 4, 17, 0] = 65 ∧
       Alpha.wordSum σ [15, 14, 11, 10, 0] = 59 ∧ Alpha.wordSum σ [16, 20, 0, 17, 19, 4, 19] = 50 ∧
       Alpha.wordSum σ [18, 0, 23, 14, 15, 7, 14, 13, 4] = 134 ∧ Alpha.wordSum σ [18, 2, 0, 11, 4] = 51 ∧
       Alpha.wordSum σ [18, 14, 11, 14] = 37 ∧ Alpha.wordSum σ [18, 14, 13, 6] = 61 ∧
       Alpha.wordSum σ [18, 14, 15, 17, 0, 13, 14] = 82 ∧ Alpha.wordSum σ [19, 7, 4, 12, 4] = 72 ∧
       Alpha.wordSum σ [21, 8, 14, 11, 8, 13] = 100 ∧ Alpha.wordSum σ [22, 0, 11, 19, 25] = 34) := by
    simp only [Alpha.words, List.mem_cons, List.not_mem_nil, or_false, forall_eq_or_imp, forall_eq,
      Alpha.A, Alpha.B, Alpha.C, Alpha.E, Alpha.F, Alpha.G, Alpha.H, Alpha.I, Alpha.J, Alpha.K,
      Alpha.L, Alpha.M, Alpha.N, Alpha.O, Alpha.P, Alpha.Q, Alpha.R, Alpha.S, Alpha.T, Alpha.U, Alpha.V,
      Alpha.W, Alpha.X, Alpha.Y, Alpha.Z]
  simp (disch := decide) only [vals_id', List.map_cons, List.map_nil, List.dropLast, List.getLastD, List.getLast,
    dot]
  constructor
  · rintro ⟨⟨hl, hb⟩, h⟩
    refine ⟨hl, hb, ?_, hwords.2 ?_⟩
    · have hn := h.2.2.2.2.2.2.2.2.2.2.2.2.2.2.2.2.2.2.2.2
      have e := hall hl
      simp only [List.map_cons, List.map_nil] at e
      rw [e] at hn
      have := (nodup_iff_getI σ).1 hn
      rw [hl] at this
      exact this
    · simp only [Alpha.wordSum, List.map_cons, List.map_nil, List.sum_cons, List.sum_nil]
      refine And.imp ?_ (And.imp ?_ (And.imp ?_ (And.imp ?_ (And.imp ?_ (And.imp ?_ (And.imp ?_ (And.imp ?_ (And.imp ?_ (And.imp ?_ (And.imp ?_ (And.imp ?_ (And.imp ?_ (And.imp ?_ (And.imp ?_ (And.imp ?_ (And.imp ?_ (And.imp ?_ (And.imp ?_ (?_))))))))))))))))))) h
      all_goals clear h
      all_goals intro h'
      all_goals first
        | omega
        | (have := h'.1; omega)
  · intro hv
    have h := hwords.1 hv.totals
    simp only [Alpha.wordSum, List.map_cons, List.map_nil, List.sum_cons, List.sum_nil] at h
    refine ⟨⟨hv.len, hv.value⟩, ?_⟩
    have e := hall hv.len
    simp only [List.map_cons, List.map_nil] at e
    rw [e]
    refine And.imp ?_ (And.imp ?_ (And.imp ?_ (And.imp ?_ (And.imp ?_ (And.imp ?_ (And.imp ?_ (And.imp ?_ (And.imp ?_ (And.imp ?_ (And.imp ?_ (And.imp ?_ (And.imp ?_ (And.imp ?_ (And.imp ?_ (And.imp ?_ (And.imp ?_ (And.imp ?_ (And.imp ?_ (?_))))))))))))))))))) h
    all_goals clear h
    all_goals intro h'
    all_goals first
      | omega
      | exact ⟨by omega, by rw [nodup_iff_getI, hv.len]; exact hv.distinct⟩

/-- non-vacuity: the solution of the puzzle (A=5, B=13, C=9, …) is accepted by the model -/
example : Sol alphaProblem [5, 13, 9, 16, 20, 4, 24, 21, 25, 17, 23, 2, 8, 12, 10, 19, 7, 11, 15, 3, 1, 26, 6, 22, 14, 18] := by
  rw [C20_alpha]
  have hd : ∀ j, j < 26 → ∀ i, i < j →
      getI [5, 13, 9, 16, 20, 4, 24, 21, 25, 17, 23, 2, 8, 12, 10, 19, 7, 11, 15, 3, 1, 26, 6, 22, 14, 18] i ≠
      getI [5, 13, 9, 16, 20, 4, 24, 21, 25, 17, 23, 2, 8, 12, 10, 19, 7, 11, 15, 3, 1, 26, 6, 22, 14, 18] j := by decide
  exact ⟨rfl, by decide, fun i j hij hj => hd j hj i hij, by decide⟩

example : ¬ Sol alphaProblem (List.replicate 26 1) := by
  rw [C20_alpha]
  intro h
  exact absurd (h.distinct 0 1 (by decide) (by decide)) (by decide)

end Nucs
