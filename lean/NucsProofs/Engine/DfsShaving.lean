import NucsProofs.Engine.Shaving
import NucsProofs.Engine.Optimum
/-!
  The exactly-once / optimality theorems for the SHAVING configuration (partial-correctness forms),
  and "shaving and bound consistency enumerate the same solutions".

  `Dfs.ConsKeeps` for shaving is `C10_keeps_Sol` (NucsProofs/Engine/Shaving.lean), `ConsOk` is
  `C10_consOk_shaving` (needs at least one shared domain).  Termination of the shaving pass
  (`Dfs.ConsTerm` for shaving: `shavingFuel` suffices) is proved in NucsProofs/Engine/ShavingTerm.lean, where the TOTAL
  forms (`C02_enumeration_shaving`, `C02_bc_vs_shaving`, `C03_optimum_shaving`) are derived from the `_partial` forms
  kept here.
-/
namespace Nucs

theorem Dfs.consKeeps_shaving {P : Problem} (hP : ProbOk P) (hW : WFP P) (cfg : Config) (hsh : cfg.cons = .shaving) :
    Dfs.ConsKeeps P cfg := by
  constructor
  intro s s' st hpre h σ hsol hσ
  have hcp : consPass P cfg s = shavingPass P cfg.decision s := by simp [consPass, hsh]
  rw [hcp] at h
  exact C10_keeps_Sol hP hW cfg.decision hpre h σ hsol hσ

/-- C02 for shaving (partial correctness): an exhaustive enumeration under the shaving consistency
    algorithm yields each solution exactly once.  Missing: that the call returns (termination of
    the shaving pass). -/
theorem C02_exactly_once_shaving_partial (P : Problem) (hP : ProbOk P) (hW : WFP P) (hne : P.shr.Nonempty)
    (hne' : P.shr ≠ []) (hg : NscGuarded P) (cfg : Config) (hsh : cfg.cons = .shaving) (hcost : CostOk cfg)
    (fuel1 fuel limit : Nat) (sols : List (List Int)) (s' : State)
    (h : solveAll P cfg fuel1 fuel limit (State.init P) [] = .ok (sols, s')) (hex : sols.length < limit) :
    ∃ L : List (List Int), sols = L.map (reported P) ∧ L.Nodup ∧ (∀ σ, σ ∈ L ↔ Sol P σ) ∧ (∀ σ, σ ∈ L ↔ SolW P σ) :=
  C02_exactly_once_guarded_partial P hP hne hg cfg (C10_consOk_shaving hP hW hne' cfg hsh)
    (Dfs.consKeeps_shaving hP hW cfg hsh) hcost fuel1 fuel limit sols s' h hex

/-- … and with `limit ≥ 2·|root box|` a shaving enumeration that returns was exhaustive -/
theorem C02_exactly_once_shaving_of_returns (P : Problem) (hP : ProbOk P) (hW : WFP P) (hne : P.shr.Nonempty)
    (hne' : P.shr ≠ []) (cfg : Config) (hsh : cfg.cons = .shaving) (hcost : CostOk cfg)
    (fuel1 fuel limit : Nat) (h3 : 2 * Dfs.bsize P.shr ≤ limit) (sols : List (List Int)) (s' : State)
    (h : solveAll P cfg fuel1 fuel limit (State.init P) [] = .ok (sols, s')) :
    ∃ L : List (List Int), sols = L.map (reported P) ∧ L.Nodup ∧ (∀ σ ∈ L, SolW P σ) ∧ (∀ σ, Sol P σ → σ ∈ L) :=
  C02_exactly_once_of_returns P hP hne cfg (C10_consOk_shaving hP hW hne' cfg hsh)
    (Dfs.consKeeps_shaving hP hW cfg hsh) hcost fuel1 fuel limit h3 sols s' h

/-- C02, consistency-algorithm independence (partial correctness): exhaustive enumerations with
    bound consistency and with shaving — any heuristics on either side — yield the same solutions
    with the same multiplicities -/
theorem C02_bc_vs_shaving_partial (P : Problem) (hP : ProbOk P) (hW : WFP P) (hne : P.shr.Nonempty)
    (hne' : P.shr ≠ []) (hg : NscGuarded P) (cfg cfg' : Config) (hbc : cfg.cons = .bc) (hsh : cfg'.cons = .shaving)
    (hcost : CostOk cfg) (hcost' : CostOk cfg')
    (fuel1 fuel limit fuel1' fuel' limit' : Nat) (sols sols' : List (List Int)) (s1 s1' : State)
    (h : solveAll P cfg fuel1 fuel limit (State.init P) [] = .ok (sols, s1)) (hex : sols.length < limit)
    (h' : solveAll P cfg' fuel1' fuel' limit' (State.init P) [] = .ok (sols', s1')) (hex' : sols'.length < limit') :
    sols.Perm sols' :=
  C02_strategy_independent_partial P P rfl rfl (fun _ => Iff.rfl) hP hP hne hg cfg cfg'
    (consOk_bc hP hW cfg hbc) (Dfs.consKeeps_bc hP hW cfg hbc) hcost
    (C10_consOk_shaving hP hW hne' cfg' hsh) (Dfs.consKeeps_shaving hP hW cfg' hsh) hcost'
    fuel1 fuel limit fuel1' fuel' limit' sols sols' s1 s1' h hex h' hex'

/-- C03 for shaving (partial correctness) -/
theorem C03_optimum_shaving_partial (P : Problem) (hP : ProbOk P) (hW : WFP P) (hne : P.shr.Nonempty)
    (hne' : P.shr ≠ []) (cfg : Config) (hsh : cfg.cons = .shaving) (hcost : CostOk cfg)
    (v : Nat) (hv : v < P.vars.length) (hdi : (P.vars.getD v (0, 0)).1 < P.shr.length) (minimize : Bool)
    (fuel1 fuel : Nat) (r : Option (List Int)) (s' : State)
    (h : optimize P cfg v minimize fuel1 fuel (State.init P) none = .ok (r, s')) :
    (∀ x, r = some x → (∃ σ, SolW P σ ∧ x = reported P σ) ∧
      ∀ τ, Sol P τ → Dfs.better minimize (getI x v) (getI (reported P τ) v)) ∧
    (r = none → ¬ ∃ σ, Sol P σ) ∧ ((¬ ∃ σ, SolW P σ) → r = none) :=
  C03_optimum_partial P hP hne cfg (C10_consOk_shaving hP hW hne' cfg hsh) (Dfs.consKeeps_shaving hP hW cfg hsh)
    hcost v hv hdi minimize fuel1 fuel r s' h

/-- the shaving configuration on `c04Example` enumerates the same nine solutions -/
example : (solveAll c04Example { decision := [0, 1], cons := .shaving } 72 72 72 (State.init c04Example) []).map (·.1) =
    .ok [[0, 0], [0, 1], [0, 2], [0, 3], [0, 4], [1, 1], [1, 2], [1, 3], [2, 2]] := by rfl

end Nucs
