import NucsProofs.SpecEngine
/-!
  C15 — the part of "solving is deterministic and the problem object can be reused" that a theorem
  can carry.

  * `Problem.init` sorts `self.propagators` IN PLACE (stable `list.sort` by the complexity key) and
    every solver constructor calls it, so a second solver built on the same problem object sorts an
    already sorted list.  Here: the sort is idempotent (`C15_stableSort_idem`), hence `initProblem`
    on the re-used posting list gives the very same `Problem` (`C15_init_twice`); the sort is
    stable (`C15_stableSort_stable`), so constraints of equal complexity keep their posting order.
  * the registries (`register_propagator`, `register_var_heuristic`, `register_dom_heuristic`,
    `register_consistency_algorithm`) only ever `append` and return `len - 1`: `Rw.register`.
    Indices handed out earlier keep addressing the same entry after any later registrations.
  * the model's solver functions are functions (`C15_deterministic`): equal inputs, equal outputs,
    statistics included.  That the MODEL agrees with the implementation is established by
    differential testing, not here; what cannot be a theorem about the model (hash-seed or
    dictionary-order dependence, process scheduling) is covered by the C15 check.
-/
namespace Nucs

/-! ## 1. sorting again changes nothing -/

theorem Rw.mem_insertByKey {α : Type} (key : α → Int) (x z : α) :
    ∀ l : List α, z ∈ insertByKey key x l ↔ z = x ∨ z ∈ l
  | [] => by simp [insertByKey]
  | y :: ys => by
    unfold insertByKey
    split
    · simp
    · simp only [List.mem_cons, Rw.mem_insertByKey key x z ys]
      constructor
      · rintro (h | h | h)
        · exact Or.inr (Or.inl h)
        · exact Or.inl h
        · exact Or.inr (Or.inr h)
      · rintro (h | h | h)
        · exact Or.inr (Or.inl h)
        · exact Or.inl h
        · exact Or.inr (Or.inr h)

theorem Rw.mem_stableSort {α : Type} (key : α → Int) (z : α) :
    ∀ l : List α, z ∈ stableSort key l ↔ z ∈ l
  | [] => Iff.rfl
  | x :: xs => by
    show z ∈ insertByKey key x (stableSort key xs) ↔ _
    rw [Rw.mem_insertByKey, Rw.mem_stableSort key z xs, List.mem_cons]

theorem Rw.length_insertByKey {α : Type} (key : α → Int) (x : α) :
    ∀ l : List α, (insertByKey key x l).length = l.length + 1
  | [] => rfl
  | y :: ys => by
    unfold insertByKey
    split
    · rfl
    · simp [Rw.length_insertByKey key x ys]

theorem C15_stableSort_length {α : Type} (key : α → Int) :
    ∀ l : List α, (stableSort key l).length = l.length
  | [] => rfl
  | x :: xs => by
    show (insertByKey key x (stableSort key xs)).length = _
    rw [Rw.length_insertByKey, C15_stableSort_length key xs]; rfl

/-- ascending by key -/
def Rw.Sorted {α : Type} (key : α → Int) (l : List α) : Prop := l.Pairwise (fun a b => key a ≤ key b)

theorem Rw.insertByKey_sorted {α : Type} (key : α → Int) (x : α) :
    ∀ l : List α, Rw.Sorted key l → Rw.Sorted key (insertByKey key x l)
  | [], _ => by simp [insertByKey, Rw.Sorted]
  | y :: ys, h => by
    unfold Rw.Sorted at h ⊢
    rw [List.pairwise_cons] at h
    unfold insertByKey
    split
    · rename_i hxy
      refine List.pairwise_cons.mpr ⟨?_, List.pairwise_cons.mpr h⟩
      intro z hz
      rcases List.mem_cons.mp hz with rfl | hz
      · exact hxy
      · exact Int.le_trans hxy (h.1 z hz)
    · rename_i hxy
      refine List.pairwise_cons.mpr ⟨?_, Rw.insertByKey_sorted key x ys h.2⟩
      intro z hz
      rcases (Rw.mem_insertByKey key x z ys).mp hz with rfl | hz
      · omega
      · exact h.1 z hz

/-- the output of the sort is sorted -/
theorem C15_stableSort_sorted {α : Type} (key : α → Int) :
    ∀ l : List α, (stableSort key l).Pairwise (fun a b => key a ≤ key b)
  | [] => List.Pairwise.nil
  | x :: xs => Rw.insertByKey_sorted key x _ (C15_stableSort_sorted key xs)

theorem Rw.insertByKey_of_le {α : Type} (key : α → Int) (x : α) (l : List α)
    (h : ∀ y ∈ l, key x ≤ key y) : insertByKey key x l = x :: l := by
  cases l with
  | nil => rfl
  | cons y ys => simp [insertByKey, h y List.mem_cons_self]

/-- sorting a sorted list is the identity -/
theorem C15_stableSort_of_sorted {α : Type} (key : α → Int) :
    ∀ l : List α, l.Pairwise (fun a b => key a ≤ key b) → stableSort key l = l
  | [], _ => rfl
  | x :: xs, h => by
    rw [List.pairwise_cons] at h
    show insertByKey key x (stableSort key xs) = x :: xs
    rw [C15_stableSort_of_sorted key xs h.2]
    exact Rw.insertByKey_of_le key x xs h.1

/-- sorting again changes nothing -/
theorem C15_stableSort_idem {α : Type} (key : α → Int) (l : List α) :
    stableSort key (stableSort key l) = stableSort key l :=
  C15_stableSort_of_sorted key _ (C15_stableSort_sorted key l)

/-- `Problem.init` called again on the same problem object — whose `propagators` list the first
    call has sorted in place — produces exactly the same problem: same constraints, same order
    (so the same indices in the trigger matrix, the same `not_entailed` / `triggered` layouts) -/
theorem C15_init_twice (shr : Box) (vars : List (Nat × Int)) (raw : List (RawProp × Int)) :
    initProblem shr vars (stableSort (fun (rk : RawProp × Int) => rk.2) raw) = initProblem shr vars raw := by
  simp only [initProblem, C15_stableSort_idem]

/-- … and any number of times -/
theorem C15_init_many (shr : Box) (vars : List (Nat × Int)) (raw : List (RawProp × Int)) :
    ∀ n : Nat, initProblem shr vars (Nat.repeat (stableSort (fun (rk : RawProp × Int) => rk.2)) n raw) =
      initProblem shr vars raw
  | 0 => rfl
  | n + 1 => by
    show initProblem shr vars (stableSort _ (Nat.repeat _ n raw)) = _
    have ih := C15_init_many shr vars raw n
    simp only [initProblem] at ih ⊢
    have key : ∀ l : List (RawProp × Int),
        stableSort (fun (rk : RawProp × Int) => rk.2) (stableSort (fun (rk : RawProp × Int) => rk.2) l) =
          stableSort (fun (rk : RawProp × Int) => rk.2) l := C15_stableSort_idem _
    rw [key]; exact ih

/-! ## 2. stability -/

theorem Rw.filter_insertByKey {α : Type} (key : α → Int) (k : Int) (x : α) :
    ∀ l : List α, (insertByKey key x l).filter (fun a => decide (key a = k)) =
      (x :: l).filter (fun a => decide (key a = k))
  | [] => rfl
  | y :: ys => by
    unfold insertByKey
    split
    · rfl
    · rename_i hxy
      have ih := Rw.filter_insertByKey key k x ys
      simp only [List.filter_cons] at ih ⊢
      rw [ih]
      by_cases hy : key y = k
      · have hx : ¬ key x = k := by omega
        simp [hy, hx]
      · simp [hy]

/-- stability: for every key value, the constraints with that key come out in posting order -/
theorem C15_stableSort_stable {α : Type} (key : α → Int) (k : Int) :
    ∀ l : List α, (stableSort key l).filter (fun a => decide (key a = k)) =
      l.filter (fun a => decide (key a = k))
  | [] => rfl
  | x :: xs => by
    show (insertByKey key x (stableSort key xs)).filter _ = _
    rw [Rw.filter_insertByKey, List.filter_cons, List.filter_cons, C15_stableSort_stable key k xs]

/-- non-vacuity of 1 and 2: keys 2, 1, 2, 1 — the sort moves elements, keeps `a` before `c` and `b`
    before `d`, and a second sort is the identity -/
example :
    let l : List (String × Int) := [("a", 2), ("b", 1), ("c", 2), ("d", 1)]
    stableSort (·.2) l = [("b", 1), ("d", 1), ("a", 2), ("c", 2)] ∧
      stableSort (·.2) (stableSort (·.2) l) = stableSort (·.2) l := by
  intro l
  exact ⟨by decide, C15_stableSort_idem _ l⟩

/-! ## 3. append-only registries -/

/-- `LIST.append(x); return len(LIST) - 1` -/
def Rw.register {α : Type} (l : List α) (x : α) : List α × Nat := (l ++ [x], l.length)

/-- the returned index addresses the registered entry -/
theorem C15_register_index {α : Type} (l : List α) (x : α) :
    (Rw.register l x).1[(Rw.register l x).2]? = some x := by
  simp [Rw.register]

/-- every earlier index still addresses the same entry -/
theorem C15_register_stable {α : Type} (l : List α) (x : α) (i : Nat) (h : i < l.length) :
    (Rw.register l x).1[i]? = l[i]? := by
  simp [Rw.register, List.getElem?_append_left h]

/-- a sequence of registrations: the final registry and the indices returned, in order -/
def Rw.registerAll {α : Type} : List α → List α → List α × List Nat
  | l, [] => (l, [])
  | l, x :: xs =>
    let r := Rw.register l x
    let rest := Rw.registerAll r.1 xs
    (rest.1, r.2 :: rest.2)

theorem Rw.registerAll_fst {α : Type} : ∀ (l xs : List α), (Rw.registerAll l xs).1 = l ++ xs
  | l, [] => by simp [Rw.registerAll]
  | l, x :: xs => by simp [Rw.registerAll, Rw.registerAll_fst (l ++ [x]) xs, Rw.register]

theorem Rw.registerAll_snd {α : Type} : ∀ (l xs : List α),
    (Rw.registerAll l xs).2 = List.range' l.length xs.length
  | l, [] => by simp [Rw.registerAll]
  | l, x :: xs => by
    simp [Rw.registerAll, Rw.registerAll_snd (l ++ [x]) xs, Rw.register, List.range'_succ]

/-- registries are append-only: whatever is registered later (`xs`, e.g. the user's own
    propagators and heuristics, in any number), an index `i` obtained earlier addresses the same
    entry — so problems and solvers built earlier keep their meaning -/
theorem C15_registry_append_only {α : Type} (l xs : List α) (i : Nat) (h : i < l.length) :
    (Rw.registerAll l xs).1[i]? = l[i]? := by
  rw [Rw.registerAll_fst, List.getElem?_append_left h]

/-- and the `j`-th index returned addresses the `j`-th entry registered, in the FINAL registry -/
theorem C15_registry_indices {α : Type} (l xs : List α) (j : Nat) (h : j < xs.length) :
    ∃ i, (Rw.registerAll l xs).2[j]? = some i ∧ (Rw.registerAll l xs).1[i]? = xs[j]? := by
  refine ⟨l.length + j, ?_, ?_⟩
  · rw [Rw.registerAll_snd, List.getElem?_range' h]; simp
  · rw [Rw.registerAll_fst, List.getElem?_append_right (by omega)]
    simp

/-- the returned indices are pairwise distinct: no registration overwrites another -/
theorem C15_registry_nodup {α : Type} (l xs : List α) : (Rw.registerAll l xs).2.Nodup := by
  rw [Rw.registerAll_snd]; exact List.nodup_range'

/-- `register_propagator` keeps three parallel lists and returns the index into the third; as long
    as the lists have equal lengths (true initially: all empty) they still have, and the one index
    addresses the three functions of the new propagator -/
theorem C15_register_parallel {α β γ : Type} (ts : List α) (cs : List β) (ds : List γ)
    (h1 : ts.length = ds.length) (h2 : cs.length = ds.length) (t : α) (c : β) (d : γ) :
    let i := (Rw.register ds d).2
    (Rw.register ts t).1.length = (Rw.register ds d).1.length ∧
    (Rw.register cs c).1.length = (Rw.register ds d).1.length ∧
    (Rw.register ts t).1[i]? = some t ∧ (Rw.register cs c).1[i]? = some c ∧ (Rw.register ds d).1[i]? = some d := by
  intro i
  refine ⟨by simp [Rw.register, h1], by simp [Rw.register, h2], ?_, ?_, ?_⟩
  · show (ts ++ [t])[ds.length]? = some t
    rw [← h1]; simp
  · show (cs ++ [c])[ds.length]? = some c
    rw [← h2]; simp
  · show (ds ++ [d])[ds.length]? = some d
    simp

/-- non-vacuity of 3 -/
example : Rw.registerAll ["and", "affine_eq"] ["mine", "yours"] =
    (["and", "affine_eq", "mine", "yours"], [2, 3]) := by decide

/-! ## 4. the model's solver functions are functions -/

/-- Determinism remark.  `solveAll` (the `solve()` generator run to exhaustion or to a limit) and
    `optimize` are pure functions of the problem, the configuration, the fuel and the start state:
    equal inputs give equal outputs, and the output contains the list of solutions IN ORDER and
    the final state with its statistics vector.  (Trivial for the model by construction; the
    content of C15 is that the implementation has no other input — checked, not proved.) -/
theorem C15_deterministic (P P' : Problem) (cfg cfg' : Config) (fuel1 fuel limit : Nat) (s s' : State)
    (hP : P = P') (hc : cfg = cfg') (hs : s = s')
    (sols sols' : List (List Int)) (t t' : State)
    (h : solveAll P cfg fuel1 fuel limit s [] = .ok (sols, t))
    (h' : solveAll P' cfg' fuel1 fuel limit s' [] = .ok (sols', t')) :
    sols = sols' ∧ t = t' ∧ t.stats.toList = t'.stats.toList := by
  subst hP hc hs
  rw [h] at h'
  injection h' with h'
  injection h' with h1 h2
  exact ⟨h1, h2, by rw [h2]⟩

theorem C15_deterministic_opt (P P' : Problem) (cfg cfg' : Config) (v : Nat) (minimize : Bool)
    (fuel1 fuel : Nat) (s s' : State) (hP : P = P') (hc : cfg = cfg') (hs : s = s')
    (r r' : Option (List Int)) (t t' : State)
    (h : optimize P cfg v minimize fuel1 fuel s none = .ok (r, t))
    (h' : optimize P' cfg' v minimize fuel1 fuel s' none = .ok (r', t')) :
    r = r' ∧ t = t' ∧ t.stats.toList = t'.stats.toList := by
  subst hP hc hs
  rw [h] at h'
  injection h' with h'
  injection h' with h1 h2
  exact ⟨h1, h2, by rw [h2]⟩

/-- the two together: a second solver constructed on the same problem object (second `init` on the
    in-place-sorted posting list) enumerates exactly what the first one does — same solutions, same
    order, same statistics; errors included -/
theorem C15_reuse (shr : Box) (vars : List (Nat × Int)) (raw : List (RawProp × Int))
    (cfg : Config) (fuel1 fuel limit : Nat) :
    let P₁ := initProblem shr vars raw
    let P₂ := initProblem shr vars (stableSort (fun (rk : RawProp × Int) => rk.2) raw)
    solveAll P₂ cfg fuel1 fuel limit (State.init P₂) [] = solveAll P₁ cfg fuel1 fuel limit (State.init P₁) [] := by
  intro P₁ P₂
  have : P₂ = P₁ := C15_init_twice shr vars raw
  rw [this]

theorem C15_reuse_opt (shr : Box) (vars : List (Nat × Int)) (raw : List (RawProp × Int))
    (cfg : Config) (v : Nat) (minimize : Bool) (fuel1 fuel : Nat) :
    let P₁ := initProblem shr vars raw
    let P₂ := initProblem shr vars (stableSort (fun (rk : RawProp × Int) => rk.2) raw)
    optimize P₂ cfg v minimize fuel1 fuel (State.init P₂) none =
      optimize P₁ cfg v minimize fuel1 fuel (State.init P₁) none := by
  intro P₁ P₂
  have : P₂ = P₁ := C15_init_twice shr vars raw
  rw [this]

end Nucs
