import NucsProofs.Engine.Lists
/-!
  Branching decisions (value heuristics) and backtracking.

  `BranchOk l d b`: the levels of the branch `b` (the one taken and the saved alternatives) differ
  from `l` only in domain `d`; their sub-ranges are non-empty, pairwise disjoint and cover the old
  domain exactly; the events returned for the branch taken, and the events recorded for every
  alternative, contain every bound that moved (incl. "became a single value").
-/
namespace Nucs

/-- `e'` announces at least the events of `e` -/
def Ev.le (e e' : Ev) : Prop :=
  (e.min = true → e'.min = true) ∧ (e.max = true → e'.max = true) ∧ (e.ground = true → e'.ground = true)

/-- the levels of a branch, taken first -/
def Branch.levels (b : Branch) : List Level := b.taken :: b.alts

def disjointDoms (p q : Dom) : Prop := p.2 < q.1 ∨ q.2 < p.1

structure BranchOk (l : Level) (d : Nat) (b : Branch) : Prop where
  /-- only domain `d` differs, flags are copied -/
  others : ∀ lv ∈ b.levels, lv.doms = l.doms.set d (getDom lv.doms d) ∧ lv.ne = l.ne
  /-- every sub-range is non-empty -/
  nonempty : ∀ lv ∈ b.levels, (getDom lv.doms d).1 ≤ (getDom lv.doms d).2
  /-- the sub-ranges cover the old domain and nothing else -/
  cover : ∀ v, inDom v (getDom l.doms d) ↔ ∃ lv ∈ b.levels, inDom v (getDom lv.doms d)
  /-- pairwise disjoint -/
  disjoint : List.Pairwise (fun x y : Level => disjointDoms (getDom x.doms d) (getDom y.doms d)) b.levels
  /-- the returned events announce every bound the branch taken moved -/
  takenEv : Ev.le (evOf (getDom l.doms d) (getDom b.taken.doms d)) b.events
  /-- so do the events recorded for each alternative, on the right domain index -/
  altEv : ∀ lv ∈ b.alts, lv.updIdx = d ∧ Ev.le (evOf (getDom l.doms d) (getDom lv.doms d)) lv.updEv

theorem getDom_setDom (l : Level) (d : Nat) (v : Dom) (hd : d < l.doms.length) :
    getDom (l.setDom d v).doms d = v := by
  simp [Level.setDom, getDom_set, hd]

theorem set_getDom_setDom (l : Level) (d : Nat) (v : Dom) (hd : d < l.doms.length) :
    (l.setDom d v).doms = l.doms.set d (getDom (l.setDom d v).doms d) := by
  rw [getDom_setDom l d v hd]; rfl

theorem evMinOf_le (o n : Dom) (h2 : n.2 = o.2) : Ev.le (evOf o n) (evMinOf n) := by
  obtain ⟨o1, o2⟩ := o; obtain ⟨n1, n2⟩ := n
  simp only at h2; subst h2
  unfold evMinOf evOf Ev.le
  by_cases hg : n1 = n2 <;> simp [hg, Ev.minGround, Ev.minOnly]

theorem evMaxOf_le (o n : Dom) (h1 : n.1 = o.1) : Ev.le (evOf o n) (evMaxOf n) := by
  obtain ⟨o1, o2⟩ := o; obtain ⟨n1, n2⟩ := n
  simp only at h1; subst h1
  unfold evMaxOf evOf Ev.le
  by_cases hg : n1 = n2 <;> simp [hg, Ev.maxGround, Ev.maxOnly]

theorem Ev.le_all (e : Ev) : Ev.le e Ev.all := by simp [Ev.le, Ev.all]

/-- a two-way branch: take `t`, keep `a` -/
def mk2 (l : Level) (d : Nat) (t a : Dom) (aev ev : Ev) : Branch :=
  { taken := l.setDom d t, alts := [{ (l.setDom d a) with updIdx := d, updEv := aev }], events := ev }

/-- a three-way branch: take `t`, keep `a1` (tried first) and `a2` -/
def mk3 (l : Level) (d : Nat) (t a1 a2 : Dom) (aev1 aev2 ev : Ev) : Branch :=
  { taken := l.setDom d t,
    alts := [{ (l.setDom d a1) with updIdx := d, updEv := aev1 }, { (l.setDom d a2) with updIdx := d, updEv := aev2 }],
    events := ev }

theorem getDom_alt (l : Level) (d : Nat) (a : Dom) (aev : Ev) (hd : d < l.doms.length) :
    getDom ({ (l.setDom d a) with updIdx := d, updEv := aev } : Level).doms d = a := getDom_setDom l d a hd

theorem mk2_ok (l : Level) (d : Nat) (hd : d < l.doms.length) (t a : Dom) (aev ev : Ev)
    (ht : t.1 ≤ t.2) (ha : a.1 ≤ a.2)
    (hcov : ∀ v, inDom v (getDom l.doms d) ↔ inDom v t ∨ inDom v a) (hdis : disjointDoms t a)
    (hev : Ev.le (evOf (getDom l.doms d) t) ev) (haev : Ev.le (evOf (getDom l.doms d) a) aev) :
    BranchOk l d (mk2 l d t a aev ev) := by
  have e1 := getDom_setDom l d t hd
  have e2 := getDom_alt l d a aev hd
  refine ⟨?_, ?_, ?_, ?_, ?_, ?_⟩
  · intro lv hlv
    simp only [Branch.levels, mk2, List.mem_cons, List.mem_nil_iff, or_false] at hlv
    rcases hlv with rfl | rfl
    · exact ⟨set_getDom_setDom l d _ hd, rfl⟩
    · refine ⟨?_, rfl⟩
      rw [e2]; rfl
  · intro lv hlv
    simp only [Branch.levels, mk2, List.mem_cons, List.mem_nil_iff, or_false] at hlv
    rcases hlv with rfl | rfl
    · rw [e1]; exact ht
    · rw [e2]; exact ha
  · intro v
    simp only [Branch.levels, mk2, List.mem_cons, List.mem_nil_iff, or_false, exists_eq_or_imp, exists_eq_left]
    rw [e1, e2]; exact hcov v
  · simp only [Branch.levels, mk2, List.pairwise_cons, List.mem_cons, List.mem_nil_iff, or_false, forall_eq,
      List.Pairwise.nil, and_true, false_imp_iff, implies_true]
    rw [e1, e2]; exact hdis
  · simp only [mk2]; rw [e1]; exact hev
  · intro lv hlv
    simp only [mk2, List.mem_cons, List.mem_nil_iff, or_false] at hlv
    subst hlv
    refine ⟨rfl, ?_⟩
    rw [e2]; exact haev

theorem mk3_ok (l : Level) (d : Nat) (hd : d < l.doms.length) (t a1 a2 : Dom) (aev1 aev2 ev : Ev)
    (ht : t.1 ≤ t.2) (ha1 : a1.1 ≤ a1.2) (ha2 : a2.1 ≤ a2.2)
    (hcov : ∀ v, inDom v (getDom l.doms d) ↔ inDom v t ∨ inDom v a1 ∨ inDom v a2)
    (hd1 : disjointDoms t a1) (hd2 : disjointDoms t a2) (hd3 : disjointDoms a1 a2)
    (hev : Ev.le (evOf (getDom l.doms d) t) ev) (haev1 : Ev.le (evOf (getDom l.doms d) a1) aev1)
    (haev2 : Ev.le (evOf (getDom l.doms d) a2) aev2) :
    BranchOk l d (mk3 l d t a1 a2 aev1 aev2 ev) := by
  have e1 := getDom_setDom l d t hd
  have e2 := getDom_alt l d a1 aev1 hd
  have e3 := getDom_alt l d a2 aev2 hd
  refine ⟨?_, ?_, ?_, ?_, ?_, ?_⟩
  · intro lv hlv
    simp only [Branch.levels, mk3, List.mem_cons, List.mem_nil_iff, or_false] at hlv
    rcases hlv with rfl | rfl | rfl
    · exact ⟨set_getDom_setDom l d _ hd, rfl⟩
    · refine ⟨?_, rfl⟩; rw [e2]; rfl
    · refine ⟨?_, rfl⟩; rw [e3]; rfl
  · intro lv hlv
    simp only [Branch.levels, mk3, List.mem_cons, List.mem_nil_iff, or_false] at hlv
    rcases hlv with rfl | rfl | rfl
    · rw [e1]; exact ht
    · rw [e2]; exact ha1
    · rw [e3]; exact ha2
  · intro v
    simp only [Branch.levels, mk3, List.mem_cons, List.mem_nil_iff, or_false, exists_eq_or_imp, exists_eq_left]
    rw [e1, e2, e3]; exact hcov v
  · simp only [Branch.levels, mk3, List.pairwise_cons, List.mem_cons, List.mem_nil_iff, or_false, forall_eq_or_imp, forall_eq,
      List.Pairwise.nil, and_true, false_imp_iff, implies_true]
    rw [e1, e2, e3]; exact ⟨⟨hd1, hd2⟩, hd3⟩
  · simp only [mk3]; rw [e1]; exact hev
  · intro lv hlv
    simp only [mk3, List.mem_cons, List.mem_nil_iff, or_false] at hlv
    rcases hlv with rfl | rfl
    · refine ⟨rfl, ?_⟩; rw [e2]; exact haev1
    · refine ⟨rfl, ?_⟩; rw [e3]; exact haev2

theorem evOf_le_ground_max (a b : Int) (h : a < b) : Ev.le (evOf (a, b) (a, a)) Ev.maxGround := by
  simp [Ev.le, evOf, Ev.maxGround]
theorem evOf_le_ground_min (a b : Int) (h : a < b) : Ev.le (evOf (a, b) (b, b)) Ev.minGround := by
  simp [Ev.le, evOf, Ev.minGround]

/-- min_value: `{min}` and `[min+1, max]` -/
theorem minValue_ok (l : Level) (d : Nat) (hd : d < l.doms.length)
    (h : (getDom l.doms d).1 < (getDom l.doms d).2) : BranchOk l d (minValue l d) := by
  have e : minValue l d = mk2 l d ((getDom l.doms d).1, (getDom l.doms d).1) ((getDom l.doms d).1 + 1, (getDom l.doms d).2)
      (evMinOf ((getDom l.doms d).1 + 1, (getDom l.doms d).2)) Ev.maxGround := rfl
  rw [e]
  rcases hdom : getDom l.doms d with ⟨a, b⟩
  rw [hdom] at h
  simp only at h
  apply mk2_ok l d hd <;> simp only [hdom]
  · simp
  · omega
  · intro v; simp only [inDom]; omega
  · left; simp only; omega
  · exact evOf_le_ground_max a b h
  · exact evMinOf_le (a, b) (a + 1, b) rfl

/-- max_value: `{max}` and `[min, max-1]` -/
theorem maxValue_ok (l : Level) (d : Nat) (hd : d < l.doms.length)
    (h : (getDom l.doms d).1 < (getDom l.doms d).2) : BranchOk l d (maxValue l d) := by
  have e : maxValue l d = mk2 l d ((getDom l.doms d).2, (getDom l.doms d).2) ((getDom l.doms d).1, (getDom l.doms d).2 - 1)
      (evMaxOf ((getDom l.doms d).1, (getDom l.doms d).2 - 1)) Ev.minGround := rfl
  rw [e]
  rcases hdom : getDom l.doms d with ⟨a, b⟩
  rw [hdom] at h
  simp only at h
  apply mk2_ok l d hd <;> simp only [hdom]
  · simp
  · omega
  · intro v; simp only [inDom]; omega
  · right; simp only; omega
  · exact evOf_le_ground_min a b h
  · exact evMaxOf_le (a, b) (a, b - 1) rfl

/-- `a ≤ (a + b) // 2 < b` for `a < b` -/
theorem mid_bounds (a b : Int) (h : a < b) : a ≤ pyDiv (a + b) 2 ∧ pyDiv (a + b) 2 < b := by
  rw [pyDiv_pos _ _ (by decide)]; omega

/-- split_low: `[min, mid]` and `[mid+1, max]` -/
theorem splitLow_ok (l : Level) (d : Nat) (hd : d < l.doms.length)
    (h : (getDom l.doms d).1 < (getDom l.doms d).2) : BranchOk l d (splitLow l d) := by
  have e : splitLow l d = mk2 l d ((getDom l.doms d).1, pyDiv ((getDom l.doms d).1 + (getDom l.doms d).2) 2)
      (pyDiv ((getDom l.doms d).1 + (getDom l.doms d).2) 2 + 1, (getDom l.doms d).2)
      (evMinOf (pyDiv ((getDom l.doms d).1 + (getDom l.doms d).2) 2 + 1, (getDom l.doms d).2))
      (evMaxOf ((getDom l.doms d).1, pyDiv ((getDom l.doms d).1 + (getDom l.doms d).2) 2)) := rfl
  rw [e]
  rcases hdom : getDom l.doms d with ⟨a, b⟩
  rw [hdom] at h
  simp only at h
  have hm := mid_bounds a b h
  apply mk2_ok l d hd <;> simp only [hdom]
  · exact hm.1
  · omega
  · intro v; simp only [inDom]; omega
  · left; simp only; omega
  · exact evMaxOf_le (a, b) (a, pyDiv (a + b) 2) rfl
  · exact evMinOf_le (a, b) (pyDiv (a + b) 2 + 1, b) rfl

/-- value_dom: `{value}`, `[min, value-1]`, `[value+1, max]` for any `value` inside the domain -/
theorem valueSplit_ok (l : Level) (d : Nat) (hd : d < l.doms.length) (value : Int)
    (h : (getDom l.doms d).1 < (getDom l.doms d).2)
    (hv : (getDom l.doms d).1 ≤ value ∧ value ≤ (getDom l.doms d).2) : BranchOk l d (valueSplit l d value) := by
  simp only [valueSplit]
  split
  · exact minValue_ok l d hd h
  · split
    · exact maxValue_ok l d hd h
    · rename_i h1 h2
      change BranchOk l d (mk3 l d (value, value) ((getDom l.doms d).1, value - 1) (value + 1, (getDom l.doms d).2)
            (evMaxOf ((getDom l.doms d).1, value - 1)) (evMinOf (value + 1, (getDom l.doms d).2)) Ev.all)
      rcases hdom : getDom l.doms d with ⟨a, b⟩
      rw [hdom] at h h1 h2 hv
      simp only at h h1 h2 hv
      apply mk3_ok l d hd <;> simp only [hdom]
      · simp
      · omega
      · omega
      · intro v; simp only [inDom]; omega
      · right; simp only; omega
      · left; simp only; omega
      · left; simp only; omega
      · exact Ev.le_all _
      · exact evMaxOf_le (a, b) (a, value - 1) rfl
      · exact evMinOf_le (a, b) (value + 1, b) rfl

theorem midValue_ok (l : Level) (d : Nat) (hd : d < l.doms.length)
    (h : (getDom l.doms d).1 < (getDom l.doms d).2) : BranchOk l d (midValue l d) := by
  unfold midValue
  have hm := mid_bounds _ _ h
  exact valueSplit_ok l d hd _ h ⟨hm.1, by omega⟩

/-- the scan of min_cost returns the initial candidate or a value of the scanned range -/
theorem minCostScan_range (costs : List (List Int)) (d : Nat) :
    ∀ (k : Nat) (v : Int) (best : Option Int) (bestV r : Int),
      minCostScan costs d k v best bestV = some r → r = bestV ∨ (v ≤ r ∧ r < v + k)
  | 0, v, best, bestV, r, h => by simp [minCostScan] at h; exact Or.inl h.symm
  | k + 1, v, best, bestV, r, h => by
    simp only [minCostScan] at h
    split at h
    · cases h
    · split at h
      · rcases minCostScan_range costs d k (v + 1) _ _ r h with h' | h'
        · right; subst h'; omega
        · right; omega
      · rcases minCostScan_range costs d k (v + 1) _ _ r h with h' | h'
        · exact Or.inl h'
        · right; omega

/-- min_cost: in contract (the cost table gives the first value of the domain a strictly positive
    cost; the documented contract makes ALL in-domain costs strictly positive) the decision is a
    partition -/
theorem minCost_ok (costs : List (List Int)) (l : Level) (d : Nat) (hd : d < l.doms.length)
    (h : (getDom l.doms d).1 < (getDom l.doms d).2) (b : Branch) (hb : minCost costs l d = some b)
    (hpos : ∀ c, costAt costs d (getDom l.doms d).1 = some c → 0 < c) : BranchOk l d b := by
  unfold minCost at hb
  simp only at hb
  split at hb
  · cases hb
  · rename_i v hv
    injection hb with hb; subst hb
    apply valueSplit_ok l d hd v h
    rcases hdom : getDom l.doms d with ⟨a, b⟩
    rw [hdom] at h hv hpos
    simp only at h hv hpos ⊢
    obtain ⟨k, hk⟩ : ∃ k, (b + 1 - a).toNat = k + 1 := ⟨(b + 1 - a).toNat - 1, by omega⟩
    rw [hk] at hv
    simp only [minCostScan] at hv
    split at hv
    · cases hv
    · rename_i c hc
      have hc0 := hpos c hc
      have : (decide (0 < c) && ltOpt c none) = true := by simp [ltOpt, hc0]
      rw [if_pos this] at hv
      rcases minCostScan_range costs d k (a + 1) _ _ v hv with h' | h'
      · subst h'; omega
      · omega

end Nucs
