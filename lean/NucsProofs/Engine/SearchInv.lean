import NucsProofs.Engine.Sched
import NucsProofs.Engine.Branch
import NucsProofs.SpecEngine
/-!
  The search loop: invariants of the choice-point stack, and "every reported vector is a solution".

  * `AllFix P s`   : every enabled constraint is at a fixpoint on the current domains
  * `LevelOk P l`  : a saved alternative is ready to be resumed: every enabled constraint is woken by
                     the recorded events or at a fixpoint on the saved domains; disabled constraints
                     are satisfied by all tuples of their views
  * `Pre P s`      : `Inv` on top, `LevelOk` on every saved level  (holds before every pass)
  * `Post P s`     : what is left after a solution or a failure     (enough to backtrack)
-/
namespace Nucs

def AllFix (P : Problem) (s : State) : Prop :=
  ∀ q, q < P.props.length → getB s.top.ne q = true → Fix (P.prop q) s.top.doms

structure LevelOk (P : Problem) (l : Level) : Prop where
  lenN : l.ne.length = P.props.length
  sub : Box.le l.doms P.shr
  nonempty : l.doms.Nonempty
  fix : ∀ q, q < P.props.length → getB l.ne q = true →
    (trigMask (P.prop q) l.updIdx).meets l.updEv = true ∨ Fix (P.prop q) l.doms
  ent : ∀ q, q < P.props.length → getB l.ne q = false →
    ∀ t, inBox t (views l.doms (P.prop q).vars) → rel (P.prop q).alg (P.prop q).params t

def StackOk (P : Problem) (below : List Level) : Prop := ∀ l ∈ below, LevelOk P l

structure Pre (P : Problem) (s : State) : Prop where
  inv : Inv P s
  stack : StackOk P s.below

structure Post (P : Problem) (s : State) : Prop where
  lenT : s.trig.length = P.props.length
  stack : StackOk P s.below

theorem AllFix_of_pass {P : Problem} {s s' : State} {st : BcStatus} (r : PassOk P s s' st) (hst : st ≠ .inconsistent) :
    AllFix P s' := by
  intro q hq hen
  rcases (r.inv hst).fix q hq hen with h | h
  · rw [r.empty hst q] at h; cases h
  · exact h

/-- resuming a saved alternative re-establishes the invariant -/
theorem backtrack_pre {P : Problem} {s s' : State} (hpost : Post P s) (h : backtrack P s = some s') : Pre P s' := by
  unfold backtrack at h
  cases hb : s.below with
  | nil => rw [hb] at h; cases h
  | cons l rest =>
    rw [hb] at h
    injection h with h; subst h
    have hl : LevelOk P l := hpost.stack l (by rw [hb]; simp)
    refine ⟨⟨by simp [addProps_length, hpost.lenT], hl.lenN, hl.sub, hl.nonempty, ?_, hl.ent⟩,
      fun l' hl' => hpost.stack l' (by rw [hb]; simp [hl'])⟩
    intro q hq hen
    simp only at hen ⊢
    rcases hl.fix q hq hen with hm | hf
    · left
      rw [getB_addProps P s.trig l.ne l.updIdx l.updEv q (by rw [hpost.lenT]; exact hq) hq, hen, Problem.prop_eq_getElem!, hm]
      simp
    · exact Or.inr hf

/-- a level that differs from `l` only in domain `d`, by a sub-range `part` of the old domain -/
theorem fix_after_change {P : Problem} {D : Box} {d : Nat} {part : Dom} (q : Nat)
    (hfix : Fix (P.prop q) D) (hd : d < D.length)
    (hsub : (getDom D d).1 ≤ part.1 ∧ part.2 ≤ (getDom D d).2) (ev : Ev) (hev : Ev.le (evOf (getDom D d) part) ev)
    (hm : ¬ (trigMask (P.prop q) d).meets ev = true) : Fix (P.prop q) (D.set d part) := by
  apply Fix_mono hfix
  · apply Box.le_of_get (by simp)
    intro k _
    rw [getDom_set]
    split
    · rename_i h; obtain ⟨rfl, _⟩ := h; exact hsub
    · exact ⟨Int.le_refl _, Int.le_refl _⟩
  · intro d'
    rw [getDom_set]
    split
    · rename_i h; obtain ⟨rfl, _⟩ := h
      unfold quiet
      -- the mask does not meet the announced events, which contain the actual ones
      generalize trigMask (P.prop q) d = m at hm
      generalize evOf (getDom D d) part = e at hev
      obtain ⟨m1, m2, m3⟩ := m; obtain ⟨e1, e2, e3⟩ := e; obtain ⟨v1, v2, v3⟩ := ev
      simp only [Ev.le] at hev
      simp only [Ev.meets] at hm ⊢
      cases m1 <;> cases m2 <;> cases m3 <;> cases e1 <;> cases e2 <;> cases e3 <;> simp_all
    · exact quiet_refl _ _

theorem views_set_le {D : Box} {d : Nat} {part : Dom} (hsub : (getDom D d).1 ≤ part.1 ∧ part.2 ≤ (getDom D d).2) :
    Box.le (D.set d part) D := by
  apply Box.le_of_get (by simp)
  intro k _
  rw [getDom_set]
  split
  · rename_i h; obtain ⟨rfl, _⟩ := h; exact hsub
  · exact ⟨Int.le_refl _, Int.le_refl _⟩

/-- the sub-range of any level of a correct branch lies inside the old domain -/
theorem BranchOk.part_sub {l : Level} {d : Nat} {b : Branch} (hb : BranchOk l d b) (lv : Level) (hlv : lv ∈ b.levels) :
    (getDom l.doms d).1 ≤ (getDom lv.doms d).1 ∧ (getDom lv.doms d).2 ≤ (getDom l.doms d).2 := by
  have hne := hb.nonempty lv hlv
  have h1 := (hb.cover (getDom lv.doms d).1).mpr ⟨lv, hlv, ⟨Int.le_refl _, hne⟩⟩
  have h2 := (hb.cover (getDom lv.doms d).2).mpr ⟨lv, hlv, ⟨hne, Int.le_refl _⟩⟩
  exact ⟨h1.1, h2.2⟩

/-- a branching decision after a finished pass: the branch taken satisfies `Inv` (with the watchers
    of the returned events queued) and every saved alternative is `LevelOk` -/
theorem push_pre {P : Problem} {s : State} (hI : Inv P s) (hfix : AllFix P s) (hstack : StackOk P s.below)
    {d : Nat} (hd : d < s.top.doms.length) {b : Branch} (hb : BranchOk s.top d b) (stats : Stats) :
    Pre P { (s.push b) with trig := addProps P (s.push b).trig (s.push b).top.ne d b.events, stats := stats } := by
  have htaken := hb.others b.taken (by simp [Branch.levels])
  have hsubt := hb.part_sub b.taken (by simp [Branch.levels])
  refine ⟨⟨?_, ?_, ?_, ?_, ?_, ?_⟩, ?_⟩
  · simp [State.push, addProps_length, hI.lenT]
  · simp only [State.push]; rw [htaken.2]; exact hI.lenN
  · simp only [State.push]; rw [htaken.1]; exact Box.le_trans (views_set_le hsubt) hI.sub
  · simp only [State.push]; rw [htaken.1]
    apply Box.nonempty_of_get
    intro k _
    rw [getDom_set]
    split
    · exact hb.nonempty b.taken (by simp [Branch.levels])
    · exact Box.nonempty_getDom hI.nonempty k
  · intro q hq hen
    simp only [State.push] at hen ⊢
    rw [htaken.2] at hen
    by_cases hm : (trigMask (P.prop q) d).meets b.events = true
    · left
      rw [getB_addProps P s.trig b.taken.ne d b.events q (by rw [hI.lenT]; exact hq) hq, htaken.2, hen,
        Problem.prop_eq_getElem!, hm]
      simp
    · right
      rw [htaken.1]
      exact fix_after_change q (hfix q hq hen) hd hsubt b.events hb.takenEv hm
  · intro q hq hdis t ht
    simp only [State.push] at hdis ht
    rw [htaken.2] at hdis
    rw [htaken.1] at ht
    exact hI.ent q hq hdis t (inBox_of_le ht (views_le (views_set_le hsubt) _))
  · intro lv hlv
    simp only [State.push, List.mem_append] at hlv
    rcases hlv with hlv | hlv
    · have hlv' : lv ∈ b.levels := by simp [Branch.levels, hlv]
      have ho := hb.others lv hlv'
      have hsub := hb.part_sub lv hlv'
      have hae := hb.altEv lv hlv
      refine ⟨by rw [ho.2]; exact hI.lenN, by rw [ho.1]; exact Box.le_trans (views_set_le hsub) hI.sub, ?_, ?_, ?_⟩
      · rw [ho.1]
        apply Box.nonempty_of_get
        intro k _
        rw [getDom_set]
        split
        · exact hb.nonempty lv hlv'
        · exact Box.nonempty_getDom hI.nonempty k
      · intro q hq hen
        rw [ho.2] at hen
        rw [hae.1]
        by_cases hm : (trigMask (P.prop q) d).meets lv.updEv = true
        · exact Or.inl hm
        · right
          rw [ho.1]
          exact fix_after_change q (hfix q hq hen) hd hsub lv.updEv hae.2 hm
      · intro q hq hdis t ht
        rw [ho.2] at hdis
        rw [ho.1] at ht
        exact hI.ent q hq hdis t (inBox_of_le ht (views_le (views_set_le hsub) _))
    · exact hstack lv hlv

end Nucs
