import NucsProofs.Engine.SearchSound
/-!
  The choice-point stack never grows beyond the configured height: every push is guarded, and a
  search that would need more room stops with `stackOverflow` (the guard of `solve_one`) instead
  of writing beyond the arrays.  Also: the indices the search hands to the heuristics are in range.
-/
namespace Nucs

theorem runDomHeur_alts_le (h : DomHeur) (costs : List (List Int)) (l : Level) (d : Nat) (b : Branch)
    (hb : runDomHeur h costs l d = some b) : b.alts.length ≤ 2 := by
  have hv : ∀ v, (valueSplit l d v).alts.length ≤ 2 := by
    intro v; simp only [valueSplit]; split
    · simp [minValue]
    · split <;> simp [maxValue]
  cases h <;> simp only [runDomHeur] at hb
  · injection hb with hb; subst hb; simp [minValue]
  · injection hb with hb; subst hb; simp [maxValue]
  · injection hb with hb; subst hb; simp [splitLow]
  · injection hb with hb; subst hb; exact hv _
  · simp only [minCost] at hb
    split at hb
    · cases hb
    · injection hb with hb; subst hb; exact hv _

theorem bcLoopG_below' (pick : Picker) (P : Problem) :
    ∀ (fuel : Nat) (prev : Option Nat) (s : State) (st : BcStatus) (s' : State),
      bcLoopG pick P fuel prev s = .ok (st, s') → s'.below = s.below
  | 0, _, _, _, _, h => by simp [bcLoopG] at h
  | fuel + 1, prev, s, st, s', h => by
    simp only [bcLoopG] at h
    split at h
    · injection h with h; injection h with _ h2; subst h2; rfl
    · split at h
      · cases h
      · cases h
      · injection h with h; injection h with _ h2; subst h2; rfl
      · split at h
        · injection h with h; injection h with _ h2; subst h2; rfl
        · have := bcLoopG_below' pick P fuel _ _ st s' h
          rw [this]; rfl

theorem backtrack_below_le (P : Problem) (s s' : State) (h : backtrack P s = some s') :
    s'.below.length + 1 = s.below.length := by
  unfold backtrack at h
  cases hb : s.below with
  | nil => rw [hb] at h; cases h
  | cons l rest => rw [hb] at h; injection h with h; subst h; simp

/-- with plain bound consistency the stack height never exceeds `cfg.height`; when a decision
    would not fit, the search answers `stackOverflow` -/
theorem solveOne_height (P : Problem) (cfg : Config) (hbc : cfg.cons = .bc) :
    ∀ (fuel : Nat) (s : State) (r : Option (List Int)) (s' : State),
      s.below.length + 1 ≤ cfg.height →
      solveOne P cfg fuel s = .ok (r, s') → s'.below.length + 1 ≤ cfg.height
  | 0, _, _, _, _, h => by simp [solveOne] at h
  | fuel + 1, s, r, s', hh, h => by
    simp only [solveOne] at h
    split at h
    · cases h
    · have hcp : consPass P cfg s = bcPass P s := by simp [consPass, hbc]
      rw [hcp] at h
      cases hpass : bcPass P s with
      | error e => rw [hpass] at h; simp at h
      | ok res =>
        obtain ⟨st, s1⟩ := res
        rw [hpass] at h
        have hb1 : s1.below = s.below := by
          have := bcLoopG_below' pickProp P _ none _ st s1 hpass
          simpa using this
        cases st with
        | bound =>
          simp only at h
          injection h with h; injection h with _ h2; subst h2
          simp only; rw [hb1]; exact hh
        | unbound =>
          simp only at h
          split at h
          · cases h
          · rename_i hroom
            cases hvh : runVarHeur cfg.varH cfg.varCosts cfg.decision s1.top.doms with
            | none => rw [hvh] at h; simp at h
            | some od =>
              rw [hvh] at h
              cases od with
              | none => simp at h
              | some d =>
                simp only at h
                cases hdh : runDomHeur cfg.domH cfg.domCosts s1.top d with
                | none => rw [hdh] at h; simp at h
                | some b =>
                  rw [hdh] at h
                  simp only at h
                  have ha := runDomHeur_alts_le _ _ _ _ b hdh
                  refine solveOne_height P cfg hbc fuel _ r s' ?_ h
                  simp only [State.push, List.length_append]
                  omega
        | inconsistent =>
          simp only at h
          cases hbt : backtrack P s1 with
          | none =>
            rw [hbt] at h
            injection h with h; injection h with _ h2; subst h2
            rw [hb1]; exact hh
          | some s2 =>
            rw [hbt] at h
            simp only at h
            have := backtrack_below_le P s1 s2 hbt
            exact solveOne_height P cfg hbc fuel s2 r s' (by rw [hb1] at this; omega) h

/-- the shared-domain index handed to the value heuristic is a real one -/
theorem runVarHeur_in_range (h : VarHeur) (costs : List (List Int)) (dec : List Nat) (D : Box) (d : Nat)
    (hr : runVarHeur h costs dec D = some (some d)) : d < D.length :=
  lt_length_of_unbound D d (runVarHeur_unbound h costs dec D d hr)

end Nucs
