import NucsProofs.Basic
/-!
  C11 — the multiprocessing parent delivers exactly what the workers send, for EVERY interleaving.
  C18 — a dying worker cannot hang the parent.

  Model: `mpStep`, `mpRun`, `mpAggregate`, `MPState` (NucsModel/MP.lean).

  Worker `i` puts `MP.stream i (W i) (fin i)` on the queue: one message per solution (each with an
  arbitrary statistics snapshot) and then its completion marker carrying its final statistics.
  `MP.Interleaving k W fin msgs`: `msgs` is a shuffle of the `k` streams (every message comes from a
  worker `< k`, and the sub-sequence of worker `i` is its stream, in order).

  Headline results (all for EVERY interleaving)
    * `C11_solve`, `C11_solve_count`, `C11_solve_mem`   running = [], not raised, `yielded` is a
                               permutation of all the workers' solutions
    * `C11_solve_order`        in fact `yielded` is the arrival order, reversed
    * `C11_not_done_before_end`, `C11_done_at_end`   the parent reads ALL messages, and stops then
    * `C11_stats`, `C11_stats_get`, `C11_aggregate`  the final statistics are the workers' last ones
    * `C11_optimize_none_iff`, `C11_optimize_best`, `C11_optimize_value`, `C11_optimize_fold`
                               `optimize` returns an optimal received solution
    * `C11_benign_timeouts`    time-outs with all workers alive change nothing
    * `C18_safety`, `C18_safety_all_alive`, `C18_halts_within_two_polls`, `C18_run_halts`,
      `C18_done_absorbing`, `C18_message_clears_suspicion`
    * `MP.sequential_interleaving`  the hypothesis `Interleaving` is satisfiable for every `k W fin`
-/
namespace Nucs

/-! ### vocabulary -/

/-- the message comes from worker `i` -/
def MPIn.fromWorker (i : Nat) : MPIn → Bool
  | .msg w _ _ => w == i
  | .timeout _ => false

/-- the solution carried by an input, if any -/
def MPIn.solOf : MPIn → Option (List Int)
  | .msg _ sol _ => sol
  | .timeout _ => none

def MPIn.isSolMsg : MPIn → Bool
  | .msg _ (some _) _ => true
  | _ => false

def MPIn.isMsg : MPIn → Bool
  | .msg _ _ _ => true
  | .timeout _ => false

namespace MP

/-- what worker `i` sends: its solutions in order, each with a statistics snapshot, then the
    completion marker with the final statistics -/
def stream (i : Nat) (sols : List (List Int × List Nat)) (fin : List Nat) : List MPIn :=
  sols.map (fun p => MPIn.msg i (some p.1) p.2) ++ [MPIn.msg i none fin]

/-- the solutions of worker `i` -/
def sols (W : Nat → List (List Int × List Nat)) (i : Nat) : List (List Int) := (W i).map Prod.fst

/-- all the solutions, worker after worker -/
def allSols (k : Nat) (W : Nat → List (List Int × List Nat)) : List (List Int) :=
  ((List.range k).map (sols W)).flatten

/-- `msgs` is an interleaving of the streams of the workers `0 … k-1` (no time-outs) -/
structure Interleaving (k : Nat) (W : Nat → List (List Int × List Nat)) (fin : Nat → List Nat)
    (msgs : List MPIn) : Prop where
  from_lt : ∀ m ∈ msgs, ∃ i, i < k ∧ m.fromWorker i = true
  proj : ∀ i, i < k → msgs.filter (MPIn.fromWorker i) = stream i (W i) (fin i)

/-- the incumbent update of `optimize` -/
def updBest (mn : Bool) (v : Nat) (b : Option (List Int)) (x : List Int) : Option (List Int) :=
  match b with
  | none => some x
  | some b0 => if better mn v x b0 then some x else some b0

/-! ### one step -/

theorem step_done (opt : Option (Nat × Bool)) (s : MPState) (i : MPIn) (h : s.done = true) :
    mpStep opt s i = s := by
  unfold mpStep; rw [if_pos h]

/-- a message read by a parent that is not done -/
theorem step_msg (opt : Option (Nat × Bool)) (s : MPState) (w : Nat) (sol : Option (List Int)) (st : List Nat)
    (h : s.done = false) :
    mpStep opt s (.msg w sol st) =
      { running := match sol with
          | none => s.running.filter (· != w)
          | some _ => s.running
        stats := s.stats.set w (some st)
        yielded := match sol, opt with
          | some x, none => x :: s.yielded
          | _, _ => s.yielded
        best := match sol, opt with
          | some x, some (v, mn) => updBest mn v s.best x
          | _, _ => s.best
        suspect := false
        raised := s.raised } := by
  unfold mpStep
  rw [if_neg (by simp [h])]
  cases sol with
  | none => cases opt <;> rfl
  | some x =>
    cases opt with
    | none => rfl
    | some vm =>
      obtain ⟨v, mn⟩ := vm
      dsimp only
      cases hb : s.best with
      | none => simp [updBest]
      | some b =>
        dsimp only [updBest]
        split <;> simp

theorem step_msg_running (opt : Option (Nat × Bool)) (s : MPState) (w : Nat) (sol : Option (List Int))
    (st : List Nat) (h : s.done = false) :
    (mpStep opt s (.msg w sol st)).running =
      match sol with
      | none => s.running.filter (· != w)
      | some _ => s.running := by
  rw [step_msg opt s w sol st h]

theorem step_msg_stats (opt : Option (Nat × Bool)) (s : MPState) (w : Nat) (sol : Option (List Int))
    (st : List Nat) (h : s.done = false) :
    (mpStep opt s (.msg w sol st)).stats = s.stats.set w (some st) := by
  rw [step_msg opt s w sol st h]

theorem step_msg_yielded (opt : Option (Nat × Bool)) (s : MPState) (w : Nat) (sol : Option (List Int))
    (st : List Nat) (h : s.done = false) :
    (mpStep opt s (.msg w sol st)).yielded =
      match sol, opt with
      | some x, none => x :: s.yielded
      | _, _ => s.yielded := by
  rw [step_msg opt s w sol st h]

theorem step_msg_best (opt : Option (Nat × Bool)) (s : MPState) (w : Nat) (sol : Option (List Int))
    (st : List Nat) (h : s.done = false) :
    (mpStep opt s (.msg w sol st)).best =
      match sol, opt with
      | some x, some (v, mn) => updBest mn v s.best x
      | _, _ => s.best := by
  rw [step_msg opt s w sol st h]

/-- a time-out seen by a parent that is not done -/
theorem step_timeout (opt : Option (Nat × Bool)) (s : MPState) (alive : List Bool) (h : s.done = false) :
    mpStep opt s (.timeout alive) =
      if s.suspect then { s with raised := true }
      else if s.running.any (fun w => !getB alive w) then { s with suspect := true }
      else s := by
  unfold mpStep
  rw [if_neg (by simp [h])]

/-! ### the run invariant -/

/-- `s` is a state of a clean run and `suf` is what remains to be read: every remaining message
    comes from a running worker, and every running worker still has to send solutions and then its
    marker -/
structure Inv (fin : Nat → List Nat) (s : MPState) (suf : List MPIn) : Prop where
  raised : s.raised = false
  suspect : s.suspect = false
  from_running : ∀ m ∈ suf, ∃ w ∈ s.running, m.fromWorker w = true
  pending : ∀ w ∈ s.running, ∃ A, suf.filter (MPIn.fromWorker w) = A ++ [MPIn.msg w none (fin w)] ∧
    ∀ a ∈ A, a.isSolMsg = true

theorem Inv.init {k : Nat} {W : Nat → List (List Int × List Nat)} {fin : Nat → List Nat} {msgs : List MPIn}
    (h : Interleaving k W fin msgs) : Inv fin (MPState.init k) msgs where
  raised := rfl
  suspect := rfl
  from_running := by
    intro m hm
    obtain ⟨i, hi, hf⟩ := h.from_lt m hm
    exact ⟨i, by simpa [MPState.init] using hi, hf⟩
  pending := by
    intro w hw
    have hw' : w < k := by simpa [MPState.init] using hw
    refine ⟨(W w).map (fun p => MPIn.msg w (some p.1) p.2), by rw [h.proj w hw']; rfl, ?_⟩
    intro a ha
    obtain ⟨p, _, rfl⟩ := List.mem_map.mp ha
    rfl

/-- with nothing left to read, nobody is running -/
theorem Inv.nil_running {fin : Nat → List Nat} {s : MPState} (h : Inv fin s []) : s.running = [] := by
  apply List.eq_nil_iff_forall_not_mem.mpr
  intro w hw
  obtain ⟨A, hA, _⟩ := h.pending w hw
  simp at hA

/-- the next message comes from a running worker; the parent is not done; a marker carries the
    final statistics -/
theorem Inv.head {fin : Nat → List Nat} {s : MPState} {m : MPIn} {rest : List MPIn}
    (h : Inv fin s (m :: rest)) :
    ∃ w sol st, m = .msg w sol st ∧ w ∈ s.running ∧ s.done = false ∧ (sol = none → st = fin w) := by
  obtain ⟨w, hw, hf⟩ := h.from_running m List.mem_cons_self
  cases m with
  | timeout alive => simp [MPIn.fromWorker] at hf
  | msg w' sol st =>
    have hww : w' = w := by simpa [MPIn.fromWorker] using hf
    subst hww
    refine ⟨w', sol, st, rfl, hw, ?_, ?_⟩
    · have : s.running ≠ [] := List.ne_nil_of_mem hw
      simp [MPState.done, h.raised, this]
    · intro hs
      subst hs
      obtain ⟨A, hA, hsol⟩ := h.pending w' hw
      rw [List.filter_cons_of_pos hf] at hA
      cases A with
      | nil =>
        simp only [List.nil_append, List.cons.injEq, MPIn.msg.injEq] at hA
        exact hA.1.2.2
      | cons a A' =>
        simp only [List.cons_append, List.cons.injEq] at hA
        have := hsol a List.mem_cons_self
        rw [← hA.1] at this
        simp [MPIn.isSolMsg] at this

theorem Inv.not_done {fin : Nat → List Nat} {s : MPState} {suf : List MPIn}
    (h : Inv fin s suf) (hne : suf ≠ []) : s.done = false := by
  cases suf with
  | nil => exact absurd rfl hne
  | cons m rest =>
    obtain ⟨_, _, _, _, _, hd, _⟩ := h.head
    exact hd

/-- the invariant is preserved by reading the next message -/
theorem Inv.step (opt : Option (Nat × Bool)) {fin : Nat → List Nat} {s : MPState} {m : MPIn} {rest : List MPIn}
    (h : Inv fin s (m :: rest)) : Inv fin (mpStep opt s m) rest := by
  obtain ⟨w, sol, st, rfl, hw, hd, _⟩ := h.head
  rw [step_msg opt s w sol st hd]
  have hfw : (MPIn.msg w sol st).fromWorker w = true := by simp [MPIn.fromWorker]
  cases sol with
  | some x =>
    refine ⟨h.raised, rfl, ?_, ?_⟩
    · intro m' hm'
      exact h.from_running m' (List.mem_cons_of_mem _ hm')
    · intro u hu
      obtain ⟨A, hA, hsol⟩ := h.pending u hu
      by_cases huw : u = w
      · subst huw
        rw [List.filter_cons_of_pos hfw] at hA
        cases A with
        | nil => simp at hA
        | cons a A' =>
          simp only [List.cons_append, List.cons.injEq] at hA
          exact ⟨A', hA.2, fun a' ha' => hsol a' (List.mem_cons_of_mem _ ha')⟩
      · rw [List.filter_cons_of_neg (by simp [MPIn.fromWorker]; omega)] at hA
        exact ⟨A, hA, hsol⟩
  | none =>
    refine ⟨h.raised, rfl, ?_, ?_⟩
    · intro m' hm'
      obtain ⟨u, hu, hfu⟩ := h.from_running m' (List.mem_cons_of_mem _ hm')
      refine ⟨u, ?_, hfu⟩
      have huw : u ≠ w := by
        intro huw
        subst huw
        obtain ⟨A, hA, hsol⟩ := h.pending u hu
        rw [List.filter_cons_of_pos hfw] at hA
        have hmem : m' ∈ rest.filter (MPIn.fromWorker u) := List.mem_filter.mpr ⟨hm', hfu⟩
        cases A with
        | nil =>
          simp only [List.nil_append, List.cons.injEq] at hA
          rw [hA.2] at hmem
          simp at hmem
        | cons a A' =>
          simp only [List.cons_append, List.cons.injEq] at hA
          have := hsol a List.mem_cons_self
          rw [← hA.1] at this
          simp [MPIn.isSolMsg] at this
      simp [List.mem_filter, hu, huw]
    · intro u hu
      have hu' : u ∈ s.running ∧ u ≠ w := by simpa [List.mem_filter] using hu
      obtain ⟨A, hA, hsol⟩ := h.pending u hu'.1
      rw [List.filter_cons_of_neg (by simp [MPIn.fromWorker]; omega)] at hA
      exact ⟨A, hA, hsol⟩

/-- … hence by reading any prefix -/
theorem Inv.run (opt : Option (Nat × Bool)) {fin : Nat → List Nat} :
    ∀ (pre : List MPIn) {s : MPState} {suf : List MPIn}, Inv fin s (pre ++ suf) →
      Inv fin (pre.foldl (mpStep opt) s) suf
  | [], _, _, h => h
  | _ :: pre, _, _, h => Inv.run opt pre (Inv.step opt h)

/-- what a clean run computes from a state satisfying the invariant -/
theorem Inv.result (opt : Option (Nat × Bool)) {fin : Nat → List Nat} :
    ∀ (suf : List MPIn) {s : MPState}, Inv fin s suf →
      (suf.foldl (mpStep opt) s).stats.length = s.stats.length ∧
      (∀ w ∈ s.running, w < s.stats.length → (suf.foldl (mpStep opt) s).stats[w]? = some (some (fin w))) ∧
      (∀ i, i ∉ s.running → (suf.foldl (mpStep opt) s).stats[i]? = s.stats[i]?) ∧
      (opt = none → (suf.foldl (mpStep opt) s).yielded = (suf.filterMap MPIn.solOf).reverse ++ s.yielded) ∧
      (∀ v mn, opt = some (v, mn) →
        (suf.foldl (mpStep opt) s).best = (suf.filterMap MPIn.solOf).foldl (updBest mn v) s.best)
  | [], s, h => by
    have := h.nil_running
    simp [this]
  | m :: rest, s, h => by
    obtain ⟨w, sol, st, rfl, hw, hd, hfin⟩ := h.head
    have hstep := Inv.step opt h
    obtain ⟨ih1, ih2, ih3, ih4, ih5⟩ := Inv.result opt rest hstep
    have e1 := step_msg_running opt s w sol st hd
    have e2 := step_msg_stats opt s w sol st hd
    have e3 := step_msg_yielded opt s w sol st hd
    have e4 := step_msg_best opt s w sol st hd
    rw [List.foldl_cons]
    generalize mpStep opt s (MPIn.msg w sol st) = s1 at *
    rw [e2, List.length_set] at ih1 ih2
    refine ⟨ih1, ?_, ?_, ?_, ?_⟩
    · intro u hu hul
      cases sol with
      | some x => exact ih2 u (by rw [e1]; exact hu) hul
      | none =>
        by_cases huw : u = w
        · subst huw
          rw [ih3 u (by rw [e1]; simp [List.mem_filter]), e2, hfin rfl]
          simp [hul]
        · exact ih2 u (by rw [e1]; simp [List.mem_filter, hu, huw]) hul
    · intro i hi
      have hiw : w ≠ i := fun e => hi (e ▸ hw)
      rw [ih3 i ?_, e2]
      · simp [List.getElem?_set_ne hiw]
      · rw [e1]
        cases sol with
        | some x => exact hi
        | none => simp [List.mem_filter, hi]
    · intro ho
      subst ho
      rw [ih4 rfl, e3]
      cases sol with
      | none => rfl
      | some x => simp [MPIn.solOf]
    · intro v mn ho
      subst ho
      rw [ih5 v mn rfl, e4]
      cases sol with
      | none => rfl
      | some x => simp [MPIn.solOf]

/-! ### shuffles are permutations of the concatenation -/

/-- a list whose elements are classified by exactly one of the predicates `p 0 … p (k-1)` is a
    permutation of the concatenation of its `k` sub-sequences -/
theorem perm_flatten_filter {α : Type} (p : Nat → α → Bool) :
    ∀ (k : Nat) (l : List α), (∀ x ∈ l, ∃ i, i < k ∧ p i x = true ∧ ∀ j, p j x = true → j = i) →
      List.Perm l ((List.range k).map (fun i => l.filter (p i))).flatten
  | 0, l, h => by
    cases l with
    | nil => simp
    | cons x l => obtain ⟨i, hi, _⟩ := h x List.mem_cons_self; omega
  | k + 1, l, h => by
    have h' : ∀ x ∈ l.filter (fun x => !p k x), ∃ i, i < k ∧ p i x = true ∧ ∀ j, p j x = true → j = i := by
      intro x hx
      obtain ⟨hx1, hx2⟩ := List.mem_filter.mp hx
      obtain ⟨i, hi, hpi, hu⟩ := h x hx1
      have : i ≠ k := by
        intro e; subst e; simp [hpi] at hx2
      exact ⟨i, by omega, hpi, hu⟩
    have ih := perm_flatten_filter p k (l.filter (fun x => !p k x)) h'
    have e : (List.range k).map (fun i => (l.filter (fun x => !p k x)).filter (p i))
        = (List.range k).map (fun i => l.filter (p i)) := by
      apply List.map_congr_left
      intro i hi
      have hik : i < k := List.mem_range.mp hi
      rw [List.filter_filter]
      apply List.filter_congr
      intro x hx
      obtain ⟨i', _, _, hu⟩ := h x hx
      cases hpi : p i x with
      | false => simp
      | true =>
        cases hpk : p k x with
        | false => simp
        | true =>
          have := hu i hpi
          have := hu k hpk
          omega
    rw [e] at ih
    rw [List.range_succ, List.map_append, List.flatten_append]
    simp only [List.map_cons, List.map_nil, List.flatten_singleton]
    have h1 : List.Perm l (l.filter (fun x => !p k x) ++ l.filter (p k)) := by
      have := List.filter_append_perm (fun x => !p k x) l
      simp only [Bool.not_not] at this
      exact this.symm
    exact h1.trans (List.Perm.append_right _ ih)

theorem fromWorker_unique {m : MPIn} {i j : Nat} (hi : m.fromWorker i = true) (hj : m.fromWorker j = true) :
    j = i := by
  cases m with
  | timeout _ => simp [MPIn.fromWorker] at hi
  | msg w _ _ =>
    simp only [MPIn.fromWorker, beq_iff_eq] at hi hj
    omega

theorem filterMap_solOf_stream (i : Nat) (sols : List (List Int × List Nat)) (fin : List Nat) :
    (stream i sols fin).filterMap MPIn.solOf = sols.map Prod.fst := by
  unfold stream
  rw [List.filterMap_append]
  have : ∀ l : List (List Int × List Nat),
      (l.map (fun p => MPIn.msg i (some p.1) p.2)).filterMap MPIn.solOf = l.map Prod.fst := by
    intro l
    induction l with
    | nil => rfl
    | cons a l ih => simp [MPIn.solOf] at ih ⊢; exact ih
  rw [this]
  simp [MPIn.solOf]

/-- the solutions read from an interleaving are a permutation of all the workers' solutions -/
theorem Interleaving.perm {k : Nat} {W : Nat → List (List Int × List Nat)} {fin : Nat → List Nat}
    {msgs : List MPIn} (h : Interleaving k W fin msgs) :
    List.Perm (msgs.filterMap MPIn.solOf) (allSols k W) := by
  have h1 := perm_flatten_filter MPIn.fromWorker k msgs (fun m hm => by
    obtain ⟨i, hi, hf⟩ := h.from_lt m hm
    exact ⟨i, hi, hf, fun j hj => fromWorker_unique hf hj⟩)
  have h2 := h1.filterMap MPIn.solOf
  rw [List.filterMap_flatten, List.map_map] at h2
  have e : (List.range k).map (List.filterMap MPIn.solOf ∘ fun i => msgs.filter (MPIn.fromWorker i))
      = (List.range k).map (sols W) := by
    apply List.map_congr_left
    intro i hi
    simp only [Function.comp]
    rw [h.proj i (List.mem_range.mp hi), filterMap_solOf_stream]
    rfl
  rw [e] at h2
  exact h2

theorem mem_allSols {k : Nat} {W : Nat → List (List Int × List Nat)} {x : List Int} :
    x ∈ allSols k W ↔ ∃ i, i < k ∧ x ∈ sols W i := by
  unfold allSols
  simp only [List.mem_flatten, List.mem_map, List.mem_range]
  constructor
  · rintro ⟨l, ⟨i, hi, rfl⟩, hx⟩; exact ⟨i, hi, hx⟩
  · rintro ⟨i, hi, hx⟩; exact ⟨_, ⟨i, hi, rfl⟩, hx⟩

theorem allSols_eq_nil {k : Nat} {W : Nat → List (List Int × List Nat)} :
    allSols k W = [] ↔ ∀ i, i < k → W i = [] := by
  rw [List.eq_nil_iff_forall_not_mem]
  constructor
  · intro h i hi
    cases hw : W i with
    | nil => rfl
    | cons a l =>
      exact absurd (mem_allSols.mpr ⟨i, hi, by simp [sols, hw]⟩) (h a.1)
  · intro h x hx
    obtain ⟨i, hi, hxi⟩ := mem_allSols.mp hx
    simp [sols, h i hi] at hxi

end MP

open MP

/-! ### C11: solve -/

section C11
variable {k : Nat} {W : Nat → List (List Int × List Nat)} {fin : Nat → List Nat} {msgs : List MPIn}

/-- the parent reads ALL messages: before the last one it is not done … -/
theorem C11_not_done_before_end (opt : Option (Nat × Bool)) (h : Interleaving k W fin msgs)
    (pre suf : List MPIn) (hsplit : msgs = pre ++ suf) (hne : suf ≠ []) :
    (mpRun opt k pre).done = false := by
  have hinv := Inv.init h
  rw [hsplit] at hinv
  exact (Inv.run opt pre hinv).not_done hne

/-- … and after the last one (which is a completion marker) it is: nobody is running, nothing was raised -/
theorem C11_done_at_end (opt : Option (Nat × Bool)) (h : Interleaving k W fin msgs) :
    (mpRun opt k msgs).running = [] ∧ (mpRun opt k msgs).raised = false ∧
    (mpRun opt k msgs).suspect = false ∧ (mpRun opt k msgs).done = true := by
  have hinv := Inv.init h
  have hfin : Inv fin (mpRun opt k msgs) [] := by
    have := Inv.run opt msgs (suf := []) (by rw [List.append_nil]; exact hinv)
    exact this
  have hr := hfin.nil_running
  exact ⟨hr, hfin.raised, hfin.suspect, by simp [MPState.done, hr]⟩

/-- `solve` yields the solutions in arrival order (`yielded` is newest first) -/
theorem C11_solve_order (h : Interleaving k W fin msgs) :
    (mpRun none k msgs).yielded = (msgs.filterMap MPIn.solOf).reverse := by
  have := (Inv.result none msgs (Inv.init h)).2.2.2.1 rfl
  simpa [mpRun, MPState.init] using this

/-- C11 (solve): for every interleaving, the parent terminates normally and has yielded exactly the
    solutions of the workers (as a multiset) -/
theorem C11_solve (h : Interleaving k W fin msgs) :
    (mpRun none k msgs).running = [] ∧ (mpRun none k msgs).raised = false ∧
    List.Perm (mpRun none k msgs).yielded (allSols k W) := by
  obtain ⟨h1, h2, _, _⟩ := C11_done_at_end none h
  refine ⟨h1, h2, ?_⟩
  rw [C11_solve_order h]
  exact (List.reverse_perm _).trans h.perm

/-- … in multiset form: every solution is yielded as many times as the workers sent it -/
theorem C11_solve_count (h : Interleaving k W fin msgs) (x : List Int) :
    (mpRun none k msgs).yielded.count x = (allSols k W).count x :=
  (C11_solve h).2.2.count_eq x

/-- … in particular `x` is yielded iff some worker found it -/
theorem C11_solve_mem (h : Interleaving k W fin msgs) (x : List Int) :
    x ∈ (mpRun none k msgs).yielded ↔ ∃ i, i < k ∧ x ∈ sols W i :=
  (C11_solve h).2.2.mem_iff.trans mem_allSols

/-- `optimize` yields nothing -/
theorem C11_optimize_yields_nothing (v : Nat) (mn : Bool) (ins : List MPIn) :
    (mpRun (some (v, mn)) k ins).yielded = [] := by
  unfold mpRun
  have : ∀ (l : List MPIn) (s : MPState), s.yielded = [] → (l.foldl (mpStep (some (v, mn))) s).yielded = [] := by
    intro l
    induction l with
    | nil => intro s hs; exact hs
    | cons i l ih =>
      intro s hs
      apply ih
      cases hd : s.done with
      | true => rw [step_done _ _ _ hd]; exact hs
      | false =>
        cases i with
        | msg w sol st => rw [step_msg_yielded _ _ _ _ _ hd]; cases sol <;> exact hs
        | timeout alive =>
          rw [step_timeout _ _ _ hd]
          split
          · exact hs
          · split <;> exact hs
  exact this ins _ rfl

/-! ### C11: statistics -/

/-- the parent ends with the FINAL statistics of every worker -/
theorem C11_stats (opt : Option (Nat × Bool)) (h : Interleaving k W fin msgs) :
    (mpRun opt k msgs).stats = (List.range k).map (fun i => some (fin i)) := by
  obtain ⟨hl, hs, _⟩ := Inv.result opt msgs (Inv.init h)
  have hl' : (mpRun opt k msgs).stats.length = k := by simpa [mpRun, MPState.init] using hl
  apply List.ext_getElem?
  intro i
  by_cases hi : i < k
  · have := hs i (by simp [MPState.init, hi]) (by simp [MPState.init, hi])
    rw [List.getElem?_map, List.getElem?_range hi]
    exact this
  · rw [List.getElem?_eq_none (by omega), List.getElem?_eq_none (by simp; omega)]

theorem C11_stats_get (opt : Option (Nat × Bool)) (h : Interleaving k W fin msgs) (i : Nat) (hi : i < k) :
    (mpRun opt k msgs).stats[i]? = some (some (fin i)) := by
  rw [C11_stats opt h, List.getElem?_map, List.getElem?_range hi]
  rfl

/-- column sum / column maximum of a table of statistics -/
def MP.colSum (rows : List (List Nat)) (j : Nat) : Nat := (rows.map (fun r => r.getD j 0)).sum
def MP.colMax (rows : List (List Nat)) (j : Nat) : Nat := (rows.map (fun r => r.getD j 0)).foldl max 0

theorem MP.foldl_add_eq (f : List Nat → Nat) : ∀ (rows : List (List Nat)) (a : Nat),
    rows.foldl (fun acc r => acc + f r) a = a + (rows.map f).sum
  | [], a => by simp
  | r :: rows, a => by
    rw [List.foldl_cons, MP.foldl_add_eq f rows]
    simp only [List.map_cons, List.sum_cons]
    omega

theorem MP.foldl_max_eq (f : List Nat → Nat) : ∀ (rows : List (List Nat)) (a : Nat),
    rows.foldl (fun m r => max m (f r)) a = (rows.map f).foldl max a
  | [], _ => rfl
  | r :: rows, a => by
    rw [List.foldl_cons, MP.foldl_max_eq f rows]
    rfl

/-- `colMax` is an upper bound that is attained (or `0` for an empty table) -/
theorem MP.colMax_spec (rows : List (List Nat)) (j : Nat) :
    (∀ r ∈ rows, r.getD j 0 ≤ MP.colMax rows j) ∧
    (MP.colMax rows j = 0 ∨ ∃ r ∈ rows, MP.colMax rows j = r.getD j 0) := by
  unfold MP.colMax
  have : ∀ (l : List Nat) (a : Nat),
      a ≤ l.foldl max a ∧ (∀ x ∈ l, x ≤ l.foldl max a) ∧ (l.foldl max a = a ∨ l.foldl max a ∈ l) := by
    intro l
    induction l with
    | nil => intro a; simp
    | cons x l ih =>
      intro a
      obtain ⟨h1, h2, h3⟩ := ih (max a x)
      rw [List.foldl_cons]
      refine ⟨by omega, ?_, ?_⟩
      · intro y hy
        rcases List.mem_cons.mp hy with rfl | hy
        · omega
        · exact h2 y hy
      · rcases h3 with h3 | h3
        · by_cases hax : x ≤ a
          · left; rw [h3]; omega
          · right; rw [h3]; simp; left; omega
        · right; exact List.mem_cons_of_mem _ h3
  obtain ⟨_, h2, h3⟩ := this (rows.map (fun r => r.getD j 0)) 0
  refine ⟨fun r hr => h2 _ (List.mem_map.mpr ⟨r, hr, rfl⟩), ?_⟩
  rcases h3 with h3 | h3
  · left; exact h3
  · right
    obtain ⟨r, hr, e⟩ := List.mem_map.mp h3
    exact ⟨r, hr, e.symm⟩

/-- `get_statistics` after a complete run: column sums of the workers' final statistics, the
    maximum for column 11 (STATS_IDX_SOLVER_CHOICE_DEPTH) -/
theorem C11_aggregate (opt : Option (Nat × Bool)) (h : Interleaving k W fin msgs) :
    mpAggregate (mpRun opt k msgs) =
      some ((List.range 13).map (fun j =>
        if j == 11 then MP.colMax ((List.range k).map fin) j else MP.colSum ((List.range k).map fin) j)) := by
  unfold mpAggregate
  rw [C11_stats opt h]
  have h1 : ((List.range k).map (fun i => some (fin i))).any Option.isNone = false := by
    simp
  have h2 : ((List.range k).map (fun i => some (fin i))).filterMap id = (List.range k).map fin := by
    rw [List.filterMap_map]
    induction (List.range k) with
    | nil => rfl
    | cons a l ih => simp
  rw [h1, h2]
  simp only [Bool.false_eq_true, if_false, Option.some.injEq]
  apply List.map_congr_left
  intro j _
  split
  · rw [MP.foldl_max_eq]; rfl
  · rw [MP.foldl_add_eq]; simp [MP.colSum]

end C11

/-! ### C18: worker death -/

/-- C18: once done (all workers completed, or the error was raised) the parent reads nothing more -/
theorem C18_done_absorbing (opt : Option (Nat × Bool)) (s : MPState) (h : s.done = true) (ins : List MPIn) :
    ins.foldl (mpStep opt) s = s := by
  induction ins with
  | nil => rfl
  | cons i ins ih => rw [List.foldl_cons, step_done opt s i h, ih]

/-- a time-out that sees every running worker alive, with no pending suspicion, changes nothing -/
theorem MP.step_timeout_benign (opt : Option (Nat × Bool)) (s : MPState) (alive : List Bool)
    (hs : s.suspect = false) (hal : ∀ w ∈ s.running, getB alive w = true) :
    mpStep opt s (.timeout alive) = s := by
  cases hd : s.done with
  | true => exact step_done opt s _ hd
  | false =>
    rw [step_timeout opt s alive hd, hs]
    have : s.running.any (fun w => !getB alive w) = false := by
      rw [List.any_eq_false]
      intro w hw
      simp [hal w hw]
    simp [this]

/-- reading a message never raises, and clears the suspicion -/
theorem MP.step_msg_clean (opt : Option (Nat × Bool)) (s : MPState) (w : Nat) (sol : Option (List Int))
    (st : List Nat) (hs : s.suspect = false) :
    (mpStep opt s (.msg w sol st)).suspect = false ∧ (mpStep opt s (.msg w sol st)).raised = s.raised := by
  cases hd : s.done with
  | true => rw [step_done opt s _ hd]; exact ⟨hs, rfl⟩
  | false => rw [step_msg opt s w sol st hd]; exact ⟨rfl, rfl⟩

/-- every time-out of `ins`, at the moment it is observed from state `s`, reports every running
    worker alive -/
def MP.AllAlive (opt : Option (Nat × Bool)) (s : MPState) (ins : List MPIn) : Prop :=
  ∀ pre alive suf, ins = pre ++ MPIn.timeout alive :: suf →
    ∀ w ∈ (pre.foldl (mpStep opt) s).running, getB alive w = true

theorem MP.AllAlive.tail {opt : Option (Nat × Bool)} {s : MPState} {i : MPIn} {ins : List MPIn}
    (h : MP.AllAlive opt s (i :: ins)) : MP.AllAlive opt (mpStep opt s i) ins := by
  intro pre alive suf hsplit w hw
  exact h (i :: pre) alive suf (by rw [hsplit]; rfl) w hw

/-- time-outs that see all running workers alive can be erased from the input -/
theorem MP.benign_erase (opt : Option (Nat × Bool)) :
    ∀ (ins : List MPIn) (s : MPState), s.suspect = false → MP.AllAlive opt s ins →
      ins.foldl (mpStep opt) s = (ins.filter MPIn.isMsg).foldl (mpStep opt) s ∧
      (ins.foldl (mpStep opt) s).suspect = false ∧ (ins.foldl (mpStep opt) s).raised = s.raised
  | [], s, hs, _ => ⟨rfl, hs, rfl⟩
  | .timeout alive :: ins, s, hs, h => by
    have hb := MP.step_timeout_benign opt s alive hs (h [] alive ins rfl)
    have ih := MP.benign_erase opt ins s hs (by have := h.tail; rwa [hb] at this)
    rw [List.foldl_cons, hb, List.filter_cons_of_neg (by simp [MPIn.isMsg])]
    exact ih
  | .msg w sol st :: ins, s, hs, h => by
    obtain ⟨h1, h2⟩ := MP.step_msg_clean opt s w sol st hs
    have ih := MP.benign_erase opt ins _ h1 h.tail
    rw [List.foldl_cons, List.filter_cons_of_pos (by simp [MPIn.isMsg]), List.foldl_cons]
    exact ⟨ih.1, ih.2.1, ih.2.2.trans h2⟩

/-- C18 (safety): if every time-out sees every still-running worker alive, the parent never raises -/
theorem C18_safety (opt : Option (Nat × Bool)) (k : Nat) (ins : List MPIn)
    (h : MP.AllAlive opt (MPState.init k) ins) : (mpRun opt k ins).raised = false :=
  (MP.benign_erase opt ins (MPState.init k) rfl h).2.2

/-- the running workers are always among `0 … k-1` -/
theorem MP.running_lt (opt : Option (Nat × Bool)) (k : Nat) (ins : List MPIn) :
    ∀ w ∈ (mpRun opt k ins).running, w < k := by
  unfold mpRun
  have : ∀ (l : List MPIn) (s : MPState), (∀ w ∈ s.running, w < k) →
      ∀ w ∈ (l.foldl (mpStep opt) s).running, w < k := by
    intro l
    induction l with
    | nil => intro s hs; exact hs
    | cons i l ih =>
      intro s hs
      apply ih
      cases hd : s.done with
      | true => rw [step_done _ _ _ hd]; exact hs
      | false =>
        cases i with
        | msg w sol st =>
          rw [step_msg_running _ _ _ _ _ hd]
          cases sol with
          | none => intro u hu; exact hs u (List.mem_filter.mp hu).1
          | some x => exact hs
        | timeout alive =>
          rw [step_timeout _ _ _ hd]
          split
          · exact hs
          · split <;> exact hs
  exact this ins _ (by simp [MPState.init])

/-- C18 (safety, state-independent form): if every time-out reports all `k` workers alive, the
    parent never raises -/
theorem C18_safety_all_alive (opt : Option (Nat × Bool)) (k : Nat) (ins : List MPIn)
    (h : ∀ alive, MPIn.timeout alive ∈ ins → ∀ w, w < k → getB alive w = true) :
    (mpRun opt k ins).raised = false := by
  apply C18_safety
  intro pre alive suf hsplit w hw
  exact h alive (by rw [hsplit]; simp) w (MP.running_lt opt k pre w hw)

/-- C11 with time-outs: an interleaving of the worker streams mixed with any number of time-outs
    that report all workers alive gives the same final state as the interleaving alone -/
theorem C11_benign_timeouts (opt : Option (Nat × Bool)) (k : Nat) (ins : List MPIn)
    (h : ∀ alive, MPIn.timeout alive ∈ ins → ∀ w, w < k → getB alive w = true) :
    mpRun opt k ins = mpRun opt k (ins.filter MPIn.isMsg) := by
  refine (MP.benign_erase opt ins (MPState.init k) rfl ?_).1
  intro pre alive suf hsplit w hw
  exact h alive (by rw [hsplit]; simp) w (MP.running_lt opt k pre w hw)

/-- C18 (bounded halting): from any state that is not done, a time-out that sees a dead running
    worker followed immediately by another time-out makes the parent raise — whatever the second
    poll reports, and whatever the suspicion flag was -/
theorem C18_halts_within_two_polls (opt : Option (Nat × Bool)) (s : MPState) (alive alive' : List Bool)
    (hd : s.done = false) (hdead : ∃ w ∈ s.running, getB alive w = false) :
    (mpStep opt (mpStep opt s (.timeout alive)) (.timeout alive')).raised = true ∧
    (mpStep opt (mpStep opt s (.timeout alive)) (.timeout alive')).done = true := by
  have hany : s.running.any (fun w => !getB alive w) = true := by
    obtain ⟨w, hw, ha⟩ := hdead
    exact List.any_eq_true.mpr ⟨w, hw, by simp [ha]⟩
  have hdone : s.running.isEmpty = false ∧ s.raised = false := by
    simpa [MPState.done] using hd
  have key : (mpStep opt (mpStep opt s (.timeout alive)) (.timeout alive')).raised = true := by
    rw [step_timeout opt s alive hd]
    cases hs : s.suspect with
    | true =>
      simp only [if_true]
      rw [step_done _ _ _ (by simp [MPState.done])]
    | false =>
      simp only [Bool.false_eq_true, if_false, hany, if_true]
      rw [step_timeout _ _ _ (by simp [MPState.done, hdone.1, hdone.2])]
      simp
  exact ⟨key, by simp [MPState.done, key]⟩

/-- C18 (bounded halting, on runs): whenever the parent is still waiting, two consecutive
    time-outs of which the first sees a dead running worker make it raise, and it then ignores
    everything that follows -/
theorem C18_run_halts (opt : Option (Nat × Bool)) (k : Nat) (ins : List MPIn) (alive alive' : List Bool)
    (later : List MPIn)
    (hd : (mpRun opt k ins).done = false) (hdead : ∃ w ∈ (mpRun opt k ins).running, getB alive w = false) :
    (mpRun opt k (ins ++ .timeout alive :: .timeout alive' :: later)).raised = true ∧
    mpRun opt k (ins ++ .timeout alive :: .timeout alive' :: later) =
      mpRun opt k (ins ++ [.timeout alive, .timeout alive']) := by
  have h2 := C18_halts_within_two_polls opt (mpRun opt k ins) alive alive' hd hdead
  have e : mpRun opt k (ins ++ .timeout alive :: .timeout alive' :: later) =
      later.foldl (mpStep opt) (mpStep opt (mpStep opt (mpRun opt k ins) (.timeout alive)) (.timeout alive')) := by
    simp [mpRun, List.foldl_append]
  have e' : mpRun opt k (ins ++ [.timeout alive, .timeout alive']) =
      mpStep opt (mpStep opt (mpRun opt k ins) (.timeout alive)) (.timeout alive') := by
    simp [mpRun, List.foldl_append]
  rw [e, e', C18_done_absorbing opt _ h2.2 later]
  exact ⟨h2.1, rfl⟩

/-- C18: a message that arrives between the two time-outs is consumed first and clears the
    suspicion — the state is exactly as if the first time-out had not happened -/
theorem C18_message_clears_suspicion (opt : Option (Nat × Bool)) (s : MPState) (alive : List Bool)
    (w : Nat) (sol : Option (List Int)) (st : List Nat) (hd : s.done = false) (hs : s.suspect = false) :
    (mpStep opt s (.timeout alive)).done = false ∧
    mpStep opt (mpStep opt s (.timeout alive)) (.msg w sol st) = mpStep opt s (.msg w sol st) ∧
    (mpStep opt s (.msg w sol st)).suspect = false ∧ (mpStep opt s (.msg w sol st)).raised = false := by
  have hdone : s.running.isEmpty = false ∧ s.raised = false := by
    simpa [MPState.done] using hd
  have h3 := MP.step_msg_clean opt s w sol st hs
  rw [step_timeout opt s alive hd, hs]
  simp only [Bool.false_eq_true, if_false]
  split
  · have hd' : ({ s with suspect := true } : MPState).done = false := by
      simp [MPState.done, hdone.1, hdone.2]
    refine ⟨hd', ?_, h3.1, h3.2.trans hdone.2⟩
    rw [step_msg _ _ _ _ _ hd', step_msg _ _ _ _ _ hd]
  · exact ⟨hd, rfl, h3.1, h3.2.trans hdone.2⟩

/-- the premises of the C18 theorems are satisfiable: worker 1 of 2 dies silently -/
example : (mpRun none 2 [.msg 0 (some [1]) [], .timeout [true, false], .timeout [true, false]]).raised = true := by
  decide
example : (mpRun none 2 [.msg 0 (some [1]) [], .timeout [true, false], .msg 1 none [],
    .timeout [true, false]]).raised = false := by
  decide

/-! ### C11: optimize -/

/-- `a` is at least as good as `b` for the objective `v` -/
def MP.asGood (mn : Bool) (v : Nat) (a b : List Int) : Prop :=
  if mn then getI a v ≤ getI b v else getI b v ≤ getI a v

theorem MP.asGood_refl (mn : Bool) (v : Nat) (a : List Int) : MP.asGood mn v a a := by
  unfold MP.asGood; split <;> omega

theorem MP.asGood_trans {mn : Bool} {v : Nat} {a b c : List Int}
    (h1 : MP.asGood mn v a b) (h2 : MP.asGood mn v b c) : MP.asGood mn v a c := by
  unfold MP.asGood at *
  cases mn <;> simp at * <;> omega

/-- one incumbent update: the new incumbent is the old one or the new solution, and is as good as both -/
theorem MP.updBest_spec (mn : Bool) (v : Nat) (b : Option (List Int)) (x : List Int) :
    ∃ c, updBest mn v b x = some c ∧ (c = x ∨ b = some c) ∧ MP.asGood mn v c x ∧
      ∀ b0, b = some b0 → MP.asGood mn v c b0 := by
  cases b with
  | none => exact ⟨x, rfl, Or.inl rfl, MP.asGood_refl _ _ _, fun _ h => by simp at h⟩
  | some b0 =>
    by_cases hb : better mn v x b0 = true
    · refine ⟨x, by simp [updBest, hb], Or.inl rfl, MP.asGood_refl _ _ _, ?_⟩
      intro b1 h1
      simp only [Option.some.injEq] at h1
      subst h1
      unfold better at hb
      unfold MP.asGood
      cases mn <;> simp at * <;> omega
    · refine ⟨b0, by simp [updBest, hb], Or.inr rfl, ?_, ?_⟩
      · unfold better at hb
        unfold MP.asGood
        cases mn <;> simp at * <;> omega
      · intro b1 h1
        simp only [Option.some.injEq] at h1
        subst h1
        exact MP.asGood_refl _ _ _

/-- the incumbent after a sequence of updates -/
theorem MP.foldBest_spec (mn : Bool) (v : Nat) : ∀ (xs : List (List Int)) (b : Option (List Int)),
    (xs.foldl (updBest mn v) b = none ↔ b = none ∧ xs = []) ∧
    ∀ r, xs.foldl (updBest mn v) b = some r →
      (b = some r ∨ r ∈ xs) ∧ (∀ b0, b = some b0 → MP.asGood mn v r b0) ∧ ∀ x ∈ xs, MP.asGood mn v r x
  | [], b => by
    refine ⟨by simp, ?_⟩
    intro r hr
    simp only [List.foldl_nil] at hr
    refine ⟨Or.inl hr, ?_, by simp⟩
    intro b0 hb0
    rw [hr] at hb0
    simp only [Option.some.injEq] at hb0
    subst hb0
    exact MP.asGood_refl _ _ _
  | x :: xs, b => by
    obtain ⟨c, hc, hcx, hgx, hgb⟩ := MP.updBest_spec mn v b x
    obtain ⟨ih1, ih2⟩ := MP.foldBest_spec mn v xs (updBest mn v b x)
    rw [List.foldl_cons]
    refine ⟨?_, ?_⟩
    · rw [ih1, hc]; simp
    · intro r hr
      obtain ⟨hmem, hgc, hgxs⟩ := ih2 r hr
      have hrc : MP.asGood mn v r c := hgc c hc
      refine ⟨?_, ?_, ?_⟩
      · rcases hmem with hmem | hmem
        · rw [hc] at hmem
          simp only [Option.some.injEq] at hmem
          subst hmem
          rcases hcx with hcx | hcx
          · right; rw [hcx]; exact List.mem_cons_self
          · left; exact hcx
        · right; exact List.mem_cons_of_mem _ hmem
      · intro b0 hb0
        exact MP.asGood_trans hrc (hgb b0 hb0)
      · intro y hy
        rcases List.mem_cons.mp hy with rfl | hy
        · exact MP.asGood_trans hrc hgx
        · exact hgxs y hy

section C11opt
variable {k : Nat} {W : Nat → List (List Int × List Nat)} {fin : Nat → List Nat} {msgs : List MPIn}

/-- the incumbent of `optimize` is the fold of the update over the solutions in arrival order -/
theorem C11_optimize_fold (v : Nat) (mn : Bool) (h : Interleaving k W fin msgs) :
    (mpRun (some (v, mn)) k msgs).best = (msgs.filterMap MPIn.solOf).foldl (updBest mn v) none := by
  have := (Inv.result (some (v, mn)) msgs (Inv.init h)).2.2.2.2 v mn rfl
  simpa [mpRun, MPState.init] using this

/-- C11 (optimize): `None` is returned iff no worker found a solution -/
theorem C11_optimize_none_iff (v : Nat) (mn : Bool) (h : Interleaving k W fin msgs) :
    (mpRun (some (v, mn)) k msgs).best = none ↔ ∀ i, i < k → W i = [] := by
  rw [C11_optimize_fold v mn h, (MP.foldBest_spec mn v _ none).1, ← allSols_eq_nil]
  constructor
  · rintro ⟨_, h0⟩
    exact List.eq_nil_iff_forall_not_mem.mpr (fun x hx => by
      have := h.perm.mem_iff.mpr hx
      rw [h0] at this
      simp at this)
  · intro h0
    refine ⟨rfl, List.eq_nil_iff_forall_not_mem.mpr (fun x hx => ?_)⟩
    have := h.perm.mem_iff.mp hx
    rw [h0] at this
    simp at this

/-- C11 (optimize): otherwise the returned solution was found by some worker and its objective
    `getI b v` is `≤` (minimize), resp. `≥` (maximize), that of every solution found by any worker -/
theorem C11_optimize_best (v : Nat) (mn : Bool) (h : Interleaving k W fin msgs) (b : List Int)
    (hb : (mpRun (some (v, mn)) k msgs).best = some b) :
    (∃ i, i < k ∧ b ∈ sols W i) ∧
    ∀ i, i < k → ∀ x ∈ sols W i, if mn then getI b v ≤ getI x v else getI x v ≤ getI b v := by
  rw [C11_optimize_fold v mn h] at hb
  obtain ⟨hmem, _, hall⟩ := (MP.foldBest_spec mn v _ none).2 b hb
  constructor
  · rcases hmem with hmem | hmem
    · simp at hmem
    · exact mem_allSols.mp (h.perm.mem_iff.mp hmem)
  · intro i hi x hx
    exact hall x (h.perm.mem_iff.mpr (mem_allSols.mpr ⟨i, hi, hx⟩))

/-- C11 (optimize): the parent and a sequential scan of all the solutions agree on the optimum value -/
theorem C11_optimize_value (v : Nat) (mn : Bool) (h : Interleaving k W fin msgs) (b b' : List Int)
    (hb : (mpRun (some (v, mn)) k msgs).best = some b)
    (hb' : (allSols k W).foldl (updBest mn v) none = some b') : getI b v = getI b' v := by
  obtain ⟨⟨i, hi, hbi⟩, hopt⟩ := C11_optimize_best v mn h b hb
  obtain ⟨hmem', _, hall'⟩ := (MP.foldBest_spec mn v _ none).2 b' hb'
  have hmem' : b' ∈ allSols k W := by
    rcases hmem' with h0 | h0
    · simp at h0
    · exact h0
  obtain ⟨i', hi', hbi'⟩ := mem_allSols.mp hmem'
  have h1 := hopt i' hi' b' hbi'
  have h2 := hall' b (mem_allSols.mpr ⟨i, hi, hbi⟩)
  unfold MP.asGood at h2
  cases mn <;> simp at h1 h2 <;> omega

end C11opt

/-! ### the hypotheses are satisfiable -/

/-- two workers; worker 0 finds two solutions, worker 1 one; the messages arrive interleaved -/
example :
    Interleaving 2
      (fun i => if i = 0 then [([1, 5], [1]), ([2, 4], [2])] else [([3, 3], [7])])
      (fun i => if i = 0 then [2, 9] else [7, 9])
      [.msg 0 (some [1, 5]) [1], .msg 1 (some [3, 3]) [7], .msg 1 none [7, 9],
       .msg 0 (some [2, 4]) [2], .msg 0 none [2, 9]] := by
  refine ⟨?_, ?_⟩
  · intro m hm
    simp only [List.mem_cons, List.not_mem_nil, or_false] at hm
    rcases hm with rfl | rfl | rfl | rfl | rfl
    · exact ⟨0, by omega, rfl⟩
    · exact ⟨1, by omega, rfl⟩
    · exact ⟨1, by omega, rfl⟩
    · exact ⟨0, by omega, rfl⟩
    · exact ⟨0, by omega, rfl⟩
  · intro i hi
    have : i = 0 ∨ i = 1 := by omega
    rcases this with rfl | rfl <;> rfl

/-- the workers running one after the other is an interleaving, for every `k`, `W`, `fin` -/
theorem MP.sequential_interleaving (k : Nat) (W : Nat → List (List Int × List Nat)) (fin : Nat → List Nat) :
    Interleaving k W fin ((List.range k).flatMap (fun i => stream i (W i) (fin i))) := by
  have hfw : ∀ i j, (stream i (W i) (fin i)).filter (MPIn.fromWorker j) =
      if i = j then stream i (W i) (fin i) else [] := by
    intro i j
    by_cases hij : i = j
    · subst hij
      rw [if_pos rfl, List.filter_eq_self]
      intro m hm
      unfold stream at hm
      rcases List.mem_append.mp hm with hm | hm
      · obtain ⟨p, _, rfl⟩ := List.mem_map.mp hm; simp [MPIn.fromWorker]
      · simp only [List.mem_singleton] at hm; subst hm; simp [MPIn.fromWorker]
    · rw [if_neg hij, List.filter_eq_nil_iff]
      intro m hm
      unfold stream at hm
      rcases List.mem_append.mp hm with hm | hm
      · obtain ⟨p, _, rfl⟩ := List.mem_map.mp hm; simp [MPIn.fromWorker, hij]
      · simp only [List.mem_singleton] at hm; subst hm; simp [MPIn.fromWorker, hij]
  refine ⟨?_, ?_⟩
  · intro m hm
    obtain ⟨i, hi, hmi⟩ := List.mem_flatMap.mp hm
    refine ⟨i, List.mem_range.mp hi, ?_⟩
    have : m ∈ (stream i (W i) (fin i)).filter (MPIn.fromWorker i) := by
      rw [hfw i i, if_pos rfl]; exact hmi
    exact (List.mem_filter.mp this).2
  · intro j hj
    have : ∀ n, ((List.range n).flatMap (fun i => stream i (W i) (fin i))).filter (MPIn.fromWorker j) =
        if j < n then stream j (W j) (fin j) else [] := by
      intro n
      induction n with
      | zero => simp
      | succ n ih =>
        rw [List.range_succ, List.flatMap_append, List.filter_append, ih]
        simp only [List.flatMap_cons, List.flatMap_nil, List.append_nil]
        rw [hfw n j]
        by_cases h1 : j < n
        · rw [if_pos h1, if_neg (by omega), if_pos (by omega)]; simp
        · by_cases h2 : n = j
          · subst h2; rw [if_neg h1, if_pos rfl, if_pos (by omega)]; simp
          · rw [if_neg h1, if_neg h2, if_neg (by omega)]; simp
    rw [this k, if_pos hj]

end Nucs
