import NucsProofs.Engine.BcInv
/-!
  `bcLoopG_inv`: one propagation pass, under ANY scheduler that only picks queued constraints,
  preserves the engine invariant, only shrinks the domains and ends with an empty queue.
-/
namespace Nucs

/-- a scheduler is admissible when it picks a queued constraint whenever there is one -/
structure PickOk (pick : Picker) : Prop where
  some_ : ∀ trig prev i, pick trig prev = some i → getB trig i = true ∧ i < trig.length
  none_ : ∀ trig prev, pick trig prev = none → ∀ i, getB trig i = false

/-- constraint `q` of the problem -/
def Problem.prop (P : Problem) (q : Nat) : PropInst := P.props.getD q default

theorem Problem.prop_mem (P : Problem) (q : Nat) (hq : q < P.props.length) : P.prop q ∈ P.props := by
  unfold Problem.prop; simp [List.getD, List.getElem?_eq_getElem hq]

theorem Problem.prop_eq_getElem! (P : Problem) (q : Nat) : P.props[q]! = P.prop q := by
  unfold Problem.prop
  by_cases hq : q < P.props.length
  · simp [List.getD, List.getElem?_eq_getElem hq, getElem!_pos P.props q hq]
  · simp [List.getD, List.getElem?_eq_none (Nat.le_of_not_lt hq), getElem!_neg P.props q hq]

/-- variable positions refer to existing shared domains -/
def WFP (P : Problem) : Prop := ∀ p ∈ P.props, ∀ v ∈ p.vars, v.1 < P.shr.length

structure Inv (P : Problem) (s : State) : Prop where
  lenT : s.trig.length = P.props.length
  lenN : s.top.ne.length = P.props.length
  sub : Box.le s.top.doms P.shr
  nonempty : s.top.doms.Nonempty
  fix : ∀ q, q < P.props.length → getB s.top.ne q = true →
    getB s.trig q = true ∨ Fix (P.prop q) s.top.doms
  ent : ∀ q, q < P.props.length → getB s.top.ne q = false →
    ∀ t, inBox t (views s.top.doms (P.prop q).vars) → rel (P.prop q).alg (P.prop q).params t

theorem contract_at {P : Problem} (hP : ProbOk P) {D : Box} (hle : Box.le D P.shr) (q : Nat)
    (hq : q < P.props.length) : Contract (P.prop q).alg (P.prop q).params (views D (P.prop q).vars) :=
  (hP.local_ _ (P.prop_mem q hq)).mono _ _ _ (hP.contract _ (P.prop_mem q hq)) (views_le hle _)

/-- the invariant after one non-failing execution of constraint `pi` and its write-back, for any
    state `s1` whose queue / flags / domains are the ones the write-back produced -/
theorem Inv_step {P : Problem} (hP : ProbOk P) (hW : WFP P) {s : State} (hI : Inv P s)
    {pi : Nat} (hpi : pi < P.props.length) {st0 : Status} {out : Box} (hst0 : st0 ≠ .inc)
    (hrun : runAlg (P.prop pi).alg (P.prop pi).params (views s.top.doms (P.prop pi).vars) = .ok (st0, out))
    {ne' : List Bool} (hne' : (if st0 == .ent then s.top.ne.set pi false else s.top.ne) = ne')
    {w : WB} (hw : writeBack P ne' (P.prop pi).vars out
      { doms := s.top.doms, trig := s.trig.set pi false, changed := false, failed := false } = w)
    (s1 : State) (hd : s1.top.doms = w.doms) (hn : s1.top.ne = ne') (ht : s1.trig = w.trig) :
    s1.trig.length = P.props.length ∧ (w.failed = false → Inv P s1 ∧ Box.le s1.top.doms s.top.doms) := by
  have hloc := hP.local_ _ (P.prop_mem pi hpi)
  have hc := contract_at hP hI.sub pi hpi
  have hs := (hloc.sound _ _ _ _ hc (views_nonempty hI.nonempty _) hrun).1 hst0
  have hlen_out : out.length = (P.prop pi).vars.length := by
    rw [Box.le_length hs.1, views_length]
  have hlenD : s.top.doms.length = P.shr.length := Box.le_length hI.sub
  have spec := writeBack_spec P ne' (P.prop pi).vars out
    { doms := s.top.doms, trig := s.trig.set pi false, changed := false, failed := false } rfl
    (by simp [hI.lenT]) hlen_out
    (by intro v hv; simp only; rw [hlenD]; exact hW _ (P.prop_mem pi hpi) v hv)
  rw [hw] at spec
  obtain ⟨_, hlt, hok⟩ := spec
  rw [hd]
  refine ⟨by rw [ht]; simpa [hI.lenT] using hlt, fun hnf => ?_⟩
  have ok := hok hnf
  have hne'len : ne'.length = P.props.length := by rw [← hne']; split <;> simp [hI.lenN]
  have hne'_of : ∀ q, getB ne' q = true → getB s.top.ne q = true ∧ (q = pi → st0 ≠ .ent) := by
    intro q h
    rw [← hne'] at h
    split at h
    · rename_i he
      rw [getB_set] at h
      split at h
      · cases h
      · rename_i hne; exact ⟨h, fun hq => absurd ⟨hq.symm, by rw [hI.lenN]; exact hq ▸ hpi⟩ hne⟩
    · rename_i he; exact ⟨h, fun _ hent => he (by simp [hent])⟩
  refine ⟨⟨by rw [ht]; simpa [hI.lenT] using hlt, by rw [hn]; exact hne'len, by rw [hd]; exact Box.le_trans ok.le hI.sub,
    by rw [hd]; exact ok.nonempty hI.nonempty, ?_, ?_⟩, ok.le⟩
  · -- queued ∨ Fix
    intro q hq hen
    rw [hn] at hen; rw [ht, hd]
    have hwk := ok.wake q hq hen
    rw [Problem.prop_eq_getElem!] at hwk
    obtain ⟨hen0, hpi_ent⟩ := hne'_of q hen
    by_cases hqp : q = pi
    · subst hqp
      rcases hwk with h | h
      · exact Or.inl h
      · exact Or.inr (Fix_of_run hloc.trig hc hI.nonempty hrun hst0 ok.le ok.inside h)
    · rcases hI.fix q hq hen0 with h | h
      · left
        apply ok.mono
        simp only [getB_set]
        rw [if_neg (fun hh => hqp hh.1.symm)]; exact h
      · rcases hwk with h' | h'
        · exact Or.inl h'
        · exact Or.inr (Fix_mono h ok.le h')
  · -- disabled constraints stay satisfied
    intro q hq hdis t ht'
    rw [hn] at hdis; rw [hd] at ht'
    by_cases hen0 : getB s.top.ne q = true
    · have : q = pi ∧ st0 = .ent := by
        rw [← hne'] at hdis
        split at hdis
        · rename_i he
          rw [getB_set] at hdis
          split at hdis
          · rename_i h; exact ⟨h.1.symm, by simpa using he⟩
          · rw [hen0] at hdis; cases hdis
        · rw [hen0] at hdis; cases hdis
      obtain ⟨rfl, rfl⟩ := this
      exact hloc.entail _ _ _ hc (views_nonempty hI.nonempty _) hrun t (inBox_of_le ht' ok.inside)
    · have hen0' : getB s.top.ne q = false := by simpa using hen0
      exact hI.ent q hq hen0' t (inBox_of_le ht' (views_le ok.le _))

theorem afterRun_inv {P : Problem} (hP : ProbOk P) (hW : WFP P) {s : State} (hI : Inv P s)
    {pi : Nat} (hpi : pi < P.props.length) {st0 : Status} {out : Box} (hst0 : st0 ≠ .inc)
    (hrun : runAlg (P.prop pi).alg (P.prop pi).params (views s.top.doms (P.prop pi).vars) = .ok (st0, out)) :
    (afterRun P s pi st0 out).2.below = s.below ∧
    (afterRun P s pi st0 out).2.trig.length = P.props.length ∧
    ((afterRun P s pi st0 out).1 = false →
      Inv P (afterRun P s pi st0 out).2 ∧ Box.le (afterRun P s pi st0 out).2.top.doms s.top.doms) := by
  have h := Inv_step hP hW hI hpi hst0 hrun rfl rfl (afterRun P s pi st0 out).2 rfl rfl rfl
  exact ⟨rfl, h.1, h.2⟩

/-- what a finished pass guarantees -/
structure PassOk (P : Problem) (s s' : State) (st : BcStatus) : Prop where
  below : s'.below = s.below
  lenT : s'.trig.length = P.props.length
  inv : st ≠ .inconsistent → Inv P s'
  empty : st ≠ .inconsistent → ∀ i, getB s'.trig i = false
  le : st ≠ .inconsistent → Box.le s'.top.doms s.top.doms
  bound : st = .bound → s'.top.doms.isGround = true
  unbound : st = .unbound → s'.top.doms.isGround = false

theorem PassOk.fail {P : Problem} {s s1 : State} (hb : s1.below = s.below) (hl : s1.trig.length = P.props.length) :
    PassOk P s s1 .inconsistent :=
  ⟨hb, hl, fun h => absurd rfl h, fun h => absurd rfl h, fun h => absurd rfl h,
    fun h => (by cases h), fun h => (by cases h)⟩

/-- ONE PASS, ANY SCHEDULER: the invariant is preserved, domains only shrink, the queue ends empty -/
theorem bcLoopG_inv {pick : Picker} (hp : PickOk pick) {P : Problem} (hP : ProbOk P) (hW : WFP P) :
    ∀ (fuel : Nat) (prev : Option Nat) (s : State) (st : BcStatus) (s' : State), Inv P s →
      bcLoopG pick P fuel prev s = .ok (st, s') → PassOk P s s' st
  | 0, _, _, _, _, _, h => by simp [bcLoopG] at h
  | fuel + 1, prev, s, st, s', hI, h => by
    simp only [bcLoopG] at h
    cases hpick : pick s.trig prev with
    | none =>
      rw [hpick] at h
      simp only at h
      injection h with h; injection h with h1 h2; subst h2
      refine ⟨rfl, hI.lenT, fun _ => hI, fun _ => hp.none_ _ _ hpick, fun _ => Box.le_refl _, ?_, ?_⟩
      · intro hb; subst hb
        cases hg : s.top.doms.isGround with
        | true => rfl
        | false => rw [hg] at h1; simp at h1
      · intro hb; subst hb
        cases hg : s.top.doms.isGround with
        | false => rfl
        | true => rw [hg] at h1; simp at h1
    | some pi =>
      rw [hpick] at h
      simp only at h
      obtain ⟨_, hpi⟩ := hp.some_ _ _ _ hpick
      rw [hI.lenT] at hpi
      have hprop : P.props.getD pi default = P.prop pi := rfl
      rw [hprop] at h
      cases hrun : runAlg (P.prop pi).alg (P.prop pi).params (views s.top.doms (P.prop pi).vars) with
      | error e => rw [hrun] at h; cases e <;> simp at h
      | ok r =>
        obtain ⟨st0, out⟩ := r
        rw [hrun] at h
        have tail : st0 ≠ .inc →
            (if (afterRun P s pi st0 out).1 = true then (Except.ok (BcStatus.inconsistent, (afterRun P s pi st0 out).2) : Except EngErr (BcStatus × State))
              else bcLoopG pick P fuel (some pi) (afterRun P s pi st0 out).2) = .ok (st, s') → PassOk P s s' st := by
          intro hst0 h
          obtain ⟨hb, hl, hinv⟩ := afterRun_inv hP hW hI hpi hst0 hrun
          split at h
          · injection h with h; injection h with h1 h2; subst h1; subst h2
            exact PassOk.fail hb hl
          · rename_i hnf
            obtain ⟨hI1, hle1⟩ := hinv (by simpa using hnf)
            have ih := bcLoopG_inv hp hP hW fuel (some pi) _ st s' hI1 h
            exact ⟨ih.below.trans hb, ih.lenT, ih.inv, ih.empty, fun hh => Box.le_trans (ih.le hh) hle1, ih.bound, ih.unbound⟩
        cases st0 with
        | inc =>
          simp only at h
          injection h with h; injection h with h1 h2; subst h1; subst h2
          exact PassOk.fail rfl (by simp [failRun, hI.lenT])
        | cons => exact tail (by decide) (by simpa using h)
        | ent => exact tail (by decide) (by simpa using h)

end Nucs
