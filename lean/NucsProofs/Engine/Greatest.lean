import NucsProofs.Engine.Sched
import NucsProofs.SpecEngine
/-!
  One propagation pass, ANY admissible scheduler: what the pass can never remove.

  * `KeepsAt a ps W`        : every in-contract call of `a` on a box `V ⊇ W` neither fails nor cuts
                              into `W`
  * `writeBack_keeps`       : a write-back whose result box contains the views of a non-empty
                              sub-box `E` of the stored domains does not fail and keeps `E` inside
  * `bcLoopG_keeps_box`     : the generic induction on the fuel of `bcLoopG`
  * `bcLoopG_keeps_solutions`, `bcLoopG_keeps_Sol`, `bcPass_keeps_Sol`
                            : engine-level C05 — an assignment satisfying every enabled constraint
                              survives the pass, and the pass does not report inconsistency
  * `bcLoopG_greatest`      : the statement `C08_greatest_full` of NucsProofs/Properties/C08.lean —
                              with exact algorithms, every non-empty common fixpoint below the
                              current domains survives the pass; with `C08_pass` the result of the
                              pass is the GREATEST common fixpoint, whatever the scheduler and the
                              posting order
-/
namespace Nucs

/-! ### point boxes and corner tuples -/

theorem le_pointBox_iff : ∀ {t : List Int} {B : Box}, Box.le (pointBox t) B ↔ inBox t B
  | [], [] => by simp [pointBox, Box.le, inBox]
  | [], _ :: _ => by simp [pointBox, Box.le, inBox]
  | _ :: _, [] => by simp [pointBox, Box.le, inBox]
  | x :: xs, d :: ds => by
    have ih := le_pointBox_iff (t := xs) (B := ds)
    simp only [pointBox, List.map_cons, Box.le, inBox, inDom] at ih ⊢
    rw [ih]

theorem pointBox_nonempty (t : List Int) : (pointBox t).Nonempty := by
  intro d hd
  simp only [pointBox, List.mem_map] at hd
  obtain ⟨v, _, rfl⟩ := hd
  exact Int.le_refl _

theorem getDom_pointBox (t : List Int) (i : Nat) : getDom (pointBox t) i = (getI t i, getI t i) := by
  unfold getDom getI pointBox
  by_cases h : i < t.length
  · simp [List.getD, h]
  · simp [List.getD, List.getElem?_eq_none (Nat.le_of_not_lt h)]

theorem views_pointBox (σ : List Int) (vars : List (Nat × Int)) :
    views (pointBox σ) vars = pointBox (valuesOf vars σ) := by
  simp only [views, valuesOf, pointBox, List.map_map]
  apply List.map_congr_left
  intro v _
  have := getDom_pointBox σ v.1
  simp only [pointBox] at this
  simp [Function.comp, this, Dom.shift]

/-- step (a): an assignment inside the shared domains is seen inside the views -/
theorem inBox_views {σ : List Int} {D : Box} (h : inBox σ D) (vars : List (Nat × Int)) :
    inBox (valuesOf vars σ) (views D vars) := by
  have := views_le (le_pointBox_iff.mpr h) vars
  rw [views_pointBox] at this
  exact le_pointBox_iff.mp this

theorem inBox_lo : ∀ {W : Box}, W.Nonempty → inBox (W.map Prod.fst) W
  | [], _ => trivial
  | _ :: _, h => by
    have h' := Box.nonempty_cons.mp h
    exact ⟨⟨Int.le_refl _, h'.1⟩, inBox_lo h'.2⟩

theorem inBox_hi : ∀ {W : Box}, W.Nonempty → inBox (W.map Prod.snd) W
  | [], _ => trivial
  | _ :: _, h => by
    have h' := Box.nonempty_cons.mp h
    exact ⟨⟨h'.1, Int.le_refl _⟩, inBox_hi h'.2⟩

theorem getI_lo (W : Box) (k : Nat) (hk : k < W.length) : getI (W.map Prod.fst) k = (getDom W k).1 := by
  simp [getI, getDom, List.getD, hk]

theorem getI_hi (W : Box) (k : Nat) (hk : k < W.length) : getI (W.map Prod.snd) k = (getDom W k).2 := by
  simp [getI, getDom, List.getD, hk]

/-! ### what a call cannot cut -/

/-- every in-contract call on a box around `W` neither fails nor cuts into `W` -/
def KeepsAt (a : Alg) (ps : List Int) (W : Box) : Prop :=
  ∀ V st out, Contract a ps V → V.Nonempty → Box.le W V → runAlg a ps V = .ok (st, out) →
    st ≠ .inc ∧ Box.le W out

/-- step (b): a sound algorithm keeps a box each of whose bounds is attained by a solution
    inside it -/
theorem keepsAt_of_bounds {a : Alg} {ps : List Int} {W : Box} (hs : Sound a)
    (h0 : ∃ t, inBox t W ∧ rel a ps t)
    (hb : ∀ k, k < W.length →
      (∃ t, inBox t W ∧ rel a ps t ∧ getI t k = (getDom W k).1) ∧
      (∃ t, inBox t W ∧ rel a ps t ∧ getI t k = (getDom W k).2)) : KeepsAt a ps W := by
  intro V st out hc hne hle hrun
  have S := hs ps V st out hc hne hrun
  have hst : st ≠ .inc := by
    intro h
    obtain ⟨t, ht, hr⟩ := h0
    exact S.2 h t (inBox_of_le ht hle) hr
  refine ⟨hst, ?_⟩
  obtain ⟨hle', _, hkeep⟩ := S.1 hst
  have hlen : W.length = out.length := by rw [Box.le_length hle, Box.le_length hle']
  apply Box.le_of_get hlen
  intro k hk
  obtain ⟨⟨t1, ht1, hr1, e1⟩, ⟨t2, ht2, hr2, e2⟩⟩ := hb k (by omega)
  have g1 := inBox_get k (hkeep t1 (inBox_of_le ht1 hle) hr1) hk
  have g2 := inBox_get k (hkeep t2 (inBox_of_le ht2 hle) hr2) hk
  rw [e1] at g1; rw [e2] at g2
  exact ⟨g1.1, g2.2⟩

/-- a point that satisfies the relation is never cut (C05 for one call) -/
theorem keepsAt_point {a : Alg} {ps : List Int} {t : List Int} (hs : Sound a) (hr : rel a ps t) :
    KeepsAt a ps (pointBox t) := by
  apply keepsAt_of_bounds hs ⟨t, inBox_pointBox_self t, hr⟩
  intro k _
  rw [getDom_pointBox]
  exact ⟨⟨t, inBox_pointBox_self t, hr, rfl⟩, ⟨t, inBox_pointBox_self t, hr, rfl⟩⟩

/-- a box all of whose tuples satisfy the relation is never cut -/
theorem keepsAt_of_all {a : Alg} {ps : List Int} {W : Box} (hs : Sound a) (hne : W.Nonempty)
    (hall : ∀ t, inBox t W → rel a ps t) : KeepsAt a ps W := by
  apply keepsAt_of_bounds hs ⟨_, inBox_lo hne, hall _ (inBox_lo hne)⟩
  intro k hk
  exact ⟨⟨_, inBox_lo hne, hall _ (inBox_lo hne), getI_lo W k hk⟩,
    ⟨_, inBox_hi hne, hall _ (inBox_hi hne), getI_hi W k hk⟩⟩

/-- arity 0: the only box around `[]` is `[]` itself -/
theorem keepsAt_nil {a : Alg} {ps : List Int} {st' : Status} (h : runAlg a ps [] = .ok (st', []))
    (hst : st' ≠ .inc) : KeepsAt a ps [] := by
  intro V st out _ _ hle hrun
  have hV : V = [] := by
    cases V with
    | nil => rfl
    | cons _ _ => simp [Box.le] at hle
  subst hV
  rw [h] at hrun
  injection hrun with hrun; injection hrun with h1 h2
  subst h1; subst h2
  exact ⟨hst, trivial⟩

/-- a fixpoint of an exact, sound algorithm is never cut by a call on a larger box -/
theorem keepsAt_of_exact {a : Alg} {ps : List Int} {W : Box} (hs : Sound a) (hx : Exact a)
    (hc : Contract a ps W) (hne : W.Nonempty) {st' : Status} (hfix : runAlg a ps W = .ok (st', W))
    (hst : st' ≠ .inc) : KeepsAt a ps W := by
  cases W with
  | nil => exact keepsAt_nil hfix hst
  | cons d ds =>
    have X := (hx ps (d :: ds) st' (d :: ds) hc hne hfix hst).1
    obtain ⟨⟨t, ht, hr, _⟩, _⟩ := X 0 (by simp)
    exact keepsAt_of_bounds hs ⟨t, ht, hr⟩ X

/-! ### the write-back -/

/-- step (c): when the result box `out` of the executed constraint contains the views of a
    non-empty sub-box `E` of the stored domains, the write-back does not fail and `E` stays inside
    the stored domains (each step intersects the stored domain with `out[k] - off`) -/
theorem writeBack_keeps (P : Problem) (ne : List Bool) (E : Box) (hE : E.Nonempty) :
    ∀ (vars : List (Nat × Int)) (out : Box) (w : WB), w.failed = false → Box.le E w.doms →
      Box.le (views E vars) out →
      (writeBack P ne vars out w).failed = false ∧ Box.le E (writeBack P ne vars out w).doms
  | [], [], w, hf, hle, _ => by simpa [writeBack] using And.intro hf hle
  | [], _ :: _, _, _, _, hin => by simp [views, Box.le] at hin
  | _ :: _, [], _, _, _, hin => by simp [views, Box.le] at hin
  | (idx, off) :: vs, o :: os, w, hf, hle, hin => by
    rw [views_cons] at hin
    obtain ⟨h1, h2⟩ := hin
    simp only [Dom.shift] at h1
    have hcur := Box.le_getDom hle idx
    have hne := Box.nonempty_getDom hE idx
    have key : (wbNew (getDom w.doms idx) o off).1 ≤ (getDom E idx).1 ∧
        (getDom E idx).2 ≤ (wbNew (getDom w.doms idx) o off).2 := by
      unfold wbNew; constructor <;> (simp only; split <;> omega)
    simp only [writeBack, hf, Bool.false_eq_true, if_false]
    by_cases hev : wbChanged (getDom w.doms idx) o off = true
    · rw [if_pos hev]
      have hemp : ¬ (wbNew (getDom w.doms idx) o off).1 > (wbNew (getDom w.doms idx) o off).2 := by omega
      rw [if_neg hemp]
      apply writeBack_keeps P ne E hE vs os _ rfl _ h2
      apply Box.le_of_get (by simp [Box.le_length hle])
      intro k _
      simp only [getDom_set]
      split
      · rename_i h; obtain ⟨rfl, _⟩ := h
        exact key
      · exact Box.le_getDom hle k
    · rw [if_neg hev]
      exact writeBack_keeps P ne E hE vs os w hf hle h2

theorem afterRun_keeps (P : Problem) (s : State) (pi : Nat) (st : Status) (out : Box) {E : Box}
    (hE : E.Nonempty) (hle : Box.le E s.top.doms) (hin : Box.le (views E (P.prop pi).vars) out) :
    (afterRun P s pi st out).1 = false ∧ Box.le E (afterRun P s pi st out).2.top.doms :=
  writeBack_keeps P _ E hE (P.prop pi).vars out _ rfl hle hin

/-! ### the pass -/

/-- the generic induction: a non-empty sub-box `E` of the current domains whose views no
    constraint can cut stays inside the domains throughout the pass, and the pass does not
    report inconsistency -/
theorem bcLoopG_keeps_box {pick : Picker} (hp : PickOk pick) {P : Problem} (hP : ProbOk P) (hW : WFP P)
    {E : Box} (hE : E.Nonempty)
    (hK : ∀ q, q < P.props.length → KeepsAt (P.prop q).alg (P.prop q).params (views E (P.prop q).vars)) :
    ∀ (fuel : Nat) (prev : Option Nat) (s : State) (st : BcStatus) (s' : State), Inv P s →
      Box.le E s.top.doms → bcLoopG pick P fuel prev s = .ok (st, s') →
      st ≠ .inconsistent ∧ Box.le E s'.top.doms
  | 0, _, _, _, _, _, _, h => by simp [bcLoopG] at h
  | fuel + 1, prev, s, st, s', hI, hle, h => by
    simp only [bcLoopG] at h
    cases hpick : pick s.trig prev with
    | none =>
      rw [hpick] at h
      simp only at h
      injection h with h; injection h with h1 h2; subst h2
      refine ⟨?_, hle⟩
      rw [← h1]; split <;> simp
    | some pi =>
      rw [hpick] at h
      simp only at h
      obtain ⟨_, hpi⟩ := hp.some_ _ _ _ hpick
      rw [hI.lenT] at hpi
      have hprop : P.props.getD pi default = P.prop pi := rfl
      rw [hprop] at h
      cases hrun : runAlg (P.prop pi).alg (P.prop pi).params (views s.top.doms (P.prop pi).vars) with
      | error e => rw [hrun] at h; cases e <;> simp at h
      | ok r =>
        obtain ⟨st0, out⟩ := r
        rw [hrun] at h
        have hc := contract_at hP hI.sub pi hpi
        obtain ⟨hst0, hin⟩ := hK pi hpi _ st0 out hc (views_nonempty hI.nonempty _) (views_le hle _) hrun
        obtain ⟨hnf, hle1⟩ := afterRun_keeps P s pi st0 out hE hle hin
        obtain ⟨_, _, hinv⟩ := afterRun_inv hP hW hI hpi hst0 hrun
        obtain ⟨hI1, _⟩ := hinv hnf
        have tail :
            (if (afterRun P s pi st0 out).1 = true then (Except.ok (BcStatus.inconsistent, (afterRun P s pi st0 out).2) : Except EngErr (BcStatus × State))
              else bcLoopG pick P fuel (some pi) (afterRun P s pi st0 out).2) = .ok (st, s') →
            st ≠ .inconsistent ∧ Box.le E s'.top.doms := by
          intro h
          rw [hnf] at h
          simp only [Bool.false_eq_true, if_false] at h
          exact bcLoopG_keeps_box hp hP hW hE hK fuel (some pi) _ st s' hI1 hle1 h
        cases st0 with
        | inc => exact absurd rfl hst0
        | cons => exact tail (by simpa using h)
        | ent => exact tail (by simpa using h)

/-- ENGINE-LEVEL C05, one pass, any scheduler: an assignment of the shared domains that lies in
    the current domains and satisfies every ENABLED constraint survives the pass, and the pass
    does not report inconsistency.  (Disabled constraints are satisfied by every tuple of their
    views — `Inv.ent` — so they cannot cut either, should a scheduler pick one.) -/
theorem bcLoopG_keeps_solutions {pick : Picker} (hp : PickOk pick) {P : Problem} (hP : ProbOk P) (hW : WFP P)
    (fuel : Nat) (prev : Option Nat) (s s' : State) (st : BcStatus) (hI : Inv P s)
    (h : bcLoopG pick P fuel prev s = .ok (st, s'))
    (σ : List Int) (hσ : inBox σ s.top.doms)
    (hsat : ∀ q, q < P.props.length → getB s.top.ne q = true →
      rel (P.prop q).alg (P.prop q).params (valuesOf (P.prop q).vars σ)) :
    st ≠ .inconsistent ∧ inBox σ s'.top.doms := by
  have hrel : ∀ q, q < P.props.length → rel (P.prop q).alg (P.prop q).params (valuesOf (P.prop q).vars σ) := by
    intro q hq
    cases hen : getB s.top.ne q with
    | true => exact hsat q hq hen
    | false => exact hI.ent q hq hen _ (inBox_views hσ _)
  have r := bcLoopG_keeps_box hp hP hW (pointBox_nonempty σ)
    (fun q hq => by
      rw [views_pointBox]
      exact keepsAt_point (hP.local_ _ (P.prop_mem q hq)).sound (hrel q hq))
    fuel prev s st s' hI (le_pointBox_iff.mpr hσ) h
  exact ⟨r.1, le_pointBox_iff.mp r.2⟩

/-- the same for a solution of the whole problem -/
theorem bcLoopG_keeps_Sol {pick : Picker} (hp : PickOk pick) {P : Problem} (hP : ProbOk P) (hW : WFP P)
    (fuel : Nat) (prev : Option Nat) (s s' : State) (st : BcStatus) (hI : Inv P s)
    (h : bcLoopG pick P fuel prev s = .ok (st, s'))
    (σ : List Int) (hsol : Sol P σ) (hσ : inBox σ s.top.doms) :
    st ≠ .inconsistent ∧ inBox σ s'.top.doms :=
  bcLoopG_keeps_solutions hp hP hW fuel prev s s' st hI h σ hσ
    (fun q hq _ => hsol.2 _ (P.prop_mem q hq))

/-- the shipped pass from the root keeps every solution and does not report inconsistency when
    there is one -/
theorem bcPass_keeps_Sol {P : Problem} (hP : ProbOk P) (hW : WFP P) {σ : List Int} (hsol : Sol P σ)
    {st : BcStatus} {s' : State} (h : bcPass P (State.init P) = .ok (st, s')) :
    st ≠ .inconsistent ∧ inBox σ s'.top.doms := by
  have h0 := Inv_init P (nonempty_of_inBox hsol.1)
  have hI : ∀ x : Stats, Inv P { State.init P with stats := x } := fun x =>
    ⟨h0.lenT, h0.lenN, h0.sub, h0.nonempty, h0.fix, h0.ent⟩
  exact bcLoopG_keeps_Sol pickProp_ok hP hW _ none _ s' st (hI _) h σ hsol hsol.1

/-- C08 (c), the statement `C08_greatest_full` of NucsProofs/Properties/C08.lean: when every posted
    algorithm is exact, any non-empty sub-box `E` of the current domains on which every enabled
    constraint is at a fixpoint stays inside the domains throughout the pass, and the pass does
    not report inconsistency — for every admissible scheduler and every posting order.  With
    `C08_pass` (the result is itself a common fixpoint): the result is the greatest common
    fixpoint below the input. -/
theorem bcLoopG_greatest :
    ∀ (pick : Picker), PickOk pick → ∀ (P : Problem), ProbOk P → WFP P → (∀ p ∈ P.props, Exact p.alg) →
    ∀ (fuel : Nat) (prev : Option Nat) (s s' : State) (st : BcStatus), Inv P s →
      bcLoopG pick P fuel prev s = .ok (st, s') →
      ∀ E : Box, Box.le E s.top.doms → E.Nonempty →
        (∀ q, q < P.props.length → getB s.top.ne q = true →
          ∃ st', runAlg (P.prop q).alg (P.prop q).params (views E (P.prop q).vars) = .ok (st', views E (P.prop q).vars) ∧ st' ≠ .inc) →
        st ≠ .inconsistent ∧ Box.le E s'.top.doms := by
  intro pick hp P hP hW hX fuel prev s s' st hI h E hle hE hfix
  refine bcLoopG_keeps_box hp hP hW hE (fun q hq => ?_) fuel prev s st s' hI hle h
  have hs := (hP.local_ _ (P.prop_mem q hq)).sound
  cases hen : getB s.top.ne q with
  | true =>
    obtain ⟨st', hrun, hst'⟩ := hfix q hq hen
    exact keepsAt_of_exact hs (hX _ (P.prop_mem q hq))
      (contract_at hP (Box.le_trans hle hI.sub) q hq) (views_nonempty hE _) hrun hst'
  | false =>
    exact keepsAt_of_all hs (views_nonempty hE _)
      (fun t ht => hI.ent q hq hen t (inBox_of_le ht (views_le hle _)))

end Nucs
