import NucsProofs.Engine.StackBound
import NucsProofs.Engine.Greatest
import NucsProofs.Engine.C08Local
/-!
  C10 — shaving is a sound strengthening of bound consistency
  (`shaveBound`, `shavingLoop`, `shavingPass` of NucsModel/Engine/Search.lean;
  nucs/solvers/shaving_consistency_algorithm.py).

  * `Shv.probeG_ok` / `Shv.shaveBound_ok` : one probe from a state whose enabled constraints are all at
    a fixpoint.  Refuted: the alternative level (bound value removed) is resumed with `Inv`, and no
    assignment satisfying the constraints is lost (it would have survived the pass on the probe
    level).  Not refuted: the resumed level carries EXACTLY the domains and flags of the state before
    the probe (only the queue and the statistics differ), so `Inv` and `AllFix` still hold.
  * `Shv.loop_ok`   : the loop invariant `Shv.LoopPre` (after an unrefuted probe: `Inv ∧ AllFix ∧ not
    ground`; after a refuted one: `Inv`, and a pass runs first) gives `Shv.StepOk`.
  * `C10_stack_unchanged`, `C10_shrinks`, `C10_keeps_solutions`, `C10_keeps_Sol` (any problem);
    `C10_fixpoint`, `C10_le_bc`, `C10_consOk_shaving` (problems with at least one shared domain);
    `C10_solveOne_sound`, `C10_solveAll_sound`, `C10_optimize_sound` (any problem).
  * FINDING `C10_empty_problem`, `C10_consOk_shaving_empty_false`: without any shared domain the
    shaving pass answers UNBOUND on a ground (empty) box without running a constraint; `ConsOk` is
    false there.  The search then stops with `noDecision` (`Shv.solveOne_empty`), so the end-to-end
    theorems hold without the side condition.
-/
namespace Nucs

/-! ### small facts -/

theorem Shv.set_getDom_self (D : Box) (d : Nat) : D.set d (getDom D d) = D := by
  apply Box.ext_get (by simp)
  intro k _
  rw [getDom_set]
  split
  · rename_i h; rw [h.1]
  · rfl

theorem Shv.inBox_set {σ : List Int} {D : Box} {d : Nat} {part : Dom} (h : inBox σ D)
    (hv : inDom (getI σ d) part) : inBox σ (D.set d part) := by
  apply le_pointBox_iff.mp
  have hl := le_pointBox_iff.mpr h
  apply Box.le_of_get (by simp [Box.le_length hl])
  intro k _
  rw [getDom_set]
  split
  · rename_i hh; obtain ⟨rfl, _⟩ := hh
    rw [getDom_pointBox]; exact hv
  · exact Box.le_getDom hl k

/-- `σ` satisfies every posted constraint -/
def Shv.Sat (P : Problem) (σ : List Int) : Prop :=
  ∀ q, q < P.props.length → rel (P.prop q).alg (P.prop q).params (valuesOf (P.prop q).vars σ)

/-- an assignment of the current box that satisfies the enabled constraints satisfies all of them -/
theorem Shv.sat_of_enabled {P : Problem} {s : State} (hI : Inv P s) {σ : List Int} (hσ : inBox σ s.top.doms)
    (hsat : ∀ q, q < P.props.length → getB s.top.ne q = true →
      rel (P.prop q).alg (P.prop q).params (valuesOf (P.prop q).vars σ)) : Shv.Sat P σ := by
  intro q hq
  cases hen : getB s.top.ne q with
  | true => exact hsat q hq hen
  | false => exact hI.ent q hq hen _ (inBox_views hσ _)

/-- one plain pass: `PassOk`, and every assignment satisfying the constraints survives -/
theorem Shv.bcPass_step {P : Problem} (hP : ProbOk P) (hW : WFP P) {s s' : State} {st : BcStatus} (hI : Inv P s)
    (h : bcPass P s = .ok (st, s')) :
    PassOk P s s' st ∧ ∀ σ, inBox σ s.top.doms → Shv.Sat P σ → st ≠ .inconsistent ∧ inBox σ s'.top.doms := by
  refine ⟨bcPass_ok hP hW hI h, fun σ hσ hsat => ?_⟩
  exact bcLoopG_keeps_solutions pickProp_ok hP hW _ none _ s' st (Inv_stats hI _) h σ hσ (fun q hq _ => hsat q hq)

/-- resuming a level that carries exactly the domains and flags of a state whose constraints are
    all at a fixpoint: the invariant holds whatever is (still) queued -/
theorem Shv.resume_inv {P : Problem} {s : State} (hI : Inv P s) (hfix : AllFix P s) (l : Level)
    (hd : l.doms = s.top.doms) (hn : l.ne = s.top.ne) (below : List Level) (trig : List Bool)
    (hlen : trig.length = P.props.length) (stats : Stats) :
    Inv P { top := l, below := below, trig := trig, stats := stats } := by
  refine ⟨hlen, by simp only; rw [hn]; exact hI.lenN, by simp only; rw [hd]; exact hI.sub,
    by simp only; rw [hd]; exact hI.nonempty, ?_, ?_⟩
  · intro q hq hen
    simp only at hen ⊢
    rw [hn] at hen; rw [hd]
    exact Or.inr (hfix q hq hen)
  · intro q hq hdis t ht
    simp only at hdis ht
    rw [hn] at hdis; rw [hd] at ht
    exact hI.ent q hq hdis t ht

/-! ### one probe -/

/-- `shaveBound` for an arbitrary branching decision `b` and give-back function `restore` -/
def Shv.probeG (P : Problem) (d : Nat) (b : Branch) (restore : Dom → Dom) (s : State) : Except EngErr (Bool × State) :=
  match bcPass P { (s.push b) with trig := addProps P (s.push b).trig (s.push b).top.ne d b.events } with
  | .error e => .error e
  | .ok (st, s2) =>
    match backtrack P (if st == .inconsistent then s2
        else match s2.below with
          | [] => s2
          | l :: rest => { s2 with below := l.setDom d (restore (getDom l.doms d)) :: rest }) with
    | none => .error .stackOverflow
    | some s4 => .ok (st == .inconsistent, s4)

theorem Shv.shaveBound_eq (P : Problem) (isMax : Bool) (d : Nat) (s : State) :
    shaveBound P isMax d s = Shv.probeG P d (if isMax then maxValue s.top d else minValue s.top d)
      (fun dom => if isMax then (dom.1, dom.2 + 1) else (dom.1 - 1, dom.2)) s := rfl

/-- what one probe guarantees -/
structure Shv.ProbeOk (P : Problem) (s s4 : State) (shaved : Bool) : Prop where
  below : s4.below = s.below
  inv : Inv P s4
  same : shaved = false → s4.top.doms = s.top.doms ∧ s4.top.ne = s.top.ne
  le : Box.le s4.top.doms s.top.doms
  keeps : ∀ σ, inBox σ s.top.doms → Shv.Sat P σ → inBox σ s4.top.doms

theorem Shv.probeG_ok {P : Problem} (hP : ProbOk P) (hW : WFP P) {s : State} (hI : Inv P s) (hfix : AllFix P s)
    (hstack : StackOk P s.below) {d : Nat} (hd : d < s.top.doms.length) {b : Branch} (hb : BranchOk s.top d b)
    {alt : Level} (halt : b.alts = [alt]) (restore : Dom → Dom)
    (hrestore : alt.doms.set d (restore (getDom alt.doms d)) = s.top.doms)
    {shaved : Bool} {s4 : State} (h : Shv.probeG P d b restore s = .ok (shaved, s4)) :
    Shv.ProbeOk P s s4 shaved := by
  have hpre1 : Pre P { (s.push b) with trig := addProps P (s.push b).trig (s.push b).top.ne d b.events } :=
    push_pre hI hfix hstack hd hb (s.push b).stats
  have haltl : alt ∈ b.levels := by simp [Branch.levels, halt]
  have halt_o := hb.others alt haltl
  simp only [Shv.probeG] at h
  cases hpass : bcPass P { (s.push b) with trig := addProps P (s.push b).trig (s.push b).top.ne d b.events } with
  | error e => rw [hpass] at h; simp at h
  | ok res =>
    obtain ⟨st, s2⟩ := res
    rw [hpass] at h
    simp only at h
    obtain ⟨pr, hkeep⟩ := Shv.bcPass_step hP hW hpre1.inv hpass
    have hb2 : s2.below = alt :: s.below := by rw [pr.below]; simp [State.push, halt]
    by_cases hst : st = .inconsistent
    · subst hst
      simp only [beq_self_eq_true, if_true] at h
      cases hbt : backtrack P s2 with
      | none => rw [hbt] at h; simp at h
      | some s4' =>
        rw [hbt] at h
        injection h with h; injection h with h1 h2; subst h1; subst h2
        have hpre4 := backtrack_pre ⟨pr.lenT, by rw [pr.below]; exact hpre1.stack⟩ hbt
        unfold backtrack at hbt
        rw [hb2] at hbt
        injection hbt with hbt; subst hbt
        have hle : Box.le alt.doms s.top.doms := by
          rw [halt_o.1]; exact views_set_le (hb.part_sub alt haltl)
        refine ⟨rfl, hpre4.inv, fun hh => by simp at hh, hle, ?_⟩
        intro σ hσ hsat
        simp only
        have hσd := inBox_get d hσ hd
        obtain ⟨lv, hlv, hin⟩ := (hb.cover (getI σ d)).mp hσd
        simp only [Branch.levels, halt, List.mem_cons, List.mem_nil_iff, or_false] at hlv
        rcases hlv with rfl | rfl
        · -- `σ` would lie in the probe box: the pass on it cannot fail
          exfalso
          have ht := hb.others b.taken (by simp [Branch.levels])
          have : inBox σ b.taken.doms := by rw [ht.1]; exact Shv.inBox_set hσ hin
          exact (hkeep σ this hsat).1 rfl
        · rw [halt_o.1]; exact Shv.inBox_set hσ hin
    · have hne : (st == BcStatus.inconsistent) = false := by
        cases st <;> simp at hst ⊢
      rw [hne, hb2] at h
      simp only [Bool.false_eq_true, if_false] at h
      simp only [backtrack] at h
      injection h with h; injection h with h1 h2; subst h1; subst h2
      have hdoms : (alt.setDom d (restore (getDom alt.doms d))).doms = s.top.doms := hrestore
      have hnes : (alt.setDom d (restore (getDom alt.doms d))).ne = s.top.ne := halt_o.2
      refine ⟨rfl, ?_, fun _ => ⟨hdoms, hnes⟩, by simp only; rw [hdoms]; exact Box.le_refl _,
        fun σ hσ _ => by simp only; rw [hdoms]; exact hσ⟩
      exact Shv.resume_inv hI hfix _ hdoms hnes _ _ (by rw [addProps_length]; exact pr.lenT) _

/-- `shave_bound` from a state whose constraints are all at a fixpoint, on an unbound domain -/
theorem Shv.shaveBound_ok {P : Problem} (hP : ProbOk P) (hW : WFP P) {s : State} (hI : Inv P s) (hfix : AllFix P s)
    (hstack : StackOk P s.below) (isMax : Bool) {d : Nat} (hub : (getDom s.top.doms d).1 < (getDom s.top.doms d).2)
    {shaved : Bool} {s4 : State} (h : shaveBound P isMax d s = .ok (shaved, s4)) : Shv.ProbeOk P s s4 shaved := by
  have hd := lt_length_of_unbound _ d hub
  rw [Shv.shaveBound_eq] at h
  cases isMax with
  | false =>
    refine Shv.probeG_ok hP hW hI hfix hstack hd (minValue_ok s.top d hd hub) (alt := _) rfl _ ?_ h
    simp only [Level.setDom, getDom_set, hd, and_self, if_true, Bool.false_eq_true, if_false, List.set_set]
    rw [show (getDom s.top.doms d).1 + 1 - 1 = (getDom s.top.doms d).1 by omega]
    exact Shv.set_getDom_self _ _
  | true =>
    refine Shv.probeG_ok hP hW hI hfix hstack hd (maxValue_ok s.top d hd hub) (alt := _) rfl _ ?_ h
    simp only [Level.setDom, getDom_set, hd, and_self, if_true, List.set_set]
    rw [show (getDom s.top.doms d).2 - 1 + 1 = (getDom s.top.doms d).2 by omega]
    exact Shv.set_getDom_self _ _

/-! ### the loop -/

/-- what a stretch of the shaving loop guarantees -/
structure Shv.StepOk (P : Problem) (s s' : State) (st : BcStatus) : Prop where
  below : s'.below = s.below
  lenT : s'.trig.length = P.props.length
  inv : st ≠ .inconsistent → Inv P s' ∧ AllFix P s' ∧ Box.le s'.top.doms s.top.doms
  bound : st = .bound → s'.top.doms.isGround = true
  unbound : st = .unbound → s'.top.doms.isGround = false
  keeps : ∀ σ, inBox σ s.top.doms → Shv.Sat P σ → st ≠ .inconsistent ∧ inBox σ s'.top.doms

theorem Shv.StepOk.trans {P : Problem} {s s1 s' : State} {st : BcStatus} (hb : s1.below = s.below)
    (hle : Box.le s1.top.doms s.top.doms) (hk : ∀ σ, inBox σ s.top.doms → Shv.Sat P σ → inBox σ s1.top.doms)
    (r : Shv.StepOk P s1 s' st) : Shv.StepOk P s s' st :=
  ⟨r.below.trans hb, r.lenT, fun h => ⟨(r.inv h).1, (r.inv h).2.1, Box.le_trans (r.inv h).2.2 hle⟩, r.bound, r.unbound,
    fun σ hσ hsat => r.keeps σ (hk σ hσ hsat) hsat⟩

/-- a state that is already at a common fixpoint and not ground: "UNBOUND, nothing to do" -/
theorem Shv.StepOk.refl {P : Problem} {s : State} (hI : Inv P s) (hfix : AllFix P s)
    (hng : s.top.doms.isGround = false) : Shv.StepOk P s s .unbound :=
  ⟨rfl, hI.lenT, fun _ => ⟨hI, hfix, Box.le_refl _⟩, fun h => (by cases h), fun _ => hng,
    fun σ hσ _ => ⟨by decide, hσ⟩⟩

theorem Shv.StepOk.of_pass {P : Problem} {s s' : State} {st : BcStatus} (pr : PassOk P s s' st)
    (hk : ∀ σ, inBox σ s.top.doms → Shv.Sat P σ → st ≠ .inconsistent ∧ inBox σ s'.top.doms) : Shv.StepOk P s s' st :=
  ⟨pr.below, pr.lenT, fun h => ⟨pr.inv h, AllFix_of_pass pr h, pr.le h⟩, pr.bound, pr.unbound, hk⟩

/-- the part of one iteration after the (possibly skipped) pass -/
def Shv.cont (P : Problem) (decision : List Nat) (fuel : Nat) (isMax : Bool) (startIdx : Nat) (s1 : State) :
    Except EngErr (BcStatus × State) :=
  match firstNotInstantiated s1.top.doms (decision.filter (fun d => decide (d ≥ startIdx))) with
  | none => .ok (.unbound, s1)
  | some d =>
    match shaveBound P isMax d { s1 with stats := { s1.stats with shaving := s1.stats.shaving + 1 } } with
    | .error e => .error e
    | .ok (true, s3) =>
      shavingLoop P decision fuel isMax true d
        { s3 with stats := { s3.stats with shavingChange := s3.stats.shavingChange + 1 } }
    | .ok (false, s3) =>
      if isMax then shavingLoop P decision fuel false false (d + 1)
          { s3 with stats := { s3.stats with shavingNoChange := s3.stats.shavingNoChange + 1 } }
      else shavingLoop P decision fuel true false d
          { s3 with stats := { s3.stats with shavingNoChange := s3.stats.shavingNoChange + 1 } }

theorem Shv.loop_succ (P : Problem) (decision : List Nat) (fuel : Nat) (isMax hasShaved : Bool) (startIdx : Nat) (s : State) :
    shavingLoop P decision (fuel + 1) isMax hasShaved startIdx s =
      if startIdx < s.top.doms.length then
        match (if hasShaved then bcPass P s else .ok (.unbound, s) : Except EngErr (BcStatus × State)) with
        | .error e => .error e
        | .ok (st, s1) => if st != .unbound then .ok (st, s1) else Shv.cont P decision fuel isMax startIdx s1
      else .ok (.unbound, s) := rfl

/-- the loop invariant: `Inv` and a sane stack always; after an unrefuted probe (`hasShaved = false`)
    moreover every enabled constraint is at a fixpoint and the box is not ground; after a refuted one
    the start index is a real domain (so a pass is run before anything is returned) -/
structure Shv.LoopPre (P : Problem) (hasShaved : Bool) (startIdx : Nat) (s : State) : Prop where
  inv : Inv P s
  stack : StackOk P s.below
  idx : hasShaved = true → startIdx < P.shr.length
  fix : hasShaved = false → AllFix P s ∧ s.top.doms.isGround = false

theorem Shv.cont_ok {P : Problem} (hP : ProbOk P) (hW : WFP P) (decision : List Nat) (fuel : Nat)
    (IH : ∀ (isMax hasShaved : Bool) (startIdx : Nat) (s : State) (st : BcStatus) (s' : State),
      Shv.LoopPre P hasShaved startIdx s → shavingLoop P decision fuel isMax hasShaved startIdx s = .ok (st, s') →
      Shv.StepOk P s s' st)
    (isMax : Bool) (startIdx : Nat) {s1 : State} {st : BcStatus} {s' : State} (hI : Inv P s1) (hfix : AllFix P s1)
    (hstack : StackOk P s1.below) (hng : s1.top.doms.isGround = false)
    (h : Shv.cont P decision fuel isMax startIdx s1 = .ok (st, s')) : Shv.StepOk P s1 s' st := by
  simp only [Shv.cont] at h
  cases hv : firstNotInstantiated s1.top.doms (decision.filter (fun d => decide (d ≥ startIdx))) with
  | none =>
    rw [hv] at h
    injection h with h; injection h with h1 h2; subst h1; subst h2
    exact Shv.StepOk.refl hI hfix hng
  | some d =>
    rw [hv] at h
    simp only at h
    have hub := firstNotInstantiated_unbound _ _ d hv
    have hdl : d < P.shr.length := by
      rw [← Box.le_length hI.sub]; exact lt_length_of_unbound _ d hub
    cases hsb : shaveBound P isMax d { s1 with stats := { s1.stats with shaving := s1.stats.shaving + 1 } } with
    | error e => rw [hsb] at h; simp at h
    | ok res =>
      obtain ⟨shaved, s3⟩ := res
      rw [hsb] at h
      have po := Shv.shaveBound_ok hP hW (s := { s1 with stats := { s1.stats with shaving := s1.stats.shaving + 1 } })
        (Inv_stats hI _) hfix hstack isMax hub hsb
      have hb3 : s3.below = s1.below := po.below
      cases shaved with
      | true =>
        simp only at h
        have r := IH isMax true d _ st s'
          ⟨Inv_stats po.inv _, by simp only; rw [hb3]; exact hstack, fun _ => hdl, fun hh => by cases hh⟩ h
        exact Shv.StepOk.trans (s1 := { s3 with stats := { s3.stats with shavingChange := s3.stats.shavingChange + 1 } })
          hb3 po.le po.keeps r
      | false =>
        simp only at h
        obtain ⟨hsd, hsn⟩ := po.same rfl
        have hfix3 : AllFix P s3 := by
          intro q hq hen
          rw [hsn] at hen; rw [hsd]
          exact hfix q hq hen
        have hng3 : s3.top.doms.isGround = false := by rw [hsd]; exact hng
        have pre : ∀ (i : Nat) (x : Stats), Shv.LoopPre P false i { s3 with stats := x } := fun i x =>
          ⟨Inv_stats po.inv _, by simp only; rw [hb3]; exact hstack, fun hh => (by cases hh), fun _ => ⟨hfix3, hng3⟩⟩
        cases isMax with
        | true =>
          simp only [if_true] at h
          refine Shv.StepOk.trans
            (s1 := { s3 with stats := { s3.stats with shavingNoChange := s3.stats.shavingNoChange + 1 } })
            hb3 po.le po.keeps (IH _ _ _ _ st s' ?_ h)
          exact pre _ _
        | false =>
          simp only [Bool.false_eq_true, if_false] at h
          refine Shv.StepOk.trans
            (s1 := { s3 with stats := { s3.stats with shavingNoChange := s3.stats.shavingNoChange + 1 } })
            hb3 po.le po.keeps (IH _ _ _ _ st s' ?_ h)
          exact pre _ _

/-- THE LOOP: `StepOk`, and — when it starts with a pass — the result lies inside the result of
    that pass -/
theorem Shv.loop_ok {P : Problem} (hP : ProbOk P) (hW : WFP P) (decision : List Nat) :
    ∀ (fuel : Nat) (isMax hasShaved : Bool) (startIdx : Nat) (s : State) (st : BcStatus) (s' : State),
      Shv.LoopPre P hasShaved startIdx s → shavingLoop P decision fuel isMax hasShaved startIdx s = .ok (st, s') →
      Shv.StepOk P s s' st ∧
      (hasShaved = true → ∃ st1 s1, bcPass P s = .ok (st1, s1) ∧
        (st1 = .inconsistent → st = .inconsistent) ∧ (st ≠ .inconsistent → Box.le s'.top.doms s1.top.doms))
  | 0, _, _, _, _, _, _, _, h => by simp [shavingLoop] at h
  | fuel + 1, isMax, hasShaved, startIdx, s, st, s', hpre, h => by
    have IH := fun a b c d e f g hh => (Shv.loop_ok hP hW decision fuel a b c d e f g hh).1
    rw [Shv.loop_succ] at h
    have hlen : s.top.doms.length = P.shr.length := Box.le_length hpre.inv.sub
    cases hasShaved with
    | false =>
      obtain ⟨hfix, hng⟩ := hpre.fix rfl
      refine ⟨?_, fun hh => by cases hh⟩
      split at h
      · simp only [Bool.false_eq_true, if_false, bne_self_eq_false] at h
        exact Shv.cont_ok hP hW decision fuel IH isMax startIdx hpre.inv hfix hpre.stack hng h
      · injection h with h; injection h with h1 h2; subst h1; subst h2
        exact Shv.StepOk.refl hpre.inv hfix hng
    | true =>
      have hidx := hpre.idx rfl
      rw [if_pos (by omega)] at h
      simp only [if_true] at h
      cases hpass : bcPass P s with
      | error e => rw [hpass] at h; simp at h
      | ok res =>
        obtain ⟨st1, s1⟩ := res
        rw [hpass] at h
        simp only at h
        obtain ⟨pr, hkeep⟩ := Shv.bcPass_step hP hW hpre.inv hpass
        by_cases hst1 : st1 = .unbound
        · subst hst1
          simp only [bne_self_eq_false, Bool.false_eq_true, if_false] at h
          have hI1 := pr.inv (by decide)
          have r := Shv.cont_ok hP hW decision fuel IH isMax startIdx hI1 (AllFix_of_pass pr (by decide))
            (by rw [pr.below]; exact hpre.stack) (pr.unbound rfl) h
          refine ⟨Shv.StepOk.trans pr.below (pr.le (by decide)) (fun σ hσ hs => (hkeep σ hσ hs).2) r,
            fun _ => ⟨_, _, rfl, fun hh => (by cases hh), fun hst => (r.inv hst).2.2⟩⟩
        · have hne : (st1 != BcStatus.unbound) = true := by cases st1 <;> simp at hst1 ⊢
          rw [hne] at h
          simp only [if_true] at h
          injection h with h; injection h with h1 h2; subst h1; subst h2
          exact ⟨Shv.StepOk.of_pass pr hkeep, fun _ => ⟨_, _, rfl, id, fun _ => Box.le_refl _⟩⟩

/-! ### the statistics do not influence a pass -/

/-- same levels and queue, possibly different statistics -/
def Shv.SameCore (s t : State) : Prop := s.top = t.top ∧ s.below = t.below ∧ s.trig = t.trig

theorem Shv.bcLoopG_core (pick : Picker) (P : Problem) :
    ∀ (fuel : Nat) (prev : Option Nat) (s t : State) (st : BcStatus) (s' : State), Shv.SameCore s t →
      bcLoopG pick P fuel prev s = .ok (st, s') → ∃ t', bcLoopG pick P fuel prev t = .ok (st, t') ∧ Shv.SameCore s' t'
  | 0, _, _, _, _, _, _, h => by simp [bcLoopG] at h
  | fuel + 1, prev, s, t, st, s', hc, h => by
    obtain ⟨top, below, trig, stats⟩ := s
    obtain ⟨top2, below2, trig2, stats2⟩ := t
    obtain ⟨h1, h2, h3⟩ := hc
    simp only at h1 h2 h3
    subst h1; subst h2; subst h3
    simp only [bcLoopG] at h ⊢
    cases hpick : pick trig prev with
    | none =>
      rw [hpick] at h
      simp only at h ⊢
      injection h with h; injection h with h1 h2; subst h1; subst h2
      exact ⟨_, rfl, rfl, rfl, rfl⟩
    | some pi =>
      rw [hpick] at h
      simp only at h ⊢
      cases hrun : runAlg (P.props.getD pi default).alg (P.props.getD pi default).params
          (views top.doms (P.props.getD pi default).vars) with
      | error e => rw [hrun] at h; cases e <;> simp at h
      | ok r =>
        obtain ⟨st0, out⟩ := r
        rw [hrun] at h
        have tail : ∀ (x y : Stats),
            (if (afterRun P ⟨top, below, trig, x⟩ pi st0 out).1 = true
              then (Except.ok (BcStatus.inconsistent, (afterRun P ⟨top, below, trig, x⟩ pi st0 out).2) : Except EngErr (BcStatus × State))
              else bcLoopG pick P fuel (some pi) (afterRun P ⟨top, below, trig, x⟩ pi st0 out).2) = .ok (st, s') →
            ∃ t', (if (afterRun P ⟨top, below, trig, y⟩ pi st0 out).1 = true
              then (Except.ok (BcStatus.inconsistent, (afterRun P ⟨top, below, trig, y⟩ pi st0 out).2) : Except EngErr (BcStatus × State))
              else bcLoopG pick P fuel (some pi) (afterRun P ⟨top, below, trig, y⟩ pi st0 out).2) = .ok (st, t') ∧
              Shv.SameCore s' t' := by
          intro x y h
          have e1 : (afterRun P ⟨top, below, trig, y⟩ pi st0 out).1 = (afterRun P ⟨top, below, trig, x⟩ pi st0 out).1 := rfl
          have e2 : Shv.SameCore (afterRun P ⟨top, below, trig, x⟩ pi st0 out).2 (afterRun P ⟨top, below, trig, y⟩ pi st0 out).2 :=
            ⟨rfl, rfl, rfl⟩
          rw [e1]
          split at h
          · rename_i hf
            rw [if_pos hf]
            injection h with h; injection h with h1 h2; subst h1; subst h2
            exact ⟨_, rfl, e2⟩
          · rename_i hf
            rw [if_neg hf]
            exact Shv.bcLoopG_core pick P fuel (some pi) _ _ st s' e2 h
        cases st0 with
        | inc =>
          simp only at h ⊢
          injection h with h; injection h with h1 h2; subst h1; subst h2
          exact ⟨_, rfl, rfl, rfl, rfl⟩
        | cons => exact tail _ _ (by simpa using h)
        | ent => exact tail _ _ (by simpa using h)

theorem Shv.bcPass_core (P : Problem) {s t : State} {st : BcStatus} {s' : State} (hc : Shv.SameCore s t)
    (h : bcPass P s = .ok (st, s')) : ∃ t', bcPass P t = .ok (st, t') ∧ Shv.SameCore s' t' := by
  have hf : bcFuel P s = bcFuel P t := by unfold bcFuel; rw [hc.1]
  unfold bcPass bcLoop at h ⊢
  rw [← hf]
  exact Shv.bcLoopG_core pickProp P _ none { s with stats := { s.stats with bc := s.stats.bc + 1 } } _ st s'
    ⟨hc.1, hc.2.1, hc.2.2⟩ h

/-! ### the shaving pass -/

/-- the pass on a problem with at least one shared domain -/
theorem Shv.pass_ok {P : Problem} (hP : ProbOk P) (hW : WFP P) (hne : P.shr ≠ []) (decision : List Nat)
    {s s' : State} {st : BcStatus} (hpre : Pre P s) (h : shavingPass P decision s = .ok (st, s')) :
    Shv.StepOk P s s' st ∧
    ∃ st1 s1, bcPass P s = .ok (st1, s1) ∧ (st1 = .inconsistent → st = .inconsistent) ∧
      (st ≠ .inconsistent → Box.le s'.top.doms s1.top.doms) := by
  have hpos : 0 < P.shr.length := List.length_pos_iff.mpr hne
  obtain ⟨r, hmid⟩ := Shv.loop_ok hP hW decision (shavingFuel s) false true 0
    { s with stats := { s.stats with bcShaving := s.stats.bcShaving + 1 } } st s'
    ⟨Inv_stats hpre.inv _, hpre.stack, fun _ => hpos, fun hh => (by cases hh)⟩ h
  refine ⟨⟨r.below, r.lenT, r.inv, r.bound, r.unbound, r.keeps⟩, ?_⟩
  obtain ⟨st1, s1, hp, h1, h2⟩ := hmid rfl
  obtain ⟨t', ht', hc⟩ := Shv.bcPass_core P
    (s := { s with stats := { s.stats with bcShaving := s.stats.bcShaving + 1 } }) (t := s) ⟨rfl, rfl, rfl⟩ hp
  exact ⟨st1, t', ht', h1, fun hst => by rw [← hc.1]; exact h2 hst⟩

/-- no shared domain at all: the `while start_idx < n` loop is not entered -/
theorem Shv.pass_empty (P : Problem) (decision : List Nat) (s : State) (he : s.top.doms = []) :
    shavingPass P decision s =
      .ok (.unbound, { s with stats := { s.stats with bcShaving := s.stats.bcShaving + 1 } }) := by
  unfold shavingPass
  have : shavingFuel s = (shavingFuel s - 1) + 1 := by simp only [shavingFuel]; omega
  rw [this, Shv.loop_succ, if_neg (by simp [he])]

theorem Shv.doms_empty {P : Problem} {s : State} (hI : Inv P s) (he : P.shr = []) : s.top.doms = [] := by
  have := Box.le_length hI.sub
  rw [he] at this
  exact List.eq_nil_of_length_eq_zero this

/-- C10 (a): shaving leaves the choice-point stack exactly as it found it (every probe level is
    popped again), and the queue keeps its length -/
theorem C10_stack_unchanged {P : Problem} (hP : ProbOk P) (hW : WFP P) (decision : List Nat)
    {s s' : State} {st : BcStatus} (hpre : Pre P s) (h : shavingPass P decision s = .ok (st, s')) :
    s'.below = s.below ∧ s'.trig.length = P.props.length := by
  by_cases hne : P.shr = []
  · rw [Shv.pass_empty P decision s (Shv.doms_empty hpre.inv hne)] at h
    injection h with h; injection h with _ h2; subst h2
    exact ⟨rfl, hpre.inv.lenT⟩
  · have r := (Shv.pass_ok hP hW hne decision hpre h).1
    exact ⟨r.below, r.lenT⟩

/-- C10 (b): a non-failing shaving pass preserves the engine invariant and only shrinks the domains -/
theorem C10_shrinks {P : Problem} (hP : ProbOk P) (hW : WFP P) (decision : List Nat)
    {s s' : State} {st : BcStatus} (hpre : Pre P s) (h : shavingPass P decision s = .ok (st, s'))
    (hst : st ≠ .inconsistent) : Inv P s' ∧ Box.le s'.top.doms s.top.doms := by
  by_cases hne : P.shr = []
  · rw [Shv.pass_empty P decision s (Shv.doms_empty hpre.inv hne)] at h
    injection h with h; injection h with _ h2; subst h2
    exact ⟨Inv_stats hpre.inv _, Box.le_refl _⟩
  · have r := ((Shv.pass_ok hP hW hne decision hpre h).1.inv hst)
    exact ⟨r.1, r.2.2⟩

/-- C10 (c): shaving keeps every solution — an assignment of the current box that satisfies every
    enabled constraint is still in the box afterwards, and the pass does not report inconsistency.
    (A refuted probe `x = v` has no solution with `x = v`: the pass on the probe level would have
    kept it.) -/
theorem C10_keeps_solutions {P : Problem} (hP : ProbOk P) (hW : WFP P) (decision : List Nat)
    {s s' : State} {st : BcStatus} (hpre : Pre P s) (h : shavingPass P decision s = .ok (st, s'))
    (σ : List Int) (hσ : inBox σ s.top.doms)
    (hsat : ∀ q, q < P.props.length → getB s.top.ne q = true →
      rel (P.prop q).alg (P.prop q).params (valuesOf (P.prop q).vars σ)) :
    st ≠ .inconsistent ∧ inBox σ s'.top.doms := by
  by_cases hne : P.shr = []
  · rw [Shv.pass_empty P decision s (Shv.doms_empty hpre.inv hne)] at h
    injection h with h; injection h with h1 h2; subst h1; subst h2
    exact ⟨by decide, hσ⟩
  · exact (Shv.pass_ok hP hW hne decision hpre h).1.keeps σ hσ (Shv.sat_of_enabled hpre.inv hσ hsat)

/-- the same for a solution of the whole problem -/
theorem C10_keeps_Sol {P : Problem} (hP : ProbOk P) (hW : WFP P) (decision : List Nat)
    {s s' : State} {st : BcStatus} (hpre : Pre P s) (h : shavingPass P decision s = .ok (st, s'))
    (σ : List Int) (hsol : Sol P σ) (hσ : inBox σ s.top.doms) : st ≠ .inconsistent ∧ inBox σ s'.top.doms :=
  C10_keeps_solutions hP hW decision hpre h σ hσ (fun q hq _ => hsol.2 _ (P.prop_mem q hq))

/-- C10 (d): on return every enabled constraint is at a fixpoint on the returned domains (the queue
    itself may still hold stale wake-ups of the last unrefuted probe), BOUND means all domains are
    instantiated and UNBOUND that one is not.  Needs at least one shared domain: see
    `C10_empty_problem`. -/
theorem C10_fixpoint {P : Problem} (hP : ProbOk P) (hW : WFP P) (hne : P.shr ≠ []) (decision : List Nat)
    {s s' : State} {st : BcStatus} (hpre : Pre P s) (h : shavingPass P decision s = .ok (st, s')) :
    (st ≠ .inconsistent → AllFix P s') ∧ (st = .bound → s'.top.doms.isGround = true) ∧
    (st = .unbound → s'.top.doms.isGround = false) := by
  have r := (Shv.pass_ok hP hW hne decision hpre h).1
  exact ⟨fun hst => (r.inv hst).2.1, r.bound, r.unbound⟩

/-- C10 (e): shaving ⊆ bound consistency — from the same state, the shaving pass runs the plain pass
    first (so the plain pass does not end in a model error), reports inconsistency whenever the plain
    pass does, and otherwise returns domains contained in those of the plain pass -/
theorem C10_le_bc {P : Problem} (hP : ProbOk P) (hW : WFP P) (hne : P.shr ≠ []) (decision : List Nat)
    {s s' : State} {st : BcStatus} (hpre : Pre P s) (h : shavingPass P decision s = .ok (st, s')) :
    ∃ stb sb, bcPass P s = .ok (stb, sb) ∧ (stb = .inconsistent → st = .inconsistent) ∧
      (st ≠ .inconsistent → Box.le s'.top.doms sb.top.doms) :=
  (Shv.pass_ok hP hW hne decision hpre h).2

/-- C10: the shaving algorithm provides everything the search loop needs from a consistency
    algorithm.  The side condition `P.shr ≠ []` (at least one shared domain) cannot be dropped:
    `C10_consOk_shaving_empty_false`. -/
theorem C10_consOk_shaving {P : Problem} (hP : ProbOk P) (hW : WFP P) (hne : P.shr ≠ []) (cfg : Config)
    (hsh : cfg.cons = .shaving) : ConsOk P cfg := by
  constructor
  intro s s' st hpre h
  have hcp : consPass P cfg s = shavingPass P cfg.decision s := by simp [consPass, hsh]
  rw [hcp] at h
  have r := (Shv.pass_ok hP hW hne cfg.decision hpre h).1
  exact ⟨r.below, r.lenT, r.inv, r.bound, r.unbound⟩

/-- FINDING (edge case): on a problem WITHOUT any shared domain the shaving pass returns UNBOUND
    without running a single constraint (the `while start_idx < n` loop is not entered), although the
    empty box is ground; the plain pass answers BOUND.  So `ConsOk` — the clause
    `st = .unbound → isGround = false`, and `AllFix` when constraints of arity 0 are posted — does
    not hold for shaving without `P.shr ≠ []`. -/
theorem C10_empty_problem :
    shavingPass ⟨[], [], []⟩ [] (State.init ⟨[], [], []⟩) =
      .ok (.unbound, { State.init ⟨[], [], []⟩ with stats := { bcShaving := 1 } }) ∧
    (State.init ⟨[], [], []⟩).top.doms.isGround = true ∧
    (∃ s', bcPass ⟨[], [], []⟩ (State.init ⟨[], [], []⟩) = .ok (.bound, s')) := by
  refine ⟨by rfl, by rfl, ⟨_, by rfl⟩⟩

theorem C10_consOk_shaving_empty_false : ¬ ConsOk ⟨[], [], []⟩ { cons := .shaving } := by
  intro hc
  have hpre : Pre ⟨[], [], []⟩ (State.init ⟨[], [], []⟩) := Pre_init _ (by simp [Box.Nonempty]) {}
  have := (hc.pass _ _ .unbound hpre (by rfl)).2.2.2.2 rfl
  revert this
  decide

/-! ### the search with shaving -/

/-- without any shared domain the search with shaving never returns: the pass says UNBOUND and no
    variable heuristic finds a domain to branch on (`noDecision`) -/
theorem Shv.solveOne_empty (P : Problem) (cfg : Config) (hsh : cfg.cons = .shaving) (fuel : Nat) (s : State)
    (he : s.top.doms = []) (r : Option (List Int) × State) : solveOne P cfg fuel s ≠ .ok r := by
  intro h
  cases fuel with
  | zero => simp [solveOne] at h
  | succ fuel =>
    simp only [solveOne] at h
    split at h
    · cases h
    · have hcp : consPass P cfg s =
          .ok (.unbound, { s with stats := { s.stats with bcShaving := s.stats.bcShaving + 1 } }) := by
        simp only [consPass, hsh]; exact Shv.pass_empty P cfg.decision s he
      rw [hcp] at h
      simp only at h
      split at h
      · cases h
      · cases hvh : runVarHeur cfg.varH cfg.varCosts cfg.decision s.top.doms with
        | none => rw [hvh] at h; simp at h
        | some od =>
          cases od with
          | none => rw [hvh] at h; simp at h
          | some d =>
            have := runVarHeur_in_range _ _ _ _ d hvh
            rw [he] at this; simp at this

/-- SOLVE_ONE with shaving: the invariants survive and a returned vector is a solution -/
theorem C10_solveOne_sound {P : Problem} (hP : ProbOk P) (hW : WFP P) (cfg : Config) (hsh : cfg.cons = .shaving)
    (hcost : CostOk cfg) (fuel : Nat) (s : State) (r : Option (List Int)) (s' : State) (hpre : Pre P s)
    (h : solveOne P cfg fuel s = .ok (r, s')) :
    Post P s' ∧ ∀ sol, r = some sol → ∃ σ, SolW P σ ∧ sol = reported P σ := by
  by_cases hne : P.shr = []
  · exact absurd h (Shv.solveOne_empty P cfg hsh fuel s (Shv.doms_empty hpre.inv hne) _)
  · exact solveOne_sound' hP cfg (C10_consOk_shaving hP hW hne cfg hsh) hcost fuel s r s' hpre h

/-- the `solve()` generator with shaving: every yielded vector is a solution -/
theorem C10_solveAll_sound {P : Problem} (hP : ProbOk P) (hW : WFP P) (cfg : Config) (hsh : cfg.cons = .shaving)
    (hcost : CostOk cfg) (fuel1 fuel limit : Nat) (s : State) (acc sols : List (List Int)) (s' : State) (hpre : Pre P s)
    (hacc : ∀ x ∈ acc, ∃ σ, SolW P σ ∧ x = reported P σ)
    (h : solveAll P cfg fuel1 fuel limit s acc = .ok (sols, s')) :
    ∀ x ∈ sols, ∃ σ, SolW P σ ∧ x = reported P σ := by
  by_cases hne : P.shr = []
  · have he := Shv.doms_empty hpre.inv hne
    cases fuel with
    | zero => simp [solveAll] at h
    | succ fuel =>
      cases limit with
      | zero =>
        simp only [solveAll] at h
        injection h with h; injection h with h1 _; subst h1
        intro x hx; exact hacc x (by simpa using hx)
      | succ limit =>
        simp only [solveAll] at h
        cases h1 : solveOne P cfg fuel1 s with
        | error e => rw [h1] at h; simp at h
        | ok res => exact absurd h1 (Shv.solveOne_empty P cfg hsh fuel1 s he res)
  · exact solveAll_sound' hP cfg (C10_consOk_shaving hP hW hne cfg hsh) hcost fuel1 fuel limit s acc sols s' hpre hacc h

/-- minimize / maximize with shaving: the returned vector, if any, is a solution -/
theorem C10_optimize_sound {P : Problem} (hP : ProbOk P) (hW : WFP P) (cfg : Config) (hsh : cfg.cons = .shaving)
    (hcost : CostOk cfg) (v : Nat) (hv : v < P.vars.length) (minimize : Bool) (fuel1 fuel : Nat) (s : State)
    (best r : Option (List Int)) (s' : State) (hpre : Pre P s)
    (hbest : ∀ x, best = some x → ∃ σ, SolW P σ ∧ x = reported P σ)
    (h : optimize P cfg v minimize fuel1 fuel s best = .ok (r, s')) :
    ∀ x, r = some x → ∃ σ, SolW P σ ∧ x = reported P σ := by
  by_cases hne : P.shr = []
  · have he := Shv.doms_empty hpre.inv hne
    cases fuel with
    | zero => simp [optimize] at h
    | succ fuel =>
      simp only [optimize] at h
      cases h1 : solveOne P cfg fuel1 s with
      | error e => rw [h1] at h; simp at h
      | ok res => exact absurd h1 (Shv.solveOne_empty P cfg hsh fuel1 s he res)
  · exact optimize_sound' hP cfg (C10_consOk_shaving hP hW hne cfg hsh) hcost v hv minimize fuel1 fuel s best r s'
      hpre hbest h

/-! ### non-vacuity -/

/-- `x + y = 3`, `x − y ≤ 1`, `y − x ≤ 1` on `[0,3]²`: bound consistency prunes nothing, shaving
    refutes `x = 0` and `x = 3` (the pass after each refutation then tightens `y`) -/
def Shv.example : Problem :=
  ⟨[(0, 3), (0, 3)], [(0, 0), (1, 0)],
   [⟨.affineEq, [(0, 0), (1, 0)], [1, 1, 3]⟩, ⟨.affineLeq, [(0, 0), (1, 0)], [1, -1, 1]⟩,
    ⟨.affineLeq, [(0, 0), (1, 0)], [-1, 1, 1]⟩]⟩

/-- the hypotheses of the C10 theorems hold for it -/
example : ProbOk Shv.example ∧ WFP Shv.example ∧ Shv.example.shr ≠ [] ∧ Pre Shv.example (State.init Shv.example) := by
  refine ⟨⟨fun p hp => localOk_of_proven p.alg ?_, ?_⟩, ?_, by simp [Shv.example],
    Pre_init _ (by simp [Shv.example, Box.Nonempty]) {}⟩
  · simp [Shv.example] at hp; rcases hp with rfl | rfl | rfl <;> simp [provenAlgs]
  · intro p hp; simp [Shv.example] at hp; rcases hp with rfl | rfl | rfl <;> simp [Contract, views]
  · intro p hp v hv; simp [Shv.example] at hp
    rcases hp with rfl | rfl | rfl <;> (simp at hv; rcases hv with rfl | rfl <;> simp [Shv.example])

/-- the shaving pass: UNBOUND on `[1,2]²`, the stack is empty again, and the queue still holds the
    (stale) wake-ups of the last unrefuted probe — the reason why the postcondition is `AllFix`
    and not "queue empty"; 6 probes, 2 of them refuted -/
example : (shavingPass Shv.example [0, 1] (State.init Shv.example)).toOption.map
      (fun r => (r.1, r.2.top.doms, r.2.below.length, r.2.trig, r.2.stats.shaving, r.2.stats.shavingChange)) =
    some (.unbound, [(1, 2), (1, 2)], 0, [true, true, false], 6, 2) := by rfl

/-- the plain pass from the same state prunes nothing -/
example : (bcPass Shv.example (State.init Shv.example)).toOption.map (fun r => (r.1, r.2.top.doms)) =
    some (.unbound, [(0, 3), (0, 3)]) := by rfl

/-- the search with shaving enumerates the two solutions -/
example : (solveAll Shv.example { cons := .shaving, decision := [0, 1] } 1000 1000 100 (State.init Shv.example) []).map (·.1) =
    .ok [[1, 2], [2, 1]] := by rfl

end Nucs
