import NucsProofs.Engine.DfsTerm
/-!
  C03 — minimize / maximize return a feasible optimum, or nothing exactly when infeasible.

  `optimize` restarts the search from the root after every solution, with the objective's shared
  domain tightened strictly past the incumbent.  Invariant of the loop, for the state `s` a search
  starts from and the incumbent `best`:  every solution of the problem lies in the (single) box of
  `s` or is no better than `best`.  `solveOne` returns `none` only when its box contains no solution
  (`Dfs.solveOne_space`), so the incumbent is then optimal; each restart strictly shrinks the
  objective's domain, so `|root objective domain| + 1` restarts suffice.
-/
namespace Nucs
namespace Dfs

/-- `a` is at least as good an objective value as `b` -/
def better (minimize : Bool) (a b : Int) : Prop := if minimize then a ≤ b else b ≤ a

theorem resetTighten_shape (P : Problem) (s : State) (v : Nat) (value : Int) (minimize : Bool) (di : Nat) (off : Int)
    (hvar : P.vars.getD v (0, 0) = (di, off)) :
    (resetTighten P s v value minimize).top.doms =
      P.shr.set di (if minimize then ((getDom P.shr di).1, value - 1 - off) else (value + 1 - off, (getDom P.shr di).2)) ∧
    (resetTighten P s v value minimize).below = [] := by
  simp only [resetTighten, hvar, State.init, Level.setDom, and_self]

/-- a search started from a single box -/
theorem SInv_single {P : Problem} {s : State} (hpre : Pre P s) (hb : s.below = []) : SInv P s :=
  ⟨hpre, by simp [SpDisj, space, hb]⟩

theorem In_single {s : State} (hb : s.below = []) {τ : List Int} : In τ (space s) ↔ inBox τ s.top.doms := by
  simp [In, space, hb]

theorem nonempty_of_le_nonempty {P : Problem} {s : State} (hpre : Pre P s) : P.shr.Nonempty := by
  apply Box.nonempty_of_get
  intro k hk
  have h1 := Box.le_get k hpre.inv.sub hk
  have h2 := Box.nonempty_getDom hpre.inv.nonempty k
  omega

section opt
variable {P : Problem} (hP : ProbOk P) (cfg : Config) (hcons : ConsOk P cfg) (hkeep : ConsKeeps P cfg) (hcost : CostOk cfg)
  (v : Nat) (hv : v < P.vars.length) (di : Nat) (off : Int) (hvar : P.vars.getD v (0, 0) = (di, off))
  (hdi : di < P.shr.length) (minimize : Bool)

include hv hvar in
theorem obj_eq (σ : List Int) : getI (reported P σ) v = getI σ di + off := by
  rw [getI_reported P σ v hv, hvar]

include hv hvar hdi in
/-- the tightened objective domain is empty: the incumbent is optimal -/
theorem opt_of_empty (s1 : State) (σ τ : List Int) (hτ : inBox τ P.shr)
    (hemp : (getDom (resetTighten P s1 v (getI (reported P σ) v) minimize).top.doms di).1 >
            (getDom (resetTighten P s1 v (getI (reported P σ) v) minimize).top.doms di).2) :
    better minimize (getI (reported P σ) v) (getI (reported P τ) v) := by
  have hτd := inBox_get di hτ hdi
  rw [(resetTighten_shape P s1 v _ minimize di off hvar).1, getDom_set] at hemp
  simp only [hdi, and_self, if_true] at hemp
  rw [obj_eq v hv di off hvar σ] at hemp ⊢
  rw [obj_eq v hv di off hvar τ]
  unfold better
  cases minimize <;> simp only [if_true, Bool.false_eq_true, if_false] at hemp ⊢ <;> omega

include hv hvar in
/-- the tightened box contains every solution that is strictly better than the incumbent -/
theorem opt_cover (s1 : State) (σ τ : List Int) (hτ : inBox τ P.shr) :
    inBox τ (resetTighten P s1 v (getI (reported P σ) v) minimize).top.doms ∨
      better minimize (getI (reported P σ) v) (getI (reported P τ) v) := by
  rw [(resetTighten_shape P s1 v _ minimize di off hvar).1]
  rw [obj_eq v hv di off hvar σ, obj_eq v hv di off hvar τ]
  by_cases hb : better minimize (getI σ di + off) (getI τ di + off)
  · exact Or.inr hb
  · left
    apply inBox_set di _ hτ
    by_cases hdi : di < P.shr.length
    · have hτd := inBox_get di hτ hdi
      unfold better at hb
      unfold inDom
      cases minimize <;> simp only [if_true, Bool.false_eq_true, if_false] at hb ⊢ <;> omega
    · have h0 : getI τ di = 0 := by
        unfold getI; simp [List.getD, List.getElem?_eq_none (by rw [inBox_length hτ]; omega : τ.length ≤ di)]
      rw [getDom_of_ge P.shr di (by omega)]
      unfold better at hb
      unfold inDom
      rw [h0] at hb ⊢
      cases minimize <;> simp only [if_true, Bool.false_eq_true, if_false] at hb ⊢ <;> omega

include hP hcons hkeep hcost hv hvar hdi in
/-- OPTIMIZE (partial correctness): the result is an accepted assignment that is at least as good as
    EVERY solution — in particular there is a result whenever there is a solution -/
theorem optimize_opt (fuel1 : Nat) :
    ∀ (fuel : Nat) (s : State) (best r : Option (List Int)) (s' : State), Pre P s → s.below = [] →
      (∀ x, best = some x → ∃ σ, SolW P σ ∧ x = reported P σ) →
      (∀ τ, Sol P τ → inBox τ s.top.doms ∨ ∃ x, best = some x ∧ better minimize (getI x v) (getI (reported P τ) v)) →
      optimize P cfg v minimize fuel1 fuel s best = .ok (r, s') →
      (∀ x, r = some x → ∃ σ, SolW P σ ∧ x = reported P σ) ∧
      (∀ τ, Sol P τ → ∃ x, r = some x ∧ better minimize (getI x v) (getI (reported P τ) v))
  | 0, _, _, _, _, _, _, _, _, h => by simp [optimize] at h
  | fuel + 1, s, best, r, s', hpre, hbel, hbest, hcov, h => by
    simp only [optimize] at h
    cases h1 : solveOne P cfg fuel1 s with
    | error e => rw [h1] at h; simp at h
    | ok res =>
      obtain ⟨r1, s1⟩ := res
      rw [h1] at h
      have ho := solveOne_space hP cfg hcons hkeep hcost fuel1 s r1 s1 (SInv_single hpre hbel) h1
      cases r1 with
      | none =>
        simp only at h
        injection h with h; injection h with h2 _; subst h2
        refine ⟨hbest, fun τ hτ => ?_⟩
        rcases hcov τ hτ with hin | hx
        · exact absurd ((In_single hbel).mpr hin) ((ho.none_ rfl).2 τ hτ)
        · exact hx
      | some sol =>
        simp only at h
        obtain ⟨hg, hsol, hw, _, _, _⟩ := ho.some_ sol rfl
        subst hsol
        rw [hvar] at h
        simp only at h
        split at h
        · rename_i hemp
          injection h with h; injection h with h2 _; subst h2
          refine ⟨fun x hx => ?_, fun τ hτ => ?_⟩
          · injection hx with hx; subst hx; exact ⟨_, hw, rfl⟩
          · exact ⟨_, rfl, opt_of_empty v hv di off hvar hdi minimize s1 _ τ hτ.1 hemp⟩
        · rename_i hne
          have hne' : (getDom (resetTighten P s1 v (getI (reported P (assignOf s1.top.doms)) v) minimize).top.doms (P.vars.getD v (0, 0)).1).1 ≤
              (getDom (resetTighten P s1 v (getI (reported P (assignOf s1.top.doms)) v) minimize).top.doms (P.vars.getD v (0, 0)).1).2 := by
            rw [hvar]; simpa using hne
          have hpre2 := Pre_resetTighten s1 v hv minimize (assignOf s1.top.doms) hw.1 hne'
          refine optimize_opt fuel1 fuel _ _ r s' hpre2 (resetTighten_shape P s1 v _ minimize di off hvar).2
            (fun x hx => by injection hx with hx; subst hx; exact ⟨_, hw, rfl⟩) (fun τ hτ => ?_) h
          rcases opt_cover v hv di off hvar minimize s1 (assignOf s1.top.doms) τ hτ.1 with hin | hb
          · exact Or.inl hin
          · exact Or.inr ⟨_, rfl, hb⟩

/-- the measure of the restart loop: the part of the root objective domain still allowed -/
def omeas (P : Problem) (di : Nat) (minimize : Bool) (T : Box) : Nat :=
  if minimize then ((getDom T di).2 - (getDom P.shr di).1 + 1).toNat
  else ((getDom P.shr di).2 - (getDom T di).1 + 1).toNat

include hP hcons hkeep hcost hv hvar hdi in
/-- OPTIMIZE TERMINATES: every restart strictly shrinks the objective's domain -/
theorem optimize_terminates (hterm : ConsTerm P cfg) (hheur : HeurOk P cfg) (hH : width P.shr + 2 ≤ cfg.height)
    (fuel1 : Nat) (hf1 : 2 * bsize P.shr ≤ fuel1) :
    ∀ (fuel : Nat) (s : State) (best : Option (List Int)), Pre P s → s.below = [] →
      omeas P di minimize s.top.doms < fuel →
      ∃ r s', optimize P cfg v minimize fuel1 fuel s best = .ok (r, s')
  | 0, _, _, _, _, h => by omega
  | fuel + 1, s, best, hpre, hbel, hf => by
    simp only [optimize]
    have hh : HOk (width P.shr) s.top.doms s.below := by
      rw [hbel]; simpa [HOk] using width_le hpre.inv.sub
    have hmu : smu s < fuel1 := by
      have h1 := wt_le hpre.inv.sub
      have h2 := bsize_pos (nonempty_of_le_nonempty hpre)
      have e : smu s = wt s.top.doms := by simp [smu, space, hbel, wsum]
      rw [e]; unfold wt at *; omega
    obtain ⟨r1, s1, h1⟩ := solveOne_terminates cfg hcons hterm hheur hcost hH fuel1 s hpre hh hmu
    rw [h1]
    cases r1 with
    | none => exact ⟨_, _, rfl⟩
    | some sol =>
      simp only
      have ho := solveOne_space hP cfg hcons hkeep hcost fuel1 s _ s1 (SInv_single hpre hbel) h1
      obtain ⟨hg, hsol, hw, _, hsub, _⟩ := ho.some_ sol rfl
      subst hsol
      have hσT : inBox (assignOf s1.top.doms) s.top.doms :=
        (In_single hbel).mp (hsub _ (In_cons.mpr (Or.inl (inBox_assignOf_self hg))))
      rw [hvar]
      simp only
      split
      · exact ⟨_, _, rfl⟩
      · rename_i hne
        have hne' : (getDom (resetTighten P s1 v (getI (reported P (assignOf s1.top.doms)) v) minimize).top.doms (P.vars.getD v (0, 0)).1).1 ≤
            (getDom (resetTighten P s1 v (getI (reported P (assignOf s1.top.doms)) v) minimize).top.doms (P.vars.getD v (0, 0)).1).2 := by
          rw [hvar]; simpa using hne
        have hpre2 := Pre_resetTighten s1 v hv minimize (assignOf s1.top.doms) hw.1 hne'
        refine optimize_terminates hterm hheur hH fuel1 hf1 fuel _ _ hpre2
          (resetTighten_shape P s1 v _ minimize di off hvar).2 ?_
        have hT := inBox_get di hσT (by rw [Box.le_length hpre.inv.sub]; exact hdi)
        have hR := inBox_get di hw.1 hdi
        rw [(resetTighten_shape P s1 v _ minimize di off hvar).1]
        unfold omeas at hf ⊢
        rw [getDom_set, obj_eq v hv di off hvar]
        simp only [hdi, and_self, if_true]
        cases minimize <;> simp only [if_true, Bool.false_eq_true, if_false] at hf ⊢ <;> omega

end opt

end Dfs

/-! ### C03 -/

/-- C03 (partial correctness): if `minimize` / `maximize` on variable `v` returns `r`, then
    * `r = some x`: `x` is an accepted assignment (`SolW`; = `Sol` under `NscGuarded`) whose objective
      value `getI x v` is ≤ (resp. ≥) that of EVERY solution;
    * `r = none`: the problem has no solution;  and conversely no accepted assignment ⇒ `r = none`.
    Missing here, see `C03_optimum`: that the call does return `.ok`. -/
theorem C03_optimum_partial (P : Problem) (hP : ProbOk P) (hne : P.shr.Nonempty) (cfg : Config)
    (hcons : ConsOk P cfg) (hkeep : Dfs.ConsKeeps P cfg) (hcost : CostOk cfg)
    (v : Nat) (hv : v < P.vars.length) (hdi : (P.vars.getD v (0, 0)).1 < P.shr.length) (minimize : Bool)
    (fuel1 fuel : Nat) (r : Option (List Int)) (s' : State)
    (h : optimize P cfg v minimize fuel1 fuel (State.init P) none = .ok (r, s')) :
    (∀ x, r = some x → (∃ σ, SolW P σ ∧ x = reported P σ) ∧
      ∀ τ, Sol P τ → Dfs.better minimize (getI x v) (getI (reported P τ) v)) ∧
    (r = none → ¬ ∃ σ, Sol P σ) ∧ ((¬ ∃ σ, SolW P σ) → r = none) := by
  obtain ⟨h1, h2⟩ := Dfs.optimize_opt hP cfg hcons hkeep hcost v hv (P.vars.getD v (0, 0)).1 (P.vars.getD v (0, 0)).2 rfl hdi minimize fuel1 fuel (State.init P) none r s'
    (Pre_init P hne {}) rfl (fun _ hx => by cases hx) (fun τ hτ => Or.inl hτ.1) h
  refine ⟨fun x hx => ⟨h1 x hx, fun τ hτ => ?_⟩, fun hr => ?_, fun hno => ?_⟩
  · obtain ⟨x', hx', hb⟩ := h2 τ hτ
    rw [hx] at hx'; injection hx' with hx'; subst hx'; exact hb
  · rintro ⟨σ, hσ⟩
    obtain ⟨x, hx, _⟩ := h2 σ hσ
    rw [hr] at hx; cases hx
  · cases r with
    | none => rfl
    | some x => obtain ⟨σ, hσ, _⟩ := h1 x rfl; exact absurd ⟨σ, hσ⟩ hno

/-- C03 — MINIMIZE / MAXIMIZE RETURN A FEASIBLE OPTIMUM, OR NOTHING EXACTLY WHEN INFEASIBLE.
    With `fuel1 ≥ 2·|root box|` (each search) and `fuel > |root domain of the objective|` (restarts), a
    stack of height ≥ total width + 2, a consistency algorithm satisfying
    `ConsOk`/`Dfs.ConsKeeps`/`Dfs.ConsTerm` and heuristics satisfying `Dfs.HeurOk`: the call RETURNS, and
    its result is as in `C03_optimum_partial`. -/
theorem C03_optimum (P : Problem) (hP : ProbOk P) (hne : P.shr.Nonempty) (cfg : Config)
    (hcons : ConsOk P cfg) (hkeep : Dfs.ConsKeeps P cfg) (hterm : Dfs.ConsTerm P cfg) (hheur : Dfs.HeurOk P cfg)
    (hcost : CostOk cfg) (hH : width P.shr + 2 ≤ cfg.height)
    (v : Nat) (hv : v < P.vars.length) (hdi : (P.vars.getD v (0, 0)).1 < P.shr.length) (minimize : Bool)
    (fuel1 fuel : Nat) (h1 : 2 * Dfs.bsize P.shr ≤ fuel1)
    (h2 : Dfs.dsize (getDom P.shr (P.vars.getD v (0, 0)).1) < fuel) :
    ∃ (r : Option (List Int)) (s' : State),
      optimize P cfg v minimize fuel1 fuel (State.init P) none = .ok (r, s') ∧
      (∀ x, r = some x → (∃ σ, SolW P σ ∧ x = reported P σ) ∧
        ∀ τ, Sol P τ → Dfs.better minimize (getI x v) (getI (reported P τ) v)) ∧
      (r = none → ¬ ∃ σ, Sol P σ) ∧ ((¬ ∃ σ, SolW P σ) → r = none) := by
  have hm : Dfs.omeas P (P.vars.getD v (0, 0)).1 minimize (State.init P).top.doms < fuel := by
    have : Dfs.omeas P (P.vars.getD v (0, 0)).1 minimize (State.init P).top.doms =
        Dfs.dsize (getDom P.shr (P.vars.getD v (0, 0)).1) := by
      unfold Dfs.omeas Dfs.dsize; cases minimize <;> simp [State.init]
    rw [this]; exact h2
  obtain ⟨r, s', h⟩ := Dfs.optimize_terminates hP cfg hcons hkeep hcost v hv (P.vars.getD v (0, 0)).1 (P.vars.getD v (0, 0)).2
    rfl hdi minimize hterm hheur hH fuel1 h1 fuel (State.init P) none (Pre_init P hne {}) rfl hm
  exact ⟨r, s', h, C03_optimum_partial P hP hne cfg hcons hkeep hcost v hv hdi minimize fuel1 fuel r s' h⟩

/-- C03 under the circuit-model discipline: "nothing" EXACTLY when infeasible, and the result is a
    solution in the sense of the documented relations -/
theorem C03_optimum_guarded (P : Problem) (hP : ProbOk P) (hne : P.shr.Nonempty) (hg : NscGuarded P) (cfg : Config)
    (hcons : ConsOk P cfg) (hkeep : Dfs.ConsKeeps P cfg) (hterm : Dfs.ConsTerm P cfg) (hheur : Dfs.HeurOk P cfg)
    (hcost : CostOk cfg) (hH : width P.shr + 2 ≤ cfg.height)
    (v : Nat) (hv : v < P.vars.length) (hdi : (P.vars.getD v (0, 0)).1 < P.shr.length) (minimize : Bool)
    (fuel1 fuel : Nat) (h1 : 2 * Dfs.bsize P.shr ≤ fuel1)
    (h2 : Dfs.dsize (getDom P.shr (P.vars.getD v (0, 0)).1) < fuel) :
    ∃ (r : Option (List Int)) (s' : State),
      optimize P cfg v minimize fuel1 fuel (State.init P) none = .ok (r, s') ∧
      (r = none ↔ ¬ ∃ σ, Sol P σ) ∧
      (∀ x, r = some x → (∃ σ, Sol P σ ∧ x = reported P σ) ∧
        ∀ τ, Sol P τ → Dfs.better minimize (getI x v) (getI (reported P τ) v)) := by
  obtain ⟨r, s', h, a, b, c⟩ := C03_optimum P hP hne cfg hcons hkeep hterm hheur hcost hH v hv hdi minimize fuel1 fuel h1 h2
  refine ⟨r, s', h, ⟨b, fun hno => c (fun ⟨σ, hσ⟩ => hno ⟨σ, Sol_of_SolW hg hσ⟩)⟩, fun x hx => ?_⟩
  obtain ⟨⟨σ, hσ, e⟩, hopt⟩ := a x hx
  exact ⟨⟨σ, Sol_of_SolW hg hσ, e⟩, hopt⟩

/-- C03 for the shipped bound-consistency configuration -/
theorem C03_optimum_bc (P : Problem) (hP : ProbOk P) (hW : WFP P) (hS : ∀ p ∈ P.props, Safe p.alg)
    (hne : P.shr.Nonempty) (hg : NscGuarded P) (cfg : Config) (hbc : cfg.cons = .bc)
    (hall : ∀ i, i < P.shr.length → i ∈ cfg.decision) (hcost : CostOk cfg)
    (hvtab : cfg.varH = .maxRegret → ∀ d u, (getDom P.shr d).1 ≤ u → u ≤ (getDom P.shr d).2 →
      ∃ c, costAt cfg.varCosts d u = some c ∧ c ≤ maxsize)
    (htab : cfg.domH = .minCost → ∀ d u, (getDom P.shr d).1 ≤ u → u ≤ (getDom P.shr d).2 → (costAt cfg.domCosts d u).isSome = true)
    (hH : width P.shr + 2 ≤ cfg.height)
    (v : Nat) (hv : v < P.vars.length) (hdi : (P.vars.getD v (0, 0)).1 < P.shr.length) (minimize : Bool)
    (fuel1 fuel : Nat) (h1 : 2 * Dfs.bsize P.shr ≤ fuel1)
    (h2 : Dfs.dsize (getDom P.shr (P.vars.getD v (0, 0)).1) < fuel) :
    ∃ (r : Option (List Int)) (s' : State),
      optimize P cfg v minimize fuel1 fuel (State.init P) none = .ok (r, s') ∧
      (r = none ↔ ¬ ∃ σ, Sol P σ) ∧
      (∀ x, r = some x → (∃ σ, Sol P σ ∧ x = reported P σ) ∧
        ∀ τ, Sol P τ → Dfs.better minimize (getI x v) (getI (reported P τ) v)) :=
  C03_optimum_guarded P hP hne hg cfg (consOk_bc hP hW cfg hbc) (Dfs.consKeeps_bc hP hW cfg hbc)
    (Dfs.consTerm_bc hP hW hS cfg hbc) (Dfs.heurOk_allDecision' P cfg hall hvtab htab) hcost hH v hv hdi minimize fuel1 fuel h1 h2

theorem Dfs.better_min (a b : Int) : Dfs.better true a b ↔ a ≤ b := by simp [Dfs.better]
theorem Dfs.better_max (a b : Int) : Dfs.better false a b ↔ b ≤ a := by simp [Dfs.better]

/-! ### non-vacuity -/

/-- `c04Example` (x, y ∈ [0,5], x + y ≤ 4, x ≤ y): all hypotheses of `C03_optimum_bc` hold, for
    maximising x (variable 0); 2·|root| = 72, |root objective domain| = 6 -/
example : ∃ (r : Option (List Int)) (s' : State),
    optimize c04Example { decision := [0, 1] } 0 false 72 7 (State.init c04Example) none = .ok (r, s') ∧
    (r = none ↔ ¬ ∃ σ, Sol c04Example σ) ∧
    (∀ x, r = some x → (∃ σ, Sol c04Example σ ∧ x = reported c04Example σ) ∧
      ∀ τ, Sol c04Example τ → Dfs.better false (getI x 0) (getI (reported c04Example τ) 0)) :=
  C03_optimum_bc c04Example c04Example_ok.1 c04Example_ok.2.1 c04Example_ok.2.2.1
    (by simp [c04Example, Box.Nonempty])
    (by intro p hp ha; simp [c04Example] at hp; rcases hp with rfl | rfl <;> cases ha)
    { decision := [0, 1] } rfl
    (by intro i hi; simp [c04Example] at hi; simp; omega) (by intro h; cases h) (by intro h; cases h) (by intro h; cases h)
    (by decide) 0 (by decide) (by decide) false 72 7 (by decide) (by decide)

/-- … the optimum the model computes: max x = 2 at (2, 2); min y = 0 at (0, 0) -/
example : (optimize c04Example { decision := [0, 1] } 0 false 72 7 (State.init c04Example) none).map (·.1) =
    .ok (some [2, 2]) := by rfl
example : (optimize c04Example { decision := [0, 1] } 1 true 72 7 (State.init c04Example) none).map (·.1) =
    .ok (some [0, 0]) := by rfl

/-- an infeasible problem (x + y ≤ −1 on [0,5]²): nothing is returned -/
example : (optimize ⟨[(0, 5), (0, 5)], [(0, 0), (1, 0)], [⟨.affineLeq, [(0, 0), (1, 0)], [1, 1, -1]⟩]⟩
    { decision := [0, 1] } 0 true 72 7
    (State.init ⟨[(0, 5), (0, 5)], [(0, 0), (1, 0)], [⟨.affineLeq, [(0, 0), (1, 0)], [1, 1, -1]⟩]⟩) none).map (·.1) =
    .ok none := by rfl

end Nucs
