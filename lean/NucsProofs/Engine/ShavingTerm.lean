import NucsProofs.Engine.DfsShaving
import NucsProofs.Engine.DfsTerm
import NucsProofs.Engine.StatsProofs
/-!
  Termination and statistics of the SHAVING consistency algorithm
  (`shaveBound`, `shavingLoop`, `shavingFuel`, `shavingPass` of NucsModel/Engine/Search.lean;
  nucs/solvers/shaving_consistency_algorithm.py).

  Part 1 — the pass returns.  Measure of the `while start_idx < n` loop

      Shv.meas isMax startIdx s = 2·width(top box) + 2·(n − startIdx) + (if isMax then 0 else 1)

  A refuted probe removes the probed bound value (`width` drops by ≥ 1; `start_idx := dom_idx ≥ start_idx`
  never goes back; the bound is kept); an unrefuted probe leaves the box as it was and advances the pair
  (start index, bound) lexicographically (MIN → MAX on the same index, MAX → MIN on the next); the pass at
  the loop head only shrinks the box.  So every iteration that does not return decreases `Shv.meas`, by
  at least one: `Shv.loop_total`.  The start value is 2·W + 2·n + 1 and the model grants
  `shavingFuel s = 2·(W + n) + 4·n + 8` iterations: ENOUGH (`Shv.meas_lt_fuel`) — the model never
  answers `.error .fuel` where the Python would continue.  No inner error either: every inner pass
  returns by `C04_bcPass` (the loop invariant `Shv.LoopPre` of Shaving.lean gives `Inv`), and the
  backtrack after a probe finds the level pushed by the probe (`Shv.probeG_total`).
    * `Dfs.consTerm_shaving` (and `Dfs.consTerm_shaving'` without `P.shr ≠ []`), `C04_shavingPass`
      (returns after at most 2·W + 2·n + 1 probes), `C04_shavingPass_no_error`

  Part 2 — total versions of the enumeration / optimisation theorems for the shaving configuration:
    * `C02_enumeration_shaving`, `C02_enumeration_shaving_any`, `C02_bc_vs_shaving`,
      `C03_optimum_shaving`, `C03_optimum_shaving_any`

  Part 3 — C17 for one shaving pass, for ANY problem, state and fuel, without any invariant
  (`Shv.StatLaw`, `Shv.loop_stats`, `C17_shaving_pass` and its readable projections):
      ΔBC_WITH_SHAVING = 1                      ΔSHAVING = ΔSHAVING_CHANGE + ΔSHAVING_NO_CHANGE
      ΔBACKTRACK = ΔSHAVING                     ΔBC = 1 + ΔSHAVING + ΔSHAVING_CHANGE   (n ≥ 1)
      ΔINCONSISTENCY = ΔSHAVING_CHANGE + [the pass reports inconsistency]
      CHOICE, DEPTH, SOLUTION unchanged; FILTER, ENTAILMENT, FILTER_NO_CHANGE only through the inner
      passes, with ΔFILTER_NO_CHANGE + ΔINCONSISTENCY ≤ ΔFILTER and ΔENTAILMENT ≤ ΔFILTER.

  Part 4 — C17 for `solve_one` / `solve()` with shaving (`Shv.SearchLaw`, `C17_shaving_solveOne`,
  `C17_shaving_solveAll`), again without any invariant.
-/
namespace Nucs

/-! ### the counters and the shape of one probe (no invariant needed) -/

/-- the counters of one probe: one pass (`PassLaw`) on the probe level, refuted iff that pass
    reports inconsistency, then exactly one backtrack -/
theorem Shv.probeG_stats {P : Problem} {d : Nat} {b : Branch} {restore : Dom → Dom} {s : State}
    {shaved : Bool} {s4 : State} (h : Shv.probeG P d b restore s = .ok (shaved, s4)) :
    ∃ st m, PassLaw s.stats m st ∧ (shaved = true ↔ st = .inconsistent) ∧
      s4.stats = { m with backtrack := m.backtrack + 1 } := by
  simp only [Shv.probeG] at h
  cases hpass : bcPass P { (s.push b) with trig := addProps P (s.push b).trig (s.push b).top.ne d b.events } with
  | error e => rw [hpass] at h; simp at h
  | ok res =>
    obtain ⟨st, s2⟩ := res
    rw [hpass] at h
    simp only at h
    have L := bcPass_law P _ st s2 hpass
    refine ⟨st, s2.stats, L, ?_⟩
    split at h
    · cases h
    · rename_i s4' hbt
      injection h with h; injection h with h1 h2; subst h1; subst h2
      refine ⟨by cases st <;> simp, ?_⟩
      have := (backtrack_stats P _ _ hbt).1
      rw [this]
      split <;> (try split) <;> rfl

/-- a probe resumes a level with as many domains as the alternative level -/
theorem Shv.probeG_len {P : Problem} {d : Nat} {b : Branch} {restore : Dom → Dom} {s : State} {alt : Level}
    (halt : b.alts = [alt]) {shaved : Bool} {s4 : State} (h : Shv.probeG P d b restore s = .ok (shaved, s4)) :
    s4.top.doms.length = alt.doms.length := by
  simp only [Shv.probeG] at h
  cases hpass : bcPass P { (s.push b) with trig := addProps P (s.push b).trig (s.push b).top.ne d b.events } with
  | error e => rw [hpass] at h; simp at h
  | ok res =>
    obtain ⟨st, s2⟩ := res
    rw [hpass] at h
    simp only at h
    have hb2 : s2.below = alt :: s.below := by
      rw [bcPass_below P _ st s2 hpass]; simp [State.push, halt]
    rw [hb2] at h
    by_cases hst : (st == BcStatus.inconsistent) = true
    · simp only [hst, if_true, backtrack, hb2] at h
      injection h with h; injection h with h1 h2; subst h2; rfl
    · simp only [hst, Bool.false_eq_true, if_false, backtrack] at h
      injection h with h; injection h with h1 h2; subst h2
      simp [Level.setDom]

theorem Shv.shaveBound_stats {P : Problem} {isMax : Bool} {d : Nat} {s : State}
    {shaved : Bool} {s4 : State} (h : shaveBound P isMax d s = .ok (shaved, s4)) :
    (∃ st m, PassLaw s.stats m st ∧ (shaved = true ↔ st = .inconsistent) ∧
      s4.stats = { m with backtrack := m.backtrack + 1 }) ∧ s4.top.doms.length = s.top.doms.length := by
  rw [Shv.shaveBound_eq] at h
  refine ⟨Shv.probeG_stats h, ?_⟩
  cases isMax with
  | false => rw [Shv.probeG_len (alt := _) rfl h]; simp [Level.setDom]
  | true => rw [Shv.probeG_len (alt := _) rfl h]; simp [Level.setDom]

/-! ### Part 1 — the shaving pass returns -/

theorem Shv.firstNotInstantiated_mem (D : Box) : ∀ (dec : List Nat) (d : Nat),
    firstNotInstantiated D dec = some d → d ∈ dec
  | [], _, h => by simp [firstNotInstantiated] at h
  | x :: xs, d, h => by
    simp only [firstNotInstantiated] at h
    split at h
    · injection h with h; subst h; simp
    · exact List.mem_cons_of_mem _ (Shv.firstNotInstantiated_mem D xs d h)

/-- the domain probed lies at or after the start index -/
theorem Shv.probe_idx_ge (D : Box) (decision : List Nat) (startIdx d : Nat)
    (h : firstNotInstantiated D (decision.filter (fun d => decide (d ≥ startIdx))) = some d) : startIdx ≤ d := by
  have := Shv.firstNotInstantiated_mem D _ d h
  simpa using (List.mem_filter.mp this).2

/-- a probe never ends in a model error; a refuted probe resumes the alternative level -/
theorem Shv.probeG_total {P : Problem} (hP : ProbOk P) (hW : WFP P) (hS : ∀ p ∈ P.props, Safe p.alg)
    {s : State} (hI : Inv P s) (hfix : AllFix P s)
    (hstack : StackOk P s.below) {d : Nat} (hd : d < s.top.doms.length) {b : Branch} (hb : BranchOk s.top d b)
    {alt : Level} (halt : b.alts = [alt]) (restore : Dom → Dom) :
    ∃ shaved s4, Shv.probeG P d b restore s = .ok (shaved, s4) ∧ (shaved = true → s4.top = alt) := by
  have hpre1 : Pre P { (s.push b) with trig := addProps P (s.push b).trig (s.push b).top.ne d b.events } :=
    push_pre hI hfix hstack hd hb (s.push b).stats
  obtain ⟨st, s2, hpass, _⟩ := C04_bcPass hP hW hS _ hpre1.inv
  have pr := bcPass_ok hP hW hpre1.inv hpass
  have hb2 : s2.below = alt :: s.below := by rw [pr.below]; simp [State.push, halt]
  simp only [Shv.probeG, hpass]
  by_cases hst : st = .inconsistent
  · subst hst
    simp only [beq_self_eq_true, if_true, backtrack, hb2]
    exact ⟨_, _, rfl, fun _ => rfl⟩
  · have hne : (st == BcStatus.inconsistent) = false := by cases st <;> simp at hst ⊢
    simp only [hne, hb2, Bool.false_eq_true, if_false, backtrack]
    exact ⟨_, _, rfl, fun hh => by cases hh⟩

/-- `shave_bound` returns; when the probe is refuted the box has lost (at least) one value -/
theorem Shv.shaveBound_total {P : Problem} (hP : ProbOk P) (hW : WFP P) (hS : ∀ p ∈ P.props, Safe p.alg)
    {s : State} (hI : Inv P s) (hfix : AllFix P s) (hstack : StackOk P s.below) (isMax : Bool) {d : Nat}
    (hub : (getDom s.top.doms d).1 < (getDom s.top.doms d).2) :
    ∃ shaved s4, shaveBound P isMax d s = .ok (shaved, s4) ∧
      (shaved = true → width s4.top.doms < width s.top.doms) := by
  have hd := lt_length_of_unbound _ d hub
  rw [Shv.shaveBound_eq]
  cases isMax with
  | false =>
    obtain ⟨shaved, s4, h, htop⟩ := Shv.probeG_total hP hW hS hI hfix hstack hd (minValue_ok s.top d hd hub) (alt := _) rfl
      (fun dom => if false then (dom.1, dom.2 + 1) else (dom.1 - 1, dom.2))
    refine ⟨shaved, s4, h, fun hsh => ?_⟩
    rw [htop hsh]
    have := width_set s.top.doms d ((getDom s.top.doms d).1 + 1, (getDom s.top.doms d).2) hd
    simp only [Level.setDom] at this ⊢
    omega
  | true =>
    obtain ⟨shaved, s4, h, htop⟩ := Shv.probeG_total hP hW hS hI hfix hstack hd (maxValue_ok s.top d hd hub) (alt := _) rfl
      (fun dom => if true then (dom.1, dom.2 + 1) else (dom.1 - 1, dom.2))
    refine ⟨shaved, s4, h, fun hsh => ?_⟩
    rw [htop hsh]
    have := width_set s.top.doms d ((getDom s.top.doms d).1, (getDom s.top.doms d).2 - 1) hd
    simp only [Level.setDom] at this ⊢
    omega

/-- the termination measure of the `while start_idx < n` loop: a refuted probe removes a value
    (`width` drops, the pair (start index, bound) does not go back); an unrefuted one advances the
    pair (start index, bound) lexicographically -/
def Shv.meas (isMax : Bool) (startIdx : Nat) (s : State) : Nat :=
  2 * width s.top.doms + 2 * (s.top.doms.length - startIdx) + (if isMax then 0 else 1)

theorem Shv.meas_stats (isMax : Bool) (startIdx : Nat) (s : State) (x : Stats) :
    Shv.meas isMax startIdx { s with stats := x } = Shv.meas isMax startIdx s := rfl

theorem Shv.cont_total {P : Problem} (hP : ProbOk P) (hW : WFP P) (hS : ∀ p ∈ P.props, Safe p.alg)
    (decision : List Nat) (fuel : Nat)
    (IH : ∀ (isMax hasShaved : Bool) (startIdx : Nat) (s : State),
      Shv.LoopPre P hasShaved startIdx s → Shv.meas isMax startIdx s < fuel →
      ∃ st s', shavingLoop P decision fuel isMax hasShaved startIdx s = .ok (st, s') ∧
        s'.stats.shaving ≤ s.stats.shaving + Shv.meas isMax startIdx s)
    (isMax : Bool) (startIdx : Nat) {s1 : State} (hI : Inv P s1) (hfix : AllFix P s1)
    (hstack : StackOk P s1.below) (hng : s1.top.doms.isGround = false)
    (hm : Shv.meas isMax startIdx s1 ≤ fuel) :
    ∃ st s', Shv.cont P decision fuel isMax startIdx s1 = .ok (st, s') ∧
      s'.stats.shaving ≤ s1.stats.shaving + Shv.meas isMax startIdx s1 := by
  simp only [Shv.cont]
  cases hv : firstNotInstantiated s1.top.doms (decision.filter (fun d => decide (d ≥ startIdx))) with
  | none => exact ⟨_, _, rfl, by omega⟩
  | some d =>
    simp only
    have hub := firstNotInstantiated_unbound _ _ d hv
    have hge := Shv.probe_idx_ge _ _ _ _ hv
    have hdn : d < s1.top.doms.length := lt_length_of_unbound _ d hub
    have hlen1 : s1.top.doms.length = P.shr.length := Box.le_length hI.sub
    have hdl : d < P.shr.length := by rw [← hlen1]; exact hdn
    obtain ⟨shaved, s3, hsb, hw⟩ := Shv.shaveBound_total hP hW hS
      (s := { s1 with stats := { s1.stats with shaving := s1.stats.shaving + 1 } })
      (Inv_stats hI _) hfix hstack isMax hub
    have po := Shv.shaveBound_ok hP hW (s := { s1 with stats := { s1.stats with shaving := s1.stats.shaving + 1 } })
      (Inv_stats hI _) hfix hstack isMax hub hsb
    have hb3 : s3.below = s1.below := po.below
    have hlen3 : s3.top.doms.length = s1.top.doms.length := by
      rw [Box.le_length po.inv.sub, hlen1]
    have hsh3 : s3.stats.shaving = s1.stats.shaving + 1 := by
      obtain ⟨⟨st1, m, L, _, hs3⟩, _⟩ := Shv.shaveBound_stats hsb
      rw [hs3]; exact L.shaving
    rw [hsb]
    cases shaved with
    | true =>
      simp only
      have hw' : width s3.top.doms < width s1.top.doms := hw rfl
      have hlt : Shv.meas isMax d { s3 with stats := { s3.stats with shavingChange := s3.stats.shavingChange + 1 } } <
          Shv.meas isMax startIdx s1 := by
        simp only [Shv.meas]
        rw [hlen3]
        omega
      obtain ⟨st, s', h, hb⟩ := IH isMax true d _
        ⟨Inv_stats po.inv _, by simp only; rw [hb3]; exact hstack, fun _ => hdl, fun hh => by cases hh⟩ (Nat.lt_of_lt_of_le hlt hm)
      simp only [Shv.meas_stats] at hb hlt
      exact ⟨st, s', h, by omega⟩
    | false =>
      simp only
      obtain ⟨hsd, hsn⟩ := po.same rfl
      simp only at hsd hsn
      have hfix3 : AllFix P s3 := by
        intro q hq hen
        rw [hsn] at hen; rw [hsd]
        exact hfix q hq hen
      have hng3 : s3.top.doms.isGround = false := by rw [hsd]; exact hng
      have pre : ∀ (i : Nat) (x : Stats), Shv.LoopPre P false i { s3 with stats := x } := fun i x =>
        ⟨Inv_stats po.inv _, by simp only; rw [hb3]; exact hstack, fun hh => (by cases hh), fun _ => ⟨hfix3, hng3⟩⟩
      cases isMax with
      | true =>
        simp only [if_true]
        have hlt : Shv.meas false (d + 1) { s3 with stats := { s3.stats with shavingNoChange := s3.stats.shavingNoChange + 1 } } <
            Shv.meas true startIdx s1 := by
          simp only [Shv.meas, hsd]
          simp only [Bool.false_eq_true, if_false, if_true]
          omega
        obtain ⟨st, s', h, hb⟩ := IH _ _ _ _ (pre _ _) (Nat.lt_of_lt_of_le hlt hm)
        simp only [Shv.meas_stats] at hb hlt
        exact ⟨st, s', h, by omega⟩
      | false =>
        simp only [Bool.false_eq_true, if_false]
        have hlt : Shv.meas true d { s3 with stats := { s3.stats with shavingNoChange := s3.stats.shavingNoChange + 1 } } <
            Shv.meas false startIdx s1 := by
          simp only [Shv.meas, hsd]
          simp only [Bool.false_eq_true, if_false, if_true]
          omega
        obtain ⟨st, s', h, hb⟩ := IH _ _ _ _ (pre _ _) (Nat.lt_of_lt_of_le hlt hm)
        simp only [Shv.meas_stats] at hb hlt
        exact ⟨st, s', h, by omega⟩

/-- THE LOOP RETURNS as soon as its fuel exceeds `Shv.meas`, after at most `Shv.meas` probes -/
theorem Shv.loop_total {P : Problem} (hP : ProbOk P) (hW : WFP P) (hS : ∀ p ∈ P.props, Safe p.alg)
    (decision : List Nat) :
    ∀ (fuel : Nat) (isMax hasShaved : Bool) (startIdx : Nat) (s : State),
      Shv.LoopPre P hasShaved startIdx s → Shv.meas isMax startIdx s < fuel →
      ∃ st s', shavingLoop P decision fuel isMax hasShaved startIdx s = .ok (st, s') ∧
        s'.stats.shaving ≤ s.stats.shaving + Shv.meas isMax startIdx s
  | 0, _, _, _, _, _, h => by omega
  | fuel + 1, isMax, hasShaved, startIdx, s, hpre, hm => by
    have IH := Shv.loop_total hP hW hS decision fuel
    rw [Shv.loop_succ]
    split
    · cases hasShaved with
      | false =>
        obtain ⟨hfix, hng⟩ := hpre.fix rfl
        simp only [Bool.false_eq_true, if_false, bne_self_eq_false]
        exact Shv.cont_total hP hW hS decision fuel IH isMax startIdx hpre.inv hfix hpre.stack hng (by omega)
      | true =>
        simp only [if_true]
        obtain ⟨st1, s1, hpass, _⟩ := C04_bcPass hP hW hS s hpre.inv
        rw [hpass]
        simp only
        have pr := bcPass_ok hP hW hpre.inv hpass
        by_cases hst1 : st1 = .unbound
        · subst hst1
          simp only [bne_self_eq_false, Bool.false_eq_true, if_false]
          have hI1 := pr.inv (by decide)
          have hle := pr.le (by decide)
          have hw := Dfs.width_le hle
          have hl := Box.le_length hle
          have hmle : Shv.meas isMax startIdx s1 ≤ Shv.meas isMax startIdx s := by
            simp only [Shv.meas]
            rw [hl]; omega
          obtain ⟨st, s', h, hb⟩ := Shv.cont_total hP hW hS decision fuel IH isMax startIdx hI1
            (AllFix_of_pass pr (by decide)) (by rw [pr.below]; exact hpre.stack) (pr.unbound rfl) (by omega)
          have := (bcPass_law P s _ s1 hpass).shaving
          exact ⟨st, s', h, by omega⟩
        · have hne : (st1 != BcStatus.unbound) = true := by cases st1 <;> simp at hst1 ⊢
          rw [hne]
          have := (bcPass_law P s _ s1 hpass).shaving
          exact ⟨_, _, rfl, by omega⟩
    · exact ⟨_, _, rfl, by omega⟩

/-- the fuel the model grants the loop exceeds the measure of the start state:
    `2·Σ(max − min) + 2·n + 1 < 2·Σ(max − min + 1) + 4·n + 8` -/
theorem Shv.meas_lt_fuel (s : State) (x : Stats) : Shv.meas false 0 { s with stats := x } < shavingFuel s := by
  simp only [Shv.meas, shavingFuel, foldl_width]
  simp only [Bool.false_eq_true, if_false]
  omega

/-- the shaving pass returns from every state satisfying the search invariant (at least one shared
    domain) -/
theorem Shv.pass_total {P : Problem} (hP : ProbOk P) (hW : WFP P) (hS : ∀ p ∈ P.props, Safe p.alg)
    (hne : P.shr ≠ []) (decision : List Nat) {s : State} (hpre : Pre P s) :
    ∃ st s', shavingPass P decision s = .ok (st, s') ∧
      s'.stats.shaving ≤ s.stats.shaving + (2 * width s.top.doms + 2 * s.top.doms.length + 1) := by
  have hpos : 0 < P.shr.length := List.length_pos_iff.mpr hne
  obtain ⟨st, s', h, hb⟩ := Shv.loop_total hP hW hS decision (shavingFuel s) false true 0
    { s with stats := { s.stats with bcShaving := s.stats.bcShaving + 1 } }
    ⟨Inv_stats hpre.inv _, hpre.stack, fun _ => hpos, fun hh => (by cases hh)⟩ (Shv.meas_lt_fuel s _)
  refine ⟨st, s', h, ?_⟩
  simp only [Shv.meas, Bool.false_eq_true, if_false] at hb
  omega

theorem Dfs.consTerm_shaving {P : Problem} (hP : ProbOk P) (hW : WFP P) (hS : ∀ p ∈ P.props, Safe p.alg)
    (cfg : Config) (hsh : cfg.cons = .shaving) (hne : P.shr ≠ []) : Dfs.ConsTerm P cfg := by
  constructor
  intro s hpre
  obtain ⟨st, s', h, _⟩ := Shv.pass_total hP hW hS hne cfg.decision hpre
  exact ⟨(st, s'), by simp [consPass, hsh, h]⟩


/-- … also without any shared domain (the loop is then not entered) -/
theorem Dfs.consTerm_shaving' {P : Problem} (hP : ProbOk P) (hW : WFP P) (hS : ∀ p ∈ P.props, Safe p.alg)
    (cfg : Config) (hsh : cfg.cons = .shaving) : Dfs.ConsTerm P cfg := by
  by_cases hne : P.shr = []
  · constructor
    intro s hpre
    exact ⟨_, by simp only [consPass, hsh]; exact Shv.pass_empty P cfg.decision s (Shv.doms_empty hpre.inv hne)⟩
  · exact Dfs.consTerm_shaving hP hW hS cfg hsh hne

/-- C04 for the shipped `shaving_consistency_algorithm`: from every state of the search the pass
    returns (never `.error .fuel`, `.error .oob` or `.error .stackOverflow`), after at most
    `2·W + 2·n + 1` probes, `W = Σ (max − min)` on the CURRENT domains and `n` the number of shared
    domains.  The model grants the loop `shavingFuel s = 2·W + 6·n + 8` iterations: enough. -/
theorem C04_shavingPass {P : Problem} (hP : ProbOk P) (hW : WFP P) (hS : ∀ p ∈ P.props, Safe p.alg)
    (decision : List Nat) (s : State) (hpre : Pre P s) :
    ∃ st s', shavingPass P decision s = .ok (st, s') ∧
      s'.stats.shaving - s.stats.shaving ≤ 2 * width s.top.doms + 2 * s.top.doms.length + 1 := by
  by_cases hne : P.shr = []
  · exact ⟨_, _, Shv.pass_empty P decision s (Shv.doms_empty hpre.inv hne), by simp⟩
  · obtain ⟨st, s', h, hb⟩ := Shv.pass_total hP hW hS hne decision hpre
    exact ⟨st, s', h, by omega⟩

theorem C04_shavingPass_no_error {P : Problem} (hP : ProbOk P) (hW : WFP P) (hS : ∀ p ∈ P.props, Safe p.alg)
    (decision : List Nat) (s : State) (hpre : Pre P s) (e : EngErr) : shavingPass P decision s ≠ .error e := by
  obtain ⟨st, s', h, _⟩ := C04_shavingPass hP hW hS decision s hpre
  rw [h]; intro h'; cases h'

/-! ### Part 2 — the total enumeration / optimisation theorems for the shaving configuration -/

/-- C02 for the shipped SHAVING configuration: any variable heuristic (`max_regret` with a complete
    cost table), any value heuristic (`min_cost` with a complete table), every shared domain a decision
    domain, at least one shared domain: the enumeration RETURNS and yields each solution exactly once -/
theorem C02_enumeration_shaving (P : Problem) (hP : ProbOk P) (hW : WFP P) (hS : ∀ p ∈ P.props, Safe p.alg)
    (hne : P.shr.Nonempty) (hne' : P.shr ≠ []) (hg : NscGuarded P) (cfg : Config) (hsh : cfg.cons = .shaving)
    (hall : ∀ i, i < P.shr.length → i ∈ cfg.decision) (hcost : CostOk cfg)
    (hvtab : cfg.varH = .maxRegret → ∀ d u, (getDom P.shr d).1 ≤ u → u ≤ (getDom P.shr d).2 →
      ∃ c, costAt cfg.varCosts d u = some c ∧ c ≤ maxsize)
    (htab : cfg.domH = .minCost → ∀ d u, (getDom P.shr d).1 ≤ u → u ≤ (getDom P.shr d).2 → (costAt cfg.domCosts d u).isSome = true)
    (hH : width P.shr + 2 ≤ cfg.height)
    (fuel1 fuel limit : Nat) (h1 : 2 * Dfs.bsize P.shr ≤ fuel1) (h2 : 2 * Dfs.bsize P.shr ≤ fuel)
    (h3 : 2 * Dfs.bsize P.shr ≤ limit) :
    ∃ (sols : List (List Int)) (s' : State) (L : List (List Int)),
      solveAll P cfg fuel1 fuel limit (State.init P) [] = .ok (sols, s') ∧
      sols = L.map (reported P) ∧ L.Nodup ∧ (∀ σ, σ ∈ L ↔ Sol P σ) ∧ (∀ σ, σ ∈ L ↔ SolW P σ) :=
  C02_enumeration_guarded P hP hne hg cfg (C10_consOk_shaving hP hW hne' cfg hsh) (Dfs.consKeeps_shaving hP hW cfg hsh)
    (Dfs.consTerm_shaving hP hW hS cfg hsh hne') (Dfs.heurOk_allDecision' P cfg hall hvtab htab) hcost hH
    fuel1 fuel limit h1 h2 h3

/-- C02 for shaving without the circuit-model discipline and for any heuristics satisfying `Dfs.HeurOk`:
    Sol ⊆ L ⊆ SolW -/
theorem C02_enumeration_shaving_any (P : Problem) (hP : ProbOk P) (hW : WFP P) (hS : ∀ p ∈ P.props, Safe p.alg)
    (hne : P.shr.Nonempty) (hne' : P.shr ≠ []) (cfg : Config) (hsh : cfg.cons = .shaving)
    (hheur : Dfs.HeurOk P cfg) (hcost : CostOk cfg) (hH : width P.shr + 2 ≤ cfg.height)
    (fuel1 fuel limit : Nat) (h1 : 2 * Dfs.bsize P.shr ≤ fuel1) (h2 : 2 * Dfs.bsize P.shr ≤ fuel)
    (h3 : 2 * Dfs.bsize P.shr ≤ limit) :
    ∃ (sols : List (List Int)) (s' : State) (L : List (List Int)),
      solveAll P cfg fuel1 fuel limit (State.init P) [] = .ok (sols, s') ∧
      sols = L.map (reported P) ∧ L.Nodup ∧ (∀ σ ∈ L, SolW P σ) ∧ (∀ σ, Sol P σ → σ ∈ L) :=
  C02_enumeration P hP hne cfg (C10_consOk_shaving hP hW hne' cfg hsh) (Dfs.consKeeps_shaving hP hW cfg hsh)
    (Dfs.consTerm_shaving hP hW hS cfg hsh hne') hheur hcost hH fuel1 fuel limit h1 h2 h3

/-- C02, consistency-algorithm independence (total form): the enumerations with bound consistency and
    with shaving — any heuristics on either side — both return, and yield the same solutions with the
    same multiplicities -/
theorem C02_bc_vs_shaving (P : Problem) (hP : ProbOk P) (hW : WFP P) (hS : ∀ p ∈ P.props, Safe p.alg)
    (hne : P.shr.Nonempty) (hne' : P.shr ≠ []) (hg : NscGuarded P) (cfg cfg' : Config)
    (hbc : cfg.cons = .bc) (hsh : cfg'.cons = .shaving)
    (hheur : Dfs.HeurOk P cfg) (hheur' : Dfs.HeurOk P cfg') (hcost : CostOk cfg) (hcost' : CostOk cfg')
    (hH : width P.shr + 2 ≤ cfg.height) (hH' : width P.shr + 2 ≤ cfg'.height)
    (fuel1 fuel limit fuel1' fuel' limit' : Nat)
    (h1 : 2 * Dfs.bsize P.shr ≤ fuel1) (h2 : 2 * Dfs.bsize P.shr ≤ fuel) (h3 : 2 * Dfs.bsize P.shr ≤ limit)
    (h1' : 2 * Dfs.bsize P.shr ≤ fuel1') (h2' : 2 * Dfs.bsize P.shr ≤ fuel') (h3' : 2 * Dfs.bsize P.shr ≤ limit') :
    ∃ sols sols' s1 s1', solveAll P cfg fuel1 fuel limit (State.init P) [] = .ok (sols, s1) ∧
      solveAll P cfg' fuel1' fuel' limit' (State.init P) [] = .ok (sols', s1') ∧ sols.Perm sols' :=
  C02_strategy_independent P P rfl rfl (fun _ => Iff.rfl) hP hP hne hg cfg cfg'
    (consOk_bc hP hW cfg hbc) (Dfs.consKeeps_bc hP hW cfg hbc) (Dfs.consTerm_bc hP hW hS cfg hbc) hheur hcost
    (C10_consOk_shaving hP hW hne' cfg' hsh) (Dfs.consKeeps_shaving hP hW cfg' hsh)
    (Dfs.consTerm_shaving hP hW hS cfg' hsh hne') hheur' hcost' hH hH'
    fuel1 fuel limit fuel1' fuel' limit' h1 h2 h3 h1' h2' h3'

/-- C03 for the shipped SHAVING configuration: minimize / maximize RETURN, with a feasible optimum, or
    nothing exactly when the problem is infeasible -/
theorem C03_optimum_shaving (P : Problem) (hP : ProbOk P) (hW : WFP P) (hS : ∀ p ∈ P.props, Safe p.alg)
    (hne : P.shr.Nonempty) (hne' : P.shr ≠ []) (hg : NscGuarded P) (cfg : Config) (hsh : cfg.cons = .shaving)
    (hall : ∀ i, i < P.shr.length → i ∈ cfg.decision) (hcost : CostOk cfg)
    (hvtab : cfg.varH = .maxRegret → ∀ d u, (getDom P.shr d).1 ≤ u → u ≤ (getDom P.shr d).2 →
      ∃ c, costAt cfg.varCosts d u = some c ∧ c ≤ maxsize)
    (htab : cfg.domH = .minCost → ∀ d u, (getDom P.shr d).1 ≤ u → u ≤ (getDom P.shr d).2 → (costAt cfg.domCosts d u).isSome = true)
    (hH : width P.shr + 2 ≤ cfg.height)
    (v : Nat) (hv : v < P.vars.length) (hdi : (P.vars.getD v (0, 0)).1 < P.shr.length) (minimize : Bool)
    (fuel1 fuel : Nat) (h1 : 2 * Dfs.bsize P.shr ≤ fuel1)
    (h2 : Dfs.dsize (getDom P.shr (P.vars.getD v (0, 0)).1) < fuel) :
    ∃ (r : Option (List Int)) (s' : State),
      optimize P cfg v minimize fuel1 fuel (State.init P) none = .ok (r, s') ∧
      (r = none ↔ ¬ ∃ σ, Sol P σ) ∧
      (∀ x, r = some x → (∃ σ, Sol P σ ∧ x = reported P σ) ∧
        ∀ τ, Sol P τ → Dfs.better minimize (getI x v) (getI (reported P τ) v)) :=
  C03_optimum_guarded P hP hne hg cfg (C10_consOk_shaving hP hW hne' cfg hsh) (Dfs.consKeeps_shaving hP hW cfg hsh)
    (Dfs.consTerm_shaving hP hW hS cfg hsh hne') (Dfs.heurOk_allDecision' P cfg hall hvtab htab) hcost hH
    v hv hdi minimize fuel1 fuel h1 h2

/-- C03 for shaving, any heuristics satisfying `Dfs.HeurOk`, without the circuit-model discipline -/
theorem C03_optimum_shaving_any (P : Problem) (hP : ProbOk P) (hW : WFP P) (hS : ∀ p ∈ P.props, Safe p.alg)
    (hne : P.shr.Nonempty) (hne' : P.shr ≠ []) (cfg : Config) (hsh : cfg.cons = .shaving)
    (hheur : Dfs.HeurOk P cfg) (hcost : CostOk cfg) (hH : width P.shr + 2 ≤ cfg.height)
    (v : Nat) (hv : v < P.vars.length) (hdi : (P.vars.getD v (0, 0)).1 < P.shr.length) (minimize : Bool)
    (fuel1 fuel : Nat) (h1 : 2 * Dfs.bsize P.shr ≤ fuel1)
    (h2 : Dfs.dsize (getDom P.shr (P.vars.getD v (0, 0)).1) < fuel) :
    ∃ (r : Option (List Int)) (s' : State),
      optimize P cfg v minimize fuel1 fuel (State.init P) none = .ok (r, s') ∧
      (∀ x, r = some x → (∃ σ, SolW P σ ∧ x = reported P σ) ∧
        ∀ τ, Sol P τ → Dfs.better minimize (getI x v) (getI (reported P τ) v)) ∧
      (r = none → ¬ ∃ σ, Sol P σ) ∧ ((¬ ∃ σ, SolW P σ) → r = none) :=
  C03_optimum P hP hne cfg (C10_consOk_shaving hP hW hne' cfg hsh) (Dfs.consKeeps_shaving hP hW cfg hsh)
    (Dfs.consTerm_shaving hP hW hS cfg hsh hne') hheur hcost hH v hv hdi minimize fuel1 fuel h1 h2

/-! ### Part 3 — C17: the statistics of a shaving pass -/

/-- the effect of (a stretch of) the shaving loop on the thirteen counters; `a` before, `b` after, `st`
    the reported status, `h = 1` when the stretch starts with a pass (`has_shaved`), else `0`:
    * `probes`        : ΔSHAVING = ΔSHAVING_CHANGE + ΔSHAVING_NO_CHANGE — every probe is counted once as
                        refuted or as not refuted;
    * `backtrack`     : ΔBACKTRACK = ΔSHAVING — every probe is undone by exactly one backtrack;
    * `bc`            : ΔBC = h + ΔSHAVING + ΔSHAVING_CHANGE — one pass per probe, plus one pass at the
                        loop head initially (`h`) and after every refuted probe;
    * `inconsistency` : ΔINCONSISTENCY = ΔSHAVING_CHANGE + [st = inconsistent] — exactly the refuted
                        probes and, possibly, the final loop-head pass report an inconsistency;
    * BC_WITH_SHAVING, CHOICE, DEPTH, SOLUTION do not move; FILTER, ENTAILMENT, FILTER_NO_CHANGE only
      grow, through the passes, and the conservation laws of the passes add up. -/
structure Shv.StatLaw (h : Nat) (a b : Stats) (st : BcStatus) : Prop where
  bcShaving : b.bcShaving = a.bcShaving
  shaving : a.shaving ≤ b.shaving
  shavingChange : a.shavingChange ≤ b.shavingChange
  shavingNoChange : a.shavingNoChange ≤ b.shavingNoChange
  probes : b.shaving + a.shavingChange + a.shavingNoChange = a.shaving + b.shavingChange + b.shavingNoChange
  backtrack : b.backtrack + a.shaving = a.backtrack + b.shaving
  bc : b.bc + a.shaving + a.shavingChange = a.bc + b.shaving + b.shavingChange + h
  choice : b.choice = a.choice
  depth : b.depth = a.depth
  solution : b.solution = a.solution
  filter : a.filter ≤ b.filter
  entailment : a.entailment ≤ b.entailment
  filterNoChange : a.filterNoChange ≤ b.filterNoChange
  inconsistency : b.inconsistency + a.shavingChange =
    a.inconsistency + b.shavingChange + (if st = .inconsistent then 1 else 0)
  conservation : b.filterNoChange + b.inconsistency + a.filter ≤ b.filter + a.filterNoChange + a.inconsistency
  entailment_le : b.entailment + a.filter ≤ b.filter + a.entailment

theorem Shv.StatLaw.refl (a : Stats) : Shv.StatLaw 0 a a .unbound := by
  constructor <;> first | rfl | exact Nat.le_refl _ | (simp only [reduceCtorEq, if_false]; omega) | omega

theorem Shv.StatLaw.of_pass {a m : Stats} {st : BcStatus} (L : PassLaw a m st) : Shv.StatLaw 1 a m st := by
  obtain ⟨h1, h2, h3, h4, h5, h6, h7, h8, h9, h10, h11, h12, h13, h14, h15⟩ := L
  constructor <;> omega

theorem Shv.StatLaw.head {a m b : Stats} {st : BcStatus} (L : PassLaw a m .unbound)
    (ih : Shv.StatLaw 0 m b st) : Shv.StatLaw 1 a b st := by
  obtain ⟨h1, h2, h3, h4, h5, h6, h7, h8, h9, h10, h11, h12, h13, h14, h15⟩ := L
  obtain ⟨i1, i2, i3, i4, i5, i6, i7, i8, i9, i10, i11, i12, i13, i14, i15, i16⟩ := ih
  simp only [reduceCtorEq, if_false] at h13
  constructor <;> omega

/-- a refuted probe, then the rest of the loop (which starts with a pass) -/
theorem Shv.StatLaw.shaved {a m b : Stats} {st : BcStatus}
    (L : PassLaw { a with shaving := a.shaving + 1 } m .inconsistent)
    (ih : Shv.StatLaw 1 { m with backtrack := m.backtrack + 1, shavingChange := m.shavingChange + 1 } b st) :
    Shv.StatLaw 0 a b st := by
  obtain ⟨h1, h2, h3, h4, h5, h6, h7, h8, h9, h10, h11, h12, h13, h14, h15⟩ := L
  obtain ⟨i1, i2, i3, i4, i5, i6, i7, i8, i9, i10, i11, i12, i13, i14, i15, i16⟩ := ih
  simp only [if_true] at h13
  simp only at h1 h2 h3 h4 h5 h6 h7 h8 h9 h10 h11 h12 h13 h14 h15 i1 i2 i3 i4 i5 i6 i7 i8 i9 i10 i11 i12 i13 i14 i15 i16
  constructor <;> omega

/-- an unrefuted probe, then the rest of the loop (which does not start with a pass) -/
theorem Shv.StatLaw.kept {a m b : Stats} {st1 st : BcStatus} (hst1 : st1 ≠ .inconsistent)
    (L : PassLaw { a with shaving := a.shaving + 1 } m st1)
    (ih : Shv.StatLaw 0 { m with backtrack := m.backtrack + 1, shavingNoChange := m.shavingNoChange + 1 } b st) :
    Shv.StatLaw 0 a b st := by
  obtain ⟨h1, h2, h3, h4, h5, h6, h7, h8, h9, h10, h11, h12, h13, h14, h15⟩ := L
  obtain ⟨i1, i2, i3, i4, i5, i6, i7, i8, i9, i10, i11, i12, i13, i14, i15, i16⟩ := ih
  rw [if_neg hst1] at h13
  simp only at h1 h2 h3 h4 h5 h6 h7 h8 h9 h10 h11 h12 h13 h14 h15 i1 i2 i3 i4 i5 i6 i7 i8 i9 i10 i11 i12 i13 i14 i15 i16
  constructor <;> omega

theorem Shv.cont_stats (P : Problem) (decision : List Nat) (fuel : Nat)
    (IH : ∀ (isMax hasShaved : Bool) (startIdx : Nat) (s : State) (st : BcStatus) (s' : State),
      (hasShaved = true → startIdx < s.top.doms.length) →
      shavingLoop P decision fuel isMax hasShaved startIdx s = .ok (st, s') →
      Shv.StatLaw (if hasShaved then 1 else 0) s.stats s'.stats st)
    (isMax : Bool) (startIdx : Nat) {s1 : State} {st : BcStatus} {s' : State}
    (h : Shv.cont P decision fuel isMax startIdx s1 = .ok (st, s')) : Shv.StatLaw 0 s1.stats s'.stats st := by
  simp only [Shv.cont] at h
  cases hv : firstNotInstantiated s1.top.doms (decision.filter (fun d => decide (d ≥ startIdx))) with
  | none =>
    rw [hv] at h
    injection h with h; injection h with h1 h2; subst h1; subst h2
    exact Shv.StatLaw.refl _
  | some d =>
    rw [hv] at h
    simp only at h
    have hub := firstNotInstantiated_unbound _ _ d hv
    have hdn : d < s1.top.doms.length := lt_length_of_unbound _ d hub
    cases hsb : shaveBound P isMax d { s1 with stats := { s1.stats with shaving := s1.stats.shaving + 1 } } with
    | error e => rw [hsb] at h; simp at h
    | ok res =>
      obtain ⟨shaved, s3⟩ := res
      rw [hsb] at h
      obtain ⟨⟨st1, m, L, hiff, hs3⟩, hlen⟩ := Shv.shaveBound_stats hsb
      simp only at L hlen
      cases shaved with
      | true =>
        simp only at h
        have hst1 : st1 = .inconsistent := hiff.mp rfl
        subst hst1
        have ih := IH isMax true d _ st s' (fun _ => by simp only; rw [hlen]; exact hdn) h
        simp only [if_true, hs3] at ih
        exact Shv.StatLaw.shaved L ih
      | false =>
        simp only at h
        have hst1 : st1 ≠ .inconsistent := fun hh => by have := hiff.mpr hh; cases this
        cases isMax with
        | true =>
          simp only [if_true] at h
          have ih := IH _ false _ _ st s' (fun hh => by cases hh) h
          simp only [Bool.false_eq_true, if_false, hs3] at ih
          exact Shv.StatLaw.kept hst1 L ih
        | false =>
          simp only [Bool.false_eq_true, if_false] at h
          have ih := IH _ false _ _ st s' (fun hh => by cases hh) h
          simp only [Bool.false_eq_true, if_false, hs3] at ih
          exact Shv.StatLaw.kept hst1 L ih

/-- C17 for the shaving loop — any fuel, any state, no invariant -/
theorem Shv.loop_stats (P : Problem) (decision : List Nat) :
    ∀ (fuel : Nat) (isMax hasShaved : Bool) (startIdx : Nat) (s : State) (st : BcStatus) (s' : State),
      (hasShaved = true → startIdx < s.top.doms.length) →
      shavingLoop P decision fuel isMax hasShaved startIdx s = .ok (st, s') →
      Shv.StatLaw (if hasShaved then 1 else 0) s.stats s'.stats st
  | 0, _, _, _, _, _, _, _, h => by simp [shavingLoop] at h
  | fuel + 1, isMax, hasShaved, startIdx, s, st, s', hidx, h => by
    have IH := Shv.loop_stats P decision fuel
    rw [Shv.loop_succ] at h
    cases hasShaved with
    | false =>
      simp only [Bool.false_eq_true, if_false]
      split at h
      · simp only [Bool.false_eq_true, if_false, bne_self_eq_false] at h
        exact Shv.cont_stats P decision fuel IH isMax startIdx h
      · injection h with h; injection h with h1 h2; subst h1; subst h2
        exact Shv.StatLaw.refl _
    | true =>
      rw [if_pos (hidx rfl)] at h
      simp only [if_true] at h ⊢
      cases hpass : bcPass P s with
      | error e => rw [hpass] at h; simp at h
      | ok res =>
        obtain ⟨st1, s1⟩ := res
        rw [hpass] at h
        simp only at h
        have L := bcPass_law P s st1 s1 hpass
        by_cases hst1 : st1 = .unbound
        · subst hst1
          simp only [bne_self_eq_false, Bool.false_eq_true, if_false] at h
          exact Shv.StatLaw.head L (Shv.cont_stats P decision fuel IH isMax startIdx h)
        · have hne : (st1 != BcStatus.unbound) = true := by cases st1 <;> simp at hst1 ⊢
          rw [hne] at h
          simp only [if_true] at h
          injection h with h; injection h with h1 h2; subst h1; subst h2
          exact Shv.StatLaw.of_pass L

/-- the law of a whole shaving pass (at least one shared domain): `Shv.StatLaw` with one initial pass,
    and BC_WITH_SHAVING grows by exactly one -/
structure Shv.PassStatLaw (a b : Stats) (st : BcStatus) : Prop where
  bcShaving : b.bcShaving = a.bcShaving + 1
  loop : Shv.StatLaw 1 { a with bcShaving := a.bcShaving + 1 } b st

/-- C17 for the shaving pass: any problem, any state with at least one domain, no invariant -/
theorem C17_shaving_pass (P : Problem) (decision : List Nat) (s : State) (hne : s.top.doms ≠ [])
    (st : BcStatus) (s' : State) (h : shavingPass P decision s = .ok (st, s')) :
    Shv.PassStatLaw s.stats s'.stats st := by
  have r := Shv.loop_stats P decision (shavingFuel s) false true 0
    { s with stats := { s.stats with bcShaving := s.stats.bcShaving + 1 } } st s'
    (fun _ => List.length_pos_iff.mpr hne) h
  simp only [if_true] at r
  exact ⟨r.bcShaving, r⟩


/-- the pass on a state without any domain only counts itself -/
theorem Shv.pass_empty_stats (P : Problem) (decision : List Nat) (s : State) (he : s.top.doms = [])
    (st : BcStatus) (s' : State) (h : shavingPass P decision s = .ok (st, s')) :
    s'.stats = { s.stats with bcShaving := s.stats.bcShaving + 1 } := by
  rw [Shv.pass_empty P decision s he] at h
  injection h with h; injection h with _ h2; subst h2; rfl

/-- C17 (shaving, a): BC_WITH_SHAVING counts the shaving passes -/
theorem C17_shaving_bcShaving (P : Problem) (decision : List Nat) (s : State) (st : BcStatus) (s' : State)
    (h : shavingPass P decision s = .ok (st, s')) : s'.stats.bcShaving = s.stats.bcShaving + 1 := by
  by_cases he : s.top.doms = []
  · rw [Shv.pass_empty_stats P decision s he st s' h]
  · exact (C17_shaving_pass P decision s he st s' h).bcShaving

/-- C17 (shaving, b): SHAVING = SHAVING_CHANGE + SHAVING_NO_CHANGE — every probe is counted exactly
    once, as refuted or as not refuted -/
theorem C17_shaving_probes (P : Problem) (decision : List Nat) (s : State) (st : BcStatus) (s' : State)
    (h : shavingPass P decision s = .ok (st, s')) :
    s.stats.shaving ≤ s'.stats.shaving ∧ s.stats.shavingChange ≤ s'.stats.shavingChange ∧
    s.stats.shavingNoChange ≤ s'.stats.shavingNoChange ∧
    s'.stats.shaving - s.stats.shaving =
      (s'.stats.shavingChange - s.stats.shavingChange) + (s'.stats.shavingNoChange - s.stats.shavingNoChange) := by
  by_cases he : s.top.doms = []
  · rw [Shv.pass_empty_stats P decision s he st s' h]; simp
  · have r := (C17_shaving_pass P decision s he st s' h).loop
    have h1 := r.shaving; have h2 := r.shavingChange; have h3 := r.shavingNoChange; have h4 := r.probes
    simp only at h1 h2 h3 h4
    omega

/-- C17 (shaving, c): every probe is undone by exactly one backtrack — BACKTRACK grows by the number
    of probes -/
theorem C17_shaving_backtrack (P : Problem) (decision : List Nat) (s : State) (st : BcStatus) (s' : State)
    (h : shavingPass P decision s = .ok (st, s')) :
    s.stats.backtrack ≤ s'.stats.backtrack ∧
    s'.stats.backtrack - s.stats.backtrack = s'.stats.shaving - s.stats.shaving := by
  by_cases he : s.top.doms = []
  · rw [Shv.pass_empty_stats P decision s he st s' h]; simp
  · have r := (C17_shaving_pass P decision s he st s' h).loop
    have h1 := r.shaving; have h2 := r.backtrack
    simp only at h1 h2
    omega

/-- C17 (shaving, d): the number of plain passes run by one shaving pass: one at the start, one per
    probe, one more after every refuted probe — ΔBC = 1 + ΔSHAVING + ΔSHAVING_CHANGE
    (at least one domain; with none, no pass runs at all: `Shv.pass_empty_stats`) -/
theorem C17_shaving_bc (P : Problem) (decision : List Nat) (s : State) (hne : s.top.doms ≠ [])
    (st : BcStatus) (s' : State) (h : shavingPass P decision s = .ok (st, s')) :
    s.stats.bc ≤ s'.stats.bc ∧
    s'.stats.bc - s.stats.bc =
      1 + (s'.stats.shaving - s.stats.shaving) + (s'.stats.shavingChange - s.stats.shavingChange) := by
  have r := (C17_shaving_pass P decision s hne st s' h).loop
  have h1 := r.shaving; have h2 := r.shavingChange; have h3 := r.bc
  simp only at h1 h2 h3
  omega

/-- C17 (shaving, e): INCONSISTENCY grows by the number of refuted probes, plus one iff the shaving
    pass itself reports inconsistency -/
theorem C17_shaving_inconsistency (P : Problem) (decision : List Nat) (s : State)
    (st : BcStatus) (s' : State) (h : shavingPass P decision s = .ok (st, s')) :
    s.stats.inconsistency ≤ s'.stats.inconsistency ∧
    s'.stats.inconsistency - s.stats.inconsistency =
      (s'.stats.shavingChange - s.stats.shavingChange) + (if st = .inconsistent then 1 else 0) := by
  by_cases he : s.top.doms = []
  · have h' := h
    rw [Shv.pass_empty P decision s he] at h'
    injection h' with h'; injection h' with h1 _; subst h1
    rw [Shv.pass_empty_stats P decision s he _ s' h]; simp
  · have r := (C17_shaving_pass P decision s he st s' h).loop
    have h1 := r.shavingChange; have h2 := r.inconsistency
    simp only at h1 h2
    omega

/-- C17 (shaving, f): CHOICE, DEPTH and SOLUTION do not move; FILTER, ENTAILMENT and FILTER_NO_CHANGE
    move only through the inner passes, whose conservation laws add up:
    ΔFILTER_NO_CHANGE + ΔINCONSISTENCY ≤ ΔFILTER and ΔENTAILMENT ≤ ΔFILTER -/
theorem C17_shaving_others (P : Problem) (decision : List Nat) (s : State)
    (st : BcStatus) (s' : State) (h : shavingPass P decision s = .ok (st, s')) :
    s'.stats.choice = s.stats.choice ∧ s'.stats.depth = s.stats.depth ∧ s'.stats.solution = s.stats.solution ∧
    s.stats.filter ≤ s'.stats.filter ∧ s.stats.entailment ≤ s'.stats.entailment ∧
    s.stats.filterNoChange ≤ s'.stats.filterNoChange ∧
    s'.stats.filterNoChange + s'.stats.inconsistency + s.stats.filter ≤
      s'.stats.filter + s.stats.filterNoChange + s.stats.inconsistency ∧
    s'.stats.entailment + s.stats.filter ≤ s'.stats.filter + s.stats.entailment := by
  by_cases he : s.top.doms = []
  · rw [Shv.pass_empty_stats P decision s he st s' h]
    refine ⟨rfl, rfl, rfl, ?_, ?_, ?_, ?_, ?_⟩ <;> simp only <;> omega
  · have r := (C17_shaving_pass P decision s he st s' h).loop
    exact ⟨r.choice, r.depth, r.solution, r.filter, r.entailment, r.filterNoChange, r.conservation, r.entailment_le⟩

/-! ### Part 4 — C17: the statistics of a search with shaving -/

/-- the effect of a search WITH SHAVING on the counters (`a` before, `b` after, `n` solutions returned).
    With  search backtracks := ΔBACKTRACK − ΔSHAVING  (the backtracks that are not the undoing of a probe):
    * `probes`   : ΔSHAVING = ΔSHAVING_CHANGE + ΔSHAVING_NO_CHANGE;
    * `bc`       : ΔBC = ΔBC_WITH_SHAVING + ΔSHAVING + ΔSHAVING_CHANGE;
    * `passes`   : ΔBC_WITH_SHAVING = ΔCHOICE + (search backtracks) + 1;
    * `failures` : (ΔINCONSISTENCY − ΔSHAVING_CHANGE) + n = (search backtracks) + 1 — the shaving passes
                   that report inconsistency and the solutions are each followed by a search backtrack,
                   except the very last event;
    * every counter only grows, ΔSOLUTION = n, and the conservation laws of the passes add up. -/
structure Shv.SearchLaw (a b : Stats) (n : Nat) : Prop where
  bcShaving : a.bcShaving ≤ b.bcShaving
  shaving : a.shaving ≤ b.shaving
  shavingChange : a.shavingChange ≤ b.shavingChange
  shavingNoChange : a.shavingNoChange ≤ b.shavingNoChange
  probes : b.shaving + a.shavingChange + a.shavingNoChange = a.shaving + b.shavingChange + b.shavingNoChange
  filter : a.filter ≤ b.filter
  entailment : a.entailment ≤ b.entailment
  filterNoChange : a.filterNoChange ≤ b.filterNoChange
  inconsistency : a.inconsistency ≤ b.inconsistency
  backtrack : a.backtrack + b.shaving ≤ b.backtrack + a.shaving
  choice : a.choice ≤ b.choice
  depth : a.depth ≤ b.depth
  bc : b.bc + a.bcShaving + a.shaving + a.shavingChange = a.bc + b.bcShaving + b.shaving + b.shavingChange
  passes : b.bcShaving + a.choice + a.backtrack + b.shaving = a.bcShaving + b.choice + b.backtrack + a.shaving + 1
  solution : b.solution = a.solution + n
  failures : b.inconsistency + a.shavingChange + a.backtrack + b.shaving + n =
    a.inconsistency + b.shavingChange + b.backtrack + a.shaving + 1
  conservation : b.filterNoChange + b.inconsistency + a.filter ≤ b.filter + a.filterNoChange + a.inconsistency
  entailment_le : b.entailment + a.filter ≤ b.filter + a.entailment

theorem Shv.SearchLaw.of_bound {a m : Stats} (L : Shv.PassStatLaw a m .bound) :
    Shv.SearchLaw a { m with solution := m.solution + 1 } 1 := by
  obtain ⟨h0, h1, h2, h3, h4, h5, h6, h7, h8, h9, h10, h11, h12, h13, h14, h15, h16⟩ := L
  simp only [reduceCtorEq, if_false] at h14
  simp only at h1 h2 h3 h4 h5 h6 h7 h8 h9 h10 h11 h12 h13 h14 h15 h16
  constructor <;> simp only <;> omega

theorem Shv.SearchLaw.of_exhausted {a m : Stats} (L : Shv.PassStatLaw a m .inconsistent) : Shv.SearchLaw a m 0 := by
  obtain ⟨h0, h1, h2, h3, h4, h5, h6, h7, h8, h9, h10, h11, h12, h13, h14, h15, h16⟩ := L
  simp only [if_true] at h14
  simp only at h1 h2 h3 h4 h5 h6 h7 h8 h9 h10 h11 h12 h13 h14 h15 h16
  constructor <;> omega

theorem Shv.SearchLaw.of_choice {a m b : Stats} {n : Nat} (k : Nat) (L : Shv.PassStatLaw a m .unbound)
    (ih : Shv.SearchLaw { m with choice := m.choice + 1, depth := max m.depth k } b n) :
    Shv.SearchLaw a b n := by
  obtain ⟨h0, h1, h2, h3, h4, h5, h6, h7, h8, h9, h10, h11, h12, h13, h14, h15, h16⟩ := L
  obtain ⟨i1, i2, i3, i4, i5, i6, i7, i8, i9, i10, i11, i12, i13, i14, i15, i16, i17, i18⟩ := ih
  simp only [reduceCtorEq, if_false] at h14
  simp only at h1 h2 h3 h4 h5 h6 h7 h8 h9 h10 h11 h12 h13 h14 h15 h16
  simp only at i1 i2 i3 i4 i5 i6 i7 i8 i9 i10 i11 i12 i13 i14 i15 i16 i17 i18
  constructor <;> omega

theorem Shv.SearchLaw.of_backtrack {a m b : Stats} {n : Nat} (L : Shv.PassStatLaw a m .inconsistent)
    (ih : Shv.SearchLaw { m with backtrack := m.backtrack + 1 } b n) :
    Shv.SearchLaw a b n := by
  obtain ⟨h0, h1, h2, h3, h4, h5, h6, h7, h8, h9, h10, h11, h12, h13, h14, h15, h16⟩ := L
  obtain ⟨i1, i2, i3, i4, i5, i6, i7, i8, i9, i10, i11, i12, i13, i14, i15, i16, i17, i18⟩ := ih
  simp only [if_true] at h14
  simp only at h1 h2 h3 h4 h5 h6 h7 h8 h9 h10 h11 h12 h13 h14 h15 h16
  simp only at i1 i2 i3 i4 i5 i6 i7 i8 i9 i10 i11 i12 i13 i14 i15 i16 i17 i18
  constructor <;> omega

/-- a search that found a solution, the backtrack of the generator's resumption, another search -/
theorem Shv.SearchLaw.seq {a m b : Stats} {n : Nat} (L : Shv.SearchLaw a m 1)
    (ih : Shv.SearchLaw { m with backtrack := m.backtrack + 1 } b n) : Shv.SearchLaw a b (n + 1) := by
  obtain ⟨h1, h2, h3, h4, h5, h6, h7, h8, h9, h10, h11, h12, h13, h14, h15, h16, h17, h18⟩ := L
  obtain ⟨i1, i2, i3, i4, i5, i6, i7, i8, i9, i10, i11, i12, i13, i14, i15, i16, i17, i18⟩ := ih
  simp only at i1 i2 i3 i4 i5 i6 i7 i8 i9 i10 i11 i12 i13 i14 i15 i16 i17 i18
  constructor <;> omega

theorem Shv.consPass_shaving (P : Problem) (cfg : Config) (hc : cfg.cons = .shaving) (s : State) :
    consPass P cfg s = shavingPass P cfg.decision s := by
  simp [consPass, hc]

/-- C17 for one `solve_one` call with shaving — any fuel, any state, no invariant (a call from a
    state without any domain does not return: `Shv.solveOne_empty`) -/
theorem C17_shaving_solveOne (P : Problem) (cfg : Config) (hc : cfg.cons = .shaving) :
    ∀ (fuel : Nat) (s : State) (r : Option (List Int)) (s' : State),
      solveOne P cfg fuel s = .ok (r, s') → Shv.SearchLaw s.stats s'.stats (if r.isSome then 1 else 0)
  | 0, _, _, _, h => by simp [solveOne] at h
  | fuel + 1, s, r, s', h => by
    have hne : s.top.doms ≠ [] := fun he => Shv.solveOne_empty P cfg hc (fuel + 1) s he _ h
    simp only [solveOne, Shv.consPass_shaving P cfg hc] at h
    split at h
    · cases h
    · cases hp : shavingPass P cfg.decision s with
      | error e => rw [hp] at h; simp at h
      | ok x =>
        obtain ⟨st, s1⟩ := x
        have L := C17_shaving_pass P cfg.decision s hne st s1 hp
        rw [hp] at h
        cases st with
        | bound =>
          simp only at h
          injection h with h; injection h with h1 h2; subst h1; subst h2
          exact Shv.SearchLaw.of_bound L
        | unbound =>
          simp only at h
          split at h
          · cases h
          · split at h
            · cases h
            · cases h
            · split at h
              · cases h
              · rename_i b _
                have ih := C17_shaving_solveOne P cfg hc fuel _ r s' h
                exact Shv.SearchLaw.of_choice _ L ih
        | inconsistent =>
          simp only at h
          split at h
          · injection h with h; injection h with h1 h2; subst h1; subst h2
            exact Shv.SearchLaw.of_exhausted L
          · rename_i s2 hb
            have ih := C17_shaving_solveOne P cfg hc fuel s2 r s' h
            rw [(backtrack_stats P s1 s2 hb).1] at ih
            exact Shv.SearchLaw.of_backtrack L ih

/-- C17 for the `solve()` generator with shaving: with `n` the number of solutions returned,
    `Shv.SearchLaw` holds with that `n` -/
theorem C17_shaving_solveAll (P : Problem) (cfg : Config) (hc : cfg.cons = .shaving) (fuel1 : Nat) :
    ∀ (fuel limit : Nat) (s : State) (acc sols : List (List Int)) (s' : State),
      solveAll P cfg fuel1 fuel (limit + 1) s acc = .ok (sols, s') →
      ∃ n, n ≤ limit + 1 ∧ sols.length = acc.length + n ∧ Shv.SearchLaw s.stats s'.stats n
  | 0, _, _, _, _, _, h => by simp [solveAll] at h
  | fuel + 1, limit, s, acc, sols, s', h => by
    simp only [solveAll] at h
    cases hso : solveOne P cfg fuel1 s with
    | error e => rw [hso] at h; simp at h
    | ok x =>
      obtain ⟨r, s1⟩ := x
      have L := C17_shaving_solveOne P cfg hc fuel1 s r s1 hso
      rw [hso] at h
      cases r with
      | none =>
        simp only at h
        injection h with h; injection h with h1 h2; subst h1; subst h2
        exact ⟨0, by omega, by simp, L⟩
      | some sol =>
        simp only at h
        have L1 : Shv.SearchLaw s.stats s1.stats 1 := L
        split at h
        · injection h with h; injection h with h1 h2; subst h1; subst h2
          exact ⟨1, by omega, by simp, L1⟩
        · rename_i hl
          split at h
          · injection h with h; injection h with h1 h2; subst h1; subst h2
            exact ⟨1, by omega, by simp, L1⟩
          · rename_i s2 hb
            obtain ⟨l, rfl⟩ : ∃ l, limit = l + 1 := ⟨limit - 1, by omega⟩
            obtain ⟨n, hn, hlen, ih⟩ := C17_shaving_solveAll P cfg hc fuel1 fuel l s2 (sol :: acc) sols s' h
            rw [(backtrack_stats P s1 s2 hb).1] at ih
            exact ⟨n + 1, by omega, by rw [hlen]; simp; omega, Shv.SearchLaw.seq L1 ih⟩

/-! ### non-vacuity -/

/-- `Shv.example` (x + y = 3, |x − y| ≤ 1 on [0,3]²): the hypotheses of `Dfs.consTerm_shaving` /
    `C04_shavingPass` hold -/
theorem Shv.example_ok : ProbOk Shv.example ∧ WFP Shv.example ∧ (∀ p ∈ Shv.example.props, Safe p.alg) ∧
    Shv.example.shr ≠ [] ∧ Pre Shv.example (State.init Shv.example) := by
  refine ⟨⟨fun p hp => localOk_of_proven p.alg ?_, ?_⟩, ?_, ?_, by simp [Shv.example],
    Pre_init _ (by simp [Shv.example, Box.Nonempty]) {}⟩
  · simp [Shv.example] at hp; rcases hp with rfl | rfl | rfl <;> simp [provenAlgs]
  · intro p hp; simp [Shv.example] at hp; rcases hp with rfl | rfl | rfl <;> simp [Contract, views]
  · intro p hp v hv; simp [Shv.example] at hp
    rcases hp with rfl | rfl | rfl <;> (simp at hv; rcases hv with rfl | rfl <;> simp [Shv.example])
  · intro p hp; simp [Shv.example] at hp
    rcases hp with rfl | rfl | rfl
    · exact safe_affineEq
    · exact safe_affineLeq
    · exact safe_affineLeq

/-- the pass returns from the root of `Shv.example`, after at most 2·6 + 2·2 + 1 = 17 probes
    (the model grants 32 iterations) -/
example : ∃ st s', shavingPass Shv.example [0, 1] (State.init Shv.example) = .ok (st, s') ∧ s'.stats.shaving - 0 ≤ 17 :=
  C04_shavingPass Shv.example_ok.1 Shv.example_ok.2.1 Shv.example_ok.2.2.1 [0, 1] _ Shv.example_ok.2.2.2.2

example : shavingFuel (State.init Shv.example) = 32 := by rfl

/-- … and its counters: 1 shaving pass, 6 probes = 2 refuted + 4 not refuted, 6 backtracks,
    9 = 1 + 6 + 2 plain passes, 2 inconsistencies (the refuted probes) -/
example : (shavingPass Shv.example [0, 1] (State.init Shv.example)).toOption.map (fun r => (r.1, r.2.stats.toList)) =
    some (.unbound, [9, 1, 6, 2, 4, 4, 24, 14, 2, 6, 0, 0, 0]) := by rfl

/-- the hypotheses of `C17_shaving_pass` are met by that run -/
example : ∃ s', shavingPass Shv.example [0, 1] (State.init Shv.example) = .ok (.unbound, s') ∧
    Shv.PassStatLaw (State.init Shv.example).stats s'.stats .unbound :=
  ⟨_, rfl, C17_shaving_pass Shv.example [0, 1] _ (by simp [State.init, Shv.example]) _ _ rfl⟩

/-- `c04Example` (x, y ∈ [0,5], x + y ≤ 4, x ≤ y) with the SHAVING configuration: all hypotheses of
    `C02_enumeration_shaving` hold; 2·|root| = 72 -/
example : ∃ (sols : List (List Int)) (s' : State) (L : List (List Int)),
    solveAll c04Example { decision := [0, 1], cons := .shaving } 72 72 72 (State.init c04Example) [] = .ok (sols, s') ∧
    sols = L.map (reported c04Example) ∧ L.Nodup ∧ (∀ σ, σ ∈ L ↔ Sol c04Example σ) ∧ (∀ σ, σ ∈ L ↔ SolW c04Example σ) :=
  C02_enumeration_shaving c04Example c04Example_ok.1 c04Example_ok.2.1 c04Example_ok.2.2.1
    (by simp [c04Example, Box.Nonempty]) (by simp [c04Example])
    (by intro p hp ha; simp [c04Example] at hp; rcases hp with rfl | rfl <;> cases ha)
    { decision := [0, 1], cons := .shaving } rfl
    (by intro i hi; simp [c04Example] at hi; simp; omega) (by intro h; cases h) (by intro h; cases h) (by intro h; cases h)
    (by decide) 72 72 72 (by decide) (by decide) (by decide)

/-- … and of `C03_optimum_shaving`, for maximising x -/
example : ∃ (r : Option (List Int)) (s' : State),
    optimize c04Example { decision := [0, 1], cons := .shaving } 0 false 72 7 (State.init c04Example) none = .ok (r, s') ∧
    (r = none ↔ ¬ ∃ σ, Sol c04Example σ) ∧
    (∀ x, r = some x → (∃ σ, Sol c04Example σ ∧ x = reported c04Example σ) ∧
      ∀ τ, Sol c04Example τ → Dfs.better false (getI x 0) (getI (reported c04Example τ) 0)) :=
  C03_optimum_shaving c04Example c04Example_ok.1 c04Example_ok.2.1 c04Example_ok.2.2.1
    (by simp [c04Example, Box.Nonempty]) (by simp [c04Example])
    (by intro p hp ha; simp [c04Example] at hp; rcases hp with rfl | rfl <;> cases ha)
    { decision := [0, 1], cons := .shaving } rfl
    (by intro i hi; simp [c04Example] at hi; simp; omega) (by intro h; cases h) (by intro h; cases h) (by intro h; cases h)
    (by decide) 0 (by decide) (by decide) false 72 7 (by decide) (by decide)

example : (optimize c04Example { decision := [0, 1], cons := .shaving } 0 false 72 7 (State.init c04Example) none).map (·.1) =
    .ok (some [2, 2]) := by rfl

/-- the whole enumeration of `c04Example` with shaving: 9 solutions; 41 plain passes = 17 shaving passes
    + 22 probes + 2 refuted probes; 17 shaving passes = 8 choices + (30 − 22) search backtracks + 1;
    (2 − 2) inconsistent shaving passes + 9 solutions = 8 search backtracks + 1 -/
example : (solveAll c04Example { decision := [0, 1], cons := .shaving } 72 72 72 (State.init c04Example) []).toOption.map
      (fun r => (r.1.length, r.2.stats.toList)) =
    some (9, [41, 17, 22, 2, 20, 9, 28, 11, 2, 30, 8, 2, 9]) := by rfl

end Nucs
