import NucsProofs.Propagators.Affine
import NucsProofs.Propagators.AffineLeq
import NucsProofs.Propagators.AlldiffCorrectFinal
import NucsProofs.Propagators.AlldifferentReg
import NucsProofs.Propagators.CountEq
import NucsProofs.Propagators.Counting
import NucsProofs.Propagators.Dummy
import NucsProofs.Propagators.Element
import NucsProofs.Propagators.ExactOfSupport
import NucsProofs.Propagators.GccCIsPort
import NucsProofs.Propagators.GccExact
import NucsProofs.Propagators.GccLbcFinal
import NucsProofs.Propagators.GccPortSound
import NucsProofs.Propagators.GccReg
import NucsProofs.Propagators.Lex
import NucsProofs.Propagators.MinMax
import NucsProofs.Propagators.NoSubCycle
import NucsProofs.Propagators.Scc
import NucsProofs.Propagators.SupportCertProofs

import NucsProofs.Engine.BcLoop

/-!
  C08 (d) — the wake-up events each constraint declares are sufficient (`TrigOk`, Spec.lean).
  Generated list; the engine part of C08 is in NucsProofs/Properties/C08.lean.
-/
namespace Nucs

theorem C08_trig_and : TrigOk .and := trigOk_and
theorem C08_trig_affineEq : TrigOk .affineEq := trigOk_affineEq
theorem C08_trig_affineGeq : TrigOk .affineGeq := trigOk_affineGeq
theorem C08_trig_affineLeq : TrigOk .affineLeq := trigOk_affineLeq
theorem C08_trig_alldifferent : TrigOk .alldifferent := trigOk_alldifferent
theorem C08_trig_countEq : TrigOk .countEq := trigOk_countEq
theorem C08_trig_dummy : TrigOk .dummy := trigOk_dummy
theorem C08_trig_elementIv : TrigOk .elementIv := trigOk_elementIv
theorem C08_trig_elementLiv : TrigOk .elementLiv := trigOk_elementLiv
theorem C08_trig_elementLic : TrigOk .elementLic := trigOk_elementLic
theorem C08_trig_exactlyEq : TrigOk .exactlyEq := trigOk_exactlyEq
theorem C08_trig_exactlyTrue : TrigOk .exactlyTrue := trigOk_exactlyTrue
theorem C08_trig_gcc : TrigOk .gcc := trigOk_gcc
theorem C08_trig_lexLeq : TrigOk .lexLeq := trigOk_lexLeq
theorem C08_trig_maxEq : TrigOk .maxEq := trigOk_maxEq
theorem C08_trig_maxLeq : TrigOk .maxLeq := trigOk_maxLeq
theorem C08_trig_minEq : TrigOk .minEq := trigOk_minEq
theorem C08_trig_minGeq : TrigOk .minGeq := trigOk_minGeq
theorem C08_trig_noSubCycle_partial : TrigOkP .noSubCycle := trigOkP_noSubCycle
/-- the full statement is FALSE for the code (known finding K3) -/
theorem C08_trig_noSubCycle_full_is_false : ¬ TrigOkW .noSubCycle := not_trigOkW_noSubCycle
theorem C08_trig_relation : TrigOk .relation := trigOk_relation
theorem C08_trig_scc : TrigOk .scc := trigOk_scc

def C08_trig_unproved : List Alg := []

theorem localOk_and : LocalOk .and := ⟨sound_and, groundOk_and, entailOk_and, TrigG_of_TrigOk (by decide) trigOk_and, contractMono_and⟩
theorem localOk_affineEq : LocalOk .affineEq := ⟨sound_affineEq, groundOk_affineEq, entailOk_affineEq, TrigG_of_TrigOk (by decide) trigOk_affineEq, contractMono_affineEq⟩
theorem localOk_affineGeq : LocalOk .affineGeq := ⟨sound_affineGeq, groundOk_affineGeq, entailOk_affineGeq, TrigG_of_TrigOk (by decide) trigOk_affineGeq, contractMono_affineGeq⟩
theorem localOk_affineLeq : LocalOk .affineLeq := ⟨sound_affineLeq, groundOk_affineLeq, entailOk_affineLeq, TrigG_of_TrigOk (by decide) trigOk_affineLeq, contractMono_affineLeq⟩
theorem localOk_alldifferent : LocalOk .alldifferent := ⟨sound_alldifferent, groundOk_alldifferent, entailOk_alldifferent, TrigG_of_TrigOk (by decide) trigOk_alldifferent, contractMono_alldifferent⟩
theorem localOk_countEq : LocalOk .countEq := ⟨sound_countEq, groundOk_countEq, entailOk_countEq, TrigG_of_TrigOk (by decide) trigOk_countEq, contractMono_countEq⟩
theorem localOk_dummy : LocalOk .dummy := ⟨sound_dummy, groundOk_dummy, entailOk_dummy, TrigG_of_TrigOk (by decide) trigOk_dummy, contractMono_dummy⟩
theorem localOk_elementIv : LocalOk .elementIv := ⟨sound_elementIv, groundOk_elementIv, entailOk_elementIv, TrigG_of_TrigOk (by decide) trigOk_elementIv, contractMono_elementIv⟩
theorem localOk_elementLiv : LocalOk .elementLiv := ⟨sound_elementLiv, groundOk_elementLiv, entailOk_elementLiv, TrigG_of_TrigOk (by decide) trigOk_elementLiv, contractMono_elementLiv⟩
theorem localOk_elementLic : LocalOk .elementLic := ⟨sound_elementLic, groundOk_elementLic, entailOk_elementLic, TrigG_of_TrigOk (by decide) trigOk_elementLic, contractMono_elementLic⟩
theorem localOk_exactlyEq : LocalOk .exactlyEq := ⟨sound_exactlyEq, groundOk_exactlyEq, entailOk_exactlyEq, TrigG_of_TrigOk (by decide) trigOk_exactlyEq, contractMono_exactlyEq⟩
theorem localOk_exactlyTrue : LocalOk .exactlyTrue := ⟨sound_exactlyTrue, groundOk_exactlyTrue, entailOk_exactlyTrue, TrigG_of_TrigOk (by decide) trigOk_exactlyTrue, contractMono_exactlyTrue⟩
theorem localOk_gcc : LocalOk .gcc := ⟨sound_gcc, groundOk_gcc, entailOk_gcc, TrigG_of_TrigOk (by decide) trigOk_gcc, contractMono_gcc⟩
theorem localOk_lexLeq : LocalOk .lexLeq := ⟨sound_lexLeq, groundOk_lexLeq, entailOk_lexLeq, TrigG_of_TrigOk (by decide) trigOk_lexLeq, contractMono_lexLeq⟩
theorem localOk_maxEq : LocalOk .maxEq := ⟨sound_maxEq, groundOk_maxEq, entailOk_maxEq, TrigG_of_TrigOk (by decide) trigOk_maxEq, contractMono_maxEq⟩
theorem localOk_maxLeq : LocalOk .maxLeq := ⟨sound_maxLeq, groundOk_maxLeq, entailOk_maxLeq, TrigG_of_TrigOk (by decide) trigOk_maxLeq, contractMono_maxLeq⟩
theorem localOk_minEq : LocalOk .minEq := ⟨sound_minEq, groundOk_minEq, entailOk_minEq, TrigG_of_TrigOk (by decide) trigOk_minEq, contractMono_minEq⟩
theorem localOk_minGeq : LocalOk .minGeq := ⟨sound_minGeq, groundOk_minGeq, entailOk_minGeq, TrigG_of_TrigOk (by decide) trigOk_minGeq, contractMono_minGeq⟩
theorem localOk_noSubCycle : LocalOk .noSubCycle := ⟨sound_noSubCycle, groundOk_noSubCycle, entailOk_noSubCycle, TrigG_of_TrigOkP trigOkP_noSubCycle, contractMono_noSubCycle⟩
theorem localOk_relation : LocalOk .relation := ⟨sound_relation, groundOk_relation, entailOk_relation, TrigG_of_TrigOk (by decide) trigOk_relation, contractMono_relation⟩
theorem localOk_scc : LocalOk .scc := ⟨sound_scc, groundOk_scc, entailOk_scc, TrigG_of_TrigOk (by decide) trigOk_scc, contractMono_scc⟩

/-- the algorithms whose five local contracts are all proved -/
def provenAlgs : List Alg := [.and, .affineEq, .affineGeq, .affineLeq, .alldifferent, .countEq, .dummy, .elementIv, .elementLiv, .elementLic, .exactlyEq, .exactlyTrue, .gcc, .lexLeq, .maxEq, .maxLeq, .minEq, .minGeq, .noSubCycle, .relation, .scc]

theorem localOk_of_proven (a : Alg) (h : a ∈ provenAlgs) : LocalOk a := by
  simp only [provenAlgs, List.mem_cons, List.mem_nil_iff, or_false] at h
  rcases h with rfl | rfl | rfl | rfl | rfl | rfl | rfl | rfl | rfl | rfl | rfl | rfl | rfl | rfl | rfl | rfl | rfl | rfl | rfl | rfl | rfl
  · exact localOk_and
  · exact localOk_affineEq
  · exact localOk_affineGeq
  · exact localOk_affineLeq
  · exact localOk_alldifferent
  · exact localOk_countEq
  · exact localOk_dummy
  · exact localOk_elementIv
  · exact localOk_elementLiv
  · exact localOk_elementLic
  · exact localOk_exactlyEq
  · exact localOk_exactlyTrue
  · exact localOk_gcc
  · exact localOk_lexLeq
  · exact localOk_maxEq
  · exact localOk_maxLeq
  · exact localOk_minEq
  · exact localOk_minGeq
  · exact localOk_noSubCycle
  · exact localOk_relation
  · exact localOk_scc

end Nucs
