import NucsProofs.Engine.Optimum
import NucsProofs.Examples.GolombConsSound
import NucsProofs.Examples.Counts
/-!
  The Golomb model's own consistency algorithm as a consistency algorithm of the engine model
  (`ConsAlg.golomb`, `consPass = golombPass`): it satisfies the two contracts the generic search theorems
  ask of a consistency algorithm —

  * `ConsOk`   (the pass keeps the search invariant: stack untouched, queue well-formed, every enabled
                constraint at a fixpoint afterwards, domains only shrink, BOUND/UNBOUND answered correctly), for
                EVERY problem: tightening a domain and queueing the watchers of the announced events
                preserves the propagation invariant `Inv` (`Inv_tighten`), then bound consistency runs;
  * `ConsKeeps` (no solution of the problem is lost) for `GolombProblem(n, sb)`: `C20_golomb_prune_sound`.

  Hence the partial-correctness theorems of enumeration and optimisation (C02/C03, generic in the consistency
  algorithm) hold for the Golomb example RUN WITH ITS OWN ALGORITHM: `C20_golomb_own_enumeration`,
  `C20_golomb_own_optimum`.  (Termination/`ConsTerm` is not claimed: it needs "the scan for unused distances never
  leaves its array", which is NOT a counting fact: `golomb_scan_bound_needs_reachability` below exhibits a box of non-empty
  domains for 6 marks on which the scan runs off the array — it holds only on the states a search reaches, where the scanned
  distances beyond the first open mark are open or too large to be marked; validated on whole runs, not proved.)
-/
namespace Nucs
open Ex

/-- tightening one domain to a non-empty sub-range and queueing the watchers of (at least) the events of that
    change preserves the propagation invariant -/
theorem Inv_tighten {P : Problem} {s : State} (hI : Inv P s) {d : Nat} (hd : d < s.top.doms.length) {part : Dom}
    (hsub : (getDom s.top.doms d).1 ≤ part.1 ∧ part.2 ≤ (getDom s.top.doms d).2) (hne : part.1 ≤ part.2)
    (ev : Ev) (hev : Ev.le (evOf (getDom s.top.doms d) part) ev) :
    Inv P { s with top := s.top.setDom d part, trig := addProps P s.trig s.top.ne d ev } := by
  refine ⟨?_, ?_, ?_, ?_, ?_, ?_⟩
  · simp [addProps_length, hI.lenT]
  · simp only [Level.setDom]; exact hI.lenN
  · simp only [Level.setDom]; exact Box.le_trans (views_set_le hsub) hI.sub
  · simp only [Level.setDom]
    apply Box.nonempty_of_get
    intro k _
    rw [getDom_set]
    split
    · exact hne
    · exact Box.nonempty_getDom hI.nonempty k
  · intro q hq hen
    simp only [Level.setDom] at hen ⊢
    rcases hI.fix q hq hen with ht | hf
    · left
      rw [getB_addProps P s.trig s.top.ne d ev q (by rw [hI.lenT]; exact hq) hq, ht]
      simp
    · by_cases hm : (trigMask (P.prop q) d).meets ev = true
      · left
        rw [getB_addProps P s.trig s.top.ne d ev q (by rw [hI.lenT]; exact hq) hq, hen, Problem.prop_eq_getElem!, hm]
        simp
      · right
        exact fix_after_change q hf hd hsub ev hev hm
  · intro q hq hdis t ht
    simp only [Level.setDom] at hdis ht
    exact hI.ent q hq hdis t (inBox_of_le ht (views_le (views_set_le hsub) _))

namespace Ex

/-- what the tightening loop guarantees when it does not fail -/
theorem golombTighten_inv (P : Problem) (n : Nat) (ms : List Int) :
    ∀ (pairs : List (Nat × Nat)) (s : State) (ok : Bool) (s' : State), Inv P s →
      (∀ p ∈ pairs, (P.vars.getD (golombIdx n p.1 p.2) (0, 0)).1 < s.top.doms.length) →
      golombTighten P n ms pairs s = (ok, s') →
      s'.below = s.below ∧ s'.trig.length = P.props.length ∧
        (ok = true → Inv P s' ∧ Box.le s'.top.doms s.top.doms)
  | [], s, ok, s', hI, _, h => by
    simp only [golombTighten] at h
    cases h
    exact ⟨rfl, hI.lenT, fun _ => ⟨hI, Box.le_refl _⟩⟩
  | (i, j) :: rest, s, ok, s', hI, hidx, h => by
    simp only [golombTighten] at h
    have hd := hidx (i, j) (by simp)
    simp only at hd
    split at h
    · exact golombTighten_inv P n ms rest s ok s' hI (fun p hp => hidx p (List.mem_cons_of_mem _ hp)) h
    · rename_i hlt
      split at h
      · -- the domain is emptied: PROBLEM_INCONSISTENT
        cases h
        exact ⟨rfl, hI.lenT, fun h => by cases h⟩
      · rename_i hgt
        have hsub : (getDom s.top.doms (P.vars.getD (golombIdx n i j) (0, 0)).1).1 ≤ getI ms (j - i) ∧
            (getDom s.top.doms (P.vars.getD (golombIdx n i j) (0, 0)).1).2 ≤ (getDom s.top.doms (P.vars.getD (golombIdx n i j) (0, 0)).1).2 :=
          ⟨by omega, Int.le_refl _⟩
        have hne : getI ms (j - i) ≤ (getDom s.top.doms (P.vars.getD (golombIdx n i j) (0, 0)).1).2 := by omega
        have hI1 := Inv_tighten hI hd (part := (getI ms (j - i), (getDom s.top.doms (P.vars.getD (golombIdx n i j) (0, 0)).1).2))
          hsub hne
          (if getI ms (j - i) == (getDom s.top.doms (P.vars.getD (golombIdx n i j) (0, 0)).1).2 then Ev.minGround else Ev.minOnly)
          (by
            simp only [evOf, Ev.le]
            split <;> rename_i hg
            · simp only [beq_iff_eq] at hg
              simp [Ev.minGround]
            · simp only [beq_iff_eq] at hg
              simp [Ev.minOnly]
              intro _
              exact hg)
        have hlen1 : (s.top.setDom (P.vars.getD (golombIdx n i j) (0, 0)).1
            (getI ms (j - i), (getDom s.top.doms (P.vars.getD (golombIdx n i j) (0, 0)).1).2)).doms.length = s.top.doms.length := by
          simp [Level.setDom]
        obtain ⟨h1, h2, h3⟩ := golombTighten_inv P n ms rest _ ok s' hI1
          (fun p hp => by simp only; rw [hlen1]; exact hidx p (List.mem_cons_of_mem _ hp)) h
        refine ⟨h1, h2, fun hok => ?_⟩
        obtain ⟨h4, h5⟩ := h3 hok
        exact ⟨h4, Box.le_trans h5 (by simp only [Level.setDom]; exact views_set_le hsub)⟩

/-- the pruning part keeps the propagation invariant -/
theorem golombPruneN_inv (P : Problem) (n : Nat) (decision : List Nat) (s : State) (hI : Inv P s)
    (hidx : ∀ ni, ∀ p ∈ golombPairs n ni, (P.vars.getD (golombIdx n p.1 p.2) (0, 0)).1 < s.top.doms.length)
    (ok : Bool) (s' : State) (h : golombPruneN P n decision s = .ok (ok, s')) :
    s'.below = s.below ∧ s'.trig.length = P.props.length ∧ (ok = true → Inv P s' ∧ Box.le s'.top.doms s.top.doms) := by
  unfold golombPruneN at h
  split at h
  · cases h; exact ⟨rfl, hI.lenT, fun _ => ⟨hI, Box.le_refl _⟩⟩
  · rename_i ni _
    split at h
    · dsimp only at h
      split at h
      · cases h
      · split at h
        · cases h
        · rename_i ms _
          simp only [Except.ok.injEq] at h
          exact golombTighten_inv P n ms _ s ok s' hI (hidx ni) h
    · cases h; exact ⟨rfl, hI.lenT, fun _ => ⟨hI, Box.le_refl _⟩⟩

theorem golomb_pairs_in_range (n : Nat) (sb : Bool) (s : State) (hI : Inv (golombProblem n sb) s) :
    ∀ ni, ∀ p ∈ golombPairs n ni,
      ((golombProblem n sb).vars.getD (golombIdx n p.1 p.2) (0, 0)).1 < s.top.doms.length := by
  intro ni p hp
  obtain ⟨_, h2, h3⟩ := mem_golombPairs hp
  have hpos := pairPos_lt h2 h3
  have hlen : s.top.doms.length = triangular (n - 1) := by
    rw [Box.le_length hI.sub, golomb_eq]
    simp [mkProblem, gShr_length]
  rw [golomb_vars, golombIdx_eq, idVars_getD hpos, hlen]
  exact hpos

end Ex

/-- `ConsOk` for the Golomb model's own consistency algorithm -/
theorem consOk_golomb (n : Nat) (hn : 1 ≤ n) (sb : Bool) (hP : ProbOk (golombProblem n sb)) (hW : WFP (golombProblem n sb))
    (cfg : Config) (hg : cfg.cons = .golomb) : ConsOk (golombProblem n sb) cfg := by
  constructor
  intro s s' st hpre h
  have hcp : consPass (golombProblem n sb) cfg s = golombPass (golombProblem n sb) cfg.decision s := by simp [consPass, hg]
  have hmk : golombMarkNb (golombProblem n sb).vars.length = n := by
    rw [golomb_vars, show (idVars (triangular (n - 1))).length = triangular (n - 1) by simp [idVars]]
    exact golombMarkNb_tri n hn
  rw [hcp] at h
  unfold golombPass golombPrune at h
  rw [hmk] at h
  split at h
  · cases h
  · rename_i s1 hpr
    obtain ⟨hb, hl, _⟩ := golombPruneN_inv _ _ _ s hpre.inv (golomb_pairs_in_range n sb s hpre.inv) false s1 hpr
    simp only [Except.ok.injEq, Prod.mk.injEq] at h
    obtain ⟨rfl, rfl⟩ := h
    exact ⟨hb, hl, fun hne => absurd rfl hne, fun hx => (by cases hx), fun hx => (by cases hx)⟩
  · rename_i s1 hpr
    obtain ⟨hb, hl, h3⟩ := golombPruneN_inv _ _ _ s hpre.inv (golomb_pairs_in_range n sb s hpre.inv) true s1 hpr
    obtain ⟨hI1, hle1⟩ := h3 rfl
    have pr := bcPass_ok hP hW hI1 h
    exact ⟨pr.below.trans hb, pr.lenT, fun hst => ⟨pr.inv hst, AllFix_of_pass pr hst, Box.le_trans (pr.le hst) hle1⟩,
      pr.bound, pr.unbound⟩

/-- `ConsKeeps` for the Golomb model's own consistency algorithm: no solution of `GolombProblem(n, sb)` is lost -/
theorem consKeeps_golomb (n : Nat) (hn : 2 ≤ n) (sb : Bool) (hP : ProbOk (golombProblem n sb)) (hW : WFP (golombProblem n sb))
    (cfg : Config) (hg : cfg.cons = .golomb) : Dfs.ConsKeeps (golombProblem n sb) cfg := by
  constructor
  intro s s' st hpre h σ hsol hσ
  have hcp : consPass (golombProblem n sb) cfg s = golombPass (golombProblem n sb) cfg.decision s := by simp [consPass, hg]
  rw [hcp] at h
  unfold golombPass at h
  split at h
  · cases h
  · rename_i s1 hpr
    -- the pruning part cannot fail on a box that holds a solution
    have := (C20_golomb_prune_sound n hn sb cfg.decision s σ hsol hσ false s1 hpr).1
    cases this
  · rename_i s1 hpr
    obtain ⟨_, hσ1, _⟩ := C20_golomb_prune_sound n hn sb cfg.decision s σ hsol hσ true s1 hpr
    unfold golombPrune at hpr
    rw [show golombMarkNb (golombProblem n sb).vars.length = n by
      rw [golomb_vars, show (idVars (triangular (n - 1))).length = triangular (n - 1) by simp [idVars]]
      exact golombMarkNb_tri n (by omega)] at hpr
    obtain ⟨_, _, h3⟩ := golombPruneN_inv _ _ _ s hpre.inv (golomb_pairs_in_range n sb s hpre.inv) true s1 hpr
    exact bcLoopG_keeps_Sol pickProp_ok hP hW _ none _ s' st (Inv_stats (h3 rfl).1 _) h σ hsol hσ1

/-- C20 / C02 for the Golomb example RUN WITH ITS OWN CONSISTENCY ALGORITHM (partial correctness): whenever the enumeration
    returns, it returns the reported vectors of a duplicate-free list of solutions, and ALL solutions unless it was cut by the
    limit — what the pinned code violated (D15: constraints violated; D17: rulers lost) -/
theorem C20_golomb_own_enumeration (n : Nat) (hn : 2 ≤ n) (sb : Bool)
    (hP : ProbOk (golombProblem n sb)) (hW : WFP (golombProblem n sb)) (hne : (golombProblem n sb).shr.Nonempty)
    (cfg : Config) (hg : cfg.cons = .golomb) (hcost : CostOk cfg)
    (fuel1 fuel limit : Nat) (sols : List (List Int)) (s' : State)
    (h : solveAll (golombProblem n sb) cfg fuel1 fuel limit (State.init (golombProblem n sb)) [] = .ok (sols, s')) :
    ∃ L : List (List Int), sols = L.map (reported (golombProblem n sb)) ∧ L.Nodup ∧
      (∀ σ ∈ L, SolW (golombProblem n sb) σ) ∧ (sols.length < limit → ∀ σ, Sol (golombProblem n sb) σ → σ ∈ L) :=
  C02_exactly_once_partial _ hP hne cfg (consOk_golomb n (by omega) sb hP hW cfg hg) (consKeeps_golomb n hn sb hP hW cfg hg) hcost
    fuel1 fuel limit sols s' h

/-- … and minimisation / maximisation with it returns an optimal solution, or nothing exactly when there is none -/
theorem C20_golomb_own_optimum (n : Nat) (hn : 2 ≤ n) (sb : Bool)
    (hP : ProbOk (golombProblem n sb)) (hW : WFP (golombProblem n sb)) (hne : (golombProblem n sb).shr.Nonempty)
    (cfg : Config) (hg : cfg.cons = .golomb) (hcost : CostOk cfg)
    (v : Nat) (hv : v < (golombProblem n sb).vars.length)
    (hdi : ((golombProblem n sb).vars.getD v (0, 0)).1 < (golombProblem n sb).shr.length) (minimize : Bool)
    (fuel1 fuel : Nat) (r : Option (List Int)) (s' : State)
    (h : optimize (golombProblem n sb) cfg v minimize fuel1 fuel (State.init (golombProblem n sb)) none = .ok (r, s')) :
    (∀ x, r = some x → (∃ σ, SolW (golombProblem n sb) σ ∧ x = reported (golombProblem n sb) σ) ∧
      ∀ τ, Sol (golombProblem n sb) τ → Dfs.better minimize (getI x v) (getI (reported (golombProblem n sb) τ) v)) ∧
    (r = none → ¬ ∃ σ, Sol (golombProblem n sb) σ) ∧ ((¬ ∃ σ, SolW (golombProblem n sb) σ) → r = none) :=
  C03_optimum_partial _ hP hne cfg (consOk_golomb n (by omega) sb hP hW cfg hg) (consKeeps_golomb n hn sb hP hW cfg hg) hcost
    v hv hdi minimize fuel1 fuel r s' h

/-- the hypotheses on the problem are ONE decidable check (`Counts.ProblemReady`: every posted algorithm has proved local contracts and
    is posted within its contract, variable indices in range, domains non-empty) -/
theorem C20_golomb_own_enumeration_ready (n : Nat) (hn : 2 ≤ n) (sb : Bool) (hR : Counts.ProblemReady (golombProblem n sb))
    (cfg : Config) (hg : cfg.cons = .golomb) (hcost : CostOk cfg)
    (fuel1 fuel limit : Nat) (sols : List (List Int)) (s' : State)
    (h : solveAll (golombProblem n sb) cfg fuel1 fuel limit (State.init (golombProblem n sb)) [] = .ok (sols, s')) :
    ∃ L : List (List Int), sols = L.map (reported (golombProblem n sb)) ∧ L.Nodup ∧
      (∀ σ ∈ L, SolW (golombProblem n sb) σ) ∧ (sols.length < limit → ∀ σ, Sol (golombProblem n sb) σ → σ ∈ L) :=
  C20_golomb_own_enumeration n hn sb (ProbOk_of_proven _ hR.1 hR.2.1) hR.2.2.1 hR.2.2.2.1 cfg hg hcost fuel1 fuel limit sols s' h

/-- non-vacuity: the check holds for the shipped sizes (here 4 to 7 marks, with symmetry breaking) -/
example : Counts.ProblemReady (golombProblem 4 true) ∧ Counts.ProblemReady (golombProblem 5 true) ∧
    Counts.ProblemReady (golombProblem 6 true) ∧ Counts.ProblemReady (golombProblem 7 true) := by
  refine ⟨?_, ?_, ?_, ?_⟩ <;> decide +kernel

/-- the box for 6 marks (variables `d01 d02 d03 d04 d05 | d12 d13 d14 d15 | d23 d24 d25 | d34 d35 | d45`): the first four marks
    and every scanned inner distance instantiated to nine distinct values below 11 (not a partial ruler: unreachable) -/
def golombOffArrayBox : Box :=
  [(1,1),(2,2),(3,3),(4,4),(20,40), (5,5),(6,6),(7,7),(8,8), (9,9),(1,40),(1,40), (1,40),(1,40), (1,40)]

/-- The code's comment "there will be at least n-2 unused numbers" is not a consequence of the sizes alone: on this box of
    non-empty domains (first open decision variable 4, ten variables scanned against ten slots, nine of them marked) the scan
    for the second unused distance leaves `used_distance` — `IndexError` in the interpreted code (harness/golomb_corr.py runs the
    code on the states of this family), `.error .oob` in the model.  `ConsTerm`/`Safe` for `ConsAlg.golomb` therefore need an
    invariant of REACHABLE states and are not claimed. -/
theorem golomb_scan_bound_needs_reachability :
    (match golombPruneN (golombProblem 6) 6 (List.range 5)
        { (State.init (golombProblem 6)) with
            top := { doms := golombOffArrayBox, ne := List.replicate (golombProblem 6).props.length true } } with
     | .error .oob => true
     | _ => false) = true ∧ golombOffArrayBox.all (fun d => decide (d.1 ≤ d.2)) = true := by
  constructor <;> decide +kernel

end Nucs
