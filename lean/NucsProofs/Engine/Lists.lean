import NucsProofs.Basic
/-!
  List bookkeeping for the engine proofs: `getDom`/`getB` against `List.set`, `views`, trigger masks.
-/
namespace Nucs

theorem getDom_set (D : Box) (i j : Nat) (v : Dom) :
    getDom (D.set i v) j = if i = j ∧ i < D.length then v else getDom D j := by
  unfold getDom
  by_cases h : i = j
  · subst h
    by_cases hl : i < D.length
    · simp [List.getD, hl]
    · simp [List.getD, hl]
  · simp [List.getD, h, List.getElem?_set_ne h]

theorem getB_set (l : List Bool) (i j : Nat) (v : Bool) :
    getB (l.set i v) j = if i = j ∧ i < l.length then v else getB l j := by
  unfold getB
  by_cases h : i = j
  · subst h
    by_cases hl : i < l.length
    · simp [List.getD, hl]
    · simp [List.getD, hl]
  · simp [List.getD, h, List.getElem?_set_ne h]

theorem getDom_of_ge (D : Box) (i : Nat) (h : D.length ≤ i) : getDom D i = (0, 0) := by
  unfold getDom; simp [List.getD, List.getElem?_eq_none h]

theorem getDom_mem (D : Box) (i : Nat) (h : i < D.length) : getDom D i ∈ D := by
  unfold getDom; simp [List.getD, List.getElem?_eq_getElem h]

/-- `Box.le` from components -/
theorem Box.le_of_get : ∀ {A B : Box}, A.length = B.length →
    (∀ k, k < B.length → (getDom B k).1 ≤ (getDom A k).1 ∧ (getDom A k).2 ≤ (getDom B k).2) → Box.le A B
  | [], [], _, _ => trivial
  | a :: as, b :: bs, hl, h => by
    refine ⟨by simpa [getDom] using h 0 (by simp), ?_⟩
    exact Box.le_of_get (by simpa using hl)
      (fun k hk => by simpa [getDom] using h (k + 1) (by simpa using hk))
  | [], _ :: _, hl, _ => by simp at hl
  | _ :: _, [], hl, _ => by simp at hl

theorem Box.nonempty_of_get {B : Box} (h : ∀ k, k < B.length → (getDom B k).1 ≤ (getDom B k).2) : B.Nonempty := by
  intro d hd
  obtain ⟨k, hk, rfl⟩ := List.getElem_of_mem hd
  have := h k hk
  simpa [getDom, List.getD, List.getElem?_eq_getElem hk] using this

/-- the default domain is non-empty, so `getDom` of a non-empty box is always non-empty -/
theorem Box.nonempty_getDom {B : Box} (h : B.Nonempty) (k : Nat) : (getDom B k).1 ≤ (getDom B k).2 := by
  by_cases hk : k < B.length
  · exact Box.nonempty_get h k hk
  · rw [getDom_of_ge B k (by omega)]; simp

/-- componentwise `≤` between boxes of equal length, also valid beyond the length -/
theorem Box.le_getDom {A B : Box} (h : Box.le A B) (k : Nat) :
    (getDom B k).1 ≤ (getDom A k).1 ∧ (getDom A k).2 ≤ (getDom B k).2 := by
  by_cases hk : k < B.length
  · exact Box.le_get k h hk
  · have hl := Box.le_length h
    rw [getDom_of_ge B k (by omega), getDom_of_ge A k (by omega)]; simp

/-! ### views -/

theorem views_length (D : Box) (vars : List (Nat × Int)) : (views D vars).length = vars.length := by
  simp [views]

theorem getDom_views (D : Box) (vars : List (Nat × Int)) (k : Nat) (hk : k < vars.length) :
    getDom (views D vars) k = (getDom D (vars[k]).1).shift (vars[k]).2 := by
  simp [getDom, views, List.getD, hk]

theorem views_le {A B : Box} (h : Box.le A B) (vars : List (Nat × Int)) : Box.le (views A vars) (views B vars) := by
  apply Box.le_of_get (by simp [views_length])
  intro k hk
  rw [views_length] at hk
  rw [getDom_views _ _ _ hk, getDom_views _ _ _ hk]
  have := Box.le_getDom h (vars[k]).1
  simp only [Dom.shift]
  omega

theorem views_nonempty {D : Box} (h : D.Nonempty) (vars : List (Nat × Int)) : (views D vars).Nonempty := by
  apply Box.nonempty_of_get
  intro k hk
  rw [views_length] at hk
  rw [getDom_views _ _ _ hk]
  have := Box.nonempty_getDom h (vars[k]).1
  simp only [Dom.shift]
  omega

/-! ### events and masks -/

theorem evOf_shift (o n : Dom) (c : Int) : evOf (o.shift c) (n.shift c) = evOf o n := by
  obtain ⟨o1, o2⟩ := o; obtain ⟨n1, n2⟩ := n
  simp only [evOf, Dom.shift, Ev.mk.injEq, Prod.mk.injEq, ne_eq]
  refine ⟨?_, ?_, ?_⟩ <;> apply decide_eq_decide.mpr <;> omega

theorem quiet_shift (m : Ev) (o n : Dom) (c : Int) : quiet m (o.shift c) (n.shift c) ↔ quiet m o n := by
  simp [quiet, evOf_shift]

/-- `m ⊆ m'` as masks -/
def Ev.sub (m m' : Ev) : Prop := ∀ e : Ev, m.meets e = true → m'.meets e = true

theorem quiet_of_sub {m m' : Ev} (h : Ev.sub m m') {o n : Dom} (hq : quiet m' o n) : quiet m o n := by
  unfold quiet at *
  cases hm : m.meets (evOf o n) with
  | false => rfl
  | true => rw [h _ hm] at hq; exact hq

theorem Ev.sub_or_left (a b : Ev) : Ev.sub a (a.or b) := by
  intro e h
  obtain ⟨a1, a2, a3⟩ := a; obtain ⟨b1, b2, b3⟩ := b; obtain ⟨e1, e2, e3⟩ := e
  revert h
  cases a1 <;> cases a2 <;> cases a3 <;> cases b1 <;> cases b2 <;> cases b3 <;> cases e1 <;> cases e2 <;> cases e3 <;>
    simp [Ev.meets, Ev.or]

theorem Ev.sub_or_right (a b : Ev) : Ev.sub b (a.or b) := by
  intro e h
  obtain ⟨a1, a2, a3⟩ := a; obtain ⟨b1, b2, b3⟩ := b; obtain ⟨e1, e2, e3⟩ := e
  revert h
  cases a1 <;> cases a2 <;> cases a3 <;> cases b1 <;> cases b2 <;> cases b3 <;> cases e1 <;> cases e2 <;> cases e3 <;>
    simp [Ev.meets, Ev.or]

theorem Ev.sub_trans {a b c : Ev} (h1 : Ev.sub a b) (h2 : Ev.sub b c) : Ev.sub a c :=
  fun e h => h2 e (h1 e h)

/-- the trigger mask of a constraint on shared domain `d` contains the mask of every position of
    the constraint that sits on `d` (this is the OR-ing of Problem.init) -/
theorem trigMaskAux_ge (a : Alg) (ps : List Int) (n d : Nat) :
    ∀ (vars : List (Nat × Int)) (k0 j : Nat) (hj : j < vars.length), (vars[j]).1 = d →
      Ev.sub (maskAlg a ps n (k0 + j)) (trigMaskAux a ps n d k0 vars)
  | [], _, _, hj, _ => by simp at hj
  | (i, o) :: rest, k0, 0, _, hd => by
    simp only [List.getElem_cons_zero] at hd
    simp only [trigMaskAux, hd, if_true, Nat.add_zero]
    exact Ev.sub_or_left _ _
  | (i, o) :: rest, k0, j + 1, hj, hd => by
    simp only [List.getElem_cons_succ] at hd
    have ih := trigMaskAux_ge a ps n d rest (k0 + 1) j (by simpa using hj) hd
    have e : k0 + (j + 1) = k0 + 1 + j := by omega
    rw [e]
    simp only [trigMaskAux]
    split
    · exact Ev.sub_trans ih (Ev.sub_or_right _ _)
    · exact ih

theorem trigMask_ge (p : PropInst) (k : Nat) (hk : k < p.vars.length) :
    Ev.sub (maskAlg p.alg p.params p.vars.length k) (trigMask p (p.vars[k]).1) := by
  have := trigMaskAux_ge p.alg p.params p.vars.length (p.vars[k]).1 p.vars 0 k hk rfl
  simpa [trigMask] using this

end Nucs
