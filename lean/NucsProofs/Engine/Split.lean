import NucsProofs.SpecEngine
import NucsProofs.Engine.Lists
/-!
  C12 — `Problem.split` partitions the search space.

  `splitBounds lo hi k` (NucsModel/ProblemOps.lean) are the bounds of the parts of `[lo, hi]`,
  `splitProblem shr vars k v` the root boxes of the sub-problems.

  Results for EVERY `lo hi k` (also `k = 0`, `k = 1`, `k > hi - lo + 1`, and the degenerate `hi < lo`):
    * `splitBounds_length`        the number of parts is `max 1 (min k (hi - lo + 1))`
    * `splitBounds_chain`         the parts are consecutive from `lo` to `hi` (`Chain`)
    * `splitBounds_cover`         `lo ≤ v ≤ hi ↔ v` lies in some part
    * `splitBounds_pairwise`      the parts are strictly ordered, hence pairwise disjoint
    * `splitBounds_sub`           every part lies inside `[lo, hi]`
  and for `lo ≤ hi`:
    * `splitBounds_nonempty`      no part is empty
    * `splitBounds_sizes`, `splitBounds_big_count`   balanced sizes
  and for `splitProblem` (the only hypothesis: the variable's shared-domain index is in range):
    * `splitProblem_length`, `splitProblem_part_length`, `splitProblem_getDom_ne`, `splitProblem_le`,
      `C12_splitProblem_partition`, `C12_splitProblem_unique`, `C12_splitProblem_disjoint`,
      `C12_split_Sol`, `C12_split_Sol_unique`, `C12_split_Sol_disjoint`.
-/
namespace Nucs

/-! ### consecutive parts -/

/-- `Chain lo parts hi`: the first part starts at `lo`, every next part starts right after the
    previous one ends, the last part ends at `hi` (for `parts = []`: the range is empty) -/
def Chain : Int → List Dom → Int → Prop
  | lo, [], hi => lo = hi + 1
  | lo, p :: ps, hi => p.1 = lo ∧ Chain (p.2 + 1) ps hi

/-- a chain of non-empty parts spans a range `[lo, hi]` with `lo ≤ hi + 1` -/
theorem Chain.le : ∀ {parts : List Dom} {lo hi : Int}, Chain lo parts hi →
    (∀ p ∈ parts, p.1 ≤ p.2) → lo ≤ hi + 1
  | [], lo, hi, h, _ => by simp only [Chain] at h; omega
  | p :: ps, lo, hi, h, hne => by
    have h1 := Chain.le h.2 (fun x hx => hne x (List.mem_cons_of_mem _ hx))
    have h2 := hne p List.mem_cons_self
    have h3 := h.1
    omega

/-- every part of a chain of non-empty parts lies inside `[lo, hi]` -/
theorem Chain.sub : ∀ {parts : List Dom} {lo hi : Int}, Chain lo parts hi →
    (∀ p ∈ parts, p.1 ≤ p.2) → ∀ p ∈ parts, lo ≤ p.1 ∧ p.2 ≤ hi
  | [], _, _, _, _, p, hp => by simp at hp
  | a :: ps, lo, hi, h, hne, p, hp => by
    have hne' : ∀ x ∈ ps, x.1 ≤ x.2 := fun x hx => hne x (List.mem_cons_of_mem _ hx)
    have h1 := Chain.le h.2 hne'
    have h2 := hne a List.mem_cons_self
    have h3 := h.1
    rcases List.mem_cons.mp hp with rfl | hp
    · omega
    · have := Chain.sub h.2 hne' p hp
      omega

/-- the parts of a chain of non-empty parts cover exactly `[lo, hi]` -/
theorem Chain.cover : ∀ {parts : List Dom} {lo hi : Int}, Chain lo parts hi →
    (∀ p ∈ parts, p.1 ≤ p.2) → ∀ v : Int, (lo ≤ v ∧ v ≤ hi) ↔ ∃ p ∈ parts, p.1 ≤ v ∧ v ≤ p.2
  | [], lo, hi, h, _, v => by
    simp only [Chain] at h
    constructor
    · intro hv; omega
    · rintro ⟨p, hp, _⟩; simp at hp
  | a :: ps, lo, hi, h, hne, v => by
    have hne' : ∀ x ∈ ps, x.1 ≤ x.2 := fun x hx => hne x (List.mem_cons_of_mem _ hx)
    have h1 := Chain.le h.2 hne'
    have h2 := hne a List.mem_cons_self
    have h3 := h.1
    have ih := Chain.cover h.2 hne' v
    constructor
    · intro hv
      by_cases hva : v ≤ a.2
      · exact ⟨a, List.mem_cons_self, by omega, hva⟩
      · obtain ⟨p, hp, hpv⟩ := ih.mp (by omega)
        exact ⟨p, List.mem_cons_of_mem _ hp, hpv⟩
    · rintro ⟨p, hp, hpv⟩
      rcases List.mem_cons.mp hp with rfl | hp
      · omega
      · have := ih.mpr ⟨p, hp, hpv⟩
        omega

/-- the parts of a chain of non-empty parts are strictly ordered -/
theorem Chain.pairwise : ∀ {parts : List Dom} {lo hi : Int}, Chain lo parts hi →
    (∀ p ∈ parts, p.1 ≤ p.2) → List.Pairwise (fun p q : Dom => p.2 < q.1) parts
  | [], _, _, _, _ => List.Pairwise.nil
  | a :: ps, lo, hi, h, hne => by
    have hne' : ∀ x ∈ ps, x.1 ≤ x.2 := fun x hx => hne x (List.mem_cons_of_mem _ hx)
    refine List.Pairwise.cons ?_ (Chain.pairwise h.2 hne')
    intro q hq
    have := Chain.sub h.2 hne' q hq
    omega

/-- in a strictly ordered list of parts a value lies in at most one part -/
theorem pairwise_unique : ∀ {parts : List Dom}, List.Pairwise (fun p q : Dom => p.2 < q.1) parts →
    ∀ {a b : Dom} {v : Int}, a ∈ parts → b ∈ parts → a.1 ≤ v ∧ v ≤ a.2 → b.1 ≤ v ∧ v ≤ b.2 → a = b
  | [], _, _, _, _, ha, _, _, _ => by simp at ha
  | p :: ps, hpw, a, b, v, ha, hb, hav, hbv => by
    rw [List.pairwise_cons] at hpw
    rcases List.mem_cons.mp ha with rfl | ha' <;> rcases List.mem_cons.mp hb with rfl | hb'
    · rfl
    · have := hpw.1 b hb'; omega
    · have := hpw.1 a ha'; omega
    · exact pairwise_unique hpw.2 ha' hb' hav hbv

/-! ### the loop of `Problem.split` -/

theorem splitGo_zero (q r idx m : Int) : splitBounds.go q r 0 idx m = [] := rfl

theorem splitGo_succ (q r : Int) (n : Nat) (idx m : Int) :
    splitBounds.go q r (n + 1) idx m =
      (m, m + q - (if idx < r then 0 else 1)) ::
        splitBounds.go q r n (idx + 1) (m + q - (if idx < r then 0 else 1) + 1) := rfl

theorem splitGo_length (q r : Int) : ∀ (n : Nat) (idx m : Int), (splitBounds.go q r n idx m).length = n
  | 0, _, _ => rfl
  | n + 1, idx, m => by rw [splitGo_succ, List.length_cons, splitGo_length q r n]

/-- the loop produces consecutive parts; it stops at `m + n·q + #{j ∈ [idx, idx+n) | j < r} - 1` -/
theorem splitGo_chain (q r : Int) : ∀ (n : Nat) (idx m : Int),
    Chain m (splitBounds.go q r n idx m) (m + n * q + (min (idx + n) r - min idx r) - 1)
  | 0, idx, m => by
    simp only [splitGo_zero, Chain]
    omega
  | n + 1, idx, m => by
    rw [splitGo_succ]
    refine ⟨rfl, ?_⟩
    have ih := splitGo_chain q r n (idx + 1) (m + q - (if idx < r then 0 else 1) + 1)
    have e : ((n + 1 : Nat) : Int) * q = (n : Int) * q + q := by
      rw [Int.natCast_succ, Int.add_mul, Int.one_mul]
    have e2 : m + q - (if idx < r then 0 else 1) + 1 + ↑n * q + (min (idx + 1 + ↑n) r - min (idx + 1) r) - 1
        = m + ((n + 1 : Nat) : Int) * q + (min (idx + ((n + 1 : Nat) : Int)) r - min idx r) - 1 := by
      rw [e]
      split <;> omega
    rw [← e2]
    exact ih

/-- every part has `q` or `q + 1` values -/
theorem splitGo_sizes (q r : Int) : ∀ (n : Nat) (idx m : Int),
    ∀ p ∈ splitBounds.go q r n idx m, p.2 - p.1 + 1 = q ∨ p.2 - p.1 + 1 = q + 1
  | 0, _, _, p, hp => by simp [splitGo_zero] at hp
  | n + 1, idx, m, p, hp => by
    rw [splitGo_succ] at hp
    rcases List.mem_cons.mp hp with rfl | hp
    · dsimp only
      split <;> omega
    · exact splitGo_sizes q r n _ _ p hp

/-- the number of big parts (`q + 1` values) produced by the loop -/
theorem splitGo_big_count (q r : Int) : ∀ (n : Nat) (idx m : Int),
    (((splitBounds.go q r n idx m).filter (fun p => p.2 - p.1 + 1 == q + 1)).length : Int)
      = min (idx + n) r - min idx r
  | 0, idx, m => by simp [splitGo_zero]
  | n + 1, idx, m => by
    rw [splitGo_succ, List.filter_cons]
    have ih := splitGo_big_count q r n (idx + 1) (m + q - (if idx < r then 0 else 1) + 1)
    by_cases h : idx < r
    · have : (m + q - (if idx < r then 0 else 1) - m + 1 == q + 1) = true := by
        rw [if_pos h]; simp; omega
      dsimp only
      rw [this, if_pos rfl, List.length_cons]
      omega
    · have : (m + q - (if idx < r then 0 else 1) - m + 1 == q + 1) = false := by
        rw [if_neg h]; simp; omega
      dsimp only
      rw [this]
      simp only [Bool.false_eq_true, if_false]
      omega

/-! ### `splitBounds` -/

/-- the effective number of parts -/
def splitNb (lo hi : Int) (k : Nat) : Int := max 1 (min (k : Int) (hi - lo + 1))

theorem splitNb_pos (lo hi : Int) (k : Nat) : 1 ≤ splitNb lo hi k := by unfold splitNb; omega

theorem splitBounds_eq (lo hi : Int) (k : Nat) :
    splitBounds lo hi k =
      splitBounds.go ((hi - lo + 1) / splitNb lo hi k) ((hi - lo + 1) % splitNb lo hi k)
        (splitNb lo hi k).toNat 0 lo := by
  have hk := splitNb_pos lo hi k
  unfold splitBounds
  simp only []
  rw [show max 1 (min (k : Int) (hi - lo + 1)) = splitNb lo hi k from rfl,
    pyDiv_pos _ _ (by omega), Int.fmod_eq_emod_of_nonneg _ (by omega)]

/-- C12.1: the number of parts is `max 1 (min k (hi - lo + 1))` — for every `lo hi k` -/
theorem splitBounds_length_int (lo hi : Int) (k : Nat) :
    ((splitBounds lo hi k).length : Int) = max 1 (min (k : Int) (hi - lo + 1)) := by
  have hk := splitNb_pos lo hi k
  rw [splitBounds_eq, splitGo_length]
  unfold splitNb at *
  omega

/-- C12.1 as a natural number (the size `hi - lo + 1` is positive when `lo ≤ hi`) -/
theorem splitBounds_length (lo hi : Int) (k : Nat) (h : lo ≤ hi) :
    (splitBounds lo hi k).length = max 1 (min k (hi - lo + 1).toNat) := by
  have := splitBounds_length_int lo hi k
  omega

/-- C12.3: the parts are consecutive, from `lo` to `hi` — for every `lo hi k` -/
theorem splitBounds_chain (lo hi : Int) (k : Nat) : Chain lo (splitBounds lo hi k) hi := by
  have hk := splitNb_pos lo hi k
  rw [splitBounds_eq]
  have h := splitGo_chain ((hi - lo + 1) / splitNb lo hi k) ((hi - lo + 1) % splitNb lo hi k)
    (splitNb lo hi k).toNat 0 lo
  have h1 : (((splitNb lo hi k).toNat : Nat) : Int) = splitNb lo hi k := by omega
  have h2 := Int.emod_add_mul_ediv (hi - lo + 1) (splitNb lo hi k)
  have h3 := Int.emod_nonneg (hi - lo + 1) (b := splitNb lo hi k) (by omega)
  have h4 := Int.emod_lt_of_pos (hi - lo + 1) (b := splitNb lo hi k) (by omega)
  rw [h1] at h
  have e : lo + splitNb lo hi k * ((hi - lo + 1) / splitNb lo hi k) +
      (min (0 + splitNb lo hi k) ((hi - lo + 1) % splitNb lo hi k) - min 0 ((hi - lo + 1) % splitNb lo hi k)) - 1
      = hi := by omega
  rw [e] at h
  exact h

/-- the quotient is at least one: at most one part per value -/
theorem splitBounds_quot_pos (lo hi : Int) (k : Nat) (h : lo ≤ hi) :
    1 ≤ (hi - lo + 1) / splitNb lo hi k := by
  have hk := splitNb_pos lo hi k
  rw [Int.le_ediv_iff_mul_le (by omega)]
  unfold splitNb at *
  omega

/-- C12.4: every part has `⌊size / k'⌋` or `⌊size / k'⌋ + 1` values — for every `lo hi k` -/
theorem splitBounds_sizes (lo hi : Int) (k : Nat) :
    ∀ p ∈ splitBounds lo hi k,
      p.2 - p.1 + 1 = (hi - lo + 1) / splitNb lo hi k ∨ p.2 - p.1 + 1 = (hi - lo + 1) / splitNb lo hi k + 1 := by
  rw [splitBounds_eq]
  exact splitGo_sizes _ _ _ _ _

/-- C12.4: exactly `size % k'` parts are big -/
theorem splitBounds_big_count (lo hi : Int) (k : Nat) :
    (((splitBounds lo hi k).filter
        (fun p => p.2 - p.1 + 1 == (hi - lo + 1) / splitNb lo hi k + 1)).length : Int)
      = (hi - lo + 1) % splitNb lo hi k := by
  have hk := splitNb_pos lo hi k
  rw [splitBounds_eq, splitGo_big_count]
  have h1 : (((splitNb lo hi k).toNat : Nat) : Int) = splitNb lo hi k := by omega
  have h3 := Int.emod_nonneg (hi - lo + 1) (b := splitNb lo hi k) (by omega)
  have h4 := Int.emod_lt_of_pos (hi - lo + 1) (b := splitNb lo hi k) (by omega)
  rw [h1]
  omega

/-- C12.2: no part is empty -/
theorem splitBounds_nonempty (lo hi : Int) (k : Nat) (h : lo ≤ hi) :
    ∀ p ∈ splitBounds lo hi k, p.1 ≤ p.2 := by
  intro p hp
  have := splitBounds_sizes lo hi k p hp
  have := splitBounds_quot_pos lo hi k h
  omega

/-- an empty domain is not split: the single part is the domain itself -/
theorem splitBounds_of_lt (lo hi : Int) (k : Nat) (h : hi < lo) : splitBounds lo hi k = [(lo, hi)] := by
  have hk : splitNb lo hi k = 1 := by unfold splitNb; omega
  rw [splitBounds_eq, hk]
  simp only [Int.ediv_one, Int.emod_one]
  show splitBounds.go _ _ 1 0 lo = _
  rw [splitGo_succ, splitGo_zero]
  simp
  omega

/-- every part lies inside `[lo, hi]` — for every `lo hi k` -/
theorem splitBounds_sub (lo hi : Int) (k : Nat) : ∀ p ∈ splitBounds lo hi k, lo ≤ p.1 ∧ p.2 ≤ hi := by
  by_cases h : lo ≤ hi
  · exact Chain.sub (splitBounds_chain lo hi k) (splitBounds_nonempty lo hi k h)
  · rw [splitBounds_of_lt lo hi k (by omega)]
    intro p hp
    simp at hp
    subst hp
    simp

/-- C12.3: the parts cover exactly `[lo, hi]` — for every `lo hi k` -/
theorem splitBounds_cover (lo hi : Int) (k : Nat) (v : Int) :
    (lo ≤ v ∧ v ≤ hi) ↔ ∃ p ∈ splitBounds lo hi k, p.1 ≤ v ∧ v ≤ p.2 := by
  by_cases h : lo ≤ hi
  · exact Chain.cover (splitBounds_chain lo hi k) (splitBounds_nonempty lo hi k h) v
  · rw [splitBounds_of_lt lo hi k (by omega)]
    simp

/-- C12.3: the parts are strictly ordered (hence pairwise disjoint) — for every `lo hi k` -/
theorem splitBounds_pairwise (lo hi : Int) (k : Nat) :
    List.Pairwise (fun p q : Dom => p.2 < q.1) (splitBounds lo hi k) := by
  by_cases h : lo ≤ hi
  · exact Chain.pairwise (splitBounds_chain lo hi k) (splitBounds_nonempty lo hi k h)
  · rw [splitBounds_of_lt lo hi k (by omega)]
    simp

/-- a value lies in at most one part -/
theorem splitBounds_unique (lo hi : Int) (k : Nat) {a b : Dom} {v : Int}
    (ha : a ∈ splitBounds lo hi k) (hb : b ∈ splitBounds lo hi k)
    (hav : a.1 ≤ v ∧ v ≤ a.2) (hbv : b.1 ≤ v ∧ v ≤ b.2) : a = b :=
  pairwise_unique (splitBounds_pairwise lo hi k) ha hb hav hbv

/-- the hypotheses are satisfiable and the corner cases behave as claimed -/
example : splitBounds 0 9 3 = [(0, 3), (4, 6), (7, 9)] := by decide
example : splitBounds 0 9 0 = [(0, 9)] := by decide
example : splitBounds 0 9 1 = [(0, 9)] := by decide
example : splitBounds (-1) 1 7 = [(-1, -1), (0, 0), (1, 1)] := by decide
example : splitBounds 5 5 4 = [(5, 5)] := by decide

/-! ### `splitProblem` -/

/-- `inBox` from components -/
theorem inBox_iff_get : ∀ {t : List Int} {B : Box},
    inBox t B ↔ t.length = B.length ∧ ∀ j, j < B.length → inDom (getI t j) (getDom B j)
  | [], [] => by simp [inBox]
  | [], _ :: _ => by simp [inBox]
  | _ :: _, [] => by simp [inBox]
  | x :: ts, d :: ds => by
    simp only [inBox, List.length_cons, Nat.add_right_cancel_iff]
    rw [inBox_iff_get (t := ts) (B := ds)]
    constructor
    · rintro ⟨h0, hl, h⟩
      refine ⟨hl, fun j hj => ?_⟩
      cases j with
      | zero => simpa [getI, getDom] using h0
      | succ j => simpa [getI, getDom] using h j (by omega)
    · rintro ⟨hl, h⟩
      refine ⟨by simpa [getI, getDom] using h 0 (by omega), hl, fun j hj => ?_⟩
      simpa [getI, getDom] using h (j + 1) (by omega)

/-- the tuples of a box with one domain replaced -/
theorem inBox_set {t : List Int} {B : Box} {i : Nat} (hi : i < B.length) (d : Dom) :
    inBox t (B.set i d) ↔
      t.length = B.length ∧ (∀ j, j < B.length → j ≠ i → inDom (getI t j) (getDom B j)) ∧ inDom (getI t i) d := by
  rw [inBox_iff_get, List.length_set]
  constructor
  · rintro ⟨hl, h⟩
    refine ⟨hl, fun j hj hne => ?_, ?_⟩
    · have := h j hj
      rwa [getDom_set, if_neg (by omega)] at this
    · have := h i hi
      rwa [getDom_set, if_pos ⟨rfl, hi⟩] at this
  · rintro ⟨hl, h, hd⟩
    refine ⟨hl, fun j hj => ?_⟩
    rw [getDom_set]
    by_cases hji : i = j
    · subst hji; rw [if_pos ⟨rfl, hi⟩]; exact hd
    · rw [if_neg (by omega)]; exact h j hj (by omega)

/-- the shared-domain index of variable `v` -/
abbrev splitIdx (vars : List (Nat × Int)) (v : Nat) : Nat := (vars.getD v (0, 0)).1

theorem mem_splitProblem {shr : Box} {vars : List (Nat × Int)} {k v : Nat} {part : Box} :
    part ∈ splitProblem shr vars k v ↔
      ∃ p ∈ splitBounds (getDom shr (splitIdx vars v)).1 (getDom shr (splitIdx vars v)).2 k,
        part = shr.set (splitIdx vars v) p := by
  unfold splitProblem
  simp only [List.mem_map]
  constructor
  · rintro ⟨p, hp, rfl⟩; exact ⟨p, hp, rfl⟩
  · rintro ⟨p, hp, rfl⟩; exact ⟨p, hp, rfl⟩

/-- the number of sub-problems -/
theorem splitProblem_length (shr : Box) (vars : List (Nat × Int)) (k v : Nat) :
    ((splitProblem shr vars k v).length : Int) =
      max 1 (min (k : Int) ((getDom shr (splitIdx vars v)).2 - (getDom shr (splitIdx vars v)).1 + 1)) := by
  unfold splitProblem
  simp only [List.length_map]
  exact splitBounds_length_int _ _ _

/-- every sub-problem has as many shared domains as the problem -/
theorem splitProblem_part_length (shr : Box) (vars : List (Nat × Int)) (k v : Nat) :
    ∀ part ∈ splitProblem shr vars k v, part.length = shr.length := by
  intro part hp
  obtain ⟨p, _, rfl⟩ := mem_splitProblem.mp hp
  exact List.length_set

/-- a sub-problem differs from the problem at the split variable's shared domain only -/
theorem splitProblem_getDom_ne (shr : Box) (vars : List (Nat × Int)) (k v : Nat) :
    ∀ part ∈ splitProblem shr vars k v, ∀ j, j ≠ splitIdx vars v → getDom part j = getDom shr j := by
  intro part hp j hj
  obtain ⟨p, _, rfl⟩ := mem_splitProblem.mp hp
  rw [getDom_set, if_neg (by omega)]

/-- … and there it is one of the parts of `splitBounds` -/
theorem splitProblem_getDom_eq (shr : Box) (vars : List (Nat × Int)) (k v : Nat)
    (hdi : splitIdx vars v < shr.length) :
    ∀ part ∈ splitProblem shr vars k v,
      getDom part (splitIdx vars v) ∈
        splitBounds (getDom shr (splitIdx vars v)).1 (getDom shr (splitIdx vars v)).2 k := by
  intro part hp
  obtain ⟨p, hp', rfl⟩ := mem_splitProblem.mp hp
  rw [getDom_set, if_pos ⟨rfl, hdi⟩]
  exact hp'

/-- every sub-problem's root box is a sub-box of the problem's -/
theorem splitProblem_le (shr : Box) (vars : List (Nat × Int)) (k v : Nat) :
    ∀ part ∈ splitProblem shr vars k v, Box.le part shr := by
  intro part hp
  obtain ⟨p, hp', rfl⟩ := mem_splitProblem.mp hp
  have hsub := splitBounds_sub _ _ k p hp'
  apply Box.le_of_get List.length_set
  intro j hj
  rw [getDom_set]
  split
  · next h => rw [← h.1]; exact hsub
  · exact ⟨Int.le_refl _, Int.le_refl _⟩

/-- when the split domain is not empty, neither is any part's -/
theorem splitProblem_nonempty (shr : Box) (vars : List (Nat × Int)) (k v : Nat) (hne : shr.Nonempty) :
    ∀ part ∈ splitProblem shr vars k v, part.Nonempty := by
  intro part hp
  obtain ⟨p, hp', rfl⟩ := mem_splitProblem.mp hp
  apply Box.nonempty_of_get
  intro j hj
  rw [getDom_set]
  split
  · exact splitBounds_nonempty _ _ k (Box.nonempty_getDom hne _) p hp'
  · exact Box.nonempty_getDom hne j

/-- C12 (partition, existence): an assignment lies in the root box iff it lies in the root box of
    some sub-problem -/
theorem C12_splitProblem_partition (shr : Box) (vars : List (Nat × Int)) (k v : Nat)
    (hdi : splitIdx vars v < shr.length) (σ : List Int) :
    inBox σ shr ↔ ∃ part ∈ splitProblem shr vars k v, inBox σ part := by
  constructor
  · intro h
    have hg := inBox_iff_get.mp h
    have hv : inDom (getI σ (splitIdx vars v)) (getDom shr (splitIdx vars v)) := hg.2 _ hdi
    obtain ⟨p, hp, hpv⟩ := (splitBounds_cover _ _ k _).mp hv
    refine ⟨shr.set (splitIdx vars v) p, mem_splitProblem.mpr ⟨p, hp, rfl⟩, ?_⟩
    rw [inBox_set hdi]
    exact ⟨hg.1, fun j hj _ => hg.2 j hj, hpv⟩
  · rintro ⟨part, hp, h⟩
    exact inBox_of_le h (splitProblem_le shr vars k v part hp)

/-- C12 (partition, uniqueness): … of exactly one sub-problem -/
theorem C12_splitProblem_unique (shr : Box) (vars : List (Nat × Int)) (k v : Nat)
    (hdi : splitIdx vars v < shr.length) (σ : List Int) :
    ∀ p ∈ splitProblem shr vars k v, ∀ q ∈ splitProblem shr vars k v, inBox σ p → inBox σ q → p = q := by
  intro p hp q hq hσp hσq
  obtain ⟨a, ha, rfl⟩ := mem_splitProblem.mp hp
  obtain ⟨b, hb, rfl⟩ := mem_splitProblem.mp hq
  rw [inBox_set hdi] at hσp hσq
  rw [splitBounds_unique _ _ k ha hb hσp.2.2 hσq.2.2]

/-- C12 (partition, disjointness by position): two sub-problems at different positions of the
    returned list share no assignment (in particular no sub-problem is returned twice) -/
theorem C12_splitProblem_disjoint (shr : Box) (vars : List (Nat × Int)) (k v : Nat)
    (hdi : splitIdx vars v < shr.length) :
    List.Pairwise (fun p q : Box => ∀ σ, ¬ (inBox σ p ∧ inBox σ q)) (splitProblem shr vars k v) := by
  unfold splitProblem
  rw [List.pairwise_map]
  refine List.Pairwise.imp ?_ (splitBounds_pairwise _ _ k)
  intro a b hab σ ⟨ha, hb⟩
  rw [inBox_set hdi] at ha hb
  have h1 := ha.2.2
  have h2 := hb.2.2
  simp only [inDom] at h1 h2
  omega

/-- C12 for solutions: the solutions of `P` are exactly the solutions of the sub-problems (same
    variables, same constraints, root box replaced) -/
theorem C12_split_Sol (P : Problem) (k v : Nat) (hdi : splitIdx P.vars v < P.shr.length) (σ : List Int) :
    Sol P σ ↔ ∃ part ∈ splitProblem P.shr P.vars k v, Sol { P with shr := part } σ := by
  unfold Sol
  constructor
  · rintro ⟨hb, hc⟩
    obtain ⟨part, hp, h⟩ := (C12_splitProblem_partition P.shr P.vars k v hdi σ).mp hb
    exact ⟨part, hp, h, hc⟩
  · rintro ⟨part, hp, h, hc⟩
    exact ⟨(C12_splitProblem_partition P.shr P.vars k v hdi σ).mpr ⟨part, hp, h⟩, hc⟩

/-- … each solution belongs to exactly one sub-problem -/
theorem C12_split_Sol_unique (P : Problem) (k v : Nat) (hdi : splitIdx P.vars v < P.shr.length) (σ : List Int) :
    ∀ p ∈ splitProblem P.shr P.vars k v, ∀ q ∈ splitProblem P.shr P.vars k v,
      Sol { P with shr := p } σ → Sol { P with shr := q } σ → p = q :=
  fun p hp q hq h1 h2 => C12_splitProblem_unique P.shr P.vars k v hdi σ p hp q hq h1.1 h2.1

/-- … and the solution sets of the sub-problems are pairwise disjoint -/
theorem C12_split_Sol_disjoint (P : Problem) (k v : Nat) (hdi : splitIdx P.vars v < P.shr.length) :
    List.Pairwise (fun p q : Box => ∀ σ, ¬ (Sol { P with shr := p } σ ∧ Sol { P with shr := q } σ))
      (splitProblem P.shr P.vars k v) :=
  List.Pairwise.imp (fun h σ hs => h σ ⟨hs.1.1, hs.2.1⟩) (C12_splitProblem_disjoint P.shr P.vars k v hdi)

/-- the hypothesis is satisfiable: two variables, the second one (shared domain 1) split in 3 -/
example : splitIdx [(0, 0), (1, 5)] 1 < [((0 : Int), (1 : Int)), (0, 9)].length ∧
    splitProblem [(0, 1), (0, 9)] [(0, 0), (1, 5)] 3 1 =
      [[(0, 1), (0, 3)], [(0, 1), (4, 6)], [(0, 1), (7, 9)]] := by decide

end Nucs
