import NucsProofs.Basic
import NucsProofs.SpecEngine
/-!
  C13 — "The solution set does not depend on how the model is written down."

  Everything is stated on `Sol` / `SolW` / `reported` (SpecEngine.lean) for an arbitrary
  `P : Problem`; nothing here mentions the search, so the statements hold for every solver
  configuration for which C01/C02 (reported = solutions) hold.

  1. permuting the constraints, in particular the stable sort of `Problem.init`
  2. posting a constraint twice, adding an always-true constraint
  5. translating all values (translation-invariant constraints, affine constants adjusted)
  3. permuting the variable list (also at the level of `initProblem`: variables declared in another
     order, constraints posted through the index renaming)
  4. unsharing: an offset view replaced by a fresh shared domain plus an equality
  3b. renaming (permuting) the shared domains, positions renamed accordingly

  `Rw.WF P` (every position refers to an existing shared domain) is the `WFP` of Engine/BcLoop.lean,
  restated here to keep this file independent of the engine proofs.  It is needed wherever an
  assignment changes length or is re-indexed, because `getI` reads 0 outside the list.
-/
namespace Nucs

/-! ## 0. general transfer lemmas -/

/-- `Sol` only looks at the SET of posted constraints -/
theorem Rw.Sol_congr_mem (P : Problem) (props' : List PropInst)
    (h : ∀ p, p ∈ props' ↔ p ∈ P.props) (σ : List Int) :
    Sol { P with props := props' } σ ↔ Sol P σ := by
  unfold Sol
  constructor
  · rintro ⟨hb, hr⟩; exact ⟨hb, fun p hp => hr p ((h p).mpr hp)⟩
  · rintro ⟨hb, hr⟩; exact ⟨hb, fun p hp => hr p ((h p).mp hp)⟩

theorem Rw.SolW_congr_mem (P : Problem) (props' : List PropInst)
    (h : ∀ p, p ∈ props' ↔ p ∈ P.props) (σ : List Int) :
    SolW { P with props := props' } σ ↔ SolW P σ := by
  unfold SolW
  constructor
  · rintro ⟨hb, hr⟩; exact ⟨hb, fun p hp => hr p ((h p).mpr hp)⟩
  · rintro ⟨hb, hr⟩; exact ⟨hb, fun p hp => hr p ((h p).mp hp)⟩

/-- the general transfer lemma: if `σ'` is inside the root domains of `P'` and every constraint of
    `P'` either holds outright or sees, under `σ'`, the values that a constraint of `P` with the same
    algorithm and parameters sees under `σ`, then a solution `σ` of `P` gives the solution `σ'` of `P'` -/
theorem Rw.Sol_transfer {P P' : Problem} {σ σ' : List Int} (hb : inBox σ' P'.shr)
    (hc : ∀ p' ∈ P'.props, rel p'.alg p'.params (valuesOf p'.vars σ') ∨
      ∃ p ∈ P.props, p.alg = p'.alg ∧ p.params = p'.params ∧ valuesOf p.vars σ = valuesOf p'.vars σ')
    (h : Sol P σ) : Sol P' σ' := by
  refine ⟨hb, fun p' hp' => ?_⟩
  rcases hc p' hp' with h1 | ⟨p, hp, ha, hps, hv⟩
  · exact h1
  · have := h.2 p hp
    rw [ha, hps, hv] at this; exact this

theorem Rw.SolW_transfer {P P' : Problem} {σ σ' : List Int} (hb : inBox σ' P'.shr)
    (hc : ∀ p' ∈ P'.props, relW p'.alg p'.params (valuesOf p'.vars σ') ∨
      ∃ p ∈ P.props, p.alg = p'.alg ∧ p.params = p'.params ∧ valuesOf p.vars σ = valuesOf p'.vars σ')
    (h : SolW P σ) : SolW P' σ' := by
  refine ⟨hb, fun p' hp' => ?_⟩
  rcases hc p' hp' with h1 | ⟨p, hp, ha, hps, hv⟩
  · exact h1
  · have := h.2 p hp
    rw [ha, hps, hv] at this; exact this

/-! ## 1. permuting the constraints; the sort of `Problem.init` -/

theorem C13_perm_props (P : Problem) (props' : List PropInst) (h : List.Perm P.props props')
    (σ : List Int) : Sol { P with props := props' } σ ↔ Sol P σ :=
  Rw.Sol_congr_mem P props' (fun _ => h.mem_iff.symm) σ

theorem C13_perm_props_W (P : Problem) (props' : List PropInst) (h : List.Perm P.props props')
    (σ : List Int) : SolW { P with props := props' } σ ↔ SolW P σ :=
  Rw.SolW_congr_mem P props' (fun _ => h.mem_iff.symm) σ

/-- the reported vector does not look at the constraints at all -/
theorem C13_perm_props_reported (P : Problem) (props' : List PropInst) (σ : List Int) :
    reported { P with props := props' } σ = reported P σ := rfl

theorem Rw.perm_insertByKey {α : Type} (key : α → Int) (x : α) :
    ∀ l : List α, List.Perm (insertByKey key x l) (x :: l)
  | [] => List.Perm.refl _
  | y :: ys => by
    unfold insertByKey
    split
    · exact List.Perm.refl _
    · exact ((Rw.perm_insertByKey key x ys).cons y).trans (List.Perm.swap x y ys)

/-- the sort of `Problem.init` is a permutation -/
theorem C13_perm_stableSort {α : Type} (key : α → Int) :
    ∀ l : List α, List.Perm (stableSort key l) l
  | [] => List.Perm.refl _
  | x :: xs => by
    show List.Perm (insertByKey key x (stableSort key xs)) (x :: xs)
    exact (Rw.perm_insertByKey key x _).trans ((C13_perm_stableSort key xs).cons x)

/-- the constraint a raw posting denotes once the variable lists are flattened -/
def Rw.inst (vars : List (Nat × Int)) (rk : RawProp × Int) : PropInst :=
  { alg := rk.1.alg, params := rk.1.params, vars := rk.1.vars.map (fun v => vars.getD v (0, 0)) }

/-- the problem in POSTING order (no sort) -/
def Rw.postedProblem (shr : Box) (vars : List (Nat × Int)) (raw : List (RawProp × Int)) : Problem :=
  { shr := shr, vars := vars, props := raw.map (Rw.inst vars) }

theorem Rw.initProblem_eq (shr : Box) (vars : List (Nat × Int)) (raw : List (RawProp × Int)) :
    initProblem shr vars raw =
      { Rw.postedProblem shr vars raw with
        props := (stableSort (fun (rk : RawProp × Int) => rk.2) raw).map (Rw.inst vars) } := rfl

/-- the constraints of the initialised problem are a permutation of the posted ones -/
theorem C13_init_perm (shr : Box) (vars : List (Nat × Int)) (raw : List (RawProp × Int)) :
    List.Perm (initProblem shr vars raw).props (Rw.postedProblem shr vars raw).props :=
  (C13_perm_stableSort _ raw).map _

/-- sorting by complexity (any keys whatsoever) does not change the solutions -/
theorem C13_init_sort (shr : Box) (vars : List (Nat × Int)) (raw : List (RawProp × Int)) (σ : List Int) :
    Sol (initProblem shr vars raw) σ ↔ Sol (Rw.postedProblem shr vars raw) σ := by
  rw [Rw.initProblem_eq]
  exact C13_perm_props _ _ (C13_init_perm shr vars raw).symm σ

theorem C13_init_sort_W (shr : Box) (vars : List (Nat × Int)) (raw : List (RawProp × Int)) (σ : List Int) :
    SolW (initProblem shr vars raw) σ ↔ SolW (Rw.postedProblem shr vars raw) σ := by
  rw [Rw.initProblem_eq]
  exact C13_perm_props_W _ _ (C13_init_perm shr vars raw).symm σ

theorem C13_init_sort_reported (shr : Box) (vars : List (Nat × Int)) (raw : List (RawProp × Int)) (σ : List Int) :
    reported (initProblem shr vars raw) σ = reported (Rw.postedProblem shr vars raw) σ := rfl

/-- hence two postings of the same constraints in different orders and with different complexity
    keys have the same solutions -/
theorem C13_init_order (shr : Box) (vars : List (Nat × Int)) (raw raw' : List (RawProp × Int))
    (h : List.Perm (raw.map (Rw.inst vars)) (raw'.map (Rw.inst vars))) (σ : List Int) :
    Sol (initProblem shr vars raw) σ ↔ Sol (initProblem shr vars raw') σ := by
  rw [C13_init_sort, C13_init_sort]
  exact (C13_perm_props (Rw.postedProblem shr vars raw') _ h.symm σ)

/-- non-vacuity: the sort really reorders (key 5 after key 1) and the statement applies -/
example :
    let raw : List (RawProp × Int) := [(⟨[0, 1], .alldifferent, []⟩, 5), (⟨[0, 1], .affineLeq, [1, -1, 0]⟩, 1)]
    let vars : List (Nat × Int) := [(0, 0), (1, 0)]
    ((initProblem [(0, 1), (0, 1)] vars raw).props.map (·.alg) = [.affineLeq, .alldifferent]) ∧
    ((Rw.postedProblem [(0, 1), (0, 1)] vars raw).props.map (·.alg) = [.alldifferent, .affineLeq]) ∧
    Sol (initProblem [(0, 1), (0, 1)] vars raw) [0, 1] := by
  refine ⟨by decide, by decide, ?_⟩
  rw [C13_init_sort]
  refine ⟨by simp [Rw.postedProblem, inBox, inDom], ?_⟩
  intro p hp
  simp [Rw.postedProblem, Rw.inst] at hp
  rcases hp with rfl | rfl
  · simp [rel, valuesOf, getI]
  · simp [rel, valuesOf, getI, dot]

/-! ## 2. posting a constraint twice; adding an always-true constraint -/

/-- a duplicate of an already posted constraint, inserted anywhere -/
theorem C13_duplicate (P : Problem) (l₁ l₂ : List PropInst) (hP : P.props = l₁ ++ l₂)
    (p : PropInst) (hp : p ∈ P.props) (σ : List Int) :
    Sol { P with props := l₁ ++ p :: l₂ } σ ↔ Sol P σ := by
  apply Rw.Sol_congr_mem
  intro q
  rw [hP] at hp ⊢
  simp only [List.mem_append, List.mem_cons] at hp ⊢
  constructor
  · rintro (h | rfl | h)
    · exact Or.inl h
    · exact hp
    · exact Or.inr h
  · rintro (h | h)
    · exact Or.inl h
    · exact Or.inr (Or.inr h)

theorem C13_duplicate_W (P : Problem) (l₁ l₂ : List PropInst) (hP : P.props = l₁ ++ l₂)
    (p : PropInst) (hp : p ∈ P.props) (σ : List Int) :
    SolW { P with props := l₁ ++ p :: l₂ } σ ↔ SolW P σ := by
  apply Rw.SolW_congr_mem
  intro q
  rw [hP] at hp ⊢
  simp only [List.mem_append, List.mem_cons] at hp ⊢
  constructor
  · rintro (h | rfl | h)
    · exact Or.inl h
    · exact hp
    · exact Or.inr h
  · rintro (h | h)
    · exact Or.inl h
    · exact Or.inr (Or.inr h)

/-- any number of repetitions: if every constraint of `props'` is already posted and all posted
    ones are still there, nothing changes (idempotence of conjunction) -/
theorem C13_repost (P : Problem) (extra : List PropInst) (h : ∀ p ∈ extra, p ∈ P.props) (σ : List Int) :
    Sol { P with props := P.props ++ extra } σ ↔ Sol P σ := by
  apply Rw.Sol_congr_mem
  intro q
  simp only [List.mem_append]
  exact ⟨fun hq => hq.elim id (h q), Or.inl⟩

/-- adding a constraint whose relation holds for the values it sees, anywhere -/
theorem Rw.Sol_insert_true (P : Problem) (l₁ l₂ : List PropInst) (hP : P.props = l₁ ++ l₂)
    (p : PropInst) (σ : List Int) (hp : rel p.alg p.params (valuesOf p.vars σ)) :
    Sol { P with props := l₁ ++ p :: l₂ } σ ↔ Sol P σ := by
  unfold Sol
  simp only [hP, List.mem_append, List.mem_cons]
  constructor
  · rintro ⟨hb, hr⟩
    exact ⟨hb, fun q hq => hr q (hq.elim Or.inl (fun h => Or.inr (Or.inr h)))⟩
  · rintro ⟨hb, hr⟩
    refine ⟨hb, fun q hq => ?_⟩
    rcases hq with h | rfl | h
    · exact hr q (Or.inl h)
    · exact hp
    · exact hr q (Or.inr h)

/-- a `dummy` constraint on any variables with any parameters, inserted anywhere -/
theorem C13_dummy (P : Problem) (l₁ l₂ : List PropInst) (hP : P.props = l₁ ++ l₂)
    (vs : List (Nat × Int)) (ps : List Int) (σ : List Int) :
    Sol { P with props := l₁ ++ ⟨.dummy, vs, ps⟩ :: l₂ } σ ↔ Sol P σ :=
  Rw.Sol_insert_true P l₁ l₂ hP ⟨.dummy, vs, ps⟩ σ trivial

theorem C13_dummy_W (P : Problem) (l₁ l₂ : List PropInst) (hP : P.props = l₁ ++ l₂)
    (vs : List (Nat × Int)) (ps : List Int) (σ : List Int) :
    SolW { P with props := l₁ ++ ⟨.dummy, vs, ps⟩ :: l₂ } σ ↔ SolW P σ := by
  unfold SolW
  simp only [hP, List.mem_append, List.mem_cons]
  constructor
  · rintro ⟨hb, hr⟩
    exact ⟨hb, fun q hq => hr q (hq.elim Or.inl (fun h => Or.inr (Or.inr h)))⟩
  · rintro ⟨hb, hr⟩
    refine ⟨hb, fun q hq => ?_⟩
    rcases hq with h | rfl | h
    · exact hr q (Or.inl h)
    · exact trivial
    · exact hr q (Or.inr h)

/-- more generally an always-true constraint is any constraint implied by the others; e.g. a
    tautological `0 ≤ 0` affine constraint -/
theorem C13_trivial_affine (P : Problem) (l₁ l₂ : List PropInst) (hP : P.props = l₁ ++ l₂) (σ : List Int) :
    Sol { P with props := l₁ ++ ⟨.affineLeq, [], [0]⟩ :: l₂ } σ ↔ Sol P σ :=
  Rw.Sol_insert_true P l₁ l₂ hP _ σ (by simp [rel, valuesOf, dot])

/-- non-vacuity of 2: a problem with a solution, its constraint posted twice, a dummy in between -/
example :
    let p : PropInst := ⟨.alldifferent, [(0, 0), (1, 0)], []⟩
    let P : Problem := { shr := [(0, 1), (0, 1)], vars := [(0, 0), (1, 0)], props := [p] }
    Sol P [0, 1] ∧ Sol { P with props := [p] ++ p :: [] } [0, 1] ∧
      Sol { P with props := [] ++ ⟨.dummy, [(1, 3)], [7]⟩ :: [p] } [0, 1] := by
  intro p P
  have h : Sol P [0, 1] := by
    refine ⟨by simp [P, inBox, inDom], fun q hq => ?_⟩
    simp [P] at hq; subst hq
    simp [p, rel, valuesOf, getI]
  exact ⟨h, (C13_duplicate P [p] [] rfl p (by simp [P]) _).mpr h, (C13_dummy P [] [p] rfl _ _ _).mpr h⟩

/-! ## 5. translating all values -/

theorem Rw.dot_translate (k : Int) : ∀ (cs t : List Int), cs.length ≤ t.length →
    dot cs (t.map (· + k)) = dot cs t + k * cs.sum
  | [], t, _ => by cases t <;> simp [dot]
  | c :: cs, [], h => by simp at h
  | c :: cs, x :: xs, h => by
    have ih := Rw.dot_translate k cs xs (by simpa using h)
    simp only [List.map_cons, dot, List.sum_cons, ih, Int.mul_add, Int.mul_comm k c]
    omega

theorem Rw.tFront_map (f : Int → Int) (t : List Int) : tFront (t.map f) = (tFront t).map f := by
  simp [tFront]

theorem Rw.tBack_map (k : Int) (t : List Int) (h : t ≠ []) : tBack (t.map (· + k)) = tBack t + k := by
  unfold tBack
  rw [List.getLastD_eq_getLast?, List.getLastD_eq_getLast?]
  simp [List.getLast?_map]
  cases h' : t.getLast? with
  | none => simp_all
  | some x => simp

theorem Rw.nodup_translate (k : Int) (t : List Int) : (t.map (· + k)).Nodup ↔ t.Nodup := by
  unfold List.Nodup
  rw [List.pairwise_map]
  constructor <;> intro h <;> refine h.imp ?_ <;> intro a b hab <;> omega

theorem Rw.lexLe_translate (k : Int) : ∀ (xs ys : List Int),
    lexLe (xs.map (· + k)) (ys.map (· + k)) ↔ lexLe xs ys
  | [], _ => by simp [lexLe]
  | _ :: _, [] => by simp [lexLe]
  | x :: xs, y :: ys => by
    simp only [List.map_cons, lexLe, Rw.lexLe_translate k xs ys]
    constructor <;> rintro (h | ⟨h1, h2⟩)
    · exact Or.inl (by omega)
    · exact Or.inr ⟨by omega, h2⟩
    · exact Or.inl (by omega)
    · exact Or.inr ⟨by omega, h2⟩

theorem Rw.count_translate (k v : Int) : ∀ t : List Int, (t.map (· + k)).count (v + k) = t.count v
  | [] => rfl
  | x :: xs => by
    simp only [List.map_cons, List.count_cons, Rw.count_translate k v xs]
    by_cases h : x = v
    · simp [h]
    · have : ¬ (x + k = v + k) := by omega
      simp [h, this]

theorem Rw.mem_translate (k v : Int) (xs : List Int) : v + k ∈ xs.map (· + k) ↔ v ∈ xs := by
  simp only [List.mem_map]
  constructor
  · rintro ⟨x, hx, h⟩; have : x = v := by omega
    exact this ▸ hx
  · intro h; exact ⟨v, h, rfl⟩

theorem Rw.forall_le_translate (k y : Int) (xs : List Int) :
    (∀ x ∈ xs.map (· + k), x ≤ y + k) ↔ ∀ x ∈ xs, x ≤ y := by
  simp only [List.mem_map]
  constructor
  · intro h x hx; have := h (x + k) ⟨x, hx, rfl⟩; omega
  · rintro h _ ⟨x, hx, rfl⟩; have := h x hx; omega

theorem Rw.forall_ge_translate (k y : Int) (xs : List Int) :
    (∀ x ∈ xs.map (· + k), y + k ≤ x) ↔ ∀ x ∈ xs, y ≤ x := by
  simp only [List.mem_map]
  constructor
  · intro h x hx; have := h (x + k) ⟨x, hx, rfl⟩; omega
  · rintro h _ ⟨x, hx, rfl⟩; have := h x hx; omega

theorem Rw.snoc_cases (t : List Int) : t = [] ∨ ∃ xs y, t = xs ++ [y] := by
  rcases List.eq_nil_or_concat t with h | ⟨xs, y, h⟩
  · exact Or.inl h
  · exact Or.inr ⟨xs, y, by simpa using h⟩

theorem Rw.tFront_snoc (xs : List Int) (y : Int) : tFront (xs ++ [y]) = xs := by simp [tFront]
theorem Rw.tBack_snoc (xs : List Int) (y : Int) : tBack (xs ++ [y]) = y := by simp [tBack]

/-- the algorithms whose relation is invariant under translating all values, once the parameters
    are adjusted by `Rw.adj`; `n` is the arity -/
def Rw.TransInv (a : Alg) (ps : List Int) (n : Nat) : Prop :=
  match a with
  | .alldifferent | .maxEq | .maxLeq | .minEq | .minGeq | .lexLeq | .dummy | .gcc => True
  | .affineEq | .affineGeq | .affineLeq => ps.length ≤ n + 1
  | .exactlyEq => 1 ≤ ps.length
  | _ => False

/-- the parameters of the translated constraint: `Σ c (x + k) = a + k Σ c`; value parameters move by `k` -/
def Rw.adj (a : Alg) (k : Int) (ps : List Int) : List Int :=
  match a with
  | .affineEq | .affineGeq | .affineLeq => ps.dropLast ++ [ps.getLastD 0 + k * ps.dropLast.sum]
  | .exactlyEq | .gcc => ps.set 0 (getI ps 0 + k)
  | _ => ps

theorem Rw.adj_affine_parts (k : Int) (ps : List Int) :
    (ps.dropLast ++ [ps.getLastD 0 + k * ps.dropLast.sum]).dropLast = ps.dropLast ∧
    (ps.dropLast ++ [ps.getLastD 0 + k * ps.dropLast.sum]).getLastD 0 = ps.getLastD 0 + k * ps.dropLast.sum := by
  simp

theorem C13_rel_translate (a : Alg) (ps t : List Int) (k : Int) (h : Rw.TransInv a ps t.length) :
    rel a (Rw.adj a k ps) (t.map (· + k)) ↔ rel a ps t := by
  have haff : ps.length ≤ t.length + 1 → dot ps.dropLast (t.map (· + k)) = dot ps.dropLast t + k * ps.dropLast.sum :=
    fun h => Rw.dot_translate k _ _ (by simp; omega)
  cases a <;> simp only [Rw.TransInv] at h <;> simp only [rel, Rw.adj]
  case affineEq => rw [(Rw.adj_affine_parts k ps).1, (Rw.adj_affine_parts k ps).2, haff h]; omega
  case affineGeq => rw [(Rw.adj_affine_parts k ps).1, (Rw.adj_affine_parts k ps).2, haff h]; omega
  case affineLeq => rw [(Rw.adj_affine_parts k ps).1, (Rw.adj_affine_parts k ps).2, haff h]; omega
  case alldifferent => exact Rw.nodup_translate k t
  case lexLeq =>
    rw [List.length_map, ← List.map_take, ← List.map_drop]
    exact Rw.lexLe_translate k _ _
  case maxEq =>
    rcases Rw.snoc_cases t with rfl | ⟨xs, y, rfl⟩
    · simp [tFront]
    · rw [List.map_append, List.map_singleton, Rw.tFront_snoc, Rw.tBack_snoc, Rw.tFront_snoc, Rw.tBack_snoc,
        Rw.mem_translate, Rw.forall_le_translate]
  case maxLeq =>
    rcases Rw.snoc_cases t with rfl | ⟨xs, y, rfl⟩
    · simp [tFront]
    · rw [List.map_append, List.map_singleton, Rw.tFront_snoc, Rw.tBack_snoc, Rw.tFront_snoc, Rw.tBack_snoc,
        Rw.forall_le_translate]
  case minEq =>
    rcases Rw.snoc_cases t with rfl | ⟨xs, y, rfl⟩
    · simp [tFront]
    · rw [List.map_append, List.map_singleton, Rw.tFront_snoc, Rw.tBack_snoc, Rw.tFront_snoc, Rw.tBack_snoc,
        Rw.mem_translate, Rw.forall_ge_translate]
  case minGeq =>
    rcases Rw.snoc_cases t with rfl | ⟨xs, y, rfl⟩
    · simp [tFront]
    · rw [List.map_append, List.map_singleton, Rw.tFront_snoc, Rw.tBack_snoc, Rw.tFront_snoc, Rw.tBack_snoc,
        Rw.forall_ge_translate]
  case exactlyEq =>
    obtain ⟨p0, ps', rfl⟩ : ∃ p0 ps', ps = p0 :: ps' := by
      cases ps with
      | nil => simp at h
      | cons a b => exact ⟨a, b, rfl⟩
    simp only [List.set_cons_zero, getI, List.getD_cons_zero]
    rw [Rw.count_translate]
    cases ps' <;> simp [List.getD]
  case gcc =>
    cases ps with
    | nil => simp [gccOk]
    | cons p0 ps' =>
      have hd : ∀ (x : Int) (m : Nat), List.drop (1 + m) (x :: ps') = List.drop m ps' :=
        fun x m => by rw [Nat.add_comm]; rfl
      simp only [List.set_cons_zero, getI, List.getD_cons_zero, List.length_cons, List.drop_succ_cons, hd]
      unfold gccOk
      constructor
      · intro hh j hj
        have := hh j hj
        rw [show p0 + k + (j : Int) = (p0 + j) + k by omega, Rw.count_translate] at this
        exact this
      · intro hh j hj
        have := hh j hj
        rw [show p0 + k + (j : Int) = (p0 + j) + k by omega, Rw.count_translate]
        exact this
  all_goals first | exact h.elim | trivial

theorem C13_relW_translate (a : Alg) (ps t : List Int) (k : Int) (h : Rw.TransInv a ps t.length) :
    relW a (Rw.adj a k ps) (t.map (· + k)) ↔ relW a ps t := by
  cases a <;> first | exact h.elim | exact C13_rel_translate _ ps t k h

/-- the same read from the other side: the constraint on translated values is the constraint with
    the parameters adjusted by `-k` on the original values -/
theorem C13_rel_translate' (a : Alg) (ps t : List Int) (k : Int) (h : Rw.TransInv a ps t.length) :
    rel a ps (t.map (· + k)) ↔ rel a (Rw.adj a (-k) ps) t := by
  have := C13_rel_translate a ps (t.map (· + k)) (-k) (by simpa using h)
  have hid : (t.map (· + k)).map (· + -k) = t := by
    rw [List.map_map]
    conv => rhs; rw [← List.map_id t]
    apply List.map_congr_left
    intro x _; simp only [Function.comp, id]; omega
  rw [hid] at this
  exact this.symm

/-- every variable position of every constraint refers to an existing shared domain (`WFP`) -/
def Rw.WF (P : Problem) : Prop := ∀ p ∈ P.props, ∀ v ∈ p.vars, v.1 < P.shr.length

/-- the model with every root domain translated by `k` and the constraint parameters adjusted -/
def Rw.translate (k : Int) (P : Problem) : Problem :=
  { shr := P.shr.map (fun d => d.shift k), vars := P.vars,
    props := P.props.map (fun p => { p with params := Rw.adj p.alg k p.params }) }

theorem Rw.inBox_translate (k : Int) : ∀ (σ : List Int) (B : Box),
    inBox (σ.map (· + k)) (B.map (fun d => d.shift k)) ↔ inBox σ B
  | [], [] => by simp [inBox]
  | [], _ :: _ => by simp [inBox]
  | _ :: _, [] => by simp [inBox]
  | x :: xs, d :: ds => by
    have ih := Rw.inBox_translate k xs ds
    simp only [List.map_cons, inBox, inDom]
    rw [ih]
    simp only [Dom.shift]
    constructor <;> rintro ⟨⟨h1, h2⟩, h3⟩ <;> exact ⟨⟨by omega, by omega⟩, h3⟩

theorem Rw.getI_translate (k : Int) (σ : List Int) (i : Nat) (h : i < σ.length) :
    getI (σ.map (· + k)) i = getI σ i + k := by
  simp [getI, List.getD, List.getElem?_map, List.getElem?_eq_getElem h]

theorem Rw.valuesOf_translate (k : Int) (vars : List (Nat × Int)) (σ : List Int)
    (h : ∀ v ∈ vars, v.1 < σ.length) :
    valuesOf vars (σ.map (· + k)) = (valuesOf vars σ).map (· + k) := by
  unfold valuesOf
  rw [List.map_map]
  apply List.map_congr_left
  intro v hv
  simp only [Function.comp, Rw.getI_translate k σ v.1 (h v hv)]
  omega

/-- translating all root domains by `k` translates every solution by `k` -/
theorem C13_translate (P : Problem) (k : Int) (hW : Rw.WF P)
    (hT : ∀ p ∈ P.props, Rw.TransInv p.alg p.params p.vars.length) (σ : List Int) :
    Sol (Rw.translate k P) (σ.map (· + k)) ↔ Sol P σ := by
  unfold Sol
  simp only [Rw.translate, Rw.inBox_translate, List.mem_map]
  refine and_congr_right (fun hb => ?_)
  have hl := inBox_length hb
  have key : ∀ p ∈ P.props, (rel p.alg (Rw.adj p.alg k p.params) (valuesOf p.vars (σ.map (· + k))) ↔
      rel p.alg p.params (valuesOf p.vars σ)) := by
    intro p hp
    rw [Rw.valuesOf_translate k p.vars σ (fun v hv => hl ▸ hW p hp v hv)]
    exact C13_rel_translate _ _ _ k (by simpa [valuesOf] using hT p hp)
  constructor
  · intro h p hp
    exact (key p hp).mp (h _ ⟨p, hp, rfl⟩)
  · rintro h _ ⟨p, hp, rfl⟩
    exact (key p hp).mpr (h p hp)

theorem Rw.map_sub_add (k : Int) (τ : List Int) : (τ.map (· - k)).map (· + k) = τ := by
  rw [List.map_map]
  conv => rhs; rw [← List.map_id τ]
  apply List.map_congr_left
  intro x _; simp only [Function.comp, id]; omega

/-- the solution set of the translated model is exactly the translated solution set -/
theorem C13_translate_set (P : Problem) (k : Int) (hW : Rw.WF P)
    (hT : ∀ p ∈ P.props, Rw.TransInv p.alg p.params p.vars.length) (τ : List Int) :
    Sol (Rw.translate k P) τ ↔ ∃ σ, Sol P σ ∧ τ = σ.map (· + k) := by
  constructor
  · intro h
    refine ⟨τ.map (· - k), ?_, (Rw.map_sub_add k τ).symm⟩
    rw [← Rw.map_sub_add k τ] at h
    exact (C13_translate P k hW hT _).mp h
  · rintro ⟨σ, h, rfl⟩
    exact (C13_translate P k hW hT σ).mpr h

/-- … and so is the reported vector (offsets are differences, they do not move) -/
theorem C13_translate_reported (P : Problem) (k : Int) (σ : List Int)
    (hv : ∀ v ∈ P.vars, v.1 < σ.length) :
    reported (Rw.translate k P) (σ.map (· + k)) = (reported P σ).map (· + k) :=
  Rw.valuesOf_translate k P.vars σ hv

/-- translation is NOT harmless for the other constraints: `x₀ · 1 …` e.g. `element_iv`, or a Boolean
    `and`, are tied to absolute values; the smallest witness is `exactly_true` -/
example : rel .exactlyTrue [1] [1] ∧ ¬ rel .exactlyTrue [1] ([1].map (· + 1)) := by
  simp [rel, getI]

/-- non-vacuity of 5 -/
example :
    let P : Problem := ⟨[(0, 2), (0, 2)], [(0, 0), (1, 0)],
      [⟨.alldifferent, [(0, 0), (1, 0)], []⟩, ⟨.affineLeq, [(0, 0), (1, 0)], [2, -1, 1]⟩]⟩
    Sol P [1, 2] ∧ Sol (Rw.translate 10 P) [11, 12] ∧
      (Rw.translate 10 P).props.map (·.params) = [[], [2, -1, 11]] := by
  intro P
  have hW : Rw.WF P := by
    intro p hp v hv
    simp [P] at hp
    rcases hp with rfl | rfl <;> simp at hv <;> rcases hv with rfl | rfl <;> simp [P]
  have hT : ∀ p ∈ P.props, Rw.TransInv p.alg p.params p.vars.length := by
    intro p hp
    simp [P] at hp
    rcases hp with rfl | rfl <;> simp [Rw.TransInv]
  have h : Sol P [1, 2] := by
    refine ⟨by simp [P, inBox, inDom], fun q hq => ?_⟩
    simp [P] at hq
    rcases hq with rfl | rfl
    · simp [rel, valuesOf, getI]
    · simp [rel, valuesOf, getI, dot]
  exact ⟨h, (C13_translate P 10 hW hT [1, 2]).mpr h, by decide⟩

/-! ## 3. permuting the variables -/

/-- the variable list rearranged by the index map `π`: new variable `j` is old variable `π[j]` -/
def Rw.permVars (π : List Nat) (vars : List (Nat × Int)) : List (Nat × Int) :=
  π.map (fun i => vars.getD i (0, 0))

/-- the constraints address shared domains directly, so the solutions do not see the variable list -/
theorem C13_vars_Sol (P : Problem) (vars' : List (Nat × Int)) (σ : List Int) :
    Sol { P with vars := vars' } σ ↔ Sol P σ := Iff.rfl

theorem C13_vars_SolW (P : Problem) (vars' : List (Nat × Int)) (σ : List Int) :
    SolW { P with vars := vars' } σ ↔ SolW P σ := Iff.rfl

/-- the reported vector of the rearranged problem is the rearranged reported vector -/
theorem C13_perm_vars_reported (P : Problem) (π : List Nat) (hπ : ∀ i ∈ π, i < P.vars.length)
    (σ : List Int) :
    reported { P with vars := Rw.permVars π P.vars } σ = π.map (fun i => getI (reported P σ) i) := by
  unfold reported valuesOf Rw.permVars
  rw [List.map_map]
  apply List.map_congr_left
  intro i hi
  have := hπ i hi
  simp [getI, List.getD, List.getElem?_map, List.getElem?_eq_getElem this]

/-- in particular for a permutation of the variable list the reported vector is permuted -/
theorem C13_perm_vars_perm (P : Problem) (vars' : List (Nat × Int)) (h : List.Perm P.vars vars')
    (σ : List Int) : List.Perm (reported { P with vars := vars' } σ) (reported P σ) :=
  (h.map _).symm

theorem Rw.insertByKey_map {α β : Type} (f : α → β) (key : α → Int) (key' : β → Int)
    (hk : ∀ x, key' (f x) = key x) (x : α) :
    ∀ l : List α, insertByKey key' (f x) (l.map f) = (insertByKey key x l).map f
  | [] => rfl
  | y :: ys => by
    simp only [List.map_cons, insertByKey, hk]
    split
    · rfl
    · simp [Rw.insertByKey_map f key key' hk x ys]

theorem Rw.stableSort_map {α β : Type} (f : α → β) (key : α → Int) (key' : β → Int)
    (hk : ∀ x, key' (f x) = key x) :
    ∀ l : List α, stableSort key' (l.map f) = (stableSort key l).map f
  | [] => rfl
  | x :: xs => by
    show insertByKey key' (f x) (stableSort key' (xs.map f)) = (insertByKey key x (stableSort key xs)).map f
    rw [Rw.stableSort_map f key key' hk xs, Rw.insertByKey_map f key key' hk]

/-- the user-level statement: declaring the variables in another order (`vars'`) and posting the
    same constraints through the renaming `ρ` of the variable indices (`vars'[ρ v] = vars[v]`)
    produces exactly the same constraint list, in the same order -/
theorem C13_init_var_perm (shr : Box) (vars vars' : List (Nat × Int)) (ρ : Nat → Nat)
    (raw : List (RawProp × Int))
    (h : ∀ rk ∈ raw, ∀ v ∈ rk.1.vars, vars'.getD (ρ v) (0, 0) = vars.getD v (0, 0)) :
    (initProblem shr vars' (raw.map (fun rk => ({ rk.1 with vars := rk.1.vars.map ρ }, rk.2)))).props =
      (initProblem shr vars raw).props := by
  simp only [initProblem]
  rw [Rw.stableSort_map (fun (rk : RawProp × Int) => (({ rk.1 with vars := rk.1.vars.map ρ } : RawProp), rk.2))
    (fun rk => rk.2) (fun rk => rk.2) (fun _ => rfl), List.map_map]
  apply List.map_congr_left
  intro rk hrk
  have hrk' : rk ∈ raw := (C13_perm_stableSort _ raw).mem_iff.mp hrk
  simp only [Function.comp, List.map_map]
  congr 1
  apply List.map_congr_left
  intro v hv
  exact h rk hrk' v hv

/-- … hence the same solutions, and the reported vector rearranged -/
theorem C13_init_var_perm_Sol (shr : Box) (vars vars' : List (Nat × Int)) (ρ : Nat → Nat)
    (raw : List (RawProp × Int))
    (h : ∀ rk ∈ raw, ∀ v ∈ rk.1.vars, vars'.getD (ρ v) (0, 0) = vars.getD v (0, 0)) (σ : List Int) :
    Sol (initProblem shr vars' (raw.map (fun rk => ({ rk.1 with vars := rk.1.vars.map ρ }, rk.2)))) σ ↔
      Sol (initProblem shr vars raw) σ := by
  unfold Sol
  rw [C13_init_var_perm shr vars vars' ρ raw h]
  exact Iff.rfl

/-- non-vacuity of 3: two variables swapped -/
example :
    let P : Problem := ⟨[(0, 5), (0, 5)], [(0, 0), (1, 1)], []⟩
    reported P [2, 3] = [2, 4] ∧ reported { P with vars := Rw.permVars [1, 0] P.vars } [2, 3] = [4, 2] := by
  intro P
  refine ⟨by decide, ?_⟩
  rw [C13_perm_vars_reported P [1, 0] (by simp [P])]
  decide

/-! ## 4. unsharing: an offset view becomes a shared domain of its own plus an equality -/

/-- position `v'` is position `v`, or `v = (d, o)` re-expressed on the new domain as `(e, o - δ)` -/
def Rw.Repl (d e : Nat) (δ : Int) (v v' : Nat × Int) : Prop :=
  v' = v ∨ (v.1 = d ∧ v' = (e, v.2 - δ))

/-- position-wise `Rw.Repl`: ANY subset of the occurrences of `d` may be replaced -/
def Rw.ReplVars (d e : Nat) (δ : Int) : List (Nat × Int) → List (Nat × Int) → Prop
  | [], [] => True
  | v :: vs, v' :: vs' => Rw.Repl d e δ v v' ∧ Rw.ReplVars d e δ vs vs'
  | _, _ => False

def Rw.ReplProp (d e : Nat) (δ : Int) (p p' : PropInst) : Prop :=
  p'.alg = p.alg ∧ p'.params = p.params ∧ Rw.ReplVars d e δ p.vars p'.vars

/-- the linking constraint `x_e - x_d = δ` -/
def Rw.link (d e : Nat) (δ : Int) : PropInst := ⟨.affineEq, [(e, 0), (d, 0)], [1, -1, δ]⟩

/-- `P'` is `P` with shared domain `d` unshared by `δ`: one new shared domain at the end with the
    translated root domain, the link (anywhere in the list), and every other constraint and the
    variable list rewritten with `Rw.Repl` (the correspondence between the constraints is up to
    order and repetition) -/
structure Rw.Unshared (P P' : Problem) (d : Nat) (δ : Int) : Prop where
  hd : d < P.shr.length
  shr : P'.shr = P.shr ++ [(getDom P.shr d).shift δ]
  link : Rw.link d P.shr.length δ ∈ P'.props
  back : ∀ p' ∈ P'.props, p' = Rw.link d P.shr.length δ ∨ ∃ p ∈ P.props, Rw.ReplProp d P.shr.length δ p p'
  forth : ∀ p ∈ P.props, ∃ p' ∈ P'.props, Rw.ReplProp d P.shr.length δ p p'
  vars : Rw.ReplVars d P.shr.length δ P.vars P'.vars

/-- the extended assignment: the new domain takes the value of `d` plus `δ` -/
def Rw.ext (d : Nat) (δ : Int) (σ : List Int) : List Int := σ ++ [getI σ d + δ]

theorem Rw.getI_append_lt (σ τ : List Int) (i : Nat) (h : i < σ.length) : getI (σ ++ τ) i = getI σ i := by
  simp [getI, List.getD, List.getElem?_append_left h]

theorem Rw.getI_append_length (σ : List Int) (x : Int) : getI (σ ++ [x]) σ.length = x := by
  simp [getI, List.getD]

theorem Rw.valuesOf_repl (d : Nat) (δ : Int) (σ : List Int) (x : Int) (hx : x = getI σ d + δ) :
    ∀ (vs vs' : List (Nat × Int)), Rw.ReplVars d σ.length δ vs vs' → (∀ v ∈ vs, v.1 < σ.length) →
      valuesOf vs' (σ ++ [x]) = valuesOf vs σ
  | [], [], _, _ => rfl
  | [], _ :: _, h, _ => h.elim
  | _ :: _, [], h, _ => h.elim
  | v :: vs, v' :: vs', h, hw => by
    have ih := Rw.valuesOf_repl d δ σ x hx vs vs' h.2 (fun u hu => hw u (List.mem_cons_of_mem _ hu))
    have hv := hw v List.mem_cons_self
    simp only [valuesOf, List.map_cons] at ih ⊢
    rw [ih]
    congr 1
    rcases h.1 with rfl | ⟨h1, rfl⟩
    · rw [Rw.getI_append_lt σ [x] _ hv]
    · simp only [Rw.getI_append_length, hx, h1]; omega

theorem Rw.inBox_snoc (x : Int) (D : Dom) : ∀ (t : List Int) (B : Box),
    inBox (t ++ [x]) (B ++ [D]) ↔ inBox t B ∧ inDom x D
  | [], [] => by simp [inBox]
  | [], b :: bs => by cases bs <;> simp [inBox]
  | y :: ys, [] => by cases ys <;> simp [inBox]
  | y :: ys, b :: bs => by
    have ih := Rw.inBox_snoc x D ys bs
    simp only [List.cons_append, inBox, ih, and_assoc]

/-- forward: a solution extends (in exactly one way, see `C13_unshare`) -/
theorem Rw.unshare_forth {P P' : Problem} {d : Nat} {δ : Int} (hU : Rw.Unshared P P' d δ) (hW : Rw.WF P)
    {σ : List Int} (h : Sol P σ) : Sol P' (Rw.ext d δ σ) := by
  have hl := inBox_length h.1
  refine Rw.Sol_transfer ?_ ?_ h
  · rw [hU.shr]; unfold Rw.ext
    refine (Rw.inBox_snoc _ _ σ P.shr).mpr ⟨h.1, ?_⟩
    have := inBox_get d h.1 hU.hd
    simp only [inDom, Dom.shift]; omega
  · intro p' hp'
    rcases hU.back p' hp' with rfl | ⟨p, hp, ha, hps, hv⟩
    · left
      have hd' : d < σ.length := hl ▸ hU.hd
      simp only [Rw.link, rel, valuesOf, Rw.ext, List.map_cons, List.map_nil, ← hl,
        Rw.getI_append_length, Rw.getI_append_lt σ _ d hd']
      simp [dot]; omega
    · right
      refine ⟨p, hp, ha.symm, hps.symm, ?_⟩
      rw [← hl] at hv
      exact (Rw.valuesOf_repl d δ σ _ rfl p.vars p'.vars hv (fun v hv' => hl ▸ hW p hp v hv')).symm

/-- backward: every solution of the unshared model is the extension of a solution -/
theorem Rw.unshare_back {P P' : Problem} {d : Nat} {δ : Int} (hU : Rw.Unshared P P' d δ) (hW : Rw.WF P)
    {σ' : List Int} (h : Sol P' σ') : ∃ σ, σ' = Rw.ext d δ σ ∧ Sol P σ := by
  have hb := h.1
  rw [hU.shr] at hb
  have hl' := inBox_length hb
  rcases Rw.snoc_cases σ' with rfl | ⟨σ, x, rfl⟩
  · simp at hl'
  · have hb' := (Rw.inBox_snoc x _ σ P.shr).mp hb
    have hl := inBox_length hb'.1
    have hd' : d < σ.length := hl ▸ hU.hd
    have hx : x = getI σ d + δ := by
      have := h.2 _ hU.link
      simp only [Rw.link, rel, valuesOf, List.map_cons, List.map_nil, ← hl,
        Rw.getI_append_length, Rw.getI_append_lt σ _ d hd'] at this
      simp [dot] at this; omega
    refine ⟨σ, by rw [hx]; rfl, hb'.1, fun p hp => ?_⟩
    obtain ⟨p', hp', ha, hps, hv⟩ := hU.forth p hp
    have := h.2 p' hp'
    rw [← hl] at hv
    rw [Rw.valuesOf_repl d δ σ x hx p.vars p'.vars hv (fun v hv' => hl ▸ hW p hp v hv'), ha, hps] at this
    exact this

/-- `σ ↦ σ ++ [σ[d] + δ]` is a bijection between the solutions of `P` and those of the unshared `P'` -/
theorem C13_unshare {P P' : Problem} {d : Nat} {δ : Int} (hU : Rw.Unshared P P' d δ) (hW : Rw.WF P) :
    (∀ σ, Sol P σ → Sol P' (Rw.ext d δ σ)) ∧
    (∀ σ', Sol P' σ' → ∃ σ, Sol P σ ∧ σ' = Rw.ext d δ σ) ∧
    (∀ σ τ, Rw.ext d δ σ = Rw.ext d δ τ → σ = τ) := by
  refine ⟨fun σ h => Rw.unshare_forth hU hW h, fun σ' h => ?_, fun σ τ h => ?_⟩
  · obtain ⟨σ, h1, h2⟩ := Rw.unshare_back hU hW h
    exact ⟨σ, h2, h1⟩
  · exact (List.append_inj' h (by simp)).1

/-- the same as one equivalence: the solutions of `P'` are exactly the extensions -/
theorem C13_unshare_iff {P P' : Problem} {d : Nat} {δ : Int} (hU : Rw.Unshared P P' d δ) (hW : Rw.WF P)
    (σ' : List Int) : Sol P' σ' ↔ ∃ σ, Sol P σ ∧ σ' = Rw.ext d δ σ :=
  ⟨(C13_unshare hU hW).2.1 σ', fun ⟨σ, h, e⟩ => e ▸ (C13_unshare hU hW).1 σ h⟩

/-- … and the user sees the same vector (the variable list of `P'` may use the new positions) -/
theorem C13_unshare_reported {P P' : Problem} {d : Nat} {δ : Int} (hU : Rw.Unshared P P' d δ)
    (σ : List Int) (hl : σ.length = P.shr.length) (hv : ∀ v ∈ P.vars, v.1 < P.shr.length) :
    reported P' (Rw.ext d δ σ) = reported P σ := by
  have := hU.vars
  rw [← hl] at this
  exact Rw.valuesOf_repl d δ σ _ rfl P.vars P'.vars this (fun v h => hl ▸ hv v h)

/-- non-vacuity of 4: `x` and `y = x + 3` share domain 0; in `P'` `y` has its own domain 1 -/
example :
    let P : Problem := ⟨[(0, 5)], [(0, 0), (0, 3)], [⟨.affineLeq, [(0, 0), (0, 3)], [1, 1, 7]⟩]⟩
    let P' : Problem := ⟨[(0, 5), (3, 8)], [(0, 0), (1, 0)],
      [Rw.link 0 1 3, ⟨.affineLeq, [(0, 0), (1, 0)], [1, 1, 7]⟩]⟩
    Rw.Unshared P P' 0 3 ∧ Rw.WF P ∧ Sol P [2] ∧ Sol P' [2, 5] ∧ reported P' [2, 5] = reported P [2] := by
  intro P P'
  have hr : Rw.ReplProp 0 1 3 ⟨.affineLeq, [(0, 0), (0, 3)], [1, 1, 7]⟩ ⟨.affineLeq, [(0, 0), (1, 0)], [1, 1, 7]⟩ :=
    ⟨rfl, rfl, Or.inl rfl, Or.inr ⟨rfl, rfl⟩, trivial⟩
  have hU : Rw.Unshared P P' 0 3 :=
    { hd := by simp [P]
      shr := by simp [P, P', getDom, Dom.shift]
      link := by simp [P, P']
      back := by
        intro p' hp'
        simp [P'] at hp'
        rcases hp' with rfl | rfl
        · exact Or.inl rfl
        · exact Or.inr ⟨_, by simp [P], hr⟩
      forth := by
        intro p hp
        simp [P] at hp; subst hp
        exact ⟨_, by simp [P'], hr⟩
      vars := ⟨Or.inl rfl, Or.inr ⟨rfl, rfl⟩, trivial⟩ }
  have hW : Rw.WF P := by
    intro p hp v hv
    simp [P] at hp; subst hp
    simp at hv; rcases hv with rfl | rfl <;> simp [P]
  have h : Sol P [2] := by
    refine ⟨by simp [P, inBox, inDom], fun q hq => ?_⟩
    simp [P] at hq; subst hq
    simp [rel, valuesOf, getI, dot]
  exact ⟨hU, hW, h, (C13_unshare hU hW).1 [2] h, C13_unshare_reported hU [2] rfl (by simp [P])⟩

/-! ## 3b. renaming (permuting) the shared domains -/

/-- `π` and `ρ` are mutually inverse permutations of `[0, n)` -/
structure Rw.Renaming (n : Nat) (π ρ : Nat → Nat) : Prop where
  fwd : ∀ d, d < n → π d < n ∧ ρ (π d) = d
  bwd : ∀ j, j < n → ρ j < n ∧ π (ρ j) = j

theorem Rw.Renaming.symm {n : Nat} {π ρ : Nat → Nat} (h : Rw.Renaming n π ρ) : Rw.Renaming n ρ π :=
  ⟨h.bwd, h.fwd⟩

/-- `σ ∘ π` on `[0, n)` -/
def Rw.pull (n : Nat) (π : Nat → Nat) (σ : List Int) : List Int := (List.range n).map (fun d => getI σ (π d))
def Rw.pullBox (n : Nat) (π : Nat → Nat) (B : Box) : Box := (List.range n).map (fun d => getDom B (π d))

def Rw.renameVars (π : Nat → Nat) (vs : List (Nat × Int)) : List (Nat × Int) := vs.map (fun v => (π v.1, v.2))

/-- shared domain `d` of `P` becomes shared domain `π d` (so new domain `j` is old domain `ρ j`);
    every position of every constraint and of the variable list is renamed accordingly -/
def Rw.renameShr (π ρ : Nat → Nat) (P : Problem) : Problem :=
  { shr := Rw.pullBox P.shr.length ρ P.shr
    vars := Rw.renameVars π P.vars
    props := P.props.map (fun p => { p with vars := Rw.renameVars π p.vars }) }

theorem Rw.getI_pull (n : Nat) (π : Nat → Nat) (σ : List Int) (d : Nat) (h : d < n) :
    getI (Rw.pull n π σ) d = getI σ (π d) := by
  simp [Rw.pull, getI, List.getD, List.getElem?_map, List.getElem?_range h]

theorem Rw.getDom_pullBox (n : Nat) (π : Nat → Nat) (B : Box) (d : Nat) (h : d < n) :
    getDom (Rw.pullBox n π B) d = getDom B (π d) := by
  simp [Rw.pullBox, getDom, List.getD, List.getElem?_map, List.getElem?_range h]

theorem Rw.inBox_of_get : ∀ (t : List Int) (B : Box), t.length = B.length →
    (∀ k, k < B.length → inDom (getI t k) (getDom B k)) → inBox t B
  | [], [], _, _ => trivial
  | [], _ :: _, h, _ => by simp at h
  | _ :: _, [], h, _ => by simp at h
  | x :: xs, b :: bs, hl, h => by
    refine ⟨by simpa [getI, getDom] using h 0 (by simp), ?_⟩
    exact Rw.inBox_of_get xs bs (by simpa using hl)
      (fun k hk => by simpa [getI, getDom] using h (k + 1) (by simpa using hk))

theorem Rw.inDom_get {t : List Int} {B : Box} (h : inBox t B) (k : Nat) (hk : k < B.length) :
    inDom (getI t k) (getDom B k) := inBox_get k h hk

theorem Rw.valuesOf_rename (n : Nat) (π : Nat → Nat) (σ' : List Int) (vs : List (Nat × Int))
    (h : ∀ v ∈ vs, v.1 < n) :
    valuesOf (Rw.renameVars π vs) σ' = valuesOf vs (Rw.pull n π σ') := by
  unfold valuesOf Rw.renameVars
  rw [List.map_map]
  apply List.map_congr_left
  intro v hv
  simp only [Function.comp, Rw.getI_pull n π σ' v.1 (h v hv)]

/-- a solution of the renamed model, read through `π`, is a solution of the original -/
theorem Rw.rename_back {P : Problem} {π ρ : Nat → Nat} (hR : Rw.Renaming P.shr.length π ρ) (hW : Rw.WF P)
    {σ' : List Int} (h : Sol (Rw.renameShr π ρ P) σ') : Sol P (Rw.pull P.shr.length π σ') := by
  refine Rw.Sol_transfer (P := Rw.renameShr π ρ P) ?_ ?_ h
  · have hl := inBox_length h.1
    apply Rw.inBox_of_get
    · simp [Rw.pull]
    · intro d hd
      have hπ := hR.fwd d hd
      have := Rw.inDom_get h.1 (π d) (by simpa [Rw.renameShr, Rw.pullBox] using hπ.1)
      rw [Rw.getI_pull _ _ _ _ hd]
      simpa [Rw.renameShr, Rw.getDom_pullBox _ _ _ _ hπ.1, hπ.2] using this
  · intro p hp
    right
    refine ⟨{ p with vars := Rw.renameVars π p.vars }, ?_, rfl, rfl, ?_⟩
    · exact List.mem_map.mpr ⟨p, hp, rfl⟩
    · exact Rw.valuesOf_rename _ π σ' p.vars (hW p hp)

/-- a solution of the original, read through `ρ`, is a solution of the renamed model -/
theorem Rw.rename_forth {P : Problem} {π ρ : Nat → Nat} (hR : Rw.Renaming P.shr.length π ρ) (hW : Rw.WF P)
    {σ : List Int} (h : Sol P σ) : Sol (Rw.renameShr π ρ P) (Rw.pull P.shr.length ρ σ) := by
  have hl := inBox_length h.1
  refine Rw.Sol_transfer (P := P) ?_ ?_ h
  · apply Rw.inBox_of_get
    · simp [Rw.pull, Rw.renameShr, Rw.pullBox]
    · intro j hj
      have hj' : j < P.shr.length := by simpa [Rw.renameShr, Rw.pullBox] using hj
      have hρ := hR.bwd j hj'
      have := Rw.inDom_get h.1 (ρ j) hρ.1
      rw [Rw.getI_pull _ _ _ _ hj']
      simpa [Rw.renameShr, Rw.getDom_pullBox _ _ _ _ hj'] using this
  · intro p' hp'
    obtain ⟨p, hp, rfl⟩ := List.mem_map.mp hp'
    right
    refine ⟨p, hp, rfl, rfl, ?_⟩
    rw [Rw.valuesOf_rename P.shr.length π _ p.vars (hW p hp)]
    unfold valuesOf
    apply List.map_congr_left
    intro v hv
    have hv' := hW p hp v hv
    rw [Rw.getI_pull _ _ _ _ hv', Rw.getI_pull _ _ _ _ (hR.fwd _ hv').1, (hR.fwd _ hv').2]

theorem Rw.pull_pull (n : Nat) (π ρ : Nat → Nat) (h : ∀ d, d < n → ρ d < n ∧ π (ρ d) = d) (σ : List Int)
    (hl : σ.length = n) : Rw.pull n ρ (Rw.pull n π σ) = σ := by
  apply List.ext_getElem?
  intro i
  by_cases hi : i < n
  · have := Rw.getI_pull n ρ (Rw.pull n π σ) i hi
    rw [Rw.getI_pull n π σ _ (h i hi).1, (h i hi).2] at this
    have h1 : i < (Rw.pull n ρ (Rw.pull n π σ)).length := by simpa [Rw.pull] using hi
    have h2 : i < σ.length := hl ▸ hi
    simpa [getI, List.getD, List.getElem?_eq_getElem h1, List.getElem?_eq_getElem h2] using this
  · rw [List.getElem?_eq_none (by simp [Rw.pull]; omega), List.getElem?_eq_none (by omega)]

/-- renaming the shared domains transports the solutions: `σ' ↦ σ' ∘ π` is a bijection from the
    solutions of the renamed model onto those of the original, with inverse `σ ↦ σ ∘ ρ` -/
theorem C13_rename_shr {P : Problem} {π ρ : Nat → Nat} (hR : Rw.Renaming P.shr.length π ρ) (hW : Rw.WF P) :
    (∀ σ', Sol (Rw.renameShr π ρ P) σ' → Sol P (Rw.pull P.shr.length π σ')) ∧
    (∀ σ, Sol P σ → Sol (Rw.renameShr π ρ P) (Rw.pull P.shr.length ρ σ)) ∧
    (∀ σ, Sol P σ → Rw.pull P.shr.length π (Rw.pull P.shr.length ρ σ) = σ) ∧
    (∀ σ', Sol (Rw.renameShr π ρ P) σ' → Rw.pull P.shr.length ρ (Rw.pull P.shr.length π σ') = σ') := by
  refine ⟨fun _ h => Rw.rename_back hR hW h, fun _ h => Rw.rename_forth hR hW h, fun σ h => ?_, fun σ' h => ?_⟩
  · exact Rw.pull_pull _ ρ π hR.fwd σ (inBox_length h.1)
  · exact Rw.pull_pull _ π ρ hR.bwd σ' (by simpa [Rw.renameShr, Rw.pullBox] using inBox_length h.1)

/-- the user sees the same vector -/
theorem C13_rename_shr_reported (P : Problem) (π ρ : Nat → Nat) (hv : ∀ v ∈ P.vars, v.1 < P.shr.length)
    (σ' : List Int) :
    reported (Rw.renameShr π ρ P) σ' = reported P (Rw.pull P.shr.length π σ') :=
  Rw.valuesOf_rename _ π σ' P.vars hv

/-- non-vacuity of 3b: the two shared domains swapped -/
example :
    let P : Problem := ⟨[(0, 1), (5, 6)], [(0, 0), (1, 0)], [⟨.affineLeq, [(0, 0), (1, 0)], [1, -1, -5]⟩]⟩
    let sw : Nat → Nat := fun d => 1 - d
    Sol P [0, 5] ∧ Sol (Rw.renameShr sw sw P) [5, 0] ∧ (Rw.renameShr sw sw P).shr = [(5, 6), (0, 1)] := by
  intro P sw
  have hR : Rw.Renaming P.shr.length sw sw := by
    constructor <;> intro d hd <;> simp [P] at hd <;> simp [P, sw] <;> omega
  have hW : Rw.WF P := by
    intro p hp v hv
    simp [P] at hp; subst hp
    simp at hv; rcases hv with rfl | rfl <;> simp [P]
  have h : Sol P [0, 5] := by
    refine ⟨by simp [P, inBox, inDom], fun q hq => ?_⟩
    simp [P] at hq; subst hq
    simp [rel, valuesOf, getI, dot]
  exact ⟨h, (C13_rename_shr hR hW).2.1 _ h, by decide⟩

/-! ## the same for `SolW` (acceptance relation; differs for no_sub_cycle only) -/

theorem C13_translate_W (P : Problem) (k : Int) (hW : Rw.WF P)
    (hT : ∀ p ∈ P.props, Rw.TransInv p.alg p.params p.vars.length) (σ : List Int) :
    SolW (Rw.translate k P) (σ.map (· + k)) ↔ SolW P σ := by
  unfold SolW
  simp only [Rw.translate, Rw.inBox_translate, List.mem_map]
  refine and_congr_right (fun hb => ?_)
  have hl := inBox_length hb
  have key : ∀ p ∈ P.props, (relW p.alg (Rw.adj p.alg k p.params) (valuesOf p.vars (σ.map (· + k))) ↔
      relW p.alg p.params (valuesOf p.vars σ)) := by
    intro p hp
    rw [Rw.valuesOf_translate k p.vars σ (fun v hv => hl ▸ hW p hp v hv)]
    exact C13_relW_translate _ _ _ k (by simpa [valuesOf] using hT p hp)
  constructor
  · intro h p hp
    exact (key p hp).mp (h _ ⟨p, hp, rfl⟩)
  · rintro h _ ⟨p, hp, rfl⟩
    exact (key p hp).mpr (h p hp)

theorem C13_unshare_W {P P' : Problem} {d : Nat} {δ : Int} (hU : Rw.Unshared P P' d δ) (hW : Rw.WF P)
    (σ' : List Int) : SolW P' σ' ↔ ∃ σ, SolW P σ ∧ σ' = Rw.ext d δ σ := by
  constructor
  · intro h
    have hb := h.1
    rw [hU.shr] at hb
    have hl' := inBox_length hb
    rcases Rw.snoc_cases σ' with rfl | ⟨σ, x, rfl⟩
    · simp at hl'
    · have hb' := (Rw.inBox_snoc x _ σ P.shr).mp hb
      have hl := inBox_length hb'.1
      have hd' : d < σ.length := hl ▸ hU.hd
      have hx : x = getI σ d + δ := by
        have := h.2 _ hU.link
        simp only [Rw.link, relW, rel, valuesOf, List.map_cons, List.map_nil, ← hl,
          Rw.getI_append_length, Rw.getI_append_lt σ _ d hd'] at this
        simp [dot] at this; omega
      refine ⟨σ, ⟨hb'.1, fun p hp => ?_⟩, by rw [hx]; rfl⟩
      obtain ⟨p', hp', ha, hps, hv⟩ := hU.forth p hp
      have := h.2 p' hp'
      rw [← hl] at hv
      rw [Rw.valuesOf_repl d δ σ x hx p.vars p'.vars hv (fun v hv' => hl ▸ hW p hp v hv'), ha, hps] at this
      exact this
  · rintro ⟨σ, h, rfl⟩
    have hl := inBox_length h.1
    refine Rw.SolW_transfer ?_ ?_ h
    · rw [hU.shr]; unfold Rw.ext
      refine (Rw.inBox_snoc _ _ σ P.shr).mpr ⟨h.1, ?_⟩
      have := inBox_get d h.1 hU.hd
      simp only [inDom, Dom.shift]; omega
    · intro p' hp'
      rcases hU.back p' hp' with rfl | ⟨p, hp, ha, hps, hv⟩
      · left
        have hd' : d < σ.length := hl ▸ hU.hd
        simp only [Rw.link, relW, rel, valuesOf, Rw.ext, List.map_cons, List.map_nil, ← hl,
          Rw.getI_append_length, Rw.getI_append_lt σ _ d hd']
        simp [dot]; omega
      · right
        refine ⟨p, hp, ha.symm, hps.symm, ?_⟩
        rw [← hl] at hv
        exact (Rw.valuesOf_repl d δ σ _ rfl p.vars p'.vars hv (fun v hv' => hl ▸ hW p hp v hv')).symm

/-- a solution of the renamed model, read through `π`, is a solution of the original -/
theorem Rw.rename_back_W {P : Problem} {π ρ : Nat → Nat} (hR : Rw.Renaming P.shr.length π ρ) (hW : Rw.WF P)
    {σ' : List Int} (h : SolW (Rw.renameShr π ρ P) σ') : SolW P (Rw.pull P.shr.length π σ') := by
  refine Rw.SolW_transfer (P := Rw.renameShr π ρ P) ?_ ?_ h
  · have hl := inBox_length h.1
    apply Rw.inBox_of_get
    · simp [Rw.pull]
    · intro d hd
      have hπ := hR.fwd d hd
      have := Rw.inDom_get h.1 (π d) (by simpa [Rw.renameShr, Rw.pullBox] using hπ.1)
      rw [Rw.getI_pull _ _ _ _ hd]
      simpa [Rw.renameShr, Rw.getDom_pullBox _ _ _ _ hπ.1, hπ.2] using this
  · intro p hp
    right
    refine ⟨{ p with vars := Rw.renameVars π p.vars }, ?_, rfl, rfl, ?_⟩
    · exact List.mem_map.mpr ⟨p, hp, rfl⟩
    · exact Rw.valuesOf_rename _ π σ' p.vars (hW p hp)

/-- a solution of the original, read through `ρ`, is a solution of the renamed model -/
theorem Rw.rename_forth_W {P : Problem} {π ρ : Nat → Nat} (hR : Rw.Renaming P.shr.length π ρ) (hW : Rw.WF P)
    {σ : List Int} (h : SolW P σ) : SolW (Rw.renameShr π ρ P) (Rw.pull P.shr.length ρ σ) := by
  have hl := inBox_length h.1
  refine Rw.SolW_transfer (P := P) ?_ ?_ h
  · apply Rw.inBox_of_get
    · simp [Rw.pull, Rw.renameShr, Rw.pullBox]
    · intro j hj
      have hj' : j < P.shr.length := by simpa [Rw.renameShr, Rw.pullBox] using hj
      have hρ := hR.bwd j hj'
      have := Rw.inDom_get h.1 (ρ j) hρ.1
      rw [Rw.getI_pull _ _ _ _ hj']
      simpa [Rw.renameShr, Rw.getDom_pullBox _ _ _ _ hj'] using this
  · intro p' hp'
    obtain ⟨p, hp, rfl⟩ := List.mem_map.mp hp'
    right
    refine ⟨p, hp, rfl, rfl, ?_⟩
    rw [Rw.valuesOf_rename P.shr.length π _ p.vars (hW p hp)]
    unfold valuesOf
    apply List.map_congr_left
    intro v hv
    have hv' := hW p hp v hv
    rw [Rw.getI_pull _ _ _ _ hv', Rw.getI_pull _ _ _ _ (hR.fwd _ hv').1, (hR.fwd _ hv').2]


theorem C13_rename_shr_W {P : Problem} {π ρ : Nat → Nat} (hR : Rw.Renaming P.shr.length π ρ) (hW : Rw.WF P) :
    (∀ σ', SolW (Rw.renameShr π ρ P) σ' → SolW P (Rw.pull P.shr.length π σ')) ∧
    (∀ σ, SolW P σ → SolW (Rw.renameShr π ρ P) (Rw.pull P.shr.length ρ σ)) :=
  ⟨fun _ h => Rw.rename_back_W hR hW h, fun _ h => Rw.rename_forth_W hR hW h⟩

end Nucs
