import NucsProofs.Engine.MPProofs
import NucsProofs.Engine.DfsTerm
import NucsProofs.Engine.Optimum
/-!
  C11, END TO END — the multiprocessing solver equals the sequential solver, for every interleaving.

  Composition of the three layers:
    * C12 (`splitProblem`): the root boxes of the sub-problems partition the root box of `P`;
    * C02 / C03 (`solveAll` / `optimize`) for every sub-problem `{ P with shr := part }`;
    * C11 (`mpRun`, NucsProofs/Engine/MPProofs.lean): the parent delivers exactly what the workers
      send, for every `msgs` with `MP.Interleaving parts.length W fin msgs`.

  Enumeration
    * `C11_end_to_end_solve`            worker `i`'s stream is what `solveAll` returns on sub-problem `i`
                                        ⇒ the parent ends normally and `yielded ~ L.map (reported P)` with
                                        `L.Nodup`, `Sol P ⊆ L ⊆ SolW P`  (the guarantee of `C02_enumeration`
                                        for the sequential solver on the unsplit `P`);
    * `C11_end_to_end_solve_sequential` under `NscGuarded P`: the sequential `solveAll P cfg' …` returns
                                        `sols` and `yielded ~ sols`  (any `cfg'`: strategy independent);
    * `C11_end_to_end_solve_bc`         bound consistency: all hypotheses on `P` and `cfg` only; the
                                        workers' runs are shown to return;
    * `C11_end_to_end_solve_of_partition`  the same for any partition of the root box.
  Optimisation
    * `C11_end_to_end_optimize`         worker `i`'s stream consists of accepted assignments of sub-problem
                                        `i` and its best element is the result of `optimize` there ⇒ the
                                        parent's incumbent satisfies the conclusion of `C03_optimum` for `P`
                                        (`none` ⇒ infeasible; no accepted assignment ⇒ `none`; else an accepted
                                        assignment optimal over all `Sol P`; with `NscGuarded`: `none` iff
                                        infeasible, and a solution);
    * `C11_end_to_end_optimize_sequential`, `C11_end_to_end_optimize_bc`, `C11_end_to_end_optimize_of_partition`.
  Inherited by every sub-problem from `P` (proved here): `ProbOk` (`ContractMono`), non-empty root box,
  `Dfs.HeurOk`, the height and fuel bounds.  Asked for every sub-problem: `ConsOk`, `Dfs.ConsKeeps`,
  `Dfs.ConsTerm` (they quantify over the states below the sub-problem's root; for bound consistency
  they follow from `ProbOk`/`WFP`/`Safe` of `P`, see the `_bc` theorems).
  The hypotheses are satisfiable: the examples at the end instantiate the `_bc` theorems on
  `c04Example` split in two, with the streams the model computes.
-/
namespace Nucs

/-! ### `Problem.split` partitions the root box

  NucsProofs/Engine/Split.lean (C12) cannot be imported together with NucsProofs/Engine/DfsTerm.lean:
  both environments declare `Nucs.inBox_set` (Split.lean and Propagators/MinMax.lean).  The part of
  Split.lean that is needed here is therefore repeated, verbatim, in the namespace `Nucs.E2E`
  (`E2E.inBox_set_iff` is Split.lean's `inBox_set`). -/
namespace E2E

/-- `Chain lo parts hi`: the first part starts at `lo`, every next part starts right after the
    previous one ends, the last part ends at `hi` (for `parts = []`: the range is empty) -/
def Chain : Int → List Dom → Int → Prop
  | lo, [], hi => lo = hi + 1
  | lo, p :: ps, hi => p.1 = lo ∧ Chain (p.2 + 1) ps hi

/-- a chain of non-empty parts spans a range `[lo, hi]` with `lo ≤ hi + 1` -/
theorem Chain.le : ∀ {parts : List Dom} {lo hi : Int}, Chain lo parts hi →
    (∀ p ∈ parts, p.1 ≤ p.2) → lo ≤ hi + 1
  | [], lo, hi, h, _ => by simp only [Chain] at h; omega
  | p :: ps, lo, hi, h, hne => by
    have h1 := Chain.le h.2 (fun x hx => hne x (List.mem_cons_of_mem _ hx))
    have h2 := hne p List.mem_cons_self
    have h3 := h.1
    omega

/-- every part of a chain of non-empty parts lies inside `[lo, hi]` -/
theorem Chain.sub : ∀ {parts : List Dom} {lo hi : Int}, Chain lo parts hi →
    (∀ p ∈ parts, p.1 ≤ p.2) → ∀ p ∈ parts, lo ≤ p.1 ∧ p.2 ≤ hi
  | [], _, _, _, _, p, hp => by simp at hp
  | a :: ps, lo, hi, h, hne, p, hp => by
    have hne' : ∀ x ∈ ps, x.1 ≤ x.2 := fun x hx => hne x (List.mem_cons_of_mem _ hx)
    have h1 := Chain.le h.2 hne'
    have h2 := hne a List.mem_cons_self
    have h3 := h.1
    rcases List.mem_cons.mp hp with rfl | hp
    · omega
    · have := Chain.sub h.2 hne' p hp
      omega

/-- the parts of a chain of non-empty parts cover exactly `[lo, hi]` -/
theorem Chain.cover : ∀ {parts : List Dom} {lo hi : Int}, Chain lo parts hi →
    (∀ p ∈ parts, p.1 ≤ p.2) → ∀ v : Int, (lo ≤ v ∧ v ≤ hi) ↔ ∃ p ∈ parts, p.1 ≤ v ∧ v ≤ p.2
  | [], lo, hi, h, _, v => by
    simp only [Chain] at h
    constructor
    · intro hv; omega
    · rintro ⟨p, hp, _⟩; simp at hp
  | a :: ps, lo, hi, h, hne, v => by
    have hne' : ∀ x ∈ ps, x.1 ≤ x.2 := fun x hx => hne x (List.mem_cons_of_mem _ hx)
    have h1 := Chain.le h.2 hne'
    have h2 := hne a List.mem_cons_self
    have h3 := h.1
    have ih := Chain.cover h.2 hne' v
    constructor
    · intro hv
      by_cases hva : v ≤ a.2
      · exact ⟨a, List.mem_cons_self, by omega, hva⟩
      · obtain ⟨p, hp, hpv⟩ := ih.mp (by omega)
        exact ⟨p, List.mem_cons_of_mem _ hp, hpv⟩
    · rintro ⟨p, hp, hpv⟩
      rcases List.mem_cons.mp hp with rfl | hp
      · omega
      · have := ih.mpr ⟨p, hp, hpv⟩
        omega

/-- the parts of a chain of non-empty parts are strictly ordered -/
theorem Chain.pairwise : ∀ {parts : List Dom} {lo hi : Int}, Chain lo parts hi →
    (∀ p ∈ parts, p.1 ≤ p.2) → List.Pairwise (fun p q : Dom => p.2 < q.1) parts
  | [], _, _, _, _ => List.Pairwise.nil
  | a :: ps, lo, hi, h, hne => by
    have hne' : ∀ x ∈ ps, x.1 ≤ x.2 := fun x hx => hne x (List.mem_cons_of_mem _ hx)
    refine List.Pairwise.cons ?_ (Chain.pairwise h.2 hne')
    intro q hq
    have := Chain.sub h.2 hne' q hq
    omega

/-! ### the loop of `Problem.split` -/

theorem splitGo_zero (q r idx m : Int) : splitBounds.go q r 0 idx m = [] := rfl

theorem splitGo_succ (q r : Int) (n : Nat) (idx m : Int) :
    splitBounds.go q r (n + 1) idx m =
      (m, m + q - (if idx < r then 0 else 1)) ::
        splitBounds.go q r n (idx + 1) (m + q - (if idx < r then 0 else 1) + 1) := rfl

theorem splitGo_length (q r : Int) : ∀ (n : Nat) (idx m : Int), (splitBounds.go q r n idx m).length = n
  | 0, _, _ => rfl
  | n + 1, idx, m => by rw [splitGo_succ, List.length_cons, splitGo_length q r n]

/-- the loop produces consecutive parts; it stops at `m + n·q + #{j ∈ [idx, idx+n) | j < r} - 1` -/
theorem splitGo_chain (q r : Int) : ∀ (n : Nat) (idx m : Int),
    Chain m (splitBounds.go q r n idx m) (m + n * q + (min (idx + n) r - min idx r) - 1)
  | 0, idx, m => by
    simp only [splitGo_zero, Chain]
    omega
  | n + 1, idx, m => by
    rw [splitGo_succ]
    refine ⟨rfl, ?_⟩
    have ih := splitGo_chain q r n (idx + 1) (m + q - (if idx < r then 0 else 1) + 1)
    have e : ((n + 1 : Nat) : Int) * q = (n : Int) * q + q := by
      rw [Int.natCast_succ, Int.add_mul, Int.one_mul]
    have e2 : m + q - (if idx < r then 0 else 1) + 1 + ↑n * q + (min (idx + 1 + ↑n) r - min (idx + 1) r) - 1
        = m + ((n + 1 : Nat) : Int) * q + (min (idx + ((n + 1 : Nat) : Int)) r - min idx r) - 1 := by
      rw [e]
      split <;> omega
    rw [← e2]
    exact ih

/-- every part has `q` or `q + 1` values -/
theorem splitGo_sizes (q r : Int) : ∀ (n : Nat) (idx m : Int),
    ∀ p ∈ splitBounds.go q r n idx m, p.2 - p.1 + 1 = q ∨ p.2 - p.1 + 1 = q + 1
  | 0, _, _, p, hp => by simp [splitGo_zero] at hp
  | n + 1, idx, m, p, hp => by
    rw [splitGo_succ] at hp
    rcases List.mem_cons.mp hp with rfl | hp
    · dsimp only
      split <;> omega
    · exact splitGo_sizes q r n _ _ p hp

/-- the effective number of parts -/
def splitNb (lo hi : Int) (k : Nat) : Int := max 1 (min (k : Int) (hi - lo + 1))

theorem splitNb_pos (lo hi : Int) (k : Nat) : 1 ≤ splitNb lo hi k := by unfold splitNb; omega

theorem splitBounds_eq (lo hi : Int) (k : Nat) :
    splitBounds lo hi k =
      splitBounds.go ((hi - lo + 1) / splitNb lo hi k) ((hi - lo + 1) % splitNb lo hi k)
        (splitNb lo hi k).toNat 0 lo := by
  have hk := splitNb_pos lo hi k
  unfold splitBounds
  simp only []
  rw [show max 1 (min (k : Int) (hi - lo + 1)) = splitNb lo hi k from rfl,
    pyDiv_pos _ _ (by omega), Int.fmod_eq_emod_of_nonneg _ (by omega)]


/-- C12.3: the parts are consecutive, from `lo` to `hi` — for every `lo hi k` -/
theorem splitBounds_chain (lo hi : Int) (k : Nat) : Chain lo (splitBounds lo hi k) hi := by
  have hk := splitNb_pos lo hi k
  rw [splitBounds_eq]
  have h := splitGo_chain ((hi - lo + 1) / splitNb lo hi k) ((hi - lo + 1) % splitNb lo hi k)
    (splitNb lo hi k).toNat 0 lo
  have h1 : (((splitNb lo hi k).toNat : Nat) : Int) = splitNb lo hi k := by omega
  have h2 := Int.emod_add_mul_ediv (hi - lo + 1) (splitNb lo hi k)
  have h3 := Int.emod_nonneg (hi - lo + 1) (b := splitNb lo hi k) (by omega)
  have h4 := Int.emod_lt_of_pos (hi - lo + 1) (b := splitNb lo hi k) (by omega)
  rw [h1] at h
  have e : lo + splitNb lo hi k * ((hi - lo + 1) / splitNb lo hi k) +
      (min (0 + splitNb lo hi k) ((hi - lo + 1) % splitNb lo hi k) - min 0 ((hi - lo + 1) % splitNb lo hi k)) - 1
      = hi := by omega
  rw [e] at h
  exact h

/-- the quotient is at least one: at most one part per value -/
theorem splitBounds_quot_pos (lo hi : Int) (k : Nat) (h : lo ≤ hi) :
    1 ≤ (hi - lo + 1) / splitNb lo hi k := by
  have hk := splitNb_pos lo hi k
  rw [Int.le_ediv_iff_mul_le (by omega)]
  unfold splitNb at *
  omega

/-- C12.4: every part has `⌊size / k'⌋` or `⌊size / k'⌋ + 1` values — for every `lo hi k` -/
theorem splitBounds_sizes (lo hi : Int) (k : Nat) :
    ∀ p ∈ splitBounds lo hi k,
      p.2 - p.1 + 1 = (hi - lo + 1) / splitNb lo hi k ∨ p.2 - p.1 + 1 = (hi - lo + 1) / splitNb lo hi k + 1 := by
  rw [splitBounds_eq]
  exact splitGo_sizes _ _ _ _ _

/-- C12.2: no part is empty -/
theorem splitBounds_nonempty (lo hi : Int) (k : Nat) (h : lo ≤ hi) :
    ∀ p ∈ splitBounds lo hi k, p.1 ≤ p.2 := by
  intro p hp
  have := splitBounds_sizes lo hi k p hp
  have := splitBounds_quot_pos lo hi k h
  omega

/-- an empty domain is not split: the single part is the domain itself -/
theorem splitBounds_of_lt (lo hi : Int) (k : Nat) (h : hi < lo) : splitBounds lo hi k = [(lo, hi)] := by
  have hk : splitNb lo hi k = 1 := by unfold splitNb; omega
  rw [splitBounds_eq, hk]
  simp only [Int.ediv_one, Int.emod_one]
  show splitBounds.go _ _ 1 0 lo = _
  rw [splitGo_succ, splitGo_zero]
  simp
  omega

/-- every part lies inside `[lo, hi]` — for every `lo hi k` -/
theorem splitBounds_sub (lo hi : Int) (k : Nat) : ∀ p ∈ splitBounds lo hi k, lo ≤ p.1 ∧ p.2 ≤ hi := by
  by_cases h : lo ≤ hi
  · exact Chain.sub (splitBounds_chain lo hi k) (splitBounds_nonempty lo hi k h)
  · rw [splitBounds_of_lt lo hi k (by omega)]
    intro p hp
    simp at hp
    subst hp
    simp

/-- C12.3: the parts cover exactly `[lo, hi]` — for every `lo hi k` -/
theorem splitBounds_cover (lo hi : Int) (k : Nat) (v : Int) :
    (lo ≤ v ∧ v ≤ hi) ↔ ∃ p ∈ splitBounds lo hi k, p.1 ≤ v ∧ v ≤ p.2 := by
  by_cases h : lo ≤ hi
  · exact Chain.cover (splitBounds_chain lo hi k) (splitBounds_nonempty lo hi k h) v
  · rw [splitBounds_of_lt lo hi k (by omega)]
    simp

/-- C12.3: the parts are strictly ordered (hence pairwise disjoint) — for every `lo hi k` -/
theorem splitBounds_pairwise (lo hi : Int) (k : Nat) :
    List.Pairwise (fun p q : Dom => p.2 < q.1) (splitBounds lo hi k) := by
  by_cases h : lo ≤ hi
  · exact Chain.pairwise (splitBounds_chain lo hi k) (splitBounds_nonempty lo hi k h)
  · rw [splitBounds_of_lt lo hi k (by omega)]
    simp

/-- `inBox` from components -/
theorem inBox_iff_get : ∀ {t : List Int} {B : Box},
    inBox t B ↔ t.length = B.length ∧ ∀ j, j < B.length → inDom (getI t j) (getDom B j)
  | [], [] => by simp [inBox]
  | [], _ :: _ => by simp [inBox]
  | _ :: _, [] => by simp [inBox]
  | x :: ts, d :: ds => by
    simp only [inBox, List.length_cons, Nat.add_right_cancel_iff]
    rw [inBox_iff_get (t := ts) (B := ds)]
    constructor
    · rintro ⟨h0, hl, h⟩
      refine ⟨hl, fun j hj => ?_⟩
      cases j with
      | zero => simpa [getI, getDom] using h0
      | succ j => simpa [getI, getDom] using h j (by omega)
    · rintro ⟨hl, h⟩
      refine ⟨by simpa [getI, getDom] using h 0 (by omega), hl, fun j hj => ?_⟩
      simpa [getI, getDom] using h (j + 1) (by omega)

/-- the tuples of a box with one domain replaced -/
theorem inBox_set_iff {t : List Int} {B : Box} {i : Nat} (hi : i < B.length) (d : Dom) :
    inBox t (B.set i d) ↔
      t.length = B.length ∧ (∀ j, j < B.length → j ≠ i → inDom (getI t j) (getDom B j)) ∧ inDom (getI t i) d := by
  rw [inBox_iff_get, List.length_set]
  constructor
  · rintro ⟨hl, h⟩
    refine ⟨hl, fun j hj hne => ?_, ?_⟩
    · have := h j hj
      rwa [getDom_set, if_neg (by omega)] at this
    · have := h i hi
      rwa [getDom_set, if_pos ⟨rfl, hi⟩] at this
  · rintro ⟨hl, h, hd⟩
    refine ⟨hl, fun j hj => ?_⟩
    rw [getDom_set]
    by_cases hji : i = j
    · subst hji; rw [if_pos ⟨rfl, hi⟩]; exact hd
    · rw [if_neg (by omega)]; exact h j hj (by omega)

/-- the shared-domain index of variable `v` -/
abbrev splitIdx (vars : List (Nat × Int)) (v : Nat) : Nat := (vars.getD v (0, 0)).1

theorem mem_splitProblem {shr : Box} {vars : List (Nat × Int)} {k v : Nat} {part : Box} :
    part ∈ splitProblem shr vars k v ↔
      ∃ p ∈ splitBounds (getDom shr (splitIdx vars v)).1 (getDom shr (splitIdx vars v)).2 k,
        part = shr.set (splitIdx vars v) p := by
  unfold splitProblem
  simp only [List.mem_map]
  constructor
  · rintro ⟨p, hp, rfl⟩; exact ⟨p, hp, rfl⟩
  · rintro ⟨p, hp, rfl⟩; exact ⟨p, hp, rfl⟩

/-- every sub-problem's root box is a sub-box of the problem's -/
theorem splitProblem_le (shr : Box) (vars : List (Nat × Int)) (k v : Nat) :
    ∀ part ∈ splitProblem shr vars k v, Box.le part shr := by
  intro part hp
  obtain ⟨p, hp', rfl⟩ := mem_splitProblem.mp hp
  have hsub := splitBounds_sub _ _ k p hp'
  apply Box.le_of_get List.length_set
  intro j hj
  rw [getDom_set]
  split
  · next h => rw [← h.1]; exact hsub
  · exact ⟨Int.le_refl _, Int.le_refl _⟩

/-- when the split domain is not empty, neither is any part's -/
theorem splitProblem_nonempty (shr : Box) (vars : List (Nat × Int)) (k v : Nat) (hne : shr.Nonempty) :
    ∀ part ∈ splitProblem shr vars k v, part.Nonempty := by
  intro part hp
  obtain ⟨p, hp', rfl⟩ := mem_splitProblem.mp hp
  apply Box.nonempty_of_get
  intro j hj
  rw [getDom_set]
  split
  · exact splitBounds_nonempty _ _ k (Box.nonempty_getDom hne _) p hp'
  · exact Box.nonempty_getDom hne j

/-- C12 (partition, existence): an assignment lies in the root box iff it lies in the root box of
    some sub-problem -/
theorem splitProblem_partition (shr : Box) (vars : List (Nat × Int)) (k v : Nat)
    (hdi : splitIdx vars v < shr.length) (σ : List Int) :
    inBox σ shr ↔ ∃ part ∈ splitProblem shr vars k v, inBox σ part := by
  constructor
  · intro h
    have hg := inBox_iff_get.mp h
    have hv : inDom (getI σ (splitIdx vars v)) (getDom shr (splitIdx vars v)) := hg.2 _ hdi
    obtain ⟨p, hp, hpv⟩ := (splitBounds_cover _ _ k _).mp hv
    refine ⟨shr.set (splitIdx vars v) p, mem_splitProblem.mpr ⟨p, hp, rfl⟩, ?_⟩
    rw [inBox_set_iff hdi]
    exact ⟨hg.1, fun j hj _ => hg.2 j hj, hpv⟩
  · rintro ⟨part, hp, h⟩
    exact inBox_of_le h (splitProblem_le shr vars k v part hp)

/-- C12 (partition, disjointness by position): two sub-problems at different positions of the
    returned list share no assignment (in particular no sub-problem is returned twice) -/
theorem splitProblem_disjoint (shr : Box) (vars : List (Nat × Int)) (k v : Nat)
    (hdi : splitIdx vars v < shr.length) :
    List.Pairwise (fun p q : Box => ∀ σ, ¬ (inBox σ p ∧ inBox σ q)) (splitProblem shr vars k v) := by
  unfold splitProblem
  rw [List.pairwise_map]
  refine List.Pairwise.imp ?_ (splitBounds_pairwise _ _ k)
  intro a b hab σ ⟨ha, hb⟩
  rw [inBox_set_iff hdi] at ha hb
  have h1 := ha.2.2
  have h2 := hb.2.2
  simp only [inDom] at h1 h2
  omega

/-- the sub-problems have as many shared domains as the problem -/
theorem splitProblem_part_length (shr : Box) (vars : List (Nat × Int)) (k v : Nat) :
    ∀ part ∈ splitProblem shr vars k v, part.length = shr.length := by
  intro part hp
  obtain ⟨p, _, rfl⟩ := mem_splitProblem.mp hp
  exact List.length_set

/-! ### partitions of the root box, and what a sub-problem inherits from the problem -/

/-- `parts` are non-empty sub-boxes of `shr`, pairwise disjoint (by position), covering `shr` -/
structure BoxPartition (shr : Box) (parts : List Box) : Prop where
  le : ∀ part ∈ parts, Box.le part shr
  nonempty : ∀ part ∈ parts, part.Nonempty
  cover : ∀ σ, inBox σ shr → ∃ part ∈ parts, inBox σ part
  disjoint : parts.Pairwise (fun p q : Box => ∀ σ, ¬ (inBox σ p ∧ inBox σ q))

/-- C12: `Problem.split` produces one -/
theorem splitProblem_boxPartition (shr : Box) (vars : List (Nat × Int)) (k v : Nat)
    (hdi : (vars.getD v (0, 0)).1 < shr.length) (hne : shr.Nonempty) :
    BoxPartition shr (splitProblem shr vars k v) where
  le := splitProblem_le shr vars k v
  nonempty := splitProblem_nonempty shr vars k v hne
  cover := fun σ h => (splitProblem_partition shr vars k v hdi σ).mp h
  disjoint := splitProblem_disjoint shr vars k v hdi

/-- the sub-problem on `part` (same variables, same constraints, root box replaced) -/
abbrev sub (P : Problem) (part : Box) : Problem := { P with shr := part }

theorem reported_sub (P : Problem) (part : Box) (σ : List Int) : reported (sub P part) σ = reported P σ := rfl

theorem probOk_sub {P : Problem} (hP : ProbOk P) {part : Box} (hle : Box.le part P.shr) : ProbOk (sub P part) where
  local_ := hP.local_
  contract := fun p hp => (hP.local_ p hp).mono p.params _ _ (hP.contract p hp) (views_le hle p.vars)

theorem heurOk_sub {P : Problem} {cfg : Config} (h : Dfs.HeurOk P cfg) {part : Box} (hle : Box.le part P.shr) :
    Dfs.HeurOk (sub P part) cfg where
  var := fun D hD => h.var D (Box.le_trans hD hle)
  dom := fun l d hl => h.dom l d (Box.le_trans hl hle)

theorem solW_of_sub {P : Problem} {part : Box} (hle : Box.le part P.shr) {σ : List Int} (h : SolW (sub P part) σ) :
    SolW P σ := ⟨inBox_of_le h.1 hle, h.2⟩

theorem sol_of_sub {P : Problem} {part : Box} (hle : Box.le part P.shr) {σ : List Int} (h : Sol (sub P part) σ) :
    Sol P σ := ⟨inBox_of_le h.1 hle, h.2⟩

/-- C12 for solutions, for any partition of the root box -/
theorem sol_iff_sub {P : Problem} {parts : List Box} (hpart : BoxPartition P.shr parts) (σ : List Int) :
    Sol P σ ↔ ∃ part ∈ parts, Sol (sub P part) σ := by
  constructor
  · rintro ⟨hb, hc⟩
    obtain ⟨part, hp, h⟩ := hpart.cover σ hb
    exact ⟨part, hp, h, hc⟩
  · rintro ⟨part, hp, h⟩
    exact sol_of_sub (hpart.le part hp) h

theorem getElem?_mem {α : Type} {l : List α} {i : Nat} {a : α} (h : l[i]? = some a) : a ∈ l :=
  List.mem_of_getElem? h

/-- two positions of a partition that share an assignment are the same position -/
theorem BoxPartition.index_unique {shr : Box} {parts : List Box} (hpart : BoxPartition shr parts)
    {i j : Nat} {p q : Box} (hi : parts[i]? = some p) (hj : parts[j]? = some q) {σ : List Int}
    (hp : inBox σ p) (hq : inBox σ q) : i = j := by
  obtain ⟨hi', rfl⟩ := List.getElem?_eq_some_iff.mp hi
  obtain ⟨hj', rfl⟩ := List.getElem?_eq_some_iff.mp hj
  have hpw := List.pairwise_iff_getElem.mp hpart.disjoint
  rcases Nat.lt_trichotomy i j with h | h | h
  · exact absurd ⟨hp, hq⟩ (hpw i j hi' hj' h σ)
  · exact h
  · exact absurd ⟨hq, hp⟩ (hpw j i hj' hi' h σ)

/-- gluing the workers' enumerations: if worker `i` sends the image of a duplicate-free list between
    `Sol` and `SolW` of the `i`-th sub-problem, all the workers together send the image of a
    duplicate-free list between `Sol` and `SolW` of the problem -/
theorem collect (P : Problem) (parts : List Box) (hpart : BoxPartition P.shr parts)
    (W : Nat → List (List Int × List Nat))
    (hW : ∀ i part, parts[i]? = some part → ∃ L : List (List Int), MP.sols W i = L.map (reported P) ∧ L.Nodup ∧
      (∀ σ ∈ L, SolW (sub P part) σ) ∧ (∀ σ, Sol (sub P part) σ → σ ∈ L)) :
    ∀ n, n ≤ parts.length → ∃ L : List (List Int), MP.allSols n W = L.map (reported P) ∧ L.Nodup ∧
      (∀ σ ∈ L, ∃ i part, i < n ∧ parts[i]? = some part ∧ SolW (sub P part) σ) ∧
      (∀ i part, i < n → parts[i]? = some part → ∀ σ, Sol (sub P part) σ → σ ∈ L)
  | 0, _ => ⟨[], by simp [MP.allSols], List.nodup_nil, by simp, by omega⟩
  | n + 1, hn => by
    obtain ⟨L, e, nd, hw, hc⟩ := collect P parts hpart W hW n (by omega)
    have hn' : parts[n]? = some parts[n] := List.getElem?_eq_getElem (by omega)
    obtain ⟨Ln, en, ndn, hwn, hcn⟩ := hW n parts[n] hn'
    refine ⟨L ++ Ln, ?_, ?_, ?_, ?_⟩
    · unfold MP.allSols at e ⊢
      rw [List.range_succ, List.map_append, List.flatten_append, e, List.map_append]
      simp [en]
    · rw [List.nodup_append]
      refine ⟨nd, ndn, ?_⟩
      intro a ha b hb hab
      subst hab
      obtain ⟨i, part, hi, hip, hs⟩ := hw a ha
      have := hpart.index_unique hip hn' hs.1 (hwn a hb).1
      omega
    · intro σ hσ
      rcases List.mem_append.mp hσ with h | h
      · obtain ⟨i, part, hi, hip, hs⟩ := hw σ h
        exact ⟨i, part, by omega, hip, hs⟩
      · exact ⟨n, parts[n], by omega, hn', hwn σ h⟩
    · intro i part hi hip σ hs
      by_cases hin : i = n
      · subst hin
        rw [hn'] at hip
        injection hip with hip
        subst hip
        exact List.mem_append.mpr (Or.inr (hcn σ hs))
      · exact List.mem_append.mpr (Or.inl (hc i part (by omega) hip σ hs))

end E2E

open MP

/-! ### C11 end to end: enumeration -/

/-- C11, END TO END (enumeration), for any partition of the root box into non-empty sub-boxes.
    See `C11_end_to_end_solve` for `Problem.split`. -/
theorem C11_end_to_end_solve_of_partition (P : Problem) (parts : List Box) (hpart : E2E.BoxPartition P.shr parts)
    (hP : ProbOk P) (cfg : Config)
    (hcons : ∀ part ∈ parts, ConsOk (E2E.sub P part) cfg)
    (hkeep : ∀ part ∈ parts, Dfs.ConsKeeps (E2E.sub P part) cfg)
    (hterm : ∀ part ∈ parts, Dfs.ConsTerm (E2E.sub P part) cfg)
    (hheur : Dfs.HeurOk P cfg) (hcost : CostOk cfg) (hH : width P.shr + 2 ≤ cfg.height)
    (fuel1 fuel limit : Nat) (h1 : 2 * Dfs.bsize P.shr ≤ fuel1) (h2 : 2 * Dfs.bsize P.shr ≤ fuel)
    (h3 : 2 * Dfs.bsize P.shr ≤ limit)
    (W : Nat → List (List Int × List Nat)) (fin : Nat → List Nat)
    (hW : ∀ i part, parts[i]? = some part → ∃ s',
      solveAll (E2E.sub P part) cfg fuel1 fuel limit (State.init (E2E.sub P part)) [] = .ok (MP.sols W i, s'))
    (msgs : List MPIn) (hint : Interleaving parts.length W fin msgs) :
    (mpRun none parts.length msgs).running = [] ∧ (mpRun none parts.length msgs).raised = false ∧
    ∃ L : List (List Int), List.Perm (mpRun none parts.length msgs).yielded (L.map (reported P)) ∧
      L.Nodup ∧ (∀ σ ∈ L, SolW P σ) ∧ (∀ σ, Sol P σ → σ ∈ L) := by
  obtain ⟨hr, hn, hperm⟩ := C11_solve hint
  refine ⟨hr, hn, ?_⟩
  have hW' : ∀ i part, parts[i]? = some part → ∃ L : List (List Int), MP.sols W i = L.map (reported P) ∧ L.Nodup ∧
      (∀ σ ∈ L, SolW (E2E.sub P part) σ) ∧ (∀ σ, Sol (E2E.sub P part) σ → σ ∈ L) := by
    intro i part hip
    have hmem := E2E.getElem?_mem hip
    have hle := hpart.le part hmem
    obtain ⟨sols, s', L, hrun, e, nd, hw, hc⟩ := C02_enumeration (E2E.sub P part) (E2E.probOk_sub hP hle)
      (hpart.nonempty part hmem) cfg (hcons part hmem) (hkeep part hmem) (hterm part hmem)
      (E2E.heurOk_sub hheur hle) hcost (by have := Dfs.width_le hle; show width part + 2 ≤ _; omega)
      fuel1 fuel limit (by have := Dfs.bsize_le hle; show 2 * Dfs.bsize part ≤ _; omega)
      (by have := Dfs.bsize_le hle; show 2 * Dfs.bsize part ≤ _; omega)
      (by have := Dfs.bsize_le hle; show 2 * Dfs.bsize part ≤ _; omega)
    obtain ⟨s'', hrun'⟩ := hW i part hip
    rw [hrun] at hrun'
    injection hrun' with hrun'
    injection hrun' with hs _
    exact ⟨L, by rw [← hs, e]; rfl, nd, hw, hc⟩
  obtain ⟨L, e, nd, hw, hc⟩ := E2E.collect P parts hpart W hW' parts.length (Nat.le_refl _)
  refine ⟨L, by rw [← e]; exact hperm, nd, ?_, ?_⟩
  · intro σ hσ
    obtain ⟨i, part, _, hip, hs⟩ := hw σ hσ
    exact E2E.solW_of_sub (hpart.le part (E2E.getElem?_mem hip)) hs
  · intro σ hσ
    obtain ⟨part, hp, hs⟩ := (E2E.sol_iff_sub hpart σ).mp hσ
    obtain ⟨i, hi, hip⟩ := List.mem_iff_getElem.mp hp
    exact hc i part hi (by rw [← hip]; exact List.getElem?_eq_getElem hi) σ hs

/-- C11, END TO END (enumeration) — THE MULTIPROCESSING SOLVER DELIVERS WHAT THE SEQUENTIAL SOLVER
    DELIVERS, FOR EVERY INTERLEAVING.
    `parts = Problem.split(k, v)` (C12), worker `i` runs the enumeration of the `i`-th sub-problem to
    exhaustion and sends every solution (with any statistics snapshot) and then its completion marker
    (`hW`; C02 for each sub-problem shows that the run does return).  Then for EVERY interleaving
    `msgs` of the workers' streams the parent ends normally and has yielded, up to the order, the
    image of a duplicate-free list `L` with `Sol P ⊆ L ⊆ SolW P` — the guarantee `C02_enumeration`
    gives for the sequential solver on the unsplit problem.
    The hypotheses on `P` (`ProbOk`, non-empty root box, `HeurOk`, `CostOk`, height, fuels) are
    inherited by the sub-problems; those on the consistency algorithm are asked for every
    sub-problem (for bound consistency they follow from `P`'s: `C11_end_to_end_solve_bc`). -/
theorem C11_end_to_end_solve (P : Problem) (k v : Nat) (hdi : (P.vars.getD v (0, 0)).1 < P.shr.length)
    (parts : List Box) (hparts : parts = splitProblem P.shr P.vars k v)
    (hP : ProbOk P) (hne : P.shr.Nonempty) (cfg : Config)
    (hcons : ∀ part ∈ parts, ConsOk { P with shr := part } cfg)
    (hkeep : ∀ part ∈ parts, Dfs.ConsKeeps { P with shr := part } cfg)
    (hterm : ∀ part ∈ parts, Dfs.ConsTerm { P with shr := part } cfg)
    (hheur : Dfs.HeurOk P cfg) (hcost : CostOk cfg) (hH : width P.shr + 2 ≤ cfg.height)
    (fuel1 fuel limit : Nat) (h1 : 2 * Dfs.bsize P.shr ≤ fuel1) (h2 : 2 * Dfs.bsize P.shr ≤ fuel)
    (h3 : 2 * Dfs.bsize P.shr ≤ limit)
    (W : Nat → List (List Int × List Nat)) (fin : Nat → List Nat)
    (hW : ∀ i part, parts[i]? = some part → ∃ s',
      solveAll { P with shr := part } cfg fuel1 fuel limit (State.init { P with shr := part }) [] =
        .ok (MP.sols W i, s'))
    (msgs : List MPIn) (hint : Interleaving parts.length W fin msgs) :
    (mpRun none parts.length msgs).running = [] ∧ (mpRun none parts.length msgs).raised = false ∧
    ∃ L : List (List Int), List.Perm (mpRun none parts.length msgs).yielded (L.map (reported P)) ∧
      L.Nodup ∧ (∀ σ ∈ L, SolW P σ) ∧ (∀ σ, Sol P σ → σ ∈ L) := by
  subst hparts
  exact C11_end_to_end_solve_of_partition P _ (E2E.splitProblem_boxPartition P.shr P.vars k v hdi hne) hP cfg
    hcons hkeep hterm hheur hcost hH fuel1 fuel limit h1 h2 h3 W fin hW msgs hint

/-- … and literally "equals the sequential solver": under the circuit-model discipline (`NscGuarded`,
    so that `Sol = SolW`), the sequential enumeration of the UNSPLIT problem — with any configuration
    `cfg'` within the hypotheses of C02, not necessarily the workers' — returns, and what the parent
    has yielded is a permutation of its result. -/
theorem C11_end_to_end_solve_sequential (P : Problem) (k v : Nat) (hdi : (P.vars.getD v (0, 0)).1 < P.shr.length)
    (parts : List Box) (hparts : parts = splitProblem P.shr P.vars k v)
    (hP : ProbOk P) (hne : P.shr.Nonempty) (hg : NscGuarded P) (cfg : Config)
    (hcons : ∀ part ∈ parts, ConsOk { P with shr := part } cfg)
    (hkeep : ∀ part ∈ parts, Dfs.ConsKeeps { P with shr := part } cfg)
    (hterm : ∀ part ∈ parts, Dfs.ConsTerm { P with shr := part } cfg)
    (hheur : Dfs.HeurOk P cfg) (hcost : CostOk cfg) (hH : width P.shr + 2 ≤ cfg.height)
    (fuel1 fuel limit : Nat) (h1 : 2 * Dfs.bsize P.shr ≤ fuel1) (h2 : 2 * Dfs.bsize P.shr ≤ fuel)
    (h3 : 2 * Dfs.bsize P.shr ≤ limit)
    (cfg' : Config) (hcons' : ConsOk P cfg') (hkeep' : Dfs.ConsKeeps P cfg') (hterm' : Dfs.ConsTerm P cfg')
    (hheur' : Dfs.HeurOk P cfg') (hcost' : CostOk cfg') (hH' : width P.shr + 2 ≤ cfg'.height)
    (fuel1' fuel' limit' : Nat) (h1' : 2 * Dfs.bsize P.shr ≤ fuel1') (h2' : 2 * Dfs.bsize P.shr ≤ fuel')
    (h3' : 2 * Dfs.bsize P.shr ≤ limit')
    (W : Nat → List (List Int × List Nat)) (fin : Nat → List Nat)
    (hW : ∀ i part, parts[i]? = some part → ∃ s',
      solveAll { P with shr := part } cfg fuel1 fuel limit (State.init { P with shr := part }) [] =
        .ok (MP.sols W i, s'))
    (msgs : List MPIn) (hint : Interleaving parts.length W fin msgs) :
    ∃ (sols : List (List Int)) (s' : State),
      solveAll P cfg' fuel1' fuel' limit' (State.init P) [] = .ok (sols, s') ∧
      List.Perm (mpRun none parts.length msgs).yielded sols := by
  obtain ⟨_, _, L, hperm, nd, hw, hc⟩ := C11_end_to_end_solve P k v hdi parts hparts hP hne cfg hcons hkeep hterm
    hheur hcost hH fuel1 fuel limit h1 h2 h3 W fin hW msgs hint
  obtain ⟨sols, s', L', hrun, e, nd', hS, _⟩ := C02_enumeration_guarded P hP hne hg cfg' hcons' hkeep' hterm' hheur'
    hcost' hH' fuel1' fuel' limit' h1' h2' h3'
  refine ⟨sols, s', hrun, ?_⟩
  have hLL : L.Perm L' := (List.perm_ext_iff_of_nodup nd nd').mpr (fun σ =>
    ⟨fun h => (hS σ).mpr (Sol_of_SolW hg (hw σ h)), fun h => hc σ ((hS σ).mp h)⟩)
  rw [e]
  exact hperm.trans (hLL.map _)

/-- C11 end to end for the shipped bound-consistency configuration: ALL the hypotheses are about the
    unsplit problem `P` and the configuration (those of `C02_enumeration_bc`).  The sequential
    enumeration of `P` returns `sols`; every worker's enumeration of its sub-problem returns; and if
    the workers send what their enumerations return, then for every interleaving the parent ends
    normally having yielded a permutation of `sols`, which is the image of a duplicate-free list of
    EXACTLY the solutions of `P`. -/
theorem C11_end_to_end_solve_bc (P : Problem) (k v : Nat) (hdi : (P.vars.getD v (0, 0)).1 < P.shr.length)
    (parts : List Box) (hparts : parts = splitProblem P.shr P.vars k v)
    (hP : ProbOk P) (hWF : WFP P) (hS : ∀ p ∈ P.props, Safe p.alg) (hne : P.shr.Nonempty) (hg : NscGuarded P)
    (cfg : Config) (hbc : cfg.cons = .bc) (hall : ∀ i, i < P.shr.length → i ∈ cfg.decision) (hcost : CostOk cfg)
    (hvtab : cfg.varH = .maxRegret → ∀ d u, (getDom P.shr d).1 ≤ u → u ≤ (getDom P.shr d).2 →
      ∃ c, costAt cfg.varCosts d u = some c ∧ c ≤ maxsize)
    (htab : cfg.domH = .minCost → ∀ d u, (getDom P.shr d).1 ≤ u → u ≤ (getDom P.shr d).2 →
      (costAt cfg.domCosts d u).isSome = true)
    (hH : width P.shr + 2 ≤ cfg.height)
    (fuel1 fuel limit : Nat) (h1 : 2 * Dfs.bsize P.shr ≤ fuel1) (h2 : 2 * Dfs.bsize P.shr ≤ fuel)
    (h3 : 2 * Dfs.bsize P.shr ≤ limit) :
    ∃ (sols : List (List Int)) (s' : State) (L : List (List Int)),
      solveAll P cfg fuel1 fuel limit (State.init P) [] = .ok (sols, s') ∧
      sols = L.map (reported P) ∧ L.Nodup ∧ (∀ σ, σ ∈ L ↔ Sol P σ) ∧
      (∀ (i : Nat) (part : Box), parts[i]? = some part → ∃ solsI sI,
        solveAll { P with shr := part } cfg fuel1 fuel limit (State.init { P with shr := part }) [] = .ok (solsI, sI)) ∧
      ∀ (W : Nat → List (List Int × List Nat)) (fin : Nat → List Nat),
        (∀ (i : Nat) (part : Box), parts[i]? = some part → ∃ sI,
          solveAll { P with shr := part } cfg fuel1 fuel limit (State.init { P with shr := part }) [] =
            .ok (MP.sols W i, sI)) →
        ∀ msgs, Interleaving parts.length W fin msgs →
          (mpRun none parts.length msgs).running = [] ∧ (mpRun none parts.length msgs).raised = false ∧
          List.Perm (mpRun none parts.length msgs).yielded sols := by
  have hle : ∀ part ∈ parts, Box.le part P.shr := by
    subst hparts; exact E2E.splitProblem_le P.shr P.vars k v
  have hPs : ∀ part ∈ parts, ProbOk (E2E.sub P part) := fun part hp => E2E.probOk_sub hP (hle part hp)
  have hWFs : ∀ part ∈ parts, WFP (E2E.sub P part) := by
    intro part hp p hpp x hx
    show x.1 < part.length
    rw [Box.le_length (hle part hp)]
    exact hWF p hpp x hx
  have hnes : ∀ part ∈ parts, part.Nonempty := by
    subst hparts; exact E2E.splitProblem_nonempty P.shr P.vars k v hne
  have hheur := Dfs.heurOk_allDecision' P cfg hall hvtab htab
  have hcons : ∀ part ∈ parts, ConsOk (E2E.sub P part) cfg := fun part hp => consOk_bc (hPs part hp) (hWFs part hp) cfg hbc
  have hkeep : ∀ part ∈ parts, Dfs.ConsKeeps (E2E.sub P part) cfg := fun part hp =>
    Dfs.consKeeps_bc (hPs part hp) (hWFs part hp) cfg hbc
  have hterm : ∀ part ∈ parts, Dfs.ConsTerm (E2E.sub P part) cfg := fun part hp =>
    Dfs.consTerm_bc (hPs part hp) (hWFs part hp) hS cfg hbc
  obtain ⟨sols, s', L, hrun, e, nd, hSol, _⟩ := C02_enumeration_bc P hP hWF hS hne hg cfg hbc hall hcost hvtab htab hH
    fuel1 fuel limit h1 h2 h3
  refine ⟨sols, s', L, hrun, e, nd, hSol, ?_, ?_⟩
  · intro i part hip
    have hmem := E2E.getElem?_mem hip
    obtain ⟨solsI, sI, _, h, _⟩ := C02_enumeration (E2E.sub P part) (hPs part hmem) (hnes part hmem) cfg
      (hcons part hmem) (hkeep part hmem) (hterm part hmem) (E2E.heurOk_sub hheur (hle part hmem)) hcost
      (by have := Dfs.width_le (hle part hmem); show width part + 2 ≤ _; omega)
      fuel1 fuel limit (by have := Dfs.bsize_le (hle part hmem); show 2 * Dfs.bsize part ≤ _; omega)
      (by have := Dfs.bsize_le (hle part hmem); show 2 * Dfs.bsize part ≤ _; omega)
      (by have := Dfs.bsize_le (hle part hmem); show 2 * Dfs.bsize part ≤ _; omega)
    exact ⟨solsI, sI, h⟩
  · intro W fin hW msgs hint
    obtain ⟨hr, hn, _⟩ := C11_solve hint
    obtain ⟨sols', s'', hrun', hperm⟩ := C11_end_to_end_solve_sequential P k v hdi parts hparts hP hne hg cfg
      hcons hkeep hterm hheur hcost hH fuel1 fuel limit h1 h2 h3
      cfg (consOk_bc hP hWF cfg hbc) (Dfs.consKeeps_bc hP hWF cfg hbc) (Dfs.consTerm_bc hP hWF hS cfg hbc) hheur hcost hH
      fuel1 fuel limit h1 h2 h3 W fin hW msgs hint
    rw [hrun] at hrun'
    injection hrun' with hrun'
    injection hrun' with hs _
    exact ⟨hr, hn, hs ▸ hperm⟩

/-! ### C11 end to end: optimisation -/

theorem E2E.better_trans {mn : Bool} {a b c : Int} (h1 : Dfs.better mn a b) (h2 : Dfs.better mn b c) :
    Dfs.better mn a c := by
  unfold Dfs.better at *
  cases mn <;> simp only [if_true, Bool.false_eq_true, if_false] at * <;> omega

theorem E2E.better_antisymm {mn : Bool} {a b : Int} (h1 : Dfs.better mn a b) (h2 : Dfs.better mn b a) : a = b := by
  unfold Dfs.better at *
  cases mn <;> simp only [if_true, Bool.false_eq_true, if_false] at * <;> omega

/-- C11, END TO END (optimisation), for any partition of the root box into non-empty sub-boxes.
    See `C11_end_to_end_optimize` for `Problem.split`. -/
theorem C11_end_to_end_optimize_of_partition (P : Problem) (parts : List Box) (hpart : E2E.BoxPartition P.shr parts)
    (hP : ProbOk P) (cfg : Config)
    (hcons : ∀ part ∈ parts, ConsOk (E2E.sub P part) cfg)
    (hkeep : ∀ part ∈ parts, Dfs.ConsKeeps (E2E.sub P part) cfg)
    (hterm : ∀ part ∈ parts, Dfs.ConsTerm (E2E.sub P part) cfg)
    (hheur : Dfs.HeurOk P cfg) (hcost : CostOk cfg) (hH : width P.shr + 2 ≤ cfg.height)
    (v : Nat) (hv : v < P.vars.length) (hdi : (P.vars.getD v (0, 0)).1 < P.shr.length) (mn : Bool)
    (fuel1 fuel : Nat) (h1 : 2 * Dfs.bsize P.shr ≤ fuel1)
    (h2 : Dfs.dsize (getDom P.shr (P.vars.getD v (0, 0)).1) < fuel)
    (W : Nat → List (List Int × List Nat)) (fin : Nat → List Nat)
    (hW : ∀ i part, parts[i]? = some part → ∃ r s',
      optimize (E2E.sub P part) cfg v mn fuel1 fuel (State.init (E2E.sub P part)) none = .ok (r, s') ∧
      (r = none → W i = []) ∧
      (∀ x, r = some x → x ∈ MP.sols W i ∧ ∀ y ∈ MP.sols W i, Dfs.better mn (getI x v) (getI y v)))
    (hWsol : ∀ i part, parts[i]? = some part → ∀ x ∈ MP.sols W i, ∃ σ, SolW (E2E.sub P part) σ ∧ x = reported P σ)
    (msgs : List MPIn) (hint : Interleaving parts.length W fin msgs) :
    (mpRun (some (v, mn)) parts.length msgs).running = [] ∧ (mpRun (some (v, mn)) parts.length msgs).raised = false ∧
    ((mpRun (some (v, mn)) parts.length msgs).best = none → ¬ ∃ σ, Sol P σ) ∧
    ((¬ ∃ σ, SolW P σ) → (mpRun (some (v, mn)) parts.length msgs).best = none) ∧
    (∀ b, (mpRun (some (v, mn)) parts.length msgs).best = some b →
      (∃ σ, SolW P σ ∧ b = reported P σ) ∧
      ∀ τ, Sol P τ → Dfs.better mn (getI b v) (getI (reported P τ) v)) := by
  obtain ⟨hr, hn, _, _⟩ := C11_done_at_end (some (v, mn)) hint
  -- what C03 says about worker `i`
  have hC03 : ∀ i part, parts[i]? = some part →
      ((∃ τ, Sol (E2E.sub P part) τ) → ∃ x, x ∈ MP.sols W i ∧
        (∀ y ∈ MP.sols W i, Dfs.better mn (getI x v) (getI y v)) ∧
        ∀ τ, Sol (E2E.sub P part) τ → Dfs.better mn (getI x v) (getI (reported P τ) v)) ∧
      ((¬ ∃ σ, SolW (E2E.sub P part) σ) → W i = []) := by
    intro i part hip
    have hmem := E2E.getElem?_mem hip
    have hle := hpart.le part hmem
    have hlen := Box.le_length hle
    have hdom := Box.le_get (P.vars.getD v (0, 0)).1 hle hdi
    obtain ⟨r, s', hrun, hsome, hnone, hnone'⟩ := C03_optimum (E2E.sub P part) (E2E.probOk_sub hP hle)
      (hpart.nonempty part hmem) cfg (hcons part hmem) (hkeep part hmem) (hterm part hmem)
      (E2E.heurOk_sub hheur hle) hcost (by have := Dfs.width_le hle; show width part + 2 ≤ _; omega)
      v hv (by show (P.vars.getD v (0, 0)).1 < part.length; omega) mn
      fuel1 fuel (by have := Dfs.bsize_le hle; show 2 * Dfs.bsize part ≤ _; omega)
      (by
        show Dfs.dsize (getDom part (P.vars.getD v (0, 0)).1) < fuel
        unfold Dfs.dsize at h2 ⊢; omega)
    obtain ⟨r', s'', hrun', hWn, hWs⟩ := hW i part hip
    rw [hrun] at hrun'
    injection hrun' with hrun'
    injection hrun' with hrr _
    subst hrr
    refine ⟨?_, fun hno => hWn (hnone' hno)⟩
    rintro ⟨τ0, hτ0⟩
    cases r with
    | none => exact absurd ⟨τ0, hτ0⟩ (hnone rfl)
    | some x =>
      obtain ⟨hx1, hx2⟩ := hWs x rfl
      exact ⟨x, hx1, hx2, fun τ hτ => (hsome x rfl).2 τ hτ⟩
  refine ⟨hr, hn, ?_, ?_, ?_⟩
  · intro hb
    rintro ⟨σ, hσ⟩
    have hall := (C11_optimize_none_iff v mn hint).mp hb
    obtain ⟨part, hp, hs⟩ := (E2E.sol_iff_sub hpart σ).mp hσ
    obtain ⟨i, hi, hip⟩ := List.mem_iff_getElem.mp hp
    obtain ⟨x, hx, _⟩ := (hC03 i part (by rw [← hip]; exact List.getElem?_eq_getElem hi)).1 ⟨σ, hs⟩
    simp [MP.sols, hall i hi] at hx
  · intro hno
    apply (C11_optimize_none_iff v mn hint).mpr
    intro i hi
    have hip : parts[i]? = some parts[i] := List.getElem?_eq_getElem hi
    apply (hC03 i _ hip).2
    rintro ⟨σ, hσ⟩
    exact hno ⟨σ, E2E.solW_of_sub (hpart.le _ (E2E.getElem?_mem hip)) hσ⟩
  · intro b hb
    obtain ⟨⟨i, hi, hbi⟩, hopt⟩ := C11_optimize_best v mn hint b hb
    constructor
    · have hip : parts[i]? = some parts[i] := List.getElem?_eq_getElem hi
      obtain ⟨σ, hσ, e⟩ := hWsol i _ hip b hbi
      exact ⟨σ, E2E.solW_of_sub (hpart.le _ (E2E.getElem?_mem hip)) hσ, e⟩
    · intro τ hτ
      obtain ⟨part, hp, hs⟩ := (E2E.sol_iff_sub hpart τ).mp hτ
      obtain ⟨j, hj, hjp⟩ := List.mem_iff_getElem.mp hp
      obtain ⟨x, hx, _, hxτ⟩ := (hC03 j part (by rw [← hjp]; exact List.getElem?_eq_getElem hj)).1 ⟨τ, hs⟩
      have hbx : Dfs.better mn (getI b v) (getI x v) := hopt j hj x hx
      exact E2E.better_trans hbx (hxτ τ hs)

/-- C11, END TO END (optimisation) — THE MULTIPROCESSING `minimize`/`maximize` RETURNS WHAT THE
    SEQUENTIAL ONE RETURNS, FOR EVERY INTERLEAVING.
    `parts = Problem.split(k, v')`; worker `i` runs `optimize` on the `i`-th sub-problem and sends
    improving solutions: its stream `W i` consists of accepted assignments of its sub-problem (`hWsol`)
    and its best element is the result `r` of `optimize` (`hW`: `r = none` ⇒ nothing is sent;
    `r = some x` ⇒ `x` was sent and is at least as good as everything sent).  The model's `optimize`
    returns only the last incumbent, so the stream is specified by these two properties rather than
    computed; `W i = [x]`, resp. `[]`, satisfies them.
    Then for EVERY interleaving the parent ends normally and its incumbent `best` satisfies exactly what
    `C03_optimum` states for the sequential call on the unsplit problem:
      `best = none` ⇒ `P` has no solution;  no accepted assignment ⇒ `best = none`;
      `best = some b` ⇒ `b` is an accepted assignment of `P` whose objective is ≤ (min) / ≥ (max) that
      of EVERY solution of `P`.
    Under `NscGuarded P` (`Sol = SolW`): `best = none ↔ P` has no solution, and `b` is a solution. -/
theorem C11_end_to_end_optimize (P : Problem) (k v' : Nat) (hdi' : (P.vars.getD v' (0, 0)).1 < P.shr.length)
    (parts : List Box) (hparts : parts = splitProblem P.shr P.vars k v')
    (hP : ProbOk P) (hne : P.shr.Nonempty) (cfg : Config)
    (hcons : ∀ part ∈ parts, ConsOk { P with shr := part } cfg)
    (hkeep : ∀ part ∈ parts, Dfs.ConsKeeps { P with shr := part } cfg)
    (hterm : ∀ part ∈ parts, Dfs.ConsTerm { P with shr := part } cfg)
    (hheur : Dfs.HeurOk P cfg) (hcost : CostOk cfg) (hH : width P.shr + 2 ≤ cfg.height)
    (v : Nat) (hv : v < P.vars.length) (hdi : (P.vars.getD v (0, 0)).1 < P.shr.length) (mn : Bool)
    (fuel1 fuel : Nat) (h1 : 2 * Dfs.bsize P.shr ≤ fuel1)
    (h2 : Dfs.dsize (getDom P.shr (P.vars.getD v (0, 0)).1) < fuel)
    (W : Nat → List (List Int × List Nat)) (fin : Nat → List Nat)
    (hW : ∀ i part, parts[i]? = some part → ∃ r s',
      optimize { P with shr := part } cfg v mn fuel1 fuel (State.init { P with shr := part }) none = .ok (r, s') ∧
      (r = none → W i = []) ∧
      (∀ x, r = some x → x ∈ MP.sols W i ∧ ∀ y ∈ MP.sols W i, Dfs.better mn (getI x v) (getI y v)))
    (hWsol : ∀ i part, parts[i]? = some part → ∀ x ∈ MP.sols W i,
      ∃ σ, SolW { P with shr := part } σ ∧ x = reported P σ)
    (msgs : List MPIn) (hint : Interleaving parts.length W fin msgs) :
    (mpRun (some (v, mn)) parts.length msgs).running = [] ∧ (mpRun (some (v, mn)) parts.length msgs).raised = false ∧
    ((mpRun (some (v, mn)) parts.length msgs).best = none → ¬ ∃ σ, Sol P σ) ∧
    ((¬ ∃ σ, SolW P σ) → (mpRun (some (v, mn)) parts.length msgs).best = none) ∧
    (∀ b, (mpRun (some (v, mn)) parts.length msgs).best = some b →
      (∃ σ, SolW P σ ∧ b = reported P σ) ∧
      ∀ τ, Sol P τ → Dfs.better mn (getI b v) (getI (reported P τ) v)) ∧
    (NscGuarded P →
      ((mpRun (some (v, mn)) parts.length msgs).best = none ↔ ¬ ∃ σ, Sol P σ) ∧
      ∀ b, (mpRun (some (v, mn)) parts.length msgs).best = some b → ∃ σ, Sol P σ ∧ b = reported P σ) := by
  subst hparts
  obtain ⟨a, b, c, d, e⟩ := C11_end_to_end_optimize_of_partition P _
    (E2E.splitProblem_boxPartition P.shr P.vars k v' hdi' hne) hP cfg
    hcons hkeep hterm hheur hcost hH v hv hdi mn fuel1 fuel h1 h2 W fin hW hWsol msgs hint
  refine ⟨a, b, c, d, e, fun hg => ⟨⟨c, fun hno => d (fun ⟨σ, hσ⟩ => hno ⟨σ, Sol_of_SolW hg hσ⟩)⟩, fun x hx => ?_⟩⟩
  obtain ⟨⟨σ, hσ, e'⟩, _⟩ := e x hx
  exact ⟨σ, Sol_of_SolW hg hσ, e'⟩

/-- … and literally "equals the sequential solver": under `NscGuarded`, the sequential `optimize` on the
    UNSPLIT problem — with any configuration `cfg'` within the hypotheses of C03 — returns `r`; the
    parent's incumbent is `none` exactly when `r` is, and otherwise both have the same objective value. -/
theorem C11_end_to_end_optimize_sequential (P : Problem) (k v' : Nat) (hdi' : (P.vars.getD v' (0, 0)).1 < P.shr.length)
    (parts : List Box) (hparts : parts = splitProblem P.shr P.vars k v')
    (hP : ProbOk P) (hne : P.shr.Nonempty) (hg : NscGuarded P) (cfg : Config)
    (hcons : ∀ part ∈ parts, ConsOk { P with shr := part } cfg)
    (hkeep : ∀ part ∈ parts, Dfs.ConsKeeps { P with shr := part } cfg)
    (hterm : ∀ part ∈ parts, Dfs.ConsTerm { P with shr := part } cfg)
    (hheur : Dfs.HeurOk P cfg) (hcost : CostOk cfg) (hH : width P.shr + 2 ≤ cfg.height)
    (v : Nat) (hv : v < P.vars.length) (hdi : (P.vars.getD v (0, 0)).1 < P.shr.length) (mn : Bool)
    (fuel1 fuel : Nat) (h1 : 2 * Dfs.bsize P.shr ≤ fuel1)
    (h2 : Dfs.dsize (getDom P.shr (P.vars.getD v (0, 0)).1) < fuel)
    (cfg' : Config) (hcons' : ConsOk P cfg') (hkeep' : Dfs.ConsKeeps P cfg') (hterm' : Dfs.ConsTerm P cfg')
    (hheur' : Dfs.HeurOk P cfg') (hcost' : CostOk cfg') (hH' : width P.shr + 2 ≤ cfg'.height)
    (fuel1' fuel' : Nat) (h1' : 2 * Dfs.bsize P.shr ≤ fuel1')
    (h2' : Dfs.dsize (getDom P.shr (P.vars.getD v (0, 0)).1) < fuel')
    (W : Nat → List (List Int × List Nat)) (fin : Nat → List Nat)
    (hW : ∀ i part, parts[i]? = some part → ∃ r s',
      optimize { P with shr := part } cfg v mn fuel1 fuel (State.init { P with shr := part }) none = .ok (r, s') ∧
      (r = none → W i = []) ∧
      (∀ x, r = some x → x ∈ MP.sols W i ∧ ∀ y ∈ MP.sols W i, Dfs.better mn (getI x v) (getI y v)))
    (hWsol : ∀ i part, parts[i]? = some part → ∀ x ∈ MP.sols W i,
      ∃ σ, SolW { P with shr := part } σ ∧ x = reported P σ)
    (msgs : List MPIn) (hint : Interleaving parts.length W fin msgs) :
    ∃ (r : Option (List Int)) (s' : State),
      optimize P cfg' v mn fuel1' fuel' (State.init P) none = .ok (r, s') ∧
      ((mpRun (some (v, mn)) parts.length msgs).best = none ↔ r = none) ∧
      ∀ b x, (mpRun (some (v, mn)) parts.length msgs).best = some b → r = some x → getI b v = getI x v := by
  obtain ⟨_, _, _, _, hbest, hguard⟩ := C11_end_to_end_optimize P k v' hdi' parts hparts hP hne cfg hcons hkeep hterm
    hheur hcost hH v hv hdi mn fuel1 fuel h1 h2 W fin hW hWsol msgs hint
  obtain ⟨hiff, hbsol⟩ := hguard hg
  obtain ⟨r, s', hrun, hriff, hrsome⟩ := C03_optimum_guarded P hP hne hg cfg' hcons' hkeep' hterm' hheur' hcost' hH'
    v hv hdi mn fuel1' fuel' h1' h2'
  refine ⟨r, s', hrun, hiff.trans hriff.symm, ?_⟩
  intro b x hb hx
  obtain ⟨σ, hσ, eb⟩ := hbsol b hb
  obtain ⟨⟨τ, hτ, ex⟩, hxopt⟩ := hrsome x hx
  have hbx := (hbest b hb).2 τ hτ
  have hxb := hxopt σ hσ
  rw [← ex] at hbx
  rw [← eb] at hxb
  exact E2E.better_antisymm hbx hxb

/-- C11 end to end (optimisation) for the shipped bound-consistency configuration: ALL the hypotheses
    are about the unsplit problem `P` and the configuration (those of `C03_optimum_bc`).  The
    sequential call on `P` returns `r`; every worker's call on its sub-problem returns; and if the
    workers' streams are as in `C11_end_to_end_optimize`, then for every interleaving the parent ends
    normally with an incumbent that is `none` exactly when `r` is (exactly when `P` is infeasible), and
    otherwise is a solution of `P`, optimal among all solutions, with the objective value of `r`. -/
theorem C11_end_to_end_optimize_bc (P : Problem) (k v' : Nat) (hdi' : (P.vars.getD v' (0, 0)).1 < P.shr.length)
    (parts : List Box) (hparts : parts = splitProblem P.shr P.vars k v')
    (hP : ProbOk P) (hWF : WFP P) (hS : ∀ p ∈ P.props, Safe p.alg) (hne : P.shr.Nonempty) (hg : NscGuarded P)
    (cfg : Config) (hbc : cfg.cons = .bc) (hall : ∀ i, i < P.shr.length → i ∈ cfg.decision) (hcost : CostOk cfg)
    (hvtab : cfg.varH = .maxRegret → ∀ d u, (getDom P.shr d).1 ≤ u → u ≤ (getDom P.shr d).2 →
      ∃ c, costAt cfg.varCosts d u = some c ∧ c ≤ maxsize)
    (htab : cfg.domH = .minCost → ∀ d u, (getDom P.shr d).1 ≤ u → u ≤ (getDom P.shr d).2 →
      (costAt cfg.domCosts d u).isSome = true)
    (hH : width P.shr + 2 ≤ cfg.height)
    (v : Nat) (hv : v < P.vars.length) (hdi : (P.vars.getD v (0, 0)).1 < P.shr.length) (mn : Bool)
    (fuel1 fuel : Nat) (h1 : 2 * Dfs.bsize P.shr ≤ fuel1)
    (h2 : Dfs.dsize (getDom P.shr (P.vars.getD v (0, 0)).1) < fuel) :
    ∃ (r : Option (List Int)) (s' : State),
      optimize P cfg v mn fuel1 fuel (State.init P) none = .ok (r, s') ∧
      (r = none ↔ ¬ ∃ σ, Sol P σ) ∧
      (∀ (i : Nat) (part : Box), parts[i]? = some part → ∃ rI sI,
        optimize { P with shr := part } cfg v mn fuel1 fuel (State.init { P with shr := part }) none = .ok (rI, sI)) ∧
      ∀ (W : Nat → List (List Int × List Nat)) (fin : Nat → List Nat),
        (∀ (i : Nat) (part : Box), parts[i]? = some part → ∃ rI sI,
          optimize { P with shr := part } cfg v mn fuel1 fuel (State.init { P with shr := part }) none = .ok (rI, sI) ∧
          (rI = none → W i = []) ∧
          (∀ x, rI = some x → x ∈ MP.sols W i ∧ ∀ y ∈ MP.sols W i, Dfs.better mn (getI x v) (getI y v))) →
        (∀ (i : Nat) (part : Box), parts[i]? = some part → ∀ x ∈ MP.sols W i,
          ∃ σ, SolW { P with shr := part } σ ∧ x = reported P σ) →
        ∀ msgs, Interleaving parts.length W fin msgs →
          (mpRun (some (v, mn)) parts.length msgs).running = [] ∧
          (mpRun (some (v, mn)) parts.length msgs).raised = false ∧
          ((mpRun (some (v, mn)) parts.length msgs).best = none ↔ r = none) ∧
          ∀ b, (mpRun (some (v, mn)) parts.length msgs).best = some b →
            (∃ σ, Sol P σ ∧ b = reported P σ) ∧
            (∀ τ, Sol P τ → Dfs.better mn (getI b v) (getI (reported P τ) v)) ∧
            ∀ x, r = some x → getI b v = getI x v := by
  have hle : ∀ part ∈ parts, Box.le part P.shr := by
    subst hparts; exact E2E.splitProblem_le P.shr P.vars k v'
  have hPs : ∀ part ∈ parts, ProbOk (E2E.sub P part) := fun part hp => E2E.probOk_sub hP (hle part hp)
  have hWFs : ∀ part ∈ parts, WFP (E2E.sub P part) := by
    intro part hp p hpp x hx
    show x.1 < part.length
    rw [Box.le_length (hle part hp)]
    exact hWF p hpp x hx
  have hnes : ∀ part ∈ parts, part.Nonempty := by
    subst hparts; exact E2E.splitProblem_nonempty P.shr P.vars k v' hne
  have hheur := Dfs.heurOk_allDecision' P cfg hall hvtab htab
  have hcons : ∀ part ∈ parts, ConsOk (E2E.sub P part) cfg := fun part hp => consOk_bc (hPs part hp) (hWFs part hp) cfg hbc
  have hkeep : ∀ part ∈ parts, Dfs.ConsKeeps (E2E.sub P part) cfg := fun part hp =>
    Dfs.consKeeps_bc (hPs part hp) (hWFs part hp) cfg hbc
  have hterm : ∀ part ∈ parts, Dfs.ConsTerm (E2E.sub P part) cfg := fun part hp =>
    Dfs.consTerm_bc (hPs part hp) (hWFs part hp) hS cfg hbc
  obtain ⟨r, s', hrun, hriff, _⟩ := C03_optimum_bc P hP hWF hS hne hg cfg hbc hall hcost hvtab htab hH v hv hdi mn
    fuel1 fuel h1 h2
  refine ⟨r, s', hrun, hriff, ?_, ?_⟩
  · intro i part hip
    have hmem := E2E.getElem?_mem hip
    have hl := hle part hmem
    have hlen := Box.le_length hl
    have hdom := Box.le_get (P.vars.getD v (0, 0)).1 hl hdi
    obtain ⟨rI, sI, h, _⟩ := C03_optimum (E2E.sub P part) (hPs part hmem) (hnes part hmem) cfg
      (hcons part hmem) (hkeep part hmem) (hterm part hmem) (E2E.heurOk_sub hheur hl) hcost
      (by have := Dfs.width_le hl; show width part + 2 ≤ _; omega)
      v hv (by show (P.vars.getD v (0, 0)).1 < part.length; omega) mn
      fuel1 fuel (by have := Dfs.bsize_le hl; show 2 * Dfs.bsize part ≤ _; omega)
      (by
        show Dfs.dsize (getDom part (P.vars.getD v (0, 0)).1) < fuel
        unfold Dfs.dsize at h2 ⊢; omega)
    exact ⟨rI, sI, h⟩
  · intro W fin hW hWsol msgs hint
    obtain ⟨hr, hn, _, _, hbest, hguard⟩ := C11_end_to_end_optimize P k v' hdi' parts hparts hP hne cfg hcons hkeep hterm
      hheur hcost hH v hv hdi mn fuel1 fuel h1 h2 W fin hW hWsol msgs hint
    obtain ⟨r', s'', hrun', hnone, hval⟩ := C11_end_to_end_optimize_sequential P k v' hdi' parts hparts hP hne hg cfg
      hcons hkeep hterm hheur hcost hH v hv hdi mn fuel1 fuel h1 h2
      cfg (consOk_bc hP hWF cfg hbc) (Dfs.consKeeps_bc hP hWF cfg hbc) (Dfs.consTerm_bc hP hWF hS cfg hbc) hheur hcost hH
      fuel1 fuel h1 h2 W fin hW hWsol msgs hint
    rw [hrun] at hrun'
    injection hrun' with hrun'
    injection hrun' with hrr _
    subst hrr
    exact ⟨hr, hn, hnone, fun b hb => ⟨(hguard hg).2 b hb, (hbest b hb).2, fun x hx => hval b x hb hx⟩⟩

/-! ### non-vacuity -/

theorem E2E.ok_of_map_fst {α : Type} {x : Except EngErr (α × State)} {a : α}
    (h : x.map (·.1) = .ok a) : ∃ s, x = .ok (a, s) := by
  cases x with
  | error e => simp [Except.map] at h
  | ok p =>
    obtain ⟨a', s⟩ := p
    simp only [Except.map, Except.ok.injEq] at h
    subst h
    exact ⟨s, rfl⟩

/-- `c04Example` (x, y ∈ [0,5], x + y ≤ 4, x ≤ y) split in two on `y`: the sub-problems have
    y ∈ [0,2] and y ∈ [3,5] -/
example : splitProblem c04Example.shr c04Example.vars 2 1 = [[(0, 5), (0, 2)], [(0, 5), (3, 5)]] := by decide

/-- what the two workers enumerate (six and three solutions) -/
def E2E.exW : Nat → List (List Int × List Nat) := fun i =>
  if i = 0 then [([0, 0], []), ([0, 1], [1]), ([0, 2], [2]), ([1, 1], [3]), ([1, 2], [4]), ([2, 2], [5])]
  else [([0, 3], []), ([0, 4], [1]), ([1, 3], [2])]

/-- all the hypotheses of `C11_end_to_end_solve_bc` hold for `c04Example` split in two on `y`
    (2·|root| = 72), and the workers' streams `E2E.exW` are what the model's enumeration of the two
    sub-problems returns: so EVERY interleaving of the two streams makes the parent yield a
    permutation of the nine solutions the sequential solver returns -/
example (fin : Nat → List Nat) (msgs : List MPIn) (hint : Interleaving 2 E2E.exW fin msgs) :
    (mpRun none 2 msgs).running = [] ∧ (mpRun none 2 msgs).raised = false ∧
    List.Perm (mpRun none 2 msgs).yielded
      [[0, 0], [0, 1], [0, 2], [0, 3], [0, 4], [1, 1], [1, 2], [1, 3], [2, 2]] := by
  obtain ⟨sols, s', L, hrun, _, _, _, _, hmp⟩ := C11_end_to_end_solve_bc c04Example 2 1 (by decide)
    [[(0, 5), (0, 2)], [(0, 5), (3, 5)]] (by decide)
    c04Example_ok.1 c04Example_ok.2.1 c04Example_ok.2.2.1
    (by simp [c04Example, Box.Nonempty])
    (by intro p hp ha; simp [c04Example] at hp; rcases hp with rfl | rfl <;> cases ha)
    { decision := [0, 1] } rfl
    (by intro i hi; simp [c04Example] at hi; simp; omega) (by intro h; cases h) (by intro h; cases h) (by intro h; cases h)
    (by decide) 72 72 72 (by decide) (by decide) (by decide)
  have hseq : (solveAll c04Example { decision := [0, 1] } 72 72 72 (State.init c04Example) []).map (·.1) =
      .ok [[0, 0], [0, 1], [0, 2], [0, 3], [0, 4], [1, 1], [1, 2], [1, 3], [2, 2]] := by rfl
  rw [hrun] at hseq
  simp only [Except.map, Except.ok.injEq] at hseq
  subst hseq
  refine hmp E2E.exW fin ?_ msgs hint
  intro i part hip
  have hi : i = 0 ∨ i = 1 := by
    have : i < 2 := by
      have := (List.getElem?_eq_some_iff.mp hip).1
      simpa using this
    omega
  rcases hi with rfl | rfl
  · simp only [List.getElem?_cons_zero, Option.some.injEq] at hip
    subst hip
    exact E2E.ok_of_map_fst (by rfl)
  · simp only [List.getElem?_cons_succ, List.getElem?_cons_zero, Option.some.injEq] at hip
    subst hip
    exact E2E.ok_of_map_fst (by rfl)

/-- … one such interleaving, run: worker 1 finishes before worker 0 has sent its third solution -/
example : (mpRun none 2 [.msg 0 (some [0, 0]) [], .msg 1 (some [0, 3]) [], .msg 0 (some [0, 1]) [1],
    .msg 1 (some [0, 4]) [1], .msg 1 (some [1, 3]) [2], .msg 1 none [9], .msg 0 (some [0, 2]) [2],
    .msg 0 (some [1, 1]) [3], .msg 0 (some [1, 2]) [4], .msg 0 (some [2, 2]) [5], .msg 0 none [9]]).yielded =
    [[2, 2], [1, 2], [1, 1], [0, 2], [1, 3], [0, 4], [0, 1], [0, 3], [0, 0]] := by decide

/-- the improving solutions the two workers send when maximising x: (0,0), (1,1), (2,2) and (0,3), (1,3) -/
def E2E.exWopt : Nat → List (List Int × List Nat) := fun i =>
  if i = 0 then [([0, 0], []), ([1, 1], [1]), ([2, 2], [2])] else [([0, 3], []), ([1, 3], [1])]

/-- all the hypotheses of `C11_end_to_end_optimize_bc` hold for `c04Example` split in two on `y`,
    maximising `x` (|root objective domain| = 6 < 7), with the streams `E2E.exWopt`: for EVERY
    interleaving the parent ends with an optimal solution, of value `x = 2` -/
example (fin : Nat → List Nat) (msgs : List MPIn) (hint : Interleaving 2 E2E.exWopt fin msgs) :
    (mpRun (some (0, false)) 2 msgs).running = [] ∧ (mpRun (some (0, false)) 2 msgs).raised = false ∧
    ∃ b, (mpRun (some (0, false)) 2 msgs).best = some b ∧ getI b 0 = 2 ∧
      (∃ σ, Sol c04Example σ ∧ b = reported c04Example σ) ∧
      ∀ τ, Sol c04Example τ → getI (reported c04Example τ) 0 ≤ getI b 0 := by
  obtain ⟨r, s', hrun, _, _, hmp⟩ := C11_end_to_end_optimize_bc c04Example 2 1 (by decide)
    [[(0, 5), (0, 2)], [(0, 5), (3, 5)]] (by decide)
    c04Example_ok.1 c04Example_ok.2.1 c04Example_ok.2.2.1
    (by simp [c04Example, Box.Nonempty])
    (by intro p hp ha; simp [c04Example] at hp; rcases hp with rfl | rfl <;> cases ha)
    { decision := [0, 1] } rfl
    (by intro i hi; simp [c04Example] at hi; simp; omega) (by intro h; cases h) (by intro h; cases h) (by intro h; cases h)
    (by decide) 0 (by decide) (by decide) false 72 7 (by decide) (by decide)
  have hseq : (optimize c04Example { decision := [0, 1] } 0 false 72 7 (State.init c04Example) none).map (·.1) =
      .ok (some [2, 2]) := by rfl
  rw [hrun] at hseq
  simp only [Except.map, Except.ok.injEq] at hseq
  subst hseq
  have hidx : ∀ {i : Nat} {part : Box}, [[((0 : Int), (5 : Int)), (0, 2)], [(0, 5), (3, 5)]][i]? = some part →
      (i = 0 ∧ part = [(0, 5), (0, 2)]) ∨ (i = 1 ∧ part = [(0, 5), (3, 5)]) := by
    intro i part hip
    have : i < 2 := by
      have := (List.getElem?_eq_some_iff.mp hip).1
      simpa using this
    have hi : i = 0 ∨ i = 1 := by omega
    rcases hi with rfl | rfl
    · simp only [List.getElem?_cons_zero, Option.some.injEq] at hip
      exact Or.inl ⟨rfl, hip.symm⟩
    · simp only [List.getElem?_cons_succ, List.getElem?_cons_zero, Option.some.injEq] at hip
      exact Or.inr ⟨rfl, hip.symm⟩
  have key := hmp E2E.exWopt fin ?_ ?_ msgs hint
  · obtain ⟨hr, hn, hnone, hb⟩ := key
    cases hbest : (mpRun (some (0, false)) 2 msgs).best with
    | none => exact absurd (hnone.mp hbest) (by simp)
    | some b =>
      obtain ⟨hsol, hopt, hval⟩ := hb b hbest
      refine ⟨hr, hn, b, rfl, by rw [hval _ rfl]; rfl, hsol, fun τ hτ => ?_⟩
      exact (Dfs.better_max _ _).mp (hopt τ hτ)
  · intro i part hip
    rcases hidx hip with ⟨rfl, rfl⟩ | ⟨rfl, rfl⟩
    · obtain ⟨s, hs⟩ := E2E.ok_of_map_fst (x := optimize { c04Example with shr := [(0, 5), (0, 2)] }
        { decision := [0, 1] } 0 false 72 7 (State.init { c04Example with shr := [(0, 5), (0, 2)] }) none)
        (a := some [2, 2]) (by rfl)
      refine ⟨_, s, hs, by simp, ?_⟩
      intro x hx
      injection hx with hx
      subst hx
      refine ⟨by simp [MP.sols, E2E.exWopt], fun y hy => ?_⟩
      simp [MP.sols, E2E.exWopt] at hy
      rcases hy with rfl | rfl | rfl <;> simp [Dfs.better, getI]
    · obtain ⟨s, hs⟩ := E2E.ok_of_map_fst (x := optimize { c04Example with shr := [(0, 5), (3, 5)] }
        { decision := [0, 1] } 0 false 72 7 (State.init { c04Example with shr := [(0, 5), (3, 5)] }) none)
        (a := some [1, 3]) (by rfl)
      refine ⟨_, s, hs, by simp, ?_⟩
      intro x hx
      injection hx with hx
      subst hx
      refine ⟨by simp [MP.sols, E2E.exWopt], fun y hy => ?_⟩
      simp [MP.sols, E2E.exWopt] at hy
      rcases hy with rfl | rfl <;> simp [Dfs.better, getI]
  · intro i part hip x hx
    have hsolW : ∀ (part : Box) (a b : Int), inBox [a, b] part → a + b ≤ 4 → a ≤ b →
        ∃ σ, SolW { c04Example with shr := part } σ ∧ [a, b] = reported c04Example σ := by
      intro part a b hin h1 h2
      refine ⟨[a, b], ⟨hin, ?_⟩, by simp [reported, valuesOf, c04Example, getI]⟩
      intro p hp
      simp only [c04Example, List.mem_cons, List.mem_nil_iff, or_false] at hp
      rcases hp with rfl | rfl
      · simp [relW, rel, valuesOf, getI, dot]; omega
      · simp [relW, rel, valuesOf, getI, tFront, tBack]; omega
    rcases hidx hip with ⟨rfl, rfl⟩ | ⟨rfl, rfl⟩
    · simp [MP.sols, E2E.exWopt] at hx
      rcases hx with rfl | rfl | rfl <;> exact hsolW _ _ _ (by simp [inBox, inDom]) (by decide) (by decide)
    · simp [MP.sols, E2E.exWopt] at hx
      rcases hx with rfl | rfl <;> exact hsolW _ _ _ (by simp [inBox, inDom]) (by decide) (by decide)

end Nucs
