import NucsProofs.Engine.SearchInv
/-!
  C01 on the model: every vector returned by `solveOne` / yielded by `solveAll` / returned by
  `optimize` is a solution (`SolW`; `Sol` under the circuit-model discipline `NscGuarded`).
  Proved for the plain bound-consistency configuration (`cfg.cons = .bc`); see C10 for shaving.
-/
namespace Nucs

/-! ### variable heuristics only select unbound domains -/

theorem firstNotInstantiated_unbound (D : Box) : ∀ (dec : List Nat) (d : Nat),
    firstNotInstantiated D dec = some d → (getDom D d).1 < (getDom D d).2
  | [], _, h => by simp [firstNotInstantiated] at h
  | x :: xs, d, h => by
    simp only [firstNotInstantiated] at h
    split at h
    · injection h with h; subst h; assumption
    · exact firstNotInstantiated_unbound D xs d h

theorem smallestDomain_unbound (D : Box) : ∀ (dec : List Nat) (best : Option (Nat × Int)) (d : Nat),
    (∀ b, best = some b → (getDom D b.1).1 < (getDom D b.1).2) →
    smallestDomain D dec best = some d → (getDom D d).1 < (getDom D d).2
  | [], best, d, hb, h => by
    simp only [smallestDomain] at h
    cases best with
    | none => simp at h
    | some b => simp at h; subst h; exact hb b rfl
  | x :: xs, best, d, hb, h => by
    simp only [smallestDomain] at h
    split at h
    · rename_i hc
      simp only [Bool.and_eq_true, decide_eq_true_eq] at hc
      exact smallestDomain_unbound D xs _ d (fun b hb' => by injection hb' with hb'; subst hb'; simp only; omega) h
    · exact smallestDomain_unbound D xs best d hb h

theorem greatestDomain_unbound (D : Box) : ∀ (dec : List Nat) (maxSize : Int) (best : Option Nat) (d : Nat),
    0 ≤ maxSize → (∀ b, best = some b → (getDom D b).1 < (getDom D b).2) →
    greatestDomain D dec maxSize best = some d → (getDom D d).1 < (getDom D d).2
  | [], _, best, d, _, hb, h => by simp only [greatestDomain] at h; exact hb d h
  | x :: xs, maxSize, best, d, hm, hb, h => by
    simp only [greatestDomain] at h
    split at h
    · rename_i hc
      exact greatestDomain_unbound D xs _ _ d (by omega) (fun b hb' => by injection hb' with hb'; subst hb'; omega) h
    · exact greatestDomain_unbound D xs maxSize best d hm hb h

theorem maxRegret_unbound (costs : List (List Int)) (D : Box) : ∀ (dec : List Nat) (maxReg : Int) (best : Option Nat) (d : Nat),
    (∀ b, best = some b → (getDom D b).1 < (getDom D b).2) →
    maxRegret costs D dec maxReg best = some (some d) → (getDom D d).1 < (getDom D d).2
  | [], _, best, d, hb, h => by simp only [maxRegret] at h; injection h with h; exact hb d h
  | x :: xs, maxReg, best, d, hb, h => by
    simp only [maxRegret] at h
    split at h
    · rename_i hc
      split at h
      · cases h
      · split at h
        · exact maxRegret_unbound costs D xs _ _ d (fun b hb' => by injection hb' with hb'; subst hb'; omega) h
        · exact maxRegret_unbound costs D xs maxReg best d hb h
    · exact maxRegret_unbound costs D xs maxReg best d hb h

theorem runVarHeur_unbound (h : VarHeur) (costs : List (List Int)) (dec : List Nat) (D : Box) (d : Nat)
    (hr : runVarHeur h costs dec D = some (some d)) : (getDom D d).1 < (getDom D d).2 := by
  cases h <;> simp only [runVarHeur] at hr
  · injection hr with hr; exact firstNotInstantiated_unbound D dec d hr
  · injection hr with hr; exact smallestDomain_unbound D dec none d (fun _ h => by cases h) hr
  · injection hr with hr; exact greatestDomain_unbound D dec 0 none d (by omega) (fun _ h => by cases h) hr
  · exact maxRegret_unbound costs D dec (-1) none d (fun _ h => by cases h) hr

/-- an unbound domain is a real one (the default domain `(0,0)` is not unbound) -/
theorem lt_length_of_unbound (D : Box) (d : Nat) (h : (getDom D d).1 < (getDom D d).2) : d < D.length := by
  by_cases hd : d < D.length
  · exact hd
  · rw [getDom_of_ge D d (by omega)] at h; simp at h

/-! ### a solved state is a solution -/

/-- the assignment read off instantiated domains -/
def assignOf (D : Box) : List Int := D.map (·.1)

theorem getI_assignOf (D : Box) (i : Nat) : getI (assignOf D) i = (getDom D i).1 := by
  unfold getI assignOf getDom
  by_cases h : i < D.length
  · simp [List.getD, h]
  · simp [List.getD, List.getElem?_eq_none (Nat.le_of_not_lt h)]

theorem getSolution_eq (P : Problem) (D : Box) : getSolution P D = reported P (assignOf D) := by
  unfold getSolution reported valuesOf
  apply List.map_congr_left
  intro v _
  rw [getI_assignOf]

theorem isGround_getDom {D : Box} (h : D.isGround = true) (i : Nat) : (getDom D i).1 = (getDom D i).2 := by
  by_cases hi : i < D.length
  · have hm := getDom_mem D i hi
    have := List.all_eq_true.mp h _ hm
    simpa [Dom.isGround] using this
  · rw [getDom_of_ge D i (by omega)]

theorem inBox_assignOf {D : Box} (h : D.isGround = true) : ∀ (E : Box), (∀ d ∈ E, d.1 = d.2) → inBox (assignOf E) E
  | [], _ => trivial
  | e :: es, he => ⟨⟨Int.le_refl _, by have := he e (by simp); show e.1 ≤ e.2; omega⟩, inBox_assignOf h es (fun d hd => he d (by simp [hd]))⟩

theorem views_ground {D : Box} (h : D.isGround = true) (vars : List (Nat × Int)) :
    views D vars = pointBox (valuesOf vars (assignOf D)) := by
  unfold views pointBox valuesOf
  rw [List.map_map]
  apply List.map_congr_left
  intro v _
  simp only [Function.comp, Dom.shift, getI_assignOf, isGround_getDom h v.1]

theorem isGround_pointBox (t : List Int) : Box.isGround (pointBox t) = true := by
  simp [Box.isGround, pointBox, Dom.isGround]

/-- BOUND + empty queue + invariant ⇒ the current assignment satisfies every posted constraint -/
theorem solW_of_bound {P : Problem} (hP : ProbOk P) {s : State} (hI : Inv P s) (hfix : AllFix P s)
    (hg : s.top.doms.isGround = true) : SolW P (assignOf s.top.doms) := by
  refine ⟨?_, ?_⟩
  · have h1 : inBox (assignOf s.top.doms) s.top.doms :=
      inBox_assignOf hg s.top.doms (fun d hd => by
        have := List.all_eq_true.mp hg d hd
        simpa [Dom.isGround] using this)
    exact inBox_of_le h1 hI.sub
  · intro p hp
    obtain ⟨q, hq, rfl⟩ := List.getElem_of_mem hp
    have hpq : P.prop q = P.props[q] := by
      unfold Problem.prop; simp [List.getD, List.getElem?_eq_getElem hq]
    rw [← hpq]
    have hloc := hP.local_ _ (P.prop_mem q hq)
    have hc := contract_at hP hI.sub q hq
    have hv := views_ground hg (P.prop q).vars
    cases hen : getB s.top.ne q with
    | true =>
      have hgood := hfix q hq hen _ (Box.le_refl _) hI.nonempty (fun d => quiet_refl _ _)
      unfold good at hgood
      split at hgood
      · -- no_sub_cycle: weak form, on an instantiated view box
        rw [hv] at hgood
        obtain ⟨st, B, hrun, hst⟩ := hgood (isGround_pointBox _)
        rw [← hv] at hrun
        have hs := (hloc.sound _ _ _ _ hc (views_nonempty hI.nonempty _) hrun).1 hst
        rw [hv] at hs
        have hB : B = pointBox (valuesOf (P.prop q).vars (assignOf s.top.doms)) := eq_pointBox_of_le hs.1 hs.2.1
        exact hloc.ground _ _ _ _ _ hc (views_nonempty hI.nonempty _) hrun hst hB
      · obtain ⟨st, hrun, hst⟩ := hgood
        exact hloc.ground _ _ _ _ _ hc (views_nonempty hI.nonempty _) hrun hst hv
    | false =>
      apply relW_of_rel
      apply hI.ent q hq hen
      rw [hv]
      exact inBox_pointBox_self _

end Nucs

namespace Nucs

/-- the documented contract of the `min_cost` cost table: strictly positive costs -/
def CostOk (cfg : Config) : Prop :=
  cfg.domH = .minCost → ∀ d v c, costAt cfg.domCosts d v = some c → 0 < c

theorem runDomHeur_ok (hh : DomHeur) (costs : List (List Int)) (l : Level) (d : Nat) (hd : d < l.doms.length)
    (h : (getDom l.doms d).1 < (getDom l.doms d).2) (b : Branch) (hb : runDomHeur hh costs l d = some b)
    (hpos : hh = .minCost → ∀ d v c, costAt costs d v = some c → 0 < c) : BranchOk l d b := by
  cases hh <;> simp only [runDomHeur] at hb
  · injection hb with hb; subst hb; exact minValue_ok l d hd h
  · injection hb with hb; subst hb; exact maxValue_ok l d hd h
  · injection hb with hb; subst hb; exact splitLow_ok l d hd h
  · injection hb with hb; subst hb; exact midValue_ok l d hd h
  · exact minCost_ok costs l d hd h b hb (fun c hc => hpos rfl d _ c hc)

theorem Inv_stats {P : Problem} {s : State} (h : Inv P s) (x : Stats) : Inv P { s with stats := x } :=
  ⟨h.lenT, h.lenN, h.sub, h.nonempty, h.fix, h.ent⟩

/-- one `bound_consistency_algorithm` call from a state satisfying the invariant -/
theorem bcPass_ok {P : Problem} (hP : ProbOk P) (hW : WFP P) {s s' : State} {st : BcStatus} (hI : Inv P s)
    (h : bcPass P s = .ok (st, s')) : PassOk P s s' st := by
  have r := bcLoopG_inv pickProp_ok hP hW _ none _ st s' (Inv_stats hI _) h
  exact ⟨r.below, r.lenT, r.inv, r.empty, r.le, r.bound, r.unbound⟩

/-- what the search loop needs from the configured consistency algorithm -/
structure ConsOk (P : Problem) (cfg : Config) : Prop where
  pass : ∀ (s s' : State) (st : BcStatus), Pre P s → consPass P cfg s = .ok (st, s') →
    s'.below = s.below ∧ s'.trig.length = P.props.length ∧
    (st ≠ .inconsistent → Inv P s' ∧ AllFix P s' ∧ Box.le s'.top.doms s.top.doms) ∧
    (st = .bound → s'.top.doms.isGround = true) ∧ (st = .unbound → s'.top.doms.isGround = false)

/-- plain bound consistency provides it -/
theorem consOk_bc {P : Problem} (hP : ProbOk P) (hW : WFP P) (cfg : Config) (hbc : cfg.cons = .bc) : ConsOk P cfg := by
  constructor
  intro s s' st hpre h
  have hcp : consPass P cfg s = bcPass P s := by simp [consPass, hbc]
  rw [hcp] at h
  have pr := bcPass_ok hP hW hpre.inv h
  exact ⟨pr.below, pr.lenT, fun hst => ⟨pr.inv hst, AllFix_of_pass pr hst, pr.le hst⟩, pr.bound, pr.unbound⟩

/-- SOLVE_ONE: the invariants survive, and a returned vector is a solution — for any consistency
    algorithm satisfying `ConsOk` -/
theorem solveOne_sound' {P : Problem} (hP : ProbOk P) (cfg : Config) (hcons : ConsOk P cfg) (hcost : CostOk cfg) :
    ∀ (fuel : Nat) (s : State) (r : Option (List Int)) (s' : State), Pre P s →
      solveOne P cfg fuel s = .ok (r, s') →
      Post P s' ∧ ∀ sol, r = some sol → ∃ σ, SolW P σ ∧ sol = reported P σ
  | 0, _, _, _, _, h => by simp [solveOne] at h
  | fuel + 1, s, r, s', hpre, h => by
    simp only [solveOne] at h
    split at h
    · cases h
    · cases hpass : consPass P cfg s with
      | error e => rw [hpass] at h; simp at h
      | ok res =>
        obtain ⟨st, s1⟩ := res
        rw [hpass] at h
        obtain ⟨hbelow, hlenT, hinv, hbound, _⟩ := hcons.pass s s1 st hpre hpass
        have hstack1 : StackOk P s1.below := by rw [hbelow]; exact hpre.stack
        cases st with
        | bound =>
          simp only at h
          injection h with h; injection h with h1 h2; subst h1; subst h2
          refine ⟨⟨hlenT, hstack1⟩, fun sol hsol => ?_⟩
          injection hsol with hsol; subst hsol
          have hi := hinv (by decide)
          exact ⟨assignOf s1.top.doms, solW_of_bound hP hi.1 hi.2.1 (hbound rfl), getSolution_eq P _⟩
        | unbound =>
          simp only at h
          have hi := hinv (by decide)
          split at h
          · cases h
          · cases hvh : runVarHeur cfg.varH cfg.varCosts cfg.decision s1.top.doms with
            | none => rw [hvh] at h; simp at h
            | some od =>
              rw [hvh] at h
              cases od with
              | none => simp at h
              | some d =>
                simp only at h
                have hub := runVarHeur_unbound _ _ _ _ d hvh
                have hdl := lt_length_of_unbound _ d hub
                cases hdh : runDomHeur cfg.domH cfg.domCosts s1.top d with
                | none => rw [hdh] at h; simp at h
                | some b =>
                  rw [hdh] at h
                  simp only at h
                  have hbok := runDomHeur_ok cfg.domH cfg.domCosts s1.top d hdl hub b hdh hcost
                  have hpre3 := push_pre hi.1 hi.2.1 hstack1 hdl hbok
                    { (s1.push b).stats with choice := (s1.push b).stats.choice + 1,
                                             depth := max (s1.push b).stats.depth (s1.push b).below.length }
                  exact solveOne_sound' hP cfg hcons hcost fuel _ r s' hpre3 h
        | inconsistent =>
          simp only at h
          cases hbt : backtrack P s1 with
          | none =>
            rw [hbt] at h
            injection h with h; injection h with h1 h2; subst h1; subst h2
            exact ⟨⟨hlenT, hstack1⟩, fun sol hsol => by cases hsol⟩
          | some s2 =>
            rw [hbt] at h
            simp only at h
            exact solveOne_sound' hP cfg hcons hcost fuel s2 r s' (backtrack_pre ⟨hlenT, hstack1⟩ hbt) h

/-- SOLVE_ONE (plain bound consistency) -/
theorem solveOne_sound {P : Problem} (hP : ProbOk P) (hW : WFP P) (cfg : Config) (hbc : cfg.cons = .bc) (hcost : CostOk cfg)
    (fuel : Nat) (s : State) (r : Option (List Int)) (s' : State) (hpre : Pre P s)
    (h : solveOne P cfg fuel s = .ok (r, s')) :
    Post P s' ∧ ∀ sol, r = some sol → ∃ σ, SolW P σ ∧ sol = reported P σ :=
  solveOne_sound' hP cfg (consOk_bc hP hW cfg hbc) hcost fuel s r s' hpre h

/-- the `solve()` generator: the invariants survive and every yielded vector is a solution -/
theorem solveAll_sound' {P : Problem} (hP : ProbOk P) (cfg : Config) (hcons : ConsOk P cfg) (hcost : CostOk cfg)
    (fuel1 : Nat) :
    ∀ (fuel limit : Nat) (s : State) (acc sols : List (List Int)) (s' : State), Pre P s →
      (∀ x ∈ acc, ∃ σ, SolW P σ ∧ x = reported P σ) →
      solveAll P cfg fuel1 fuel limit s acc = .ok (sols, s') →
      ∀ x ∈ sols, ∃ σ, SolW P σ ∧ x = reported P σ
  | 0, _, _, _, _, _, _, _, h => by simp [solveAll] at h
  | fuel + 1, 0, s, acc, sols, s', _, hacc, h => by
    simp only [solveAll] at h
    injection h with h; injection h with h1 _; subst h1
    intro x hx; exact hacc x (by simpa using hx)
  | fuel + 1, limit + 1, s, acc, sols, s', hpre, hacc, h => by
    simp only [solveAll] at h
    cases h1 : solveOne P cfg fuel1 s with
    | error e => rw [h1] at h; simp at h
    | ok res =>
      obtain ⟨r, s1⟩ := res
      rw [h1] at h
      have hs := solveOne_sound' hP cfg hcons hcost fuel1 s r s1 hpre h1
      cases r with
      | none =>
        simp only at h
        injection h with h; injection h with h2 _; subst h2
        intro x hx; exact hacc x (by simpa using hx)
      | some sol =>
        simp only at h
        have hsol := hs.2 sol rfl
        have hacc' : ∀ x ∈ sol :: acc, ∃ σ, SolW P σ ∧ x = reported P σ := by
          intro x hx
          rcases List.mem_cons.mp hx with rfl | hx
          · exact hsol
          · exact hacc x hx
        split at h
        · injection h with h; injection h with h2 _; subst h2
          intro x hx; exact hacc' x (by have := (List.mem_reverse.mp hx); exact this)
        · cases hbt : backtrack P s1 with
          | none =>
            rw [hbt] at h
            injection h with h; injection h with h2 _; subst h2
            intro x hx; exact hacc' x (List.mem_reverse.mp hx)
          | some s2 =>
            rw [hbt] at h
            exact solveAll_sound' hP cfg hcons hcost fuel1 fuel limit s2 _ sols s' (backtrack_pre hs.1 hbt) hacc' h

/-- the root state satisfies the precondition of the search -/
theorem Pre_init (P : Problem) (hne : P.shr.Nonempty) (stats : Stats) : Pre P (State.init P stats) := by
  have h := Inv_init P hne
  exact ⟨⟨h.lenT, h.lenN, h.sub, h.nonempty, h.fix, h.ent⟩, fun _ hl => by simp [State.init] at hl⟩

end Nucs

namespace Nucs

theorem getI_reported (P : Problem) (σ : List Int) (v : Nat) (hv : v < P.vars.length) :
    getI (reported P σ) v = getI σ (P.vars.getD v (0, 0)).1 + (P.vars.getD v (0, 0)).2 := by
  simp [getI, reported, valuesOf, List.getD, hv]

/-- restart of the optimisation: reset, tighten the objective past the incumbent; when the
    tightened objective domain is not empty the search precondition holds again -/
theorem Pre_resetTighten {P : Problem} (s : State) (v : Nat) (hv : v < P.vars.length) (minimize : Bool)
    (σ : List Int) (hσ : inBox σ P.shr)
    (hne : (getDom (resetTighten P s v (getI (reported P σ) v) minimize).top.doms (P.vars.getD v (0, 0)).1).1 ≤
           (getDom (resetTighten P s v (getI (reported P σ) v) minimize).top.doms (P.vars.getD v (0, 0)).1).2) :
    Pre P (resetTighten P s v (getI (reported P σ) v) minimize) := by
  have hroot : P.shr.Nonempty := nonempty_of_inBox hσ
  rw [getI_reported P σ v hv] at hne ⊢
  rcases hvar : P.vars.getD v (0, 0) with ⟨di, off⟩
  rw [hvar] at hne
  simp only at hne ⊢
  have hdoms : (resetTighten P s v (getI σ di + off) minimize).top.doms =
      P.shr.set di (if minimize then ((getDom P.shr di).1, getI σ di + off - 1 - off) else (getI σ di + off + 1 - off, (getDom P.shr di).2)) := by
    simp only [resetTighten, hvar, State.init, Level.setDom]
  have hne' : (resetTighten P s v (getI σ di + off) minimize).top.ne = List.replicate P.props.length true := by
    simp only [resetTighten, hvar, State.init, Level.setDom]
  have htr : (resetTighten P s v (getI σ di + off) minimize).trig = List.replicate P.props.length true := by
    simp only [resetTighten, hvar, State.init]
  have hbel : (resetTighten P s v (getI σ di + off) minimize).below = [] := by
    simp only [resetTighten, hvar, State.init]
  by_cases hdi : di < P.shr.length
  · have hσd := inBox_get di hσ hdi
    rw [hdoms, getDom_set] at hne
    simp only [hdi, and_self, if_true] at hne
    have hsub : Box.le (P.shr.set di (if minimize then ((getDom P.shr di).1, getI σ di + off - 1 - off)
        else (getI σ di + off + 1 - off, (getDom P.shr di).2))) P.shr := by
      apply views_set_le
      split <;> simp only <;> omega
    refine ⟨⟨by rw [htr]; simp, by rw [hne']; simp, by rw [hdoms]; exact hsub, ?_, ?_, ?_⟩, by rw [hbel]; intro _ h; cases h⟩
    · rw [hdoms]
      apply Box.nonempty_of_get
      intro k _
      rw [getDom_set]
      split
      · exact hne
      · exact Box.nonempty_getDom hroot k
    · intro q hq _
      left; rw [htr]; exact getB_replicate_true _ _ hq
    · intro q hq hdis
      rw [hne', getB_replicate_true _ _ hq] at hdis; cases hdis
  · -- the objective's shared domain does not exist: the tightened "domain" is the default one
    have hset : P.shr.set di (if minimize then ((getDom P.shr di).1, getI σ di + off - 1 - off)
        else (getI σ di + off + 1 - off, (getDom P.shr di).2)) = P.shr := by
      apply List.set_eq_of_length_le; omega
    rw [hset] at hdoms
    refine ⟨⟨by rw [htr]; simp, by rw [hne']; simp, by rw [hdoms]; exact Box.le_refl _, by rw [hdoms]; exact hroot, ?_, ?_⟩,
      by rw [hbel]; intro _ h; cases h⟩
    · intro q hq _
      left; rw [htr]; exact getB_replicate_true _ _ hq
    · intro q hq hdis
      rw [hne', getB_replicate_true _ _ hq] at hdis; cases hdis

/-- OPTIMIZE: the returned vector, if any, is a solution -/
theorem optimize_sound' {P : Problem} (hP : ProbOk P) (cfg : Config) (hcons : ConsOk P cfg) (hcost : CostOk cfg)
    (v : Nat) (hv : v < P.vars.length) (minimize : Bool) (fuel1 : Nat) :
    ∀ (fuel : Nat) (s : State) (best r : Option (List Int)) (s' : State), Pre P s →
      (∀ x, best = some x → ∃ σ, SolW P σ ∧ x = reported P σ) →
      optimize P cfg v minimize fuel1 fuel s best = .ok (r, s') →
      ∀ x, r = some x → ∃ σ, SolW P σ ∧ x = reported P σ
  | 0, _, _, _, _, _, _, h => by simp [optimize] at h
  | fuel + 1, s, best, r, s', hpre, hbest, h => by
    simp only [optimize] at h
    cases h1 : solveOne P cfg fuel1 s with
    | error e => rw [h1] at h; simp at h
    | ok res =>
      obtain ⟨r1, s1⟩ := res
      rw [h1] at h
      have hs := solveOne_sound' hP cfg hcons hcost fuel1 s r1 s1 hpre h1
      cases r1 with
      | none =>
        simp only at h
        injection h with h; injection h with h2 _; subst h2
        exact hbest
      | some sol =>
        simp only at h
        obtain ⟨σ, hσ, hsol⟩ := hs.2 sol rfl
        split at h
        · injection h with h; injection h with h2 _; subst h2
          intro x hx; injection hx with hx; subst hx; exact ⟨σ, hσ, hsol⟩
        · rename_i hne
          subst hsol
          have hpre2 := Pre_resetTighten s1 v hv minimize σ hσ.1 (by simpa using hne)
          exact optimize_sound' hP cfg hcons hcost v hv minimize fuel1 fuel _ _ r s' hpre2
            (fun x hx => by injection hx with hx; subst hx; exact ⟨σ, hσ, rfl⟩) h

end Nucs

namespace Nucs

theorem solveAll_sound {P : Problem} (hP : ProbOk P) (hW : WFP P) (cfg : Config) (hbc : cfg.cons = .bc) (hcost : CostOk cfg)
    (fuel1 fuel limit : Nat) (s : State) (acc sols : List (List Int)) (s' : State) (hpre : Pre P s)
    (hacc : ∀ x ∈ acc, ∃ σ, SolW P σ ∧ x = reported P σ)
    (h : solveAll P cfg fuel1 fuel limit s acc = .ok (sols, s')) :
    ∀ x ∈ sols, ∃ σ, SolW P σ ∧ x = reported P σ :=
  solveAll_sound' hP cfg (consOk_bc hP hW cfg hbc) hcost fuel1 fuel limit s acc sols s' hpre hacc h

theorem optimize_sound {P : Problem} (hP : ProbOk P) (hW : WFP P) (cfg : Config) (hbc : cfg.cons = .bc) (hcost : CostOk cfg)
    (v : Nat) (hv : v < P.vars.length) (minimize : Bool) (fuel1 fuel : Nat) (s : State) (best r : Option (List Int)) (s' : State)
    (hpre : Pre P s) (hbest : ∀ x, best = some x → ∃ σ, SolW P σ ∧ x = reported P σ)
    (h : optimize P cfg v minimize fuel1 fuel s best = .ok (r, s')) :
    ∀ x, r = some x → ∃ σ, SolW P σ ∧ x = reported P σ :=
  optimize_sound' hP cfg (consOk_bc hP hW cfg hbc) hcost v hv minimize fuel1 fuel s best r s' hpre hbest h

end Nucs
