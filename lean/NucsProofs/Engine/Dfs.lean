import NucsProofs.Engine.Greatest
import NucsProofs.Engine.StackBound
import NucsProofs.Engine.Termination
/-!
  The depth-first search explores the root box exactly once (partial-correctness half of C02).

  * `Dfs.space s`          : the boxes still to be explored — the current domains and the domains of
                             every saved alternative
  * `Dfs.In τ sp`          : the assignment `τ` lies in one of the boxes of `sp`
  * `Dfs.SpDisj sp`        : the boxes of `sp` are pairwise disjoint (as positions of the list)
  * `Dfs.ConsKeeps P cfg`  : what completeness needs from the configured consistency algorithm, on top
                             of `ConsOk`: a pass keeps every solution (`Sol`, the documented relations)
                             of the current box, and does not fail when there is one.
                             `Dfs.consKeeps_bc`: plain bound consistency provides it.
  * `Dfs.solveOne_rule`    : a proof rule for `solveOne` (one case per way of leaving / continuing the
                             loop); every later statement about `solveOne` is an instance
  * `Dfs.solveOne_space`   : `solveOne` returns `none` only when no solution is left in the space; when
                             it returns a vector, that vector is `reported P σ` for the single point
                             `σ` of the new top box, the new space is inside the old one, still
                             pairwise disjoint, and still contains every solution of the old one
  * `Dfs.solveAll_exact`   : the generator: the yielded vectors are `L.map (reported P)` for a
                             duplicate-free list `L` of assignments, all `SolW`; if the generator was
                             run to exhaustion (fewer than `limit` vectors came out) every `Sol` is in `L`

  Which relation where.  Soundness speaks about `SolW` (acceptance relation; weaker than `Sol` for
  no_sub_cycle only), completeness about `Sol` (a propagator may — and no_sub_cycle does — remove
  tuples that satisfy `relW` but not `rel`).  So in general   Sol ⊆ L ⊆ SolW ;  under the
  circuit-model discipline `NscGuarded` the two coincide and `L` is exactly the solution set.
-/
namespace Nucs
namespace Dfs

/-! ### boxes, points, lists of boxes -/

/-- the boxes still to be explored -/
def space (s : State) : List Box := s.top.doms :: s.below.map (·.doms)

/-- `τ` lies in one of the boxes -/
def In (τ : List Int) (sp : List Box) : Prop := ∃ B ∈ sp, inBox τ B

/-- no assignment lies in both boxes -/
def Disj (A B : Box) : Prop := ∀ τ, inBox τ A → ¬ inBox τ B

/-- pairwise disjoint (positions of the list, not values) -/
def SpDisj (sp : List Box) : Prop := sp.Pairwise Disj

/-- every point of `sp'` is a point of `sp` -/
def Sub (sp' sp : List Box) : Prop := ∀ τ, In τ sp' → In τ sp

/-- every solution of `P` inside `sp` is inside `sp'` -/
def Keep (P : Problem) (sp sp' : List Box) : Prop := ∀ τ, Sol P τ → In τ sp → In τ sp'

theorem In_cons {τ : List Int} {B : Box} {sp : List Box} : In τ (B :: sp) ↔ inBox τ B ∨ In τ sp := by
  simp [In]

theorem In_append {τ : List Int} {sp sp' : List Box} : In τ (sp ++ sp') ↔ In τ sp ∨ In τ sp' := by
  simp only [In, List.mem_append]
  constructor
  · rintro ⟨B, hB | hB, h⟩
    · exact Or.inl ⟨B, hB, h⟩
    · exact Or.inr ⟨B, hB, h⟩
  · rintro (⟨B, hB, h⟩ | ⟨B, hB, h⟩)
    · exact ⟨B, Or.inl hB, h⟩
    · exact ⟨B, Or.inr hB, h⟩

theorem inBox_set : ∀ {τ : List Int} {D : Box} (d : Nat) (v : Dom), inBox τ D → inDom (getI τ d) v →
    inBox τ (D.set d v)
  | [], [], _, _, _, _ => by simp [inBox]
  | _ :: _, _ :: _, 0, _, h, hv => ⟨by simpa [getI] using hv, h.2⟩
  | _ :: _, _ :: _, d + 1, v, h, hv => ⟨h.1, inBox_set d v h.2 (by simpa [getI] using hv)⟩
  | [], _ :: _, _, _, h, _ => by simp [inBox] at h
  | _ :: _, [], _, _, h, _ => by simp [inBox] at h

theorem inDom_of_inBox_set {τ : List Int} {D : Box} {d : Nat} {v : Dom} (hd : d < D.length)
    (h : inBox τ (D.set d v)) : inDom (getI τ d) v := by
  have := inBox_get d h (by simpa using hd)
  rw [getDom_set] at this
  simpa [hd, inDom] using this

theorem inDom_getI {τ : List Int} {D : Box} (h : inBox τ D) (d : Nat) (hd : d < D.length) :
    inDom (getI τ d) (getDom D d) := inBox_get d h hd

/-- a point of an instantiated box is THE point of that box -/
theorem eq_assignOf : ∀ {τ : List Int} {D : Box}, D.isGround = true → inBox τ D → τ = assignOf D
  | [], [], _, _ => rfl
  | t :: ts, (a, b) :: ds, hg, h => by
    simp only [Box.isGround, List.all_cons, Bool.and_eq_true] at hg
    have ih := eq_assignOf (τ := ts) (D := ds) hg.2 h.2
    have h1 : a ≤ t ∧ t ≤ b := h.1
    have : t = a := by have := hg.1; simp only [Dom.isGround, beq_iff_eq] at this; omega
    simp [assignOf, this, ih]
  | [], _ :: _, _, h => by simp [inBox] at h
  | _ :: _, [], _, h => by simp [inBox] at h

theorem inBox_assignOf_self {D : Box} (hg : D.isGround = true) : inBox (assignOf D) D :=
  inBox_assignOf hg D (fun d hd => by
    have := List.all_eq_true.mp hg d hd
    simpa [Dom.isGround] using this)

/-! ### a decision partitions the top box -/

section branch
variable {l : Level} {d : Nat} {b : Branch}

theorem branch_le (hb : BranchOk l d b) {lv : Level} (hlv : lv ∈ b.levels) : Box.le lv.doms l.doms := by
  rw [(hb.others lv hlv).1]
  exact views_set_le (hb.part_sub lv hlv)

theorem branch_cover (hb : BranchOk l d b) (hd : d < l.doms.length) {τ : List Int} (h : inBox τ l.doms) :
    In τ (b.levels.map (·.doms)) := by
  obtain ⟨lv, hlv, hin⟩ := (hb.cover (getI τ d)).mp (inDom_getI h d hd)
  refine ⟨lv.doms, List.mem_map.mpr ⟨lv, hlv, rfl⟩, ?_⟩
  rw [(hb.others lv hlv).1]
  exact inBox_set d _ h hin

theorem branch_sub (hb : BranchOk l d b) : Sub (b.levels.map (·.doms)) [l.doms] := by
  rintro τ ⟨B, hB, h⟩
  obtain ⟨lv, hlv, rfl⟩ := List.mem_map.mp hB
  exact ⟨l.doms, by simp, inBox_of_le h (branch_le hb hlv)⟩

theorem branch_disj (hb : BranchOk l d b) (hd : d < l.doms.length) : SpDisj (b.levels.map (·.doms)) := by
  unfold SpDisj
  rw [List.pairwise_map]
  refine List.Pairwise.imp_of_mem ?_ hb.disjoint
  intro x y hx hy hxy τ h1 h2
  rw [(hb.others x hx).1] at h1
  rw [(hb.others y hy).1] at h2
  have i1 := inDom_of_inBox_set hd h1
  have i2 := inDom_of_inBox_set hd h2
  unfold disjointDoms at hxy
  unfold inDom at i1 i2
  omega

end branch

/-! ### lists of boxes -/

theorem Disj_of_le {A A' B : Box} (h : Disj A B) (hle : Box.le A' A) : Disj A' B :=
  fun τ h1 h2 => h τ (inBox_of_le h1 hle) h2

/-- shrinking the first box -/
theorem SpDisj_shrink {T T1 : Box} {R : List Box} (h : SpDisj (T :: R)) (hle : Box.le T1 T) : SpDisj (T1 :: R) := by
  unfold SpDisj at *
  rw [List.pairwise_cons] at h ⊢
  exact ⟨fun B hB => Disj_of_le (h.1 B hB) hle, h.2⟩

theorem SpDisj_tail {T : Box} {R : List Box} (h : SpDisj (T :: R)) : SpDisj R := by
  unfold SpDisj at *
  exact (List.pairwise_cons.mp h).2

/-- replacing the first box by pairwise disjoint parts of it -/
theorem SpDisj_split {T : Box} {R parts : List Box} (h : SpDisj (T :: R)) (hp : SpDisj parts)
    (hsub : ∀ B ∈ parts, Box.le B T) : SpDisj (parts ++ R) := by
  unfold SpDisj at *
  rw [List.pairwise_append]
  rw [List.pairwise_cons] at h
  exact ⟨hp, h.2, fun A hA B hB => Disj_of_le (h.1 B hB) (hsub A hA)⟩

theorem Sub_refl (sp : List Box) : Sub sp sp := fun _ h => h
theorem Sub_trans {a b c : List Box} (h1 : Sub a b) (h2 : Sub b c) : Sub a c := fun τ h => h2 τ (h1 τ h)
theorem Keep_trans {P : Problem} {a b c : List Box} (h1 : Keep P a b) (h2 : Keep P b c) : Keep P a c :=
  fun τ hs h => h2 τ hs (h1 τ hs h)

theorem Sub_tail (T : Box) (R : List Box) : Sub R (T :: R) := fun _ h => In_cons.mpr (Or.inr h)

theorem Sub_shrink {T T1 : Box} (R : List Box) (hle : Box.le T1 T) : Sub (T1 :: R) (T :: R) := by
  intro τ h
  rcases In_cons.mp h with h | h
  · exact In_cons.mpr (Or.inl (inBox_of_le h hle))
  · exact In_cons.mpr (Or.inr h)

theorem Sub_split {T : Box} {parts : List Box} (R : List Box) (h : Sub parts [T]) : Sub (parts ++ R) (T :: R) := by
  intro τ hτ
  rcases In_append.mp hτ with hτ | hτ
  · obtain ⟨B, hB, hin⟩ := h τ hτ
    simp only [List.mem_cons, List.not_mem_nil, or_false] at hB
    subst hB
    exact In_cons.mpr (Or.inl hin)
  · exact In_cons.mpr (Or.inr hτ)

/-! ### what the search needs from the consistency algorithm -/

/-- completeness side: a pass keeps every solution of the current box and does not report
    inconsistency when there is one -/
structure ConsKeeps (P : Problem) (cfg : Config) : Prop where
  keeps : ∀ (s s' : State) (st : BcStatus), Pre P s → consPass P cfg s = .ok (st, s') →
    ∀ σ, Sol P σ → inBox σ s.top.doms → st ≠ .inconsistent ∧ inBox σ s'.top.doms

/-- plain bound consistency provides it (`bcLoopG_keeps_Sol`) -/
theorem consKeeps_bc {P : Problem} (hP : ProbOk P) (hW : WFP P) (cfg : Config) (hbc : cfg.cons = .bc) :
    ConsKeeps P cfg := by
  constructor
  intro s s' st hpre h σ hsol hσ
  have hcp : consPass P cfg s = bcPass P s := by simp [consPass, hbc]
  rw [hcp] at h
  exact bcLoopG_keeps_Sol pickProp_ok hP hW _ none _ s' st (Inv_stats hpre.inv _) h σ hsol hσ

/-! ### a proof rule for `solveOne` -/

/-- the state after the decision `b` on domain `d` (the state `solveOne` continues with) -/
def decided (P : Problem) (s1 : State) (d : Nat) (b : Branch) : State :=
  { (s1.push b) with
    trig := addProps P (s1.push b).trig (s1.push b).top.ne d b.events
    stats := { (s1.push b).stats with choice := (s1.push b).stats.choice + 1,
                                      depth := max (s1.push b).stats.depth (s1.push b).below.length } }

/-- the state in which a solution is returned -/
def solved (s1 : State) : State := { s1 with stats := { s1.stats with solution := s1.stats.solution + 1 } }

theorem space_decided (P : Problem) (s1 : State) (d : Nat) (b : Branch) :
    space (decided P s1 d b) = b.levels.map (·.doms) ++ s1.below.map (·.doms) := by
  simp [space, decided, State.push, Branch.levels]

theorem space_solved (s1 : State) : space (solved s1) = space s1 := rfl

/-- PROOF RULE: to show `I s → solveOne … s = .ok (r, s') → Q s r s'` it is enough to treat the two
    exits (a solution; a failure with nothing left to resume) and to show that the two ways of
    continuing (resume a saved alternative; take a decision) re-establish `I` and carry `Q` back -/
theorem solveOne_rule (P : Problem) (cfg : Config) (I : State → Prop)
    (Q : State → Option (List Int) → State → Prop)
    (hbound : ∀ s s1, I s → consPass P cfg s = .ok (.bound, s1) →
      Q s (some (getSolution P s1.top.doms)) (solved s1))
    (hend : ∀ s s1, I s → consPass P cfg s = .ok (.inconsistent, s1) → backtrack P s1 = none → Q s none s1)
    (hback : ∀ s s1 s2, I s → consPass P cfg s = .ok (.inconsistent, s1) → backtrack P s1 = some s2 →
      I s2 ∧ ∀ r s', Q s2 r s' → Q s r s')
    (hdec : ∀ s s1 d b, I s → consPass P cfg s = .ok (.unbound, s1) →
      runVarHeur cfg.varH cfg.varCosts cfg.decision s1.top.doms = some (some d) →
      runDomHeur cfg.domH cfg.domCosts s1.top d = some b →
      I (decided P s1 d b) ∧ ∀ r s', Q (decided P s1 d b) r s' → Q s r s') :
    ∀ (fuel : Nat) (s : State) (r : Option (List Int)) (s' : State), I s →
      solveOne P cfg fuel s = .ok (r, s') → Q s r s'
  | 0, _, _, _, _, h => by simp [solveOne] at h
  | fuel + 1, s, r, s', hI, h => by
    simp only [solveOne] at h
    split at h
    · cases h
    · cases hpass : consPass P cfg s with
      | error e => rw [hpass] at h; simp at h
      | ok res =>
        obtain ⟨st, s1⟩ := res
        rw [hpass] at h
        cases st with
        | bound =>
          simp only at h
          injection h with h; injection h with h1 h2; subst h1; subst h2
          exact hbound s s1 hI hpass
        | unbound =>
          simp only at h
          split at h
          · cases h
          · cases hvh : runVarHeur cfg.varH cfg.varCosts cfg.decision s1.top.doms with
            | none => rw [hvh] at h; simp at h
            | some od =>
              rw [hvh] at h
              cases od with
              | none => simp at h
              | some d =>
                simp only at h
                cases hdh : runDomHeur cfg.domH cfg.domCosts s1.top d with
                | none => rw [hdh] at h; simp at h
                | some b =>
                  rw [hdh] at h
                  simp only at h
                  obtain ⟨hI3, hQ⟩ := hdec s s1 d b hI hpass hvh hdh
                  exact hQ r s' (solveOne_rule P cfg I Q hbound hend hback hdec fuel _ r s' hI3 h)
        | inconsistent =>
          simp only at h
          cases hbt : backtrack P s1 with
          | none =>
            rw [hbt] at h
            injection h with h; injection h with h1 h2; subst h1; subst h2
            exact hend s s1 hI hpass hbt
          | some s2 =>
            rw [hbt] at h
            simp only at h
            obtain ⟨hI2, hQ⟩ := hback s s1 s2 hI hpass hbt
            exact hQ r s' (solveOne_rule P cfg I Q hbound hend hback hdec fuel s2 r s' hI2 h)

/-! ### the space invariant through `solveOne` -/

/-- what holds before every pass of the search: the search invariant `Pre`, and the boxes still
    to be explored are pairwise disjoint -/
structure SInv (P : Problem) (s : State) : Prop where
  pre : Pre P s
  disj : SpDisj (space s)

/-- what one `solveOne` call guarantees about the search space -/
structure Out (P : Problem) (s : State) (r : Option (List Int)) (s' : State) : Prop where
  post : Post P s'
  /-- nothing returned: nothing is left to resume and the space contained no solution -/
  none_ : r = none → s'.below = [] ∧ ∀ τ, Sol P τ → ¬ In τ (space s)
  /-- a vector returned: it is the single point of the new top box, an accepted assignment; the new
      space is inside the old one, pairwise disjoint, and has kept every solution -/
  some_ : ∀ sol, r = some sol →
    s'.top.doms.isGround = true ∧ sol = reported P (assignOf s'.top.doms) ∧ SolW P (assignOf s'.top.doms) ∧
    SpDisj (space s') ∧ Sub (space s') (space s) ∧ Keep P (space s) (space s')

theorem Out.trans {P : Problem} {s s2 : State} {r : Option (List Int)} {s' : State}
    (hsub : Sub (space s2) (space s)) (hkeep : Keep P (space s) (space s2)) (h : Out P s2 r s') : Out P s r s' := by
  refine ⟨h.post, fun hr => ⟨(h.none_ hr).1, fun τ hτ hin => (h.none_ hr).2 τ hτ (hkeep τ hτ hin)⟩, fun sol hr => ?_⟩
  obtain ⟨h1, h2, h3, h4, h5, h6⟩ := h.some_ sol hr
  exact ⟨h1, h2, h3, h4, Sub_trans h5 hsub, Keep_trans hkeep h6⟩

section steps
variable {P : Problem} {cfg : Config}

/-- a pass that does not fail: the space shrinks, keeps its solutions, stays disjoint -/
theorem pass_space (hcons : ConsOk P cfg) (hkeep : ConsKeeps P cfg) {s s1 : State} {st : BcStatus}
    (hI : SInv P s) (hpass : consPass P cfg s = .ok (st, s1)) (hst : st ≠ .inconsistent) :
    SpDisj (space s1) ∧ Sub (space s1) (space s) ∧ Keep P (space s) (space s1) := by
  obtain ⟨hbelow, _, hinv, _, _⟩ := hcons.pass s s1 st hI.pre hpass
  have hle := (hinv hst).2.2
  have e : space s1 = s1.top.doms :: s.below.map (·.doms) := by simp [space, hbelow]
  rw [e]
  refine ⟨SpDisj_shrink hI.disj hle, Sub_shrink _ hle, ?_⟩
  intro τ hτ hin
  rcases In_cons.mp hin with hin | hin
  · exact In_cons.mpr (Or.inl (hkeep.keeps s s1 st hI.pre hpass τ hτ hin).2)
  · exact In_cons.mpr (Or.inr hin)

/-- a failed pass: the top box contained no solution -/
theorem fail_space (hcons : ConsOk P cfg) (hkeep : ConsKeeps P cfg) {s s1 : State}
    (hI : SInv P s) (hpass : consPass P cfg s = .ok (.inconsistent, s1)) :
    Keep P (space s) (s1.below.map (·.doms)) := by
  obtain ⟨hbelow, _, _, _, _⟩ := hcons.pass s s1 _ hI.pre hpass
  intro τ hτ hin
  rcases In_cons.mp hin with hin | hin
  · exact absurd rfl (hkeep.keeps s s1 _ hI.pre hpass τ hτ hin).1
  · rw [hbelow]; exact hin

theorem backtrack_space {s1 s2 : State} (h : backtrack P s1 = some s2) :
    space s2 = s1.below.map (·.doms) := by
  unfold backtrack at h
  cases hb : s1.below with
  | nil => rw [hb] at h; cases h
  | cons l rest => rw [hb] at h; injection h with h; subst h; simp [space]

theorem backtrack_none {s1 : State} (h : backtrack P s1 = none) : s1.below = [] := by
  unfold backtrack at h
  cases hb : s1.below with
  | nil => rfl
  | cons l rest => rw [hb] at h; cases h

/-- EXIT 1: all domains instantiated -/
theorem step_bound (hP : ProbOk P) (hcons : ConsOk P cfg) (hkeep : ConsKeeps P cfg) {s s1 : State}
    (hI : SInv P s) (hpass : consPass P cfg s = .ok (.bound, s1)) :
    Out P s (some (getSolution P s1.top.doms)) (solved s1) := by
  obtain ⟨hbelow, hlenT, hinv, hbound, _⟩ := hcons.pass s s1 _ hI.pre hpass
  have hi := hinv (by decide)
  obtain ⟨h1, h2, h3⟩ := pass_space hcons hkeep hI hpass (by decide)
  have hst : StackOk P (solved s1).below := by show StackOk P s1.below; rw [hbelow]; exact hI.pre.stack
  refine ⟨⟨hlenT, hst⟩, fun hr => (by cases hr), fun sol hr => ?_⟩
  injection hr with hr; subst hr
  exact ⟨hbound rfl, getSolution_eq P _, solW_of_bound (s := s1) hP hi.1 hi.2.1 (hbound rfl), h1, h2, h3⟩

/-- EXIT 2: failure, nothing to resume -/
theorem step_end (hcons : ConsOk P cfg) (hkeep : ConsKeeps P cfg) {s s1 : State}
    (hI : SInv P s) (hpass : consPass P cfg s = .ok (.inconsistent, s1)) (hbt : backtrack P s1 = none) :
    Out P s none s1 := by
  obtain ⟨hbelow, hlenT, _, _, _⟩ := hcons.pass s s1 _ hI.pre hpass
  have hnil := backtrack_none hbt
  have hst : StackOk P s1.below := by rw [hbelow]; exact hI.pre.stack
  refine ⟨⟨hlenT, hst⟩, fun _ => ⟨hnil, fun τ hτ hin => ?_⟩, fun sol hr => (by cases hr)⟩
  have := fail_space hcons hkeep hI hpass τ hτ hin
  rw [hnil] at this
  obtain ⟨B, hB, _⟩ := this
  simp at hB

/-- CONTINUE 1: failure, resume the next saved alternative -/
theorem step_back (hcons : ConsOk P cfg) (hkeep : ConsKeeps P cfg) {s s1 s2 : State}
    (hI : SInv P s) (hpass : consPass P cfg s = .ok (.inconsistent, s1)) (hbt : backtrack P s1 = some s2) :
    SInv P s2 ∧ Sub (space s2) (space s) ∧ Keep P (space s) (space s2) := by
  obtain ⟨hbelow, hlenT, _, _, _⟩ := hcons.pass s s1 _ hI.pre hpass
  have hsp := backtrack_space hbt
  have e : space s = s.top.doms :: space s2 := by rw [hsp, hbelow]; rfl
  have hst : StackOk P s1.below := by rw [hbelow]; exact hI.pre.stack
  refine ⟨⟨backtrack_pre ⟨hlenT, hst⟩ hbt, ?_⟩, ?_, ?_⟩
  · have := hI.disj; rw [e] at this; exact SpDisj_tail this
  · rw [e]; exact Sub_tail _ _
  · rw [hsp]; exact fail_space hcons hkeep hI hpass

/-- CONTINUE 2: a decision -/
theorem step_dec (hcons : ConsOk P cfg) (hkeep : ConsKeeps P cfg) (hcost : CostOk cfg) {s s1 : State} {d : Nat} {b : Branch}
    (hI : SInv P s) (hpass : consPass P cfg s = .ok (.unbound, s1))
    (hvh : runVarHeur cfg.varH cfg.varCosts cfg.decision s1.top.doms = some (some d))
    (hdh : runDomHeur cfg.domH cfg.domCosts s1.top d = some b) :
    SInv P (decided P s1 d b) ∧ Sub (space (decided P s1 d b)) (space s) ∧ Keep P (space s) (space (decided P s1 d b)) := by
  obtain ⟨hbelow, hlenT, hinv, _, _⟩ := hcons.pass s s1 _ hI.pre hpass
  have hi := hinv (by decide)
  obtain ⟨h1, h2, h3⟩ := pass_space hcons hkeep hI hpass (by decide)
  have hub := runVarHeur_unbound _ _ _ _ d hvh
  have hdl := lt_length_of_unbound _ d hub
  have hbok := runDomHeur_ok cfg.domH cfg.domCosts s1.top d hdl hub b hdh hcost
  have hstack1 : StackOk P s1.below := by rw [hbelow]; exact hI.pre.stack
  have hpre3 : Pre P (decided P s1 d b) := push_pre hi.1 hi.2.1 hstack1 hdl hbok _
  have e1 : space s1 = s1.top.doms :: s1.below.map (·.doms) := rfl
  rw [space_decided]
  rw [e1] at h1 h2 h3
  refine ⟨⟨hpre3, ?_⟩, Sub_trans (Sub_split _ (branch_sub hbok)) h2, Keep_trans h3 ?_⟩
  · rw [space_decided]
    refine SpDisj_split h1 (branch_disj hbok hdl) ?_
    intro B hB
    obtain ⟨lv, hlv, rfl⟩ := List.mem_map.mp hB
    exact branch_le hbok hlv
  · intro τ _ hin
    rcases In_cons.mp hin with hin | hin
    · exact In_append.mpr (Or.inl (branch_cover hbok hdl hin))
    · exact In_append.mpr (Or.inr hin)

end steps

/-- SOLVE_ONE and the search space: see `Out` -/
theorem solveOne_space {P : Problem} (hP : ProbOk P) (cfg : Config) (hcons : ConsOk P cfg)
    (hkeep : ConsKeeps P cfg) (hcost : CostOk cfg) (fuel : Nat) (s : State) (r : Option (List Int)) (s' : State)
    (hI : SInv P s) (h : solveOne P cfg fuel s = .ok (r, s')) : Out P s r s' := by
  refine solveOne_rule P cfg (SInv P) (Out P) ?_ ?_ ?_ ?_ fuel s r s' hI h
  · intro s s1 hI hpass; exact step_bound hP hcons hkeep hI hpass
  · intro s s1 hI hpass hbt; exact step_end hcons hkeep hI hpass hbt
  · intro s s1 s2 hI hpass hbt
    obtain ⟨h1, h2, h3⟩ := step_back hcons hkeep hI hpass hbt
    exact ⟨h1, fun r s' hQ => hQ.trans h2 h3⟩
  · intro s s1 d b hI hpass hvh hdh
    obtain ⟨h1, h2, h3⟩ := step_dec hcons hkeep hcost hI hpass hvh hdh
    exact ⟨h1, fun r s' hQ => hQ.trans h2 h3⟩

/-! ### the generator -/

theorem nodup_reverse {α : Type} {l : List α} : l.reverse.Nodup ↔ l.Nodup := by
  unfold List.Nodup
  rw [List.pairwise_reverse]
  constructor <;> intro h <;> exact h.imp (fun h => Ne.symm h)

/-- the top box of a solved state is disjoint from everything below it -/
theorem top_not_below {sp : List Box} {T : Box} {σ : List Int} (h : SpDisj (T :: sp)) (hσ : inBox σ T) : ¬ In σ sp := by
  rintro ⟨B, hB, hin⟩
  exact (List.pairwise_cons.mp h).1 B hB σ hσ hin

/-- SOLVE (generator), exactly-once: started with the already yielded assignments `Lacc` (newest
    first; none of them in the remaining space), the result is `Lacc.reverse ++ L` for a list `L` of
    accepted assignments of the remaining space, without duplicates; and when fewer than `limit` new
    vectors came out (the generator was exhausted, not abandoned) `L` contains EVERY solution of the
    remaining space -/
theorem solveAll_exact {P : Problem} (hP : ProbOk P) (cfg : Config) (hcons : ConsOk P cfg)
    (hkeep : ConsKeeps P cfg) (hcost : CostOk cfg) (fuel1 : Nat) :
    ∀ (fuel limit : Nat) (s : State) (Lacc : List (List Int)) (sols : List (List Int)) (s' : State),
      SInv P s → Lacc.Nodup → (∀ σ ∈ Lacc, ¬ In σ (space s)) →
      solveAll P cfg fuel1 fuel limit s (Lacc.map (reported P)) = .ok (sols, s') →
      ∃ L, sols = (Lacc.reverse ++ L).map (reported P) ∧ (Lacc.reverse ++ L).Nodup ∧
        (∀ σ ∈ L, SolW P σ ∧ In σ (space s)) ∧
        (sols.length < Lacc.length + limit → ∀ τ, Sol P τ → In τ (space s) → τ ∈ L)
  | 0, _, _, _, _, _, _, _, _, h => by simp [solveAll] at h
  | fuel + 1, 0, s, Lacc, sols, s', _, hnd, _, h => by
    simp only [solveAll] at h
    injection h with h; injection h with h1 _; subst h1
    refine ⟨[], by simp [List.map_reverse], by simpa using nodup_reverse.mpr hnd, by simp, ?_⟩
    intro hlt; simp at hlt
  | fuel + 1, limit + 1, s, Lacc, sols, s', hI, hnd, hout, h => by
    simp only [solveAll] at h
    cases h1 : solveOne P cfg fuel1 s with
    | error e => rw [h1] at h; simp at h
    | ok res =>
      obtain ⟨r, s1⟩ := res
      rw [h1] at h
      have ho := solveOne_space hP cfg hcons hkeep hcost fuel1 s r s1 hI h1
      cases r with
      | none =>
        simp only at h
        injection h with h; injection h with h2 _; subst h2
        refine ⟨[], by simp [List.map_reverse], by simpa using nodup_reverse.mpr hnd, by simp, ?_⟩
        intro _ τ hτ hin
        exact absurd hin ((ho.none_ rfl).2 τ hτ)
      | some sol =>
        simp only at h
        obtain ⟨hg, hsol, hw, hdis, hsub, hkp⟩ := ho.some_ sol rfl
        -- the new assignment
        have hσtop : inBox (assignOf s1.top.doms) s1.top.doms := inBox_assignOf_self hg
        have hσin1 : In (assignOf s1.top.doms) (space s1) := In_cons.mpr (Or.inl hσtop)
        have hσin : In (assignOf s1.top.doms) (space s) := hsub _ hσin1
        have hnew : assignOf s1.top.doms ∉ Lacc := fun hm => hout _ hm hσin
        have hnd' : (assignOf s1.top.doms :: Lacc).Nodup := List.nodup_cons.mpr ⟨hnew, hnd⟩
        -- the result when the enumeration stops here
        have stop : sol :: Lacc.map (reported P) = (assignOf s1.top.doms :: Lacc).map (reported P) := by
          rw [hsol]; rfl
        have hres : ((sol :: Lacc.map (reported P)).reverse) = (Lacc.reverse ++ [assignOf s1.top.doms]).map (reported P) := by
          rw [stop, ← List.map_reverse, List.reverse_cons]
        have hnd1 : (Lacc.reverse ++ [assignOf s1.top.doms]).Nodup := by
          rw [← List.reverse_cons]; exact nodup_reverse.mpr hnd'
        have hone : ∀ σ ∈ [assignOf s1.top.doms], SolW P σ ∧ In σ (space s) := by
          intro σ hσ; simp only [List.mem_cons, List.not_mem_nil, or_false] at hσ; subst hσ; exact ⟨hw, hσin⟩
        split at h
        · rename_i hl0
          injection h with h; injection h with h2 _; subst h2
          refine ⟨[assignOf s1.top.doms], hres, hnd1, hone, ?_⟩
          intro hlt; simp [hl0] at hlt
        · cases hbt : backtrack P s1 with
          | none =>
            rw [hbt] at h
            injection h with h; injection h with h2 _; subst h2
            refine ⟨[assignOf s1.top.doms], hres, hnd1, hone, ?_⟩
            intro _ τ hτ hin
            have hin1 := hkp τ hτ hin
            have hnil := backtrack_none hbt
            simp only [space, hnil, List.map_nil] at hin1
            rcases In_cons.mp hin1 with hin1 | ⟨B, hB, _⟩
            · simp [eq_assignOf hg hin1]
            · simp at hB
          | some s2 =>
            rw [hbt] at h
            simp only at h
            rw [stop] at h
            have hsp2 := backtrack_space hbt
            have e1 : space s1 = s1.top.doms :: space s2 := by rw [hsp2]; rfl
            have hI2 : SInv P s2 := ⟨backtrack_pre ho.post hbt, by have := hdis; rw [e1] at this; exact SpDisj_tail this⟩
            have hsub2 : Sub (space s2) (space s) := Sub_trans (by rw [e1]; exact Sub_tail _ _) hsub
            have hout2 : ∀ σ ∈ assignOf s1.top.doms :: Lacc, ¬ In σ (space s2) := by
              intro σ hσ
              rcases List.mem_cons.mp hσ with rfl | hσ
              · rw [e1] at hdis; exact top_not_below hdis hσtop
              · exact fun hin => hout σ hσ (hsub2 σ hin)
            obtain ⟨L', hL1, hL2, hL3, hL4⟩ := solveAll_exact hP cfg hcons hkeep hcost fuel1 fuel limit s2
              (assignOf s1.top.doms :: Lacc) sols s' hI2 hnd' hout2 h
            have eapp : (assignOf s1.top.doms :: Lacc).reverse ++ L' = Lacc.reverse ++ (assignOf s1.top.doms :: L') := by
              simp
            rw [eapp] at hL1 hL2
            refine ⟨assignOf s1.top.doms :: L', hL1, hL2, ?_, ?_⟩
            · intro σ hσ
              rcases List.mem_cons.mp hσ with rfl | hσ
              · exact ⟨hw, hσin⟩
              · exact ⟨(hL3 σ hσ).1, hsub2 σ (hL3 σ hσ).2⟩
            · intro hlt τ hτ hin
              have hin1 := hkp τ hτ hin
              rw [e1] at hin1
              rcases In_cons.mp hin1 with hin1 | hin1
              · simp [eq_assignOf hg hin1]
              · exact List.mem_cons.mpr (Or.inr (hL4 (by simp only [List.length_cons] at hlt ⊢; omega) τ hτ hin1))

theorem SInv_init (P : Problem) (hne : P.shr.Nonempty) (stats : Stats) : SInv P (State.init P stats) :=
  ⟨Pre_init P hne stats, by simp [SpDisj, space, State.init]⟩

end Dfs

/-! ### C02, partial-correctness form -/

/-- C02 (partial correctness): whatever the variable heuristic, the value heuristic and the
    consistency algorithm (any `ConsOk` + `Dfs.ConsKeeps`, e.g. bound consistency), if the
    enumeration from the root returns `sols`, then `sols` is the image of a DUPLICATE-FREE list `L`
    of assignments of the shared domains, every one of them accepted (`SolW`); and if the generator
    was run to exhaustion (`sols.length < limit`) `L` contains every solution (`Sol`).
    Missing here, see `C02_enumeration` in DfsTerm.lean: that the call does return `.ok`. -/
theorem C02_exactly_once_partial (P : Problem) (hP : ProbOk P) (hne : P.shr.Nonempty) (cfg : Config)
    (hcons : ConsOk P cfg) (hkeep : Dfs.ConsKeeps P cfg) (hcost : CostOk cfg)
    (fuel1 fuel limit : Nat) (sols : List (List Int)) (s' : State)
    (h : solveAll P cfg fuel1 fuel limit (State.init P) [] = .ok (sols, s')) :
    ∃ L : List (List Int), sols = L.map (reported P) ∧ L.Nodup ∧ (∀ σ ∈ L, SolW P σ) ∧
      (sols.length < limit → ∀ σ, Sol P σ → σ ∈ L) := by
  obtain ⟨L, h1, h2, h3, h4⟩ := Dfs.solveAll_exact hP cfg hcons hkeep hcost fuel1 fuel limit (State.init P) []
    sols s' (Dfs.SInv_init P hne {}) List.nodup_nil (fun _ hm => by cases hm) h
  refine ⟨L, by simpa using h1, by simpa using h2, fun σ hσ => (h3 σ hσ).1, fun hlt σ hσ => ?_⟩
  exact h4 (by simpa using hlt) σ hσ ⟨P.shr, by simp [Dfs.space, State.init], hσ.1⟩

/-- … under the circuit-model discipline the list is EXACTLY the solution set, each solution once -/
theorem C02_exactly_once_guarded_partial (P : Problem) (hP : ProbOk P) (hne : P.shr.Nonempty) (hg : NscGuarded P)
    (cfg : Config) (hcons : ConsOk P cfg) (hkeep : Dfs.ConsKeeps P cfg) (hcost : CostOk cfg)
    (fuel1 fuel limit : Nat) (sols : List (List Int)) (s' : State)
    (h : solveAll P cfg fuel1 fuel limit (State.init P) [] = .ok (sols, s')) (hex : sols.length < limit) :
    ∃ L : List (List Int), sols = L.map (reported P) ∧ L.Nodup ∧ (∀ σ, σ ∈ L ↔ Sol P σ) ∧ (∀ σ, σ ∈ L ↔ SolW P σ) := by
  obtain ⟨L, h1, h2, h3, h4⟩ := C02_exactly_once_partial P hP hne cfg hcons hkeep hcost fuel1 fuel limit sols s' h
  exact ⟨L, h1, h2, fun σ => ⟨fun hm => Sol_of_SolW hg (h3 σ hm), h4 hex σ⟩,
    fun σ => ⟨h3 σ, fun hw => h4 hex σ (Sol_of_SolW hg hw)⟩⟩

/-- `SolW` (and `Sol`) do not depend on the posting order, nor on repetitions -/
theorem Sol_congr {P P' : Problem} (hshr : P'.shr = P.shr) (hprops : ∀ p, p ∈ P'.props ↔ p ∈ P.props) (σ : List Int) :
    Sol P' σ ↔ Sol P σ := by
  unfold Sol; rw [hshr]
  exact ⟨fun h => ⟨h.1, fun p hp => h.2 p ((hprops p).mpr hp)⟩, fun h => ⟨h.1, fun p hp => h.2 p ((hprops p).mp hp)⟩⟩

/-- C02, strategy independence (partial correctness): two exhaustive enumerations of the same
    constraints — posted in any order, explored with any heuristics and any consistency algorithms
    satisfying `ConsOk` / `Dfs.ConsKeeps` — yield the same solutions with the same multiplicities
    (the two result lists are permutations of one another) -/
theorem C02_strategy_independent_partial (P P' : Problem) (hshr : P'.shr = P.shr) (hvars : P'.vars = P.vars)
    (hprops : ∀ p, p ∈ P'.props ↔ p ∈ P.props)
    (hP : ProbOk P) (hP' : ProbOk P') (hne : P.shr.Nonempty) (hg : NscGuarded P)
    (cfg cfg' : Config) (hcons : ConsOk P cfg) (hkeep : Dfs.ConsKeeps P cfg) (hcost : CostOk cfg)
    (hcons' : ConsOk P' cfg') (hkeep' : Dfs.ConsKeeps P' cfg') (hcost' : CostOk cfg')
    (fuel1 fuel limit fuel1' fuel' limit' : Nat) (sols sols' : List (List Int)) (s1 s1' : State)
    (h : solveAll P cfg fuel1 fuel limit (State.init P) [] = .ok (sols, s1)) (hex : sols.length < limit)
    (h' : solveAll P' cfg' fuel1' fuel' limit' (State.init P') [] = .ok (sols', s1')) (hex' : sols'.length < limit') :
    sols.Perm sols' := by
  have hg' : NscGuarded P' := by
    intro p hp ha
    obtain ⟨q, hq, hqa, hqv⟩ := hg p ((hprops p).mp hp) ha
    exact ⟨q, (hprops q).mpr hq, hqa, hqv⟩
  obtain ⟨L, e, nd, m, _⟩ := C02_exactly_once_guarded_partial P hP hne hg cfg hcons hkeep hcost fuel1 fuel limit sols s1 h hex
  obtain ⟨L', e', nd', m', _⟩ := C02_exactly_once_guarded_partial P' hP' (by rw [hshr]; exact hne) hg' cfg' hcons' hkeep' hcost'
    fuel1' fuel' limit' sols' s1' h' hex'
  have hperm : L.Perm L' := (List.perm_ext_iff_of_nodup nd nd').mpr
    (fun σ => by rw [m σ, m' σ, Sol_congr hshr hprops σ])
  have hrep : reported P' = reported P := by funext σ; simp [reported, hvars]
  rw [e, e', hrep]
  exact hperm.map _

/-! ### distinct assignments are reported as distinct vectors when every shared domain is visible -/

theorem Dfs.list_ext_getI : ∀ {a b : List Int}, a.length = b.length → (∀ i, i < a.length → getI a i = getI b i) → a = b
  | [], [], _, _ => rfl
  | x :: xs, y :: ys, hl, h => by
    have h0 := h 0 (by simp)
    simp only [getI, List.getD_cons_zero] at h0
    have := Dfs.list_ext_getI (a := xs) (b := ys) (by simpa using hl)
      (fun i hi => by have := h (i + 1) (by simpa using hi); simpa [getI] using this)
    rw [h0, this]
  | [], _ :: _, hl, _ => by simp at hl
  | _ :: _, [], hl, _ => by simp at hl

/-- if every shared domain carries at least one variable, `reported P` is injective on the
    assignments of the root box: the yielded VECTORS are pairwise distinct as well -/
theorem Dfs.nodup_reported (P : Problem) (hvis : ∀ i, i < P.shr.length → ∃ v ∈ P.vars, v.1 = i)
    (L : List (List Int)) (hL : L.Nodup) (hin : ∀ σ ∈ L, inBox σ P.shr) : (L.map (reported P)).Nodup := by
  unfold List.Nodup at *
  rw [List.pairwise_map]
  refine List.Pairwise.imp_of_mem ?_ hL
  intro σ τ hσ hτ hne heq
  apply hne
  have l1 := inBox_length (hin σ hσ)
  have l2 := inBox_length (hin τ hτ)
  apply Dfs.list_ext_getI (by rw [l1, l2])
  intro i hi
  obtain ⟨v, hv, rfl⟩ := hvis i (by rw [← l1]; exact hi)
  have : getI σ v.1 + v.2 = getI τ v.1 + v.2 := by
    obtain ⟨k, hk, e⟩ := List.getElem_of_mem hv
    have e1 : (reported P σ)[k]? = some (getI σ v.1 + v.2) := by
      simp [reported, valuesOf, List.getElem?_map, List.getElem?_eq_getElem hk, e]
    have e2 : (reported P τ)[k]? = some (getI τ v.1 + v.2) := by
      simp [reported, valuesOf, List.getElem?_map, List.getElem?_eq_getElem hk, e]
    rw [heq, e2] at e1
    injection e1 with e1
    exact e1.symm
  omega

end Nucs
