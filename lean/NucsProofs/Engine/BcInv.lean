import NucsProofs.Engine.Lists
/-!
  The propagation loop: invariant `queued ∨ at-fixpoint`, for ANY scheduler.

  * `good a ps V`   : "the constraint is at a fixpoint on the view box `V`" (re-execution does not
                      fail and returns `V` itself; for no_sub_cycle, which reacts to instantiation
                      only, merely "does not fail")
  * `Fix p D`       : `good` on the views of every non-empty sub-box of `D` that no event watched
                      by `p` separates from `D`
  * `Inv P s`       : every enabled constraint is queued or `Fix`; every disabled constraint is
                      satisfied by all tuples of its current views; domains are a non-empty
                      sub-box of the root
  * `bcLoopG_inv`   : one pass preserves `Inv`, only shrinks, and ends with an empty queue
-/
namespace Nucs

/-- what re-execution on the view box `V` must do for `V` to count as a fixpoint.  For
    no_sub_cycle only the provable part is claimed (see `TrigOkP`, known finding K3): once all its
    variables are instantiated, re-execution does not fail. -/
def good (a : Alg) (ps : List Int) (V : Box) : Prop :=
  if a = .noSubCycle then V.isGround = true → ∃ st B, runAlg a ps V = .ok (st, B) ∧ st ≠ .inc
  else ∃ st, runAlg a ps V = .ok (st, V) ∧ st ≠ .inc

/-- trigger sufficiency in the form the engine consumes: `TrigOk` (`TrigOkP` for no_sub_cycle) -/
def TrigG (a : Alg) : Prop :=
  ∀ ps B st B' B'', Contract a ps B → B.Nonempty → runAlg a ps B = .ok (st, B') → st ≠ .inc →
    Box.le B'' B' → B''.Nonempty →
    (∀ k, k < B.length → quiet (maskAlg a ps B.length k) (getDom B k) (getDom B'' k)) →
    good a ps B''

theorem TrigG_of_TrigOk {a : Alg} (ha : a ≠ .noSubCycle) (h : TrigOk a) : TrigG a := by
  intro ps B st B' B'' hc hne hrun hst hle hne'' hq
  unfold good; rw [if_neg ha]
  exact h ps B st B' B'' hc hne hrun hst hle hne'' hq

theorem TrigG_of_TrigOkP (h : TrigOkP .noSubCycle) : TrigG .noSubCycle := by
  intro ps B st B' B'' hc hne hrun hst hle hne'' hq
  unfold good; rw [if_pos rfl]
  intro hg
  exact h ps B st B' B'' hc hne hrun hst hle hne'' hg hq

/-- the local contracts of one algorithm that the engine theorems use -/
structure LocalOk (a : Alg) : Prop where
  sound : Sound a
  ground : GroundOk a
  entail : EntailOk a
  trig : TrigG a
  mono : ContractMono a

/-- every posted constraint uses an algorithm with proved local contracts and is posted within
    its documented contract on the root domains -/
structure ProbOk (P : Problem) : Prop where
  local_ : ∀ p ∈ P.props, LocalOk p.alg
  contract : ∀ p ∈ P.props, Contract p.alg p.params (views P.shr p.vars)

/-- `p` is at a fixpoint on `D`, robustly against changes it does not watch -/
def Fix (p : PropInst) (D : Box) : Prop :=
  ∀ D', Box.le D' D → D'.Nonempty →
    (∀ d, quiet (trigMask p d) (getDom D d) (getDom D' d)) →
    good p.alg p.params (views D' p.vars)

theorem Fix_mono {p : PropInst} {D D1 : Box} (h : Fix p D) (hle : Box.le D1 D)
    (hq : ∀ d, quiet (trigMask p d) (getDom D d) (getDom D1 d)) : Fix p D1 := by
  intro D' hle' hne' hq'
  exact h D' (Box.le_trans hle' hle) hne' (fun d => quiet_trans _ _ _ _ (hq d) (hq' d))

/-- after a non-failing execution of `p` on `views D`, any sub-box `D1` of `D` whose views lie
    inside the result and which is not separated from `D` by an event `p` watches is `Fix` -/
theorem Fix_of_run {p : PropInst} (ht : TrigG p.alg) {D D1 : Box} {st : Status} {V' : Box}
    (hc : Contract p.alg p.params (views D p.vars)) (hne : D.Nonempty)
    (hrun : runAlg p.alg p.params (views D p.vars) = .ok (st, V')) (hst : st ≠ .inc)
    (hle : Box.le D1 D) (hV : Box.le (views D1 p.vars) V')
    (hq : ∀ d, quiet (trigMask p d) (getDom D d) (getDom D1 d)) : Fix p D1 := by
  intro D' hle' hne' hq'
  refine ht p.params (views D p.vars) st V' (views D' p.vars) hc (views_nonempty hne _) hrun hst
    (Box.le_trans (views_le hle' _) hV) (views_nonempty hne' _) ?_
  intro k hk
  rw [views_length] at hk
  rw [views_length, getDom_views _ _ _ hk, getDom_views _ _ _ hk, quiet_shift]
  exact quiet_of_sub (trigMask_ge p k hk) (quiet_trans _ _ _ _ (hq _) (hq' _))

/-! ### add_propagators -/

theorem addPropsAux_length (P : Problem) (ne : List Bool) (d : Nat) (ev : Ev) :
    ∀ (q : Nat) (trig : List Bool) (ps : List PropInst), (addPropsAux P ne d ev q trig ps).length = trig.length
  | _, [], _ => by simp [addPropsAux]
  | q, _ :: ts, [] => by simp [addPropsAux, addPropsAux_length P ne d ev (q + 1) ts []]
  | q, _ :: ts, _ :: ps => by simp [addPropsAux, addPropsAux_length P ne d ev (q + 1) ts ps]

theorem addProps_length (P : Problem) (trig ne : List Bool) (d : Nat) (ev : Ev) :
    (addProps P trig ne d ev).length = trig.length := addPropsAux_length P ne d ev 0 trig P.props

theorem getB_addPropsAux (P : Problem) (ne : List Bool) (d : Nat) (ev : Ev) :
    ∀ (q0 : Nat) (trig : List Bool) (ps : List PropInst) (j : Nat), j < trig.length → j < ps.length →
      getB (addPropsAux P ne d ev q0 trig ps) j =
        (getB trig j || (getB ne (q0 + j) && (trigMask (ps[j]!) d).meets ev))
  | _, [], _, j, h, _ => by simp at h
  | _, _ :: _, [], j, _, h => by simp at h
  | q0, t :: ts, p :: ps, 0, _, _ => by simp [addPropsAux, getB]
  | q0, t :: ts, p :: ps, j + 1, h1, h2 => by
    have := getB_addPropsAux P ne d ev (q0 + 1) ts ps j (by simpa using h1) (by simpa using h2)
    have e : q0 + 1 + j = q0 + (j + 1) := by omega
    simp only [addPropsAux]
    simpa [getB, e] using this

theorem getB_addProps (P : Problem) (trig ne : List Bool) (d : Nat) (ev : Ev) (j : Nat)
    (h1 : j < trig.length) (h2 : j < P.props.length) :
    getB (addProps P trig ne d ev) j = (getB trig j || (getB ne j && (trigMask (P.props[j]!) d).meets ev)) := by
  have := getB_addPropsAux P ne d ev 0 trig P.props j h1 h2
  simpa [addProps] using this

/-- flags are only ever added -/
theorem addProps_mono (P : Problem) (trig ne : List Bool) (d : Nat) (ev : Ev) (j : Nat)
    (hl : trig.length = P.props.length) (h : getB trig j = true) : getB (addProps P trig ne d ev) j = true := by
  by_cases hj : j < trig.length
  · rw [getB_addProps P trig ne d ev j hj (hl ▸ hj), h]; simp
  · unfold getB at h; simp [List.getD, List.getElem?_eq_none (Nat.le_of_not_lt hj)] at h

end Nucs

namespace Nucs

/-! ### the write-back -/

/-- what one write-back guarantees when it does not fail -/
structure WBOk (P : Problem) (ne : List Bool) (vars : List (Nat × Int)) (out : Box) (w r : WB) : Prop where
  le : Box.le r.doms w.doms
  nonempty : w.doms.Nonempty → r.doms.Nonempty
  mono : ∀ j, getB w.trig j = true → getB r.trig j = true
  wake : ∀ q, q < P.props.length → getB ne q = true →
    getB r.trig q = true ∨ ∀ d, quiet (trigMask (P.props[q]!) d) (getDom w.doms d) (getDom r.doms d)
  inside : Box.le (views r.doms vars) out

theorem views_cons (D : Box) (v : Nat × Int) (vs : List (Nat × Int)) :
    views D (v :: vs) = (getDom D v.1).shift v.2 :: views D vs := rfl

/-! facts about one write-back step -/

theorem wbNew_le (cur o : Dom) (off : Int) : cur.1 ≤ (wbNew cur o off).1 ∧ (wbNew cur o off).2 ≤ cur.2 := by
  unfold wbNew; constructor <;> (simp only; split <;> omega)

theorem wbNew_inside (cur o : Dom) (off : Int) :
    o.1 ≤ (wbNew cur o off).1 + off ∧ (wbNew cur o off).2 + off ≤ o.2 := by
  unfold wbNew; constructor <;> (simp only; split <;> omega)

theorem wbEv_eq (cur o : Dom) (off : Int) (h : wbChanged cur o off = true) :
    wbEv cur o off = evOf cur (wbNew cur o off) := by
  obtain ⟨c1, c2⟩ := cur
  have hchg : wbNew (c1, c2) o off ≠ (c1, c2) := by
    intro he
    simp only [wbChanged, Bool.or_eq_true, decide_eq_true_eq] at h
    simp only [wbNew, Prod.mk.injEq] at he
    rcases h with h' | h'
    · rw [if_pos h'] at he; omega
    · have := he.2; rw [if_pos h'] at this; omega
  simp only [wbEv, evOf, Ev.mk.injEq]
  refine ⟨?_, ?_, ?_⟩
  · apply decide_eq_decide.mpr; simp only [wbNew]; split <;> omega
  · apply decide_eq_decide.mpr; simp only [wbNew]; split <;> omega
  · simp only [hchg, ne_eq, not_false_eq_true, true_and]
    first | rfl | simp | exact beq_eq_decide _ _

theorem not_wbChanged (cur o : Dom) (off : Int) (h : ¬ wbChanged cur o off = true) :
    o.1 ≤ cur.1 + off ∧ cur.2 + off ≤ o.2 := by
  simp only [wbChanged, Bool.or_eq_true, decide_eq_true_eq, not_or, Int.not_lt] at h
  omega

theorem writeBack_spec (P : Problem) (ne : List Bool) :
    ∀ (vars : List (Nat × Int)) (out : Box) (w : WB), w.failed = false →
      w.trig.length = P.props.length → out.length = vars.length → (∀ v ∈ vars, v.1 < w.doms.length) →
      (writeBack P ne vars out w).doms.length = w.doms.length ∧
      (writeBack P ne vars out w).trig.length = w.trig.length ∧
      ((writeBack P ne vars out w).failed = false → WBOk P ne vars out w (writeBack P ne vars out w))
  | [], [], w, _, _, _, _ => by
    refine ⟨rfl, rfl, fun _ => ⟨Box.le_refl _, id, fun _ h => h, fun _ _ _ => Or.inr (fun d => quiet_refl _ _), ?_⟩⟩
    simp [writeBack, views, Box.le]
  | [], _ :: _, _, _, _, hl, _ => by simp at hl
  | _ :: _, [], _, _, _, hl, _ => by simp at hl
  | (idx, off) :: vs, o :: os, w, hf, hlt, hl, hidx => by
    have hi : idx < w.doms.length := hidx (idx, off) (by simp)
    have hidx' : ∀ v ∈ vs, v.1 < w.doms.length := fun v hv => hidx v (by simp [hv])
    have hl' : os.length = vs.length := by simpa using hl
    simp only [writeBack, hf, Bool.false_eq_true, if_false]
    by_cases hev : wbChanged (getDom w.doms idx) o off = true
    · rw [if_pos hev]
      by_cases hemp : (wbNew (getDom w.doms idx) o off).1 > (wbNew (getDom w.doms idx) o off).2
      · rw [if_pos hemp]
        exact ⟨by simp, rfl, fun h => by simp at h⟩
      · rw [if_neg hemp]
        have ih := writeBack_spec P ne vs os
          { doms := w.doms.set idx (wbNew (getDom w.doms idx) o off),
            trig := addProps P w.trig ne idx (wbEv (getDom w.doms idx) o off), changed := true, failed := false }
          rfl (by simp [addProps_length, hlt]) hl' (by intro v hv; simpa using hidx' v hv)
        obtain ⟨ihd, iht, ihok⟩ := ih
        refine ⟨by simpa using ihd, by simpa [addProps_length] using iht, fun hnf => ?_⟩
        have ok := ihok hnf
        have step_le : Box.le (w.doms.set idx (wbNew (getDom w.doms idx) o off)) w.doms := by
          apply Box.le_of_get (by simp)
          intro k _
          simp only [getDom_set]
          split
          · rename_i h; obtain ⟨rfl, _⟩ := h
            exact wbNew_le _ _ _
          · exact ⟨Int.le_refl _, Int.le_refl _⟩
        refine ⟨Box.le_trans ok.le step_le, ?_, ?_, ?_, ?_⟩
        · intro hne
          apply ok.nonempty
          apply Box.nonempty_of_get
          intro k _
          simp only [getDom_set]
          split
          · omega
          · exact Box.nonempty_getDom hne k
        · intro j hj
          exact ok.mono j (addProps_mono P w.trig ne idx _ j hlt hj)
        · intro q hq hneq
          rcases ok.wake q hq hneq with h | h
          · exact Or.inl h
          · by_cases hm : (trigMask (P.props[q]!) idx).meets (wbEv (getDom w.doms idx) o off) = true
            · left
              apply ok.mono
              simp only
              rw [getB_addProps P w.trig ne idx _ q (by omega) hq, hneq, hm]; simp
            · right
              intro d
              refine quiet_trans _ _ _ _ ?_ (h d)
              simp only [getDom_set]
              split
              · rename_i h'; obtain ⟨rfl, _⟩ := h'
                unfold quiet; rw [← wbEv_eq _ _ _ hev]; simpa using hm
              · exact quiet_refl _ _
        · rw [views_cons]
          refine ⟨?_, ok.inside⟩
          have h1 := Box.le_getDom ok.le idx
          simp only [getDom_set, hi, and_self, if_true] at h1
          have h2 := wbNew_inside (getDom w.doms idx) o off
          simp only [Dom.shift]
          omega
    · rw [if_neg hev]
      have ih := writeBack_spec P ne vs os w hf hlt hl' hidx'
      obtain ⟨ihd, iht, ihok⟩ := ih
      refine ⟨ihd, iht, fun hnf => ?_⟩
      have ok := ihok hnf
      refine ⟨ok.le, ok.nonempty, ok.mono, ok.wake, ?_⟩
      rw [views_cons]
      refine ⟨?_, ok.inside⟩
      have h1 := Box.le_getDom ok.le idx
      have h2 := not_wbChanged _ _ _ hev
      simp only [Dom.shift]
      omega

end Nucs
