import NucsProofs.Engine.BcLoop
/-!
  The shipped scheduler (`pop_propagator` with the fall-back of the repaired loop head) is
  admissible, and the initial state satisfies the invariant.
-/
namespace Nucs

theorem findTrig_some (prev : Option Nat) : ∀ (trig : List Bool) (i0 i : Nat), findTrig prev i0 trig = some i →
    i0 ≤ i ∧ getB trig (i - i0) = true ∧ i - i0 < trig.length
  | [], _, _, h => by simp [findTrig] at h
  | b :: bs, i0, i, h => by
    simp only [findTrig] at h
    split at h
    · rename_i hb
      injection h with h; subst h
      simp only [Bool.and_eq_true] at hb
      simp [getB, hb.1]
    · have := findTrig_some prev bs (i0 + 1) i h
      obtain ⟨h1, h2, h3⟩ := this
      have e : i - i0 = (i - (i0 + 1)) + 1 := by omega
      refine ⟨by omega, ?_, ?_⟩
      · rw [e]; simpa [getB] using h2
      · rw [e]; simp; omega

theorem findTrig_none_none : ∀ (trig : List Bool) (i0 : Nat), findTrig none i0 trig = none → ∀ i, getB trig i = false
  | [], _, _, i => by simp [getB]
  | b :: bs, i0, h, i => by
    simp only [findTrig] at h
    split at h
    · cases h
    · rename_i hb
      have hb' : b = false := by simpa using hb
      cases i with
      | zero => simp [getB, hb']
      | succ i => simpa [getB] using findTrig_none_none bs (i0 + 1) h i

theorem pickProp_ok : PickOk pickProp := by
  constructor
  · intro trig prev i h
    unfold pickProp at h
    split at h
    · rename_i j hj
      injection h with h; subst h
      have := findTrig_some prev trig 0 j hj
      simpa using this.2
    · have := findTrig_some none trig 0 i h
      simpa using this.2
  · intro trig prev h
    unfold pickProp at h
    split at h
    · cases h
    · exact findTrig_none_none trig 0 h

/-- any other admissible choice, e.g. "highest queued index first", also satisfies `PickOk`;
    `bcLoopG_inv` is stated for every such scheduler -/
theorem getB_replicate_true (n i : Nat) (h : i < n) : getB (List.replicate n true) i = true := by
  simp [getB, List.getD, h]

/-- the initial state (all constraints queued, all enabled, root domains) satisfies the invariant -/
theorem Inv_init (P : Problem) (hne : P.shr.Nonempty) : Inv P (State.init P) := by
  refine ⟨by simp [State.init], by simp [State.init], Box.le_refl _, hne, ?_, ?_⟩
  · intro q hq _
    left
    simp only [State.init]
    exact getB_replicate_true _ _ hq
  · intro q hq h
    simp only [State.init] at h
    rw [getB_replicate_true _ _ hq] at h
    cases h

end Nucs
