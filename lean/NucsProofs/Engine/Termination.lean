import NucsProofs.Engine.Sched
import NucsProofs.Engine.C08Local
/-!
  C04 — propagation terminates, after a number of constraint executions bounded by
  (total domain size) × (number of constraints).

  Measure of a state, for a problem with `n` posted constraints:

      mu P s = width s.top.doms * (n + 1) + queued s.trig

  where `width D = Σ_d (max d − min d)` and `queued` counts the raised flags of the queue.
  One loop iteration of `bcLoopG` that does not end the pass strictly decreases `mu`
  (`afterRun_mu`): the popped flag is cleared; if the write-back changed nothing the domains and
  the other flags are untouched (`writeBack_nochange`), otherwise at least one domain lost a value
  (`writeBack_width`) while at most `n` flags are raised.

  * `bcLoopG_terminates` : for EVERY admissible scheduler, `mu P s < fuel` fuel is enough
  * `bcLoopG_filter_le`  : whatever the fuel, a pass that returns executed at most `mu P s`
                           constraints (`FILTER` counter; `StatsProofs.lean` shows that this counter
                           is exactly the number of executions)
  * `mu_le`, `bcFuel_gt` : `mu P s + 1 ≤ (width + 1) * (n + 1) ≤ bcFuel P s`
  * `C04_bcPass`         : the shipped pass never runs out of its fuel
  The `(max − min)` are taken on the CURRENT domains, so the bound also holds for every pass
  deeper in the search tree, with the current (smaller) widths.
-/
namespace Nucs

/-- total domain size beyond one value per variable: `Σ_d (max d − min d)` -/
def width (D : Box) : Nat := (D.map (fun d => (d.2 - d.1).toNat)).sum

/-- number of queued constraints -/
def queued (l : List Bool) : Nat := l.count true

/-- the termination measure -/
def mu (P : Problem) (s : State) : Nat := width s.top.doms * (P.props.length + 1) + queued s.trig

/-! ### list arithmetic -/

theorem width_cons (d : Dom) (ds : Box) : width (d :: ds) = (d.2 - d.1).toNat + width ds := by
  simp [width]

theorem width_set : ∀ (D : Box) (i : Nat) (v : Dom), i < D.length →
    width (D.set i v) + ((getDom D i).2 - (getDom D i).1).toNat = width D + (v.2 - v.1).toNat
  | [], _, _, h => by simp at h
  | d :: ds, 0, v, _ => by
    simp only [List.set_cons_zero, width_cons, getDom, List.getD_cons_zero]; omega
  | d :: ds, i + 1, v, h => by
    have ih := width_set ds i v (by simpa using h)
    simp only [getDom] at ih
    simp only [List.set_cons_succ, width_cons, getDom, List.getD_cons_succ]; omega

theorem queued_le_length (l : List Bool) : queued l ≤ l.length := List.count_le_length

theorem queued_set_false : ∀ (l : List Bool) (i : Nat), getB l i = true →
    queued (l.set i false) + 1 = queued l
  | [], _, h => by simp [getB] at h
  | b :: bs, 0, h => by
    have hb : b = true := by simpa [getB] using h
    subst hb
    simp [queued]
  | b :: bs, i + 1, h => by
    have ih := queued_set_false bs i (by simpa [getB] using h)
    simp only [queued] at ih ⊢
    simp only [List.set_cons_succ, List.count_cons]
    omega

/-! ### the write-back, quantitatively -/

/-- a real change that leaves the domain non-empty removes at least one value -/
theorem wbNew_strict (cur o : Dom) (off : Int) (h : wbChanged cur o off = true)
    (hne : ¬ (wbNew cur o off).1 > (wbNew cur o off).2) :
    ((wbNew cur o off).2 - (wbNew cur o off).1).toNat < (cur.2 - cur.1).toNat := by
  simp only [wbChanged, Bool.or_eq_true, decide_eq_true_eq] at h
  revert hne
  simp only [wbNew]
  split <;> split <;> intro hne <;> omega

theorem writeBack_changed_mono (P : Problem) (ne : List Bool) :
    ∀ (vars : List (Nat × Int)) (out : Box) (w : WB), w.changed = true →
      (writeBack P ne vars out w).changed = true
  | [], _, w, h => by simpa [writeBack] using h
  | _ :: _, [], w, h => by simpa [writeBack] using h
  | (idx, off) :: vs, o :: os, w, h => by
    simp only [writeBack]
    split
    · exact h
    · split
      · split
        · exact h
        · exact writeBack_changed_mono P ne vs os _ rfl
      · exact writeBack_changed_mono P ne vs os w h

/-- (i) a write-back that reports "no change" (and no failure) returns the very same domains and
    the very same queue -/
theorem writeBack_nochange (P : Problem) (ne : List Bool) :
    ∀ (vars : List (Nat × Int)) (out : Box) (w : WB),
      (writeBack P ne vars out w).changed = false → (writeBack P ne vars out w).failed = false →
      (writeBack P ne vars out w).doms = w.doms ∧ (writeBack P ne vars out w).trig = w.trig
  | [], _, w, _, _ => by simp [writeBack]
  | _ :: _, [], w, _, _ => by simp [writeBack]
  | (idx, off) :: vs, o :: os, w, hc, hf => by
    simp only [writeBack] at hc hf ⊢
    split
    · exact ⟨rfl, rfl⟩
    · rename_i hwf
      rw [if_neg hwf] at hc hf
      split
      · rename_i hch
        rw [if_pos hch] at hc hf
        split
        · rename_i hemp
          rw [if_pos hemp] at hf
          simp at hf
        · rename_i hemp
          rw [if_neg hemp] at hc
          rw [writeBack_changed_mono P ne vs os _ rfl] at hc
          cases hc
      · rename_i hch
        rw [if_neg hch] at hc hf
        exact writeBack_nochange P ne vs os w hc hf

/-- (ii) every effective step of a non-failing write-back removes at least one value: the width
    plus "nothing changed yet" never increases, so `changed` going from false to true costs one -/
theorem writeBack_width (P : Problem) (ne : List Bool) :
    ∀ (vars : List (Nat × Int)) (out : Box) (w : WB), w.failed = false →
      (∀ v ∈ vars, v.1 < w.doms.length) → (writeBack P ne vars out w).failed = false →
      width (writeBack P ne vars out w).doms + (if (writeBack P ne vars out w).changed then 1 else 0)
        ≤ width w.doms + (if w.changed then 1 else 0)
  | [], _, w, _, _, _ => by simp only [writeBack]; exact Nat.le_refl _
  | _ :: _, [], w, _, _, _ => by simp only [writeBack]; exact Nat.le_refl _
  | (idx, off) :: vs, o :: os, w, hwf, hidx, hf => by
    have hi : idx < w.doms.length := hidx (idx, off) (by simp)
    have hidx' : ∀ v ∈ vs, v.1 < w.doms.length := fun v hv => hidx v (by simp [hv])
    simp only [writeBack, hwf, Bool.false_eq_true, if_false] at hf ⊢
    by_cases hch : wbChanged (getDom w.doms idx) o off = true
    · rw [if_pos hch] at hf ⊢
      by_cases hemp : (wbNew (getDom w.doms idx) o off).1 > (wbNew (getDom w.doms idx) o off).2
      · rw [if_pos hemp] at hf; simp at hf
      · rw [if_neg hemp] at hf ⊢
        have ih := writeBack_width P ne vs os
          { doms := w.doms.set idx (wbNew (getDom w.doms idx) o off),
            trig := addProps P w.trig ne idx (wbEv (getDom w.doms idx) o off), changed := true, failed := false }
          rfl (by intro v hv; simpa using hidx' v hv) hf
        have hs := wbNew_strict _ _ _ hch hemp
        have hw := width_set w.doms idx (wbNew (getDom w.doms idx) o off) hi
        simp only [if_true] at ih
        omega
    · rw [if_neg hch] at hf ⊢
      exact writeBack_width P ne vs os w hwf hidx' hf

/-! ### one loop iteration decreases the measure -/

theorem afterRun_mu {P : Problem} (hP : ProbOk P) (hW : WFP P) {s : State} (hI : Inv P s)
    {pi : Nat} (hpi : pi < P.props.length) (hq : getB s.trig pi = true)
    {st0 : Status} {out : Box} (hst0 : st0 ≠ .inc)
    (hrun : runAlg (P.prop pi).alg (P.prop pi).params (views s.top.doms (P.prop pi).vars) = .ok (st0, out))
    (hnf : (afterRun P s pi st0 out).1 = false) :
    mu P (afterRun P s pi st0 out).2 < mu P s := by
  have hlen := (afterRun_inv hP hW hI hpi hst0 hrun).2.1
  have hex : ∃ w : WB, w = writeBack P (if st0 == .ent then s.top.ne.set pi false else s.top.ne)
      (P.prop pi).vars out
      { doms := s.top.doms, trig := s.trig.set pi false, changed := false, failed := false } := ⟨_, rfl⟩
  obtain ⟨w, hw⟩ := hex
  have h1 : (afterRun P s pi st0 out).1 = w.failed := by rw [hw]; rfl
  have h2 : (afterRun P s pi st0 out).2.top.doms = w.doms := by rw [hw]; rfl
  have h3 : (afterRun P s pi st0 out).2.trig = w.trig := by rw [hw]; rfl
  rw [h1] at hnf
  rw [h3] at hlen
  unfold mu
  rw [h2, h3]
  cases hc : w.changed with
  | false =>
    have := writeBack_nochange P _ (P.prop pi).vars out
      { doms := s.top.doms, trig := s.trig.set pi false, changed := false, failed := false }
      (by rw [← hw]; exact hc) (by rw [← hw]; exact hnf)
    rw [← hw] at this
    simp only at this
    rw [this.1, this.2]
    have := queued_set_false s.trig pi hq
    omega
  | true =>
    have hlenD : s.top.doms.length = P.shr.length := Box.le_length hI.sub
    have := writeBack_width P (if st0 == .ent then s.top.ne.set pi false else s.top.ne) (P.prop pi).vars out
      { doms := s.top.doms, trig := s.trig.set pi false, changed := false, failed := false } rfl
      (by intro v hv; simp only; rw [hlenD]; exact hW _ (P.prop_mem pi hpi) v hv)
      (by rw [← hw]; exact hnf)
    rw [← hw, hc] at this
    simp only [if_true, Bool.false_eq_true, if_false, Nat.add_zero] at this
    have hql := queued_le_length w.trig
    rw [hlen] at hql
    have hm := Nat.mul_le_mul_right (P.props.length + 1) this
    rw [Nat.add_mul] at hm
    omega

/-! ### C04 for every admissible scheduler -/

/-- the loop returns as soon as its fuel exceeds the measure of the start state -/
theorem bcLoopG_terminates {pick : Picker} (hp : PickOk pick) {P : Problem} (hP : ProbOk P) (hW : WFP P)
    (hS : ∀ p ∈ P.props, Safe p.alg) :
    ∀ (fuel : Nat) (prev : Option Nat) (s : State), Inv P s → mu P s < fuel →
      ∃ st s', bcLoopG pick P fuel prev s = .ok (st, s')
  | 0, _, _, _, h => by omega
  | fuel + 1, prev, s, hI, hf => by
    simp only [bcLoopG]
    cases hpick : pick s.trig prev with
    | none => exact ⟨_, _, rfl⟩
    | some pi =>
      simp only
      obtain ⟨hq, hpi⟩ := hp.some_ _ _ _ hpick
      rw [hI.lenT] at hpi
      have hprop : P.props.getD pi default = P.prop pi := rfl
      rw [hprop]
      obtain ⟨r, hrun⟩ := hS _ (P.prop_mem pi hpi) _ _ (contract_at hP hI.sub pi hpi)
        (views_nonempty hI.nonempty (P.prop pi).vars)
      obtain ⟨st0, out⟩ := r
      rw [hrun]
      have tail : st0 ≠ .inc → ∃ st s',
          (if (afterRun P s pi st0 out).1 = true then (Except.ok (BcStatus.inconsistent, (afterRun P s pi st0 out).2) : Except EngErr (BcStatus × State))
            else bcLoopG pick P fuel (some pi) (afterRun P s pi st0 out).2) = .ok (st, s') := by
        intro hst0
        split
        · exact ⟨_, _, rfl⟩
        · rename_i hnf
          have hnf' : (afterRun P s pi st0 out).1 = false := by simpa using hnf
          obtain ⟨hI1, _⟩ := (afterRun_inv hP hW hI hpi hst0 hrun).2.2 hnf'
          have hmu := afterRun_mu hP hW hI hpi hq hst0 hrun hnf'
          exact bcLoopG_terminates hp hP hW hS fuel (some pi) _ hI1 (by omega)
      cases st0 with
      | inc => exact ⟨_, _, rfl⟩
      | cons => simpa using tail (by decide)
      | ent => simpa using tail (by decide)

/-- whatever the fuel, a pass that returns has executed at most `mu P s` constraints -/
theorem bcLoopG_filter_le {pick : Picker} (hp : PickOk pick) {P : Problem} (hP : ProbOk P) (hW : WFP P) :
    ∀ (fuel : Nat) (prev : Option Nat) (s : State) (st : BcStatus) (s' : State), Inv P s →
      bcLoopG pick P fuel prev s = .ok (st, s') → s'.stats.filter ≤ s.stats.filter + mu P s
  | 0, _, _, _, _, _, h => by simp [bcLoopG] at h
  | fuel + 1, prev, s, st, s', hI, h => by
    simp only [bcLoopG] at h
    cases hpick : pick s.trig prev with
    | none =>
      rw [hpick] at h
      simp only at h
      injection h with h; injection h with h1 h2; subst h2
      omega
    | some pi =>
      rw [hpick] at h
      simp only at h
      obtain ⟨hq, hpi0⟩ := hp.some_ _ _ _ hpick
      have hpi := hpi0
      rw [hI.lenT] at hpi
      have hpos : 1 ≤ mu P s := by
        have := queued_set_false s.trig pi hq
        unfold mu; omega
      have hprop : P.props.getD pi default = P.prop pi := rfl
      rw [hprop] at h
      cases hrun : runAlg (P.prop pi).alg (P.prop pi).params (views s.top.doms (P.prop pi).vars) with
      | error e => rw [hrun] at h; cases e <;> simp at h
      | ok r =>
        obtain ⟨st0, out⟩ := r
        rw [hrun] at h
        have hfil : (afterRun P s pi st0 out).2.stats.filter = s.stats.filter + 1 := rfl
        have tail : st0 ≠ .inc →
            (if (afterRun P s pi st0 out).1 = true then (Except.ok (BcStatus.inconsistent, (afterRun P s pi st0 out).2) : Except EngErr (BcStatus × State))
              else bcLoopG pick P fuel (some pi) (afterRun P s pi st0 out).2) = .ok (st, s') →
            s'.stats.filter ≤ s.stats.filter + mu P s := by
          intro hst0 h
          split at h
          · injection h with h; injection h with h1 h2; subst h2
            rw [hfil]; omega
          · rename_i hnf
            have hnf' : (afterRun P s pi st0 out).1 = false := by simpa using hnf
            obtain ⟨hI1, _⟩ := (afterRun_inv hP hW hI hpi hst0 hrun).2.2 hnf'
            have hmu := afterRun_mu hP hW hI hpi hq hst0 hrun hnf'
            have ih := bcLoopG_filter_le hp hP hW fuel (some pi) _ st s' hI1 h
            rw [hfil] at ih; omega
        cases st0 with
        | inc =>
          simp only at h
          injection h with h; injection h with h1 h2; subst h2
          simp only [failRun]; omega
        | cons => exact tail (by decide) (by simpa using h)
        | ent => exact tail (by decide) (by simpa using h)

/-! ### the bound in closed form, and the shipped pass -/

/-- `mu P s + 1 ≤ (W + 1) * (n + 1)`: (total domain size) × (number of constraints) -/
theorem mu_le {P : Problem} {s : State} (hl : s.trig.length = P.props.length) :
    mu P s + 1 ≤ (width s.top.doms + 1) * (P.props.length + 1) := by
  have := queued_le_length s.trig
  unfold mu
  rw [Nat.add_mul]
  omega

theorem foldl_width : ∀ (D : Box) (a : Nat),
    D.foldl (fun acc d => acc + (d.2 - d.1).toNat + 1) a = a + width D + D.length
  | [], a => by simp [width]
  | d :: ds, a => by
    rw [List.foldl_cons, foldl_width ds, width_cons, List.length_cons]; omega

/-- the fuel the model grants itself exceeds the bound -/
theorem bcFuel_gt (P : Problem) (s : State) :
    (width s.top.doms + 1) * (P.props.length + 1) < bcFuel P s := by
  unfold bcFuel
  simp only [foldl_width]
  have h : width s.top.doms + 1 ≤ 0 + width s.top.doms + s.top.doms.length + 2 := by omega
  have := Nat.mul_le_mul_right (P.props.length + 1) h
  omega

/-- C04, general form: every admissible scheduler, any state satisfying the engine invariant, any
    fuel of at least (total domain size + 1) × (number of constraints + 1) -/
theorem C04_any_scheduler {pick : Picker} (hp : PickOk pick) {P : Problem} (hP : ProbOk P) (hW : WFP P)
    (hS : ∀ p ∈ P.props, Safe p.alg) (fuel : Nat) (prev : Option Nat) (s : State) (hI : Inv P s)
    (hf : (width s.top.doms + 1) * (P.props.length + 1) ≤ fuel) :
    ∃ st s', bcLoopG pick P fuel prev s = .ok (st, s') ∧
      s'.stats.filter - s.stats.filter < (width s.top.doms + 1) * (P.props.length + 1) := by
  have hm := mu_le (P := P) hI.lenT
  obtain ⟨st, s', h⟩ := bcLoopG_terminates hp hP hW hS fuel prev s hI (by omega)
  have := bcLoopG_filter_le hp hP hW fuel prev s st s' hI h
  exact ⟨st, s', h, by omega⟩

/-- the invariant does not mention the statistics -/
theorem Inv_withStats {P : Problem} {s : State} (hI : Inv P s) (x : Stats) : Inv P { s with stats := x } :=
  ⟨hI.lenT, hI.lenN, hI.sub, hI.nonempty, hI.fix, hI.ent⟩

/-- C04 for the shipped `bound_consistency_algorithm`: the pass returns (never `.error .fuel`,
    never `.error .oob`), having executed fewer than (W + 1) × (n + 1) constraints -/
theorem C04_bcPass {P : Problem} (hP : ProbOk P) (hW : WFP P) (hS : ∀ p ∈ P.props, Safe p.alg)
    (s : State) (hI : Inv P s) :
    ∃ st s', bcPass P s = .ok (st, s') ∧
      s'.stats.filter - s.stats.filter < (width s.top.doms + 1) * (P.props.length + 1) := by
  have h := C04_any_scheduler pickProp_ok hP hW hS (bcFuel P s) none _
    (Inv_withStats hI { s.stats with bc := s.stats.bc + 1 }) (Nat.le_of_lt (bcFuel_gt P s))
  exact h

theorem C04_bcPass_no_fuel_error {P : Problem} (hP : ProbOk P) (hW : WFP P) (hS : ∀ p ∈ P.props, Safe p.alg)
    (s : State) (hI : Inv P s) (e : EngErr) : bcPass P s ≠ .error e := by
  obtain ⟨st, s', h, _⟩ := C04_bcPass hP hW hS s hI
  rw [h]; intro h'; cases h'

/-! ### non-vacuity -/

/-- x, y ∈ [0,5], x + y ≤ 4, max(x) ≤ y: W = 10, n = 2 -/
def c04Example : Problem :=
  ⟨[(0, 5), (0, 5)], [(0, 0), (1, 0)],
   [⟨.affineLeq, [(0, 0), (1, 0)], [1, 1, 4]⟩, ⟨.maxLeq, [(0, 0), (1, 0)], []⟩]⟩

theorem c04Example_ok : ProbOk c04Example ∧ WFP c04Example ∧ (∀ p ∈ c04Example.props, Safe p.alg) ∧
    Inv c04Example (State.init c04Example) := by
  refine ⟨⟨?_, ?_⟩, ?_, ?_, Inv_init _ (by simp [c04Example, Box.Nonempty])⟩
  · intro p hp
    simp only [c04Example, List.mem_cons, List.mem_nil_iff, or_false] at hp
    rcases hp with rfl | rfl
    · exact localOk_affineLeq
    · exact localOk_maxLeq
  · intro p hp
    simp only [c04Example, List.mem_cons, List.mem_nil_iff, or_false] at hp
    rcases hp with rfl | rfl <;> simp [Contract, views, c04Example]
  · intro p hp v hv
    simp only [c04Example, List.mem_cons, List.mem_nil_iff, or_false] at hp
    rcases hp with rfl | rfl <;>
      (simp only [List.mem_cons, List.mem_nil_iff, or_false] at hv; rcases hv with rfl | rfl <;> simp [c04Example])
  · intro p hp
    simp only [c04Example, List.mem_cons, List.mem_nil_iff, or_false] at hp
    rcases hp with rfl | rfl
    · exact safe_affineLeq
    · exact safe_maxLeq

/-- the hypotheses of `C04_bcPass` are satisfiable, and the bound is a concrete number: 33 -/
example : ∃ st s', bcPass c04Example (State.init c04Example) = .ok (st, s') ∧ s'.stats.filter - 0 < 33 :=
  C04_bcPass c04Example_ok.1 c04Example_ok.2.1 c04Example_ok.2.2.1 _ c04Example_ok.2.2.2

end Nucs
