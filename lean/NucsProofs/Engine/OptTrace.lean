import NucsModel.Engine.OptTrace
import NucsProofs.Engine.MPEndToEnd
/-!
  The stream of a multiprocessing optimisation worker, computed (`optimizeTrace`,
  NucsModel/Engine/OptTrace.lean: `optimize_and_queue` sends EVERY improving solution), and C11 end to
  end for optimisation without assumptions on the streams.

    * `optimizeTrace_optimize_eq`   `optimize … s acc.getLast? = (optimizeTrace … s acc).map (last, state)`
                                    — results, final states and errors;  corollaries
                                    `optimizeTrace_optimize`, `optimize_optimizeTrace`,
                                    `optimizeTrace_error_iff`, `optimizeTrace_optimize_init` (from `acc = []`,
                                    `best = none`: `optimize` returns the last element of the trace, `none`
                                    iff the trace is empty), `optimizeTrace_acc` (the accumulator is a prefix);
    * `optimizeTrace_inv`           the loop invariant (general accumulator), from `Dfs.solveOne_space`;
    * `optimizeTrace_solutions`     every element of the trace is `reported P σ` with `SolW P σ`;
    * `optimizeTrace_improving`     the trace is strictly improving for the parent's comparison function
                                    (`Nucs.better`); `optimizeTrace_improving_values` for the values / `Dfs.better`;
    * `optimizeTrace_returns`       under the hypotheses of `C03_optimum` the trace is returned;
    * `optimizeTrace_stream`        the hypotheses `hW`, `hWsol` of `C11_end_to_end_optimize` hold of the trace;
    * `C11_end_to_end_optimize_trace`, `…_of_partition`, `…_bc`   C11 end to end with worker `i`'s stream
                                    = the trace of `optimizeTrace` on sub-problem `i`.
  Not imported together with NucsProofs/Engine/Split.lean (see MPEndToEnd.lean).
-/
namespace Nucs

/-! ### `optimizeTrace` and `optimize` -/

/-- THE LINK, as one equation (results, final states and errors): running `optimize` from the
    incumbent `acc.getLast?` is running `optimizeTrace` from the accumulator `acc` and keeping only the
    last element of the trace -/
theorem optimizeTrace_optimize_eq (P : Problem) (cfg : Config) (v : Nat) (mn : Bool) (fuel1 : Nat) :
    ∀ (fuel : Nat) (s : State) (acc : List (List Int)),
      optimize P cfg v mn fuel1 fuel s acc.getLast? =
        (optimizeTrace P cfg v mn fuel1 fuel s acc).map (fun p => (p.1.getLast?, p.2))
  | 0, _, _ => rfl
  | fuel + 1, s, acc => by
    simp only [optimize, optimizeTrace]
    cases h1 : solveOne P cfg fuel1 s with
    | error e => rfl
    | ok res =>
      obtain ⟨r1, s1⟩ := res
      cases r1 with
      | none => rfl
      | some sol =>
        simp only
        cases hvar : P.vars.getD v (0, 0) with
        | mk di off =>
          simp only
          split
          · simp [Except.map]
          · rw [← optimizeTrace_optimize_eq P cfg v mn fuel1 fuel _ (acc ++ [sol])]
            simp

/-- `optimizeTrace` returns `(tr, s')` ⇒ `optimize`, from the last element of the accumulator, returns
    the last element of `tr` and the same final state -/
theorem optimizeTrace_optimize (P : Problem) (cfg : Config) (v : Nat) (mn : Bool) (fuel1 fuel : Nat) (s : State)
    (acc tr : List (List Int)) (s' : State)
    (h : optimizeTrace P cfg v mn fuel1 fuel s acc = .ok (tr, s')) :
    optimize P cfg v mn fuel1 fuel s acc.getLast? = .ok (tr.getLast?, s') := by
  rw [optimizeTrace_optimize_eq, h]; rfl

/-- … and conversely: whatever `optimize` returns is the last element of the trace -/
theorem optimize_optimizeTrace (P : Problem) (cfg : Config) (v : Nat) (mn : Bool) (fuel1 fuel : Nat) (s : State)
    (acc : List (List Int)) (r : Option (List Int)) (s' : State)
    (h : optimize P cfg v mn fuel1 fuel s acc.getLast? = .ok (r, s')) :
    ∃ tr, optimizeTrace P cfg v mn fuel1 fuel s acc = .ok (tr, s') ∧ tr.getLast? = r := by
  rw [optimizeTrace_optimize_eq] at h
  cases h' : optimizeTrace P cfg v mn fuel1 fuel s acc with
  | error e => rw [h'] at h; cases h
  | ok p =>
    obtain ⟨tr, s''⟩ := p
    rw [h'] at h
    simp only [Except.map, Except.ok.injEq, Prod.mk.injEq] at h
    obtain ⟨h2, h3⟩ := h
    subst h2; subst h3
    exact ⟨tr, rfl, rfl⟩

/-- the two loops fail together, with the same error -/
theorem optimizeTrace_error_iff (P : Problem) (cfg : Config) (v : Nat) (mn : Bool) (fuel1 fuel : Nat) (s : State)
    (acc : List (List Int)) (e : EngErr) :
    optimizeTrace P cfg v mn fuel1 fuel s acc = .error e ↔ optimize P cfg v mn fuel1 fuel s acc.getLast? = .error e := by
  rw [optimizeTrace_optimize_eq]
  cases optimizeTrace P cfg v mn fuel1 fuel s acc with
  | error e' => simp [Except.map]
  | ok p => simp [Except.map]

/-- the accumulator is only ever extended: a run from `acc` is the run from `[]` with `acc` in front -/
theorem optimizeTrace_acc (P : Problem) (cfg : Config) (v : Nat) (mn : Bool) (fuel1 : Nat) :
    ∀ (fuel : Nat) (s : State) (acc : List (List Int)),
      optimizeTrace P cfg v mn fuel1 fuel s acc =
        (optimizeTrace P cfg v mn fuel1 fuel s []).map (fun p => (acc ++ p.1, p.2))
  | 0, _, _ => rfl
  | fuel + 1, s, acc => by
    simp only [optimizeTrace]
    cases h1 : solveOne P cfg fuel1 s with
    | error e => rfl
    | ok res =>
      obtain ⟨r1, s1⟩ := res
      cases r1 with
      | none => simp [Except.map]
      | some sol =>
        simp only
        cases hvar : P.vars.getD v (0, 0) with
        | mk di off =>
          simp only
          split
          · simp [Except.map]
          · rw [optimizeTrace_acc P cfg v mn fuel1 fuel _ (acc ++ [sol]),
              optimizeTrace_acc P cfg v mn fuel1 fuel _ ([] ++ [sol])]
            cases optimizeTrace P cfg v mn fuel1 fuel
              (resetTighten P s1 v (getI sol v) mn) [] with
            | error e => rfl
            | ok p => simp [Except.map]

/-- THE LINK, from the initial call: `optimize` (incumbent `none`) returns the LAST element of the
    worker's stream — `none` exactly when the stream is empty — and ends in the same state -/
theorem optimizeTrace_optimize_init (P : Problem) (cfg : Config) (v : Nat) (mn : Bool) (fuel1 fuel : Nat) (s : State) :
    (∀ tr s', optimizeTrace P cfg v mn fuel1 fuel s [] = .ok (tr, s') →
      optimize P cfg v mn fuel1 fuel s none = .ok (tr.getLast?, s')) ∧
    (∀ r s', optimize P cfg v mn fuel1 fuel s none = .ok (r, s') →
      ∃ tr, optimizeTrace P cfg v mn fuel1 fuel s [] = .ok (tr, s') ∧ tr.getLast? = r ∧ (r = none ↔ tr = [])) ∧
    (∀ e, optimizeTrace P cfg v mn fuel1 fuel s [] = .error e ↔ optimize P cfg v mn fuel1 fuel s none = .error e) := by
  refine ⟨fun tr s' h => optimizeTrace_optimize P cfg v mn fuel1 fuel s [] tr s' h, fun r s' h => ?_,
    fun e => optimizeTrace_error_iff P cfg v mn fuel1 fuel s [] e⟩
  obtain ⟨tr, h1, h2⟩ := optimize_optimizeTrace P cfg v mn fuel1 fuel s [] r s' h
  refine ⟨tr, h1, h2, ?_⟩
  rw [← h2]
  exact List.getLast?_eq_none_iff

/-! ### along the trace: accepted assignments, strictly improving -/

/-- the parent's comparison function (`Nucs.better`, strict) in terms of the objective values -/
theorem better_iff (mn : Bool) (v : Nat) (y x : List Int) :
    better mn v y x = true ↔ (if mn then getI y v < getI x v else getI x v < getI y v) := by
  unfold better
  cases mn <;> simp

theorem better_trans' {mn : Bool} {v : Nat} {z y x : List Int} (h1 : better mn v z y = true)
    (h2 : better mn v y x = true) : better mn v z x = true := by
  rw [better_iff] at *
  cases mn <;> simp only [if_true, Bool.false_eq_true, if_false] at * <;> omega

/-- strictly better is at least as good (`Dfs.better` is the non-strict order of C03) -/
theorem dfsBetter_of_better {mn : Bool} {v : Nat} {y x : List Int} (h : better mn v y x = true) :
    Dfs.better mn (getI y v) (getI x v) := by
  rw [better_iff] at h
  unfold Dfs.better
  cases mn <;> simp only [if_true, Bool.false_eq_true, if_false] at * <;> omega

theorem not_better_self (mn : Bool) (v : Nat) (x : List Int) : better mn v x x = false := by
  unfold better
  cases mn <;> simp

section trace
variable {P : Problem} (hP : ProbOk P) (cfg : Config) (hcons : ConsOk P cfg) (hkeep : Dfs.ConsKeeps P cfg) (hcost : CostOk cfg)
  (v : Nat) (hv : v < P.vars.length) (di : Nat) (off : Int) (hvar : P.vars.getD v (0, 0) = (di, off))
  (hdi : di < P.shr.length) (mn : Bool)

include hv hvar hdi in
/-- every assignment of the tightened box is STRICTLY better than the incumbent -/
theorem tighten_strict (s1 : State) (σ τ : List Int)
    (hτ : inBox τ (resetTighten P s1 v (getI (reported P σ) v) mn).top.doms) :
    better mn v (reported P τ) (reported P σ) = true := by
  rw [(Dfs.resetTighten_shape P s1 v _ mn di off hvar).1] at hτ
  have h := inBox_get di hτ (by rw [List.length_set]; exact hdi)
  rw [getDom_set] at h
  simp only [hdi, and_self, if_true] at h
  rw [better_iff, Dfs.obj_eq v hv di off hvar τ]
  rw [Dfs.obj_eq v hv di off hvar σ] at h ⊢
  cases mn <;> simp only [if_true, Bool.false_eq_true, if_false] at h ⊢ <;> omega

include hP hcons hkeep hcost hv hvar hdi in
/-- the invariant of the worker's loop.  For the state `s` a search starts from and the solutions
    `acc` sent so far: they are accepted assignments, each strictly better than the ones before, and
    every assignment of the box of `s` is strictly better than all of them. -/
theorem optimizeTrace_inv (fuel1 : Nat) :
    ∀ (fuel : Nat) (s : State) (acc tr : List (List Int)) (s' : State), Pre P s → s.below = [] →
      (∀ x ∈ acc, ∃ σ, SolW P σ ∧ x = reported P σ) →
      acc.Pairwise (fun x y => better mn v y x = true) →
      (∀ x ∈ acc, ∀ τ, inBox τ s.top.doms → better mn v (reported P τ) x = true) →
      optimizeTrace P cfg v mn fuel1 fuel s acc = .ok (tr, s') →
      (∀ x ∈ tr, ∃ σ, SolW P σ ∧ x = reported P σ) ∧ tr.Pairwise (fun x y => better mn v y x = true)
  | 0, _, _, _, _, _, _, _, _, _, h => by simp [optimizeTrace] at h
  | fuel + 1, s, acc, tr, s', hpre, hbel, hsol, hpw, hbox, h => by
    simp only [optimizeTrace] at h
    cases h1 : solveOne P cfg fuel1 s with
    | error e => rw [h1] at h; simp at h
    | ok res =>
      obtain ⟨r1, s1⟩ := res
      rw [h1] at h
      have ho := Dfs.solveOne_space hP cfg hcons hkeep hcost fuel1 s r1 s1 (Dfs.SInv_single hpre hbel) h1
      cases r1 with
      | none =>
        simp only at h
        injection h with h; injection h with h2 _; subst h2
        exact ⟨hsol, hpw⟩
      | some sol =>
        simp only at h
        obtain ⟨hg, hsol', hw, _, hsub, _⟩ := ho.some_ sol rfl
        subst hsol'
        have hσT : inBox (assignOf s1.top.doms) s.top.doms :=
          (Dfs.In_single hbel).mp (hsub _ (Dfs.In_cons.mpr (Or.inl (Dfs.inBox_assignOf_self hg))))
        -- the accumulator extended by the new solution keeps the first two invariants
        have hsol2 : ∀ x ∈ acc ++ [reported P (assignOf s1.top.doms)], ∃ σ, SolW P σ ∧ x = reported P σ := by
          intro x hx
          rcases List.mem_append.mp hx with hx | hx
          · exact hsol x hx
          · rw [List.mem_singleton] at hx; subst hx; exact ⟨_, hw, rfl⟩
        have hpw2 : (acc ++ [reported P (assignOf s1.top.doms)]).Pairwise (fun x y => better mn v y x = true) := by
          rw [List.pairwise_append]
          refine ⟨hpw, List.pairwise_singleton _ _, fun a ha b hb => ?_⟩
          rw [List.mem_singleton] at hb; subst hb
          exact hbox a ha _ hσT
        rw [hvar] at h
        simp only at h
        split at h
        · injection h with h; injection h with h2 _; subst h2
          exact ⟨hsol2, hpw2⟩
        · rename_i hne
          have hne' : (getDom (resetTighten P s1 v (getI (reported P (assignOf s1.top.doms)) v) mn).top.doms (P.vars.getD v (0, 0)).1).1 ≤
              (getDom (resetTighten P s1 v (getI (reported P (assignOf s1.top.doms)) v) mn).top.doms (P.vars.getD v (0, 0)).1).2 := by
            rw [hvar]; simpa using hne
          have hpre2 := Pre_resetTighten s1 v hv mn (assignOf s1.top.doms) hw.1 hne'
          refine optimizeTrace_inv fuel1 fuel _ _ tr s' hpre2 (Dfs.resetTighten_shape P s1 v _ mn di off hvar).2
            hsol2 hpw2 (fun x hx τ hτ => ?_) h
          have hnew := tighten_strict v hv di off hvar hdi mn s1 (assignOf s1.top.doms) τ hτ
          rcases List.mem_append.mp hx with hx | hx
          · exact better_trans' hnew (hbox x hx _ hσT)
          · rw [List.mem_singleton] at hx; subst hx; exact hnew

end trace

/-- in a list ordered by `R`, the last element is `R`-above every other one -/
theorem pairwise_getLast {α : Type} {R : α → α → Prop} {l : List α} {x : α} (hp : l.Pairwise R)
    (hl : l.getLast? = some x) : x ∈ l ∧ ∀ y ∈ l, y = x ∨ R y x := by
  obtain ⟨ys, rfl⟩ := List.getLast?_eq_some_iff.mp hl
  refine ⟨by simp, fun y hy => ?_⟩
  rcases List.mem_append.mp hy with hy | hy
  · exact Or.inr ((List.pairwise_append.mp hp).2.2 y hy x (by simp))
  · exact Or.inl (by simpa using hy)

/-- `optimizeTrace_solutions` — EVERY ELEMENT OF THE WORKER'S STREAM IS AN ACCEPTED ASSIGNMENT
    (hypotheses: those of `C03_optimum_partial`) -/
theorem optimizeTrace_solutions (P : Problem) (hP : ProbOk P) (hne : P.shr.Nonempty) (cfg : Config)
    (hcons : ConsOk P cfg) (hkeep : Dfs.ConsKeeps P cfg) (hcost : CostOk cfg)
    (v : Nat) (hv : v < P.vars.length) (hdi : (P.vars.getD v (0, 0)).1 < P.shr.length) (mn : Bool)
    (fuel1 fuel : Nat) (tr : List (List Int)) (s' : State)
    (h : optimizeTrace P cfg v mn fuel1 fuel (State.init P) [] = .ok (tr, s')) :
    ∀ x ∈ tr, ∃ σ, SolW P σ ∧ x = reported P σ :=
  (optimizeTrace_inv hP cfg hcons hkeep hcost v hv (P.vars.getD v (0, 0)).1 (P.vars.getD v (0, 0)).2 rfl hdi mn fuel1
    fuel (State.init P) [] tr s' (Pre_init P hne {}) rfl (by simp) List.Pairwise.nil (by simp) h).1

/-- `optimizeTrace_improving` — ALONG THE WORKER'S STREAM THE OBJECTIVE STRICTLY IMPROVES: whenever `x`
    is sent before `y`, the parent's comparison function accepts `y` against `x`
    (`better mn v y x`: `y[v] < x[v]` when minimising, `y[v] > x[v]` when maximising) -/
theorem optimizeTrace_improving (P : Problem) (hP : ProbOk P) (hne : P.shr.Nonempty) (cfg : Config)
    (hcons : ConsOk P cfg) (hkeep : Dfs.ConsKeeps P cfg) (hcost : CostOk cfg)
    (v : Nat) (hv : v < P.vars.length) (hdi : (P.vars.getD v (0, 0)).1 < P.shr.length) (mn : Bool)
    (fuel1 fuel : Nat) (tr : List (List Int)) (s' : State)
    (h : optimizeTrace P cfg v mn fuel1 fuel (State.init P) [] = .ok (tr, s')) :
    tr.Pairwise (fun x y => better mn v y x = true) :=
  (optimizeTrace_inv hP cfg hcons hkeep hcost v hv (P.vars.getD v (0, 0)).1 (P.vars.getD v (0, 0)).2 rfl hdi mn fuel1
    fuel (State.init P) [] tr s' (Pre_init P hne {}) rfl (by simp) List.Pairwise.nil (by simp) h).2

/-- … the same in terms of the objective values, and of `Dfs.better` (the non-strict order of C03): an
    earlier element is never at least as good as a later one -/
theorem optimizeTrace_improving_values (P : Problem) (hP : ProbOk P) (hne : P.shr.Nonempty) (cfg : Config)
    (hcons : ConsOk P cfg) (hkeep : Dfs.ConsKeeps P cfg) (hcost : CostOk cfg)
    (v : Nat) (hv : v < P.vars.length) (hdi : (P.vars.getD v (0, 0)).1 < P.shr.length) (mn : Bool)
    (fuel1 fuel : Nat) (tr : List (List Int)) (s' : State)
    (h : optimizeTrace P cfg v mn fuel1 fuel (State.init P) [] = .ok (tr, s')) :
    tr.Pairwise (fun x y => (if mn then getI y v < getI x v else getI x v < getI y v) ∧
      Dfs.better mn (getI y v) (getI x v) ∧ ¬ Dfs.better mn (getI x v) (getI y v)) := by
  refine List.Pairwise.imp ?_ (optimizeTrace_improving P hP hne cfg hcons hkeep hcost v hv hdi mn fuel1 fuel tr s' h)
  intro x y hxy
  refine ⟨(better_iff mn v y x).mp hxy, dfsBetter_of_better hxy, ?_⟩
  rw [better_iff] at hxy
  unfold Dfs.better
  cases mn <;> simp only [if_true, Bool.false_eq_true, if_false] at * <;> omega

/-- `optimizeTrace` returns whenever `optimize` does: under the hypotheses of `C03_optimum` -/
theorem optimizeTrace_returns (P : Problem) (hP : ProbOk P) (hne : P.shr.Nonempty) (cfg : Config)
    (hcons : ConsOk P cfg) (hkeep : Dfs.ConsKeeps P cfg) (hterm : Dfs.ConsTerm P cfg) (hheur : Dfs.HeurOk P cfg)
    (hcost : CostOk cfg) (hH : width P.shr + 2 ≤ cfg.height)
    (v : Nat) (hv : v < P.vars.length) (hdi : (P.vars.getD v (0, 0)).1 < P.shr.length) (mn : Bool)
    (fuel1 fuel : Nat) (h1 : 2 * Dfs.bsize P.shr ≤ fuel1)
    (h2 : Dfs.dsize (getDom P.shr (P.vars.getD v (0, 0)).1) < fuel) :
    ∃ (tr : List (List Int)) (s' : State),
      optimizeTrace P cfg v mn fuel1 fuel (State.init P) [] = .ok (tr, s') ∧
      optimize P cfg v mn fuel1 fuel (State.init P) none = .ok (tr.getLast?, s') := by
  obtain ⟨r, s', h, _⟩ := C03_optimum P hP hne cfg hcons hkeep hterm hheur hcost hH v hv hdi mn fuel1 fuel h1 h2
  obtain ⟨tr, ht, hr⟩ := optimize_optimizeTrace P cfg v mn fuel1 fuel (State.init P) [] r s' h
  exact ⟨tr, s', ht, by rw [hr]; exact h⟩

/-- what `C11_end_to_end_optimize` ASSUMES about a worker's stream (`hW`, `hWsol`) holds of the stream
    the model computes -/
theorem optimizeTrace_stream (P : Problem) (hP : ProbOk P) (hne : P.shr.Nonempty) (cfg : Config)
    (hcons : ConsOk P cfg) (hkeep : Dfs.ConsKeeps P cfg) (hcost : CostOk cfg)
    (v : Nat) (hv : v < P.vars.length) (hdi : (P.vars.getD v (0, 0)).1 < P.shr.length) (mn : Bool)
    (fuel1 fuel : Nat) (Wi : List (List Int × List Nat)) (s' : State)
    (h : optimizeTrace P cfg v mn fuel1 fuel (State.init P) [] = .ok (Wi.map Prod.fst, s')) :
    (∃ r s', optimize P cfg v mn fuel1 fuel (State.init P) none = .ok (r, s') ∧
      (r = none → Wi = []) ∧
      (∀ x, r = some x → x ∈ Wi.map Prod.fst ∧ ∀ y ∈ Wi.map Prod.fst, Dfs.better mn (getI x v) (getI y v))) ∧
    (∀ x ∈ Wi.map Prod.fst, ∃ σ, SolW P σ ∧ x = reported P σ) := by
  refine ⟨⟨_, s', optimizeTrace_optimize P cfg v mn fuel1 fuel _ [] _ s' h, fun hr => ?_, fun x hx => ?_⟩,
    optimizeTrace_solutions P hP hne cfg hcons hkeep hcost v hv hdi mn fuel1 fuel _ s' h⟩
  · exact List.map_eq_nil_iff.mp (List.getLast?_eq_none_iff.mp hr)
  · obtain ⟨hmem, hall⟩ := pairwise_getLast
      (optimizeTrace_improving P hP hne cfg hcons hkeep hcost v hv hdi mn fuel1 fuel _ s' h) hx
    refine ⟨hmem, fun y hy => ?_⟩
    rcases hall y hy with rfl | hb
    · unfold Dfs.better; cases mn <;> simp
    · exact dfsBetter_of_better hb

/-! ### C11 end to end (optimisation) with the workers' streams COMPUTED -/

open MP

/-- the two stream hypotheses of `C11_end_to_end_optimize` (`hW`, `hWsol`), for sub-boxes `parts` of the
    root box, when worker `i`'s stream is the trace of `optimizeTrace` on the `i`-th sub-problem -/
theorem E2E.stream_hyps (P : Problem) (parts : List Box) (hle : ∀ part ∈ parts, Box.le part P.shr)
    (hnes : ∀ part ∈ parts, part.Nonempty) (hP : ProbOk P) (cfg : Config)
    (hcons : ∀ part ∈ parts, ConsOk (E2E.sub P part) cfg)
    (hkeep : ∀ part ∈ parts, Dfs.ConsKeeps (E2E.sub P part) cfg) (hcost : CostOk cfg)
    (v : Nat) (hv : v < P.vars.length) (hdi : (P.vars.getD v (0, 0)).1 < P.shr.length) (mn : Bool)
    (fuel1 fuel : Nat) (W : Nat → List (List Int × List Nat))
    (hW : ∀ i part, parts[i]? = some part → ∃ s',
      optimizeTrace (E2E.sub P part) cfg v mn fuel1 fuel (State.init (E2E.sub P part)) [] = .ok (MP.sols W i, s')) :
    (∀ i part, parts[i]? = some part → ∃ r s',
      optimize (E2E.sub P part) cfg v mn fuel1 fuel (State.init (E2E.sub P part)) none = .ok (r, s') ∧
      (r = none → W i = []) ∧
      (∀ x, r = some x → x ∈ MP.sols W i ∧ ∀ y ∈ MP.sols W i, Dfs.better mn (getI x v) (getI y v))) ∧
    (∀ i part, parts[i]? = some part → ∀ x ∈ MP.sols W i, ∃ σ, SolW (E2E.sub P part) σ ∧ x = reported P σ) := by
  have key : ∀ i part, parts[i]? = some part →
      (∃ r s', optimize (E2E.sub P part) cfg v mn fuel1 fuel (State.init (E2E.sub P part)) none = .ok (r, s') ∧
        (r = none → W i = []) ∧
        (∀ x, r = some x → x ∈ (W i).map Prod.fst ∧ ∀ y ∈ (W i).map Prod.fst, Dfs.better mn (getI x v) (getI y v))) ∧
      (∀ x ∈ (W i).map Prod.fst, ∃ σ, SolW (E2E.sub P part) σ ∧ x = reported (E2E.sub P part) σ) := by
    intro i part hip
    have hmem := E2E.getElem?_mem hip
    have hl := hle part hmem
    have hlen := Box.le_length hl
    obtain ⟨s', hs'⟩ := hW i part hip
    exact optimizeTrace_stream (E2E.sub P part) (E2E.probOk_sub hP hl) (hnes part hmem) cfg (hcons part hmem)
      (hkeep part hmem) hcost v hv (by show (P.vars.getD v (0, 0)).1 < part.length; omega) mn fuel1 fuel (W i) s' hs'
  exact ⟨fun i part hip => (key i part hip).1, fun i part hip => (key i part hip).2⟩

/-- C11, END TO END (optimisation), streams computed, for any partition of the root box into non-empty
    sub-boxes.  See `C11_end_to_end_optimize_trace` for `Problem.split`. -/
theorem C11_end_to_end_optimize_trace_of_partition (P : Problem) (parts : List Box)
    (hpart : E2E.BoxPartition P.shr parts) (hP : ProbOk P) (cfg : Config)
    (hcons : ∀ part ∈ parts, ConsOk (E2E.sub P part) cfg)
    (hkeep : ∀ part ∈ parts, Dfs.ConsKeeps (E2E.sub P part) cfg)
    (hterm : ∀ part ∈ parts, Dfs.ConsTerm (E2E.sub P part) cfg)
    (hheur : Dfs.HeurOk P cfg) (hcost : CostOk cfg) (hH : width P.shr + 2 ≤ cfg.height)
    (v : Nat) (hv : v < P.vars.length) (hdi : (P.vars.getD v (0, 0)).1 < P.shr.length) (mn : Bool)
    (fuel1 fuel : Nat) (h1 : 2 * Dfs.bsize P.shr ≤ fuel1)
    (h2 : Dfs.dsize (getDom P.shr (P.vars.getD v (0, 0)).1) < fuel)
    (W : Nat → List (List Int × List Nat)) (fin : Nat → List Nat)
    (hW : ∀ i part, parts[i]? = some part → ∃ s',
      optimizeTrace (E2E.sub P part) cfg v mn fuel1 fuel (State.init (E2E.sub P part)) [] = .ok (MP.sols W i, s'))
    (msgs : List MPIn) (hint : Interleaving parts.length W fin msgs) :
    (mpRun (some (v, mn)) parts.length msgs).running = [] ∧ (mpRun (some (v, mn)) parts.length msgs).raised = false ∧
    ((mpRun (some (v, mn)) parts.length msgs).best = none → ¬ ∃ σ, Sol P σ) ∧
    ((¬ ∃ σ, SolW P σ) → (mpRun (some (v, mn)) parts.length msgs).best = none) ∧
    (∀ b, (mpRun (some (v, mn)) parts.length msgs).best = some b →
      (∃ σ, SolW P σ ∧ b = reported P σ) ∧
      ∀ τ, Sol P τ → Dfs.better mn (getI b v) (getI (reported P τ) v)) := by
  obtain ⟨hW', hWsol'⟩ := E2E.stream_hyps P parts hpart.le hpart.nonempty hP cfg hcons hkeep hcost v hv hdi mn
    fuel1 fuel W hW
  exact C11_end_to_end_optimize_of_partition P parts hpart hP cfg hcons hkeep hterm hheur hcost hH v hv hdi mn
    fuel1 fuel h1 h2 W fin hW' hWsol' msgs hint

/-- C11, END TO END (optimisation), WITH THE WORKERS' STREAMS COMPUTED BY THE MODEL.
    `parts = Problem.split(k, v')`; worker `i` runs `optimize_and_queue` on the `i`-th sub-problem: the
    solutions it sends are, in order, the trace `optimizeTrace` returns there (`hW`; the statistics
    snapshots attached to them are arbitrary).  Nothing else is assumed about the streams — the
    hypotheses `hW`, `hWsol` of `C11_end_to_end_optimize` are consequences (`optimizeTrace_optimize`,
    `optimizeTrace_improving`, `optimizeTrace_solutions`).  The conclusion is that of
    `C11_end_to_end_optimize`: for EVERY interleaving the parent ends normally and its incumbent satisfies
    what `C03_optimum` states for the sequential call on the unsplit problem. -/
theorem C11_end_to_end_optimize_trace (P : Problem) (k v' : Nat) (hdi' : (P.vars.getD v' (0, 0)).1 < P.shr.length)
    (parts : List Box) (hparts : parts = splitProblem P.shr P.vars k v')
    (hP : ProbOk P) (hne : P.shr.Nonempty) (cfg : Config)
    (hcons : ∀ part ∈ parts, ConsOk { P with shr := part } cfg)
    (hkeep : ∀ part ∈ parts, Dfs.ConsKeeps { P with shr := part } cfg)
    (hterm : ∀ part ∈ parts, Dfs.ConsTerm { P with shr := part } cfg)
    (hheur : Dfs.HeurOk P cfg) (hcost : CostOk cfg) (hH : width P.shr + 2 ≤ cfg.height)
    (v : Nat) (hv : v < P.vars.length) (hdi : (P.vars.getD v (0, 0)).1 < P.shr.length) (mn : Bool)
    (fuel1 fuel : Nat) (h1 : 2 * Dfs.bsize P.shr ≤ fuel1)
    (h2 : Dfs.dsize (getDom P.shr (P.vars.getD v (0, 0)).1) < fuel)
    (W : Nat → List (List Int × List Nat)) (fin : Nat → List Nat)
    (hW : ∀ i part, parts[i]? = some part → ∃ s',
      optimizeTrace { P with shr := part } cfg v mn fuel1 fuel (State.init { P with shr := part }) [] =
        .ok (MP.sols W i, s'))
    (msgs : List MPIn) (hint : Interleaving parts.length W fin msgs) :
    (mpRun (some (v, mn)) parts.length msgs).running = [] ∧ (mpRun (some (v, mn)) parts.length msgs).raised = false ∧
    ((mpRun (some (v, mn)) parts.length msgs).best = none → ¬ ∃ σ, Sol P σ) ∧
    ((¬ ∃ σ, SolW P σ) → (mpRun (some (v, mn)) parts.length msgs).best = none) ∧
    (∀ b, (mpRun (some (v, mn)) parts.length msgs).best = some b →
      (∃ σ, SolW P σ ∧ b = reported P σ) ∧
      ∀ τ, Sol P τ → Dfs.better mn (getI b v) (getI (reported P τ) v)) ∧
    (NscGuarded P →
      ((mpRun (some (v, mn)) parts.length msgs).best = none ↔ ¬ ∃ σ, Sol P σ) ∧
      ∀ b, (mpRun (some (v, mn)) parts.length msgs).best = some b → ∃ σ, Sol P σ ∧ b = reported P σ) := by
  have hle : ∀ part ∈ parts, Box.le part P.shr := by
    subst hparts; exact E2E.splitProblem_le P.shr P.vars k v'
  have hnes : ∀ part ∈ parts, part.Nonempty := by
    subst hparts; exact E2E.splitProblem_nonempty P.shr P.vars k v' hne
  obtain ⟨hW', hWsol'⟩ := E2E.stream_hyps P parts hle hnes hP cfg hcons hkeep hcost v hv hdi mn fuel1 fuel W hW
  exact C11_end_to_end_optimize P k v' hdi' parts hparts hP hne cfg hcons hkeep hterm hheur hcost hH v hv hdi mn
    fuel1 fuel h1 h2 W fin hW' hWsol' msgs hint

/-- C11 end to end (optimisation), streams computed, for the shipped bound-consistency configuration:
    ALL the hypotheses are about the unsplit problem `P` and the configuration (those of
    `C03_optimum_bc`).  The sequential call on `P` returns `r`; every worker's `optimizeTrace` on its
    sub-problem returns; and if the workers send those traces, then for every interleaving the parent
    ends normally with an incumbent that is `none` exactly when `r` is (exactly when `P` is infeasible),
    and otherwise is a solution of `P`, optimal among all solutions, with the objective value of `r`. -/
theorem C11_end_to_end_optimize_trace_bc (P : Problem) (k v' : Nat) (hdi' : (P.vars.getD v' (0, 0)).1 < P.shr.length)
    (parts : List Box) (hparts : parts = splitProblem P.shr P.vars k v')
    (hP : ProbOk P) (hWF : WFP P) (hS : ∀ p ∈ P.props, Safe p.alg) (hne : P.shr.Nonempty) (hg : NscGuarded P)
    (cfg : Config) (hbc : cfg.cons = .bc) (hall : ∀ i, i < P.shr.length → i ∈ cfg.decision) (hcost : CostOk cfg)
    (hvtab : cfg.varH = .maxRegret → ∀ d u, (getDom P.shr d).1 ≤ u → u ≤ (getDom P.shr d).2 →
      ∃ c, costAt cfg.varCosts d u = some c ∧ c ≤ maxsize)
    (htab : cfg.domH = .minCost → ∀ d u, (getDom P.shr d).1 ≤ u → u ≤ (getDom P.shr d).2 →
      (costAt cfg.domCosts d u).isSome = true)
    (hH : width P.shr + 2 ≤ cfg.height)
    (v : Nat) (hv : v < P.vars.length) (hdi : (P.vars.getD v (0, 0)).1 < P.shr.length) (mn : Bool)
    (fuel1 fuel : Nat) (h1 : 2 * Dfs.bsize P.shr ≤ fuel1)
    (h2 : Dfs.dsize (getDom P.shr (P.vars.getD v (0, 0)).1) < fuel) :
    ∃ (r : Option (List Int)) (s' : State),
      optimize P cfg v mn fuel1 fuel (State.init P) none = .ok (r, s') ∧
      (r = none ↔ ¬ ∃ σ, Sol P σ) ∧
      (∀ (i : Nat) (part : Box), parts[i]? = some part → ∃ trI sI,
        optimizeTrace { P with shr := part } cfg v mn fuel1 fuel (State.init { P with shr := part }) [] = .ok (trI, sI)) ∧
      ∀ (W : Nat → List (List Int × List Nat)) (fin : Nat → List Nat),
        (∀ (i : Nat) (part : Box), parts[i]? = some part → ∃ sI,
          optimizeTrace { P with shr := part } cfg v mn fuel1 fuel (State.init { P with shr := part }) [] =
            .ok (MP.sols W i, sI)) →
        ∀ msgs, Interleaving parts.length W fin msgs →
          (mpRun (some (v, mn)) parts.length msgs).running = [] ∧
          (mpRun (some (v, mn)) parts.length msgs).raised = false ∧
          ((mpRun (some (v, mn)) parts.length msgs).best = none ↔ r = none) ∧
          ∀ b, (mpRun (some (v, mn)) parts.length msgs).best = some b →
            (∃ σ, Sol P σ ∧ b = reported P σ) ∧
            (∀ τ, Sol P τ → Dfs.better mn (getI b v) (getI (reported P τ) v)) ∧
            ∀ x, r = some x → getI b v = getI x v := by
  have hle : ∀ part ∈ parts, Box.le part P.shr := by
    subst hparts; exact E2E.splitProblem_le P.shr P.vars k v'
  have hPs : ∀ part ∈ parts, ProbOk (E2E.sub P part) := fun part hp => E2E.probOk_sub hP (hle part hp)
  have hWFs : ∀ part ∈ parts, WFP (E2E.sub P part) := by
    intro part hp p hpp x hx
    show x.1 < part.length
    rw [Box.le_length (hle part hp)]
    exact hWF p hpp x hx
  have hnes : ∀ part ∈ parts, part.Nonempty := by
    subst hparts; exact E2E.splitProblem_nonempty P.shr P.vars k v' hne
  have hcons : ∀ part ∈ parts, ConsOk (E2E.sub P part) cfg := fun part hp => consOk_bc (hPs part hp) (hWFs part hp) cfg hbc
  have hkeep : ∀ part ∈ parts, Dfs.ConsKeeps (E2E.sub P part) cfg := fun part hp =>
    Dfs.consKeeps_bc (hPs part hp) (hWFs part hp) cfg hbc
  obtain ⟨r, s', hrun, hriff, hret, hmp⟩ := C11_end_to_end_optimize_bc P k v' hdi' parts hparts hP hWF hS hne hg cfg hbc
    hall hcost hvtab htab hH v hv hdi mn fuel1 fuel h1 h2
  refine ⟨r, s', hrun, hriff, ?_, ?_⟩
  · intro i part hip
    obtain ⟨rI, sI, h⟩ := hret i part hip
    obtain ⟨tr, ht, _⟩ := optimize_optimizeTrace (E2E.sub P part) cfg v mn fuel1 fuel _ [] rI sI h
    exact ⟨tr, sI, ht⟩
  · intro W fin hW msgs hint
    obtain ⟨hW', hWsol'⟩ := E2E.stream_hyps P parts hle hnes hP cfg hcons hkeep hcost v hv hdi mn fuel1 fuel W hW
    exact hmp W fin hW' hWsol' msgs hint

/-! ### non-vacuity -/

/-- `c04Example` (x, y ∈ [0,5], x + y ≤ 4, x ≤ y), maximising x, sequentially: three improving
    solutions are sent, (0,0), (1,1), (2,2); `optimize` returns the last one -/
example : (optimizeTrace c04Example { decision := [0, 1] } 0 false 72 7 (State.init c04Example) []).map (·.1) =
    .ok [[0, 0], [1, 1], [2, 2]] := by rfl

/-- … minimising y: the first solution found is already optimal (one message) -/
example : (optimizeTrace c04Example { decision := [0, 1] } 1 true 72 7 (State.init c04Example) []).map (·.1) =
    .ok [[0, 0]] := by rfl

/-- … maximising y: (0,0), (0,1), (0,2), (0,3), (0,4) -/
example : (optimizeTrace c04Example { decision := [0, 1] } 1 false 72 7 (State.init c04Example) []).map (·.1) =
    .ok [[0, 0], [0, 1], [0, 2], [0, 3], [0, 4]] := by rfl

/-- an infeasible problem (x + y ≤ −1 on [0,5]²): the stream is empty -/
example : (optimizeTrace ⟨[(0, 5), (0, 5)], [(0, 0), (1, 0)], [⟨.affineLeq, [(0, 0), (1, 0)], [1, 1, -1]⟩]⟩
    { decision := [0, 1] } 0 true 72 7
    (State.init ⟨[(0, 5), (0, 5)], [(0, 0), (1, 0)], [⟨.affineLeq, [(0, 0), (1, 0)], [1, 1, -1]⟩]⟩) []).map (·.1) =
    .ok [] := by rfl

/-- too little fuel for the restarts: the same error as `optimize` -/
example : (optimizeTrace c04Example { decision := [0, 1] } 0 false 72 2 (State.init c04Example) []).map (·.1) =
    .error .fuel ∧
    (optimize c04Example { decision := [0, 1] } 0 false 72 2 (State.init c04Example) none).map (·.1) =
    .error .fuel := ⟨rfl, rfl⟩

/-- all the hypotheses of `C11_end_to_end_optimize_trace_bc` hold for `c04Example` split in two on `y`
    (sub-problems y ∈ [0,2] and y ∈ [3,5]), maximising `x`, and the streams `E2E.exWopt` of
    MPEndToEnd.lean — (0,0), (1,1), (2,2) and (0,3), (1,3) — ARE what `optimizeTrace` computes on the two
    sub-problems (by evaluation; in MPEndToEnd.lean their properties had to be checked by hand): for
    EVERY interleaving the parent ends with an optimal solution, of value `x = 2` -/
example (fin : Nat → List Nat) (msgs : List MPIn) (hint : Interleaving 2 E2E.exWopt fin msgs) :
    (mpRun (some (0, false)) 2 msgs).running = [] ∧ (mpRun (some (0, false)) 2 msgs).raised = false ∧
    ∃ b, (mpRun (some (0, false)) 2 msgs).best = some b ∧ getI b 0 = 2 ∧
      (∃ σ, Sol c04Example σ ∧ b = reported c04Example σ) ∧
      ∀ τ, Sol c04Example τ → getI (reported c04Example τ) 0 ≤ getI b 0 := by
  obtain ⟨r, s', hrun, _, _, hmp⟩ := C11_end_to_end_optimize_trace_bc c04Example 2 1 (by decide)
    [[(0, 5), (0, 2)], [(0, 5), (3, 5)]] (by decide)
    c04Example_ok.1 c04Example_ok.2.1 c04Example_ok.2.2.1
    (by simp [c04Example, Box.Nonempty])
    (by intro p hp ha; simp [c04Example] at hp; rcases hp with rfl | rfl <;> cases ha)
    { decision := [0, 1] } rfl
    (by intro i hi; simp [c04Example] at hi; simp; omega) (by intro h; cases h) (by intro h; cases h) (by intro h; cases h)
    (by decide) 0 (by decide) (by decide) false 72 7 (by decide) (by decide)
  have hseq : (optimize c04Example { decision := [0, 1] } 0 false 72 7 (State.init c04Example) none).map (·.1) =
      .ok (some [2, 2]) := by rfl
  rw [hrun] at hseq
  simp only [Except.map, Except.ok.injEq] at hseq
  subst hseq
  have key := hmp E2E.exWopt fin ?_ msgs hint
  · obtain ⟨hr, hn, hnone, hb⟩ := key
    cases hbest : (mpRun (some (0, false)) 2 msgs).best with
    | none => exact absurd (hnone.mp hbest) (by simp)
    | some b =>
      obtain ⟨hsol, hopt, hval⟩ := hb b hbest
      refine ⟨hr, hn, b, rfl, by rw [hval _ rfl]; rfl, hsol, fun τ hτ => ?_⟩
      exact (Dfs.better_max _ _).mp (hopt τ hτ)
  · intro i part hip
    have hi : i = 0 ∨ i = 1 := by
      have : i < 2 := by
        have := (List.getElem?_eq_some_iff.mp hip).1
        simpa using this
      omega
    rcases hi with rfl | rfl
    · simp only [List.getElem?_cons_zero, Option.some.injEq] at hip
      subst hip
      exact E2E.ok_of_map_fst (by rfl)
    · simp only [List.getElem?_cons_succ, List.getElem?_cons_zero, Option.some.injEq] at hip
      subst hip
      exact E2E.ok_of_map_fst (by rfl)

end Nucs
