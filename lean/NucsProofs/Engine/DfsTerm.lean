import NucsProofs.Engine.Dfs
/-!
  The depth-first search terminates, within an explicit number of loop iterations and an explicit
  stack height (termination half of C02), and the headline C02 theorems.

  * `Dfs.bsize B`      : number of assignments in the box `B`, `Π (max − min + 1)`
  * `Dfs.smu s`        : the measure `Σ_{B ∈ space s} (2·|B| − 1)` — the number of nodes of a binary tree
                         with `|B|` leaves, summed over the boxes still to be explored
  * `Dfs.HOk W T below`: every level of the stack has room: (levels under it) + (width of its box) ≤ W
  * `Dfs.ConsTerm`, `Dfs.HeurOk` : the pass returns; the heuristics return a decision on every
                         non-instantiated box
                         (`heurOk_allDecision'`: true for all four variable heuristics when every shared
                         domain is a decision domain and all five value heuristics; `max_regret` and
                         `min_cost` need a cost table with an entry for every value of every root domain)
  * `Dfs.solveOne_measure`, `Dfs.solveOne_terminates`, `Dfs.solveAll_terminates`, `Dfs.solveAll_count`
  * `C02_enumeration`, `C02_enumeration_guarded`, `C02_enumeration_bc`, `C02_exactly_once_of_returns`,
    `C02_strategy_independent`, and non-vacuity / necessity examples
-/
namespace Nucs
namespace Dfs

/-! ### sizes -/

def dsize (d : Dom) : Nat := (d.2 - d.1 + 1).toNat

def bsize : Box → Nat
  | [] => 1
  | d :: ds => dsize d * bsize ds

/-- the product of the sizes of all domains but the `i`-th -/
def brest : Box → Nat → Nat
  | [], _ => 1
  | _ :: ds, 0 => bsize ds
  | d :: ds, i + 1 => dsize d * brest ds i

/-- weight of a box still to be explored -/
def wt (B : Box) : Nat := 2 * bsize B - 1

def wsum (sp : List Box) : Nat := (sp.map wt).sum

/-- the termination measure of the search -/
def smu (s : State) : Nat := wsum (space s)

theorem bsize_pos : ∀ {B : Box}, B.Nonempty → 1 ≤ bsize B
  | [], _ => Nat.le_refl _
  | d :: ds, h => by
    have h' := Box.nonempty_cons.mp h
    have ih := bsize_pos h'.2
    have : 1 ≤ dsize d := by unfold dsize; omega
    exact Nat.mul_le_mul this ih

theorem bsize_le : ∀ {A B : Box}, Box.le A B → bsize A ≤ bsize B
  | [], [], _ => Nat.le_refl _
  | a :: as, b :: bs, h => by
    have ih := bsize_le h.2
    have : dsize a ≤ dsize b := by have := h.1; unfold dsize; omega
    exact Nat.mul_le_mul this ih
  | [], _ :: _, h => by simp [Box.le] at h
  | _ :: _, [], h => by simp [Box.le] at h

theorem bsize_set : ∀ (D : Box) (i : Nat) (v : Dom), i < D.length → bsize (D.set i v) = brest D i * dsize v
  | [], _, _, h => by simp at h
  | d :: ds, 0, v, _ => by simp [bsize, brest, Nat.mul_comm]
  | d :: ds, i + 1, v, h => by
    have ih := bsize_set ds i v (by simpa using h)
    simp only [List.set_cons_succ, bsize, brest, ih, Nat.mul_assoc]

theorem bsize_eq : ∀ (D : Box) (i : Nat), i < D.length → bsize D = brest D i * dsize (getDom D i)
  | [], _, h => by simp at h
  | d :: ds, 0, _ => by simp [bsize, brest, getDom, Nat.mul_comm]
  | d :: ds, i + 1, h => by
    have ih := bsize_eq ds i (by simpa using h)
    simp only [getDom] at ih
    simp only [bsize, brest, getDom, List.getD_cons_succ, Nat.mul_assoc]
    rw [← ih]

theorem width_le : ∀ {A B : Box}, Box.le A B → width A ≤ width B
  | [], [], _ => Nat.le_refl _
  | a :: as, b :: bs, h => by
    have ih := width_le h.2
    have := h.1
    simp only [width_cons]; omega
  | [], _ :: _, h => by simp [Box.le] at h
  | _ :: _, [], h => by simp [Box.le] at h

theorem wt_le {A B : Box} (h : Box.le A B) : wt A ≤ wt B := by
  have := bsize_le h; unfold wt; omega

theorem wt_pos {B : Box} (h : B.Nonempty) : 1 ≤ wt B := by
  have := bsize_pos h; unfold wt; omega

theorem wsum_cons (B : Box) (sp : List Box) : wsum (B :: sp) = wt B + wsum sp := by simp [wsum]
theorem wsum_append (sp sp' : List Box) : wsum (sp ++ sp') = wsum sp + wsum sp' := by simp [wsum]

/-! ### the parts of a decision -/

theorem dsize_sum2 (o t a : Dom) (ht : t.1 ≤ t.2) (ha : a.1 ≤ a.2)
    (cov : ∀ v, inDom v o ↔ inDom v t ∨ inDom v a) (dis : disjointDoms t a) :
    dsize t + dsize a = dsize o := by
  obtain ⟨a0, b0⟩ := o; obtain ⟨a1, b1⟩ := t; obtain ⟨a2, b2⟩ := a
  simp only [inDom, disjointDoms, dsize] at *
  have s1 : a0 ≤ a1 ∧ b1 ≤ b0 := by
    have h1 := (cov a1).mpr (Or.inl ⟨Int.le_refl _, ht⟩); have h2 := (cov b1).mpr (Or.inl ⟨ht, Int.le_refl _⟩); omega
  have s2 : a0 ≤ a2 ∧ b2 ≤ b0 := by
    have h1 := (cov a2).mpr (Or.inr ⟨Int.le_refl _, ha⟩); have h2 := (cov b2).mpr (Or.inr ⟨ha, Int.le_refl _⟩); omega
  have ca := (cov a0).mp ⟨Int.le_refl _, by omega⟩
  have cb := (cov b0).mp ⟨by omega, Int.le_refl _⟩
  have c1 := fun h => (cov (b1 + 1)).mp ⟨by omega, h⟩
  have c2 := fun h => (cov (b2 + 1)).mp ⟨by omega, h⟩
  rcases dis with dis | dis <;> omega

theorem dsize_sum3 (o t x y : Dom) (ht : t.1 ≤ t.2) (hx : x.1 ≤ x.2) (hy : y.1 ≤ y.2)
    (cov : ∀ v, inDom v o ↔ inDom v t ∨ inDom v x ∨ inDom v y)
    (d12 : disjointDoms t x) (d13 : disjointDoms t y) (d23 : disjointDoms x y) :
    dsize t + dsize x + dsize y = dsize o := by
  obtain ⟨a, b⟩ := o; obtain ⟨a1, b1⟩ := t; obtain ⟨a2, b2⟩ := x; obtain ⟨a3, b3⟩ := y
  simp only [inDom, disjointDoms, dsize] at *
  have s1 : a ≤ a1 ∧ b1 ≤ b := by
    have h1 := (cov a1).mpr (Or.inl ⟨Int.le_refl _, ht⟩); have h2 := (cov b1).mpr (Or.inl ⟨ht, Int.le_refl _⟩); omega
  have s2 : a ≤ a2 ∧ b2 ≤ b := by
    have h1 := (cov a2).mpr (Or.inr (Or.inl ⟨Int.le_refl _, hx⟩))
    have h2 := (cov b2).mpr (Or.inr (Or.inl ⟨hx, Int.le_refl _⟩)); omega
  have s3 : a ≤ a3 ∧ b3 ≤ b := by
    have h1 := (cov a3).mpr (Or.inr (Or.inr ⟨Int.le_refl _, hy⟩))
    have h2 := (cov b3).mpr (Or.inr (Or.inr ⟨hy, Int.le_refl _⟩)); omega
  have ca := (cov a).mp ⟨Int.le_refl _, by omega⟩
  have cb := (cov b).mp ⟨by omega, Int.le_refl _⟩
  have c1 := fun h => (cov (b1 + 1)).mp ⟨by omega, h⟩
  have c2 := fun h => (cov (b2 + 1)).mp ⟨by omega, h⟩
  have c3 := fun h => (cov (b3 + 1)).mp ⟨by omega, h⟩
  rcases d12 with d12 | d12 <;> rcases d13 with d13 | d13 <;> rcases d23 with d23 | d23 <;> omega

/-- every value heuristic of the model saves at least one alternative -/
theorem runDomHeur_alts_pos (h : DomHeur) (costs : List (List Int)) (l : Level) (d : Nat) (b : Branch)
    (hb : runDomHeur h costs l d = some b) : 1 ≤ b.alts.length := by
  have hv : ∀ v, 1 ≤ (valueSplit l d v).alts.length := by
    intro v; simp only [valueSplit]; split
    · simp [minValue]
    · split <;> simp [maxValue]
  cases h <;> simp only [runDomHeur] at hb
  · injection hb with hb; subst hb; simp [minValue]
  · injection hb with hb; subst hb; simp [maxValue]
  · injection hb with hb; subst hb; simp [splitLow]
  · injection hb with hb; subst hb; exact hv _
  · simp only [minCost] at hb
    split at hb
    · cases hb
    · injection hb with hb; subst hb; exact hv _

/-- the sizes of the sub-ranges of a decision with two or three branches add up to the size of the
    old range -/
theorem branch_dsize_sum {l : Level} {d : Nat} {b : Branch} (hb : BranchOk l d b)
    (h1 : 1 ≤ b.alts.length) (h2 : b.alts.length ≤ 2) :
    ((b.levels.map (fun lv => dsize (getDom lv.doms d))).sum = dsize (getDom l.doms d)) := by
  have hne := hb.nonempty
  have hcov := hb.cover
  have hdis := hb.disjoint
  unfold Branch.levels at *
  match hal : b.alts, h1, h2 with
  | [x], _, _ =>
    rw [hal] at hne hcov hdis
    simp only [List.mem_cons, List.not_mem_nil, or_false, forall_eq_or_imp, forall_eq, exists_eq_or_imp,
      exists_eq_left, List.pairwise_cons, List.Pairwise.nil, and_true, false_imp_iff, implies_true] at hne hcov hdis
    simp only [List.map_cons, List.map_nil, List.sum_cons, List.sum_nil, Nat.add_zero]
    exact dsize_sum2 _ _ _ hne.1 hne.2 hcov hdis
  | [x, y], _, _ =>
    rw [hal] at hne hcov hdis
    simp only [List.mem_cons, List.not_mem_nil, or_false, forall_eq_or_imp, forall_eq, exists_eq_or_imp,
      exists_eq_left, List.pairwise_cons, List.Pairwise.nil, and_true, false_imp_iff, implies_true] at hne hcov hdis
    simp only [List.map_cons, List.map_nil, List.sum_cons, List.sum_nil, Nat.add_zero]
    rw [← Nat.add_assoc]
    exact dsize_sum3 _ _ _ _ hne.1 hne.2.1 hne.2.2 hcov hdis.1.1 hdis.1.2 hdis.2
  | [], h1, _ => simp at h1
  | _ :: _ :: _ :: _, _, h2 => simp at h2

theorem sum_two_mul_sub : ∀ xs : List Nat, (∀ x ∈ xs, 1 ≤ x) →
    (xs.map (fun x => 2 * x - 1)).sum + xs.length = 2 * xs.sum
  | [], _ => rfl
  | x :: xs, h => by
    have ih := sum_two_mul_sub xs (fun y hy => h y (by simp [hy]))
    have := h x (by simp)
    simp only [List.map_cons, List.sum_cons, List.length_cons]; omega

theorem length_le_sum : ∀ xs : List Nat, (∀ x ∈ xs, 1 ≤ x) → xs.length ≤ xs.sum
  | [], _ => Nat.le_refl _
  | x :: xs, h => by
    have ih := length_le_sum xs (fun y hy => h y (by simp [hy]))
    have := h x (by simp)
    simp only [List.sum_cons, List.length_cons]; omega

theorem le_sum_of_pos : ∀ xs : List Nat, (∀ x ∈ xs, 1 ≤ x) → ∀ x ∈ xs, x + xs.length ≤ xs.sum + 1
  | [], _, x, hx => by cases hx
  | y :: ys, h, x, hx => by
    have hy := h y (by simp)
    have hlen : ys.length ≤ ys.sum := length_le_sum ys (fun z hz => h z (by simp [hz]))
    simp only [List.sum_cons, List.length_cons]
    rcases List.mem_cons.mp hx with rfl | hx
    · omega
    · have := le_sum_of_pos ys (fun z hz => h z (by simp [hz])) x hx
      omega

theorem sum_map_mul (R : Nat) (f g : Level → Nat) : ∀ (ls : List Level), (∀ lv ∈ ls, f lv = R * g lv) →
    (ls.map f).sum = R * (ls.map g).sum
  | [], _ => by simp
  | x :: xs, h => by
    have ih := sum_map_mul R f g xs (fun lv hlv => h lv (by simp [hlv]))
    simp only [List.map_cons, List.sum_cons, ih, h x (by simp), Nat.mul_add]

section branch
variable {l : Level} {d : Nat} {b : Branch}

theorem branch_bsize (hb : BranchOk l d b) (hd : d < l.doms.length) {lv : Level} (hlv : lv ∈ b.levels) :
    bsize lv.doms = brest l.doms d * dsize (getDom lv.doms d) := by
  have e := (hb.others lv hlv).1
  have := bsize_set l.doms d (getDom lv.doms d) hd
  rw [← e] at this
  exact this

theorem branch_dsize_pos (hb : BranchOk l d b) {lv : Level} (hlv : lv ∈ b.levels) : 1 ≤ dsize (getDom lv.doms d) := by
  have := hb.nonempty lv hlv
  unfold dsize; omega

/-- a decision strictly decreases the weight: `k ≥ 2` parts whose sizes add up to the old size -/
theorem branch_wsum (hb : BranchOk l d b) (hd : d < l.doms.length) (hne : l.doms.Nonempty)
    (h1 : 1 ≤ b.alts.length) (h2 : b.alts.length ≤ 2) : wsum (b.levels.map (·.doms)) + 1 ≤ wt l.doms := by
  have hsum := branch_dsize_sum hb h1 h2
  have hR := bsize_eq l.doms d hd
  have hpos := bsize_pos hne
  have hRpos : 1 ≤ brest l.doms d := by
    rcases Nat.eq_zero_or_pos (brest l.doms d) with h0 | h0
    · rw [h0] at hR; omega
    · exact h0
  have htot : (b.levels.map (fun lv => bsize lv.doms)).sum = bsize l.doms := by
    rw [sum_map_mul (brest l.doms d) _ (fun lv => dsize (getDom lv.doms d)) b.levels
      (fun lv hlv => branch_bsize hb hd hlv), hsum, hR]
  have hw : wsum (b.levels.map (·.doms)) = ((b.levels.map (fun lv => bsize lv.doms)).map (fun x => 2 * x - 1)).sum := by
    simp [wsum, wt, List.map_map, Function.comp_def]
  have hall : ∀ x ∈ b.levels.map (fun lv => bsize lv.doms), 1 ≤ x := by
    intro x hx
    obtain ⟨lv, hlv, rfl⟩ := List.mem_map.mp hx
    rw [branch_bsize hb hd hlv]
    exact Nat.mul_le_mul hRpos (branch_dsize_pos hb hlv)
  have key := sum_two_mul_sub _ hall
  rw [← hw, htot] at key
  have hlen : (b.levels.map (fun lv => bsize lv.doms)).length = b.alts.length + 1 := by simp [Branch.levels]
  unfold wt
  omega

/-- every part of a decision is narrower than the old box by at least the number of saved
    alternatives -/
theorem branch_width (hb : BranchOk l d b) (hd : d < l.doms.length)
    (h1 : 1 ≤ b.alts.length) (h2 : b.alts.length ≤ 2) {lv : Level} (hlv : lv ∈ b.levels) :
    width lv.doms + b.alts.length ≤ width l.doms := by
  have hsum := branch_dsize_sum hb h1 h2
  have hall : ∀ x ∈ b.levels.map (fun lv => dsize (getDom lv.doms d)), 1 ≤ x := by
    intro x hx
    obtain ⟨lv', hlv', rfl⟩ := List.mem_map.mp hx
    exact branch_dsize_pos hb hlv'
  have key := le_sum_of_pos _ hall _ (List.mem_map.mpr ⟨lv, hlv, rfl⟩)
  rw [hsum] at key
  have hlen : (b.levels.map (fun lv => dsize (getDom lv.doms d))).length = b.alts.length + 1 := by simp [Branch.levels]
  rw [hlen] at key
  have hw := width_set l.doms d (getDom lv.doms d) hd
  rw [← (hb.others lv hlv).1] at hw
  have hne := hb.nonempty lv hlv
  unfold dsize at key
  omega

end branch

/-! ### room on the stack -/

/-- every level has room: (number of levels under it) + (width of its box) ≤ `W` -/
def HOk (W : Nat) : Box → List Level → Prop
  | T, [] => width T ≤ W
  | T, l :: rest => rest.length + 1 + width T ≤ W ∧ HOk W l.doms rest

theorem HOk.bound {W : Nat} {T : Box} {below : List Level} (h : HOk W T below) : below.length + width T ≤ W := by
  cases below with
  | nil => simpa [HOk] using h
  | cons l rest => have := h.1; simp only [List.length_cons]; omega

theorem HOk.shrink {W : Nat} {T T1 : Box} {below : List Level} (h : HOk W T below) (hw : width T1 ≤ width T) :
    HOk W T1 below := by
  cases below with
  | nil => simp only [HOk] at *; omega
  | cons l rest => exact ⟨by have := h.1; omega, h.2⟩

theorem HOk.pop {W : Nat} {T : Box} {l : Level} {rest : List Level} (h : HOk W T (l :: rest)) : HOk W l.doms rest := h.2

/-- pushing a decision whose parts are narrower by the number of alternatives pushed -/
theorem HOk.push {W : Nat} {T : Box} {below : List Level} (h : HOk W T below) (n : Nat) :
    ∀ (alts : List Level) (X : Box), alts.length ≤ n → (∀ lv ∈ alts, width lv.doms + n ≤ width T) →
      width X + n ≤ width T → HOk W X (alts ++ below)
  | [], X, _, _, hX => by simpa using h.shrink (by omega)
  | a :: as, X, hlen, hall, hX => by
    have hb := h.bound
    refine ⟨?_, HOk.push h n as a.doms (by simp only [List.length_cons] at hlen; omega)
      (fun lv hlv => hall lv (by simp [hlv])) (hall a (by simp))⟩
    show (as ++ below).length + 1 + width X ≤ W
    simp only [List.length_cons] at hlen
    simp only [List.length_append]
    omega

theorem width_pos_of_not_ground : ∀ {D : Box}, D.Nonempty → D.isGround = false → 1 ≤ width D
  | [], _, h => by simp [Box.isGround] at h
  | (a, b) :: ds, hne, hg => by
    have hne' := Box.nonempty_cons.mp hne
    simp only [width_cons]
    by_cases hab : a = b
    · have : Box.isGround ds = false := by
        simpa [Box.isGround, Dom.isGround, hab] using hg
      have := width_pos_of_not_ground hne'.2 this
      omega
    · have := hne'.1; simp only at this; omega

/-- a non-instantiated, non-empty box has a domain with two values -/
theorem exists_unbound : ∀ {D : Box}, D.Nonempty → D.isGround = false →
    ∃ i, i < D.length ∧ (getDom D i).1 < (getDom D i).2
  | [], _, h => by simp [Box.isGround] at h
  | (a, b) :: ds, hne, hg => by
    have hne' := Box.nonempty_cons.mp hne
    by_cases hab : a = b
    · have : Box.isGround ds = false := by
        simpa [Box.isGround, Dom.isGround, hab] using hg
      obtain ⟨i, hi, h⟩ := exists_unbound hne'.2 this
      exact ⟨i + 1, by simpa using hi, by simpa [getDom] using h⟩
    · exact ⟨0, by simp, by have := hne'.1; simp only [getDom, List.getD_cons_zero] at this ⊢; omega⟩

/-! ### what termination needs from the pass and from the heuristics -/

/-- the pass returns (no model error, no fuel exhaustion) on every state satisfying the search
    invariant -/
structure ConsTerm (P : Problem) (cfg : Config) : Prop where
  ret : ∀ s, Pre P s → ∃ r, consPass P cfg s = .ok r

/-- plain bound consistency, all posted algorithms `Safe`: C04 -/
theorem consTerm_bc {P : Problem} (hP : ProbOk P) (hW : WFP P) (hS : ∀ p ∈ P.props, Safe p.alg)
    (cfg : Config) (hbc : cfg.cons = .bc) : ConsTerm P cfg := by
  constructor
  intro s hpre
  obtain ⟨st, s', h, _⟩ := C04_bcPass hP hW hS s hpre.inv
  exact ⟨(st, s'), by simp [consPass, hbc, h]⟩

/-- the heuristics produce a decision on every non-instantiated box below the root -/
structure HeurOk (P : Problem) (cfg : Config) : Prop where
  var : ∀ D, Box.le D P.shr → D.Nonempty → D.isGround = false →
    ∃ d, runVarHeur cfg.varH cfg.varCosts cfg.decision D = some (some d)
  dom : ∀ (l : Level) d, Box.le l.doms P.shr → (getDom l.doms d).1 < (getDom l.doms d).2 →
    ∃ b, runDomHeur cfg.domH cfg.domCosts l d = some b

theorem firstNotInstantiated_some (D : Box) : ∀ (dec : List Nat),
    (∃ i ∈ dec, (getDom D i).1 < (getDom D i).2) → ∃ d, firstNotInstantiated D dec = some d
  | [], h => by obtain ⟨_, h, _⟩ := h; cases h
  | x :: xs, h => by
    simp only [firstNotInstantiated]
    split
    · exact ⟨x, rfl⟩
    · rename_i hx
      obtain ⟨i, hi, hu⟩ := h
      rcases List.mem_cons.mp hi with rfl | hi
      · exact absurd hu hx
      · exact firstNotInstantiated_some D xs ⟨i, hi, hu⟩

theorem smallestDomain_some (D : Box) : ∀ (dec : List Nat) (best : Option (Nat × Int)),
    (best.isSome = true ∨ ∃ i ∈ dec, (getDom D i).1 < (getDom D i).2) → ∃ d, smallestDomain D dec best = some d
  | [], best, h => by
    simp only [smallestDomain]
    rcases h with h | ⟨_, h, _⟩
    · cases best with
      | none => cases h
      | some b => exact ⟨b.1, rfl⟩
    · cases h
  | x :: xs, best, h => by
    simp only [smallestDomain]
    split
    · exact smallestDomain_some D xs _ (Or.inl rfl)
    · rename_i hc
      refine smallestDomain_some D xs best ?_
      rcases h with h | ⟨i, hi, hu⟩
      · exact Or.inl h
      · cases best with
        | some b => exact Or.inl rfl
        | none =>
          right
          rcases List.mem_cons.mp hi with rfl | hi
          · exfalso; apply hc
            simp only [ltOpt, Option.map_none, Bool.and_true, decide_eq_true_eq]; omega
          · exact ⟨i, hi, hu⟩

theorem greatestDomain_some (D : Box) : ∀ (dec : List Nat) (maxSize : Int) (best : Option Nat),
    (best.isSome = true ∨ ∃ i ∈ dec, maxSize < (getDom D i).2 - (getDom D i).1) →
    ∃ d, greatestDomain D dec maxSize best = some d
  | [], _, best, h => by
    simp only [greatestDomain]
    rcases h with h | ⟨_, h, _⟩
    · cases best with
      | none => cases h
      | some b => exact ⟨b, rfl⟩
    · cases h
  | x :: xs, maxSize, best, h => by
    simp only [greatestDomain]
    split
    · exact greatestDomain_some D xs _ _ (Or.inl rfl)
    · rename_i hc
      refine greatestDomain_some D xs maxSize best ?_
      rcases h with h | ⟨i, hi, hu⟩
      · exact Or.inl h
      · rcases List.mem_cons.mp hi with rfl | hi
        · exact absurd hu hc
        · exact Or.inr ⟨i, hi, hu⟩

/-- the three cost-free variable heuristics find a domain to branch on whenever every shared
    domain is a decision domain -/
theorem heurOk_var (P : Problem) (cfg : Config) (hall : ∀ i, i < P.shr.length → i ∈ cfg.decision)
    (hv : cfg.varH ≠ .maxRegret) (D : Box) (hle : Box.le D P.shr) (hne : D.Nonempty) (hg : D.isGround = false) :
    ∃ d, runVarHeur cfg.varH cfg.varCosts cfg.decision D = some (some d) := by
  obtain ⟨i, hi, hu⟩ := exists_unbound hne hg
  have hmem : i ∈ cfg.decision := hall i (by rw [← Box.le_length hle]; exact hi)
  cases hvh : cfg.varH with
  | firstNotInstantiated =>
    obtain ⟨d, hd⟩ := firstNotInstantiated_some D cfg.decision ⟨i, hmem, hu⟩
    exact ⟨d, by simp [runVarHeur, hd]⟩
  | smallestDomain =>
    obtain ⟨d, hd⟩ := smallestDomain_some D cfg.decision none (Or.inr ⟨i, hmem, hu⟩)
    exact ⟨d, by simp [runVarHeur, hd]⟩
  | greatestDomain =>
    obtain ⟨d, hd⟩ := greatestDomain_some D cfg.decision 0 none (Or.inr ⟨i, hmem, by omega⟩)
    exact ⟨d, by simp [runVarHeur, hd]⟩
  | maxRegret => exact absurd hvh hv

/-- `min_cost` with a cost table that has an entry for every value the scan can meet -/
theorem minCostScan_some (costs : List (List Int)) (d : Nat) : ∀ (k : Nat) (v : Int) (best : Option Int) (bestV : Int),
    (∀ u, v ≤ u → u < v + k → (costAt costs d u).isSome = true) → ∃ r, minCostScan costs d k v best bestV = some r
  | 0, _, _, bestV, _ => ⟨bestV, rfl⟩
  | k + 1, v, best, bestV, h => by
    simp only [minCostScan]
    have hv := h v (Int.le_refl _) (by omega)
    cases hc : costAt costs d v with
    | none => rw [hc] at hv; cases hv
    | some c =>
      simp only
      split
      · exact minCostScan_some costs d k (v + 1) _ _ (fun u h1 h2 => h u (by omega) (by omega))
      · exact minCostScan_some costs d k (v + 1) _ _ (fun u h1 h2 => h u (by omega) (by omega))

/-- the value heuristics always return a decision; for `min_cost` provided the cost table has an
    entry for every value of every root domain -/
theorem heurOk_dom (P : Problem) (cfg : Config)
    (htab : cfg.domH = .minCost → ∀ d u, (getDom P.shr d).1 ≤ u → u ≤ (getDom P.shr d).2 → (costAt cfg.domCosts d u).isSome = true)
    (l : Level) (d : Nat) (hle : Box.le l.doms P.shr) (_hu : (getDom l.doms d).1 < (getDom l.doms d).2) :
    ∃ b, runDomHeur cfg.domH cfg.domCosts l d = some b := by
  cases hdh : cfg.domH with
  | minValue => exact ⟨_, rfl⟩
  | maxValue => exact ⟨_, rfl⟩
  | splitLow => exact ⟨_, rfl⟩
  | midValue => exact ⟨_, rfl⟩
  | minCost =>
    simp only [runDomHeur, minCost]
    have hb := Box.le_getDom hle d
    obtain ⟨r, hr⟩ := minCostScan_some cfg.domCosts d ((getDom l.doms d).2 + 1 - (getDom l.doms d).1).toNat
      (getDom l.doms d).1 none (-1) (fun u h1 h2 => htab hdh d u (by omega) (by omega))
    rw [hr]
    exact ⟨_, rfl⟩

/-! `max_regret`: needs a cost table with an entry `≤ sys.maxsize` for every value of every root domain -/

/-- best ≤ second best, in the encoding of `regretScan` (`none` = sys.maxsize) -/
def ordOpt (b s : Option Int) : Prop :=
  match b, s with
  | none, none => True
  | some x, none => x ≤ maxsize
  | some x, some y => x ≤ y ∧ x ≤ maxsize
  | none, some _ => False

theorem regret_nonneg {b s : Option Int} (h : ordOpt b s) : 0 ≤ s.getD maxsize - b.getD maxsize := by
  cases b <;> cases s <;> simp only [ordOpt, Option.getD_none, Option.getD_some] at h ⊢ <;> omega

theorem regretScan_some (costs : List (List Int)) (d : Nat) : ∀ (k : Nat) (v : Int) (b s : Option Int),
    (∀ u, v ≤ u → u < v + k → ∃ c, costAt costs d u = some c ∧ c ≤ maxsize) → ordOpt b s →
    ∃ b' s', regretScan costs d k v b s = some (b', s') ∧ ordOpt b' s'
  | 0, _, b, s, _, ho => ⟨b, s, rfl, ho⟩
  | k + 1, v, b, s, h, ho => by
    simp only [regretScan]
    obtain ⟨c, hc, hcm⟩ := h v (Int.le_refl _) (by omega)
    rw [hc]
    simp only
    have hrest : ∀ u, v + 1 ≤ u → u < v + 1 + k → ∃ c, costAt costs d u = some c ∧ c ≤ maxsize :=
      fun u h1 h2 => h u (by omega) (by omega)
    split
    · split
      · rename_i hlt
        refine regretScan_some costs d k (v + 1) (some c) b hrest ?_
        cases b with
        | none => cases s <;> simp only [ordOpt] at ho ⊢ <;> first | exact hcm | exact ho.elim
        | some x =>
          simp only [ltOpt, decide_eq_true_eq] at hlt
          simp only [ordOpt]; omega
      · rename_i hnlt
        split
        · rename_i hlt2
          refine regretScan_some costs d k (v + 1) b (some c) hrest ?_
          cases b with
          | none => simp [ltOpt] at hnlt
          | some x =>
            simp only [ltOpt, decide_eq_true_eq] at hnlt
            cases s <;> simp only [ordOpt] at ho ⊢ <;> omega
        · exact regretScan_some costs d k (v + 1) b s hrest ho
    · exact regretScan_some costs d k (v + 1) b s hrest ho

theorem maxRegret_some (costs : List (List Int)) (D : Box)
    (htab : ∀ d u, (getDom D d).1 ≤ u → u ≤ (getDom D d).2 → ∃ c, costAt costs d u = some c ∧ c ≤ maxsize) :
    ∀ (dec : List Nat) (maxReg : Int) (best : Option Nat),
      (best.isSome = true ∨ (maxReg < 0 ∧ ∃ i ∈ dec, (getDom D i).1 < (getDom D i).2)) →
      ∃ d, maxRegret costs D dec maxReg best = some (some d)
  | [], _, best, h => by
    simp only [maxRegret]
    rcases h with h | ⟨_, _, h, _⟩
    · cases best with
      | none => cases h
      | some b => exact ⟨b, rfl⟩
    · cases h
  | x :: xs, maxReg, best, h => by
    simp only [maxRegret]
    split
    · rename_i hub
      obtain ⟨b, s, hscan, ho⟩ := regretScan_some costs x ((getDom D x).2 + 1 - (getDom D x).1).toNat (getDom D x).1 none none
        (fun u h1 h2 => htab x u h1 (by omega)) trivial
      rw [hscan]
      simp only
      have hr := regret_nonneg ho
      split
      · exact maxRegret_some costs D htab xs _ _ (Or.inl rfl)
      · rename_i hnlt
        refine maxRegret_some costs D htab xs maxReg best ?_
        rcases h with h | ⟨hneg, _⟩
        · exact Or.inl h
        · omega
    · rename_i hnub
      refine maxRegret_some costs D htab xs maxReg best ?_
      rcases h with h | ⟨hneg, i, hi, hu⟩
      · exact Or.inl h
      · rcases List.mem_cons.mp hi with rfl | hi
        · omega
        · exact Or.inr ⟨hneg, i, hi, hu⟩

/-- `max_regret` finds a domain to branch on: every shared domain a decision domain, and a cost
    table with an entry `≤ sys.maxsize` for every value of every root domain -/
theorem heurOk_var_maxRegret (P : Problem) (cfg : Config) (hall : ∀ i, i < P.shr.length → i ∈ cfg.decision)
    (hv : cfg.varH = .maxRegret)
    (htab : ∀ d u, (getDom P.shr d).1 ≤ u → u ≤ (getDom P.shr d).2 → ∃ c, costAt cfg.varCosts d u = some c ∧ c ≤ maxsize)
    (D : Box) (hle : Box.le D P.shr) (hne : D.Nonempty) (hg : D.isGround = false) :
    ∃ d, runVarHeur cfg.varH cfg.varCosts cfg.decision D = some (some d) := by
  obtain ⟨i, hi, hu⟩ := exists_unbound hne hg
  have hmem : i ∈ cfg.decision := hall i (by rw [← Box.le_length hle]; exact hi)
  rw [hv]
  simp only [runVarHeur]
  exact maxRegret_some cfg.varCosts D
    (fun d u h1 h2 => by have := Box.le_getDom hle d; exact htab d u (by omega) (by omega))
    cfg.decision (-1) none (Or.inr ⟨by omega, i, hmem, hu⟩)

/-- … so all twenty heuristic combinations are covered -/
theorem heurOk_allDecision' (P : Problem) (cfg : Config) (hall : ∀ i, i < P.shr.length → i ∈ cfg.decision)
    (hvtab : cfg.varH = .maxRegret → ∀ d u, (getDom P.shr d).1 ≤ u → u ≤ (getDom P.shr d).2 →
      ∃ c, costAt cfg.varCosts d u = some c ∧ c ≤ maxsize)
    (htab : cfg.domH = .minCost → ∀ d u, (getDom P.shr d).1 ≤ u → u ≤ (getDom P.shr d).2 → (costAt cfg.domCosts d u).isSome = true) :
    HeurOk P cfg := by
  refine ⟨fun D hle hne hg => ?_, heurOk_dom P cfg htab⟩
  by_cases hv : cfg.varH = .maxRegret
  · exact heurOk_var_maxRegret P cfg hall hv (hvtab hv) D hle hne hg
  · exact heurOk_var P cfg hall hv D hle hne hg

/-- all shared domains are decision domains, a cost-free variable heuristic, a cost-free value
    heuristic (or `min_cost` with a complete table): the heuristics always produce a decision -/
theorem heurOk_allDecision (P : Problem) (cfg : Config) (hall : ∀ i, i < P.shr.length → i ∈ cfg.decision)
    (hv : cfg.varH ≠ .maxRegret)
    (htab : cfg.domH = .minCost → ∀ d u, (getDom P.shr d).1 ≤ u → u ≤ (getDom P.shr d).2 → (costAt cfg.domCosts d u).isSome = true) :
    HeurOk P cfg :=
  ⟨heurOk_var P cfg hall hv, heurOk_dom P cfg htab⟩

/-! ### the measure through one loop iteration -/

section steps
variable {P : Problem} {cfg : Config}

theorem backtrack_shape {s1 s2 : State} (h : backtrack P s1 = some s2) : s1.below = s2.top :: s2.below := by
  unfold backtrack at h
  cases hb : s1.below with
  | nil => rw [hb] at h; cases h
  | cons l rest => rw [hb] at h; injection h with h; subst h; rfl

/-- a pass that does not fail: measure and stack room do not grow -/
theorem pass_measure (hcons : ConsOk P cfg) {W : Nat} {s s1 : State} {st : BcStatus} (hpre : Pre P s)
    (hh : HOk W s.top.doms s.below) (hpass : consPass P cfg s = .ok (st, s1)) (hst : st ≠ .inconsistent) :
    smu s1 ≤ smu s ∧ HOk W s1.top.doms s1.below := by
  obtain ⟨hbelow, _, hinv, _, _⟩ := hcons.pass s s1 st hpre hpass
  have hle := (hinv hst).2.2
  refine ⟨?_, by rw [hbelow]; exact hh.shrink (width_le hle)⟩
  have := wt_le hle
  simp only [smu, space, hbelow, wsum_cons]
  omega

/-- resuming a saved alternative after a failure drops the (non-empty) top box -/
theorem back_measure (hcons : ConsOk P cfg) {W : Nat} {s s1 s2 : State} {st : BcStatus} (hpre : Pre P s)
    (hh : HOk W s.top.doms s.below) (hpass : consPass P cfg s = .ok (st, s1)) (hbt : backtrack P s1 = some s2) :
    smu s2 + 1 ≤ smu s ∧ HOk W s2.top.doms s2.below := by
  obtain ⟨hbelow, _, _, _, _⟩ := hcons.pass s s1 st hpre hpass
  have hsh := backtrack_shape hbt
  rw [hbelow] at hsh
  have hpos := wt_pos hpre.inv.nonempty
  refine ⟨?_, by rw [hsh] at hh; exact hh.pop⟩
  simp only [smu, space, hsh, wsum_cons, List.map_cons]
  omega

/-- a decision: the measure strictly decreases, every new level has room -/
theorem dec_measure (hcons : ConsOk P cfg) (hcost : CostOk cfg) {W : Nat} {s s1 : State} {d : Nat} {b : Branch}
    (hpre : Pre P s) (hh : HOk W s.top.doms s.below) (hpass : consPass P cfg s = .ok (.unbound, s1))
    (hvh : runVarHeur cfg.varH cfg.varCosts cfg.decision s1.top.doms = some (some d))
    (hdh : runDomHeur cfg.domH cfg.domCosts s1.top d = some b) :
    Pre P (decided P s1 d b) ∧ smu (decided P s1 d b) + 1 ≤ smu s ∧
      HOk W (decided P s1 d b).top.doms (decided P s1 d b).below := by
  obtain ⟨hbelow, hlenT, hinv, _, _⟩ := hcons.pass s s1 _ hpre hpass
  have hi := hinv (by decide)
  obtain ⟨hm1, hh1⟩ := pass_measure hcons hpre hh hpass (by decide)
  have hub := runVarHeur_unbound _ _ _ _ d hvh
  have hdl := lt_length_of_unbound _ d hub
  have hbok := runDomHeur_ok cfg.domH cfg.domCosts s1.top d hdl hub b hdh hcost
  have ha1 := runDomHeur_alts_pos _ _ _ _ b hdh
  have ha2 := runDomHeur_alts_le _ _ _ _ b hdh
  have hstack1 : StackOk P s1.below := by rw [hbelow]; exact hpre.stack
  refine ⟨push_pre hi.1 hi.2.1 hstack1 hdl hbok _, ?_, ?_⟩
  · have hw := branch_wsum hbok hdl hi.1.nonempty ha1 ha2
    have e : smu s1 = wt s1.top.doms + wsum (s1.below.map (·.doms)) := by simp [smu, space, wsum_cons]
    rw [e] at hm1
    simp only [smu, space_decided, wsum_append] at hm1 ⊢
    omega
  · show HOk W b.taken.doms (b.alts ++ s1.below)
    exact hh1.push b.alts.length b.alts b.taken.doms (Nat.le_refl _)
      (fun lv hlv => branch_width hbok hdl ha1 ha2 (by simp [Branch.levels, hlv]))
      (branch_width hbok hdl ha1 ha2 (by simp [Branch.levels]))

end steps

/-- SOLVE_ONE, quantitatively: when a vector is returned the measure has not grown, every level
    still has room, and the new top box is not empty -/
theorem solveOne_measure {P : Problem} (cfg : Config) (hcons : ConsOk P cfg) (hcost : CostOk cfg) (W : Nat)
    (fuel : Nat) (s : State) (r : Option (List Int)) (s' : State) (hpre : Pre P s)
    (hh : HOk W s.top.doms s.below) (h : solveOne P cfg fuel s = .ok (r, s')) :
    r ≠ none → smu s' ≤ smu s ∧ HOk W s'.top.doms s'.below ∧ s'.top.doms.Nonempty := by
  refine solveOne_rule P cfg (fun s => Pre P s ∧ HOk W s.top.doms s.below)
    (fun s r s' => r ≠ none → smu s' ≤ smu s ∧ HOk W s'.top.doms s'.below ∧ s'.top.doms.Nonempty)
    ?_ ?_ ?_ ?_ fuel s r s' ⟨hpre, hh⟩ h
  · intro s s1 hI hpass _
    obtain ⟨h1, h2⟩ := pass_measure hcons hI.1 hI.2 hpass (by decide)
    obtain ⟨_, _, hinv, _, _⟩ := hcons.pass s s1 _ hI.1 hpass
    exact ⟨h1, h2, (hinv (by decide)).1.nonempty⟩
  · intro s s1 _ _ _ hr; exact absurd rfl hr
  · intro s s1 s2 hI hpass hbt
    obtain ⟨hbelow, hlenT, _, _, _⟩ := hcons.pass s s1 _ hI.1 hpass
    obtain ⟨h1, h2⟩ := back_measure hcons hI.1 hI.2 hpass hbt
    have hst : StackOk P s1.below := by rw [hbelow]; exact hI.1.stack
    refine ⟨⟨backtrack_pre ⟨hlenT, hst⟩ hbt, h2⟩, fun r s' hQ hr => ?_⟩
    obtain ⟨q1, q2, q3⟩ := hQ hr
    exact ⟨by omega, q2, q3⟩
  · intro s s1 d b hI hpass hvh hdh
    obtain ⟨h0, h1, h2⟩ := dec_measure hcons hcost hI.1 hI.2 hpass hvh hdh
    refine ⟨⟨h0, h2⟩, fun r s' hQ hr => ?_⟩
    obtain ⟨q1, q2, q3⟩ := hQ hr
    exact ⟨by omega, q2, q3⟩

/-! ### termination -/

/-- SOLVE_ONE TERMINATES: with more fuel than the measure of the start state, and a stack at least
    two levels higher than the total width of the root domains, the call returns (no `fuel`, no
    `stackOverflow`, no `noDecision`, no `oob`) -/
theorem solveOne_terminates {P : Problem} (cfg : Config) (hcons : ConsOk P cfg) (hterm : ConsTerm P cfg)
    (hheur : HeurOk P cfg) (hcost : CostOk cfg) {W : Nat} (hH : W + 2 ≤ cfg.height) :
    ∀ (fuel : Nat) (s : State), Pre P s → HOk W s.top.doms s.below → smu s < fuel →
      ∃ r s', solveOne P cfg fuel s = .ok (r, s')
  | 0, _, _, _, h => by omega
  | fuel + 1, s, hpre, hh, hf => by
    simp only [solveOne]
    have hb := hh.bound
    rw [if_neg (by omega)]
    obtain ⟨⟨st, s1⟩, hpass⟩ := hterm.ret s hpre
    rw [hpass]
    obtain ⟨hbelow, hlenT, hinv, _, hunb⟩ := hcons.pass s s1 st hpre hpass
    cases st with
    | bound => exact ⟨_, _, rfl⟩
    | unbound =>
      simp only
      have hi := hinv (by decide)
      obtain ⟨hm1, hh1⟩ := pass_measure hcons hpre hh hpass (by decide)
      have hw1 := width_pos_of_not_ground hi.1.nonempty (hunb rfl)
      have hb1 := hh1.bound
      rw [if_neg (by omega)]
      obtain ⟨d, hvh⟩ := hheur.var s1.top.doms hi.1.sub hi.1.nonempty (hunb rfl)
      rw [hvh]
      simp only
      obtain ⟨b, hdh⟩ := hheur.dom s1.top d hi.1.sub (runVarHeur_unbound _ _ _ _ d hvh)
      rw [hdh]
      simp only
      obtain ⟨h0, h1, h2⟩ := dec_measure hcons hcost hpre hh hpass hvh hdh
      exact solveOne_terminates cfg hcons hterm hheur hcost hH fuel (decided P s1 d b) h0 h2 (by omega)
    | inconsistent =>
      simp only
      cases hbt : backtrack P s1 with
      | none => exact ⟨_, _, rfl⟩
      | some s2 =>
        simp only
        obtain ⟨h1, h2⟩ := back_measure hcons hpre hh hpass hbt
        have hst : StackOk P s1.below := by rw [hbelow]; exact hpre.stack
        exact solveOne_terminates cfg hcons hterm hheur hcost hH fuel s2 (backtrack_pre ⟨hlenT, hst⟩ hbt) h2 (by omega)

/-- SOLVE (generator) TERMINATES, and with `limit` above the measure it is run to exhaustion -/
theorem solveAll_terminates {P : Problem} (hP : ProbOk P) (cfg : Config) (hcons : ConsOk P cfg) (hterm : ConsTerm P cfg)
    (hheur : HeurOk P cfg) (hcost : CostOk cfg) {W : Nat} (hH : W + 2 ≤ cfg.height) (fuel1 : Nat) :
    ∀ (fuel limit : Nat) (s : State) (acc : List (List Int)), Pre P s → HOk W s.top.doms s.below →
      smu s < fuel1 → smu s < fuel →
      ∃ sols s', solveAll P cfg fuel1 fuel limit s acc = .ok (sols, s') ∧
        (smu s < limit → sols.length < acc.length + limit)
  | 0, _, _, _, _, _, _, h => by omega
  | fuel + 1, 0, s, acc, _, _, _, _ => ⟨acc.reverse, s, rfl, fun h => by omega⟩
  | fuel + 1, limit + 1, s, acc, hpre, hh, hf1, hf => by
    simp only [solveAll]
    obtain ⟨r, s1, h1⟩ := solveOne_terminates cfg hcons hterm hheur hcost hH fuel1 s hpre hh hf1
    rw [h1]
    cases r with
    | none => exact ⟨_, _, rfl, fun _ => by simp only [List.length_reverse]; omega⟩
    | some sol =>
      simp only
      obtain ⟨hm, hh1, hne1⟩ := solveOne_measure cfg hcons hcost W fuel1 s _ s1 hpre hh h1 (by simp)
      have hpost := (solveOne_sound' hP cfg hcons hcost fuel1 s _ s1 hpre h1).1
      have hpos : 1 ≤ smu s1 := by
        have := wt_pos hne1
        simp only [smu, space, wsum_cons]; omega
      split
      · rename_i hl0
        exact ⟨_, _, rfl, fun h => by omega⟩
      · rename_i hl0
        cases hbt : backtrack P s1 with
        | none => exact ⟨_, _, rfl, fun _ => by simp only [List.length_reverse, List.length_cons]; omega⟩
        | some s2 =>
          simp only
          have hsh := backtrack_shape hbt
          have hm2 : smu s2 + 1 ≤ smu s1 := by
            have := wt_pos hne1
            simp only [smu, space, hsh, wsum_cons, List.map_cons]; omega
          have hh2 : HOk W s2.top.doms s2.below := by rw [hsh] at hh1; exact hh1.pop
          obtain ⟨sols, s', hr, hlen⟩ := solveAll_terminates hP cfg hcons hterm hheur hcost hH fuel1 fuel limit s2
            (sol :: acc) (backtrack_pre hpost hbt) hh2 (by omega) (by omega)
          exact ⟨sols, s', hr, fun h => by have := hlen (by omega); simp only [List.length_cons] at this; omega⟩

/-- whatever the fuels: a generator that returns has yielded at most `smu s` new vectors (each
    yield is followed by the removal of a non-empty box) -/
theorem solveAll_count {P : Problem} (hP : ProbOk P) (cfg : Config) (hcons : ConsOk P cfg) (hcost : CostOk cfg)
    (W : Nat) (fuel1 : Nat) :
    ∀ (fuel limit : Nat) (s : State) (acc sols : List (List Int)) (s' : State), Pre P s → HOk W s.top.doms s.below →
      solveAll P cfg fuel1 fuel limit s acc = .ok (sols, s') → sols.length ≤ acc.length + smu s
  | 0, _, _, _, _, _, _, _, h => by simp [solveAll] at h
  | fuel + 1, 0, s, acc, sols, s', _, _, h => by
    simp only [solveAll] at h
    injection h with h; injection h with h1 _; subst h1; simp
  | fuel + 1, limit + 1, s, acc, sols, s', hpre, hh, h => by
    simp only [solveAll] at h
    cases h1 : solveOne P cfg fuel1 s with
    | error e => rw [h1] at h; simp at h
    | ok res =>
      obtain ⟨r, s1⟩ := res
      rw [h1] at h
      cases r with
      | none =>
        simp only at h
        injection h with h; injection h with h2 _; subst h2; simp
      | some sol =>
        simp only at h
        obtain ⟨hm, hh1, hne1⟩ := solveOne_measure cfg hcons hcost W fuel1 s _ s1 hpre hh h1 (by simp)
        have hpost := (solveOne_sound' hP cfg hcons hcost fuel1 s _ s1 hpre h1).1
        have hpos : 1 ≤ smu s1 := by
          have := wt_pos hne1
          simp only [smu, space, wsum_cons]; omega
        split at h
        · injection h with h; injection h with h2 _; subst h2
          simp only [List.length_reverse, List.length_cons]; omega
        · cases hbt : backtrack P s1 with
          | none =>
            rw [hbt] at h
            injection h with h; injection h with h2 _; subst h2
            simp only [List.length_reverse, List.length_cons]; omega
          | some s2 =>
            rw [hbt] at h
            simp only at h
            have hsh := backtrack_shape hbt
            have hm2 : smu s2 + 1 ≤ smu s1 := by
              have := wt_pos hne1
              simp only [smu, space, hsh, wsum_cons, List.map_cons]; omega
            have hh2 : HOk W s2.top.doms s2.below := by rw [hsh] at hh1; exact hh1.pop
            have := solveAll_count hP cfg hcons hcost W fuel1 fuel limit s2 (sol :: acc) sols s'
              (backtrack_pre hpost hbt) hh2 h
            simp only [List.length_cons] at this
            omega

theorem HOk_init (P : Problem) (stats : Stats) :
    HOk (width P.shr) (State.init P stats).top.doms (State.init P stats).below := by
  simp [HOk, State.init]

theorem smu_init (P : Problem) (stats : Stats) : smu (State.init P stats) = wt P.shr := by
  simp [smu, space, State.init, wsum]

theorem smu_init_lt (P : Problem) (hne : P.shr.Nonempty) (stats : Stats) : smu (State.init P stats) < 2 * bsize P.shr := by
  rw [smu_init]; have := bsize_pos hne; unfold wt; omega

end Dfs

/-! ### C02 -/

/-- C02 — ENUMERATION YIELDS EACH SOLUTION EXACTLY ONCE, WHATEVER THE SEARCH STRATEGY.
    For every problem within contract, every configuration whose consistency algorithm satisfies
    `ConsOk`/`Dfs.ConsKeeps`/`Dfs.ConsTerm` (bound consistency does: `C02_enumeration_bc`) and whose
    heuristics always produce a decision (`Dfs.HeurOk`), with a stack of height ≥ (total width of the
    root domains) + 2 and fuels / limit ≥ 2·|root box|:  the enumeration from the root RETURNS, and
    its result is the image of a duplicate-free list `L` of assignments with   Sol ⊆ L ⊆ SolW. -/
theorem C02_enumeration (P : Problem) (hP : ProbOk P) (hne : P.shr.Nonempty) (cfg : Config)
    (hcons : ConsOk P cfg) (hkeep : Dfs.ConsKeeps P cfg) (hterm : Dfs.ConsTerm P cfg) (hheur : Dfs.HeurOk P cfg)
    (hcost : CostOk cfg) (hH : width P.shr + 2 ≤ cfg.height)
    (fuel1 fuel limit : Nat) (h1 : 2 * Dfs.bsize P.shr ≤ fuel1) (h2 : 2 * Dfs.bsize P.shr ≤ fuel)
    (h3 : 2 * Dfs.bsize P.shr ≤ limit) :
    ∃ (sols : List (List Int)) (s' : State) (L : List (List Int)),
      solveAll P cfg fuel1 fuel limit (State.init P) [] = .ok (sols, s') ∧
      sols = L.map (reported P) ∧ L.Nodup ∧ (∀ σ ∈ L, SolW P σ) ∧ (∀ σ, Sol P σ → σ ∈ L) := by
  have hlt := Dfs.smu_init_lt P hne {}
  obtain ⟨sols, s', hr, hlen⟩ := Dfs.solveAll_terminates hP cfg hcons hterm hheur hcost hH fuel1 fuel limit
    (State.init P) [] (Pre_init P hne {}) (Dfs.HOk_init P {}) (by omega) (by omega)
  obtain ⟨L, e, nd, hw, hc⟩ := C02_exactly_once_partial P hP hne cfg hcons hkeep hcost fuel1 fuel limit sols s' hr
  exact ⟨sols, s', L, hr, e, nd, hw, hc (by simpa using hlen (by omega))⟩

/-- C02 for ANY consistency algorithm satisfying `ConsOk` + `Dfs.ConsKeeps` (bound consistency,
    shaving) and any fuels: IF the enumeration returns and `limit ≥ 2·|root box|`, the generator was
    exhausted, so the result is exactly-once complete.  (What is not claimed: that it returns.) -/
theorem C02_exactly_once_of_returns (P : Problem) (hP : ProbOk P) (hne : P.shr.Nonempty) (cfg : Config)
    (hcons : ConsOk P cfg) (hkeep : Dfs.ConsKeeps P cfg) (hcost : CostOk cfg)
    (fuel1 fuel limit : Nat) (h3 : 2 * Dfs.bsize P.shr ≤ limit) (sols : List (List Int)) (s' : State)
    (h : solveAll P cfg fuel1 fuel limit (State.init P) [] = .ok (sols, s')) :
    ∃ L : List (List Int), sols = L.map (reported P) ∧ L.Nodup ∧ (∀ σ ∈ L, SolW P σ) ∧ (∀ σ, Sol P σ → σ ∈ L) := by
  have hlt := Dfs.smu_init_lt P hne {}
  have hc := Dfs.solveAll_count hP cfg hcons hcost (width P.shr) fuel1 fuel limit (State.init P) [] sols s'
    (Pre_init P hne {}) (Dfs.HOk_init P {}) h
  obtain ⟨L, e, nd, hw, hcomp⟩ := C02_exactly_once_partial P hP hne cfg hcons hkeep hcost fuel1 fuel limit sols s' h
  exact ⟨L, e, nd, hw, hcomp (by simp only [List.length_nil] at hc; omega)⟩

/-- C02 under the circuit-model discipline (`relW = rel`): `L` is EXACTLY the set of solutions -/
theorem C02_enumeration_guarded (P : Problem) (hP : ProbOk P) (hne : P.shr.Nonempty) (hg : NscGuarded P) (cfg : Config)
    (hcons : ConsOk P cfg) (hkeep : Dfs.ConsKeeps P cfg) (hterm : Dfs.ConsTerm P cfg) (hheur : Dfs.HeurOk P cfg)
    (hcost : CostOk cfg) (hH : width P.shr + 2 ≤ cfg.height)
    (fuel1 fuel limit : Nat) (h1 : 2 * Dfs.bsize P.shr ≤ fuel1) (h2 : 2 * Dfs.bsize P.shr ≤ fuel)
    (h3 : 2 * Dfs.bsize P.shr ≤ limit) :
    ∃ (sols : List (List Int)) (s' : State) (L : List (List Int)),
      solveAll P cfg fuel1 fuel limit (State.init P) [] = .ok (sols, s') ∧
      sols = L.map (reported P) ∧ L.Nodup ∧ (∀ σ, σ ∈ L ↔ Sol P σ) ∧ (∀ σ, σ ∈ L ↔ SolW P σ) := by
  obtain ⟨sols, s', L, hr, e, nd, hw, hc⟩ := C02_enumeration P hP hne cfg hcons hkeep hterm hheur hcost hH fuel1 fuel limit h1 h2 h3
  exact ⟨sols, s', L, hr, e, nd, fun σ => ⟨fun hm => Sol_of_SolW hg (hw σ hm), hc σ⟩,
    fun σ => ⟨hw σ, fun h => hc σ (Sol_of_SolW hg h)⟩⟩

/-- C02 for the shipped bound-consistency configuration: any variable heuristic (`max_regret` with a
    complete cost table), any value heuristic (`min_cost` with a positive, complete cost table), every
    shared domain a decision domain -/
theorem C02_enumeration_bc (P : Problem) (hP : ProbOk P) (hW : WFP P) (hS : ∀ p ∈ P.props, Safe p.alg)
    (hne : P.shr.Nonempty) (hg : NscGuarded P) (cfg : Config) (hbc : cfg.cons = .bc)
    (hall : ∀ i, i < P.shr.length → i ∈ cfg.decision) (hcost : CostOk cfg)
    (hvtab : cfg.varH = .maxRegret → ∀ d u, (getDom P.shr d).1 ≤ u → u ≤ (getDom P.shr d).2 →
      ∃ c, costAt cfg.varCosts d u = some c ∧ c ≤ maxsize)
    (htab : cfg.domH = .minCost → ∀ d u, (getDom P.shr d).1 ≤ u → u ≤ (getDom P.shr d).2 → (costAt cfg.domCosts d u).isSome = true)
    (hH : width P.shr + 2 ≤ cfg.height)
    (fuel1 fuel limit : Nat) (h1 : 2 * Dfs.bsize P.shr ≤ fuel1) (h2 : 2 * Dfs.bsize P.shr ≤ fuel)
    (h3 : 2 * Dfs.bsize P.shr ≤ limit) :
    ∃ (sols : List (List Int)) (s' : State) (L : List (List Int)),
      solveAll P cfg fuel1 fuel limit (State.init P) [] = .ok (sols, s') ∧
      sols = L.map (reported P) ∧ L.Nodup ∧ (∀ σ, σ ∈ L ↔ Sol P σ) ∧ (∀ σ, σ ∈ L ↔ SolW P σ) :=
  C02_enumeration_guarded P hP hne hg cfg (consOk_bc hP hW cfg hbc) (Dfs.consKeeps_bc hP hW cfg hbc)
    (Dfs.consTerm_bc hP hW hS cfg hbc) (Dfs.heurOk_allDecision' P cfg hall hvtab htab) hcost hH fuel1 fuel limit h1 h2 h3

/-- C02, STRATEGY INDEPENDENCE: the same constraints — posted in any order — enumerated under two
    configurations (heuristics, consistency algorithms, stack heights, fuels) both return, and the
    two result lists are permutations of one another -/
theorem C02_strategy_independent (P P' : Problem) (hshr : P'.shr = P.shr) (hvars : P'.vars = P.vars)
    (hprops : ∀ p, p ∈ P'.props ↔ p ∈ P.props)
    (hP : ProbOk P) (hP' : ProbOk P') (hne : P.shr.Nonempty) (hg : NscGuarded P) (cfg cfg' : Config)
    (hcons : ConsOk P cfg) (hkeep : Dfs.ConsKeeps P cfg) (hterm : Dfs.ConsTerm P cfg) (hheur : Dfs.HeurOk P cfg) (hcost : CostOk cfg)
    (hcons' : ConsOk P' cfg') (hkeep' : Dfs.ConsKeeps P' cfg') (hterm' : Dfs.ConsTerm P' cfg') (hheur' : Dfs.HeurOk P' cfg') (hcost' : CostOk cfg')
    (hH : width P.shr + 2 ≤ cfg.height) (hH' : width P.shr + 2 ≤ cfg'.height)
    (fuel1 fuel limit fuel1' fuel' limit' : Nat)
    (h1 : 2 * Dfs.bsize P.shr ≤ fuel1) (h2 : 2 * Dfs.bsize P.shr ≤ fuel) (h3 : 2 * Dfs.bsize P.shr ≤ limit)
    (h1' : 2 * Dfs.bsize P.shr ≤ fuel1') (h2' : 2 * Dfs.bsize P.shr ≤ fuel') (h3' : 2 * Dfs.bsize P.shr ≤ limit') :
    ∃ sols sols' s1 s1', solveAll P cfg fuel1 fuel limit (State.init P) [] = .ok (sols, s1) ∧
      solveAll P' cfg' fuel1' fuel' limit' (State.init P') [] = .ok (sols', s1') ∧ sols.Perm sols' := by
  have hne' : P'.shr.Nonempty := by rw [hshr]; exact hne
  have hlt := Dfs.smu_init_lt P hne {}
  have hlt' := Dfs.smu_init_lt P' hne' {}
  rw [hshr] at hlt'
  obtain ⟨sols, s1, hr, hlen⟩ := Dfs.solveAll_terminates hP cfg hcons hterm hheur hcost hH fuel1 fuel limit
    (State.init P) [] (Pre_init P hne {}) (Dfs.HOk_init P {}) (by omega) (by omega)
  obtain ⟨sols', s1', hr', hlen'⟩ := Dfs.solveAll_terminates hP' cfg' hcons' hterm' hheur' hcost' (W := width P'.shr)
    (by rw [hshr]; exact hH') fuel1' fuel' limit'
    (State.init P') [] (Pre_init P' hne' {}) (Dfs.HOk_init P' {}) (by omega) (by omega)
  exact ⟨sols, sols', s1, s1', hr, hr',
    C02_strategy_independent_partial P P' hshr hvars hprops hP hP' hne hg cfg cfg' hcons hkeep hcost hcons' hkeep' hcost'
      fuel1 fuel limit fuel1' fuel' limit' sols sols' s1 s1' hr (by simpa using hlen (by omega))
      hr' (by simpa using hlen' (by omega))⟩

/-! ### non-vacuity -/

/-- the problem of `c04Example` (x, y ∈ [0,5], x + y ≤ 4, x ≤ y), both shared domains decision domains:
    all hypotheses of `C02_enumeration_bc` hold; 2·|root| = 72 -/
example : ∃ (sols : List (List Int)) (s' : State) (L : List (List Int)),
    solveAll c04Example { decision := [0, 1] } 72 72 72 (State.init c04Example) [] = .ok (sols, s') ∧
    sols = L.map (reported c04Example) ∧ L.Nodup ∧ (∀ σ, σ ∈ L ↔ Sol c04Example σ) ∧ (∀ σ, σ ∈ L ↔ SolW c04Example σ) :=
  C02_enumeration_bc c04Example c04Example_ok.1 c04Example_ok.2.1 c04Example_ok.2.2.1
    (by simp [c04Example, Box.Nonempty])
    (by intro p hp ha; simp [c04Example] at hp; rcases hp with rfl | rfl <;> cases ha)
    { decision := [0, 1] } rfl
    (by intro i hi; simp [c04Example] at hi; simp; omega) (by intro h; cases h) (by intro h; cases h) (by intro h; cases h)
    (by decide) 72 72 72 (by decide) (by decide) (by decide)

/-- … and the nine solutions the model actually enumerates, with two different strategies -/
example : (solveAll c04Example { decision := [0, 1] } 72 72 72 (State.init c04Example) []).map (·.1) =
    .ok [[0, 0], [0, 1], [0, 2], [0, 3], [0, 4], [1, 1], [1, 2], [1, 3], [2, 2]] := by rfl

example : (solveAll c04Example { decision := [0, 1], varH := .greatestDomain, domH := .midValue } 72 72 72
    (State.init c04Example) []).map (·.1) =
    .ok [[2, 2], [0, 2], [1, 2], [0, 0], [0, 1], [1, 1], [0, 3], [0, 4], [1, 3]] := by rfl

/-- the hypothesis "every shared domain is a decision domain" is needed: otherwise the variable
    heuristic finds nothing to branch on in a non-instantiated state (`noDecision`) -/
example : (solveAll ⟨[(0, 1), (0, 1)], [(0, 0), (1, 0)], []⟩ { decision := [0] } 72 72 72
    (State.init ⟨[(0, 1), (0, 1)], [(0, 0), (1, 0)], []⟩) []).map (·.1) = .error .noDecision := by rfl

/-- `NscGuarded` is needed for the `σ ∈ L ↔ SolW P σ` form: no_sub_cycle alone on {0,1}³ (no
    alldifferent).  No tuple is a permutation, so all 8 assignments satisfy the acceptance relation
    `relW` vacuously; every one of them has a short cycle, so none satisfies the documented relation;
    the enumeration yields nothing:  ∅ = Sol = L ⊊ SolW. -/
def c02Unguarded : Problem :=
  ⟨[(0, 1), (0, 1), (0, 1)], [(0, 0), (1, 0), (2, 0)], [⟨.noSubCycle, [(0, 0), (1, 0), (2, 0)], []⟩]⟩

example : SolW c02Unguarded [0, 0, 0] ∧
    (solveAll c02Unguarded { decision := [0, 1, 2] } 100 100 100 (State.init c02Unguarded) []).map (·.1) = .ok [] := by
  refine ⟨⟨by simp [c02Unguarded, inBox, inDom], ?_⟩, by rfl⟩
  intro p hp
  simp [c02Unguarded] at hp
  subst hp
  intro hnd
  simp [valuesOf, getI] at hnd

end Nucs
