import NucsModel
/-!
  C17 — the statistics are exact counts obeying conservation laws.

  Part 1 (propagation pass).  `bcTrace` is a ghost function, defined by recursion on the same
  structure as `bcLoopG`, that lists every constraint execution of the pass with its outcome
  (constraint index, status answered by the filtering function, `changed` / `failed` of the
  write-back).  `bcLoopG_stats` shows, for ANY scheduler and without any invariant, that when the
  loop returns

    FILTER           has grown by the number of executions,
    ENTAILMENT       by the number of executions that answered "entailed",
    FILTER_NO_CHANGE by the number of executions that neither failed nor changed a domain,
    INCONSISTENCY    by the number of executions that failed (status or empty intersection),

  that the nine other counters are untouched, that at most the LAST execution fails, and that
  it does iff the pass reports inconsistency.  `bcPass_stats` adds: BC grows by exactly one.

  Part 2 (search, `cons = bc`): `solveOne_stats`, `solveAll_stats`.
-/
namespace Nucs

/-! ### the ghost trace of one pass -/

/-- one constraint execution and its outcome -/
structure Exec where
  prop : Nat
  st : Status
  changed : Bool
  failed : Bool
deriving Repr, DecidableEq

/-- the write-back that `afterRun` performs -/
def wbOf (P : Problem) (s : State) (pi : Nat) (st : Status) (out : Box) : WB :=
  writeBack P (if st == .ent then s.top.ne.set pi false else s.top.ne) (P.props.getD pi default).vars out
    { doms := s.top.doms, trig := s.trig.set pi false, changed := false, failed := false }

theorem afterRun_fst (P : Problem) (s : State) (pi : Nat) (st : Status) (out : Box) :
    (afterRun P s pi st out).1 = (wbOf P s pi st out).failed := rfl

/-- the executions of `bcLoopG pick P fuel prev s`, in order -/
def bcTrace (pick : Picker) (P : Problem) : Nat → Option Nat → State → List Exec
  | 0, _, _ => []
  | fuel + 1, prev, s =>
    match pick s.trig prev with
    | none => []
    | some pi =>
      let p := P.props.getD pi default
      match runAlg p.alg p.params (views s.top.doms p.vars) with
      | .error _ => []
      | .ok (.inc, _) => [⟨pi, .inc, false, false⟩]
      | .ok (st, out) =>
        let w := wbOf P s pi st out
        ⟨pi, st, w.changed, w.failed⟩ ::
          (if w.failed then [] else bcTrace pick P fuel (some pi) (afterRun P s pi st out).2)

/-- the execution ended the pass with an inconsistency -/
def Exec.fails (e : Exec) : Bool := e.st == .inc || e.failed
/-- the filtering function answered "entailed" -/
def Exec.entailed (e : Exec) : Bool := e.st == .ent
/-- the execution neither failed nor changed any domain -/
def Exec.idle (e : Exec) : Bool := !e.fails && !e.changed
/-- the execution pruned at least one domain and did not fail -/
def Exec.pruned (e : Exec) : Bool := !e.fails && e.changed

/-- `a` with the four propagator counters increased -/
def Stats.addProp (a : Stats) (f e n i : Nat) : Stats :=
  { a with filter := a.filter + f, entailment := a.entailment + e,
           filterNoChange := a.filterNoChange + n, inconsistency := a.inconsistency + i }

theorem Stats.addProp_addProp (a : Stats) (f e n i f' e' n' i' : Nat) :
    (a.addProp f e n i).addProp f' e' n' i' = a.addProp (f + f') (e + e') (n + n') (i + i') := by
  simp only [Stats.addProp, Stats.mk.injEq, true_and, and_true]
  refine ⟨?_, ?_, ?_, ?_⟩ <;> omega

theorem Stats.addProp_zero (a : Stats) : a.addProp 0 0 0 0 = a := rfl

/-- the counters after the pass, computed from the trace -/
def statsAfter (a : Stats) (T : List Exec) : Stats :=
  a.addProp T.length (T.countP Exec.entailed) (T.countP Exec.idle) (T.countP Exec.fails)

theorem statsAfter_cons (a : Stats) (e : Exec) (T : List Exec) :
    statsAfter a (e :: T) =
      statsAfter (a.addProp 1 (if e.entailed then 1 else 0) (if e.idle then 1 else 0) (if e.fails then 1 else 0)) T := by
  simp only [statsAfter, Stats.addProp_addProp, List.length_cons, List.countP_cons]
  congr 1 <;> omega

theorem afterRun_stats (P : Problem) (s : State) (pi : Nat) (st : Status) (out : Box) (hst : st ≠ .inc) :
    (afterRun P s pi st out).2.stats =
      s.stats.addProp 1 (if (Exec.mk pi st (wbOf P s pi st out).changed (wbOf P s pi st out).failed).entailed then 1 else 0)
        (if (Exec.mk pi st (wbOf P s pi st out).changed (wbOf P s pi st out).failed).idle then 1 else 0)
        (if (Exec.mk pi st (wbOf P s pi st out).changed (wbOf P s pi st out).failed).fails then 1 else 0) := by
  have hinc : (st == Status.inc) = false := by cases st <;> first | rfl | exact absurd rfl hst
  simp only [afterRun, Stats.addProp, wbOf, Exec.entailed, Exec.idle, Exec.fails, hinc, Bool.false_or]
  simp only [Stats.mk.injEq, true_and, and_true]
  rfl

/-- what the trace says about how the pass ended: no execution but the last fails, and the last
    one fails iff the pass reports inconsistency -/
def endsWith : List Exec → BcStatus → Prop
  | [], st => st ≠ .inconsistent
  | [e], st => (st = .inconsistent ↔ e.fails = true)
  | e :: e' :: T, st => e.fails = false ∧ endsWith (e' :: T) st

theorem endsWith_cons {e : Exec} (he : e.fails = false) : ∀ {T : List Exec} {st : BcStatus},
    endsWith T st → endsWith (e :: T) st
  | [], st, h => by
    simp only [endsWith, he] at h ⊢
    exact ⟨fun h' => absurd h' h, fun h' => by cases h'⟩
  | _ :: _, _, h => ⟨he, h⟩

theorem statsAfter_nil (a : Stats) : statsAfter a [] = a := rfl

/-- C17 for the propagation loop: the counters are exactly the numbers of executions with the
    corresponding outcome.  Any scheduler, any state, no invariant. -/
theorem bcLoopG_stats (pick : Picker) (P : Problem) :
    ∀ (fuel : Nat) (prev : Option Nat) (s : State) (st : BcStatus) (s' : State),
      bcLoopG pick P fuel prev s = .ok (st, s') →
      s'.stats = statsAfter s.stats (bcTrace pick P fuel prev s) ∧ endsWith (bcTrace pick P fuel prev s) st
  | 0, _, _, _, _, h => by simp [bcLoopG] at h
  | fuel + 1, prev, s, st, s', h => by
    simp only [bcLoopG] at h
    simp only [bcTrace]
    cases hpick : pick s.trig prev with
    | none =>
      rw [hpick] at h
      simp only at h ⊢
      injection h with h; injection h with h1 h2; subst h2
      refine ⟨rfl, ?_⟩
      simp only [endsWith]
      rw [← h1]; split <;> simp
    | some pi =>
      rw [hpick] at h
      simp only at h ⊢
      have tail : ∀ st0 out, st0 ≠ .inc →
          (if (afterRun P s pi st0 out).1 = true then (Except.ok (BcStatus.inconsistent, (afterRun P s pi st0 out).2) : Except EngErr (BcStatus × State))
            else bcLoopG pick P fuel (some pi) (afterRun P s pi st0 out).2) = .ok (st, s') →
          s'.stats = statsAfter s.stats ((⟨pi, st0, (wbOf P s pi st0 out).changed, (wbOf P s pi st0 out).failed⟩ : Exec) ::
            (if (wbOf P s pi st0 out).failed = true then [] else bcTrace pick P fuel (some pi) (afterRun P s pi st0 out).2)) ∧
          endsWith ((⟨pi, st0, (wbOf P s pi st0 out).changed, (wbOf P s pi st0 out).failed⟩ : Exec) ::
            (if (wbOf P s pi st0 out).failed = true then [] else bcTrace pick P fuel (some pi) (afterRun P s pi st0 out).2)) st := by
        intro st0 out hst0 h
        have hinc : (st0 == Status.inc) = false := by cases st0 <;> first | rfl | exact absurd rfl hst0
        rw [afterRun_fst] at h
        rw [statsAfter_cons, ← afterRun_stats P s pi st0 out hst0]
        cases hf : (wbOf P s pi st0 out).failed with
        | true =>
          rw [hf] at h
          simp only [if_true] at h ⊢
          injection h with h; injection h with h1 h2; subst h1; subst h2
          refine ⟨rfl, ?_⟩
          simp [endsWith, Exec.fails]
        | false =>
          rw [hf] at h
          simp only [Bool.false_eq_true, if_false] at h ⊢
          have ih := bcLoopG_stats pick P fuel (some pi) _ st s' h
          exact ⟨ih.1, endsWith_cons (by simp [Exec.fails, hinc]) ih.2⟩
      cases hrun : runAlg (P.props.getD pi default).alg (P.props.getD pi default).params
          (views s.top.doms (P.props.getD pi default).vars) with
      | error e => rw [hrun] at h; cases e <;> simp at h
      | ok r =>
        obtain ⟨st0, out⟩ := r
        rw [hrun] at h
        cases st0 with
        | inc =>
          simp only at h ⊢
          injection h with h; injection h with h1 h2; subst h1; subst h2
          refine ⟨?_, ?_⟩
          · simp only [failRun, statsAfter, Stats.addProp]
            simp [Exec.entailed, Exec.idle, Exec.fails]
          · simp [endsWith, Exec.fails]
        | cons => exact tail .cons out (by decide) (by simpa using h)
        | ent => exact tail .ent out (by decide) (by simpa using h)

/-! ### reading the trace predicate -/

theorem endsWith_count : ∀ {T : List Exec} {st : BcStatus}, endsWith T st →
    T.countP Exec.fails = if st = .inconsistent then 1 else 0
  | [], st, h => by simp only [endsWith] at h; simp [h]
  | [e], st, h => by
    simp only [endsWith] at h
    by_cases hs : st = .inconsistent
    · simp [hs, h.mp hs]
    · have : e.fails = false := by
        cases hf : e.fails with
        | false => rfl
        | true => exact absurd (h.mpr hf) hs
      simp [hs, this]
  | e :: e' :: T, st, h => by
    have ih := endsWith_count h.2
    rw [List.countP_cons, ih, h.1]; simp

theorem endsWith_dropLast : ∀ {T : List Exec} {st : BcStatus}, endsWith T st →
    ∀ e ∈ T.dropLast, e.fails = false
  | [], _, _ => by simp
  | [_], _, _ => by simp
  | e :: e' :: T, st, h => by
    intro x hx
    rw [List.dropLast_cons_cons, List.mem_cons] at hx
    rcases hx with rfl | hx
    · exact h.1
    · exact endsWith_dropLast h.2 x hx

theorem endsWith_last : ∀ {T : List Exec} {st : BcStatus}, endsWith T st →
    (st = .inconsistent ↔ ∃ e, T.getLast? = some e ∧ e.fails = true)
  | [], st, h => by simp only [endsWith] at h; simp [h]
  | [e], st, h => by simp only [endsWith] at h; simp [h]
  | e :: e' :: T, st, h => by
    have ih := endsWith_last h.2
    rw [ih]; simp [List.getLast?_cons_cons]

/-- every execution has exactly one of the three outcomes idle / fails / pruned -/
theorem count_partition : ∀ T : List Exec,
    T.length = T.countP Exec.idle + T.countP Exec.fails + T.countP Exec.pruned
  | [] => rfl
  | e :: T => by
    have ih := count_partition T
    have h1 : (if e.idle = true then 1 else 0) + (if e.fails = true then 1 else 0) +
        (if e.pruned = true then 1 else 0) = 1 := by
      rcases Bool.eq_false_or_eq_true e.fails with hf | hf <;>
        rcases Bool.eq_false_or_eq_true e.changed with hc | hc <;> simp [Exec.idle, Exec.pruned, hf, hc]
    simp only [List.length_cons, List.countP_cons]
    omega

/-! ### the laws on the counters themselves -/

/-- the effect of one propagation loop on the thirteen counters (`a` before, `b` after, `st` the
    reported status): only FILTER, ENTAILMENT, FILTER_NO_CHANGE, INCONSISTENCY move, and
    monotonically; INCONSISTENCY grows by one exactly when the pass reports inconsistency;
    ΔFILTER_NO_CHANGE + ΔINCONSISTENCY ≤ ΔFILTER and ΔENTAILMENT ≤ ΔFILTER -/
structure PropLaw (k : Nat) (a b : Stats) (st : BcStatus) : Prop where
  /-- `k = 0` for the loop, `k = 1` for a whole pass -/
  bc : b.bc = a.bc + k
  bcShaving : b.bcShaving = a.bcShaving
  shaving : b.shaving = a.shaving
  shavingChange : b.shavingChange = a.shavingChange
  shavingNoChange : b.shavingNoChange = a.shavingNoChange
  backtrack : b.backtrack = a.backtrack
  choice : b.choice = a.choice
  depth : b.depth = a.depth
  solution : b.solution = a.solution
  filter : a.filter ≤ b.filter
  entailment : a.entailment ≤ b.entailment
  filterNoChange : a.filterNoChange ≤ b.filterNoChange
  inconsistency : b.inconsistency = a.inconsistency + (if st = .inconsistent then 1 else 0)
  /-- ΔFILTER_NO_CHANGE + ΔINCONSISTENCY ≤ ΔFILTER -/
  conservation : b.filterNoChange + b.inconsistency + a.filter ≤ b.filter + a.filterNoChange + a.inconsistency
  /-- ΔENTAILMENT ≤ ΔFILTER -/
  entailment_le : b.entailment + a.filter ≤ b.filter + a.entailment

/-- the law of the loop proper: BC does not move -/
abbrev LoopLaw (a b : Stats) (st : BcStatus) : Prop := PropLaw 0 a b st
/-- the law of a whole pass: BC grows by exactly one -/
abbrev PassLaw (a b : Stats) (st : BcStatus) : Prop := PropLaw 1 a b st

theorem LoopLaw.of_trace {a b : Stats} {T : List Exec} {st : BcStatus} (h : b = statsAfter a T)
    (he : endsWith T st) : LoopLaw a b st := by
  unfold LoopLaw
  subst h
  have hc := endsWith_count he
  have hp := count_partition T
  have hle : T.countP Exec.entailed ≤ T.length := List.countP_le_length
  refine ⟨rfl, rfl, rfl, rfl, rfl, rfl, rfl, rfl, rfl, ?_, ?_, ?_, ?_, ?_, ?_⟩ <;>
    simp only [statsAfter, Stats.addProp] <;> omega

/-- C17 (1)+(2) for the loop, on the counters -/
theorem bcLoopG_law (pick : Picker) (P : Problem) (fuel : Nat) (prev : Option Nat) (s : State)
    (st : BcStatus) (s' : State) (h : bcLoopG pick P fuel prev s = .ok (st, s')) :
    LoopLaw s.stats s'.stats st :=
  let r := bcLoopG_stats pick P fuel prev s st s' h
  LoopLaw.of_trace r.1 r.2

/-- ΔFILTER = #idle + #failing + #pruning executions, where #idle = ΔFILTER_NO_CHANGE and
    #failing = ΔINCONSISTENCY: the executions not accounted for by these two counters are exactly
    those that pruned -/
theorem bcLoopG_filter_split (pick : Picker) (P : Problem) (fuel : Nat) (prev : Option Nat) (s : State)
    (st : BcStatus) (s' : State) (h : bcLoopG pick P fuel prev s = .ok (st, s')) :
    s'.stats.filter + s.stats.filterNoChange + s.stats.inconsistency =
      s.stats.filter + s'.stats.filterNoChange + s'.stats.inconsistency +
        (bcTrace pick P fuel prev s).countP Exec.pruned := by
  have r := bcLoopG_stats pick P fuel prev s st s' h
  have hp := count_partition (bcTrace pick P fuel prev s)
  rw [r.1]
  simp only [statsAfter, Stats.addProp]
  omega

/-- a pass that executed nothing did nothing at all -/
theorem bcLoopG_no_exec (pick : Picker) (P : Problem) :
    ∀ (fuel : Nat) (prev : Option Nat) (s : State) (st : BcStatus) (s' : State),
      bcLoopG pick P fuel prev s = .ok (st, s') → s'.stats.filter = s.stats.filter → s' = s := by
  intro fuel prev s st s' h hfil
  have r := bcLoopG_stats pick P fuel prev s st s' h
  have hT : bcTrace pick P fuel prev s = [] := by
    have := r.1
    rw [this] at hfil
    simp only [statsAfter, Stats.addProp] at hfil
    exact List.eq_nil_of_length_eq_zero (by omega)
  cases fuel with
  | zero => simp [bcLoopG] at h
  | succ fuel =>
    simp only [bcLoopG] at h
    simp only [bcTrace] at hT
    cases hpick : pick s.trig prev with
    | none =>
      rw [hpick] at h
      simp only at h
      injection h with h; injection h with h1 h2; exact h2.symm
    | some pi =>
      rw [hpick] at h hT
      simp only at h hT
      cases hrun : runAlg (P.props.getD pi default).alg (P.props.getD pi default).params
          (views s.top.doms (P.props.getD pi default).vars) with
      | error e => rw [hrun] at h; cases e <;> simp at h
      | ok r =>
        obtain ⟨st0, out⟩ := r
        rw [hrun] at hT
        cases st0 <;> simp at hT

/-! ### the shipped pass -/

/-- the state in which `bcPass` enters the loop: `statistics[BC] += 1` -/
def State.bumpBc (s : State) : State := { s with stats := { s.stats with bc := s.stats.bc + 1 } }

theorem bcPass_eq (P : Problem) (s : State) : bcPass P s = bcLoopG pickProp P (bcFuel P s) none s.bumpBc := rfl

/-- C17 (3): `bcPass` adds exactly one to BC, and otherwise the exact counts of its loop -/
theorem bcPass_stats (P : Problem) (s : State) (st : BcStatus) (s' : State) (h : bcPass P s = .ok (st, s')) :
    s'.stats = statsAfter { s.stats with bc := s.stats.bc + 1 } (bcTrace pickProp P (bcFuel P s) none s.bumpBc) ∧
    endsWith (bcTrace pickProp P (bcFuel P s) none s.bumpBc) st :=
  bcLoopG_stats pickProp P (bcFuel P s) none s.bumpBc st s' h

theorem bcPass_law (P : Problem) (s : State) (st : BcStatus) (s' : State) (h : bcPass P s = .ok (st, s')) :
    PassLaw s.stats s'.stats st :=
  let r := bcLoopG_law pickProp P (bcFuel P s) none s.bumpBc st s' h
  ⟨r.bc, r.bcShaving, r.shaving, r.shavingChange, r.shavingNoChange, r.backtrack, r.choice, r.depth, r.solution,
    r.filter, r.entailment, r.filterNoChange, r.inconsistency, r.conservation, r.entailment_le⟩

/-- the loop touches nothing but the top level, the queue and the counters -/
theorem bcLoopG_below (pick : Picker) (P : Problem) :
    ∀ (fuel : Nat) (prev : Option Nat) (s : State) (st : BcStatus) (s' : State),
      bcLoopG pick P fuel prev s = .ok (st, s') → s'.below = s.below
  | 0, _, _, _, _, h => by simp [bcLoopG] at h
  | fuel + 1, prev, s, st, s', h => by
    simp only [bcLoopG] at h
    cases hpick : pick s.trig prev with
    | none =>
      rw [hpick] at h
      simp only at h
      injection h with h; injection h with h1 h2; subst h2; rfl
    | some pi =>
      rw [hpick] at h
      simp only at h
      cases hrun : runAlg (P.props.getD pi default).alg (P.props.getD pi default).params
          (views s.top.doms (P.props.getD pi default).vars) with
      | error e => rw [hrun] at h; cases e <;> simp at h
      | ok r =>
        obtain ⟨st0, out⟩ := r
        rw [hrun] at h
        have tail : ∀ st0 out,
            (if (afterRun P s pi st0 out).1 = true then (Except.ok (BcStatus.inconsistent, (afterRun P s pi st0 out).2) : Except EngErr (BcStatus × State))
              else bcLoopG pick P fuel (some pi) (afterRun P s pi st0 out).2) = .ok (st, s') → s'.below = s.below := by
          intro st0 out h
          split at h
          · injection h with h; injection h with h1 h2; subst h2; rfl
          · exact (bcLoopG_below pick P fuel (some pi) (afterRun P s pi st0 out).2 st s' h).trans rfl
        cases st0 with
        | inc =>
          simp only at h
          injection h with h; injection h with h1 h2; subst h2; rfl
        | cons => exact tail .cons out (by simpa using h)
        | ent => exact tail .ent out (by simpa using h)

theorem bcPass_below (P : Problem) (s : State) (st : BcStatus) (s' : State) (h : bcPass P s = .ok (st, s')) :
    s'.below = s.below := bcLoopG_below pickProp P (bcFuel P s) none s.bumpBc st s' h

/-! ### Part 2: the search (`cons = bc`) -/

/-- the effect of a search on the counters (`a` before, `b` after, `n` = number of solutions it
    returned; for one `solve_one` call `n` is 0 or 1, for the `solve()` generator any number):

    * the four shaving counters do not move, every other counter only grows;
    * `solution`   : ΔSOLUTION = n;
    * `passes`     : ΔBC = ΔCHOICE + ΔBACKTRACK + 1 — every pass but the last is followed by a
                     choice or by a successful backtrack;
    * `failures`   : ΔINCONSISTENCY + n = ΔBACKTRACK + 1 — a backtrack follows every inconsistent
                     pass and every solution, except the very last event of the search;
    * the conservation laws of the passes add up. -/
structure SearchLaw (a b : Stats) (n : Nat) : Prop where
  bcShaving : b.bcShaving = a.bcShaving
  shaving : b.shaving = a.shaving
  shavingChange : b.shavingChange = a.shavingChange
  shavingNoChange : b.shavingNoChange = a.shavingNoChange
  filter : a.filter ≤ b.filter
  entailment : a.entailment ≤ b.entailment
  filterNoChange : a.filterNoChange ≤ b.filterNoChange
  inconsistency : a.inconsistency ≤ b.inconsistency
  backtrack : a.backtrack ≤ b.backtrack
  choice : a.choice ≤ b.choice
  depth : a.depth ≤ b.depth
  passes : b.bc + a.choice + a.backtrack = a.bc + b.choice + b.backtrack + 1
  solution : b.solution = a.solution + n
  failures : b.inconsistency + a.backtrack + n = a.inconsistency + b.backtrack + 1
  conservation : b.filterNoChange + b.inconsistency + a.filter ≤ b.filter + a.filterNoChange + a.inconsistency
  entailment_le : b.entailment + a.filter ≤ b.filter + a.entailment

theorem SearchLaw.of_bound {a m : Stats} (L : PassLaw a m .bound) :
    SearchLaw a { m with solution := m.solution + 1 } 1 := by
  obtain ⟨h1, h2, h3, h4, h5, h6, h7, h8, h9, h10, h11, h12, h13, h14, h15⟩ := L
  simp only [reduceCtorEq, if_false] at h13
  constructor <;> simp only <;> omega

theorem SearchLaw.of_exhausted {a m : Stats} (L : PassLaw a m .inconsistent) : SearchLaw a m 0 := by
  obtain ⟨h1, h2, h3, h4, h5, h6, h7, h8, h9, h10, h11, h12, h13, h14, h15⟩ := L
  simp only [if_true] at h13
  constructor <;> omega

theorem SearchLaw.of_choice {a m b : Stats} {n : Nat} (k : Nat) (L : PassLaw a m .unbound)
    (ih : SearchLaw { m with choice := m.choice + 1, depth := max m.depth k } b n) :
    SearchLaw a b n := by
  obtain ⟨h1, h2, h3, h4, h5, h6, h7, h8, h9, h10, h11, h12, h13, h14, h15⟩ := L
  obtain ⟨i1, i2, i3, i4, i5, i6, i7, i8, i9, i10, i11, i12, i13, i14, i15, i16⟩ := ih
  simp only [reduceCtorEq, if_false] at h13
  simp only at i1 i2 i3 i4 i5 i6 i7 i8 i9 i10 i11 i12 i13 i14 i15 i16
  constructor <;> omega

theorem SearchLaw.of_backtrack {a m b : Stats} {n : Nat} (L : PassLaw a m .inconsistent)
    (ih : SearchLaw { m with backtrack := m.backtrack + 1 } b n) :
    SearchLaw a b n := by
  obtain ⟨h1, h2, h3, h4, h5, h6, h7, h8, h9, h10, h11, h12, h13, h14, h15⟩ := L
  obtain ⟨i1, i2, i3, i4, i5, i6, i7, i8, i9, i10, i11, i12, i13, i14, i15, i16⟩ := ih
  simp only [if_true] at h13
  simp only at i1 i2 i3 i4 i5 i6 i7 i8 i9 i10 i11 i12 i13 i14 i15 i16
  constructor <;> omega

/-- a search that found a solution, the backtrack of the generator's resumption, another search -/
theorem SearchLaw.seq {a m b : Stats} {n : Nat} (L : SearchLaw a m 1)
    (ih : SearchLaw { m with backtrack := m.backtrack + 1 } b n) : SearchLaw a b (n + 1) := by
  obtain ⟨h1, h2, h3, h4, h5, h6, h7, h8, h9, h10, h11, h12, h13, h14, h15, h16⟩ := L
  obtain ⟨i1, i2, i3, i4, i5, i6, i7, i8, i9, i10, i11, i12, i13, i14, i15, i16⟩ := ih
  simp only at i1 i2 i3 i4 i5 i6 i7 i8 i9 i10 i11 i12 i13 i14 i15 i16
  constructor <;> omega

theorem backtrack_stats (P : Problem) (s s2 : State) (h : backtrack P s = some s2) :
    s2.stats = { s.stats with backtrack := s.stats.backtrack + 1 } ∧ s2.below.length + 1 = s.below.length := by
  unfold backtrack at h
  split at h
  · cases h
  · rename_i l rest hb
    injection h with h; subst h
    simp [hb]

theorem consPass_bc (P : Problem) (cfg : Config) (hc : cfg.cons = .bc) (s : State) :
    consPass P cfg s = bcPass P s := by
  simp [consPass, hc]

/-- C17 for one `solve_one` call -/
theorem solveOne_stats (P : Problem) (cfg : Config) (hc : cfg.cons = .bc) :
    ∀ (fuel : Nat) (s : State) (r : Option (List Int)) (s' : State),
      solveOne P cfg fuel s = .ok (r, s') → SearchLaw s.stats s'.stats (if r.isSome then 1 else 0)
  | 0, _, _, _, h => by simp [solveOne] at h
  | fuel + 1, s, r, s', h => by
    simp only [solveOne, consPass_bc P cfg hc] at h
    split at h
    · cases h
    · cases hp : bcPass P s with
      | error e => rw [hp] at h; simp at h
      | ok x =>
        obtain ⟨st, s1⟩ := x
        have L := bcPass_law P s st s1 hp
        rw [hp] at h
        cases st with
        | bound =>
          simp only at h
          injection h with h; injection h with h1 h2; subst h1; subst h2
          exact SearchLaw.of_bound L
        | unbound =>
          simp only at h
          split at h
          · cases h
          · split at h
            · cases h
            · cases h
            · split at h
              · cases h
              · rename_i b _
                have ih := solveOne_stats P cfg hc fuel _ r s' h
                exact SearchLaw.of_choice _ L ih
        | inconsistent =>
          simp only at h
          split at h
          · injection h with h; injection h with h1 h2; subst h1; subst h2
            exact SearchLaw.of_exhausted L
          · rename_i s2 hb
            have ih := solveOne_stats P cfg hc fuel s2 r s' h
            rw [(backtrack_stats P s1 s2 hb).1] at ih
            exact SearchLaw.of_backtrack L ih

/-- C17 for the `solve()` generator (run until `limit + 1` solutions have been taken or the search
    is exhausted): with `n` the number of solutions returned, `SearchLaw` holds with that `n` -/
theorem solveAll_stats (P : Problem) (cfg : Config) (hc : cfg.cons = .bc) (fuel1 : Nat) :
    ∀ (fuel limit : Nat) (s : State) (acc sols : List (List Int)) (s' : State),
      solveAll P cfg fuel1 fuel (limit + 1) s acc = .ok (sols, s') →
      ∃ n, n ≤ limit + 1 ∧ sols.length = acc.length + n ∧ SearchLaw s.stats s'.stats n
  | 0, _, _, _, _, _, h => by simp [solveAll] at h
  | fuel + 1, limit, s, acc, sols, s', h => by
    simp only [solveAll] at h
    cases hso : solveOne P cfg fuel1 s with
    | error e => rw [hso] at h; simp at h
    | ok x =>
      obtain ⟨r, s1⟩ := x
      have L := solveOne_stats P cfg hc fuel1 s r s1 hso
      rw [hso] at h
      cases r with
      | none =>
        simp only at h
        injection h with h; injection h with h1 h2; subst h1; subst h2
        exact ⟨0, by omega, by simp, L⟩
      | some sol =>
        simp only at h
        have L1 : SearchLaw s.stats s1.stats 1 := L
        split at h
        · injection h with h; injection h with h1 h2; subst h1; subst h2
          exact ⟨1, by omega, by simp, L1⟩
        · rename_i hl
          split at h
          · injection h with h; injection h with h1 h2; subst h1; subst h2
            exact ⟨1, by omega, by simp, L1⟩
          · rename_i s2 hb
            obtain ⟨l, rfl⟩ : ∃ l, limit = l + 1 := ⟨limit - 1, by omega⟩
            obtain ⟨n, hn, hlen, ih⟩ := solveAll_stats P cfg hc fuel1 fuel l s2 (sol :: acc) sols s' h
            rw [(backtrack_stats P s1 s2 hb).1] at ih
            exact ⟨n + 1, by omega, by rw [hlen]; simp; omega, SearchLaw.seq L1 ih⟩

/-- asking for no solution does nothing -/
theorem solveAll_zero (P : Problem) (cfg : Config) (fuel1 fuel : Nat) (s : State) (acc : List (List Int)) :
    solveAll P cfg fuel1 (fuel + 1) 0 s acc = .ok (acc.reverse, s) := rfl

/-! ### DEPTH: the greatest stack height reached -/

/-- ghost: the stack heights reached by the choices of one `solve_one` call, in order (same
    recursion as `solveOne`) -/
def solveOneHeights (P : Problem) (cfg : Config) : Nat → State → List Nat
  | 0, _ => []
  | fuel + 1, s =>
    if s.below.length + 1 ≥ cfg.height then [] else
    match consPass P cfg s with
    | .error _ => []
    | .ok (.bound, _) => []
    | .ok (.unbound, s1) =>
      if s1.below.length + 2 ≥ cfg.height then [] else
      match runVarHeur cfg.varH cfg.varCosts cfg.decision s1.top.doms with
      | none => []
      | some none => []
      | some (some d) =>
        match runDomHeur cfg.domH cfg.domCosts s1.top d with
        | none => []
        | some b =>
          let s2 := s1.push b
          let s3 := { s2 with
            trig := addProps P s2.trig s2.top.ne d b.events
            stats := { s2.stats with choice := s2.stats.choice + 1, depth := max s2.stats.depth s2.below.length } }
          s2.below.length :: solveOneHeights P cfg fuel s3
    | .ok (.inconsistent, s1) =>
      match backtrack P s1 with
      | none => []
      | some s2 => solveOneHeights P cfg fuel s2

/-- CHOICE counts the choices, DEPTH is the maximum of its old value and of the stack heights
    reached by these choices -/
theorem solveOne_depth (P : Problem) (cfg : Config) (hc : cfg.cons = .bc) :
    ∀ (fuel : Nat) (s : State) (r : Option (List Int)) (s' : State),
      solveOne P cfg fuel s = .ok (r, s') →
      s'.stats.depth = (solveOneHeights P cfg fuel s).foldl max s.stats.depth ∧
      s'.stats.choice = s.stats.choice + (solveOneHeights P cfg fuel s).length
  | 0, _, _, _, h => by simp [solveOne] at h
  | fuel + 1, s, r, s', h => by
    simp only [solveOne, consPass_bc P cfg hc] at h
    simp only [solveOneHeights, consPass_bc P cfg hc]
    by_cases hh : s.below.length + 1 ≥ cfg.height
    · rw [if_pos hh] at h; cases h
    · rw [if_neg hh] at h ⊢
      cases hp : bcPass P s with
      | error e => rw [hp] at h; simp at h
      | ok x =>
        obtain ⟨st, s1⟩ := x
        have L := bcPass_law P s st s1 hp
        rw [hp] at h
        cases st with
        | bound =>
          simp only at h ⊢
          injection h with h; injection h with h1 h2; subst h1; subst h2
          exact ⟨L.depth, by simpa using L.choice⟩
        | unbound =>
          simp only at h ⊢
          by_cases hh2 : s1.below.length + 2 ≥ cfg.height
          · rw [if_pos hh2] at h; cases h
          · rw [if_neg hh2] at h ⊢
            cases hv : runVarHeur cfg.varH cfg.varCosts cfg.decision s1.top.doms with
            | none => rw [hv] at h; cases h
            | some o =>
              cases o with
              | none => rw [hv] at h; cases h
              | some d =>
                rw [hv] at h
                simp only at h ⊢
                cases hd : runDomHeur cfg.domH cfg.domCosts s1.top d with
                | none => rw [hd] at h; cases h
                | some b =>
                  rw [hd] at h
                  simp only at h ⊢
                  have ih := solveOne_depth P cfg hc fuel _ r s' h
                  rw [ih.1, ih.2]
                  simp only [State.push, List.foldl_cons, List.length_cons, L.depth, L.choice]
                  exact ⟨trivial, by omega⟩
        | inconsistent =>
          simp only at h ⊢
          cases hb : backtrack P s1 with
          | none =>
            rw [hb] at h
            simp only at h ⊢
            injection h with h; injection h with h1 h2; subst h1; subst h2
            exact ⟨L.depth, by simpa using L.choice⟩
          | some s2 =>
            rw [hb] at h
            simp only at h ⊢
            have ih := solveOne_depth P cfg hc fuel s2 r s' h
            rw [ih.1, ih.2, (backtrack_stats P s1 s2 hb).1]
            simp only [L.depth, L.choice]
            exact ⟨trivial, trivial⟩

/-! ### non-vacuity: the hypotheses are met by concrete runs, and the laws can be read off -/

/-- x, y ∈ [0,5], x + y ≤ 4, x ≤ y -/
def c17Example : Problem :=
  ⟨[(0, 5), (0, 5)], [(0, 0), (1, 0)],
   [⟨.affineLeq, [(0, 0), (1, 0)], [1, 1, 4]⟩, ⟨.maxLeq, [(0, 0), (1, 0)], []⟩]⟩

/-- the root pass executes constraint 0 (which prunes) and then constraint 1 (which does not) -/
example : bcTrace pickProp c17Example (bcFuel c17Example (State.init c17Example)) none (State.init c17Example).bumpBc
    = [⟨0, .cons, true, false⟩, ⟨1, .cons, false, false⟩] := by decide

example : ∃ s', bcPass c17Example (State.init c17Example) = .ok (.unbound, s') ∧
    s'.stats.bc = 1 ∧ s'.stats.filter = 2 ∧ s'.stats.filterNoChange = 1 ∧ s'.stats.inconsistency = 0 :=
  ⟨_, rfl, rfl, rfl, rfl, rfl⟩

/-- x + y ≤ 4 and x + y ≥ 9: the second execution fails, INCONSISTENCY = 1 -/
def c17Example2 : Problem :=
  ⟨[(0, 5), (0, 5)], [(0, 0), (1, 0)],
   [⟨.affineLeq, [(0, 0), (1, 0)], [1, 1, 4]⟩, ⟨.affineGeq, [(0, 0), (1, 0)], [1, 1, 9]⟩]⟩

example : ∃ s', bcPass c17Example2 (State.init c17Example2) = .ok (.inconsistent, s') ∧
    s'.stats.filter = 2 ∧ s'.stats.filterNoChange = 0 ∧ s'.stats.inconsistency = 1 :=
  ⟨_, rfl, rfl, rfl, rfl⟩

/-- the whole search of the first example: 9 solutions, 17 passes = 8 choices + 8 backtracks + 1,
    0 inconsistencies + 9 solutions = 8 backtracks + 1 -/
example : ∃ sols s', solveAll c17Example { decision := [0, 1] } 100 100 100 (State.init c17Example) [] = .ok (sols, s') ∧
    sols.length = 9 ∧ s'.stats.solution = 9 ∧ s'.stats.bc = 17 ∧ s'.stats.choice = 8 ∧ s'.stats.backtrack = 8 ∧
    s'.stats.inconsistency = 0 ∧ s'.stats.depth = 2 :=
  ⟨_, _, rfl, rfl, rfl, rfl, rfl, rfl, rfl, rfl⟩

end Nucs
