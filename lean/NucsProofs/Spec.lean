import NucsModel
/-!
  NucsProofs.Spec — WHAT is claimed about a filtering call.

  * `inBox`, `Box.le`, `Box.Nonempty`, `pointBox`
  * `rel a ps t`      : the DOCUMENTED relation of constraint `a` (docs/source/reference.rst),
                        written from the documentation, not from the code
  * `relW a ps t`     : what an accepted instantiated tuple is guaranteed to satisfy
                        (= `rel`, except for no_sub_cycle which is decisive on permutations only)
  * `Contract a ps B` : the documented parameter contract (DESIGN.md §6)
  * the local contracts `Sound`, `GroundOk`, `EntailOk`, `Exact`, `TrigOk`, `Safe` that the engine
    theorems consume.

  This file contains definitions only.  It must not be edited to make a proof pass.
-/
namespace Nucs

/-! ### boxes and tuples -/

def inDom (v : Int) (d : Dom) : Prop := d.1 ≤ v ∧ v ≤ d.2

/-- the tuple `t` lies in the box `B` (same length, componentwise) -/
def inBox : List Int → Box → Prop
  | [], [] => True
  | t :: ts, d :: ds => inDom t d ∧ inBox ts ds
  | _, _ => False

/-- `B' ⊆ B` componentwise (same length) -/
def Box.le : Box → Box → Prop
  | [], [] => True
  | d' :: ds', d :: ds => (d.1 ≤ d'.1 ∧ d'.2 ≤ d.2) ∧ Box.le ds' ds
  | _, _ => False

def Box.Nonempty (B : Box) : Prop := ∀ d ∈ B, d.1 ≤ d.2

def pointBox (t : List Int) : Box := t.map (fun v => (v, v))

/-- all domains within `[lo, hi]` -/
def Box.within (B : Box) (lo hi : Int) : Prop := ∀ d ∈ B, lo ≤ d.1 ∧ d.2 ≤ hi

/-! ### documented relations -/

def tFront (t : List Int) : List Int := t.dropLast
def tBack (t : List Int) : Int := t.getLastD 0

/-- lexicographic `≤` on equally long lists -/
def lexLe : List Int → List Int → Prop
  | [], _ => True
  | _ :: _, [] => False
  | x :: xs, y :: ys => x < y ∨ (x = y ∧ lexLe xs ys)

/-- `k`-fold successor of vertex `v` in the successor function `t` (`none` = left `[0,n)`) -/
def iterSucc (t : List Int) : Nat → Int → Option Int
  | 0, v => if 0 ≤ v ∧ v < t.length then some v else none
  | k + 1, v => if 0 ≤ v then (t[v.toNat]?).bind (iterSucc t k) else none

/-- no cycle visiting fewer than `n` vertices -/
def NoShortCycle (t : List Int) : Prop :=
  ∀ v : Nat, v < t.length → ∀ k : Nat, 0 < k → k < t.length → iterSucc t k v ≠ some (v : Int)

/-- the successor graph is strongly connected: every vertex reachable from 0, and 0 from it -/
def StronglyConnected (t : List Int) : Prop :=
  ∀ v : Nat, v < t.length →
    (∃ k, iterSucc t k 0 = some (v : Int)) ∧ (∃ k, iterSucc t k v = some 0)

def gccOk (v0 : Int) (ls us : List Int) (t : List Int) : Prop :=
  ∀ j : Nat, j < ls.length →
    getI ls j ≤ (t.count (v0 + j) : Int) ∧ (t.count (v0 + j) : Int) ≤ getI us j

/-- the documented relation -/
def rel (a : Alg) (ps : List Int) (t : List Int) : Prop :=
  match a with
  | .and => (tBack t = 1 ∧ ∀ x ∈ tFront t, x = 1) ∨ (tBack t = 0 ∧ ∃ x ∈ tFront t, x ≠ 1)
  | .affineEq => dot ps.dropLast t = ps.getLastD 0
  | .affineGeq => dot ps.dropLast t ≥ ps.getLastD 0
  | .affineLeq => dot ps.dropLast t ≤ ps.getLastD 0
  | .alldifferent => t.Nodup
  | .countEq => ((tFront t).count (getI ps 0) : Int) = tBack t
  | .dummy => True
  | .elementIv => 0 ≤ getI t 0 ∧ ps[(getI t 0).toNat]? = some (getI t 1)
  | .elementLic => 0 ≤ tBack t ∧ (tFront t)[(tBack t).toNat]? = some (getI ps 0)
  | .elementLiv => 0 ≤ tBack (tFront t) ∧ (tFront (tFront t))[(tBack (tFront t)).toNat]? = some (tBack t)
  | .exactlyEq => (t.count (getI ps 0) : Int) = getI ps 1
  | .exactlyTrue => (t.count 1 : Int) = getI ps 0
  | .gcc => gccOk (getI ps 0) ((ps.drop 1).take ((ps.length - 1) / 2)) (ps.drop (1 + (ps.length - 1) / 2)) t
  | .lexLeq => lexLe (t.take (t.length / 2)) (t.drop (t.length / 2))
  | .maxEq => tBack t ∈ tFront t ∧ ∀ x ∈ tFront t, x ≤ tBack t
  | .maxLeq => ∀ x ∈ tFront t, x ≤ tBack t
  | .minEq => tBack t ∈ tFront t ∧ ∀ x ∈ tFront t, tBack t ≤ x
  | .minGeq => ∀ x ∈ tFront t, tBack t ≤ x
  | .noSubCycle => NoShortCycle t
  | .relation => t ∈ chunks t.length ps.length ps
  | .scc => StronglyConnected t

/-- what acceptance of an instantiated tuple guarantees -/
def relW (a : Alg) (ps : List Int) (t : List Int) : Prop :=
  match a with
  | .noSubCycle => t.Nodup → NoShortCycle t
  | _ => rel a ps t

/-! ### documented parameter contracts -/

def Contract (a : Alg) (ps : List Int) (B : Box) : Prop :=
  match a with
  | .and => 1 ≤ B.length ∧ B.within 0 1
  | .affineEq | .affineGeq | .affineLeq => ps.length = B.length + 1
  | .alldifferent => 1 ≤ B.length
  | .countEq => ps.length = 1 ∧ 1 ≤ B.length
  | .dummy => True
  | .elementIv => B.length = 2 ∧ 1 ≤ ps.length
  | .elementLic => ps.length = 1 ∧ 2 ≤ B.length
  | .elementLiv => 3 ≤ B.length
  | .exactlyEq => ps.length = 2 ∧ 1 ≤ B.length ∧ 0 ≤ getI ps 1 ∧ getI ps 1 ≤ B.length
  | .exactlyTrue => ps.length = 1 ∧ 1 ≤ B.length ∧ B.within 0 1 ∧ 0 ≤ getI ps 0 ∧ getI ps 0 ≤ B.length
  | .gcc =>
      let m := (ps.length - 1) / 2
      ps.length = 2 * m + 1 ∧ 1 ≤ m ∧ 1 ≤ B.length ∧ B.within (getI ps 0) (getI ps 0 + m - 1) ∧
      ∀ j, j < m → 0 ≤ getI ps (1 + j) ∧ getI ps (1 + j) ≤ getI ps (1 + m + j)
  | .lexLeq => 2 ≤ B.length
  | .maxEq | .maxLeq | .minEq | .minGeq => 2 ≤ B.length
  | .noSubCycle | .scc => 1 ≤ B.length ∧ B.within 0 ((B.length : Int) - 1)
  | .relation => 1 ≤ B.length ∧ 1 ≤ ps.length ∧ ps.length % B.length = 0

/-! ### events -/

/-- the events of a change `o → n` of one domain (GROUND only together with a change) -/
def evOf (o n : Dom) : Ev :=
  { min := decide (n.1 ≠ o.1), max := decide (n.2 ≠ o.2), ground := decide (n ≠ o ∧ n.1 = n.2) }

/-- no event watched by mask `m` separates `o` from `n` -/
def quiet (m : Ev) (o n : Dom) : Prop := m.meets (evOf o n) = false

/-! ### local contracts of one algorithm (DESIGN.md §4.3) -/

/-- C05 (+ the shrinking half of C08): a non-failing call returns a non-empty sub-box that keeps
    every solution; a failing call had no solution -/
def Sound (a : Alg) : Prop :=
  ∀ ps B st B', Contract a ps B → B.Nonempty → runAlg a ps B = .ok (st, B') →
    (st ≠ .inc → Box.le B' B ∧ B'.Nonempty ∧ ∀ t, inBox t B → rel a ps t → inBox t B') ∧
    (st = .inc → ∀ t, inBox t B → ¬ rel a ps t)

/-- C06: a call that leaves all variables instantiated without failing accepted a tuple that
    satisfies the relation -/
def GroundOk (a : Alg) : Prop :=
  ∀ ps B st B' t, Contract a ps B → B.Nonempty → runAlg a ps B = .ok (st, B') → st ≠ .inc →
    B' = pointBox t → relW a ps t

/-- C07: `entailed` only if every tuple of the returned box satisfies the constraint -/
def EntailOk (a : Alg) : Prop :=
  ∀ ps B B', Contract a ps B → B.Nonempty → runAlg a ps B = .ok (.ent, B') →
    ∀ t, inBox t B' → rel a ps t

/-- C14: every bound of the returned box is attained by a solution inside it, and a second call
    changes nothing.  (With `Sound` this says the result is exactly the bounds hull, and that the
    call fails exactly when there is no solution.) -/
def Exact (a : Alg) : Prop :=
  ∀ ps B st B', Contract a ps B → B.Nonempty → runAlg a ps B = .ok (st, B') → st ≠ .inc →
    (∀ k, k < B'.length →
      (∃ t, inBox t B' ∧ rel a ps t ∧ getI t k = (getDom B' k).1) ∧
      (∃ t, inBox t B' ∧ rel a ps t ∧ getI t k = (getDom B' k).2)) ∧
    (∃ st', runAlg a ps B' = .ok (st', B') ∧ st' ≠ .inc)

/-- the contract only constrains arities, parameters and outer value ranges -/
def ContractMono (a : Alg) : Prop :=
  ∀ ps B B', Contract a ps B → Box.le B' B → Contract a ps B'

/-- C08 (trigger sufficiency): after a non-failing call, any non-empty sub-box of the result that
    is not separated from the INPUT by a watched event is a fixpoint of the call -/
def TrigOk (a : Alg) : Prop :=
  ∀ ps B st B' B'', Contract a ps B → B.Nonempty → runAlg a ps B = .ok (st, B') → st ≠ .inc →
    Box.le B'' B' → B''.Nonempty →
    (∀ k, k < B.length → quiet (maskAlg a ps B.length k) (getDom B k) (getDom B'' k)) →
    ∃ st'', runAlg a ps B'' = .ok (st'', B'') ∧ st'' ≠ .inc

/-- weak form for a constraint that by design reacts to instantiation only (no_sub_cycle):
    unwatched changes cannot make it fail -/
def TrigOkW (a : Alg) : Prop :=
  ∀ ps B st B' B'', Contract a ps B → B.Nonempty → runAlg a ps B = .ok (st, B') → st ≠ .inc →
    Box.le B'' B' → B''.Nonempty →
    (∀ k, k < B.length → quiet (maskAlg a ps B.length k) (getDom B k) (getDom B'' k)) →
    ∃ st'' B''', runAlg a ps B'' = .ok (st'', B''') ∧ st'' ≠ .inc

/-- the part of `TrigOkW` that holds for no_sub_cycle (`TrigOkW .noSubCycle` itself is FALSE for the
    code — an unwatched MIN/MAX change can turn an interior value into a bound, after which a
    re-execution prunes and may fail; known finding K3): once ALL variables are instantiated,
    unwatched changes cannot make the call fail -/
def TrigOkP (a : Alg) : Prop :=
  ∀ ps B st B' B'', Contract a ps B → B.Nonempty → runAlg a ps B = .ok (st, B') → st ≠ .inc →
    Box.le B'' B' → B''.Nonempty → B''.isGround = true →
    (∀ k, k < B.length → quiet (maskAlg a ps B.length k) (getDom B k) (getDom B'' k)) →
    ∃ st'' B3, runAlg a ps B'' = .ok (st'', B3) ∧ st'' ≠ .inc

/-- C16 / C04 for one call: in contract the model neither indexes out of bounds nor runs out of fuel -/
def Safe (a : Alg) : Prop :=
  ∀ ps B, Contract a ps B → B.Nonempty → ∃ r, runAlg a ps B = .ok r

end Nucs
