import NucsModel.Basic
import NucsModel.Registry
import NucsModel.Engine.Core
import NucsModel.Engine.Heuristics
import NucsModel.Engine.Search
import NucsModel.MP
import NucsModel.ProblemOps
import NucsModel.Driver
