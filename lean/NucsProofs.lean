-- see lakefile.toml: the library's roots are the Properties modules
import NucsProofs.Spec
