import NucsModel
import NucsProofs.Spec
import NucsProofs.Basic
import NucsProofs.Propagators.AffineLeq
import NucsProofs.Properties.C05
import NucsProofs.Properties.C06
import NucsProofs.Properties.C07
