import NucsModel.Engine.Core
/-!
  `Problem.split` and the part of `Problem.init` that matters to the engine (flattening of the
  variable lists through dom_indices/dom_offsets, stable sort by the complexity keys supplied by
  the implementation, OR-ed trigger matrix = `trigMask`).
-/
namespace Nucs

/-- a constraint as the user posts it: variable indices, algorithm, parameters -/
structure RawProp where
  vars : List Nat
  alg : Alg
  params : List Int
deriving Repr, Inhabited

/-- stable insertion sort by key (Python's `list.sort(key=…)` is stable) -/
def insertByKey {α : Type} (key : α → Int) (x : α) : List α → List α
  | [] => [x]
  | y :: ys => if key x ≤ key y then x :: y :: ys else y :: insertByKey key x ys

def stableSort {α : Type} (key : α → Int) (l : List α) : List α :=
  l.foldr (insertByKey key) []

/-- `Problem.init`: keys are the values of `get_complexity_*` scaled to integers by the harness
    (the float computation itself is not modelled) -/
def initProblem (shr : Box) (vars : List (Nat × Int)) (raw : List (RawProp × Int)) : Problem :=
  let sorted := stableSort (fun (rk : RawProp × Int) => rk.2) raw
  { shr := shr, vars := vars,
    props := sorted.map (fun rk =>
      { alg := rk.1.alg, params := rk.1.params, vars := rk.1.vars.map (fun v => vars.getD v (0, 0)) }) }

/-- the bounds of the `split_nb` parts of `[lo, hi]` (after the fix: at most one part per value) -/
def splitBounds (lo hi : Int) (k : Nat) : List Dom :=
  let size := hi - lo + 1
  let k' : Int := max 1 (min (k : Int) size)
  let q := pyDiv size k'
  let r := Int.fmod size k'
  let rec go : Nat → Int → Int → List Dom
    | 0, _, _ => []
    | n + 1, idx, minIdx =>
      let maxIdx := minIdx + q - (if idx < r then 0 else 1)
      (minIdx, maxIdx) :: go n (idx + 1) (maxIdx + 1)
  go k'.toNat 0 lo

/-- `Problem.split(split_nb, var_idx)`: the list of shared-domain lists of the sub-problems -/
def splitProblem (shr : Box) (vars : List (Nat × Int)) (k : Nat) (v : Nat) : List Box :=
  let di := (vars.getD v (0, 0)).1
  let dom := getDom shr di
  (splitBounds dom.1 dom.2 k).map (fun part => shr.set di part)

end Nucs
