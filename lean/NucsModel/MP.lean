import NucsModel.Engine.Search
/-!
  The multiprocessing parent (nucs/solvers/multiprocessing_solver.py, after the worker-death fix)
  as a state machine over the inputs it can observe:

    * `msg i (some sol) stats` / `msg i none stats` — a message taken from the queue
      (solution, resp. completion marker, of worker `i`, with that worker's statistics so far);
    * `timeout alive` — `Queue.get(timeout)` raised `Empty`; `alive i` is `Process.is_alive()`.

  The parent keeps the set of workers that have not announced completion.  After a time-out with
  a dead running worker it tries ONE more `get`; a second consecutive time-out raises.
-/
namespace Nucs

inductive MPIn
  | msg (worker : Nat) (sol : Option (List Int)) (stats : List Nat)
  | timeout (alive : List Bool)
deriving Repr, Inhabited

structure MPState where
  running : List Nat                  -- workers that have not announced completion
  stats : List (Option (List Nat))    -- self.statistics
  yielded : List (List Int)           -- solutions delivered so far (solve), newest first
  best : Option (List Int)            -- incumbent (optimize)
  suspect : Bool                      -- a dead running worker was seen at the previous time-out
  raised : Bool
deriving Repr, Inhabited

def MPState.init (k : Nat) : MPState :=
  { running := List.range k, stats := List.replicate k none, yielded := [], best := none,
    suspect := false, raised := false }

def MPState.done (s : MPState) : Bool := s.running.isEmpty || s.raised

/-- `comparison_func(solution[v], best[v])` is `<` for minimize and `>` for maximize -/
def better (minimize : Bool) (v : Nat) (sol best : List Int) : Bool :=
  if minimize then decide (getI sol v < getI best v) else decide (getI sol v > getI best v)

/-- one step of the parent loop; `opt = none` is `solve`, `some (v, minimize)` is `optimize` -/
def mpStep (opt : Option (Nat × Bool)) (s : MPState) (i : MPIn) : MPState :=
  if s.done then s else
  match i with
  | .msg w sol st =>
    let s := { s with stats := s.stats.set w (some st), suspect := false }
    match sol with
    | none => { s with running := s.running.filter (· != w) }
    | some x =>
      match opt with
      | none => { s with yielded := x :: s.yielded }
      | some (v, minimize) =>
        match s.best with
        | none => { s with best := some x }
        | some b => if better minimize v x b then { s with best := some x } else s
  | .timeout alive =>
    let dead := s.running.any (fun w => !getB alive w)
    if s.suspect then { s with raised := true }     -- second consecutive time-out after a death
    else if dead then { s with suspect := true }
    else s

def mpRun (opt : Option (Nat × Bool)) (k : Nat) (ins : List MPIn) : MPState :=
  ins.foldl (mpStep opt) (MPState.init k)

/-- sum_stats / max_stats over the workers' last statistics -/
def mpAggregate (s : MPState) : Option (List Nat) :=
  if s.stats.any Option.isNone then none
  else
    let rows := s.stats.filterMap id
    some ((List.range 13).map (fun j =>
      if j == 11 then rows.foldl (fun m r => max m (r.getD j 0)) 0
      else rows.foldl (fun acc r => acc + r.getD j 0) 0))

end Nucs
