import NucsModel.Engine.Core
/-!
  NucsModel.Examples — the shipped example models, as POSTED problems.

  Every function mirrors the Python constructor of one model of /repo/nucs/examples/*/…_problem.py
  or /repo/nucs/problems/{circuit,latin_square}_problem.py line by line:

  * `shr`   = `shr_domains_lst` (after the constructor's in-place edits, if any),
  * `vars`  = `zip(dom_indices_lst, dom_offsets_lst)`,
  * `props` = `self.propagators` in POSTING order (i.e. BEFORE the stable sort of `Problem.init`),
              each constraint's variable indices resolved through `vars` to (domain index, offset)
              pairs exactly as `Problem.init` does (`dom_indices_arr[prop_vars]`,
              `dom_offsets_arr[prop_vars]`).

  Python `for` loops become `List.map`/`List.flatMap` over `List.range`; `range(a, b)` is `rangeAB`,
  `range(a, b, s)` with `s > 0` is `rangeStep`, with a negative step `rangeDown`.

  Inputs for which the Python constructor raises (e.g. `MagicSquareProblem(1)`: `range` with step
  0; `LatinSquareProblem([])`: `colors[0]`) still produce *some* problem here (documented at the
  definition); the correspondence is claimed for inputs the Python constructor accepts.

  Mathlib-free and executable.  `Nucs.exampleByName` is the entry point of the test driver.
-/
namespace Nucs
namespace Ex

/-- a constraint as posted: `(variables, algorithm, parameters)` -/
structure RawC where
  vars : List Nat
  alg : Alg
  params : List Int
deriving Repr, Inhabited

/-- `dom_indices_lst = list(range(n))`, `dom_offsets_lst = [0] * n` (the defaults of `Problem.__init__`) -/
def idVars (n : Nat) : List (Nat × Int) := (List.range n).map (fun (i : Nat) => (i, 0))

/-- resolution of a variable index: `(dom_indices_arr[v], dom_offsets_arr[v])` -/
def resolve (vars : List (Nat × Int)) (v : Nat) : Nat × Int := vars.getD v (0, 0)

def post (vars : List (Nat × Int)) (c : RawC) : PropInst :=
  { alg := c.alg, params := c.params, vars := c.vars.map (resolve vars) }

/-- the posted problem -/
def mkProblem (shr : Box) (vars : List (Nat × Int)) (cs : List RawC) : Problem :=
  { shr := shr, vars := vars, props := cs.map (post vars) }

/-- `list(range(a, b))` -/
def rangeAB (a b : Nat) : List Nat := List.range' a (b - a)

/-- `list(range(start, stop, step))` for `step > 0` (and `[]` for `step = 0`, where Python raises) -/
def rangeStep (start stop step : Nat) : List Nat :=
  (List.range ((stop - start + step - 1) / step)).map (fun (k : Nat) => start + k * step)

/-- `list(range(start, stop, -step))` for `step > 0`, `stop ≤ start` side (and `[]` for `step = 0`) -/
def rangeDown (start stop step : Nat) : List Nat :=
  (List.range ((start - stop + step - 1) / step)).map (fun (k : Nat) => start - k * step)

def natsToInts (l : List Nat) : List Int := l.map (fun (k : Nat) => (k : Int))

def sumI (l : List Int) : Int := l.foldl (· + ·) 0

/-- `max(l)` / `min(l)` of a non-empty list (0 for the empty list, where Python raises) -/
def maxI : List Int → Int
  | [] => 0
  | x :: xs => xs.foldl max x
def minI : List Int → Int
  | [] => 0
  | x :: xs => xs.foldl min x

/-- `lst[k] = d` applied for a list of `(k, d)` in order -/
def setAll (shr : Box) (upd : List (Nat × Dom)) : Box := upd.foldl (fun s u => s.set u.1 u.2) shr

end Ex

open Ex

/-! ### queens -/

/-- `QueensProblem(n)` -/
def queensProblem (n : Nat) : Problem :=
  mkProblem
    (List.replicate n (0, (n : Int) - 1))
    (-- zip(list(range(n)) * 3, [0] * n + list(range(n)) + list(range(0, -n, -1)))
     (List.range n).map (fun (i : Nat) => (i, (0 : Int))) ++ (List.range n).map (fun (i : Nat) => (i, (i : Int))) ++
       (List.range n).map (fun (i : Nat) => (i, -(i : Int))))
    [ ⟨List.range n, .alldifferent, []⟩,
      ⟨rangeAB n (2 * n), .alldifferent, []⟩,
      ⟨rangeAB (2 * n) (3 * n), .alldifferent, []⟩ ]

/-! ### magic sequence -/

/-- `MagicSequenceProblem(n)` -/
def magicSequenceProblem (n : Nat) : Problem :=
  mkProblem
    (List.replicate n (0, (n : Int)))
    (idVars n)
    ((List.range n).map (fun (i : Nat) => (⟨List.range n ++ [i], .countEq, [(i : Int)]⟩ : RawC)) ++
     [ ⟨List.range n, .affineEq, List.replicate n 1 ++ [(n : Int)]⟩,
       ⟨List.range n, .affineEq, natsToInts (List.range n) ++ [(n : Int)]⟩ ])

/-! ### knapsack -/

/-- `KnapsackProblem(weights, volumes, capacity)` -/
def knapsackProblem (weights volumes : List Int) (capacity : Int) : Problem :=
  let n := weights.length
  mkProblem
    (List.replicate n (0, 1) ++ [(0, sumI weights)])
    (idVars (n + 1))
    [ ⟨List.range n, .affineLeq, volumes ++ [capacity]⟩,
      ⟨List.range (n + 1), .affineEq, weights ++ [-1, 0]⟩ ]

/-! ### Schur's lemma -/

/-- `SchurLemmaProblem(n, symmetry_breaking)` -/
def schurLemmaProblem (n : Nat) (symmetryBreaking : Bool := true) : Problem :=
  mkProblem
    (List.replicate (n * 3) (0, 1))
    (idVars (n * 3))
    ((List.range n).map (fun (x : Nat) => (⟨[x * 3, x * 3 + 1, x * 3 + 2], .exactlyTrue, [1]⟩ : RawC)) ++
     (List.range n).flatMap (fun (x : Nat) =>
       (List.range n).flatMap (fun (y : Nat) =>
         let z := (x + 1) + (y + 1) - 1
         if z < n then
           (List.range 3).map (fun (k : Nat) => (⟨[3 * x + k, 3 * y + k, 3 * z + k], .affineLeq, [1, 1, 1, 2]⟩ : RawC))
         else [])) ++
     (if symmetryBreaking then
        [ ⟨rangeStep 0 (n * 3) 3 ++ rangeStep 1 (n * 3) 3 ++ rangeStep 2 (n * 3) 3, .lexLeq, []⟩ ]
      else []))

/-! ### latin squares (LatinSquareProblem, LatinSquareRCProblem) -/

namespace Ex
/-- `LatinSquareProblem.cell / row / column` with `n = len(colors)` -/
def lsCell (n i j : Nat) (model : Nat := 0) : Nat := model * n ^ 2 + i * n + j
def lsRow (n i : Nat) (model : Nat := 0) : List Nat :=
  rangeAB (model * n ^ 2 + i * n) (model * n ^ 2 + n + i * n)
def lsColumn (n j : Nat) (model : Nat := 0) : List Nat :=
  rangeStep (model * n ^ 2 + j) (model * n ^ 2 + n ^ 2 + j) n

/-- the shared domains of `LatinSquareProblem(colors, givens)`; `colors[0]`, `colors[-1]` default to
    0 for an empty colour list (Python raises) -/
def lsDomains (colors : List Int) (givens : Option (List (List Int))) : Box :=
  let full : Dom := (colors.headD 0, colors.getLastD 0)
  match givens with
  | none => List.replicate (colors.length ^ 2) full
  | some g => g.flatMap (fun (line : List Int) => line.map (fun (given : Int) => if colors.contains given then (given, given) else full))

/-- the constraints posted by `LatinSquareProblem.__init__` -/
def lsProps (n : Nat) : List RawC :=
  (List.range n).map (fun (i : Nat) => (⟨lsRow n i, .alldifferent, []⟩ : RawC)) ++
  (List.range n).map (fun (j : Nat) => (⟨lsColumn n j, .alldifferent, []⟩ : RawC))
end Ex

/-- `LatinSquareProblem(colors, givens)` -/
def latinSquareGenProblem (colors : List Int) (givens : Option (List (List Int))) : Problem :=
  let shr := lsDomains colors givens
  mkProblem shr (idVars shr.length) (lsProps colors.length)

/-- `LatinSquareProblem(list(range(n)))` -/
def latinSquareProblem (n : Nat) : Problem :=
  latinSquareGenProblem (natsToInts (List.range n)) none

namespace Ex
/-- the constraints `LatinSquareRCProblem.__init__` posts after `LatinSquareProblem.__init__` -/
def lsRCProps (n : Nat) : List RawC :=
  let M_COLOR := 0
  let M_ROW := 1
  let M_COLUMN := 2
  (List.range n).map (fun (i : Nat) => (⟨lsRow n i M_ROW, .alldifferent, []⟩ : RawC)) ++
  (List.range n).map (fun (j : Nat) => (⟨lsColumn n j M_ROW, .alldifferent, []⟩ : RawC)) ++
  (List.range n).map (fun (i : Nat) => (⟨lsRow n i M_COLUMN, .alldifferent, []⟩ : RawC)) ++
  (List.range n).map (fun (j : Nat) => (⟨lsColumn n j M_COLUMN, .alldifferent, []⟩ : RawC)) ++
  -- row[c,j]=i <=> column[i,c]=j
  (List.range n).flatMap (fun (c : Nat) =>
    (List.range n).map (fun (i : Nat) =>
      (⟨lsRow n c M_ROW ++ [lsCell n i c M_COLUMN], .elementLic, [(i : Int)]⟩ : RawC)) ++
    (List.range n).map (fun (j : Nat) =>
      (⟨lsColumn n c M_COLUMN ++ [lsCell n c j M_ROW], .elementLic, [(j : Int)]⟩ : RawC))) ++
  -- row[c,j]=i <=> color[i,j]=c
  (List.range n).flatMap (fun (j : Nat) =>
    (List.range n).map (fun (i : Nat) =>
      (⟨lsColumn n j M_ROW ++ [lsCell n i j M_COLOR], .elementLic, [(i : Int)]⟩ : RawC)) ++
    (List.range n).map (fun (c : Nat) =>
      (⟨lsColumn n j M_COLOR ++ [lsCell n c j M_ROW], .elementLic, [(c : Int)]⟩ : RawC))) ++
  -- color[i,j]=c <=> column[i,c]=j
  (List.range n).flatMap (fun (i : Nat) =>
    (List.range n).map (fun (c : Nat) =>
      (⟨lsRow n i M_COLOR ++ [lsCell n i c M_COLUMN], .elementLic, [(c : Int)]⟩ : RawC)) ++
    (List.range n).map (fun (j : Nat) =>
      (⟨lsRow n i M_COLUMN ++ [lsCell n i j M_COLOR], .elementLic, [(j : Int)]⟩ : RawC)))

/-- shared domains of `LatinSquareRCProblem(n)`: the colour model, then `add_variables` twice -/
def lsRCDomains (n : Nat) : Box :=
  lsDomains (natsToInts (List.range n)) none ++
    List.replicate (n ^ 2) (0, (n : Int) - 1) ++ List.replicate (n ^ 2) (0, (n : Int) - 1)
end Ex

/-- `LatinSquareRCProblem(n)` (the variables added by `add_variables` get the indices
    `insertion_idx + i`, so the variable list stays the identity) -/
def latinSquareRCProblem (n : Nat) : Problem :=
  let shr := lsRCDomains n
  mkProblem shr (idVars shr.length) (lsProps n ++ lsRCProps n)

/-! ### circuit -/

namespace Ex
/-- `[(1, n - 1)] + [(0, n - 1)] * (n - 2) + [(0, n - 2)]` -/
def circuitDomains (n : Nat) : Box :=
  [(1, (n : Int) - 1)] ++ List.replicate (n - 2) (0, (n : Int) - 1) ++ [(0, (n : Int) - 2)]
def circuitProps (n : Nat) : List RawC :=
  [ ⟨List.range n, .alldifferent, []⟩, ⟨List.range n, .noSubCycle, []⟩ ]
end Ex

/-- `CircuitProblem(n)` -/
def circuitProblem (n : Nat) : Problem :=
  let shr := circuitDomains n
  mkProblem shr (idVars shr.length) (circuitProps n)

/-! ### magic square -/

namespace Ex
def msRow (n i : Nat) : List Nat := rangeAB (0 + i * n) (n + i * n)
def msColumn (n j : Nat) : List Nat := rangeStep j (n ^ 2) n
def msFirstDiag (n : Nat) : List Nat := rangeStep 0 (n ^ 2) (n + 1)
/-- `list(range(n**2 - n, 0, 1 - n))` (Python raises for `n = 1`: step 0) -/
def msSecondDiag (n : Nat) : List Nat := rangeDown (n ^ 2 - n) 0 (n - 1)
end Ex

/-- `MagicSquareProblem(n, symmetry_breaking)`; `m = (n**2 - 1) * n / 2` is a float in Python, always
    integral -/
def magicSquareProblem (n : Nat) (symmetryBreaking : Bool := true) : Problem :=
  let m : Int := (((n : Int) ^ 2 - 1) * n) / 2
  let sumEq (vs : List Nat) : RawC := ⟨vs, .affineEq, List.replicate n 1 ++ [m]⟩
  let topLeft := (msFirstDiag n).headD 0
  let bottomRight := (msFirstDiag n).getLastD 0
  let topRight := (msSecondDiag n).headD 0
  let bottomLeft := (msSecondDiag n).getLastD 0
  let lt (a b : Nat) : RawC := ⟨[a, b], .affineLeq, [1, -1, -1]⟩
  mkProblem
    (List.replicate (n ^ 2) (0, (n : Int) ^ 2 - 1))
    (idVars (n ^ 2))
    ((List.range n).flatMap (fun (i : Nat) => [sumEq (msRow n i), sumEq (msColumn n i)]) ++
     [ sumEq (msFirstDiag n), sumEq (msSecondDiag n), ⟨List.range (n ^ 2), .alldifferent, []⟩ ] ++
     (if symmetryBreaking then
        [ lt topLeft topRight, lt topLeft bottomLeft, lt topLeft bottomRight, lt topRight bottomLeft ]
      else []))

/-! ### sudoku -/

/-- `SudokuProblem(givens)` -/
def sudokuProblem (givens : List (List Int)) : Problem :=
  let colors : List Int := natsToInts (rangeAB 1 10)
  let shr := lsDomains colors (some givens)
  mkProblem shr (idVars shr.length)
    (lsProps colors.length ++
     (List.range 3).flatMap (fun (i : Nat) =>
       (List.range 3).map (fun (j : Nat) =>
         let o := i * 27 + j * 3
         (⟨[0 + o, 1 + o, 2 + o, 9 + o, 10 + o, 11 + o, 18 + o, 19 + o, 20 + o], .alldifferent, []⟩ : RawC))))

/-! ### BIBD -/

/-- `BIBDProblem(v, b, r, k, l, symmetry_breaking)` -/
def bibdProblem (v b r k l : Nat) (symmetryBreaking : Bool := true) : Problem :=
  let matrixVarNb := v * b
  let additionalVarNb := ((v * (v - 1)) / 2) * b
  -- the pairs (i1, i2) in loop order; the running `conj_idx` of pair number `p` starts at v*b + p*b
  let pairs : List (Nat × Nat) :=
    (List.range (v - 1)).flatMap (fun (i1 : Nat) => (rangeAB (i1 + 1) v).map (fun (i2 : Nat) => (i1, i2)))
  mkProblem
    (List.replicate (matrixVarNb + additionalVarNb) (0, 1))
    (idVars (matrixVarNb + additionalVarNb))
    ((List.range v).map (fun (o : Nat) => (⟨rangeAB (o * b) ((o + 1) * b), .exactlyTrue, [(r : Int)]⟩ : RawC)) ++
     (List.range b).map (fun (c : Nat) => (⟨rangeStep c (v * b) b, .exactlyTrue, [(k : Int)]⟩ : RawC)) ++
     pairs.zipIdx.flatMap (fun ((i1, i2), p) =>
       let conj0 := v * b + p * b
       (List.range b).map (fun (c : Nat) => (⟨[i1 * b + c, i2 * b + c, conj0 + c], .and, []⟩ : RawC)) ++
       [ ⟨(List.range b).map (fun (c : Nat) => conj0 + c), .exactlyTrue, [(l : Int)]⟩ ]) ++
     (if symmetryBreaking then
        (List.range (v - 1)).map (fun (o : Nat) => (⟨rangeAB (o * b) ((o + 2) * b), .lexLeq, []⟩ : RawC)) ++
        (List.range (b - 1)).map (fun (c : Nat) =>
          (⟨rangeStep c (v * b) b ++ rangeStep (c + 1) (v * b) b, .lexLeq, []⟩ : RawC))
      else []))

/-! ### Golomb ruler -/

namespace Ex
def golombLengths : List Int := [0, 0, 1, 3, 6, 11, 17, 25, 34, 44, 55, 72, 85, 106, 127]
/-- `sum_first(n) = (n * (n + 1)) // 2` -/
def sumFirst (n : Int) : Int := Int.fdiv (n * (n + 1)) 2
/-- `index(mark_nb, i, j) = i * mark_nb - sum_first(i) + j - i - 1` -/
def gIndex (m i j : Nat) : Nat := ((i : Int) * m - sumFirst i + j - i - 1).toNat
end Ex

/-- `GolombProblem(mark_nb, symmetry_breaking)` — the constraints only (the custom consistency
    algorithm `golomb_consistency_algorithm` is not part of the posted problem).  `init_domains`
    writes the rows `index(mark_nb, i, j)` in increasing order of the index, so the domain list is
    the list over the pairs `i < j` in loop order.  `GOLOMB_LENGTHS[j - i + 1]` is read with default 0
    (the table has 15 entries: `mark_nb ≤ 15`). -/
def golombProblem (markNb : Nat) (symmetryBreaking : Bool := true) : Problem :=
  let distNb : Nat := (sumFirst ((markNb : Int) - 1)).toNat
  let pairs : List (Nat × Nat) :=
    (List.range (markNb - 1)).flatMap (fun (i : Nat) => (rangeAB (i + 1) markNb).map (fun (j : Nat) => (i, j)))
  let shr : Box := pairs.map (fun (i, j) =>
    ((if j - i + 1 < markNb then golombLengths.getD (j - i + 1) 0 else sumFirst ((j : Int) - i)), sumFirst distNb))
  let last := gIndex markNb 0 (markNb - 1)
  mkProblem shr (idVars shr.length)
    ((rangeAB 1 (markNb - 1)).flatMap (fun (i : Nat) =>
       (rangeAB (i + 1) markNb).map (fun (j : Nat) =>
         (⟨[gIndex markNb 0 j, gIndex markNb 0 i, gIndex markNb i j], .affineEq, [1, -1, -1, 0]⟩ : RawC))) ++
     [ ⟨List.range shr.length, .alldifferent, []⟩ ] ++
     (List.range (markNb - 1)).flatMap (fun (i : Nat) =>
       (rangeAB (i + 1) markNb).flatMap (fun (j : Nat) =>
         if j - i < markNb - 1 then
           [ (⟨[gIndex markNb i j, last], .affineLeq,
               [1, -1, -(sumFirst ((markNb : Int) - 1 - ((j : Int) - i)))]⟩ : RawC) ]
         else [])) ++
     (if symmetryBreaking && decide (2 < markNb) then
        [ ⟨[gIndex markNb 0 1, gIndex markNb (markNb - 2) (markNb - 1)], .affineLeq, [1, -1, -1]⟩ ]
      else []))

/-! ### alpha, donald -/

/-- `AlphaProblem()` -/
def alphaProblem : Problem :=
  let A := 0; let B := 1; let C := 2; let D := 3; let E := 4; let F := 5; let G := 6; let H := 7
  let I := 8; let J := 9; let K := 10; let L := 11; let M := 12; let N := 13; let O := 14; let P := 15
  let Q := 16; let R := 17; let S := 18; let T := 19; let U := 20; let V := 21; let W := 22; let X := 23
  let Y := 24; let Z := 25
  mkProblem (List.replicate 26 (1, 26)) (idVars 26)
    [ ⟨[A, B, E, T, L], .affineEq, [1, 1, 1, 1, 2, 45]⟩,
      ⟨[C, E, O, L], .affineEq, [1, 1, 1, 2, 43]⟩,
      ⟨[E, O, N, R, T, C], .affineEq, [1, 1, 1, 1, 1, 2, 74]⟩,
      ⟨[E, F, L, U, T], .affineEq, [1, 1, 1, 1, 1, 30]⟩,
      ⟨[E, F, G, U], .affineEq, [1, 1, 1, 2, 50]⟩,
      ⟨[G, L, E], .affineEq, [1, 1, 2, 66]⟩,
      ⟨[A, J, Z], .affineEq, [1, 1, 2, 58]⟩,
      ⟨[E, L, R, Y], .affineEq, [1, 1, 1, 1, 47]⟩,
      ⟨[E, B, O], .affineEq, [1, 1, 2, 53]⟩,
      ⟨[A, E, P, O, R], .affineEq, [1, 1, 1, 1, 1, 65]⟩,
      ⟨[A, K, L, O, P], .affineEq, [1, 1, 1, 1, 1, 59]⟩,
      ⟨[A, E, Q, R, U, T], .affineEq, [1, 1, 1, 1, 1, 2, 50]⟩,
      ⟨[A, E, H, N, P, S, X, O], .affineEq, [1, 1, 1, 1, 1, 1, 1, 2, 134]⟩,
      ⟨[A, C, E, L, S], .affineEq, [1, 1, 1, 1, 1, 51]⟩,
      ⟨[L, S, O], .affineEq, [1, 1, 2, 37]⟩,
      ⟨[G, N, O, S], .affineEq, [1, 1, 1, 1, 61]⟩,
      ⟨[A, N, P, R, S, O], .affineEq, [1, 1, 1, 1, 1, 2, 82]⟩,
      ⟨[H, M, T, E], .affineEq, [1, 1, 1, 2, 72]⟩,
      ⟨[L, N, O, V, I], .affineEq, [1, 1, 1, 1, 2, 100]⟩,
      ⟨[A, L, T, W, Z], .affineEq, [1, 1, 1, 1, 1, 34]⟩,
      ⟨[A, B, C, D, E, F, G, H, I, J, K, L, M, N, O, P, Q, R, S, T, U, V, W, X, Y, Z], .alldifferent, []⟩ ]

/-- `DonaldProblem()`; letters A, B, D, E, G, L, N, O, R, T = 0..9 -/
def donaldProblem : Problem :=
  mkProblem (List.replicate 10 (0, 9)) (idVars 10)
    [ ⟨List.range 10, .affineEq, [200, -1000, 100002, 9900, 100000, 20, 1000, 0, -99010, -1, 0]⟩,
      ⟨List.range 10, .alldifferent, []⟩ ]

/-! ### quasigroups -/

namespace Ex
/-- the in-place domain edits of `QuasigroupProblem.__init__`, in order (the symmetry-breaking edit of
    `cell(n-1, n-1)` overwrites the idempotence edit of the colour model, as in Python) -/
def quasigroupDomains (n : Nat) (symmetryBreaking : Bool) : Box :=
  let idem : List (Nat × Dom) :=
    [0, 1, 2].flatMap (fun (model : Nat) => (List.range n).map (fun (i : Nat) => (lsCell n i i model, ((i : Int), (i : Int)))))
  let sb : List (Nat × Dom) :=
    if symmetryBreaking then (rangeAB 1 n).map (fun (i : Nat) => (lsCell n i (n - 1), ((i : Int) - 1, (n : Int) - 1))) else []
  setAll (lsRCDomains n) (idem ++ sb)
end Ex

/-- `QuasigroupProblem(n, symmetry_breaking)` -/
def quasigroupProblem (n : Nat) (symmetryBreaking : Bool := true) : Problem :=
  let shr := quasigroupDomains n symmetryBreaking
  mkProblem shr (idVars shr.length) (lsProps n ++ lsRCProps n)

/-- `Quasigroup5Problem(n, symmetry_breaking)` -/
def quasigroup5Problem (n : Nat) (symmetryBreaking : Bool := true) : Problem :=
  let shr := quasigroupDomains n symmetryBreaking
  mkProblem shr (idVars shr.length)
    (lsProps n ++ lsRCProps n ++
     (List.range n).flatMap (fun (j : Nat) =>
       (List.range n).flatMap (fun (i : Nat) =>
         if i ≠ j then
           [ (⟨lsColumn n j 0 ++ [lsCell n j i 0, lsCell n i j 1], .elementLiv, []⟩ : RawC) ]
         else [])))

/-! ### sports tournament scheduling -/

/-- `SportsTournamentSchedulingProblem(n, symmetry_breaking)` -/
def sportsTournamentSchedulingProblem (n : Nat) (symmetryBreaking : Bool := true) : Problem :=
  let teamNb := n
  let slotNb := 2
  let periodNb := n / 2
  let weekNb := n - 1
  let matchNb := ((n - 1) * n) / 2
  let teamVarNb := periodNb * weekNb * slotNb
  let teamVar (p w s : Nat) : Nat := p * (weekNb * slotNb) + w * slotNb + s
  let matchVar (p w : Nat) : Nat := teamVarNb + p * weekNb + w
  let teamsPerWeek (w : Nat) : List Nat :=
    (List.range periodNb).flatMap (fun (p : Nat) => (List.range slotNb).map (fun (s : Nat) => teamVar p w s))
  let teamsPerPeriod (p : Nat) : List Nat :=
    (List.range weekNb).flatMap (fun (w : Nat) => (List.range slotNb).map (fun (s : Nat) => teamVar p w s))
  let matchOrdinal (t1 t2 : Nat) : Int :=
    (matchNb : Int) - Int.fdiv (((teamNb : Int) - t1) * ((teamNb : Int) - t1 - 1)) 2 + t2 - t1 - 1
  let plays : List Int :=
    (List.range (teamNb - 1)).flatMap (fun (i : Nat) =>
      (rangeAB (i + 1) teamNb).flatMap (fun (j : Nat) => [(i : Int), (j : Int), matchOrdinal i j]))
  let shr0 : Box :=
    List.replicate teamVarNb (0, (teamNb : Int) - 1) ++ List.replicate matchNb (0, (matchNb : Int) - 1)
  let firstWeek : List (Nat × Dom) :=
    ((List.range periodNb).flatMap (fun (p : Nat) => (List.range slotNb).map (fun (s : Nat) => teamVar p 0 s))).zipIdx.map
      (fun (v, k) => (v, ((k : Int), (k : Int))))
  let shr := if symmetryBreaking then setAll shr0 firstWeek else shr0
  mkProblem shr (idVars shr.length)
    ([ (⟨rangeAB teamVarNb (teamVarNb + matchNb), .alldifferent, []⟩ : RawC) ] ++
     (List.range weekNb).map (fun (w : Nat) => (⟨teamsPerWeek w, .alldifferent, []⟩ : RawC)) ++
     (List.range periodNb).map (fun (p : Nat) =>
       (⟨teamsPerPeriod p, .gcc, [0] ++ List.replicate n 1 ++ List.replicate n 2⟩ : RawC)) ++
     (List.range periodNb).flatMap (fun (p : Nat) =>
       (List.range weekNb).map (fun (w : Nat) =>
         (⟨[teamVar p w 0, teamVar p w 1, matchVar p w], .relation, plays⟩ : RawC))) ++
     (if symmetryBreaking then
        (List.range weekNb).map (fun (w : Nat) =>
          (⟨(List.range periodNb).map (fun (p : Nat) => matchVar p w), .exactlyEq, [matchOrdinal 0 (w + 1), 1]⟩ : RawC))
      else []))

/-! ### TSP -/

/-- `TSPProblem(cost_rows)` -/
def tspProblem (costRows : List (List Int)) : Problem :=
  let n := costRows.length
  let maxCosts := costRows.map maxI
  let minCosts := costRows.map (fun (row : List Int) => minI (row.filter (fun (c : Int) => c > 0)))
  let shrC := circuitDomains n
  let start := shrC.length            -- add_variables returns len(shr_domains_lst)
  let shr := shrC ++ (List.range n).map (fun (i : Nat) => (minCosts.getD i 0, maxCosts.getD i 0)) ++
    [(sumI minCosts, sumI maxCosts)]
  -- the variables of the circuit, then `insertion_idx + i` for the added ones
  let vars := idVars shrC.length ++ (List.range n).map (fun (i : Nat) => (start + i, (0 : Int))) ++
    [(start + n, (0 : Int))]
  mkProblem shr vars
    (circuitProps n ++
     (List.range n).map (fun (i : Nat) => (⟨[i, start + i], .elementIv, costRows.getD i []⟩ : RawC)) ++
     [ ⟨rangeAB start (start + n + 1), .affineEq, List.replicate n 1 ++ [-1, 0]⟩ ])

/-! ### dispatch -/

namespace Ex
/-- split a flat list into rows of length `n` -/
def rowsOf (n : Nat) : Nat → List Int → List (List Int)
  | 0, _ => []
  | k + 1, l => l.take n :: rowsOf n k (l.drop n)
/-- optional trailing flag (default `true`, as the Python default `symmetry_breaking=True`) -/
def flag : List Int → Bool
  | [] => true
  | x :: _ => x != 0
end Ex

/-- the models by name, with integer arguments:

    * `queens [n]`, `magic_sequence [n]`, `latin_square [n]`, `latin_square_rc [n]`, `circuit [n]`
    * `knapsack [n, w_0 … w_{n-1}, v_0 … v_{n-1}, capacity]`
    * `schur [n]` / `schur [n, sb]`, `magic_square [n]` / `[n, sb]`, `golomb [mark_nb]` / `[mark_nb, sb]`,
      `quasigroup [n]` / `[n, sb]`, `quasigroup5 [n]` / `[n, sb]`,
      `sports_tournament_scheduling [n]` / `[n, sb]`  (`sb` = 0/1, default 1)
    * `sudoku [81 givens, row-major]` (anything outside 1..9 is a wildcard)
    * `bibd [v, b, r, k, l]` / `[v, b, r, k, l, sb]`
    * `alpha []`, `donald []`
    * `tsp [n, n*n costs row-major]` -/
def exampleByName (name : String) (args : List Int) : Option Problem :=
  match name, args with
  | "queens", [n] => some (queensProblem n.toNat)
  | "magic_sequence", [n] => some (magicSequenceProblem n.toNat)
  | "knapsack", n :: rest =>
    let k := n.toNat
    if rest.length = 2 * k + 1 then
      some (knapsackProblem (rest.take k) ((rest.drop k).take k) (rest.getD (2 * k) 0))
    else none
  | "schur", n :: rest => some (schurLemmaProblem n.toNat (flag rest))
  | "latin_square", [n] => some (latinSquareProblem n.toNat)
  | "latin_square_rc", [n] => some (latinSquareRCProblem n.toNat)
  | "circuit", [n] => some (circuitProblem n.toNat)
  | "magic_square", n :: rest => some (magicSquareProblem n.toNat (flag rest))
  | "sudoku", givens => if givens.length = 81 then some (sudokuProblem (rowsOf 9 9 givens)) else none
  | "bibd", v :: b :: r :: k :: l :: rest =>
    some (bibdProblem v.toNat b.toNat r.toNat k.toNat l.toNat (flag rest))
  | "golomb", n :: rest => some (golombProblem n.toNat (flag rest))
  | "alpha", [] => some alphaProblem
  | "donald", [] => some donaldProblem
  | "quasigroup", n :: rest => some (quasigroupProblem n.toNat (flag rest))
  | "quasigroup5", n :: rest => some (quasigroup5Problem n.toNat (flag rest))
  | "sports_tournament_scheduling", n :: rest => some (sportsTournamentSchedulingProblem n.toNat (flag rest))
  | "tsp", n :: costs =>
    let k := n.toNat
    if costs.length = k * k then some (tspProblem (rowsOf k k costs)) else none
  | _, _ => none

end Nucs
