import NucsModel.Basic
import NucsModel.Propagators.Affine
import NucsModel.Propagators.Counting
import NucsModel.Propagators.MinMax
import NucsModel.Propagators.Element
import NucsModel.Propagators.Lex
import NucsModel.Propagators.Circuit
import NucsModel.Propagators.Alldifferent
import NucsModel.Propagators.AlldifferentChecked
import NucsModel.Propagators.Gcc
import NucsModel.Propagators.GccChecked
/-!
  The propagator registry: names (taken from the `compute_domains_*` function names of the live
  module on every run — the numeric ALG_* indices are never hard-wired in the model), the
  dispatcher and the `get_triggers_*` masks.
-/
namespace Nucs

inductive Alg
  | and | affineEq | affineGeq | affineLeq | alldifferent | countEq | dummy | elementIv | elementLiv
  | elementLic | exactlyEq | exactlyTrue | gcc | lexLeq | maxEq | maxLeq | minEq | minGeq
  | noSubCycle | relation | scc
deriving DecidableEq, Repr, Inhabited

def Alg.ofName : String → Option Alg
  | "and" => some .and | "affine_eq" => some .affineEq | "affine_geq" => some .affineGeq
  | "affine_leq" => some .affineLeq | "alldifferent" => some .alldifferent | "count_eq" => some .countEq
  | "dummy" => some .dummy | "element_iv" => some .elementIv | "element_liv" => some .elementLiv
  | "element_lic" => some .elementLic | "exactly_eq" => some .exactlyEq | "exactly_true" => some .exactlyTrue
  | "gcc" => some .gcc | "lexicographic_leq" => some .lexLeq | "max_eq" => some .maxEq | "max_leq" => some .maxLeq
  | "min_eq" => some .minEq | "min_geq" => some .minGeq | "no_sub_cycle" => some .noSubCycle
  | "relation" => some .relation | "scc" => some .scc
  | _ => none

/-- one filtering call -/
def runAlg (a : Alg) (ps : List Int) (B : Box) : Res :=
  match a with
  | .and => .ok (andProp ps B)
  | .affineEq => .ok (affineEq ps B)
  | .affineGeq => .ok (affineGeq ps B)
  | .affineLeq => .ok (affineLeq ps B)
  -- the ported algorithm, its answer validated by the proved Hall-interval checker (AlldifferentChecked.lean)
  | .alldifferent => alldifferentC ps B
  | .countEq => .ok (countEq ps B)
  | .dummy => .ok (.cons, B)
  | .elementIv => .ok (elementIv ps B)
  | .elementLiv => .ok (elementLiv ps B)
  | .elementLic => .ok (elementLic ps B)
  | .exactlyEq => .ok (exactlyEq ps B)
  | .exactlyTrue => .ok (exactlyTrue ps B)
  -- the ported algorithm, its answer validated by the proved Hoffman-cut checker (GccChecked.lean)
  | .gcc => gccC ps B
  | .lexLeq => .ok (lexLeq ps B)
  | .maxEq => .ok (maxEq ps B)
  | .maxLeq => .ok (maxLeq ps B)
  | .minEq => .ok (minEq ps B)
  | .minGeq => .ok (minGeq ps B)
  | .noSubCycle => noSubCycle ps B
  | .relation => .ok (relation ps B)
  | .scc => .ok (scc ps B)

/-- `get_triggers_<alg>(n, parameters)[k]` -/
def maskAlg (a : Alg) (ps : List Int) (n k : Nat) : Ev :=
  match a with
  | .affineGeq => maskAffineGeq ps k
  | .affineLeq => maskAffineLeq ps k
  | .maxLeq => maskMaxLeq n k
  | .minGeq => maskMinGeq n k
  | .noSubCycle => Ev.groundOnly
  | _ => Ev.minMax

end Nucs
