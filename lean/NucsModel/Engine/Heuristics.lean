import NucsModel.Engine.Core
/-!
  Value heuristics (nucs/heuristics/*_dom_heuristic.py) and variable heuristics
  (nucs/heuristics/*_var_heuristic.py).

  A value heuristic pushes one or two levels (`cp_put`), narrows the chosen domain in the new
  top level (the branch taken), leaves the complement in the level(s) below together with the
  events to replay on backtracking (`dom_update_stack`), and returns the events of the branch
  taken.  `Branch` is that result: `taken` becomes the top, `alts` are pushed below it
  (head = the alternative tried first on backtracking).
-/
namespace Nucs

structure Branch where
  taken : Level
  alts : List Level
  events : Ev
deriving Repr, Inhabited

def Level.setDom (l : Level) (d : Nat) (v : Dom) : Level := { l with doms := l.doms.set d v }

/-- `EVENT_MASK_x_GROUND if ground else EVENT_MASK_x` -/
def evMinOf (v : Dom) : Ev := if v.1 == v.2 then Ev.minGround else Ev.minOnly
def evMaxOf (v : Dom) : Ev := if v.1 == v.2 then Ev.maxGround else Ev.maxOnly

/-- min_value_dom_heuristic: take `x = min`, keep `x ≥ min + 1` -/
def minValue (l : Level) (d : Nat) : Branch :=
  let dom := getDom l.doms d
  let alt : Dom := (dom.1 + 1, dom.2)
  { taken := l.setDom d (dom.1, dom.1)
    alts := [{ (l.setDom d alt) with updIdx := d, updEv := evMinOf alt }]
    events := Ev.maxGround }

/-- max_value_dom_heuristic: take `x = max`, keep `x ≤ max - 1` -/
def maxValue (l : Level) (d : Nat) : Branch :=
  let dom := getDom l.doms d
  let alt : Dom := (dom.1, dom.2 - 1)
  { taken := l.setDom d (dom.2, dom.2)
    alts := [{ (l.setDom d alt) with updIdx := d, updEv := evMaxOf alt }]
    events := Ev.minGround }

/-- split_low_dom_heuristic (after the GROUND fix): take `x ≤ mid`, keep `x ≥ mid + 1` -/
def splitLow (l : Level) (d : Nat) : Branch :=
  let dom := getDom l.doms d
  let mid := pyDiv (dom.1 + dom.2) 2
  let low : Dom := (dom.1, mid)
  let alt : Dom := (mid + 1, dom.2)
  { taken := l.setDom d low
    alts := [{ (l.setDom d alt) with updIdx := d, updEv := evMinOf alt }]
    events := evMaxOf low }

/-- value_dom_heuristic: take `x = value`; alternatives `x ≤ value - 1` (first) and `x ≥ value + 1` -/
def valueSplit (l : Level) (d : Nat) (value : Int) : Branch :=
  let dom := getDom l.doms d
  if value = dom.1 then minValue l d
  else if value = dom.2 then maxValue l d
  else
    let lo : Dom := (dom.1, value - 1)
    let hi : Dom := (value + 1, dom.2)
    { taken := l.setDom d (value, value)
      alts := [{ (l.setDom d lo) with updIdx := d, updEv := evMaxOf lo },
               { (l.setDom d hi) with updIdx := d, updEv := evMinOf hi }]
      events := Ev.all }

/-- mid_value_dom_heuristic -/
def midValue (l : Level) (d : Nat) : Branch :=
  let dom := getDom l.doms d
  valueSplit l d (pyDiv (dom.1 + dom.2) 2)

/-- `c < b` where `none` plays sys.maxsize -/
def ltOpt (c : Int) (b : Option Int) : Bool :=
  match b with
  | none => true
  | some b => decide (c < b)

/-- `params[dom_idx][value]` with an explicit out-of-bounds outcome -/
def costAt (costs : List (List Int)) (d : Nat) (v : Int) : Option Int :=
  if v < 0 then none else (costs[d]?).bind (fun row => row[v.toNat]?)

/-- the scan of min_cost_dom_heuristic: first value of smallest strictly positive cost;
    `best = none` plays sys.maxsize -/
def minCostScan (costs : List (List Int)) (d : Nat) : Nat → Int → Option Int → Int → Option Int
  | 0, _, _, bestV => some bestV
  | k + 1, v, best, bestV =>
    match costAt costs d v with
    | none => none
    | some c =>
      if decide (0 < c) && ltOpt c best then minCostScan costs d k (v + 1) (some c) v
      else minCostScan costs d k (v + 1) best bestV

/-- min_cost_dom_heuristic; `none` = out-of-bounds cost table access -/
def minCost (costs : List (List Int)) (l : Level) (d : Nat) : Option Branch :=
  let dom := getDom l.doms d
  match minCostScan costs d (dom.2 + 1 - dom.1).toNat dom.1 none (-1) with
  | none => none
  | some v => some (valueSplit l d v)

inductive DomHeur | minValue | maxValue | splitLow | midValue | minCost
deriving DecidableEq, Repr, Inhabited

def DomHeur.ofName : String → Option DomHeur
  | "min_value_dom_heuristic" => some .minValue | "max_value_dom_heuristic" => some .maxValue
  | "split_low_dom_heuristic" => some .splitLow | "mid_value_dom_heuristic" => some .midValue
  | "min_cost_dom_heuristic" => some .minCost | _ => none

def runDomHeur (h : DomHeur) (costs : List (List Int)) (l : Level) (d : Nat) : Option Branch :=
  match h with
  | .minValue => some (minValue l d)
  | .maxValue => some (maxValue l d)
  | .splitLow => some (splitLow l d)
  | .midValue => some (midValue l d)
  | .minCost => minCost costs l d

/-! ### variable heuristics: return the index of a shared domain, `none` for the code's −1 -/

def firstNotInstantiated (D : Box) : List Nat → Option Nat
  | [] => none
  | d :: ds => if (getDom D d).1 < (getDom D d).2 then some d else firstNotInstantiated D ds

/-- smallest_domain_var_heuristic: first decision domain of smallest size > 1 -/
def smallestDomain (D : Box) : List Nat → Option (Nat × Int) → Option Nat
  | [], best => best.map (·.1)
  | d :: ds, best =>
    let size := (getDom D d).2 - (getDom D d).1
    if decide (0 < size) && ltOpt size (best.map (·.2)) then smallestDomain D ds (some (d, size))
    else smallestDomain D ds best

/-- greatest_domain_var_heuristic: first decision domain of greatest size > 1 -/
def greatestDomain (D : Box) : List Nat → Int → Option Nat → Option Nat
  | [], _, best => best
  | d :: ds, maxSize, best =>
    let size := (getDom D d).2 - (getDom D d).1
    if maxSize < size then greatestDomain D ds size (some d) else greatestDomain D ds maxSize best

/-- best and second-best strictly positive cost over the values of a domain; `none` = maxsize -/
def regretScan (costs : List (List Int)) (d : Nat) : Nat → Int → Option Int → Option Int → Option (Option Int × Option Int)
  | 0, _, b, s => some (b, s)
  | k + 1, v, b, s =>
    match costAt costs d v with
    | none => none
    | some c =>
      if c > 0 then
        if ltOpt c b then regretScan costs d k (v + 1) (some c) b
        else if ltOpt c s then regretScan costs d k (v + 1) b (some c)
        else regretScan costs d k (v + 1) b s
      else regretScan costs d k (v + 1) b s

/-- sys.maxsize, the value both costs start from -/
def maxsize : Int := 9223372036854775807

/-- max_regret_var_heuristic (after the tie fix: the running maximum starts at −1);
    outer `none` = out-of-bounds cost table access -/
def maxRegret (costs : List (List Int)) (D : Box) : List Nat → Int → Option Nat → Option (Option Nat)
  | [], _, best => some best
  | d :: ds, maxReg, best =>
    let dom := getDom D d
    if 0 < dom.2 - dom.1 then
      match regretScan costs d (dom.2 + 1 - dom.1).toNat dom.1 none none with
      | none => none
      | some (b, s) =>
        let regret := s.getD maxsize - b.getD maxsize
        if maxReg < regret then maxRegret costs D ds regret (some d) else maxRegret costs D ds maxReg best
    else maxRegret costs D ds maxReg best

inductive VarHeur | firstNotInstantiated | smallestDomain | greatestDomain | maxRegret
deriving DecidableEq, Repr, Inhabited

def VarHeur.ofName : String → Option VarHeur
  | "first_not_instantiated_var_heuristic" => some .firstNotInstantiated
  | "smallest_domain_var_heuristic" => some .smallestDomain
  | "greatest_domain_var_heuristic" => some .greatestDomain
  | "max_regret_var_heuristic" => some .maxRegret | _ => none

/-- outer `none` = out-of-bounds; inner `none` = the code's −1 -/
def runVarHeur (h : VarHeur) (costs : List (List Int)) (decision : List Nat) (D : Box) : Option (Option Nat) :=
  match h with
  | .firstNotInstantiated => some (firstNotInstantiated D decision)
  | .smallestDomain => some (smallestDomain D decision none)
  | .greatestDomain => some (greatestDomain D decision 0 none)
  | .maxRegret => maxRegret costs D decision (-1) none

end Nucs
