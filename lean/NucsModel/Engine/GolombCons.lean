import NucsModel.Engine.Heuristics
/-!
  The Golomb model's OWN consistency algorithm (`golomb_consistency_algorithm`,
  nucs/examples/golomb/golomb_problem.py, after the repairs 4e418a1 and d562b84): before bound consistency
  it raises the lower bound of the distances `d(i, j)`, `i ≥ ni - 1`, to the sum of the `j - i` smallest
  positive integers that are not the value of an already instantiated distance of the first rows.

  `golombPrune` is the pruning part (everything before the final call of `bound_consistency_algorithm`);
  `golombPass` is the whole algorithm.
-/
namespace Nucs

/-- `index(mark_nb, i, j)` -/
def golombIdx (n i j : Nat) : Nat := i * n - (i * (i + 1)) / 2 + (j - i - 1)

/-- search for the `n ≥ start` with `n (n - 1) / 2 = m` -/
def golombMarkNbAux (m : Nat) : Nat → Nat → Nat
  | 0, _ => 0
  | fuel + 1, n => if n * (n - 1) / 2 = m then n else if n * (n - 1) / 2 > m then 0 else golombMarkNbAux m fuel (n + 1)

/-- `mark_nb = (1 + int(sqrt(8 * len(dom_indices_arr) + 1))) // 2`: the `n` with `n (n - 1) / 2` variables
    (0 when the number of variables is not triangular: no pruning then) -/
def golombMarkNb (m : Nat) : Nat := golombMarkNbAux m (m + 2) 1

/-- `used_distance` after the marking loop over the first `cnt` variables; `none`: a negative instantiated distance
    (a negative subscript in Python; not reachable from the model's domains) -/
def golombMarkUsed (P : Problem) (D : Box) (size : Nat) : Nat → Option (List Bool)
  | 0 => some (List.replicate size false)
  | v + 1 =>
    match golombMarkUsed P D size v with
    | none => none
    | some used =>
      let d := getDom D (P.vars.getD v (0, 0)).1
      if d.1 == d.2 && decide (d.1 < (size : Int)) then
        (if d.1 < 0 then none else some (used.set d.1.toNat true))
      else some used

/-- the first unused distance `≥ d`; `none`: the scan runs off the array (IndexError) -/
def golombNext (used : List Bool) : Nat → Nat → Option Nat
  | 0, _ => none
  | fuel + 1, d =>
    if d < used.length then (if used.getD d false then golombNext used fuel (d + 1) else some d) else none

/-- the sum of the `t` smallest unused distances `≥ d` -/
def golombSum (used : List Bool) : Nat → Nat → Option Int
  | 0, _ => some 0
  | t + 1, d =>
    match golombNext used (used.length + 1) d with
    | none => none
    | some a =>
      match golombSum used t (a + 1) with
      | none => none
      | some r => some ((a : Int) + r)

/-- `minimal_sum[0 .. cnt]`; `none` when the scan runs off the array -/
def golombSums (used : List Bool) (cnt : Nat) : Option (List Int) :=
  if (List.range (cnt + 1)).all (fun t => (golombSum used t 1).isSome) then
    some ((List.range (cnt + 1)).map (fun t => (golombSum used t 1).getD 0))
  else none

/-- the pairs `(i, j)`, `ni - 1 ≤ i < j < n`, in loop order -/
def golombPairs (n ni : Nat) : List (Nat × Nat) :=
  (List.range (n - 1)).flatMap (fun i => if ni - 1 ≤ i then ((List.range n).filter (fun j => decide (i < j))).map (fun j => (i, j)) else [])

/-- the tightening loop: `none` = a domain was emptied (PROBLEM_INCONSISTENT) -/
def golombTighten (P : Problem) (n : Nat) (ms : List Int) : List (Nat × Nat) → State → Bool × State
  | [], s => (true, s)
  | (i, j) :: rest, s =>
    let d := (P.vars.getD (golombIdx n i j) (0, 0)).1
    let dom := getDom s.top.doms d
    let m := getI ms (j - i)
    if dom.1 ≥ m then golombTighten P n ms rest s
    else
      let s1 := { s with top := s.top.setDom d (m, dom.2) }
      if m > dom.2 then (false, s1)
      else
        let ev : Ev := if m == dom.2 then Ev.minGround else Ev.minOnly
        golombTighten P n ms rest { s1 with trig := addProps P s1.trig s1.top.ne d ev }

/-- the pruning part of `golomb_consistency_algorithm` for `n` marks: `(false, _)` = PROBLEM_INCONSISTENT -/
def golombPruneN (P : Problem) (n : Nat) (decision : List Nat) (s : State) : Except EngErr (Bool × State) :=
  match firstNotInstantiated s.top.doms decision with
  | none => .ok (true, s)
  | some ni =>
    if 1 < ni ∧ ni < n - 1 then
      let size := ((n - 2) * (n - 1)) / 2 + 1
      match golombMarkUsed P s.top.doms size (golombIdx n (ni - 2) (ni - 1) + 1) with
      | none => .error .oob
      | some used =>
        match golombSums used (n - ni) with
        | none => .error .oob
        | some ms => .ok (golombTighten P n ms (golombPairs n ni) s)
    else .ok (true, s)

def golombPrune (P : Problem) (decision : List Nat) (s : State) : Except EngErr (Bool × State) :=
  golombPruneN P (golombMarkNb P.vars.length) decision s

/-- `golomb_consistency_algorithm` -/
def golombPass (P : Problem) (decision : List Nat) (s : State) : Except EngErr (BcStatus × State) :=
  match golombPrune P decision s with
  | .error e => .error e
  | .ok (false, s1) => .ok (.inconsistent, s1)
  | .ok (true, s1) => bcPass P s1

end Nucs
