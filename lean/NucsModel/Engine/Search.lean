import NucsModel.Engine.Heuristics
import NucsModel.Engine.GolombCons
/-!
  Search: shaving (nucs/solvers/shaving_consistency_algorithm.py), `solve_one`, the `solve()`
  generator, `optimize`, `reset`, `get_solution`  (nucs/solvers/backtrack_solver.py, solver.py).
-/
namespace Nucs

inductive ConsAlg | bc | shaving | golomb
deriving DecidableEq, Repr, Inhabited

def ConsAlg.ofName : String → Option ConsAlg
  | "bound_consistency_algorithm" => some .bc
  | "shaving_consistency_algorithm" => some .shaving
  | "golomb_consistency_algorithm" => some .golomb
  | _ => none

structure Config where
  cons : ConsAlg := .bc
  varH : VarHeur := .firstNotInstantiated
  varCosts : List (List Int) := []
  domH : DomHeur := .minValue
  domCosts : List (List Int) := []
  decision : List Nat := []
  height : Nat := 128
deriving Repr, Inhabited

/-- push a branch: the alternatives go below the branch taken -/
def State.push (s : State) (b : Branch) : State :=
  { s with top := b.taken, below := b.alts ++ s.below }

/-- shave_bound: probe `x = bound value`; `true` iff the probe was refuted and the value removed -/
def shaveBound (P : Problem) (isMax : Bool) (d : Nat) (s : State) : Except EngErr (Bool × State) :=
  let b := if isMax then maxValue s.top d else minValue s.top d
  -- `if top domain ground: events |= GROUND` is subsumed: the probe events already contain GROUND
  let s1 := s.push b
  let s1 := { s1 with trig := addProps P s1.trig s1.top.ne d b.events }
  match bcPass P s1 with
  | .error e => .error e
  | .ok (st, s2) =>
    let shaved := st == .inconsistent
    -- not refuted: give the value back to the level below (`stack[top-1, d, bound] ± 1`)
    let s3 : State :=
      if shaved then s2
      else match s2.below with
        | [] => s2
        | l :: rest =>
          let dom := getDom l.doms d
          let dom' : Dom := if isMax then (dom.1, dom.2 + 1) else (dom.1 - 1, dom.2)
          { s2 with below := l.setDom d dom' :: rest }
    match backtrack P s3 with
    | none => .error .stackOverflow  -- unreachable: a level was pushed above
    | some s4 => .ok (shaved, s4)

/-- the `while start_idx < n` loop of shaving_consistency_algorithm -/
def shavingLoop (P : Problem) (decision : List Nat) : Nat → Bool → Bool → Nat → State → Except EngErr (BcStatus × State)
  | 0, _, _, _, _ => .error .fuel
  | fuel + 1, isMax, hasShaved, startIdx, s =>
    if startIdx < s.top.doms.length then
      let r : Except EngErr (BcStatus × State) := if hasShaved then bcPass P s else .ok (.unbound, s)
      match r with
      | .error e => .error e
      | .ok (st, s1) =>
        if st != .unbound then .ok (st, s1)
        else
          match firstNotInstantiated s1.top.doms (decision.filter (fun d => decide (d ≥ startIdx))) with
          | none => .ok (.unbound, s1)
          | some d =>
            let s2 := { s1 with stats := { s1.stats with shaving := s1.stats.shaving + 1 } }
            match shaveBound P isMax d s2 with
            | .error e => .error e
            | .ok (true, s3) =>
              shavingLoop P decision fuel isMax true d
                { s3 with stats := { s3.stats with shavingChange := s3.stats.shavingChange + 1 } }
            | .ok (false, s3) =>
              let s4 := { s3 with stats := { s3.stats with shavingNoChange := s3.stats.shavingNoChange + 1 } }
              if isMax then shavingLoop P decision fuel false false (d + 1) s4
              else shavingLoop P decision fuel true false d s4
    else .ok (.unbound, s)

def shavingFuel (s : State) : Nat :=
  let width := s.top.doms.foldl (fun acc d => acc + (d.2 - d.1).toNat + 1) 0
  2 * width + 4 * s.top.doms.length + 8

def shavingPass (P : Problem) (decision : List Nat) (s : State) : Except EngErr (BcStatus × State) :=
  shavingLoop P decision (shavingFuel s) false true 0
    { s with stats := { s.stats with bcShaving := s.stats.bcShaving + 1 } }

def consPass (P : Problem) (cfg : Config) (s : State) : Except EngErr (BcStatus × State) :=
  match cfg.cons with
  | .bc => bcPass P s
  | .shaving => shavingPass P cfg.decision s
  | .golomb => golombPass P cfg.decision s

/-- get_solution: value of every variable -/
def getSolution (P : Problem) (D : Box) : List Int := P.vars.map (fun v => (getDom D v.1).1 + v.2)

/-- solve_one -/
def solveOne (P : Problem) (cfg : Config) : Nat → State → Except EngErr (Option (List Int) × State)
  | 0, _ => .error .fuel
  | fuel + 1, s =>
    if s.below.length + 1 ≥ cfg.height then .error .stackOverflow else
    match consPass P cfg s with
    | .error e => .error e
    | .ok (.bound, s1) =>
      .ok (some (getSolution P s1.top.doms), { s1 with stats := { s1.stats with solution := s1.stats.solution + 1 } })
    | .ok (.unbound, s1) =>
      if s1.below.length + 2 ≥ cfg.height then .error .stackOverflow else
      match runVarHeur cfg.varH cfg.varCosts cfg.decision s1.top.doms with
      | none => .error .oob
      | some none => .error .noDecision
      | some (some d) =>
        match runDomHeur cfg.domH cfg.domCosts s1.top d with
        | none => .error .oob
        | some b =>
          let s2 := s1.push b
          let s3 := { s2 with
            trig := addProps P s2.trig s2.top.ne d b.events
            stats := { s2.stats with choice := s2.stats.choice + 1, depth := max s2.stats.depth s2.below.length } }
          solveOne P cfg fuel s3
    | .ok (.inconsistent, s1) =>
      match backtrack P s1 with
      | none => .ok (none, s1)
      | some s2 => solveOne P cfg fuel s2

/-- the `solve()` generator run to exhaustion (or until `limit` solutions have been taken, the
    generator then being abandoned) -/
def solveAll (P : Problem) (cfg : Config) (fuel1 : Nat) : Nat → Nat → State → List (List Int) →
    Except EngErr (List (List Int) × State)
  | 0, _, _, _ => .error .fuel
  | _ + 1, 0, s, acc => .ok (acc.reverse, s)
  | fuel + 1, limit + 1, s, acc =>
    match solveOne P cfg fuel1 s with
    | .error e => .error e
    | .ok (none, s1) => .ok (acc.reverse, s1)
    | .ok (some sol, s1) =>
      if limit = 0 then .ok ((sol :: acc).reverse, s1)   -- generator suspended at the yield
      else match backtrack P s1 with
        | none => .ok ((sol :: acc).reverse, s1)
        | some s2 => solveAll P cfg fuel1 fuel limit s2 (sol :: acc)

/-- reset + decrease_max / increase_min on the objective variable -/
def resetTighten (P : Problem) (s : State) (v : Nat) (value : Int) (minimize : Bool) : State :=
  let s0 := State.init P s.stats
  let (di, off) := P.vars.getD v (0, 0)
  let dom := getDom s0.top.doms di
  let dom' : Dom := if minimize then (dom.1, value - 1 - off) else (value + 1 - off, dom.2)
  { s0 with top := s0.top.setDom di dom' }

/-- optimize (after the empty-objective fix) -/
def optimize (P : Problem) (cfg : Config) (v : Nat) (minimize : Bool) (fuel1 : Nat) :
    Nat → State → Option (List Int) → Except EngErr (Option (List Int) × State)
  | 0, _, _ => .error .fuel
  | fuel + 1, s, best =>
    match solveOne P cfg fuel1 s with
    | .error e => .error e
    | .ok (none, s1) => .ok (best, s1)
    | .ok (some sol, s1) =>
      let s2 := resetTighten P s1 v (getI sol v) minimize
      let (di, _) := P.vars.getD v (0, 0)
      let dom := getDom s2.top.doms di
      if dom.1 > dom.2 then .ok (some sol, s2) else optimize P cfg v minimize fuel1 fuel s2 (some sol)

end Nucs
