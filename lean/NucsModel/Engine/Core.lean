import NucsModel.Registry
/-!
  Engine core: problem after `Problem.init`, the choice-point stack, `pop_propagator`,
  `add_propagators`, one propagation pass (`bound_consistency_algorithm`), `cp_put`, `backtrack`.

  Mirrors nucs/solvers/bound_consistency_algorithm.py, nucs/solvers/choice_points.py and
  nucs/propagators/propagators.py (pop_propagator, add_propagators) as they are after the
  `fix:` commits (tighten-only write-back with emptiness check, GROUND only on change, the
  pass ends only when the queue is empty).
-/
namespace Nucs

/-- a posted constraint after `Problem.init`: per position the shared-domain index and offset -/
structure PropInst where
  alg : Alg
  vars : List (Nat × Int)
  params : List Int
deriving Repr, Inhabited

structure Problem where
  shr : Box                    -- shr_domains_lst
  vars : List (Nat × Int)      -- dom_indices_lst / dom_offsets_lst
  props : List PropInst        -- in execution order (after the stable sort of init)
deriving Repr, Inhabited

/-- `triggers[d, p]`: OR of the masks of all positions of `p` that sit on shared domain `d` -/
def trigMaskAux (a : Alg) (ps : List Int) (n : Nat) (d : Nat) : Nat → List (Nat × Int) → Ev
  | _, [] => Ev.none
  | k, (i, _) :: rest =>
    let m := trigMaskAux a ps n d (k + 1) rest
    if i = d then (maskAlg a ps n k).or m else m

def trigMask (p : PropInst) (d : Nat) : Ev := trigMaskAux p.alg p.params p.vars.length d 0 p.vars

/-- the 13 statistics, in the order of nucs/constants.py -/
structure Stats where
  bc : Nat := 0
  bcShaving : Nat := 0
  shaving : Nat := 0
  shavingChange : Nat := 0
  shavingNoChange : Nat := 0
  entailment : Nat := 0
  filter : Nat := 0
  filterNoChange : Nat := 0
  inconsistency : Nat := 0
  backtrack : Nat := 0
  choice : Nat := 0
  depth : Nat := 0
  solution : Nat := 0
deriving Repr, DecidableEq, Inhabited

def Stats.toList (s : Stats) : List Nat :=
  [s.bc, s.bcShaving, s.shaving, s.shavingChange, s.shavingNoChange, s.entailment, s.filter,
   s.filterNoChange, s.inconsistency, s.backtrack, s.choice, s.depth, s.solution]

/-- one level of the three parallel stacks (shr_domains_stack, not_entailed_propagators_stack,
    dom_update_stack) -/
structure Level where
  doms : Box
  ne : List Bool
  updIdx : Nat := 0
  updEv : Ev := Ev.none
deriving Repr, Inhabited

/-- `top` is level `stacks_top[0]`, `below` the levels under it (head = next alternative) -/
structure State where
  top : Level
  below : List Level
  trig : List Bool
  stats : Stats
deriving Repr, Inhabited

/-- cp_init + `triggered_propagators = ones` -/
def State.init (P : Problem) (stats : Stats := {}) : State :=
  { top := { doms := P.shr, ne := List.replicate P.props.length true }
    below := []
    trig := List.replicate P.props.length true
    stats := stats }

/-- first triggered index different from `prev` (pop_propagator without the clearing) -/
def findTrig (prev : Option Nat) : Nat → List Bool → Option Nat
  | _, [] => none
  | i, b :: bs => if b && some i != prev then some i else findTrig prev (i + 1) bs

/-- the fixed loop head: skip the constraint just executed, but fall back to it -/
def pickProp (trig : List Bool) (prev : Option Nat) : Option Nat :=
  match findTrig prev 0 trig with
  | some i => some i
  | none => findTrig none 0 trig

/-- add_propagators -/
def addPropsAux (P : Problem) (ne : List Bool) (d : Nat) (ev : Ev) : Nat → List Bool → List PropInst → List Bool
  | _, [], _ => []
  | q, t :: ts, [] => t :: addPropsAux P ne d ev (q + 1) ts []
  | q, t :: ts, p :: ps => (t || (getB ne q && (trigMask p d).meets ev)) :: addPropsAux P ne d ev (q + 1) ts ps

def addProps (P : Problem) (trig ne : List Bool) (d : Nat) (ev : Ev) : List Bool :=
  addPropsAux P ne d ev 0 trig P.props

/-- the domains a constraint sees -/
def views (D : Box) (vars : List (Nat × Int)) : Box := vars.map (fun v => (getDom D v.1).shift v.2)

/-- outcome of writing one filtering result back -/
structure WB where
  doms : Box
  trig : List Bool
  changed : Bool
  failed : Bool

/-- tighten-only intersection of the stored domain `cur` with the (un-shifted) result `o - off` -/
def wbNew (cur o : Dom) (off : Int) : Dom :=
  (if cur.1 < o.1 - off then o.1 - off else cur.1, if cur.2 > o.2 - off then o.2 - off else cur.2)
def wbChanged (cur o : Dom) (off : Int) : Bool := decide (cur.1 < o.1 - off) || decide (cur.2 > o.2 - off)
/-- the events of that change: MIN / MAX for the bound that moved, GROUND if now a single value -/
def wbEv (cur o : Dom) (off : Int) : Ev :=
  ⟨decide (cur.1 < o.1 - off), decide (cur.2 > o.2 - off), (wbNew cur o off).1 == (wbNew cur o off).2⟩

/-- the write-back loop over the positions of the executed constraint -/
def writeBack (P : Problem) (ne : List Bool) : List (Nat × Int) → Box → WB → WB
  | (idx, off) :: vs, o :: os, w =>
    if w.failed then w else
    let cur := getDom w.doms idx
    if wbChanged cur o off then
      if (wbNew cur o off).1 > (wbNew cur o off).2 then
        { w with doms := w.doms.set idx (wbNew cur o off), failed := true }
      else
        writeBack P ne vs os
          { doms := w.doms.set idx (wbNew cur o off), trig := addProps P w.trig ne idx (wbEv cur o off),
            changed := true, failed := false }
    else writeBack P ne vs os w
  | _, _, w => w

inductive BcStatus | inconsistent | unbound | bound
deriving DecidableEq, Repr, Inhabited

def BcStatus.code : BcStatus → Nat
  | .inconsistent => 0 | .unbound => 1 | .bound => 2

/-- engine-level errors: a model error of a propagator, fuel, stack overflow (the guard of
    solve_one), a variable heuristic that found nothing to branch on -/
inductive EngErr | oob | fuel | stackOverflow | noDecision
deriving DecidableEq, Repr, Inhabited

/-- a scheduler: which queued constraint runs next, given the queue and the one just executed -/
abbrev Picker := List Bool → Option Nat → Option Nat

/-- the state after constraint `pi` has been popped and has FAILED -/
def failRun (s : State) (pi : Nat) : State :=
  { s with trig := s.trig.set pi false,
           stats := { s.stats with filter := s.stats.filter + 1, inconsistency := s.stats.inconsistency + 1 } }

/-- the state after constraint `pi` has been popped and answered `(st, out)` with `st ≠ inc`:
    entailment flag, write-back, statistics.  The Boolean is "the write-back found an empty
    intersection" (the pass then reports inconsistency). -/
def afterRun (P : Problem) (s : State) (pi : Nat) (st : Status) (out : Box) : Bool × State :=
  let p := P.props.getD pi default
  let ne := if st == .ent then s.top.ne.set pi false else s.top.ne
  let w := writeBack P ne p.vars out { doms := s.top.doms, trig := s.trig.set pi false, changed := false, failed := false }
  let stats : Stats :=
    { s.stats with filter := s.stats.filter + 1,
                   entailment := s.stats.entailment + (if st == .ent then 1 else 0),
                   inconsistency := s.stats.inconsistency + (if w.failed then 1 else 0),
                   filterNoChange := s.stats.filterNoChange + (if !w.failed && !w.changed then 1 else 0) }
  (w.failed, { s with top := { s.top with doms := w.doms, ne := ne }, trig := w.trig, stats := stats })

/-- the `while True` loop of bound_consistency_algorithm (after `statistics[BC] += 1`), for an
    arbitrary scheduler `pick`; the shipped one is `pickProp` -/
def bcLoopG (pick : Picker) (P : Problem) : Nat → Option Nat → State → Except EngErr (BcStatus × State)
  | 0, _, _ => .error .fuel
  | fuel + 1, prev, s =>
    match pick s.trig prev with
    | none => .ok (if s.top.doms.isGround then .bound else .unbound, s)
    | some pi =>
      let p := P.props.getD pi default
      match runAlg p.alg p.params (views s.top.doms p.vars) with
      | .error .oob => .error .oob
      | .error .fuel => .error .fuel
      | .ok (.inc, _) => .ok (.inconsistent, failRun s pi)
      | .ok (st, out) =>
        let r := afterRun P s pi st out
        if r.1 then .ok (.inconsistent, r.2) else bcLoopG pick P fuel (some pi) r.2

def bcLoop (P : Problem) : Nat → Option Nat → State → Except EngErr (BcStatus × State) := bcLoopG pickProp P

/-- a bound on the number of constraint executions of one pass that the model grants itself;
    `C04` proves a much smaller number suffices -/
def bcFuel (P : Problem) (s : State) : Nat :=
  let width := s.top.doms.foldl (fun acc d => acc + (d.2 - d.1).toNat + 1) 0
  (width + 2) * (P.props.length + 1) + 2

def bcPass (P : Problem) (s : State) : Except EngErr (BcStatus × State) :=
  bcLoop P (bcFuel P s) none { s with stats := { s.stats with bc := s.stats.bc + 1 } }

/-- backtrack -/
def backtrack (P : Problem) (s : State) : Option State :=
  match s.below with
  | [] => none
  | l :: rest =>
    some { top := l, below := rest,
           trig := addProps P s.trig l.ne l.updIdx l.updEv,
           stats := { s.stats with backtrack := s.stats.backtrack + 1 } }

end Nucs
