import NucsModel.Engine.Search
/-!
  The stream of a multiprocessing optimisation worker
  (nucs/solvers/backtrack_solver.py, `optimize_and_queue`).

  `BacktrackSolver.optimize` returns only the LAST improving solution (`optimize` in
  NucsModel/Engine/Search.lean).  The worker process runs the same branch-and-bound loop but puts
  EVERY improving solution on the queue, in the order found, and then the completion marker.
  `optimizeTrace` is `optimize` with the incumbent replaced by the list of all the incumbents so
  far (oldest first): same recursion, same branches, same states, same errors.
-/
namespace Nucs

/-- optimize_and_queue: the solutions a worker sends, in order (the completion marker follows) -/
def optimizeTrace (P : Problem) (cfg : Config) (v : Nat) (minimize : Bool) (fuel1 : Nat) :
    Nat → State → List (List Int) → Except EngErr (List (List Int) × State)
  | 0, _, _ => .error .fuel
  | fuel + 1, s, acc =>
    match solveOne P cfg fuel1 s with
    | .error e => .error e
    | .ok (none, s1) => .ok (acc, s1)
    | .ok (some sol, s1) =>
      let s2 := resetTighten P s1 v (getI sol v) minimize
      let (di, _) := P.vars.getD v (0, 0)
      let dom := getDom s2.top.doms di
      if dom.1 > dom.2 then .ok (acc ++ [sol], s2) else optimizeTrace P cfg v minimize fuel1 fuel s2 (acc ++ [sol])

end Nucs
