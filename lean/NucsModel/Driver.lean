import NucsModel.Registry
import NucsModel.Engine.Search
import NucsModel.Engine.OptTrace
import NucsModel.Engine.GolombCons
import NucsModel.MP
import NucsModel.ProblemOps
import NucsModel.Examples
import NucsModel.Propagators.SupportCert
/-!
  Line protocol between the Python harness and the model (one request per line, one answer per
  line).  Lists are comma separated, `-` is the empty list, a domain is `min:max`.

    prop <alg> <params> <box>                         one filtering call
    trig <alg> <params> <n>                           get_triggers
    supp <alldifferent|gcc> <params> <box>            support certificate of a result box (1 = every bound supported)
    init <shr> <vars> <props>                         Problem.init: order + trigger matrix
    bc <shr> <vars> <props> <doms> <ne> <trig>        one propagation pass on a given state
    heur <name> <costs> <doms> <d>                    a value heuristic
    varheur <name> <costs> <decision> <doms>          a variable heuristic
    solve <shr> <vars> <props> <cfg> <limit>          the solve() generator, `limit` solutions taken
    opt <shr> <vars> <props> <cfg> <v> <min|max>      minimize / maximize
    opttrace <shr> <vars> <props> <cfg> <v> <min|max> every improving solution in order (what a worker sends)
    split <shr> <vars> <k> <v>                        Problem.split
    mp <solve|min:v|max:v> <k> <inputs>               the multiprocessing parent
-/
namespace Nucs.Driver
open Nucs

def splitList (s : String) (sep : String) : List String :=
  if s == "-" || s.isEmpty then [] else s.splitOn sep

def parseInt (s : String) : Int := s.trimAscii.toString.toInt?.getD 0
def parseNat (s : String) : Nat := s.trimAscii.toString.toNat?.getD 0
def parseInts (s : String) : List Int := (splitList s ",").map parseInt
def parseNats (s : String) : List Nat := (splitList s ",").map parseNat
def parseBools (s : String) : List Bool := (splitList s ",").map (fun x => x == "1")

def parseDom (s : String) : Dom :=
  match s.splitOn ":" with
  | [a, b] => (parseInt a, parseInt b)
  | _ => (0, 0)
def parseBox (s : String) : Box := (splitList s ",").map parseDom
def parseVars (s : String) : List (Nat × Int) :=
  (splitList s ",").map (fun x => match x.splitOn ":" with
    | [a, b] => (parseNat a, parseInt b)
    | _ => (0, 0))
/-- rows separated by `/` -/
def parseRows (s : String) : List (List Int) := (splitList s "/").map parseInts

def showInts (l : List Int) : String := if l.isEmpty then "-" else ",".intercalate (l.map toString)
def showNats (l : List Nat) : String := if l.isEmpty then "-" else ",".intercalate (l.map toString)
def showBools (l : List Bool) : String :=
  if l.isEmpty then "-" else ",".intercalate (l.map (fun b => if b then "1" else "0"))
def showBox (B : Box) : String :=
  if B.isEmpty then "-" else ",".intercalate (B.map (fun d => s!"{d.1}:{d.2}"))

def showErr : Err → String
  | .oob => "err oob" | .fuel => "err fuel"
def showEngErr : EngErr → String
  | .oob => "err oob" | .fuel => "err fuel" | .stackOverflow => "err stack-overflow"
  | .noDecision => "err no-decision"

/-- `alg|v1,v2|p1,p2|key;…` -/
def parseProps (s : String) : Option (List (RawProp × Int)) :=
  (splitList s ";").mapM (fun x =>
    match x.splitOn "|" with
    | [a, vs, ps, k] => (Alg.ofName a).map (fun alg => ({ vars := parseNats vs, alg := alg, params := parseInts ps }, parseInt k))
    | _ => none)

/-- `cons|varH|varCosts|domH|domCosts|decision|height` -/
def parseCfg (s : String) : Option Config :=
  match s.splitOn "|" with
  | [c, vh, vc, dh, dc, dec, h] =>
    match ConsAlg.ofName c, VarHeur.ofName vh, DomHeur.ofName dh with
    | some c, some vh, some dh =>
      some { cons := c, varH := vh, varCosts := parseRows vc, domH := dh, domCosts := parseRows dc,
             decision := parseNats dec, height := parseNat h }
    | _, _, _ => none
  | _ => none

def showLevelDoms (l : Level) : String := showBox l.doms

def showSols (sols : List (List Int)) : String :=
  if sols.isEmpty then "-" else ";".intercalate (sols.map showInts)

/-- generous fuel for whole searches: the driver is never the termination argument -/
def searchFuel : Nat := 100000000

def parseMPIn (s : String) : MPIn :=
  match s.splitOn "=" with
  | ["m", w, sol, st] =>
    .msg (parseNat w) (if sol == "none" then none else some (parseInts sol)) (parseNats st)
  | ["t", alive] => .timeout (parseBools alive)
  | _ => .timeout []

def step (line : String) : String :=
  match line.trimAscii.toString.splitOn " " with
  | ["prop", a, ps, box] =>
    match Alg.ofName a with
    | none => "bad-op"
    | some alg =>
      match runAlg alg (parseInts ps) (parseBox box) with
      | .error e => showErr e
      | .ok (.inc, _) => "0"
      | .ok (st, B) => s!"{st.code} {showBox B}"
  | ["supp", a, ps, box] =>
    match Alg.ofName a with
    | some .alldifferent => if alldiffSupported (parseBox box) then "1" else "0"
    | some .gcc => if gccSupported (parseInts ps) (parseBox box) then "1" else "0"
    | _ => "bad-op"
  | ["trig", a, ps, n] =>
    match Alg.ofName a with
    | none => "bad-op"
    | some alg =>
      let n := parseNat n
      showNats ((List.range n).map (fun k => (maskAlg alg (parseInts ps) n k).code))
  | ["init", shr, vars, props] =>
    match parseProps props with
    | none => "bad-op"
    | some raw =>
      let P := initProblem (parseBox shr) (parseVars vars) raw
      let order := ";".intercalate (P.props.map (fun p =>
        s!"{repr p.alg}|{",".intercalate (p.vars.map (fun v => s!"{v.1}:{v.2}"))}|{showInts p.params}"))
      let trig := ";".intercalate ((List.range P.shr.length).map (fun d =>
        showNats (P.props.map (fun p => (trigMask p d).code))))
      s!"{order} {if trig.isEmpty then "-" else trig}"
  | ["bc", shr, vars, props, doms, ne, trig] =>
    match parseProps props with
    | none => "bad-op"
    | some raw =>
      let P := initProblem (parseBox shr) (parseVars vars) raw
      let s : State := { top := { doms := parseBox doms, ne := parseBools ne }, below := [],
                         trig := parseBools trig, stats := {} }
      match bcPass P s with
      | .error e => showEngErr e
      | .ok (st, s') =>
        if st == .inconsistent then s!"0 {showBools s'.trig} {showNats s'.stats.toList}"
        else s!"{st.code} {showBox s'.top.doms} {showBools s'.top.ne} {showBools s'.trig} {showNats s'.stats.toList}"
  | ["golombprune", shr, vars, props, doms, ne, trig, decision] =>
    match parseProps props with
    | none => "bad-op"
    | some raw =>
      let P := initProblem (parseBox shr) (parseVars vars) raw
      let s : State := { top := { doms := parseBox doms, ne := parseBools ne }, below := [],
                         trig := parseBools trig, stats := {} }
      match golombPrune P (parseNats decision) s with
      | .error e => showEngErr e
      | .ok (ok, s') => s!"{if ok then 1 else 0} {showBox s'.top.doms} {showBools s'.trig}"
  | ["heur", name, costs, doms, d] =>
    match DomHeur.ofName name with
    | none => "bad-op"
    | some h =>
      let l : Level := { doms := parseBox doms, ne := [] }
      match runDomHeur h (parseRows costs) l (parseNat d) with
      | none => "err oob"
      | some b =>
        let alts := ";".intercalate (b.alts.map (fun a => s!"{showBox a.doms}|{a.updIdx}|{a.updEv.code}"))
        s!"{showBox b.taken.doms} {alts} {b.events.code}"
  | ["varheur", name, costs, decision, doms] =>
    match VarHeur.ofName name with
    | none => "bad-op"
    | some h =>
      match runVarHeur h (parseRows costs) (parseNats decision) (parseBox doms) with
      | none => "err oob"
      | some none => "-1"
      | some (some d) => toString d
  | ["solve", shr, vars, props, cfg, limit] =>
    match parseProps props, parseCfg cfg with
    | some raw, some cfg =>
      let P := initProblem (parseBox shr) (parseVars vars) raw
      match solveAll P cfg searchFuel searchFuel (parseNat limit) (State.init P) [] with
      | .error e => showEngErr e
      | .ok (sols, s) => s!"{showSols sols} {showNats s.stats.toList}"
    | _, _ => "bad-op"
  | ["opt", shr, vars, props, cfg, v, dir] =>
    match parseProps props, parseCfg cfg with
    | some raw, some cfg =>
      let P := initProblem (parseBox shr) (parseVars vars) raw
      match optimize P cfg (parseNat v) (dir == "min") searchFuel searchFuel (State.init P) none with
      | .error e => showEngErr e
      | .ok (best, s) => s!"{match best with | none => "none" | some b => showInts b} {showNats s.stats.toList}"
    | _, _ => "bad-op"
  | ["opttrace", shr, vars, props, cfg, v, dir] =>
    match parseProps props, parseCfg cfg with
    | some raw, some cfg =>
      let P := initProblem (parseBox shr) (parseVars vars) raw
      match optimizeTrace P cfg (parseNat v) (dir == "min") searchFuel searchFuel (State.init P) [] with
      | .error e => showEngErr e
      | .ok (tr, s) => s!"{showSols tr} {showNats s.stats.toList}"
    | _, _ => "bad-op"
  | ["example", name, args] =>
    match exampleByName name (parseInts args) with
    | none => "bad-op"
    | some P =>
      let props := ";".intercalate (P.props.map (fun p =>
        s!"{repr p.alg}|{",".intercalate (p.vars.map (fun v => s!"{v.1}:{v.2}"))}|{showInts p.params}"))
      let vars := ",".intercalate (P.vars.map (fun v => s!"{v.1}:{v.2}"))
      s!"{showBox P.shr} {if vars.isEmpty then "-" else vars} {if props.isEmpty then "-" else props}"
  | ["split", shr, vars, k, v] =>
    ";".intercalate ((splitProblem (parseBox shr) (parseVars vars) (parseNat k) (parseNat v)).map showBox)
  | ["mp", mode, k, ins] =>
    let opt : Option (Nat × Bool) :=
      match mode.splitOn ":" with
      | ["min", v] => some (parseNat v, true)
      | ["max", v] => some (parseNat v, false)
      | _ => none
    let s := mpRun opt (parseNat k) ((splitList ins ";").map parseMPIn)
    let agg := match mpAggregate s with | none => "none" | some a => showNats a
    s!"{showNats s.running} {showSols s.yielded.reverse} {match s.best with | none => "none" | some b => showInts b} {if s.raised then 1 else 0} {agg}"
  | _ => "bad-op"

end Nucs.Driver
