/-
  NucsModel.Basic — shared vocabulary of the executable model of yangeorget/nucs.

  Conventions (DESIGN.md §4.1): unbounded `Int` for domain bounds and arithmetic (the
  `NoOverflow` contract is explicit), Python `//` is `Int.fdiv`, a filtering call is a pure
  function `params → box → status × box`, event masks are three Booleans.
  Nothing under `NucsModel/` imports Mathlib, so the driver can be compiled.
-/
namespace Nucs

/-- an integer interval `(min, max)`; empty when `min > max` -/
abbrev Dom := Int × Int
/-- the variables of one filtering call, in the order the constraint sees them -/
abbrev Box := List Dom

/-- PROP_INCONSISTENCY = 0, PROP_CONSISTENCY = 1, PROP_ENTAILMENT = 2 -/
inductive Status | inc | cons | ent
deriving DecidableEq, Repr, Inhabited

def Status.code : Status → Nat
  | .inc => 0 | .cons => 1 | .ent => 2

/-- Python `//` on integers (floor division). -/
def pyDiv (a b : Int) : Int := Int.fdiv a b

/-- event mask / event set: EVENT_MASK_MIN = 1, EVENT_MASK_MAX = 2, EVENT_MASK_GROUND = 4 -/
structure Ev where
  min : Bool
  max : Bool
  ground : Bool
deriving DecidableEq, Repr, Inhabited

namespace Ev
def none : Ev := ⟨false, false, false⟩
def minOnly : Ev := ⟨true, false, false⟩
def maxOnly : Ev := ⟨false, true, false⟩
def groundOnly : Ev := ⟨false, false, true⟩
def minMax : Ev := ⟨true, true, false⟩
def minGround : Ev := ⟨true, false, true⟩
def maxGround : Ev := ⟨false, true, true⟩
def all : Ev := ⟨true, true, true⟩
def code (e : Ev) : Nat := (if e.min then 1 else 0) + (if e.max then 2 else 0) + (if e.ground then 4 else 0)
def ofCode (n : Nat) : Ev := ⟨n % 2 == 1, (n / 2) % 2 == 1, (n / 4) % 2 == 1⟩
def or (a b : Ev) : Ev := ⟨a.min || b.min, a.max || b.max, a.ground || b.ground⟩
/-- `mask & events != 0` -/
def meets (m e : Ev) : Bool := (m.min && e.min) || (m.max && e.max) || (m.ground && e.ground)
def isNone (e : Ev) : Bool := !e.min && !e.max && !e.ground
end Ev

/-- default-valued list access; every model function that indexes goes through these -/
def getDom (B : Box) (i : Nat) : Dom := B.getD i (0, 0)
def getB (l : List Bool) (i : Nat) : Bool := l.getD i false
def getI (l : List Int) (i : Nat) : Int := l.getD i 0

def Dom.isGround (d : Dom) : Bool := d.1 == d.2
def Dom.isEmpty (d : Dom) : Bool := decide (d.1 > d.2)
def Box.isGround (B : Box) : Bool := B.all Dom.isGround
def Box.hasEmpty (B : Box) : Bool := B.any Dom.isEmpty

/-- shift a domain by an offset: the view a variable with offset `o` has of its shared domain -/
def Dom.shift (d : Dom) (o : Int) : Dom := (d.1 + o, d.2 + o)

end Nucs

namespace Nucs
/-- outcomes of a model run that are not results: an out-of-bounds array access (the compiled
    implementation would read or write foreign memory) and exhausted fuel (the implementation
    would still be looping) -/
inductive Err | oob | fuel
deriving DecidableEq, Repr, Inhabited

abbrev Res := Except Err (Status × Box)

/-- `B.dropLast` / last element: the "list of variables, then a result variable" shape -/
def Box.front (B : Box) : Box := B.dropLast
def Box.back (B : Box) : Dom := B.getLastD (0, 0)

end Nucs
