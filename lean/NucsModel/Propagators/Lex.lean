import NucsModel.Basic
/-!
  lexicographic_leq_propagator: `x ≤_lex y`, variables `x_0…x_{n-1}, y_0…y_{n-1}`
  (Carlsson & Beldiceanu's automaton; states 1–4 of the code).  The code's `r` and `s` are always
  0 on entry, so its tests `r > i + 1` / `s > i + 1` are never true and both are dropped.
  `x`,`y` are kept as two lists; only positions `q` and the scanned prefix are ever written.
-/
namespace Nucs

/-- enforce `x_q ≤ y_q` (strict = false) or `x_q < y_q` (strict = true) and answer -/
def lexEnforce (x y : Box) (q : Nat) (strict : Bool) : Status × Box × Box :=
  let k : Int := if strict then 1 else 0
  let xq := getDom x q
  let yq := getDom y q
  let xq' : Dom := (xq.1, min xq.2 (yq.2 - k))
  if xq'.2 < xq'.1 then (.inc, x, y)
  else
    let yq' : Dom := (max yq.1 (xq'.1 + k), yq.2)
    if yq'.2 < yq'.1 then (.inc, x, y)
    else
      let ent := if strict then decide (xq'.2 < yq'.1) else decide (xq'.2 ≤ yq'.1)
      (if ent then .ent else .cons, x.set q xq', y.set q yq')

/-- state 4: skip while `x_i.min = y_i.max` -/
def lexState4 (x y : Box) (n q : Nat) : Nat → Nat → Status × Box × Box
  | 0, _ => (.cons, x, y)
  | fuel + 1, i =>
    if i < n ∧ (getDom x i).1 = (getDom y i).2 then lexState4 x y n q fuel (i + 1)
    else if i < n ∧ (getDom x i).1 > (getDom y i).2 then lexEnforce x y q true
    else (.cons, x, y)

/-- state 3: skip while `x_i.max = y_i.min` -/
def lexState3 (x y : Box) (n q : Nat) : Nat → Nat → Status × Box × Box
  | 0, _ => (.cons, x, y)
  | fuel + 1, i =>
    if i < n ∧ (getDom x i).2 = (getDom y i).1 then lexState3 x y n q fuel (i + 1)
    else if i = n ∨ (getDom x i).2 < (getDom y i).1 then lexEnforce x y q false
    else (.cons, x, y)

/-- state 2: skip positions where both are fixed to the same value -/
def lexState2 (x y : Box) (n q : Nat) : Nat → Nat → Status × Box × Box
  | 0, _ => (.cons, x, y)
  | fuel + 1, i =>
    let xi := getDom x i
    let yi := getDom y i
    if i < n ∧ xi.1 = xi.2 ∧ xi.2 = yi.1 ∧ yi.1 = yi.2 then lexState2 x y n q fuel (i + 1)
    else if i = n ∨ xi.2 < yi.1 then lexEnforce x y q false
    else if xi.1 > yi.2 then lexEnforce x y q true
    else if xi.2 = yi.1 ∧ xi.1 < yi.2 then lexState3 x y n q (n + 1) (i + 1)
    else if xi.1 = yi.2 ∧ xi.2 > yi.1 then lexState4 x y n q (n + 1) (i + 1)
    else (.cons, x, y)

/-- state 1: the prefix where `x_i.min = y_i.max` forces `x_i = y_i` -/
def lexState1 (n : Nat) : Nat → Nat → Box → Box → Status × Box × Box
  | 0, _, x, y => (.cons, x, y)
  | fuel + 1, i, x, y =>
    let xi := getDom x i
    let yi := getDom y i
    if i < n ∧ xi.1 = yi.2 then
      let xi' : Dom := (xi.1, min xi.2 yi.2)
      if xi'.2 < xi'.1 then (.inc, x, y)
      else
        let yi' : Dom := (max yi.1 xi'.1, yi.2)
        if yi'.2 < yi'.1 then (.inc, x, y)
        else lexState1 n fuel (i + 1) (x.set i xi') (y.set i yi')
    else if i = n ∨ xi.2 < yi.1 then (.ent, x, y)
    else
      let xi' : Dom := (xi.1, min xi.2 yi.2)
      if xi'.2 < xi'.1 then (.inc, x, y)
      else
        let yi' : Dom := (max yi.1 xi'.1, yi.2)
        if yi'.2 < yi'.1 then (.inc, x, y)
        else lexState2 (x.set i xi') (y.set i yi') n i (n + 1) (i + 1)

def lexLeq (_ps : List Int) (B : Box) : Status × Box :=
  let n := B.length / 2
  let r := lexState1 n (n + 1) 0 (B.take n) (B.drop n)
  (r.1, r.2.1 ++ r.2.2)

end Nucs
