import NucsModel.Basic
/-!
  max_eq, max_leq, min_eq, min_geq : variables `x_0 … x_{n-2}, y` (n ≥ 2)
-/
namespace Nucs

/-- `np.max(x[:, MIN])` etc.; the default is irrelevant in contract (x non-empty) -/
def maxOf (f : Dom → Int) : Box → Int
  | [] => 0
  | [d] => f d
  | d :: ds => max (f d) (maxOf f ds)
def minOf (f : Dom → Int) : Box → Int
  | [] => 0
  | [d] => f d
  | d :: ds => min (f d) (minOf f ds)

/-- max_eq_propagator (after the candidate fix): `Max_i x_i = y` -/
def maxEqCore (xs : Box) (y : Dom) : Status × Box × Dom :=
  let y' : Dom := (max y.1 (maxOf (·.1) xs), min y.2 (maxOf (·.2) xs))
  if y'.1 > y'.2 then (.inc, xs, y)
  else
    let xs1 := xs.map (fun d => if d.2 > y'.2 then (d.1, y'.2) else d)
    if (xs1.filter (fun d => decide (d.2 ≥ y'.1))).length == 1 then
      (.cons, xs1.map (fun d => if d.2 ≥ y'.1 then (y'.1, d.2) else d), y')
    else (.cons, xs1, y')

/-- min_eq_propagator: `Min_i x_i = y` -/
def minEqCore (xs : Box) (y : Dom) : Status × Box × Dom :=
  let y' : Dom := (max y.1 (minOf (·.1) xs), min y.2 (minOf (·.2) xs))
  if y'.1 > y'.2 then (.inc, xs, y)
  else
    let xs1 := xs.map (fun d => if d.1 < y'.1 then (y'.1, d.2) else d)
    if (xs1.filter (fun d => decide (d.1 ≤ y'.2))).length == 1 then
      (.cons, xs1.map (fun d => if d.1 ≤ y'.2 then (d.1, y'.2) else d), y')
    else (.cons, xs1, y')

/-- max_leq_propagator: `Max_i x_i ≤ y` -/
def maxLeqCore (xs : Box) (y : Dom) : Status × Box × Dom :=
  if maxOf (·.2) xs ≤ y.1 then (.ent, xs, y)
  else
    let y' : Dom := (max y.1 (maxOf (·.1) xs), y.2)
    if y'.1 > y'.2 then (.inc, xs, y)
    else
      let xs' := xs.map (fun d => (d.1, min d.2 y'.2))
      if Box.hasEmpty xs' then (.inc, xs, y) else (.cons, xs', y')

/-- min_geq_propagator: `Min_i x_i ≥ y` -/
def minGeqCore (xs : Box) (y : Dom) : Status × Box × Dom :=
  if y.2 ≤ minOf (·.1) xs then (.ent, xs, y)
  else
    let y' : Dom := (y.1, min y.2 (minOf (·.2) xs))
    if y'.1 > y'.2 then (.inc, xs, y)
    else
      let xs' := xs.map (fun d => (max d.1 y'.1, d.2))
      if Box.hasEmpty xs' then (.inc, xs, y) else (.cons, xs', y')

def liftLast (core : Box → Dom → Status × Box × Dom) (B : Box) : Status × Box :=
  let r := core B.front B.back
  (r.1, r.2.1 ++ [r.2.2])

def maxEq (_ps : List Int) (B : Box) : Status × Box := liftLast maxEqCore B
def minEq (_ps : List Int) (B : Box) : Status × Box := liftLast minEqCore B
def maxLeq (_ps : List Int) (B : Box) : Status × Box := liftLast maxLeqCore B
def minGeq (_ps : List Int) (B : Box) : Status × Box := liftLast minGeqCore B

/-- get_triggers_max_leq: MIN on the x's, MAX on y -/
def maskMaxLeq (n : Nat) (k : Nat) : Ev := if k + 1 = n then Ev.maxOnly else Ev.minOnly
/-- get_triggers_min_geq: MAX on the x's, MIN on y -/
def maskMinGeq (n : Nat) (k : Nat) : Ev := if k + 1 = n then Ev.minOnly else Ev.maxOnly

end Nucs
