import NucsModel.Basic
/-!
  and, exactly_true, exactly_eq, count_eq
-/
namespace Nucs

/-- and_propagator: `& b_i = b_{n-1}` on Boolean domains -/
def andCore (xs : Box) (y : Dom) : Status × Box × Dom :=
  let y1 : Dom := if xs.any (fun d => d.2 == 0) then (y.1, 0) else y
  let y2 : Dom := if xs.all (fun d => d.1 == 1) then (1, y1.2) else y1
  if y2.1 > y2.2 then (.inc, xs, y)
  else if y2.1 == 1 then (.cons, xs.map (fun d => (1, d.2)), y2)
  else if y2.2 == 0 then
    if (xs.filter (fun d => d.1 == 0)).length == 1 then
      (.cons, xs.map (fun d => if d.1 == 0 then (d.1, 0) else d), y2)
    else (.cons, xs, y2)
  else (.cons, xs, y2)

def andProp (_ps : List Int) (B : Box) : Status × Box :=
  let r := andCore B.front B.back
  (r.1, r.2.1 ++ [r.2.2])

/-- number of domains that cannot take value `a` / that are fixed to `a` -/
def cntOut (a : Int) (xs : Box) : Nat := (xs.filter (fun d => decide (d.1 > a ∨ d.2 < a))).length
def cntFix (a : Int) (xs : Box) : Nat := (xs.filter (fun d => d.1 == a && d.2 == a)).length

/-- "we cannot have more domains equal to a": push `a` out of the domains where it is a bound -/
def excludeVal (a : Int) (d : Dom) : Dom :=
  if d.1 == a && decide (d.2 > a) then (a + 1, d.2)
  else if decide (d.1 < a) && d.2 == a then (d.1, a - 1)
  else d
/-- "we cannot have more domains different from a": fix to `a` where possible -/
def forceVal (a : Int) (d : Dom) : Dom :=
  if decide (d.1 ≤ a) && decide (a ≤ d.2) then (a, a) else d

/-- exactly_eq_propagator: `Σ (x_i == a) = c`, parameters `[a, c]` -/
def exactlyEq (ps : List Int) (B : Box) : Status × Box :=
  let a := getI ps 0
  let c := getI ps 1
  let countMax : Int := (B.length : Int) - c - (cntOut a B : Int)
  let countMin : Int := (cntFix a B : Int) - c
  -- the code tests a counter only right after changing it
  if (cntOut a B > 0 ∧ countMax < 0) ∨ (cntFix a B > 0 ∧ countMin > 0) then (.inc, B)
  else if countMin == 0 && countMax == 0 then (.ent, B)
  else if countMin == 0 then (.cons, B.map (excludeVal a))
  else if countMax == 0 then (.cons, B.map (forceVal a))
  else (.cons, B)

/-- exactly_true_propagator: `Σ (b_i == 1) = c` on Boolean domains, parameters `[c]` -/
def exactlyTrue (ps : List Int) (B : Box) : Status × Box :=
  let c := getI ps 0
  let nOut := (B.filter (fun d => decide (d.2 < 1))).length
  let nFix := (B.filter (fun d => d.1 == 1 && d.2 == 1)).length
  let countMax : Int := (B.length : Int) - c - (nOut : Int)
  let countMin : Int := (nFix : Int) - c
  if (nOut > 0 ∧ countMax < 0) ∨ (nFix > 0 ∧ countMin > 0) then (.inc, B)
  else if countMin == 0 && countMax == 0 then (.ent, B)
  else if countMin == 0 then (.cons, B.map (fun d => if d.1 == 0 && d.2 == 1 then (d.1, 0) else d))
  else if countMax == 0 then (.cons, B.map (fun d => if d.1 == 0 && d.2 == 1 then (1, d.2) else d))
  else (.cons, B)

/-- count_eq_propagator: `Σ (x_i == a) = x_{n-1}`, parameters `[a]` -/
def countEqCore (a : Int) (xs : Box) (k : Dom) : Status × Box × Dom :=
  let countMax : Int := (xs.length : Int) - (cntOut a xs : Int)
  let countMin : Int := (cntFix a xs : Int)
  let k' : Dom := (max k.1 countMin, min k.2 countMax)
  if k'.1 > k'.2 then (.inc, xs, k)
  else if countMin == countMax then (.ent, xs, k')
  else
    let xs1 := if countMin == k'.2 then xs.map (excludeVal a) else xs
    let xs2 := if countMax == k'.1 then xs1.map (forceVal a) else xs1
    (.cons, xs2, k')

def countEq (ps : List Int) (B : Box) : Status × Box :=
  let r := countEqCore (getI ps 0) B.front B.back
  (r.1, r.2.1 ++ [r.2.2])

end Nucs
