import NucsModel.Basic
/-!
  gcc  (nucs/propagators/gcc_propagator.py) — tier T3: a line-by-line PORT.

  parameters = [first_value, l_1 … l_m, u_1 … u_m], `m = (len(parameters) - 1) // 2`.

  Same conventions as `NucsModel/Propagators/Alldifferent.lean` (this file is self-contained: the
  helpers `rd`, `wr`, `path_set`, `path_min`, `path_max`, `argsort` … are repeated here inside
  `namespace Nucs.Gcc`, because gcc_propagator.py imports them from alldifferent_propagator.py):
  checked accessors that throw `Err.oob`, fuel-bounded `while` loops that throw `Err.fuel`,
  unbounded `Int` instead of uint16/int32, STABLE `argsort` (see the note in Alldifferent.lean).
  Nothing is repaired: e.g. a zero capacity `u_j = 0` makes `path_set` spin (`Err.fuel`) or index
  out of bounds, exactly as the Python does.

  `partial_sum` is a `2 × (m+6)` array, kept as a pair of rows `(row0, row1)` of size `m+6`:
  * `psum[0, -1]`, `psum[1, -1]` are LITERAL last-column accesses: `rdLast` (index `m+5`);
  * `sum = partial_sum[0, :-1]`, `ds = partial_sum[1, :-1]` are views on the first `m+5` columns:
    `rdS`/`wrS` on the row, which are out of bounds from index `m+5` on;
  * `psum[1, value]` (in `skip_non_null_elements_*`) ranges over all `m+6` columns: `rd` on `row1`.

  The same work arrays are handed to the four passes under different names, with whatever the
  previous pass left in them (`tl = t`, `c = d`, `sets = h`, `new_maxs = new_mins`), so every
  function returns the arrays it has written.
-/
namespace Nucs
namespace Gcc

/-- column indices of `domains` and `ranks` -/
def MIN : Int := 0
def MAX : Int := 1

/-- an `n × 2` NumPy array -/
abbrev Arr2 := Array (Int × Int)

/-- checked read `a[i]` -/
def rd (a : Array Int) (i : Int) : Except Err Int :=
  if i < 0 then throw .oob
  else match a[i.toNat]? with
    | some v => pure v
    | none => throw .oob

/-- checked write `a[i] = v` -/
def wr (a : Array Int) (i : Int) (v : Int) : Except Err (Array Int) :=
  if i < 0 then throw .oob
  else if i.toNat < a.size then pure (a.setIfInBounds i.toNat v)
  else throw .oob

/-- checked read `a[i, k]`, `k ∈ {MIN, MAX}` -/
def rd2 (a : Arr2) (i : Int) (k : Int) : Except Err Int :=
  if i < 0 then throw .oob
  else match a[i.toNat]? with
    | some r => pure (if k == MIN then r.1 else r.2)
    | none => throw .oob

/-- checked write `a[i, k] = v`, `k ∈ {MIN, MAX}` -/
def wr2 (a : Arr2) (i : Int) (k : Int) (v : Int) : Except Err Arr2 :=
  if i < 0 then throw .oob
  else match a[i.toNat]? with
    | some r => pure (a.setIfInBounds i.toNat (if k == MIN then (v, r.2) else (r.1, v)))
    | none => throw .oob

/-- iteration budget of a `while` loop working on the array `a` -/
def fuel (a : Array Int) : Nat := 4 * a.size + 16

/-- Python `range(a, b)` -/
def rangeUp (a b : Int) : List Int := (List.range (b - a).toNat).map (fun (k : Nat) => a + Int.ofNat k)
/-- Python `range(a, b, -1)` -/
def rangeDown (a b : Int) : List Int := (List.range (a - b).toNat).map (fun (k : Nat) => a - Int.ofNat k)

/-- insert index `i` behind every index whose key is `≤ key i` -/
def insertIdx (key : Int → Int) (i : Int) : List Int → List Int
  | [] => [i]
  | j :: js => if key i < key j then i :: j :: js else j :: insertIdx key i js

/-- `np.argsort(keys)`: stable insertion sort of the indices `0 … len-1` by key -/
def argsort (keys : Array Int) : Array Int :=
  ((rangeUp 0 keys.size).foldl (fun acc i => insertIdx (fun j => keys.getD j.toNat 0) i acc) []).toArray

/-- `while (p := start) != end: start = t[p]; t[p] = value` -/
def path_set (t : Array Int) (start end_ value : Int) : Except Err (Array Int) := do
  let mut t := t
  let mut start := start
  for _ in [0:fuel t] do
    let p := start
    if p == end_ then
      return t
    start ← rd t p
    t ← wr t p value
  throw .fuel

/-- `while t[i] < i: i = t[i]` -/
def path_min (t : Array Int) (i : Int) : Except Err Int := do
  let mut i := i
  for _ in [0:fuel t] do
    if !((← rd t i) < i) then
      return i
    i ← rd t i
  throw .fuel

/-- `while t[i] > i: i = t[i]` -/
def path_max (t : Array Int) (i : Int) : Except Err Int := do
  let mut i := i
  for _ in [0:fuel t] do
    if !((← rd t i) > i) then
      return i
    i ← rd t i
  throw .fuel

/-- a `partial_sum` structure: the two rows of the `2 × (m+6)` array -/
abbrev PSum := Array Int × Array Int

/-- checked read of the view `a[:-1]` -/
def rdS (a : Array Int) (i : Int) : Except Err Int :=
  if i < 0 then throw .oob
  else if i.toNat + 1 < a.size then rd a i
  else throw .oob

/-- checked write to the view `a[:-1]` -/
def wrS (a : Array Int) (i : Int) (v : Int) : Except Err (Array Int) :=
  if i < 0 then throw .oob
  else if i.toNat + 1 < a.size then wr a i v
  else throw .oob

/-- the literal `a[-1]` -/
def rdLast (a : Array Int) : Except Err Int := rd a ((a.size : Int) - 1)

/-- Inits the partial_sum data structure: row 0 = `sum | first_value - 3`,
    row 1 = `ds | first_value + m + 1` -/
def init_partial_sum (first_value : Int) (m : Int) (values : Array Int) : Except Err PSum := do
  let mut sum : Array Int := Array.replicate (m + 6).toNat 0  -- partial_sum[0, :]
  let mut ds : Array Int := Array.replicate (m + 6).toNat 0  -- partial_sum[1, :]
  sum ← wr sum ((sum.size : Int) - 1) (first_value - 3)  -- partial_sum[0, -1]
  ds ← wr ds ((ds.size : Int) - 1) (first_value + m + 1)  -- partial_sum[1, -1]
  sum ← wrS sum 0 0
  sum ← wrS sum 1 1
  sum ← wrS sum 2 2
  for i in rangeUp 2 (m + 2) do
    sum ← wrS sum (i + 1) ((← rdS sum i) + (← rd values (i - 2)))
  sum ← wrS sum (m + 3) ((← rdS sum (m + 2)) + 1)
  sum ← wrS sum (m + 4) ((← rdS sum (m + 3)) + 1)
  let mut i := m + 3
  let mut j := m + 4
  let mut done := false
  for _ in [0:fuel ds] do  -- while i > 0
    if !(i > 0) then
      done := true
      break
    let mut done' := false
    for _ in [0:fuel ds] do  -- while sum[i] == sum[i - 1]
      if !((← rdS sum i) == (← rdS sum (i - 1))) then
        done' := true
        break
      ds ← wrS ds i j
      i := i - 1
    if !done' then
      throw .fuel
    ds ← wrS ds j i
    j := i
    i := i - 1
  if !done then
    throw .fuel
  ds ← wrS ds j 0
  return (sum, ds)

def get_sum (psum : PSum) (start end_ : Int) : Except Err Int := do
  let fv ← rdLast psum.1
  let sum := psum.1
  if start ≤ end_ then
    return (← rdS sum (end_ - fv)) - (← rdS sum (start - fv - 1))
  else
    return (← rdS sum (end_ - fv - 1)) - (← rdS sum (start - fv))

def get_min_value (psum : PSum) : Except Err Int := do
  return (← rdLast psum.1) + 3

def get_max_value (psum : PSum) : Except Err Int := do
  return (← rdLast psum.2) - 2

def skip_non_null_elements_right (psum : PSum) (value : Int) : Except Err Int := do
  let value := value - (← rdLast psum.1)
  if (← rd psum.2 value) < value then
    return value + (← rdLast psum.1)
  else
    return (← rd psum.2 value) + (← rdLast psum.1)

def skip_non_null_elements_left (psum : PSum) (value : Int) : Except Err Int := do
  let value := value - (← rdLast psum.1)
  if (← rd psum.2 value) > value then
    return (← rd psum.2 (← rd psum.2 value)) + (← rdLast psum.1)
  else
    return value + (← rdLast psum.1)

/-- returns `(nb, bounds, ranks)` -/
def update_bounds (bounds : Array Int) (n : Int) (domains : Arr2) (ranks : Arr2)
    (min_sorted_vars max_sorted_vars : Array Int) (l u : PSum) :
    Except Err (Int × Array Int × Arr2) := do
  let mut bounds := bounds
  let mut ranks := ranks
  let mut min_value ← rd2 domains (← rd min_sorted_vars 0) MIN
  let mut max_value := (← rd2 domains (← rd max_sorted_vars 0) MAX) + 1
  let mut last := (← rdLast l.1) + 1
  bounds ← wr bounds 0 last
  let mut i : Int := 0
  let mut j : Int := 0
  let mut nb : Int := 0
  let mut done := false
  for _ in [0:fuel bounds] do  -- while True
    if i < n ∧ min_value ≤ max_value then
      if min_value != last then
        nb := nb + 1
        last := min_value
        bounds ← wr bounds nb last
      ranks ← wr2 ranks (← rd min_sorted_vars i) MIN nb
      i := i + 1
      if i < n then
        min_value ← rd2 domains (← rd min_sorted_vars i) MIN
    else
      if max_value != last then
        nb := nb + 1
        last := max_value
        bounds ← wr bounds nb last
      ranks ← wr2 ranks (← rd max_sorted_vars j) MAX nb
      j := j + 1
      if j == n then
        done := true
        break
      max_value := (← rd2 domains (← rd max_sorted_vars j) MAX) + 1
  if !done then
    throw .fuel
  bounds ← wr bounds (nb + 1) ((← rdLast u.2) + 1)
  return (nb, bounds, ranks)

/-- returns `(result, t, d, h, domains)` -/
def filter_lower_max (n nb : Int) (t d h bounds : Array Int) (domains ranks : Arr2)
    (max_sorted_vars : Array Int) (u : PSum) :
    Except Err (Bool × Array Int × Array Int × Array Int × Arr2) := do
  let _ := n
  let mut t := t
  let mut d := d
  let mut h := h
  let mut domains := domains
  for i in rangeUp 1 (nb + 2) do
    t ← wr t i (i - 1)
    h ← wr h i (i - 1)
    d ← wr d i (← get_sum u (← rd bounds (i - 1)) ((← rd bounds i) - 1))
  for max_sorted_vars_i in max_sorted_vars do
    let x ← rd2 ranks max_sorted_vars_i MIN
    let y ← rd2 ranks max_sorted_vars_i MAX
    let mut z ← path_max t (x + 1)
    let j ← rd t z
    d ← wr d z ((← rd d z) - 1)
    if (← rd d z) == 0 then
      t ← wr t z (z + 1)
      z ← path_max t (← rd t z)
      t ← wr t z j
    if (← rd d z) < (← get_sum u (← rd bounds y) ((← rd bounds z) - 1)) then
      return (false, t, d, h, domains)
    t ← path_set t (x + 1) z z  -- path compression
    if (← rd h x) > x then
      let w ← path_max h (← rd h x)
      domains ← wr2 domains max_sorted_vars_i MIN (← rd bounds w)
      h ← path_set h x w w  -- path compression
    if (← rd d z) == (← get_sum u (← rd bounds y) ((← rd bounds z) - 1)) then
      h ← path_set h (← rd h y) (j - 1) y  -- mark hall interval
      h ← wr h y (j - 1)
  return (true, t, d, h, domains)

/-- returns `(result, t, d, h, domains)` -/
def filter_upper_max (n nb : Int) (t d h bounds : Array Int) (domains ranks : Arr2)
    (min_sorted_vars : Array Int) (u : PSum) :
    Except Err (Bool × Array Int × Array Int × Array Int × Arr2) := do
  let mut t := t
  let mut d := d
  let mut h := h
  let mut domains := domains
  for i in rangeUp 0 (nb + 1) do
    t ← wr t i (i + 1)
    h ← wr h i (i + 1)
    d ← wr d i (← get_sum u (← rd bounds i) ((← rd bounds (i + 1)) - 1))
  for i in rangeDown (n - 1) (-1) do
    let min_sorted_vars_i ← rd min_sorted_vars i
    let x ← rd2 ranks min_sorted_vars_i MAX
    let y ← rd2 ranks min_sorted_vars_i MIN
    let mut z ← path_min t (x - 1)
    let j ← rd t z
    d ← wr d z ((← rd d z) - 1)
    if (← rd d z) == 0 then
      t ← wr t z (z - 1)
      z ← path_min t (← rd t z)
      t ← wr t z j
    if (← rd d z) < (← get_sum u (← rd bounds z) ((← rd bounds y) - 1)) then
      return (false, t, d, h, domains)
    t ← path_set t (x - 1) z z  -- path compression
    if (← rd h x) < x then
      let w ← path_min h (← rd h x)
      domains ← wr2 domains min_sorted_vars_i MAX ((← rd bounds w) - 1)
      h ← path_set h x w w  -- path compression
    if (← rd d z) == (← get_sum u (← rd bounds z) ((← rd bounds y) - 1)) then
      h ← path_set h (← rd h y) (j + 1) y  -- mark hall interval
      h ← wr h y (j + 1)
  return (true, t, d, h, domains)

/-- returns `(result, tl, c, sets, domains, stbl_intervals, pot_stbl_sets, new_mins)` -/
def filter_lower_min (n nb : Int) (tl c sets bounds : Array Int) (domains ranks : Arr2)
    (max_sorted_vars : Array Int) (l : PSum) (stbl_intervals pot_stbl_sets new_mins : Array Int) :
    Except Err (Bool × Array Int × Array Int × Array Int × Arr2 × Array Int × Array Int × Array Int) := do
  let mut tl := tl
  let mut c := c
  let mut sets := sets
  let mut domains := domains
  let mut stbl_intervals := stbl_intervals
  let mut pot_stbl_sets := pot_stbl_sets
  let mut new_mins := new_mins
  let mut w := nb + 1
  for i in rangeDown (nb + 1) 0 do
    pot_stbl_sets ← wr pot_stbl_sets i (i - 1)
    stbl_intervals ← wr stbl_intervals i (i - 1)
    c ← wr c i (← get_sum l (← rd bounds (i - 1)) ((← rd bounds i) - 1))
    if (← rd c i) == 0 then  -- zero capacity between both bounds: an unstable set between them
      sets ← wr sets (i - 1) w
    else
      sets ← wr sets w (i - 1)
      w := i - 1
  w := nb + 1
  for i in rangeDown (nb + 1) (-1) do
    if (← rd c i) == 0 then
      tl ← wr tl i w
    else
      tl ← wr tl w i
      w := i
  for i in rangeUp 0 max_sorted_vars.size do  -- visit intervals in increasing max order
    let max_sorted_vars_i ← rd max_sorted_vars i
    let x ← rd2 ranks max_sorted_vars_i MIN
    let mut y ← rd2 ranks max_sorted_vars_i MAX
    let mut z ← path_max tl (x + 1)
    let j ← rd tl z
    if z != x + 1 then
      w ← path_max pot_stbl_sets (x + 1)
      let v ← rd pot_stbl_sets w
      pot_stbl_sets ← path_set pot_stbl_sets (x + 1) w w  -- path compression
      w := min y z
      pot_stbl_sets ← path_set pot_stbl_sets (← rd pot_stbl_sets w) v w
      pot_stbl_sets ← wr pot_stbl_sets w v
    if (← rd c z) ≤ (← get_sum l (← rd bounds y) ((← rd bounds z) - 1)) then
      -- (potentialStableSets[y], y] is a stable set
      w ← path_max stbl_intervals (← rd pot_stbl_sets y)
      stbl_intervals ← path_set stbl_intervals (← rd pot_stbl_sets y) w w  -- path compression
      let v ← rd stbl_intervals w
      stbl_intervals ← path_set stbl_intervals (← rd stbl_intervals y) v y
      stbl_intervals ← wr stbl_intervals y v
    else
      c ← wr c z ((← rd c z) - 1)  -- decrease the capacity between the two bounds
      if (← rd c z) == 0 then
        tl ← wr tl z (z + 1)
        z ← path_max tl (← rd tl z)
        tl ← wr tl z j
      if (← rd sets x) > x then
        w ← path_max sets x
        new_mins ← wr new_mins i w
        sets ← path_set sets x w w  -- path compression
      else
        new_mins ← wr new_mins i x  -- do not shrink the variable
      if (← rd c z) == (← get_sum l (← rd bounds y) ((← rd bounds z) - 1)) then  -- an unstable set is discovered
        if (← rd sets y) > y then  -- consider stable and unstable sets beyond y
          y ← rd sets y
        sets ← path_set sets (← rd sets y) (j - 1) y  -- mark the new unstable set
        sets ← wr sets y (j - 1)
    tl ← path_set tl (x + 1) z z  -- path compression
  if (← rd sets nb) != 0 then  -- if there is a failure set
    return (false, tl, c, sets, domains, stbl_intervals, pot_stbl_sets, new_mins)
  -- `w` still holds whatever the loops above left in it
  for i in rangeDown (nb + 1) 0 do
    if (← rd stbl_intervals i) > i then
      stbl_intervals ← wr stbl_intervals i w
    else
      w := i
  for i in rangeDown (n - 1) (-1) do
    let max_sorted_vars_i ← rd max_sorted_vars i
    let x ← rd2 ranks max_sorted_vars_i MIN
    let y ← rd2 ranks max_sorted_vars_i MAX
    if (← rd stbl_intervals x) ≤ x ∨ y > (← rd stbl_intervals x) then
      domains ← wr2 domains max_sorted_vars_i MIN
        (← skip_non_null_elements_right l (← rd bounds (← rd new_mins i)))
  return (true, tl, c, sets, domains, stbl_intervals, pot_stbl_sets, new_mins)

/-- returns `(result, tl, c, sets, domains, new_maxs)` -/
def filter_upper_min (n nb : Int) (tl c sets bounds : Array Int) (domains ranks : Arr2)
    (min_sorted_vars : Array Int) (l : PSum) (stbl_intervals new_maxs : Array Int) :
    Except Err (Bool × Array Int × Array Int × Array Int × Arr2 × Array Int) := do
  let mut tl := tl
  let mut c := c
  let mut sets := sets
  let mut domains := domains
  let mut new_maxs := new_maxs
  let mut w : Int := 0
  for i in rangeUp 0 (nb + 1) do
    c ← wr c i (← get_sum l (← rd bounds i) ((← rd bounds (i + 1)) - 1))
    if (← rd c i) == 0 then  -- zero capacity between both bounds: an unstable set between them
      tl ← wr tl i w
    else
      tl ← wr tl w i
      w := i
  tl ← wr tl w (nb + 1)
  w := 0
  for i in rangeUp 1 (nb + 1) do
    if (← rd c (i - 1)) == 0 then
      sets ← wr sets i w
    else
      sets ← wr sets w i
      w := i
  sets ← wr sets w (nb + 1)
  for i in rangeDown (n - 1) (-1) do  -- visit intervals in decreasing max order
    let min_sorted_vars_i ← rd min_sorted_vars i
    let x ← rd2 ranks min_sorted_vars_i MAX
    let mut y ← rd2 ranks min_sorted_vars_i MIN
    -- solve the lower bound problem
    let mut z ← path_min tl (x - 1)
    let j ← rd tl z
    -- If the variable is not in a discovered stable set
    if (← rd c z) > (← get_sum l (← rd bounds z) ((← rd bounds y) - 1)) then
      c ← wr c z ((← rd c z) - 1)
      if (← rd c z) == 0 then
        tl ← wr tl z (z - 1)
        z ← path_min tl (← rd tl z)
        tl ← wr tl z j
      if (← rd sets x) < x then
        w ← path_min sets (← rd sets x)
        new_maxs ← wr new_maxs i w
        sets ← path_set sets x w w  -- path compression
      else
        new_maxs ← wr new_maxs i x
      if (← rd c z) == (← get_sum l (← rd bounds z) ((← rd bounds y) - 1)) then
        if (← rd sets y) < y then
          y ← rd sets y
        sets ← path_set sets (← rd sets y) (j + 1) y
        sets ← wr sets y (j + 1)
    tl ← path_set tl (x - 1) z z
  -- For all variables that are not subsets of a stable set, shrink the upper bound.
  for i in rangeDown (n - 1) (-1) do
    let min_sorted_vars_i ← rd min_sorted_vars i
    let x ← rd2 ranks min_sorted_vars_i MIN
    let y ← rd2 ranks min_sorted_vars_i MAX
    if (← rd stbl_intervals x) ≤ x ∨ y > (← rd stbl_intervals x) then
      domains ← wr2 domains min_sorted_vars_i MAX
        (← skip_non_null_elements_left l ((← rd bounds (← rd new_maxs i)) - 1))
  return (true, tl, c, sets, domains, new_maxs)

/-- returns the status and the `domains` array after the in-place updates (also when the status
    is PROP_INCONSISTENCY: the array is then partially updated, exactly as in the Python) -/
def compute_domains_gcc (domains : Arr2) (parameters : Array Int) : Except Err (Status × Arr2) := do
  let n : Int := domains.size
  let m : Int := pyDiv ((parameters.size : Int) - 1) 2  -- number of values
  let bounds_nb : Int := 2 * n + 2
  let ranks : Arr2 := Array.replicate n.toNat (0, 0)
  let bounds : Array Int := Array.replicate bounds_nb.toNat 0
  let t : Array Int := Array.replicate bounds_nb.toNat 0  -- critical capacity pointers
  let d : Array Int := Array.replicate bounds_nb.toNat 0  -- differences between critical capacities
  let h : Array Int := Array.replicate bounds_nb.toNat 0  -- Hall interval pointers
  let stbl_intervals : Array Int := Array.replicate bounds_nb.toNat 0
  let pot_stbl_sets : Array Int := Array.replicate bounds_nb.toNat 0
  let new_mins : Array Int := Array.replicate n.toNat 0
  -- parameters[1 : 1 + m] and parameters[1 + m :]  (`m ≥ 0` once parameters[0] exists)
  let l ← init_partial_sum (← rd parameters 0) m (parameters.extract 1 (1 + m.toNat))
  let u ← init_partial_sum (← rd parameters 0) m (parameters.extract (1 + m.toNat) parameters.size)
  let min_sorted_vars := argsort (domains.map (·.1))
  let max_sorted_vars := argsort (domains.map (·.2))
  let (nb, bounds, ranks) ← update_bounds bounds n domains ranks min_sorted_vars max_sorted_vars l u
  if (← get_sum l (← get_min_value l) ((← rd2 domains (← rd min_sorted_vars 0) MIN) - 1)) > 0 then
    return (.inc, domains)
  if (← get_sum l ((← rd2 domains (← rd max_sorted_vars (n - 1)) MAX) + 1) (← get_max_value l)) > 0 then
    return (.inc, domains)
  let (ok, t, d, h, domains) ← filter_lower_max n nb t d h bounds domains ranks max_sorted_vars u
  if !ok then
    return (.inc, domains)
  let (ok, t, d, h, domains, stbl_intervals, _, new_mins) ←
    filter_lower_min n nb t d h bounds domains ranks max_sorted_vars l stbl_intervals pot_stbl_sets new_mins
  if !ok then
    return (.inc, domains)
  let (ok, t, d, h, domains) ← filter_upper_max n nb t d h bounds domains ranks min_sorted_vars u
  if !ok then
    return (.inc, domains)
  let (ok, _, _, _, domains, _) ←
    filter_upper_min n nb t d h bounds domains ranks min_sorted_vars l stbl_intervals new_mins
  if !ok then
    return (.inc, domains)
  return (.cons, domains)

end Gcc

/-- `compute_domains_gcc(domains = B, parameters = ps)` -/
def gcc (ps : List Int) (B : Box) : Res := do
  let (status, domains) ← Gcc.compute_domains_gcc B.toArray ps.toArray
  if status == .inc then
    return (.inc, B)
  return (status, domains.toList)

end Nucs
