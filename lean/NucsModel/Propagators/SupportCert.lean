import NucsModel.Basic
import NucsModel.Propagators.AlldifferentChecked
import NucsModel.Propagators.GccChecked
/-!
  SUPPORT CERTIFICATES for the answers of the two Hall-interval propagators (property C14).

  `alldifferent` and `gcc` are faithful ports of published bounds-consistency algorithms; their
  COMPLETENESS (every bound that survives is attained by a solution) is not proved.  Instead it is
  certified per answer: for a returned box `B'` the functions below SEARCH, for every bound of every
  variable, a solution inside `B'` that attains it, and then RE-CHECK what the search returned with a
  direct Boolean verifier (`inBoxB`, `nodupB`, `gccOkB`).  Only the verifier is trusted
  (NucsProofs/Propagators/SupportCertProofs.lean: `alldiffSupported B' = true` implies that every
  bound of `B'` has a support, which by NucsProofs/Propagators/ExactOfSupport.lean gives the two
  conjuncts of `Exact` for that call).  The searches themselves are unverified and may be as clever
  as one likes; a `false` means "no certificate found", never a wrong certificate.

  * alldifferent: the classical greedy for interval domains (positions by increasing max, each
    taking the smallest free value), which is complete for intervals;
  * gcc: a bounded backtracking search and, when that runs out of fuel, a complete two-phase
    augmenting-path (bipartite flow) construction.

  Everything here is total, executable and Mathlib-free.
-/
namespace Nucs

/-- Boolean `inBox`: the tuple `t` lies in the box `B` (same length, componentwise) -/
def inBoxB : List Int → Box → Bool
  | [], [] => true
  | t :: ts, d :: ds => decide (d.1 ≤ t) && decide (t ≤ d.2) && inBoxB ts ds
  | _, _ => false

/-! ### alldifferent -/

/-- the smallest value `≥ c` that is not in `used` (`fuel > used.length` suffices) -/
def firstFree (used : List Int) : Nat → Int → Int
  | 0, c => c
  | f + 1, c => if used.contains c then firstFree used f (c + 1) else c

/-- give each position of the list, in order, the smallest value of its domain not used so far -/
def alldiffGreedy : List (Nat × Dom) → List Int → List (Nat × Int) → Option (List (Nat × Int))
  | [], _, acc => some acc
  | (i, d) :: rest, used, acc =>
    let c := firstFree used (used.length + 1) d.1
    if c ≤ d.2 then alldiffGreedy rest (c :: used) ((i, c) :: acc) else none

/-- the order of the greedy: increasing max, ties by increasing min -/
def alldiffOrder (a b : Nat × Dom) : Bool :=
  decide (a.2.2 < b.2.2) || (decide (a.2.2 = b.2.2) && decide (a.2.1 ≤ b.2.1))

/-- try to build a tuple of `B` with pairwise distinct values and `t[k] = v` -/
def alldiffWitness (B : Box) (k : Nat) (v : Int) : Option (List Int) :=
  let others := ((List.range B.length).zip B).filter (fun p => p.1 != k)
  match alldiffGreedy (others.mergeSort alldiffOrder) [v] [] with
  | none => none
  | some asg => some ((List.range B.length).map (fun i => if i == k then v else (asg.lookup i).getD 0))

/-- the direct verifier of an alldifferent support: a tuple of `B` with distinct values and `t[k] = v` -/
def alldiffSupportOk (B : Box) (k : Nat) (v : Int) (t : List Int) : Bool :=
  inBoxB t B && nodupB t && decide (getI t k = v)

/-- a support of `x_k = v` was found AND verified -/
def alldiffHasSupport (B : Box) (k : Nat) (v : Int) : Bool :=
  match alldiffWitness B k v with
  | some t => alldiffSupportOk B k v t
  | none => false

/-- every bound of `B` has a verified alldifferent support -/
def alldiffSupported (B : Box) : Bool :=
  (List.range B.length).all (fun k =>
    alldiffHasSupport B k (getDom B k).1 && alldiffHasSupport B k (getDom B k).2)

/-! ### gcc: backtracking -/

/-- `Σ_j max 0 (l_j - cnt_j)`: the occurrences still owed to the lower capacities -/
def gccDeficit : List Int → List Int → Int
  | l :: ls, c :: cs => (if l > c then l - c else 0) + gccDeficit ls cs
  | _, _ => 0

/-- add `δ` to the counter of value `val` (values outside `v0 … v0+m-1` are not counted) -/
def gccBump (v0 : Int) (m : Nat) (cnt : List Int) (val δ : Int) : List Int :=
  if val < v0 ∨ val ≥ v0 + (m : Int) then cnt
  else cnt.set (val - v0).toNat (getI cnt (val - v0).toNat + δ)

/-- may one more variable take `val`? (`cnt` already counts it) -/
def gccCapOk (v0 : Int) (m : Nat) (us cnt : List Int) (val : Int) : Bool :=
  if val < v0 ∨ val ≥ v0 + (m : Int) then true
  else decide (getI cnt (val - v0).toNat ≤ getI us (val - v0).toNat)

/-- iterative depth-first search, one step per unit of fuel.
    `todo`: the domains of the positions not yet assigned, `cur`: the next value to try for the head
    of `todo`, `done`: the assigned positions, last first, as (value, domain), `cnt`: the occurrence
    counters of the assigned values.  A value is tried only if its upper capacity is respected and
    the lower capacities can still be reached with the positions left. -/
def gccBt (v0 : Int) (m : Nat) (ls us : List Int) :
    Nat → List Dom → Int → List (Int × Dom) → List Int → Option (List Int)
  | 0, _, _, _, _ => none
  | fuel + 1, todo, cur, done, cnt =>
    match todo with
    | [] =>
      if gccDeficit ls cnt ≤ 0 then some (done.reverse.map (·.1))
      else match done with
        | [] => none
        | (val, d0) :: done' => gccBt v0 m ls us fuel [d0] (val + 1) done' (gccBump v0 m cnt val (-1))
    | d :: rest =>
      if cur > d.2 then
        match done with
        | [] => none
        | (val, d0) :: done' =>
          gccBt v0 m ls us fuel (d0 :: todo) (val + 1) done' (gccBump v0 m cnt val (-1))
      else
        let cnt' := gccBump v0 m cnt cur 1
        if gccCapOk v0 m us cnt' cur && decide (gccDeficit ls cnt' ≤ (rest.length : Int)) then
          gccBt v0 m ls us fuel rest ((rest.head?.map (·.1)).getD 0) ((cur, d) :: done) cnt'
        else
          gccBt v0 m ls us fuel todo (cur + 1) done cnt

/-- bounded backtracking search for a tuple of `B` that satisfies the cardinalities -/
def gccWitnessBt (ps : List Int) (B : Box) (fuel : Nat) : Option (List Int) :=
  gccBt (getI ps 0) (gccM ps) (gccLs ps) (gccUs ps) fuel B ((B.head?.map (·.1)).getD 0) []
    (List.replicate (gccM ps) 0)

/-! ### gcc: augmenting paths (complete, polynomial) -/

/-- the first success of `f` over a list, threading a state -/
def firstSome {α σ β : Type} (f : α → σ → σ × Option β) : List α → σ → σ × Option β
  | [], s => (s, none)
  | x :: xs, s =>
    match f x s with
    | (s', some r) => (s', some r)
    | (s', none) => firstSome f xs s'

/-- a partial assignment: the value of each position, if any -/
abbrev PAsg := List (Option Int)

def PAsg.occ (asg : PAsg) (w : Int) : Nat := List.count (some w) asg

/-- phase 1 (Kuhn, from the side of the values): make one MORE position take the value `w` without
    lowering the number of occurrences of any other value.  `vis`: positions already tried. -/
def gccAug1 (B : Box) : Nat → Int → List Nat → PAsg → List Nat × Option PAsg
  | 0, _, vis, _ => (vis, none)
  | fuel + 1, w, vis, asg =>
    firstSome (fun (x : Nat) (vis : List Nat) =>
      let d := getDom B x
      if decide (d.1 ≤ w) && decide (w ≤ d.2) && !vis.contains x && asg.getD x none != some w then
        match asg.getD x none with
        | none => (x :: vis, some (asg.set x (some w)))
        | some w' =>
          match gccAug1 B fuel w' (x :: vis) asg with
          | (vis', some asg') => (vis', some (asg'.set x (some w)))
          | (vis', none) => (vis', none)
      else (vis, none)) (List.range B.length) vis

/-- phase 2 (Kuhn, from the side of the positions): give the unassigned position `x` a value without
    lowering the number of occurrences of any value and without exceeding an upper capacity.
    `vis`: values already tried. -/
def gccAug2 (v0 : Int) (m : Nat) (us : List Int) (B : Box) :
    Nat → Nat → List Int → PAsg → List Int × Option PAsg
  | 0, _, vis, _ => (vis, none)
  | fuel + 1, x, vis, asg =>
    let d := getDom B x
    firstSome (fun (w : Int) (vis : List Int) =>
      if vis.contains w then (vis, none)
      else if w < v0 ∨ w ≥ v0 + (m : Int) ∨ (asg.occ w : Int) < getI us (w - v0).toNat then
        (w :: vis, some (asg.set x (some w)))
      else
        match firstSome (fun (y : Nat) (vis : List Int) =>
            if asg.getD y none == some w then gccAug2 v0 m us B fuel y vis asg else (vis, none))
            (List.range B.length) (w :: vis) with
        | (vis', some asg') => (vis', some (asg'.set x (some w)))
        | (vis', none) => (vis', none))
      ((List.range (d.2 - d.1 + 1).toNat).map (fun (i : Nat) => d.1 + (i : Int))) vis

/-- repeat phase 1 until the value `w` occurs `l` times -/
def gccFill1 (B : Box) (w : Int) : Nat → PAsg → Option PAsg
  | 0, asg => some asg
  | need + 1, asg =>
    match (gccAug1 B (B.length + 2) w [] asg).2 with
    | some asg' => gccFill1 B w need asg'
    | none => none

/-- phase 1 for all values `v0 + j`, `j = 0 … m-1` (`js` enumerates the `j` still to do) -/
def gccPhase1 (v0 : Int) (ls : List Int) (B : Box) : List Nat → PAsg → Option PAsg
  | [], asg => some asg
  | j :: js, asg =>
    match gccFill1 B (v0 + (j : Int)) (getI ls j).toNat asg with
    | some asg' => gccPhase1 v0 ls B js asg'
    | none => none

/-- phase 2 for all positions still unassigned -/
def gccPhase2 (v0 : Int) (m : Nat) (us : List Int) (B : Box) : List Nat → PAsg → Option PAsg
  | [], asg => some asg
  | x :: xs, asg =>
    if (asg.getD x none).isSome then gccPhase2 v0 m us B xs asg
    else match (gccAug2 v0 m us B (B.length + 2) x [] asg).2 with
      | some asg' => gccPhase2 v0 m us B xs asg'
      | none => none

/-- a tuple of `B` that satisfies the cardinalities, by bipartite flow: first saturate the lower
    capacities, then assign the remaining positions under the upper capacities -/
def gccWitnessFlow (ps : List Int) (B : Box) : Option (List Int) :=
  let v0 := getI ps 0
  let m := gccM ps
  match gccPhase1 v0 (gccLs ps) B (List.range m) (List.replicate B.length none) with
  | none => none
  | some asg =>
    match gccPhase2 v0 m (gccUs ps) B (List.range B.length) asg with
    | none => none
    | some asg' => some (asg'.map (fun o => o.getD 0))

/-! ### gcc: certificate -/

/-- the fuel (number of steps) of the backtracking search -/
def gccBtFuel : Nat := 20000

/-- try to build a tuple of `B` with `t[k] = v` that satisfies all cardinalities `l_j ≤ count ≤ u_j` -/
def gccWitness (ps : List Int) (B : Box) (k : Nat) (v : Int) : Option (List Int) :=
  let B1 := B.set k (v, v)
  match gccWitnessBt ps B1 gccBtFuel with
  | some t => some t
  | none => gccWitnessFlow ps B1

/-- the direct verifier of a gcc support: a tuple of `B` within the cardinalities and `t[k] = v` -/
def gccSupportOk (ps : List Int) (B : Box) (k : Nat) (v : Int) (t : List Int) : Bool :=
  inBoxB t B && gccOkB ps t && decide (getI t k = v)

/-- a support of `x_k = v` was found AND verified -/
def gccHasSupport (ps : List Int) (B : Box) (k : Nat) (v : Int) : Bool :=
  match gccWitness ps B k v with
  | some t => gccSupportOk ps B k v t
  | none => false

/-- every bound of `B` has a verified gcc support -/
def gccSupported (ps : List Int) (B : Box) : Bool :=
  (List.range B.length).all (fun k =>
    gccHasSupport ps B k (getDom B k).1 && gccHasSupport ps B k (getDom B k).2)

end Nucs
