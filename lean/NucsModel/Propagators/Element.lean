import NucsModel.Basic
/-!
  element_iv (`l[i] = v`, l constant list), element_lic (`l[i] = c`, l variables),
  element_liv (`l[i] = v`, l variables), relation.

  All three element propagators clamp the index to `[0, len-1]`, drop unsupported indices
  from both ends of the index domain and fail when none is left.
-/
namespace Nucs

/-- the candidate indices `range(max(i.MIN,0), min(i.MAX,len-1)+1)` -/
def idxRange (i : Dom) (len : Nat) : List Nat :=
  let lo := max i.1 0
  let hi := min i.2 ((len : Int) - 1)
  (List.range (hi + 1 - lo).toNat).map (fun k => lo.toNat + k)

def minL : List Int → Int
  | [] => 0
  | [a] => a
  | a :: as => min a (minL as)
def maxL : List Int → Int
  | [] => 0
  | [a] => a
  | a :: as => max a (maxL as)

/-- element_iv_propagator: variables `(i, v)`, parameters `l` -/
def elementIv (l : List Int) (B : Box) : Status × Box :=
  let i := getDom B 0
  let v := getDom B 1
  let S := (idxRange i l.length).filter (fun k => decide (v.1 ≤ getI l k) && decide (getI l k ≤ v.2))
  match S with
  | [] => (.inc, B)
  | s0 :: _ =>
    let sl := S.getLastD s0
    let vals := S.map (getI l)
    let v' : Dom := (max v.1 (minL vals), min v.2 (maxL vals))
    (if s0 == sl then .ent else .cons, [((s0 : Int), (sl : Int)), v'])

/-- element_lic_propagator: variables `l_0 … l_{m-1}, i`, parameters `[c]` -/
def elementLic (ps : List Int) (B : Box) : Status × Box :=
  let c := getI ps 0
  let l := B.front
  let i := B.back
  let S := (idxRange i l.length).filter (fun k => decide ((getDom l k).1 ≤ c) && decide (c ≤ (getDom l k).2))
  match S with
  | [] => (.inc, B)
  | s0 :: _ =>
    let sl := S.getLastD s0
    if s0 == sl then (.ent, l.set s0 (c, c) ++ [((s0 : Int), (sl : Int))])
    else (.cons, l ++ [((s0 : Int), (sl : Int))])

/-- element_liv_propagator: variables `l_0 … l_{m-1}, i, v` -/
def elementLiv (_ps : List Int) (B : Box) : Status × Box :=
  let l := B.front.front
  let i := B.front.back
  let v := B.back
  let S := (idxRange i l.length).filter
    (fun k => !(decide (v.2 < (getDom l k).1) || decide (v.1 > (getDom l k).2)))
  match S with
  | [] => (.inc, B)
  | s0 :: _ =>
    let sl := S.getLastD s0
    let v' : Dom := (max v.1 (minL (S.map (fun k => (getDom l k).1))), min v.2 (maxL (S.map (fun k => (getDom l k).2))))
    if s0 == sl then
      (if v'.1 == v'.2 then .ent else .cons, l.set s0 v' ++ [((s0 : Int), (sl : Int)), v'])
    else (.cons, l ++ [((s0 : Int), (sl : Int)), v'])

/-- split a flat parameter list into rows of length `n` (`reshape((-1, n))`) -/
def chunks (n : Nat) : Nat → List Int → List (List Int)
  | 0, _ => []
  | fuel + 1, ps => if ps.length < n ∨ n = 0 then [] else ps.take n :: chunks n fuel (ps.drop n)

def tupleIn : List Int → Box → Bool
  | [], [] => true
  | t :: ts, d :: ds => decide (d.1 ≤ t) && decide (t ≤ d.2) && tupleIn ts ds
  | _, _ => false

/-- column `k` of a list of rows -/
def column (rows : List (List Int)) (k : Nat) : List Int := rows.map (fun r => getI r k)

/-- relation_propagator: allowed tuples listed in the parameters -/
def relation (ps : List Int) (B : Box) : Status × Box :=
  let n := B.length
  let rows := (chunks n ps.length ps).filter (fun r => tupleIn r B)
  match rows with
  | [] => (.inc, B)
  | _ =>
    let B' : Box := (List.range n).map (fun k => (minL (column rows k), maxL (column rows k)))
    (if rows.length == 1 then .ent else .cons, B')

end Nucs
