import NucsModel.Propagators.Alldifferent
/-!
  alldifferent, CERTIFIED-RESULT form.

  `alldifferent` (NucsModel/Propagators/Alldifferent.lean) is a line-by-line port of the
  López-Ortiz et al. bounds-consistency algorithm; proving the port correct directly is out of
  reach.  `alldifferentC` runs the port and then VALIDATES its answer with a simple decidable
  checker (`checkAllDiff`) whose soundness is proved in NucsProofs/Propagators/AlldifferentC.lean:

  * a failure must be justified by an over-full interval (`infeasible`): more variables whose
    domain lies inside `[a, b]` than values in `[a, b]`;
  * every value removed from the domain of `x_i` must be justified by a Hall interval of the
    OTHER variables (`forbidden`): an interval `[a, b] ∋ v` that already contains the domains of
    at least `b - a + 1` variables other than `x_i`;
  * the result must be a non-empty sub-box, and when it is a point its values must be distinct.

  When the checker rejects (or the port throws), a trivially correct answer is returned
  (`fallback`).  The differential tests show the checker never rejects on in-contract inputs, i.e.
  that this model still equals the code.  Everything here is total, executable and polynomial.
-/
namespace Nucs

/-- `d ⊆ [a, b]` -/
def Dom.inside (d : Dom) (a b : Int) : Bool := decide (a ≤ d.1) && decide (d.2 ≤ b)

/-- number of positions `j ≠ skip` whose domain is contained in `[a, b]` -/
def hallCount : (B : Box) → (skip : Option Nat) → (a b : Int) → Nat
  | [], _, _, _ => 0
  | _ :: ds, some 0, a, b => hallCount ds none a b
  | d :: ds, some (k + 1), a, b => (if d.inside a b then 1 else 0) + hallCount ds (some k) a b
  | d :: ds, none, a, b => (if d.inside a b then 1 else 0) + hallCount ds none a b

/-- the lower bounds / upper bounds occurring in `B` (candidate ends of Hall intervals) -/
def Box.mins (B : Box) : List Int := (B.map (·.1)).eraseDups
def Box.maxs (B : Box) : List Int := (B.map (·.2)).eraseDups

/-- `[a, b] ∋ v` is filled by the variables other than `x_i` -/
def hallAt (B : Box) (i : Nat) (v a b : Int) : Bool :=
  decide (a ≤ v) && decide (v ≤ b) && decide (hallCount B (some i) a b ≥ (b - a + 1).toNat)

/-- value `v` cannot be taken by `x_i`: the other variables already fill a Hall interval
    `[a, b] ∋ v` (with `a` some lower bound and `b` some upper bound of `B`) -/
def forbidden (B : Box) (i : Nat) (v : Int) : Bool :=
  B.mins.any (fun a => B.maxs.any (fun b => hallAt B i v a b))

/-- `[a, b]` holds more variables than values -/
def overfull (B : Box) (a b : Int) : Bool :=
  decide (a ≤ b) && decide (hallCount B none a b > (b - a + 1).toNat)

/-- some interval `[a, b]` holds more variables than values -/
def infeasible (B : Box) : Bool :=
  B.mins.any (fun a => B.maxs.any (fun b => overfull B a b))

/-- the values removed from `d` when it is replaced by `d'` are all forbidden for `x_i` -/
def removedOk (B : Box) (i : Nat) (d d' : Dom) : Bool :=
  (List.range (d'.1 - d.1).toNat).all (fun k => forbidden B i (d.1 + (k : Int))) &&
  (List.range (d.2 - d'.2).toNat).all (fun k => forbidden B i (d'.2 + 1 + (k : Int)))

/-- position by position (`i` = index of the heads in `B0`): `d'` is a non-empty sub-interval of
    `d` and what was removed is forbidden -/
def checkDoms (B0 : Box) : Nat → Box → Box → Bool
  | _, [], [] => true
  | i, d :: ds, d' :: ds' =>
    decide (d.1 ≤ d'.1) && decide (d'.1 ≤ d'.2) && decide (d'.2 ≤ d.2) && removedOk B0 i d d' &&
      checkDoms B0 (i + 1) ds ds'
  | _, _, _ => false

/-- Boolean `List.Nodup` -/
def nodupB (l : List Int) : Bool := decide l.Nodup

/-- the certificate check of an answer `(st, B')` of alldifferent on `B` -/
def checkAllDiff (B : Box) (st : Status) (B' : Box) : Bool :=
  match st with
  | .inc => infeasible B
  | .cons => checkDoms B 0 B B' && (!B'.isGround || nodupB (B'.map (·.1)))
  | .ent => false

/-- a trivially correct answer: fail on a point with a repeated value, otherwise change nothing -/
def fallback (B : Box) : Status × Box :=
  if B.isGround && !nodupB (B.map (·.1)) then (.inc, B) else (.cons, B)

/-- run the port, keep its answer if the checker accepts it, otherwise fall back -/
def alldifferentC (ps : List Int) (B : Box) : Res :=
  match alldifferent ps B with
  | .ok (st, B') =>
    if checkAllDiff B st B' then .ok (st, if st = .inc then B else B') else .ok (fallback B)
  | .error _ => .ok (fallback B)

/-- did `alldifferentC` have to use the fallback? (test instrumentation only) -/
def alldifferentC_fellBack (ps : List Int) (B : Box) : Bool :=
  match alldifferent ps B with
  | .ok (st, B') => !checkAllDiff B st B'
  | .error _ => true

end Nucs
