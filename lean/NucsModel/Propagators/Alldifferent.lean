import NucsModel.Basic
/-!
  alldifferent  (nucs/propagators/alldifferent_propagator.py) — tier T3: a line-by-line PORT.

  This is a model of the code that exists, not of the algorithm of the paper: nothing is repaired.
  One Lean function per Python function, same variable names, same statement order.

  * arrays are `Array Int` of their Python sizes (`bounds`, `t`, `d`, `h` : `2n+2`; `ranks`,
    `domains` : `n × 2`, kept as `Array (Int × Int)`); every read and write goes through the
    checked accessors `rd`/`wr`/`rd2`/`wr2`, which throw `Err.oob` when the index is negative or
    `≥ size` (NumPy would wrap a negative index, the compiled code checks nothing);
  * every `while` is run for at most `fuel a = 4·size + 16` iterations and throws `Err.fuel` after
    that (the Python would still be looping);
  * integer widths (uint16 for `ranks`, `t`, `h`; int32 elsewhere) are NOT modelled;
  * `np.argsort` is modelled as a STABLE sort (ties keep index order).  NumPy's default kind is
    `quicksort`, which is not stable in general.  The compiled (Numba) code uses Numba's own
    quicksort (numba/misc/quicksort.py), which finishes every partition of fewer than 16 elements
    (`SMALL_QUICKSORT = 15`) with an insertion sort, so it IS stable for the small arrays used here.
    (With `NUMBA_DISABLE_JIT=1` the call goes to NumPy instead, whose classic quicksort does the
    same for n ≤ 16, but on AVX512/AVX2 CPUs NumPy ≥ 2.0 dispatches int32 argsort to a SIMD bitonic
    network that is NOT stable even for n = 2; harness/t3_difftest.py therefore compares against
    `kind="stable"` and separately checks that the tie order does not change the result.)
-/
namespace Nucs
namespace AllDiff

/-- column indices of `domains` and `ranks` -/
def MIN : Int := 0
def MAX : Int := 1

/-- an `n × 2` NumPy array -/
abbrev Arr2 := Array (Int × Int)

/-- checked read `a[i]` -/
def rd (a : Array Int) (i : Int) : Except Err Int :=
  if i < 0 then throw .oob
  else match a[i.toNat]? with
    | some v => pure v
    | none => throw .oob

/-- checked write `a[i] = v` -/
def wr (a : Array Int) (i : Int) (v : Int) : Except Err (Array Int) :=
  if i < 0 then throw .oob
  else if i.toNat < a.size then pure (a.setIfInBounds i.toNat v)
  else throw .oob

/-- checked read `a[i, k]`, `k ∈ {MIN, MAX}` -/
def rd2 (a : Arr2) (i : Int) (k : Int) : Except Err Int :=
  if i < 0 then throw .oob
  else match a[i.toNat]? with
    | some r => pure (if k == MIN then r.1 else r.2)
    | none => throw .oob

/-- checked write `a[i, k] = v`, `k ∈ {MIN, MAX}` -/
def wr2 (a : Arr2) (i : Int) (k : Int) (v : Int) : Except Err Arr2 :=
  if i < 0 then throw .oob
  else match a[i.toNat]? with
    | some r => pure (a.setIfInBounds i.toNat (if k == MIN then (v, r.2) else (r.1, v)))
    | none => throw .oob

/-- iteration budget of a `while` loop working on the array `a` -/
def fuel (a : Array Int) : Nat := 4 * a.size + 16

/-- Python `range(a, b)` -/
def rangeUp (a b : Int) : List Int := (List.range (b - a).toNat).map (fun (k : Nat) => a + Int.ofNat k)
/-- Python `range(a, b, -1)` -/
def rangeDown (a b : Int) : List Int := (List.range (a - b).toNat).map (fun (k : Nat) => a - Int.ofNat k)

/-- insert index `i` behind every index whose key is `≤ key i` -/
def insertIdx (key : Int → Int) (i : Int) : List Int → List Int
  | [] => [i]
  | j :: js => if key i < key j then i :: j :: js else j :: insertIdx key i js

/-- `np.argsort(keys)`: stable insertion sort of the indices `0 … len-1` by key -/
def argsort (keys : Array Int) : Array Int :=
  ((rangeUp 0 keys.size).foldl (fun acc i => insertIdx (fun j => keys.getD j.toNat 0) i acc) []).toArray

/-- `while (p := start) != end: start = t[p]; t[p] = value` -/
def path_set (t : Array Int) (start end_ value : Int) : Except Err (Array Int) := do
  let mut t := t
  let mut start := start
  for _ in [0:fuel t] do
    let p := start
    if p == end_ then
      return t
    start ← rd t p
    t ← wr t p value
  throw .fuel

/-- `while t[i] < i: i = t[i]` -/
def path_min (t : Array Int) (i : Int) : Except Err Int := do
  let mut i := i
  for _ in [0:fuel t] do
    if !((← rd t i) < i) then
      return i
    i ← rd t i
  throw .fuel

/-- `while t[i] > i: i = t[i]` -/
def path_max (t : Array Int) (i : Int) : Except Err Int := do
  let mut i := i
  for _ in [0:fuel t] do
    if !((← rd t i) > i) then
      return i
    i ← rd t i
  throw .fuel

/-- returns `(nb, bounds, ranks)` -/
def update_bounds (bounds : Array Int) (n : Int) (domains : Arr2) (ranks : Arr2)
    (min_sorted_vars max_sorted_vars : Array Int) : Except Err (Int × Array Int × Arr2) := do
  let mut bounds := bounds
  let mut ranks := ranks
  let mut min_value ← rd2 domains (← rd min_sorted_vars 0) MIN
  let mut max_value := (← rd2 domains (← rd max_sorted_vars 0) MAX) + 1
  let mut last := min_value - 2
  bounds ← wr bounds 0 last
  let mut i : Int := 0
  let mut j : Int := 0
  let mut nb : Int := 0
  let mut done := false
  for _ in [0:fuel bounds] do  -- while True
    if i < n ∧ min_value ≤ max_value then
      if min_value != last then
        nb := nb + 1
        last := min_value
        bounds ← wr bounds nb last
      ranks ← wr2 ranks (← rd min_sorted_vars i) MIN nb
      i := i + 1
      if i < n then
        min_value ← rd2 domains (← rd min_sorted_vars i) MIN
    else
      if max_value != last then
        nb := nb + 1
        last := max_value
        bounds ← wr bounds nb last
      ranks ← wr2 ranks (← rd max_sorted_vars j) MAX nb
      j := j + 1
      if j == n then
        done := true
        break
      max_value := (← rd2 domains (← rd max_sorted_vars j) MAX) + 1
  if !done then
    throw .fuel
  bounds ← wr bounds (nb + 1) ((← rd bounds nb) + 2)
  return (nb, bounds, ranks)

/-- returns `(result, t, d, h, domains)` -/
def filter_lower (n nb : Int) (t d h bounds : Array Int) (domains ranks : Arr2)
    (max_sorted_vars : Array Int) :
    Except Err (Bool × Array Int × Array Int × Array Int × Arr2) := do
  let _ := n
  let mut t := t
  let mut d := d
  let mut h := h
  let mut domains := domains
  for i in rangeUp 1 (nb + 2) do
    t ← wr t i (i - 1)
    h ← wr h i (i - 1)
    d ← wr d i ((← rd bounds i) - (← rd bounds (i - 1)))
  for max_sorted_vars_i in max_sorted_vars do
    let x ← rd2 ranks max_sorted_vars_i MIN
    let y ← rd2 ranks max_sorted_vars_i MAX
    let mut z ← path_max t (x + 1)
    let j ← rd t z
    d ← wr d z ((← rd d z) - 1)
    if (← rd d z) == 0 then
      t ← wr t z (z + 1)
      z ← path_max t (← rd t z)
      t ← wr t z j
    if (← rd d z) + (← rd bounds y) < (← rd bounds z) then
      return (false, t, d, h, domains)
    t ← path_set t (x + 1) z z  -- path compression
    if (← rd h x) > x then
      let w ← path_max h (← rd h x)
      domains ← wr2 domains max_sorted_vars_i MIN (← rd bounds w)
      h ← path_set h x w w  -- path compression
    if (← rd d z) + (← rd bounds y) == (← rd bounds z) then
      h ← path_set h (← rd h y) (j - 1) y  -- mark hall interval
      h ← wr h y (j - 1)
  return (true, t, d, h, domains)

/-- returns `(result, t, d, h, domains)` -/
def filter_upper (n nb : Int) (t d h bounds : Array Int) (domains ranks : Arr2)
    (min_sorted_vars : Array Int) :
    Except Err (Bool × Array Int × Array Int × Array Int × Arr2) := do
  let mut t := t
  let mut d := d
  let mut h := h
  let mut domains := domains
  for i in rangeUp 0 (nb + 1) do
    t ← wr t i (i + 1)
    h ← wr h i (i + 1)
    d ← wr d i ((← rd bounds (i + 1)) - (← rd bounds i))
  for i in rangeDown (n - 1) (-1) do
    let min_sorted_vars_i ← rd min_sorted_vars i
    let x ← rd2 ranks min_sorted_vars_i MAX
    let y ← rd2 ranks min_sorted_vars_i MIN
    let mut z ← path_min t (x - 1)
    let j ← rd t z
    d ← wr d z ((← rd d z) - 1)
    if (← rd d z) == 0 then
      t ← wr t z (z - 1)
      z ← path_min t (← rd t z)
      t ← wr t z j
    if (← rd d z) + (← rd bounds z) < (← rd bounds y) then
      return (false, t, d, h, domains)
    t ← path_set t (x - 1) z z  -- path compression
    if (← rd h x) < x then
      let w ← path_min h (← rd h x)
      domains ← wr2 domains min_sorted_vars_i MAX ((← rd bounds w) - 1)
      h ← path_set h x w w  -- path compression
    if (← rd d z) + (← rd bounds z) == (← rd bounds y) then
      h ← path_set h (← rd h y) (j + 1) y  -- mark hall interval
      h ← wr h y (j + 1)
  return (true, t, d, h, domains)

/-- returns the status and the `domains` array after the in-place updates (also when the status
    is PROP_INCONSISTENCY: the array is then partially updated, exactly as in the Python) -/
def compute_domains_alldifferent (domains : Arr2) (parameters : Array Int) :
    Except Err (Status × Arr2) := do
  let _ := parameters
  let n : Int := domains.size
  let ranks : Arr2 := Array.replicate n.toNat (0, 0)
  let bounds_nb : Int := 2 * n + 2
  let bounds : Array Int := Array.replicate bounds_nb.toNat 0
  let t : Array Int := Array.replicate bounds_nb.toNat 0  -- critical capacity pointers
  let d : Array Int := Array.replicate bounds_nb.toNat 0  -- differences between critical capacities
  let h : Array Int := Array.replicate bounds_nb.toNat 0  -- Hall interval pointers
  let min_sorted_vars := argsort (domains.map (·.1))
  let max_sorted_vars := argsort (domains.map (·.2))
  let (nb, bounds, ranks) ← update_bounds bounds n domains ranks min_sorted_vars max_sorted_vars
  let (ok, t, d, h, domains) ← filter_lower n nb t d h bounds domains ranks max_sorted_vars
  if !ok then
    return (.inc, domains)
  let (ok, _, _, _, domains) ← filter_upper n nb t d h bounds domains ranks min_sorted_vars
  if !ok then
    return (.inc, domains)
  return (.cons, domains)

end AllDiff

/-- `compute_domains_alldifferent(domains = B, parameters = ps)` -/
def alldifferent (ps : List Int) (B : Box) : Res := do
  let (status, domains) ← AllDiff.compute_domains_alldifferent B.toArray ps.toArray
  if status == .inc then
    return (.inc, B)
  return (status, domains.toList)

end Nucs
