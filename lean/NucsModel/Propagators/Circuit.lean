import NucsModel.Basic
/-!
  no_sub_cycle_propagator and scc_propagator (the circuit model).
-/
namespace Nucs

/-- path bookkeeping of no_sub_cycle: for every vertex the (start, end, length) of the path of
    instantiated successors it is known to lie on.  `paths` is an int16 array in the code;
    widths are not modelled. -/
structure Paths where
  start : List Int
  stop : List Int
  len : List Int
deriving Repr

def Paths.init (n : Nat) : Paths :=
  ⟨(List.range n).map Int.ofNat, (List.range n).map Int.ofNat, List.replicate n 0⟩

/-- checked read: `none` stands for an out-of-bounds index -/
def rdI (l : List Int) (i : Int) : Option Int := if i < 0 then none else l[i.toNat]?
def wrI (l : List Int) (i : Int) (v : Int) : Option (List Int) :=
  if i < 0 ∨ i.toNat ≥ l.length then none else some (l.set i.toNat v)
def rdDom (B : Box) (i : Int) : Option Dom := if i < 0 then none else B[i.toNat]?

/-- result of processing vertex `i` in one sweep -/
inductive NscStep
  | ok (B : Box) (p : Paths) (again : Bool)
  | fail
  | oob

/-- body of the inner `for i` loop -/
def nscVisit (n : Nat) (i : Nat) (B : Box) (p : Paths) : NscStep :=
  let di := getDom B i
  if di.1 = di.2 ∧ getI p.stop i = (i : Int) then
    let j := di.1
    if j = (i : Int) ∧ n > 1 then .fail
    else
      match rdI p.stop j, rdI p.len j with
      | some endv, some lenj =>
        let start := getI p.start i
        -- end = paths[i, END] = paths[j, END];  start = paths[j, START] = paths[i, START]
        match wrI (p.stop.set i endv) start endv, wrI p.start j start with
        | some stop1, some start1 =>
          match wrI start1 endv start with
          | some start2 =>
            let length := getI p.len i + 1 + lenj
            -- paths[i, LEN] = paths[j, LEN] = paths[start, LEN] = paths[end, LEN] = length
            match wrI (p.len.set i length) j length with
            | some len1 =>
              match wrI len1 start length with
              | some len2 =>
                match wrI len2 endv length with
                | some len3 =>
                  let p' : Paths := ⟨start2, stop1, len3⟩
                  if length < (n : Int) - 1 then
                    match rdDom B endv with
                    | some de =>
                      let de1 : Dom := if de.1 = start then (start + 1, de.2) else de
                      let de2 : Dom := if de1.2 = start then (de1.1, start - 1) else de1
                      if de2.1 > de2.2 then .fail
                      else .ok (B.set endv.toNat de2) p' (decide (endv < (i : Int)))
                    | none => .oob
                  else .ok B p' false
                | none => .oob
              | none => .oob
            | none => .oob
          | none => .oob
        | _, _ => .oob
      | _, _ => .oob
  else .ok B p false

/-- one sweep `for i in range(n)` starting at `i` -/
def nscSweep (n : Nat) : Nat → Nat → Box → Paths → Bool → NscStep
  | 0, _, B, p, again => .ok B p again
  | k + 1, i, B, p, again =>
    match nscVisit n i B p with
    | .ok B' p' a => nscSweep n k (i + 1) B' p' (again || a)
    | .fail => .fail
    | .oob => .oob

/-- the `while loop:` restart loop -/
def nscLoop (n : Nat) : Nat → Box → Paths → Res
  | 0, _, _ => .error .fuel
  | fuel + 1, B, p =>
    match nscSweep n n 0 B p false with
    | .ok B' p' true => nscLoop n fuel B' p'
    | .ok B' _ false => .ok (.cons, B')
    | .fail => .ok (.inc, B)
    | .oob => .error .oob

def noSubCycle (_ps : List Int) (B : Box) : Res :=
  nscLoop B.length (B.length * B.length + 2) B (Paths.init B.length)

/-- vertices reachable from the set `R` in at most `k` further steps; `edge i j` is the graph -/
def reachN (n : Nat) (edge : Nat → Nat → Bool) : Nat → List Bool → List Bool
  | 0, R => R
  | k + 1, R =>
    reachN n edge k ((List.range n).map (fun j => getB R j || (List.range n).any (fun i => getB R i && edge i j)))

/-- scc_propagator: every vertex reachable from 0 and 0 reachable from every vertex in the graph
    `i → j` iff `j ∈ dom(x_i)` -/
def scc (_ps : List Int) (B : Box) : Status × Box :=
  let n := B.length
  let edge : Nat → Nat → Bool := fun i j => decide ((getDom B i).1 ≤ (j : Int)) && decide ((j : Int) ≤ (getDom B i).2)
  let seed := (List.range n).map (fun i => i == 0)
  let fwd := reachN n edge n seed
  let bwd := reachN n (fun i j => edge j i) n seed
  if fwd.all id && bwd.all id then (.cons, B) else (.inc, B)

end Nucs
