import NucsModel.Basic
/-!
  affine_eq / affine_geq / affine_leq  (nucs/propagators/affine_*_propagator.py)

  parameters = coefficients ++ [constant];  `cs = ps.dropLast`, `a = ps.getLast`.
  `sumMinC`/`sumMaxC` are Σ of the smallest/largest value of `c·x` over the box, so the code's
  `domain_sum_min = a - sumMaxC` and `domain_sum_max = a - sumMinC`.
  Pruning uses the INPUT bounds (`old_domains`) only: one round of interval reasoning.
-/
namespace Nucs

def minTerm (c : Int) (d : Dom) : Int := if c > 0 then c * d.1 else c * d.2
def maxTerm (c : Int) (d : Dom) : Int := if c > 0 then c * d.2 else c * d.1

def sumMinC : List Int → Box → Int
  | c :: cs, d :: ds => minTerm c d + sumMinC cs ds
  | _, _ => 0
def sumMaxC : List Int → Box → Int
  | c :: cs, d :: ds => maxTerm c d + sumMaxC cs ds
  | _, _ => 0
def dot : List Int → List Int → Int
  | c :: cs, t :: ts => c * t + dot cs ts
  | _, _ => 0

/-- position-wise pruning; positions beyond the coefficients are left alone -/
def pruneWith (f : Int → Dom → Dom) : List Int → Box → Box
  | c :: cs, d :: ds => f c d :: pruneWith f cs ds
  | _, ds => ds

/-- `Σ c x ≤ a`: with `smax = a - sumMinC` (the code's domain_sum_max) -/
def leqPrune (smax : Int) (c : Int) (d : Dom) : Dom :=
  if c = 0 then d
  else if c > 0 then (d.1, min d.2 (d.1 + pyDiv smax c))
  else (max d.1 (d.2 - pyDiv (-smax) c), d.2)

/-- `Σ c x ≥ a`: with `smin = a - sumMaxC` (the code's domain_sum_min) -/
def geqPrune (smin : Int) (c : Int) (d : Dom) : Dom :=
  if c = 0 then d
  else if c > 0 then (max d.1 (d.2 - pyDiv smin (-c)), d.2)
  else (d.1, min d.2 (d.1 + pyDiv (-smin) (-c)))

/-- `Σ c x = a` -/
def eqPrune (smin smax : Int) (c : Int) (d : Dom) : Dom :=
  if c = 0 then d
  else if c > 0 then (max d.1 (d.2 - pyDiv smin (-c)), min d.2 (d.1 + pyDiv smax c))
  else (max d.1 (d.2 - pyDiv (-smax) c), min d.2 (d.1 + pyDiv (-smin) (-c)))

def affineLeqCore (cs : List Int) (a : Int) (B : Box) : Status × Box :=
  let smin := a - sumMaxC cs B
  let smax := a - sumMinC cs B
  if smin ≥ 0 then (.ent, B)
  else if smax < 0 then (.inc, B)
  else
    let B' := pruneWith (leqPrune smax) cs B
    if B'.hasEmpty then (.inc, B) else (.cons, B')

def affineGeqCore (cs : List Int) (a : Int) (B : Box) : Status × Box :=
  let smin := a - sumMaxC cs B
  let smax := a - sumMinC cs B
  if smax ≤ 0 then (.ent, B)
  else if smin > 0 then (.inc, B)
  else
    let B' := pruneWith (geqPrune smin) cs B
    if B'.hasEmpty then (.inc, B) else (.cons, B')

def affineEqCore (cs : List Int) (a : Int) (B : Box) : Status × Box :=
  let smin := a - sumMaxC cs B
  let smax := a - sumMinC cs B
  if smin > 0 ∨ smax < 0 then (.inc, B)
  else
    let B' := pruneWith (eqPrune smin smax) cs B
    if B'.hasEmpty then (.inc, B)
    else if Box.isGround (B'.take cs.length) && dot cs (B'.map (·.1)) != a then (.inc, B)
    else (.cons, B')

def affineLeq (ps : List Int) (B : Box) : Status × Box := affineLeqCore ps.dropLast (ps.getLastD 0) B
def affineGeq (ps : List Int) (B : Box) : Status × Box := affineGeqCore ps.dropLast (ps.getLastD 0) B
def affineEq (ps : List Int) (B : Box) : Status × Box := affineEqCore ps.dropLast (ps.getLastD 0) B

/-- get_triggers_affine_leq: c<0 → MAX, c>0 → MIN, c=0 → nothing -/
def maskAffineLeq (ps : List Int) (k : Nat) : Ev :=
  let c := getI ps.dropLast k
  if c < 0 then Ev.maxOnly else if c > 0 then Ev.minOnly else Ev.none
/-- get_triggers_affine_geq: c<0 → MIN, c>0 → MAX -/
def maskAffineGeq (ps : List Int) (k : Nat) : Ev :=
  let c := getI ps.dropLast k
  if c < 0 then Ev.minOnly else if c > 0 then Ev.maxOnly else Ev.none

end Nucs
