import NucsModel.Propagators.Gcc
/-!
  gcc, CERTIFIED-RESULT form (same design as NucsModel/Propagators/AlldifferentChecked.lean).

  `gcc` (NucsModel/Propagators/Gcc.lean) is a line-by-line port of the Quimper et al.
  bounds-consistency algorithm; proving the port correct directly is out of reach.  `gccC` runs the
  port and then VALIDATES its answer with a simple decidable checker (`checkGcc`) whose soundness is
  proved in NucsProofs/Propagators/GccC.lean.

  parameters `ps = [v0, l_0 … l_{m-1}, u_0 … u_{m-1}]`, `m = (ps.length - 1) / 2`: the value `v0 + j`
  must occur between `l_j` and `u_j` times.

  The certificate of infeasibility (`gccInfeasible`) is the easy direction of Hoffman's condition:
  there is a non-empty set `S` of values (enumerated as the bit masks `1 … 2^m - 1`) with
  * more variables whose domain is contained in `S` than `Σ_{v ∈ S} u_v`, or
  * fewer variables whose domain meets `S` than `Σ_{v ∈ S} l_v`.

  * a failure must be justified by `gccInfeasible ps B`;
  * every value `v` removed from the domain of `x_i` must be justified by
    `gccInfeasible ps (B.set i (v, v))` (fixing `x_i = v` is infeasible);
  * the result must be a non-empty sub-box, and when it is a point it must satisfy the cardinalities.

  The enumeration is exponential in `m`: for `m > 12` the checker rejects.  When the checker
  rejects (or the port throws), a trivially correct answer is returned (`gccFallback`).
  Everything here is total and executable.
-/
namespace Nucs

/-- number of values of a gcc with parameters `ps` -/
def gccM (ps : List Int) : Nat := (ps.length - 1) / 2

/-- the lower capacities `l_0 … l_{m-1}` (as in `rel .gcc` of NucsProofs/Spec.lean) -/
def gccLs (ps : List Int) : List Int := (ps.drop 1).take (gccM ps)

/-- the upper capacities `u_0 … u_{m-1}` (as in `rel .gcc` of NucsProofs/Spec.lean) -/
def gccUs (ps : List Int) : List Int := ps.drop (1 + gccM ps)

/-- the set of values coded by a bit mask: `v0 + w` for every `w < m` with bit `w` of `mask` set -/
def subsetOf (v0 : Int) (m mask : Nat) : List Int :=
  ((List.range m).filter (fun w => mask.testBit w)).map (fun (w : Nat) => v0 + (w : Int))

/-- every value of the interval `d` belongs to `S` (the first test only bounds the cost) -/
def Dom.insideSet (d : Dom) (S : List Int) : Bool :=
  decide ((d.2 - d.1 + 1).toNat ≤ S.length) &&
    (List.range (d.2 - d.1 + 1).toNat).all (fun k => S.contains (d.1 + (k : Int)))

/-- some value of `S` belongs to the interval `d` -/
def Dom.meetsSet (d : Dom) (S : List Int) : Bool :=
  S.any (fun v => decide (d.1 ≤ v) && decide (v ≤ d.2))

/-- `Σ_{v ∈ S} caps[v - v0]` -/
def capSum (v0 : Int) (caps : List Int) : List Int → Int
  | [] => 0
  | v :: S => getI caps (v - v0).toNat + capSum v0 caps S

/-- `S` witnesses infeasibility: too many variables confined to `S`, or too few can reach `S` -/
def gccViolated (v0 : Int) (ls us : List Int) (B : Box) (S : List Int) : Bool :=
  decide ((B.countP (fun d => d.insideSet S) : Int) > capSum v0 us S) ||
  decide ((B.countP (fun d => d.meetsSet S) : Int) < capSum v0 ls S)

def gccInfeasibleAux (v0 : Int) (m : Nat) (ls us : List Int) (B : Box) : Bool :=
  (List.range (2 ^ m - 1)).any (fun k => gccViolated v0 ls us B (subsetOf v0 m (k + 1)))

/-- some non-empty set of values witnesses that `B` contains no solution -/
def gccInfeasible (ps : List Int) (B : Box) : Bool :=
  gccInfeasibleAux (getI ps 0) (gccM ps) (gccLs ps) (gccUs ps) B

/-- the tuple `t` satisfies the cardinalities (decides `rel .gcc ps t`) -/
def gccOkB (ps : List Int) (t : List Int) : Bool :=
  (List.range (gccLs ps).length).all (fun j =>
    decide (getI (gccLs ps) j ≤ (t.count (getI ps 0 + (j : Int)) : Int)) &&
    decide ((t.count (getI ps 0 + (j : Int)) : Int) ≤ getI (gccUs ps) j))

/-- the values removed from `d` when it is replaced by `d'` cannot be taken by `x_i` -/
def gccRemovedOk (ps : List Int) (B : Box) (i : Nat) (d d' : Dom) : Bool :=
  (List.range (d'.1 - d.1).toNat).all (fun k =>
    gccInfeasible ps (B.set i (d.1 + (k : Int), d.1 + (k : Int)))) &&
  (List.range (d.2 - d'.2).toNat).all (fun k =>
    gccInfeasible ps (B.set i (d'.2 + 1 + (k : Int), d'.2 + 1 + (k : Int))))

/-- position by position (`i` = index of the heads in `B0`): `d'` is a non-empty sub-interval of
    `d` and what was removed is justified -/
def gccCheckDoms (ps : List Int) (B0 : Box) : Nat → Box → Box → Bool
  | _, [], [] => true
  | i, d :: ds, d' :: ds' =>
    decide (d.1 ≤ d'.1) && decide (d'.1 ≤ d'.2) && decide (d'.2 ≤ d.2) && gccRemovedOk ps B0 i d d' &&
      gccCheckDoms ps B0 (i + 1) ds ds'
  | _, _, _ => false

/-- the certificate check of an answer `(st, B')` of gcc on `B` -/
def checkGcc (ps : List Int) (B : Box) (st : Status) (B' : Box) : Bool :=
  if gccM ps > 12 then false
  else match st with
    | .inc => gccInfeasible ps B
    | .cons => gccCheckDoms ps B 0 B B' && (!B'.isGround || gccOkB ps (B'.map (·.1)))
    | .ent => false

/-- a trivially correct answer: fail on a point that violates the cardinalities, otherwise change
    nothing -/
def gccFallback (ps : List Int) (B : Box) : Status × Box :=
  if B.isGround && !gccOkB ps (B.map (·.1)) then (.inc, B) else (.cons, B)

/-- run the port, keep its answer if the checker accepts it, otherwise fall back -/
def gccC (ps : List Int) (B : Box) : Res :=
  match gcc ps B with
  | .ok (st, B') =>
    if checkGcc ps B st B' then .ok (st, if st = .inc then B else B') else .ok (gccFallback ps B)
  | .error _ => .ok (gccFallback ps B)

/-- did `gccC` have to use the fallback? (test instrumentation only) -/
def gccC_fellBack (ps : List Int) (B : Box) : Bool :=
  match gcc ps B with
  | .ok (st, B') => !checkGcc ps B st B'
  | .error _ => true

end Nucs
