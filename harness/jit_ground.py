"""
C06 in COMPILED mode: every instantiated tuple is accepted iff it satisfies the relation.  The interpreted sweep cannot see
a defect that only exists without bounds checking (an out-of-range read that the interpreter turns into IndexError reads
neighbouring memory in compiled code and may ACCEPT the tuple).  Run as a worker:  python jit_ground.py <cases.json> <out.json>
"""
import json
import os
import sys

HERE = os.path.dirname(os.path.abspath(__file__))
sys.path.insert(0, HERE)
import nv  # noqa: E402


def main():
    nv.setup_env(jit=True)
    import oracle

    cases = json.load(open(sys.argv[1]))
    out = []
    for alg, ps, t in cases:
        box = [(x, x) for x in t]
        st, res = nv.impl_prop(alg, ps, box)
        if st == "oob":
            continue
        ok_w = oracle.rel_weak(alg, ps, t)
        ok_s = oracle.rel(alg, ps, t)
        if st != 0 and not ok_w:
            out.append({"alg": alg, "params": ps, "box": [[x, x] for x in t], "kind": "ground", "mode": "jit",
                        "detail": f"compiled code ACCEPTS the instantiated tuple {t} (status {st}) although it violates the relation"})
        elif st == 0 and ok_s:
            out.append({"alg": alg, "params": ps, "box": [[x, x] for x in t], "kind": "ground", "mode": "jit",
                        "detail": f"compiled code rejects the instantiated tuple {t} although it satisfies the relation"})
    json.dump(out, open(sys.argv[2], "w"))


if __name__ == "__main__":
    main()
