"""
C08 (d), evaluated directly on the REAL code: the wake-up events a constraint declares are sufficient.

For sampled in-contract calls (ps, B) -> (st != inconsistent, B') of the real compute_domains_<alg>, every non-empty
sub-box B'' of B' that no event WATCHED by the real get_triggers_<alg>(n, ps) separates from the input B must be a
fixpoint of the real call (statement `TrigOk` of Spec.lean; for no_sub_cycle, which reacts to instantiation only,
the instantiated form `TrigOkP`: such a ground B'' must not fail).  Independently the declared masks are compared with
the model's `maskAlg` (driver op `trig`).
"""
import itertools
import random

import gen
import nv


def ev_of(o, n):
    e = 0
    if n[0] != o[0]:
        e |= 1
    if n[1] != o[1]:
        e |= 2
    if tuple(n) != tuple(o) and n[0] == n[1]:
        e |= 4
    return e


def real_masks(alg, n, ps):
    import numpy as np
    import nucs.propagators.propagators as P

    f = getattr(P, "get_triggers_" + alg)
    return [int(x) for x in f(n, np.array(ps, dtype=np.int32))]


def sub_intervals(d):
    return [(a, b) for a in range(d[0], d[1] + 1) for b in range(a, d[1] + 1)]


def check_one(alg, ps, b, cap=5000):
    """the trigger-sufficiency statement on one call of the real code; returns a description of the failure or None"""
    b = [tuple(d) for d in b]
    n = len(b)
    masks = real_masks(alg, n, ps)
    st, out = nv.impl_prop(alg, ps, b)
    if st in (0, "oob", "hang"):
        return None
    out = [tuple(d) for d in out]
    count = 0
    for sb in itertools.product(*[sub_intervals(d) for d in out]):
        count += 1
        if count > cap:
            break
        if any(masks[k] & ev_of(b[k], sb[k]) for k in range(n)):
            continue
        if alg == "no_sub_cycle" and not all(d[0] == d[1] for d in sb):
            continue
        st2, out2 = nv.impl_prop(alg, ps, list(sb))
        if st2 in (0, "oob", "hang"):
            return f"masks {masks}: sub-box {list(sb)} of the result {out} is reached by unwatched events only, yet re-execution fails ({st2})"
        if alg != "no_sub_cycle" and [tuple(d) for d in out2] != list(sb):
            return f"masks {masks}: sub-box {list(sb)} of the result {out} is reached by unwatched events only, yet re-execution prunes to {out2}"
    return None


def sweep(ctx, report):
    rng = random.Random(ctx["seed"] + 808)
    per_alg = 80 if ctx["tier"] == "quick" else 1500
    cap = 80 if ctx["tier"] == "quick" else 400
    model = nv.Model()
    viol, corr = [], []
    reqs = []
    for alg in gen.ALGS:
        scope = list(gen.prop_scope(alg))
        cases = rng.sample(scope, min(per_alg, len(scope))) + [gen.prop_random(alg, rng) for _ in range(per_alg // 2)]
        seen_masks = set()
        for ps, b in cases:
            b = [tuple(d) for d in b]
            n = len(b)
            try:
                masks = real_masks(alg, n, ps)
            except Exception as e:  # noqa: BLE001
                corr.append({"alg": alg, "params": list(ps), "n": n, "implementation": "get_triggers raised " + type(e).__name__, "model": "?"})
                continue
            key = (n, tuple(ps))
            if key not in seen_masks:
                seen_masks.add(key)
                reqs.append((f"trig {alg} {nv.enc_ints(ps)} {n}", nv.enc_ints(masks), {"alg": alg, "params": list(ps), "n": n}))
            st, out = nv.impl_prop(alg, ps, b)
            report.cov["evaluations"] += 1
            if st in (0, "oob", "hang"):
                continue
            out = [tuple(d) for d in out]
            size = 1
            for d in out:
                size *= (d[1] - d[0] + 1) * (d[1] - d[0] + 2) // 2
            if size <= cap:
                subs = itertools.product(*[sub_intervals(d) for d in out])
            else:
                subs = (tuple(rng.choice(sub_intervals(d)) for d in out) for _ in range(cap))
            for sb in subs:
                if any(masks[k] & ev_of(b[k], sb[k]) for k in range(n)):
                    continue
                if alg == "no_sub_cycle" and not all(d[0] == d[1] for d in sb):
                    continue  # known finding K3: only the instantiated form is claimed
                if list(sb) == list(out) and False:
                    continue
                st2, out2 = nv.impl_prop(alg, ps, list(sb))
                report.cov["evaluations"] += 1
                report.count("trigger_subboxes", alg)
                bad = None
                if st2 in (0, "oob", "hang"):
                    bad = f"fails ({st2})"
                elif alg != "no_sub_cycle" and [tuple(d) for d in out2] != list(sb):
                    bad = f"still prunes to {out2}"
                if bad:
                    viol.append({"alg": alg, "params": list(ps), "box": [list(d) for d in b], "kind": "trigger",
                                 "detail": f"declared masks {masks}: after the call on {b} (result {out}) the sub-box {list(sb)} is reached by "
                                           f"unwatched events only, yet re-executing the constraint on it {bad}: the constraint would not be woken"})
                    break
                if list(sb) != list(b):
                    report.nontrivial(("trig", alg, tuple(ps), tuple(b), tuple(sb)))
    answers = model.ask([q for q, _, _ in reqs])
    for (q, impl, case), ans in zip(reqs, answers):
        if impl != ans:
            corr.append(dict(case, kind="masks", implementation=impl, model=ans))
    report.count("trigger_mask_vectors_compared", None, len(reqs))
    return corr, viol
