"""
Step-level correspondence on reachable search states: a random walk of the REAL engine
(propagation pass / branching decision with a real value heuristic / backtrack), in which every
propagation pass and every branching decision is replayed on the Lean model from the same
snapshot (`bc` and `heur` requests) and, independently of the model, checked directly:

  C08: after a non-failing pass every domain is a non-empty subset of what it was, the queue is
       empty, and re-executing every enabled constraint on the result neither fails nor (except
       no_sub_cycle) changes a domain;
  C07: a constraint disabled by the pass is satisfied by every tuple of its current views;
  C09: a branching decision partitions the chosen domain, leaves everything else untouched,
       announces every bound it moved; backtracking restores the saved alternative.
"""
import itertools

import numpy as np

import nv
import oracle


class RealEngine:
    def __init__(self, prob, height=64):
        self.prob = prob
        self.problem = prob.build()
        self.cfg = nv.Cfg(height=height)
        self.s = self.cfg.solver(self.problem)
        from nucs.solvers.backtrack_solver import get_function_addresses

        self.addrs = get_function_addresses()[0]

    @property
    def top(self):
        return int(self.s.stacks_top[0])

    def doms(self, level=None):
        level = self.top if level is None else level
        return [(int(a), int(b)) for a, b in self.s.shr_domains_stack[level]]

    def ne(self, level=None):
        level = self.top if level is None else level
        return [bool(x) for x in self.s.not_entailed_propagators_stack[level]]

    def trig(self):
        return [bool(x) for x in self.s.triggered_propagators]

    def stats(self):
        return [int(x) for x in self.s.statistics]

    def bc(self):
        from nucs.solvers.bound_consistency_algorithm import bound_consistency_algorithm

        p, s = self.problem, self.s
        return int(
            bound_consistency_algorithm(
                s.statistics, p.algorithms, p.var_bounds, p.param_bounds, p.dom_indices_arr, p.dom_offsets_arr,
                p.props_dom_indices, p.props_dom_offsets, p.props_parameters, p.triggers, s.shr_domains_stack,
                s.not_entailed_propagators_stack, s.dom_update_stack, s.stacks_top, s.triggered_propagators,
                self.addrs, s.decision_domains,
            )
        )

    def branch(self, heur_name, d, costs=None):
        import nucs.heuristics.heuristics as H
        from nucs.propagators.propagators import add_propagators

        fct = [f for f in H.DOM_HEURISTIC_FCTS if f.__name__ == heur_name][0]
        params = np.array(costs if costs is not None else [[]], dtype=np.int64)
        s = self.s
        ev = int(fct(params, s.shr_domains_stack, s.not_entailed_propagators_stack, s.dom_update_stack, s.stacks_top, d))
        add_propagators(s.triggered_propagators, s.not_entailed_propagators_stack[self.top], self.problem.triggers, d, ev)
        return ev

    def backtrack(self):
        from nucs.solvers.choice_points import backtrack

        s = self.s
        return bool(backtrack(s.statistics, s.not_entailed_propagators_stack, s.dom_update_stack, s.stacks_top,
                              s.triggered_propagators, self.problem.triggers))

    def sorted_props(self):
        """constraints in execution order as (vars, alg name, params)"""
        p = self.problem
        names = nv.alg_names()
        out = []
        for i in range(p.propagator_nb):
            vs, a, ps = p.propagators[i]
            out.append((list(vs), names[a], list(ps)))
        return out


def views(prob, doms, vs):
    return [(doms[prob.idx[v]][0] + prob.off[v], doms[prob.idx[v]][1] + prob.off[v]) for v in vs]


def check_pass(prob, props, before, after, ne_before, ne_after, trig_after):
    """direct evaluation of C08 (a)(b) and C07 on the real engine's pass; list of (kind, detail)"""
    bad = []
    for d, (o, n) in enumerate(zip(before, after)):
        if n[0] > n[1]:
            bad.append(("shrink", f"domain {d} empty after a non-failing pass: {n}"))
        if n[0] < o[0] or n[1] > o[1]:
            bad.append(("shrink", f"domain {d} grew: {o} -> {n}"))
    if any(trig_after):
        bad.append(("queue", f"pass ended with constraints still queued: {trig_after}"))
    for q, (vs, a, ps) in enumerate(props):
        v = views(prob, after, vs)
        if ne_after[q]:
            st, out = nv.impl_prop(a, ps, v)
            if a == "no_sub_cycle" and (st == 0) and not all(x[0] == x[1] for x in v):
                # known finding K3: no_sub_cycle watches instantiation only; an unwatched bound change can make a
                # re-execution prune and fail while some variable is still open (the failure is then found later)
                bad.append(("K3", f"re-executing no_sub_cycle on {v} fails although the pass ended consistent"))
            elif st in (0, "oob", "hang"):
                bad.append(("fixpoint", f"re-executing enabled constraint {q} ({a} {ps} on {v}) fails: {st}"))
            elif a != "no_sub_cycle" and [tuple(x) for x in out] != [tuple(x) for x in v]:
                # a change of the views matters only if the write-back would tighten a shared domain
                bad.append(("fixpoint", f"re-executing enabled constraint {q} ({a} {ps}) changes {v} -> {out}"))
        elif oracle.box_size(v) <= 3000:
            viol = [t for t in oracle.tuples(v) if not oracle.rel(a, ps, t)]
            if viol:
                bad.append(("entailed", f"constraint {q} ({a} {ps}) is disabled but {viol[0]} in its views {v} violates it"))
    return bad


def check_branch(before, levels_after, top_before, d, ev, heur):
    """C09 on the real arrays: levels_after = list of (doms, upd_idx, upd_ev) for levels top_before..new top"""
    bad = []
    a, b = before[d]
    parts = [lv[0][d] for lv in levels_after]
    for lv in levels_after:
        for k, (o, n) in enumerate(zip(before, lv[0])):
            if k != d and o != n:
                bad.append(("others", f"{heur}: domain {k} changed by a decision on {d}"))
    vals = []
    for lo, hi in parts:
        if lo > hi:
            bad.append(("partition", f"{heur} on [{a},{b}]: empty sub-range {lo}..{hi}"))
        vals += list(range(lo, hi + 1))
    if sorted(vals) != list(range(a, b + 1)):
        bad.append(("partition", f"{heur} on [{a},{b}]: sub-ranges {parts} do not partition the domain"))
    # events of the branch taken (the new top = last level)
    def needed(o, n):
        e = 0
        if n[0] != o[0]:
            e |= 1
        if n[1] != o[1]:
            e |= 2
        if n != o and n[0] == n[1]:
            e |= 4
        return e
    taken = parts[-1]
    if needed((a, b), taken) & ~ev:
        bad.append(("events", f"{heur} on [{a},{b}] takes {taken} but announces only {ev}"))
    for (doms, ui, ue), part in zip(levels_after[:-1], parts[:-1]):
        if ui != d:
            bad.append(("events", f"{heur}: recorded update index {ui} != {d}"))
        if needed((a, b), part) & ~ue:
            bad.append(("events", f"{heur} on [{a},{b}] keeps alternative {part} but records only events {ue}"))
    return bad


def walk(prob, rng, model_reqs, steps=12):
    """random walk on the real engine; appends (request line, expected answer, replay) to model_reqs
    and returns the list of direct violations"""
    try:
        with nv.guard(30):
            return _walk(prob, rng, model_reqs, steps)
    except nv.Hang as e:
        return [{"op": "walk", "kind": "hang", "problem": prob.to_json(), "detail": f"a propagation pass / decision of the real engine did not return: {e}"}], {"bc": 0, "branch": 0, "backtrack": 0}


def _walk(prob, rng, model_reqs, steps=12):
    eng = RealEngine(prob)
    props = eng.sorted_props()
    enc = prob.enc()
    viol = []
    nsteps = {"bc": 0, "branch": 0, "backtrack": 0}
    pending_bc = True
    for _ in range(steps):
        if pending_bc:
            before, ne_b, trig_b, st_b = eng.doms(), eng.ne(), eng.trig(), eng.stats()
            status = eng.bc()
            after, ne_a, trig_a, st_a = eng.doms(), eng.ne(), eng.trig(), eng.stats()
            delta = [x - y for x, y in zip(st_a, st_b)]
            req = f"bc {enc} {nv.enc_box(before)} {nv.enc_bools(ne_b)} {nv.enc_bools(trig_b)}"
            if status == 0:
                exp = f"0 {nv.enc_bools(trig_a)} {nv.enc_ints(delta)}"
            else:
                exp = f"{status} {nv.enc_box(after)} {nv.enc_bools(ne_a)} {nv.enc_bools(trig_a)} {nv.enc_ints(delta)}"
            replay = {"op": "bc", "problem": prob.to_json(), "doms": before, "not_entailed": ne_b, "triggered": trig_b}
            model_reqs.append((req, exp, replay))
            nsteps["bc"] += 1
            if status != 0:
                for kind, detail in check_pass(prob, props, before, after, ne_b, ne_a, trig_a):
                    viol.append(dict(replay, kind=kind, detail=detail))
            pending_bc = False
            if status in (0, 2):
                top0 = eng.top
                saved = (eng.doms(top0 - 1), eng.ne(top0 - 1)) if top0 > 0 else None
                ok = eng.backtrack()
                if ok != (top0 > 0):
                    viol.append({"op": "backtrack", "kind": "backtrack", "detail": f"backtrack returned {ok} with top={top0}", "problem": prob.to_json()})
                if not ok:
                    break
                if eng.top != top0 - 1 or (eng.doms(), eng.ne()) != saved:
                    viol.append({"op": "backtrack", "kind": "backtrack", "problem": prob.to_json(),
                                 "detail": f"after backtracking from level {top0} the state is level {eng.top} {eng.doms()} instead of the saved alternative {saved}"})
                nsteps["backtrack"] += 1
                pending_bc = True
                continue
        # unbound: branch on a random unbound domain with a random shipped value heuristic
        doms = eng.doms()
        unbound = [d for d, (a, b) in enumerate(doms) if a < b]
        if not unbound or eng.top + 3 >= 60:
            break
        d = rng.choice(unbound)
        heur = rng.choice(nv.DOM_HEURS[:4] if any(a < 0 for a, b in doms) else nv.DOM_HEURS)
        costs = None
        if heur == "min_cost_dom_heuristic":
            maxv = max(b for a, b in prob.shr)
            costs = [[rng.choice([1, 1, 2, 3, 5]) for _ in range(maxv + 1)] for _ in prob.shr]
            if costs != [[]]:
                # like the zero diagonal of a TSP matrix: at most ONE non-positive ("no cost") entry per row, so that every unbound
                # domain still contains a value of positive cost (the heuristic's precondition); often in the LAST column
                for row in costs:
                    if row and rng.random() < 0.5:
                        row[rng.choice([len(row) - 1, len(row) - 2, rng.randrange(len(row))]) % len(row)] = 0
        top0 = eng.top
        ev = eng.branch(heur, d, costs)
        levels = []
        for lv in range(top0, eng.top + 1):
            levels.append((eng.doms(lv), int(eng.s.dom_update_stack[lv, 0]), int(eng.s.dom_update_stack[lv, 1])))
        nsteps["branch"] += 1
        req = f"heur {heur} {nv.enc_rows(costs) if costs else '-'} {nv.enc_box(doms)} {d}"
        alts = ";".join(f"{nv.enc_box(l[0])}|{l[1]}|{l[2]}" for l in reversed(levels[:-1]))
        exp = f"{nv.enc_box(levels[-1][0])} {alts} {ev}"
        replay = {"op": "heur", "heuristic": heur, "costs": costs, "doms": doms, "dom_idx": d}
        model_reqs.append((req, exp, replay))
        for kind, detail in check_branch(doms, levels, top0, d, ev, heur):
            viol.append(dict(replay, kind=kind, detail=detail))
        pending_bc = True
    return viol, nsteps
