"""
Single filtering calls in COMPILED mode: worker that runs (alg, params, box) cases with the JIT enabled and writes the
(status, box) of each; the parent compares them with the interpreted results (C15: mode independence at the level of
one call — integer promotion, typed lists, unchecked indexing only exist on one side).
usage: python jit_calls.py <cases.json> <out.json>
"""
import json
import os
import sys

HERE = os.path.dirname(os.path.abspath(__file__))
sys.path.insert(0, HERE)
import nv  # noqa: E402


def main():
    nv.setup_env(jit=True)
    cases = json.load(open(sys.argv[1]))
    out = []
    for alg, ps, box in cases:
        st, res = nv.impl_prop(alg, ps, [tuple(d) for d in box])
        out.append([st, res])
    json.dump(out, open(sys.argv[2], "w"))


if __name__ == "__main__":
    main()
